import FluentProofs.SerializerOutShape4
import FluentProofs.SerializerML2
/-!
# Serializer lemmas, part 21: every pattern `get_pattern` returns is in the class `mlPattern` (C04)

`getPattern_mlPattern`: for every source without the byte 13, every fuel and every start position, the
pattern returned by `get_pattern` (resolved to bytes) satisfies `mlPattern`: line-split texts without
braces, adjacent texts only across a line break, every text that starts a line is a blank line / has a
content byte that may continue a pattern / is the indentation in front of a placeable, the last text is
trimmed, the first text fits the layout the serializer chooses, and some line has no excess indentation.
-/
namespace FluentProofs.Ser
open FluentModel FluentModel.Syntax FluentModel.Syntax.Ser FluentProofs.Parser

/-! ## tree-level lemmas -/

theorem mlElems_mono (B : List (PatElem Bytes)) (h : mlElems true B = true) : mlElems false B = true := by
  cases B with
  | nil => rfl
  | cons e es =>
    cases e with
    | placeable x => rw [mlElems_pl] at h ⊢; exact h
    | text v =>
      rw [mlElems_text] at h ⊢
      simp only [Bool.and_eq_true] at h ⊢
      exact ⟨⟨h.1.1, by simp⟩, h.2⟩

theorem leadSpaces_cons32 (v : Bytes) : leadSpaces (32 :: v) = leadSpaces v + 1 := by
  simp [leadSpaces]

theorem leadSpaces_zero_head {v : Bytes} (h : leadSpaces v = 0) : v.head? ≠ some 32 := by
  cases v with
  | nil => simp
  | cons b v' =>
    intro h0
    simp only [List.head?_cons, Option.some.injEq] at h0
    subst h0
    rw [leadSpaces_cons32] at h; omega

theorem leadSpaces_of_head {b : UInt8} {v : Bytes} (h : b ≠ 32) : leadSpaces (b :: v) = 0 := by
  simp [leadSpaces, h]

theorem dropWhile_of_head {b : UInt8} {v : Bytes} (h : b ≠ 32) : (b :: v).dropWhile (fun x => x == 32) = b :: v := by
  simp [h]

theorem mlTextOK_ne' {v : Bytes} (h : mlTextOK v = true) : v ≠ [] := by
  intro h0; subst h0; simp [mlTextOK] at h

/-- the first text of a pattern whose first element starts a line does not start with `.`, `[`, `*` -/
theorem noDot_of_lineStart (v : Bytes) (es : List (PatElem Bytes)) (hv : mlTextOK v = true) (hne : v ≠ [10])
    (h : (v == [10] || lineStartOK v es) = true) : hasLeadingTextDot (.text v :: es) = false := by
  have hls : lineStartOK v es = true := by
    simp only [Bool.or_eq_true, beq_iff_eq] at h
    rcases h with h | h
    · exact absurd h hne
    · exact h
  cases v with
  | nil => exact absurd rfl (mlTextOK_ne' hv)
  | cons b v' =>
    simp only [hasLeadingTextDot]
    by_cases hb : b = 32
    · subst hb; rfl
    · simp only [lineStartOK, dropWhile_of_head hb, contentStartOK, Bool.and_eq_true, bne_iff_ne, ne_eq] at hls
      simp [hls.1.1.2, hls.1.2, hls.2]

theorem endsNl_contains {v : Bytes} (h : v.contains 10 = false) : endsNl v = false := by
  simp only [endsNl, beq_eq_false_iff_ne, ne_eq]
  intro h0
  have := List.mem_of_getLast? h0
  simp at h
  exact h this

/-- **from the facts the parser delivers to the class** (`nl0` = the pattern started on a new line in the source) -/
theorem mlPattern_of_strong (B : List (PatElem Bytes)) (nl0 : Bool) (hne : B ≠ [])
    (hml : mlElems nl0 B = true) (hlast : mlLastOK B = true)
    (hexc : excesses nl0 B = [] ∨ 0 ∈ excesses nl0 B)
    (hfI : nl0 = false → ∀ v es, B = .text v :: es → ∃ x, v.head? = some x ∧ x ≠ 32 ∧ x ≠ 10)
    (hfL : nl0 = true → ∀ v es, B = .text v :: es → v ≠ [10]) : mlPattern B = true := by
  have hcontains : ∀ (X : Prop) (l : List Nat), (l = [] ∨ 0 ∈ l) →
      (X ∨ l.isEmpty = true) ∨ l.contains 0 = true := by
    intro X l h
    rcases h with h | h
    · subst h; exact Or.inl (Or.inr rfl)
    · exact Or.inr (by simp [h])
  unfold mlPattern
  simp only [Bool.and_eq_true, Bool.or_eq_true, Bool.not_eq_true', List.isEmpty_eq_false_iff]
  cases nl0 with
  | true =>
    cases hsn : startsOnNewLine B with
    | true =>
      refine ⟨⟨⟨⟨hne, hml⟩, hlast⟩, ?_⟩, hcontains _ _ hexc⟩
      cases B with
      | nil => rfl
      | cons e es =>
        cases e with
        | placeable x => rfl
        | text v => simp only [mlFirstOK, hsn, if_true]; simpa using hfL rfl v es rfl
    | false =>
      cases B with
      | nil => exact absurd rfl hne
      | cons e es =>
        cases e with
        | placeable x =>
          refine ⟨⟨⟨⟨hne, mlElems_mono _ hml⟩, hlast⟩, rfl⟩, ?_⟩
          have : isMultiline (.placeable x :: es) = false := by
            simpa [startsOnNewLine, hasLeadingTextDot] using hsn
          exact Or.inl (Or.inl this)
        | text v =>
          have hv10 := hfL rfl v es rfl
          rw [mlElems_text] at hml
          simp only [Bool.and_eq_true, Bool.not_true, Bool.false_or] at hml
          have hnd := noDot_of_lineStart v es hml.1.1.1 hv10 hml.1.2
          have hmulti : isMultiline (.text v :: es) = false := by
            simpa [startsOnNewLine, hnd] using hsn
          have hmulti' := hmulti
          simp only [isMultiline, Bool.or_eq_false_iff] at hmulti'
          have hen := endsNl_contains hmulti'.1
          have hex : excesses true (.text v :: es) = [leadSpaces v] := by
            rw [excesses_text, hen, excesses_single es hmulti'.2]
            simp [hv10]
          rw [hex] at hexc
          have hl0 : leadSpaces v = 0 := by
            rcases hexc with h | h
            · cases h
            · have : 0 = leadSpaces v := by simpa using h
              exact this.symm
          refine ⟨⟨⟨⟨hne, ?_⟩, hlast⟩, ?_⟩, Or.inl (Or.inl hmulti)⟩
          · rw [mlElems_text]; simp [hml.1.1.1, hml.1.1.2, hml.2]
          · simp only [mlFirstOK, hsn, Bool.false_eq_true, if_false, Bool.and_eq_true, bne_iff_ne, ne_eq]
            refine ⟨leadSpaces_zero_head hl0, ?_⟩
            cases v with
            | nil => simp
            | cons b v' =>
              have hb : b ≠ 32 := by
                intro h0; subst h0; rw [leadSpaces_cons32] at hl0; omega
              have hls : lineStartOK (b :: v') es = true := by
                have := hml.1.2
                simp only [Bool.or_eq_true, beq_iff_eq] at this
                rcases this with h | h
                · exact absurd h hv10
                · exact h
              simp only [lineStartOK, dropWhile_of_head hb, contentStartOK, Bool.and_eq_true, bne_iff_ne, ne_eq] at hls
              simp [hls.1.1.1.2]
  | false =>
    cases hsn : startsOnNewLine B with
    | false =>
      refine ⟨⟨⟨⟨hne, hml⟩, hlast⟩, ?_⟩, hcontains _ _ hexc⟩
      cases B with
      | nil => rfl
      | cons e es =>
        cases e with
        | placeable x => rfl
        | text v =>
          obtain ⟨x, hx, h32, h10⟩ := hfI rfl v es rfl
          simp [mlFirstOK, hsn, hx, h32, h10]
    | true =>
      cases B with
      | nil => exact absurd rfl hne
      | cons e es =>
        cases e with
        | placeable x =>
          refine ⟨⟨⟨⟨hne, by rw [mlElems_pl] at hml ⊢; exact hml⟩, hlast⟩, rfl⟩, Or.inr ?_⟩
          rw [excesses_pl]; simp
        | text v =>
          obtain ⟨x, hx, h32, h10⟩ := hfI rfl v es rfl
          cases v with
          | nil => simp at hx
          | cons b v' =>
            simp only [List.head?_cons, Option.some.injEq] at hx
            subst hx
            have hnd : hasLeadingTextDot (.text (b :: v') :: es) = false := by
              simp only [startsOnNewLine, Bool.and_eq_true, Bool.not_eq_true'] at hsn; exact hsn.1
            simp only [hasLeadingTextDot, Bool.or_eq_false_iff, beq_eq_false_iff_ne] at hnd
            have hv10 : (b :: v') ≠ [10] := by intro h0; cases h0; exact h10 rfl
            have hls : lineStartOK (b :: v') es = true := by
              simp [lineStartOK, dropWhile_of_head h32, contentStartOK, h32, h10, hnd.1.1, hnd.1.2, hnd.2]
            rw [mlElems_text] at hml
            simp only [Bool.and_eq_true] at hml
            refine ⟨⟨⟨⟨hne, ?_⟩, hlast⟩, ?_⟩, Or.inr ?_⟩
            · rw [mlElems_text]; simp [hml.1.1.1, hml.1.1.2, hml.2, hls]
            · simp only [mlFirstOK, hsn, if_true]; simpa using hv10
            · rw [excesses_text]
              have : ((b :: v') != [10]) = true := by simpa using hv10
              simp [this, leadSpaces_of_head h32]

/-! ## `get_pattern` -/

theorem pinv_init_inline {s : Src} (p1 : Nat) (h32 : s[p1]? ≠ some 32) (hE : skipEol s p1 = none) :
    PInv s .initialLineStart ⟨[], none, none, .initialLineStart, none⟩ p1 := by
  refine ⟨trivial, ⟨rfl, ?_⟩, rfl, fun i hi => by cases hi⟩
  intro c hc
  refine ⟨fun h0 => h32 (by rw [hc, h0]), fun h0 => ?_⟩
  subst h0
  simp [skipEol, hc] at hE

theorem pinv_init_block {s : Src} (q : Nat) :
    PInv s .lineStart ⟨[], none, none, .lineStart, none⟩ (skipBlankBlock s q).1 := by
  refine ⟨trivial, ⟨rfl, ?_⟩, rfl, fun i hi => by cases hi⟩
  intro h10
  have hlt := get_lt h10
  have hle := (skipBlankInline_after s (skipBlankBlock s q).1).le
  exact skipBlankBlock_notBlank s q (by omega)
    (Or.inl ⟨skipBlankInline s (skipBlankBlock s q).1 + 1, by simp [skipEol, h10]⟩)

/-- the state the loop returns, finished -/
theorem finish_mlPattern {s : Src} {r0 : TextPos} (hr0 : r0 = .lineStart ∨ r0 = .initialLineStart)
    {st : PatState} {p' : Nat} (hI : PInv s r0 st p') {lnb : Nat}
    (hl : st.lastNonBlank = some lnb) {els : List (PatElem Span)}
    (hf : finishElements s st.keptCommonIndent lnb 0 st.elements = some els) :
    mlPattern (mapPat (spanBytes s) els) = true := by
  obtain ⟨⟨ph, hph, hsv⟩, hk⟩ := hI.lnb lnb hl
  have hlt := getElem?_lt_length hph
  have hF := fin_shape (s := s) st.keptCommonIndent lnb _ st.elements (Nat.le_refl _) 0 (.first r0) els hI.chk
    (Nat.zero_le _) (by omega) (fun x hx => by rw [Nat.sub_zero, hph] at hx; cases hx; exact hsv) hf
  rw [Nat.sub_zero] at hF
  have hexc : excesses (nlOf (.first r0)) (mapPat (spanBytes s) els) = [] ∨
      0 ∈ excesses (nlOf (.first r0)) (mapPat (spanBytes s) els) := by
    rw [hF.exc, hk]
    generalize lineInds s (.first r0) (st.elements.take (lnb + 1)) = L
    cases hm : minL L with
    | none => left; rw [(minL_spec L).1.mp hm]; rfl
    | some c =>
      right
      have := ((minL_spec L).2 c hm).1
      rw [List.mem_map]
      exact ⟨c, this, by simp [eff]⟩
  refine mlPattern_of_strong _ (nlOf (.first r0)) hF.ne hF.ml hF.last hexc ?_ ?_
  · intro h0 v es hv
    rcases hr0 with h | h
    · subst h; cases h0
    · subst h; exact hF.firstI rfl v es hv
  · intro h0 v es hv
    rcases hr0 with h | h
    · subst h; exact hF.firstL rfl v es hv
    · subst h; cases h0

/-- **Every pattern `get_pattern` returns is in the class `mlPattern`** (sources without `\r`; any fuel, any
start position). -/
theorem getPattern_mlPattern {s : Src} (hcr : NoCR s) (n p : Nat) (els : List (PatElem Span)) (q : Nat)
    (h : getPattern s n p = .ok (some els) q) : mlPattern (mapPat (spanBytes s) els) = true := by
  cases n with
  | zero => simp [getPattern] at h
  | succ n =>
    cases hE : skipEol s (skipBlankInline s p) with
    | none =>
      simp only [getPattern, hE] at h
      split at h <;> try (cases h; done)
      rename_i st q' hloop
      obtain ⟨p', hI⟩ := patternLoop_pinv hcr .initialLineStart n _ _ st q'
        (pinv_init_inline _ (sbi_stop s p) hE) hloop
      split at h
      · rename_i lnb hl
        split at h <;> try (cases h; done)
        rename_i els' hf
        cases h
        exact finish_mlPattern (Or.inr rfl) hI hl hf
      · cases h
    | some q0 =>
      simp only [getPattern, hE] at h
      split at h <;> try (cases h; done)
      rename_i st q' hloop
      obtain ⟨p', hI⟩ := patternLoop_pinv hcr .lineStart n _ _ st q' (pinv_init_block q0) hloop
      split at h
      · rename_i lnb hl
        split at h <;> try (cases h; done)
        rename_i els' hf
        cases h
        exact finish_mlPattern (Or.inl rfl) hI hl hf
      · cases h

end FluentProofs.Ser
