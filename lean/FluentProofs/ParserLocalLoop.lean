import FluentProofs.ParserLocalDefs
/-!
# Locality of the parser (C03): facts about the two entry loops that do not depend on the entry parsers

`loopStep` names what one iteration of `parseLoop` adds to the accumulators; `parseLoop_succ` is the unfolding in
those terms.  Consequences: the accumulators are only appended to (`parseLoop_acc_eq`), a larger iteration budget
does not change a finished run (`parseLoop_mono_N`), the blank-line count is only looked at when a comment is
pending (`parseLoop_none_cnt`), and a pending comment in front of a non-comment entry only changes how that first
entry is recorded (`parseLoop_pending`, `attachC`).
-/
namespace FluentProofs.Parser
open FluentModel.Syntax

/-- map over the value of a finished outcome -/
def mapD {α β : Type} (f : α → β) : Outcome α → Outcome β
  | .done a => .done (f a)
  | .panic m => .panic m
  | .outOfFuel => .outOfFuel

@[simp] theorem mapD_done {α β : Type} (f : α → β) (a : α) : mapD f (.done a) = .done (f a) := rfl
@[simp] theorem mapD_panic {α β : Type} (f : α → β) (m : String) : mapD f (.panic m : Outcome α) = .panic m := rfl
@[simp] theorem mapD_fuel {α β : Type} (f : α → β) : mapD f (.outOfFuel : Outcome α) = .outOfFuel := rfl

theorem mapD_mapD {α β γ : Type} (f : α → β) (g : β → γ) (o : Outcome α) : mapD g (mapD f o) = mapD (g ∘ f) o := by
  cases o <;> rfl

theorem mapD_eq_done {α β : Type} {f : α → β} {o : Outcome α} {b : β} (h : mapD f o = .done b) :
    ∃ a, o = .done a ∧ f a = b := by
  cases o with
  | done a => exact ⟨a, rfl, by simpa using h⟩
  | panic m => cases h
  | outOfFuel => cases h

/-- put accumulated entries / errors in front of a result -/
def prep (body : List (Entry Span)) (errs : List PErr) (r : List (Entry Span) × List PErr) :
    List (Entry Span) × List PErr := (body ++ r.1, errs ++ r.2)

/-- what one iteration of `parseLoop` adds -/
inductive StepR where
  | next (addBody : List (Entry Span)) (addErrs : List PErr) (lc : Option (List Span)) (cnt p : Nat)
  | panic (m : String)
  | fuel

/-- one iteration of `parseLoop` at `p < s.size`, relative to the accumulators -/
def loopStep (s : Src) (F : Nat) (lc : Option (List Span)) (cnt p : Nat) : StepR :=
  match getEntry s F p with
  | .ok (.comment c) q => .next (flushC lc) [] (some c) (skipBlankBlock s q).2 (skipBlankBlock s q).1
  | .ok (.message m) q =>
    (match lc with
     | some c =>
       if cnt < 2 then .next [.message { m with comment := some c }] [] none (skipBlankBlock s q).2 (skipBlankBlock s q).1
       else .next [.comment c, .message m] [] none (skipBlankBlock s q).2 (skipBlankBlock s q).1
     | none => .next [.message m] [] none (skipBlankBlock s q).2 (skipBlankBlock s q).1)
  | .ok (.term t) q =>
    (match lc with
     | some c =>
       if cnt < 2 then .next [.term { t with comment := some c }] [] none (skipBlankBlock s q).2 (skipBlankBlock s q).1
       else .next [.comment c, .term t] [] none (skipBlankBlock s q).2 (skipBlankBlock s q).1
     | none => .next [.term t] [] none (skipBlankBlock s q).2 (skipBlankBlock s q).1)
  | .ok (.groupComment c) q => .next (flushC lc ++ [.groupComment c]) [] none (skipBlankBlock s q).2 (skipBlankBlock s q).1
  | .ok (.resourceComment c) q => .next (flushC lc ++ [.resourceComment c]) [] none (skipBlankBlock s q).2 (skipBlankBlock s q).1
  | .ok (.junk c) q => .next (flushC lc ++ [.junk c]) [] none (skipBlankBlock s q).2 (skipBlankBlock s q).1
  | .err e q =>
    (match skipToNextEntryStart s p q with
     | none => .panic "skip_to_next_entry_start slice"
     | some q1 =>
       (match slice s p q1 with
        | some content =>
          .next (flushC lc ++ [.junk content]) [{ clampErr e q1 with slice := some (p, q1) }] none
            (skipBlankBlock s q1).2 (skipBlankBlock s q1).1
        | none => .panic "junk slice"))
  | .panic m => .panic m
  | .fuel => .fuel

theorem parseLoop_succ (s : Src) (F N : Nat) (body : List (Entry Span)) (errs : List PErr) (lc : Option (List Span))
    (cnt p : Nat) :
    parseLoop s F (N + 1) body errs lc cnt p =
      if p < s.size then
        (match loopStep s F lc cnt p with
         | .next ab ae lc' cnt' p' => parseLoop s F N (body ++ ab) (errs ++ ae) lc' cnt' p'
         | .panic m => .panic m
         | .fuel => .outOfFuel)
      else .done (body ++ flushC lc, errs) := by
  simp only [parseLoop]
  split
  · unfold loopStep
    cases hr : getEntry s F p with
    | ok e q =>
      cases lc with
      | none => cases e <;> simp [flushC]
      | some c =>
        cases e with
        | message m => by_cases hc : cnt < 2 <;> simp [hc]
        | term t => by_cases hc : cnt < 2 <;> simp [hc]
        | comment c => simp [flushC]
        | groupComment c => simp [flushC]
        | resourceComment c => simp [flushC]
        | junk c => simp [flushC]
    | err e q =>
      cases lc with
      | none =>
        simp only [flushC]
        cases skipToNextEntryStart s p q with
        | none => rfl
        | some q1 => cases hsl : slice s p q1 <;> simp [hsl]
      | some c =>
        simp only [flushC]
        cases skipToNextEntryStart s p q with
        | none => rfl
        | some q1 => cases hsl : slice s p q1 <;> simp [hsl]
    | panic m => cases lc <;> rfl
    | fuel => cases lc <;> rfl
  · cases lc <;> simp [flushC]

theorem parseLoop_zero (s : Src) (F : Nat) (body : List (Entry Span)) (errs : List PErr) (lc : Option (List Span))
    (cnt p : Nat) : parseLoop s F 0 body errs lc cnt p = .outOfFuel := by
  simp only [parseLoop]

/-- the accumulators are only ever appended to -/
theorem parseLoop_acc_eq (s : Src) (F : Nat) : ∀ (N : Nat) (body : List (Entry Span)) (errs : List PErr)
    (lc : Option (List Span)) (cnt p : Nat),
    parseLoop s F N body errs lc cnt p = mapD (prep body errs) (parseLoop s F N [] [] lc cnt p) := by
  intro N
  induction N with
  | zero => intros; simp only [parseLoop_zero, mapD_fuel]
  | succ N ih =>
    intro body errs lc cnt p
    rw [parseLoop_succ, parseLoop_succ]
    split
    · cases loopStep s F lc cnt p with
      | next ab ae lc' cnt' p' =>
        simp only []
        rw [ih (body ++ ab), ih ([] ++ ab), mapD_mapD]
        congr 1; funext r; simp [prep, List.append_assoc]
      | panic m => rfl
      | fuel => rfl
    · simp [prep]

/-- a larger iteration budget does not change a finished run -/
theorem parseLoop_more (s : Src) (F : Nat) : ∀ (N k : Nat) (body : List (Entry Span)) (errs : List PErr)
    (lc : Option (List Span)) (cnt p : Nat) (r : List (Entry Span) × List PErr),
    parseLoop s F N body errs lc cnt p = .done r → parseLoop s F (N + k) body errs lc cnt p = .done r := by
  intro N
  induction N with
  | zero => intro k body errs lc cnt p r h; rw [parseLoop_zero] at h; cases h
  | succ N ih =>
    intro k body errs lc cnt p r h
    rw [show N + 1 + k = (N + k) + 1 by omega, parseLoop_succ]
    rw [parseLoop_succ] at h
    split
    · rename_i hp
      simp only [hp, if_true] at h
      cases hst : loopStep s F lc cnt p with
      | next ab ae lc' cnt' p' => simp only [hst] at h ⊢; exact ih k _ _ _ _ _ r h
      | panic m => simp only [hst] at h; cases h
      | fuel => simp only [hst] at h; cases h
    · rename_i hp
      simp only [hp, if_false] at h
      exact h

theorem parseLoop_mono_N (s : Src) (F : Nat) {N N' : Nat} (hN : N ≤ N') {body : List (Entry Span)} {errs : List PErr}
    {lc : Option (List Span)} {cnt p : Nat} {r : List (Entry Span) × List PErr}
    (h : parseLoop s F N body errs lc cnt p = .done r) : parseLoop s F N' body errs lc cnt p = .done r := by
  have := parseLoop_more s F N (N' - N) body errs lc cnt p r h
  rwa [show N + (N' - N) = N' by omega] at this

/-- without a pending comment the blank-line count is not looked at -/
theorem loopStep_none_cnt (s : Src) (F cnt p : Nat) : loopStep s F none cnt p = loopStep s F none 0 p := by
  unfold loopStep
  cases getEntry s F p with
  | ok e q => cases e <;> rfl
  | err e q => rfl
  | panic m => rfl
  | fuel => rfl

theorem parseLoop_none_cnt (s : Src) (F N : Nat) (body : List (Entry Span)) (errs : List PErr) (cnt p : Nat) :
    parseLoop s F N body errs none cnt p = parseLoop s F N body errs none 0 p := by
  cases N with
  | zero => simp only [parseLoop_zero]
  | succ N => rw [parseLoop_succ, parseLoop_succ, loopStep_none_cnt]

theorem attachC_append (c : List Span) (cnt : Nat) (e : Entry Span) (rest x : List (Entry Span)) :
    attachC c cnt ((e :: rest) ++ x) = attachC c cnt (e :: rest) ++ x := by
  cases e <;> simp only [attachC, List.cons_append] <;> split <;> simp

/-- what a pending comment does to the result of one iteration whose entry is not a comment -/
def attachStep (c : List Span) (cnt : Nat) : StepR → StepR
  | .next ab ae lc' cnt' p' => .next (attachC c cnt ab) ae lc' cnt' p'
  | o => o

/-- a pending comment in front of an entry that is not a comment: the first iteration attaches or flushes it,
nothing else changes -/
theorem loopStep_pending {s : Src} {p : Nat} (h35 : s[p]? ≠ some 35) (F : Nat) (c : List Span) (cnt : Nat) :
    loopStep s F (some c) cnt p = attachStep c cnt (loopStep s F none 0 p) ∧
    ∀ ab ae lc' cnt' p', loopStep s F none 0 p = .next ab ae lc' cnt' p' → ∃ e rest, ab = e :: rest := by
  unfold loopStep
  rw [getEntry_of_not_hash s F p h35]
  by_cases h45 : s[p]? = some 45
  · simp only [h45, if_true]
    cases getTerm s F p p with
    | ok t q =>
      simp only [attachStep, attachC]
      refine ⟨by split <;> rfl, ?_⟩
      intro ab ae lc' cnt' p' h; cases h; exact ⟨_, _, rfl⟩
    | err e q =>
      simp only [flushC]
      cases skipToNextEntryStart s p q with
      | none => exact ⟨rfl, by intro ab ae lc' cnt' p' h; cases h⟩
      | some q1 =>
        simp only []
        cases hsl : FluentModel.Syntax.slice s p q1 with
        | none => exact ⟨rfl, by intro ab ae lc' cnt' p' h; cases h⟩
        | some content => exact ⟨rfl, by intro ab ae lc' cnt' p' h; cases h; exact ⟨_, _, rfl⟩⟩
    | panic m => exact ⟨rfl, by intro ab ae lc' cnt' p' h; cases h⟩
    | fuel => exact ⟨rfl, by intro ab ae lc' cnt' p' h; cases h⟩
  · simp only [h45, if_false]
    cases getMessage s F p p with
    | ok t q =>
      simp only [attachStep, attachC]
      refine ⟨by split <;> rfl, ?_⟩
      intro ab ae lc' cnt' p' h; cases h; exact ⟨_, _, rfl⟩
    | err e q =>
      simp only [flushC]
      cases skipToNextEntryStart s p q with
      | none => exact ⟨rfl, by intro ab ae lc' cnt' p' h; cases h⟩
      | some q1 =>
        simp only []
        cases hsl : FluentModel.Syntax.slice s p q1 with
        | none => exact ⟨rfl, by intro ab ae lc' cnt' p' h; cases h⟩
        | some content => exact ⟨rfl, by intro ab ae lc' cnt' p' h; cases h; exact ⟨_, _, rfl⟩⟩
    | panic m => exact ⟨rfl, by intro ab ae lc' cnt' p' h; cases h⟩
    | fuel => exact ⟨rfl, by intro ab ae lc' cnt' p' h; cases h⟩

theorem parseLoop_pending {s : Src} {p : Nat} (hp : p < s.size) (h35 : s[p]? ≠ some 35) (F N : Nat) (c : List Span)
    (cnt : Nat) :
    parseLoop s F N [] [] (some c) cnt p =
      mapD (fun r => (attachC c cnt r.1, r.2)) (parseLoop s F N [] [] none 0 p) := by
  cases N with
  | zero => simp only [parseLoop_zero, mapD_fuel]
  | succ N =>
    rw [parseLoop_succ, parseLoop_succ]
    simp only [hp, if_true]
    obtain ⟨h1, h2⟩ := loopStep_pending h35 F c cnt
    rw [h1]
    cases hst : loopStep s F none 0 p with
    | next ab ae lc' cnt' p' =>
      obtain ⟨e, rest, rfl⟩ := h2 _ _ _ _ _ hst
      simp only [attachStep]
      rw [parseLoop_acc_eq s F N ([] ++ attachC c cnt (e :: rest)), parseLoop_acc_eq s F N ([] ++ e :: rest), mapD_mapD]
      congr 1; funext r
      simp only [prep, Function.comp, List.nil_append]
      rw [attachC_append]
    | panic m => rfl
    | fuel => rfl

/-! ### the runtime loop -/

theorem parseRuntimeLoop_zero (s : Src) (F : Nat) (body : List (Entry Span)) (errs : List PErr) (p : Nat) :
    parseRuntimeLoop s F 0 body errs p = .outOfFuel := by
  simp only [parseRuntimeLoop]

theorem parseRuntimeLoop_acc_eq (s : Src) (F : Nat) : ∀ (N : Nat) (body : List (Entry Span)) (errs : List PErr) (p : Nat),
    parseRuntimeLoop s F N body errs p = mapD (prep body errs) (parseRuntimeLoop s F N [] [] p) := by
  intro N
  induction N with
  | zero => intros; simp only [parseRuntimeLoop_zero, mapD_fuel]
  | succ N ih =>
    intro body errs p
    simp only [parseRuntimeLoop]
    split
    · cases getEntryRuntime s F p with
      | ok o q =>
        cases o with
        | some e =>
          simp only []
          rw [ih (body ++ [e]), ih ([] ++ [e]), mapD_mapD]
          congr 1; funext r; simp [prep, List.append_assoc]
        | none => simp only []; rw [ih body]
      | err e q =>
        simp only []
        cases skipToNextEntryStart s p q with
        | none => rfl
        | some q1 =>
          simp only []
          cases hsl : FluentModel.Syntax.slice s p q1 with
          | none => rfl
          | some content =>
            simp only []
            rw [ih (body ++ _), ih ([] ++ _), mapD_mapD]
            congr 1; funext r; simp [prep, List.append_assoc]
      | panic m => rfl
      | fuel => rfl
    · simp [prep]

theorem parseRuntimeLoop_more (s : Src) (F : Nat) : ∀ (N k : Nat) (body : List (Entry Span)) (errs : List PErr)
    (p : Nat) (r : List (Entry Span) × List PErr),
    parseRuntimeLoop s F N body errs p = .done r → parseRuntimeLoop s F (N + k) body errs p = .done r := by
  intro N
  induction N with
  | zero => intro k body errs p r h; rw [parseRuntimeLoop_zero] at h; cases h
  | succ N ih =>
    intro k body errs p r h
    rw [show N + 1 + k = (N + k) + 1 by omega]
    simp only [parseRuntimeLoop] at h ⊢
    split
    · rename_i hp
      simp only [hp, if_true] at h
      cases hst : getEntryRuntime s F p with
      | ok o q =>
        simp only [hst] at h
        cases o with
        | some e => exact ih k _ _ _ r h
        | none => exact ih k _ _ _ r h
      | err e q =>
        simp only [hst] at h
        cases hq : skipToNextEntryStart s p q with
        | none => simp only [hq] at h; cases h
        | some q1 =>
          simp only [hq] at h
          cases hsl : slice s p q1 with
          | none => simp only [hsl] at h; cases h
          | some content => simp only [hsl] at h; simp only [hq, hsl]; exact ih k _ _ _ r h
      | panic m => simp only [hst] at h; cases h
      | fuel => simp only [hst] at h; cases h
    · rename_i hp
      simp only [hp, if_false] at h
      exact h

theorem parseRuntimeLoop_mono_N (s : Src) (F : Nat) {N N' : Nat} (hN : N ≤ N') {body : List (Entry Span)}
    {errs : List PErr} {p : Nat} {r : List (Entry Span) × List PErr}
    (h : parseRuntimeLoop s F N body errs p = .done r) : parseRuntimeLoop s F N' body errs p = .done r := by
  have := parseRuntimeLoop_more s F N (N' - N) body errs p r h
  rwa [show N + (N' - N) = N' by omega] at this

end FluentProofs.Parser
