import FluentProofs.SerializerJunkText
import FluentProofs.SerializerOutCrValid
import FluentProofs.ParserLocalShiftEntry
/-!
# Serializer lemmas, part 18: where a message or a term ends in the source (C04, Junk)

For every source (lone `\r` included): the cursor at which `get_message` / `get_term` succeed is a position on which
`get_pattern` stops (`Stopper`: the end of input, a byte other than space / line end / `{` in column 0, or an indented
`.` `[` `*` `}`), at which `get_attributes` finds no further attribute (`AttrStopAt`), and `skip_blank_block` does not
move from it.
-/
namespace FluentProofs.Ser
open FluentModel FluentModel.Syntax FluentModel.Syntax.Ser FluentProofs.Parser

/-- a position at which a message or term has ended -/
def MTStop (s : Src) (p : Nat) : Prop := Stopper s p ∧ AttrStopAt s p

/-- `skip_blank_block` does not move from a line on which `get_pattern` stops -/
theorem Stopper.blockStop {s : Src} {q : Nat} (h : Stopper s q) : BlockStop s q := by
  intro n c
  rcases h with h | ⟨b, hb, h32, h10, h13, _⟩ | ⟨k, b, hk, hsp, hb, hbv⟩
  · have hnone : s[q]? = none := by simp; omega
    have hsbi : skipBlankInline s q = q := skipBlankInline_stay s q (by rw [hnone]; simp)
    have heol : skipEol s q = none := by unfold skipEol; rw [hnone]
    rw [skipBlankBlockGo, hsbi, heol]
    have : ¬ q < s.size := by omega
    simp [this]
  · have hsbi : skipBlankInline s q = q := skipBlankInline_stay s q (by rw [hb]; simpa using h32)
    have heol : skipEol s q = none := skipEol_lone s q b hb h10 h13
    rw [skipBlankBlockGo, hsbi, heol]
    have := get_lt hb
    simp [this]
  · have hb32 : b ≠ 32 := by rcases hbv with h | h | h | h <;> subst h <;> decide
    have hsbi : skipBlankInline s q = q + k := skipBlankInline_run s k q hsp (by rw [hb]; simpa using hb32)
    have heol : skipEol s (q + k) = none := by
      unfold skipEol; rw [hb]
      split
      · rename_i hh; cases hh; rcases hbv with h | h | h | h <;> cases h
      · rename_i hh; cases hh; rcases hbv with h | h | h | h <;> cases h
      · rfl
    rw [skipBlankBlockGo, hsbi, heol]
    have := get_lt hb
    simp [this]

/-- the loop of `get_pattern` ends on a `Stopper` line -/
theorem getPatternLoop_stopper {s : Src} (n : Nat) (st : PatState) (p : Nat) :
    ∀ st' q, getPatternLoop s n st p = .ok st' q → Stopper s q := by
  induction n generalizing st p with
  | zero => intro st' q hq; simp [getPatternLoop] at hq
  | succ n ih =>
    intro st' q hq
    simp only [getPatternLoop] at hq
    split at hq
    · rename_i hlt
      split at hq
      · split at hq
        · exact ih _ _ st' q hq
        all_goals cases hq
      · rename_i h123
        split at hq
        · rename_i hpre
          have hsp := skipBlankInline_spaces s p
          have hle := (skipBlankInline_after s p).le
          have hstop : s[skipBlankInline s p]? ≠ some 32 := skipBlankInlineGo_stop s _ p (Nat.le_refl _)
          split at hpre
          · cases hs1 : s[skipBlankInline s p]? with
            | none =>
              simp only [hs1, R.ok.injEq] at hq
              obtain ⟨_, rfl⟩ := hq
              left; simpa using hs1
            | some b =>
              simp only [hs1] at hq hpre
              by_cases hind : skipBlankInline s p - p = 0
              · simp only [hind, beq_self_eq_true, if_true, R.ok.injEq] at hq hpre
                obtain ⟨_, rfl⟩ := hq
                have hpp : skipBlankInline s p = p := by omega
                rw [hpp] at hpre hs1 hstop ⊢
                have heol : isEol s p = false := by
                  cases he : isEol s p with
                  | false => rfl
                  | true => simp [he] at hpre
                have h10 : b ≠ 10 := by
                  intro hb; subst hb; simp [isEol, hs1] at heol
                have h13 : b = 13 → s[p + 1]? ≠ some 10 := by
                  intro hb; subst hb
                  intro h10'
                  simp [isEol, hs1, h10'] at heol
                have h32 : b ≠ 32 := by intro hb; subst hb; exact hstop hs1
                have hb123 : b ≠ 123 := by
                  intro hb; subst hb
                  simp [isCurrentByte, hs1] at h123
                exact Or.inr (Or.inl ⟨b, hs1, h32, h10, h13, hb123⟩)
              · have hne : (skipBlankInline s p - p == 0) = false := by simpa using hind
                simp only [hne, Bool.false_eq_true, if_false] at hq hpre
                split at hpre
                · rename_i hc
                  simp only [hc, if_true, R.ok.injEq] at hq
                  obtain ⟨_, rfl⟩ := hq
                  refine Or.inr (Or.inr ⟨skipBlankInline s p - p, b, by omega, fun j hj => hsp (p + j) (by omega) (by omega), ?_, ?_⟩)
                  · rw [show p + (skipBlankInline s p - p) = skipBlankInline s p by omega]; exact hs1
                  · simp only [isBytePatternContinuation, Bool.not_not, Bool.or_eq_true, beq_iff_eq] at hc
                    rcases hc with ((h | h) | h) | h
                    · exact Or.inl h
                    · exact Or.inr (Or.inr (Or.inr h))
                    · exact Or.inr (Or.inl h)
                    · exact Or.inr (Or.inr (Or.inl h))
                · cases hpre
          · cases hpre
        · split at hq
          · split at hq
            · exact ih _ _ st' q hq
            · cases hq
          all_goals cases hq
    · cases hq; exact Or.inl (by omega)

/-- a successful `get_pattern` ends on a `Stopper` line -/
theorem getPattern_stopper {s : Src} {f p : Nat} {v : Option (Pattern Span)} {q : Nat}
    (h : getPattern s f p = .ok v q) : Stopper s q := by
  cases f with
  | zero => simp [getPattern] at h
  | succ n =>
    have key : ∀ role p2,
        (match getPatternLoop s n ⟨[], none, none, role, none⟩ p2 with
          | .ok st q =>
            (match st.lastNonBlank with
             | some lnb =>
               (match finishElements s st.keptCommonIndent lnb 0 st.elements with
                | some els => .ok (some els) q
                | none => .panic "get_pattern slice")
             | none => .ok none q)
          | .err e q => .err e q
          | .panic m => .panic m
          | .fuel => .fuel) = R.ok v q → Stopper s q := by
      intro role p2 hm
      split at hm
      · rename_i st q' hl
        have := getPatternLoop_stopper n _ p2 st q' hl
        split at hm
        · split at hm
          · cases hm; exact this
          · cases hm
        · cases hm; exact this
      all_goals cases hm
    simp only [getPattern] at h
    cases hE : skipEol s (skipBlankInline s p) with
    | none => rw [hE] at h; exact key _ _ h
    | some q0 => rw [hE] at h; exact key _ _ h

/-- a successful `get_attribute` ends on a `Stopper` line -/
theorem getAttribute_stopper {s : Src} {f p : Nat} {a : Attribute Span} {q : Nat}
    (h : getAttribute s f p = .ok a q) : Stopper s q := by
  simp only [getAttribute] at h
  split at h
  · split at h
    · split at h
      · rename_i hp; cases h; exact getPattern_stopper hp
      all_goals cases h
    all_goals cases h
  all_goals cases h

/-- a failure of `get_attribute` does not depend on the fuel -/
theorem getAttribute_err_mono {s : Src} {F₁ F₂ p : Nat} {e : PErr} {q : Nat}
    (h : getAttribute s F₁ p = .err e q) (hF : F₁ ≤ F₂) : ∃ e' q', getAttribute s F₂ p = .err e' q' := by
  have hsh : Shift 0 s s := ⟨fun _ => rfl, rfl, bnd_zero s, Or.inl rfl⟩
  have := getAttribute_shift hsh h (by simp) hF
  exact ⟨_, _, this⟩

/-- one round of `get_attributes` that finds no attribute, for every fuel -/
theorem attrStopAt_of {s : Src} {p : Nat}
    (h : isCurrentByte s (skipBlankInline s p) 46 = false ∨
      ∃ e q, getAttribute s (exprFuel s) (skipBlankInline s p + 1) = .err e q) : AttrStopAt s p := by
  intro fuel hfuel n acc
  rcases h with h | ⟨e, q, h⟩
  · simp [getAttributesGo, takeByteIf, h]
  · by_cases hdot : isCurrentByte s (skipBlankInline s p) 46 = true
    · obtain ⟨e', q', he⟩ := getAttribute_err_mono h (F₂ := fuel) (by simp only [exprFuel]; omega)
      simp [getAttributesGo, takeByteIf, hdot, he]
    · have hdot' : isCurrentByte s (skipBlankInline s p) 46 = false := by simpa using hdot
      simp [getAttributesGo, takeByteIf, hdot']

/-- `get_attributes` started on a `Stopper` line ends on a line at which a message or term ends -/
theorem getAttributesGo_end {s : Src} (k : Nat) (acc : List (Attribute Span)) (p : Nat)
    {attrs : List (Attribute Span)} {q : Nat}
    (h : getAttributesGo s (exprFuel s) k acc p = .ok attrs q) (hp : Stopper s p) : MTStop s q := by
  induction k generalizing acc p with
  | zero => simp [getAttributesGo] at h
  | succ k ih =>
    by_cases hdot : isCurrentByte s (skipBlankInline s p) 46 = true
    · simp only [getAttributesGo, takeByteIf, hdot, if_true, Bool.not_true, Bool.false_eq_true, if_false] at h
      cases ha : getAttribute s (exprFuel s) (skipBlankInline s p + 1) with
      | ok a q' =>
        rw [ha] at h
        exact ih _ _ h (getAttribute_stopper ha)
      | err e q' =>
        rw [ha] at h
        simp only [R.ok.injEq] at h
        obtain ⟨_, rfl⟩ := h
        exact ⟨hp, attrStopAt_of (Or.inr ⟨e, q', ha⟩)⟩
      | panic m => rw [ha] at h; cases h
      | fuel => rw [ha] at h; cases h
    · have hdot' : isCurrentByte s (skipBlankInline s p) 46 = false := by simpa using hdot
      simp only [getAttributesGo, takeByteIf, hdot', Bool.false_eq_true, if_false, Bool.not_false, if_true,
        R.ok.injEq] at h
      obtain ⟨_, rfl⟩ := h
      exact ⟨hp, attrStopAt_of (Or.inl hdot')⟩

/-- `get_attributes` behind a pattern -/
theorem getAttributes_end {s : Src} {q3 : Nat} (hq3 : Stopper s q3)
    {attrs : List (Attribute Span)} {q : Nat}
    (h : getAttributes s (exprFuel s) (skipBlankBlock s q3).1 = .ok attrs q) : MTStop s q := by
  rw [hq3.blockStop.sbb] at h
  exact getAttributesGo_end _ _ _ h hq3

theorem getMessage_end {s : Src} {es p : Nat} {m : Message Span} {q : Nat}
    (h : getMessage s (exprFuel s) es p = .ok m q) : MTStop s q := by
  simp only [getMessage] at h
  split at h
  · split at h
    · split at h
      · rename_i hpat
        split at h
        · rename_i hattr
          split at h
          · cases h
          · cases h; exact getAttributes_end (getPattern_stopper hpat) hattr
        all_goals cases h
      all_goals cases h
    all_goals cases h
  all_goals cases h

theorem getTerm_end {s : Src} {es p : Nat} {t : Term Span} {q : Nat}
    (h : getTerm s (exprFuel s) es p = .ok t q) : MTStop s q := by
  simp only [getTerm] at h
  split at h
  · split at h
    · split at h
      · split at h
        · rename_i hpat
          split at h
          · rename_i hattr
            split at h
            · cases h; exact getAttributes_end (getPattern_stopper hpat) hattr
            · cases h
          all_goals cases h
        all_goals cases h
      all_goals cases h
    all_goals cases h
  all_goals cases h

end FluentProofs.Ser
