import FluentProofs.ResolverRefineLimit
import FluentProofs.ResolverSpec
/-!
# The two entry points `format_pattern` / `write_pattern` of the resolver model, and the spec's `format`
-/
namespace FluentProofs.ResolverRefine
open FluentModel FluentModel.Syntax FluentModel.Num FluentModel.Resolver FluentModel.ResolverSpec

/-- the bundle's text transform -/
def tr (env : Env) (v : Bytes) : Bytes := match env.transform with | some f => f v | .none => v

/-- the writer entry point on a single text element (needs three units of fuel: `writePattern`, the element, the end) -/
theorem writePatternTop_text (env : Env) (k : Nat) (v : Bytes) :
    writePatternTop env (k + 3) [.text v] = .ok (tr env v, []) := by
  simp only [writePatternTop, writePattern, writeElems, tr, List.nil_append, Bool.false_eq_true, if_false]
  cases env.transform <;> rfl

theorem formatPattern_text (env : Env) (fuel : Nat) (v : Bytes) :
    formatPattern env fuel [.text v] = .ok (tr env v, []) := by
  simp only [formatPattern, resolvePattern, tr]
  cases env.transform <;> rfl

/-- off the single-text fast path the two entry points are the same computation -/
theorem formatPattern_eq_of_not_text (env : Env) (fuel : Nat) (p : Pattern Bytes) (h : ∀ v, p ≠ [.text v]) :
    formatPattern env fuel p = writePatternTop env fuel p := by
  have hr : resolvePattern env fuel p {} = writePattern env fuel p [] {} := by
    unfold resolvePattern
    split
    · rename_i v; exact absurd rfl (h v)
    · rfl
  unfold formatPattern writePatternTop
  rw [hr]

/-- `format_pattern` = `write_pattern` (text and errors) for every bundle, pattern and fuel ≥ 3 -/
theorem formatPattern_eq_writePatternTop (env : Env) (fuel : Nat) (p : Pattern Bytes) (hf : 3 ≤ fuel) :
    formatPattern env fuel p = writePatternTop env fuel p := by
  by_cases h : ∃ v, p = [.text v]
  · obtain ⟨v, rfl⟩ := h
    obtain ⟨k, rfl⟩ : ∃ k, fuel = k + 3 := ⟨fuel - 3, by omega⟩
    rw [formatPattern_text, writePatternTop_text]
  · exact formatPattern_eq_of_not_text env fuel p (fun v hv => h ⟨v, hv⟩)

/-- without a fuel bound: whatever the writer API returns, the string API returns -/
theorem formatPattern_of_writePatternTop (env : Env) (fuel : Nat) (p : Pattern Bytes) (r : Bytes × List RErr)
    (h : writePatternTop env fuel p = .ok r) : formatPattern env fuel p = .ok r := by
  by_cases hp : ∃ v, p = [.text v]
  · obtain ⟨v, rfl⟩ := hp
    match fuel with
    | 0 => simp [writePatternTop, writePattern] at h
    | 1 => simp [writePatternTop, writePattern, writeElems] at h
    | 2 => simp [writePatternTop, writePattern, writeElems] at h
    | k + 3 => rw [writePatternTop_text] at h; rw [formatPattern_text]; exact h
  · rw [formatPattern_eq_of_not_text env fuel p (fun v hv => hp ⟨v, hv⟩)]; exact h

/-- the spec on a single text element -/
theorem format_text (env : Env) (fuel : Nat) (v : Bytes) :
    ResolverSpec.format env fuel [.text v] = .fuel ∨ ResolverSpec.format env fuel [.text v] = .val (tr env v) 0 [] := by
  match fuel with
  | 0 => left; simp [ResolverSpec.format, evalElems]
  | 1 => left; simp [ResolverSpec.format, evalElems]
  | k + 2 =>
    right
    simp only [ResolverSpec.format, evalElems, tr, List.append_nil]
    cases env.transform <;> rfl

/-- the value a variant key is compared as (`Expression::write`: identifier keys as strings, number keys through
`FluentValue::try_number`) -/
def keyValue (env : Env) : VKey Bytes → Value
  | .ident n => .str n
  | .num v => env.tryNumber v

theorem selectVariant_cons (env : Env) (k : VKey Bytes) (val : Pattern Bytes) (d : Bool) (rest : List (Variant Bytes))
    (s : Value) :
    selectVariant env (.mk k val d :: rest) s =
      match valueMatches env (keyValue env k) s with
      | .none => .panic "plural rules unwrap"
      | some true => .ok (some val)
      | some false => selectVariant env rest s := by
  cases k <;> rfl

/-- shape of the spec's final log (from `specAll`): a normal outcome never contains `tooManyPlaceables`, and no
`missingDefault` if every select of the pattern and the bundle has a default; a limit outcome ends with the one
`tooManyPlaceables` -/
theorem format_log (D : Bool) (env : Env) (fuel : Nat) (p : Pattern Bytes) (hE : D = true → EnvD env)
    (hp : D = true → patD p = true) : LogOk D [] (ResolverSpec.format env fuel p) :=
  (specAll D fuel).1 ⟨env, .none, [p]⟩ p.length p 0 [] hE hp

end FluentProofs.ResolverRefine
