import FluentProofs.SerializerParse
/-!
# Serializer lemmas, part 5: `inline_roundtrip` (C04 / T2)

`getInline_bytes`: for every `validInline` expression `e`, on any source that contains
`inlineBytes e` at the cursor and continues with something that cannot extend the expression
(`Follow`), `getInline` returns a span-tree that resolves to `e` and stops right behind the text
(behind the following blanks for a message / term reference without arguments, because
`get_call_arguments` skips blanks before it looks for `(`).  Mutual structural induction with the
call-argument loop.
-/
namespace FluentProofs.Ser
open FluentModel FluentModel.Syntax FluentModel.Syntax.Ser FluentProofs.Parser

/-- what may follow an inline expression: not an identifier byte, not `.`; after optional blanks
neither `(` nor `.` -/
def Follow (s : Src) (q : Nat) : Prop :=
  (∀ c, s[q]? = some c → isIdentByte c = false ∧ c ≠ 46) ∧ NoCallNoAttr s q

theorem Follow.ident {s : Src} {q : Nat} (h : Follow s q) : StopAt s q isIdentByte := fun c hc => (h.1 c hc).1

theorem identByte_of_digit : ∀ c : UInt8, isDigit c = true → isIdentByte c = true := by
  apply forall_uint8; decide +kernel

theorem Follow.num {s : Src} {q : Nat} (h : Follow s q) : StopAt s q numStop := fun c hc => by
  obtain ⟨h1, h2⟩ := h.1 c hc
  simp only [numStop, Bool.or_eq_false_iff, beq_eq_false_iff_ne]
  refine ⟨?_, h2⟩
  cases hd : isDigit c
  · rfl
  · rw [identByte_of_digit c hd] at h1; cases h1

/-- a byte after which nothing of the expression continues: `,` `)` `}` `:` -/
theorem follow_of_byte {s : Src} {q : Nat} (c : UInt8) (h : s[q]? = some c)
    (hc : c = 44 ∨ c = 41 ∨ c = 125 ∨ c = 58) : Follow s q ∧ skipBlank s q = q := by
  have hc' : c ≠ 32 ∧ c ≠ 10 ∧ c ≠ 13 ∧ c ≠ 40 ∧ c ≠ 46 ∧ isIdentByte c = false := by
    rcases hc with rfl | rfl | rfl | rfl <;> decide
  have hsb : skipBlank s q = q := skipBlank_at_byte s q c h hc'.1 hc'.2.1 hc'.2.2.1
  refine ⟨⟨fun c' hc'' => ?_, ?_, ?_⟩, hsb⟩
  · rw [h] at hc''; cases hc''; exact ⟨hc'.2.2.2.2.2, hc'.2.2.2.2.1⟩
  · rw [hsb, h]; intro h'; cases h'; exact hc'.2.2.2.1 rfl
  · rw [hsb, h]; intro h'; cases h'; exact hc'.2.2.2.2.1 rfl

/-- where `get_inline_expression` stops: references without arguments swallow the blanks that follow -/
def endPos (e : Inline Bytes) (s : Src) (q : Nat) : Nat :=
  match e with
  | .msg _ none => skipBlank s q
  | .term _ _ none => skipBlank s q
  | _ => q

mutual
/-- nesting budget the parser needs for `inlineBytes e` -/
def fuelInline : Inline Bytes → Nat
  | .fn _ pos named => fuelArgs pos + named.length + 5
  | .term _ _ (some (pos, named)) => fuelArgs pos + named.length + 5
  | .placeable e => fuelInner e + 3
  | _ => 2
def fuelArgs : List (Inline Bytes) → Nat
  | [] => 0
  | x :: xs => fuelInline x + fuelArgs xs + 1
def fuelInner : Expr Bytes → Nat
  | .inline i => fuelInline i
  | .select _ _ => 0
end

theorem fuelInline_ge (e : Inline Bytes) : 2 ≤ fuelInline e := by
  cases e with
  | term a b c => cases c with
    | none => simp [fuelInline]
    | some pn => obtain ⟨p, n⟩ := pn; simp [fuelInline]
  | fn a b c => simp [fuelInline]
  | placeable e => simp [fuelInline]
  | _ => simp [fuelInline]

/-! ## first bytes -/

/-- not a blank and not `)` -/
def notBlank (b : UInt8) : Bool := b != 32 && b != 10 && b != 13 && b != 41

theorem alpha_notBlank : ∀ b : UInt8, isAlpha b = true → notBlank b = true := by
  apply forall_uint8; decide +kernel
theorem digit_notBlank : ∀ b : UInt8, isDigit b = true → notBlank b = true := by
  apply forall_uint8; decide +kernel

theorem notBlank_iff (b : UInt8) : notBlank b = true ↔ b ≠ 32 ∧ b ≠ 10 ∧ b ≠ 13 ∧ b ≠ 41 := by
  simp [notBlank, and_assoc]

theorem at_head {s : Src} {p : Nat} {bs : Bytes} {b : UInt8} (h : At s p bs) (hb : bs.head? = some b) :
    s[p]? = some b := by
  cases bs with
  | nil => simp at hb
  | cons x xs => simp at hb; subst hb; rw [at_cons] at h; exact h.1

theorem inlineBytes_head (e : Inline Bytes) (hv : validInline e = true) :
    ∃ b, (inlineBytes e).head? = some b ∧ notBlank b = true := by
  cases e with
  | str v => exact ⟨34, by simp [inlineBytes], by decide⟩
  | num v =>
    simp only [validInline] at hv
    rcases validNumber_head hv with ⟨d, rest, rfl, hd⟩ | ⟨d, rest, rfl, hd⟩
    · exact ⟨d, by simp [inlineBytes], digit_notBlank d hd⟩
    · exact ⟨45, by simp [inlineBytes], by decide⟩
  | var id => exact ⟨36, by simp [inlineBytes], by decide⟩
  | msg id attr =>
    simp only [validInline, Bool.and_eq_true] at hv
    obtain ⟨b, rest, rfl, hb, _⟩ := validIdent_head hv.1
    exact ⟨b, by simp [inlineBytes], alpha_notBlank b hb⟩
  | fn id pos named =>
    simp only [validInline, Bool.and_eq_true] at hv
    obtain ⟨b, rest, rfl, hb, _⟩ := validIdent_head hv.1.1.1.1
    exact ⟨b, by simp [inlineBytes], alpha_notBlank b hb⟩
  | term id attr args =>
    cases args with
    | none => exact ⟨45, by simp [inlineBytes], by decide⟩
    | some pn => obtain ⟨p, n⟩ := pn; exact ⟨45, by simp [inlineBytes], by decide⟩
  | placeable e => exact ⟨123, by simp [inlineBytes], by decide⟩

theorem namedTail_head (named : List (Bytes × Inline Bytes)) (hv : validNamed named = true) :
    ∃ b, (namedTail named).head? = some b ∧ b ≠ 32 ∧ b ≠ 10 ∧ b ≠ 13 ∧ (named = [] → b = 41) ∧
      (named ≠ [] → b ≠ 41) := by
  cases named with
  | nil => exact ⟨41, by simp [namedTail], by decide, by decide, by decide, fun _ => rfl, fun h => absurd rfl h⟩
  | cons x xs =>
    obtain ⟨n, v⟩ := x
    simp only [validNamed, Bool.and_eq_true] at hv
    obtain ⟨b, rest, rfl, hb, _⟩ := validIdent_head hv.1.1.1
    obtain ⟨h1, h2, h3, h4⟩ := (notBlank_iff b).mp (alpha_notBlank b hb)
    exact ⟨b, by simp [namedTail], h1, h2, h3, fun h => by simp at h, fun _ => h4⟩

end FluentProofs.Ser
