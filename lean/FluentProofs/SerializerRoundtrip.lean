import FluentProofs.SerializerParse
/-!
# Serializer lemmas, part 5: `inline_roundtrip` (C04 / T2)

`getInline_bytes`: for every `validInline` expression `e`, on any source that contains
`inlineBytes e` at the cursor and continues with something that cannot extend the expression
(`Follow`), `getInline` returns a span-tree that resolves to `e` and stops right behind the text
(behind the following blanks for a message / term reference without arguments, because
`get_call_arguments` skips blanks before it looks for `(`).  Mutual structural induction with the
call-argument loop.
-/
namespace FluentProofs.Ser
open FluentModel FluentModel.Syntax FluentModel.Syntax.Ser FluentProofs.Parser

/-- what may follow an inline expression: not an identifier byte, not `.`; after optional blanks
neither `(` nor `.` -/
def Follow (s : Src) (q : Nat) : Prop :=
  (∀ c, s[q]? = some c → isIdentByte c = false ∧ c ≠ 46) ∧ NoCallNoAttr s q

theorem Follow.ident {s : Src} {q : Nat} (h : Follow s q) : StopAt s q isIdentByte := fun c hc => (h.1 c hc).1

theorem identByte_of_digit : ∀ c : UInt8, isDigit c = true → isIdentByte c = true := by
  apply forall_uint8; decide +kernel

theorem Follow.num {s : Src} {q : Nat} (h : Follow s q) : StopAt s q numStop := fun c hc => by
  obtain ⟨h1, h2⟩ := h.1 c hc
  simp only [numStop, Bool.or_eq_false_iff, beq_eq_false_iff_ne]
  refine ⟨?_, h2⟩
  cases hd : isDigit c
  · rfl
  · rw [identByte_of_digit c hd] at h1; cases h1

/-- a byte after which nothing of the expression continues: `,` `)` `}` `:` -/
theorem follow_of_byte {s : Src} {q : Nat} (c : UInt8) (h : s[q]? = some c)
    (hc : c = 44 ∨ c = 41 ∨ c = 125 ∨ c = 58) : Follow s q ∧ skipBlank s q = q := by
  have hc' : c ≠ 32 ∧ c ≠ 10 ∧ c ≠ 13 ∧ c ≠ 40 ∧ c ≠ 46 ∧ isIdentByte c = false := by
    rcases hc with rfl | rfl | rfl | rfl <;> decide
  have hsb : skipBlank s q = q := skipBlank_at_byte s q c h hc'.1 hc'.2.1 hc'.2.2.1
  refine ⟨⟨fun c' hc'' => ?_, ?_, ?_⟩, hsb⟩
  · rw [h] at hc''; cases hc''; exact ⟨hc'.2.2.2.2.2, hc'.2.2.2.2.1⟩
  · rw [hsb, h]; intro h'; cases h'; exact hc'.2.2.2.1 rfl
  · rw [hsb, h]; intro h'; cases h'; exact hc'.2.2.2.2.1 rfl

/-- where `get_inline_expression` stops: references without arguments swallow the blanks that follow -/
def endPos (e : Inline Bytes) (s : Src) (q : Nat) : Nat :=
  match e with
  | .msg _ none => skipBlank s q
  | .term _ _ none => skipBlank s q
  | _ => q

mutual
/-- nesting budget the parser needs for `inlineBytes e` -/
def fuelInline : Inline Bytes → Nat
  | .fn _ pos named => fuelArgs pos + fuelNamed named + 5
  | .term _ _ (some (pos, named)) => fuelArgs pos + fuelNamed named + 5
  | .placeable e => fuelInner e + 3
  | _ => 2
def fuelArgs : List (Inline Bytes) → Nat
  | [] => 0
  | x :: xs => fuelInline x + fuelArgs xs + 1
/-- the values of named arguments are inline expressions themselves (literals, message references, calls) -/
def fuelNamed : List (Bytes × Inline Bytes) → Nat
  | [] => 0
  | (_, v) :: xs => fuelInline v + fuelNamed xs + 1
def fuelInner : Expr Bytes → Nat
  | .inline i => fuelInline i
  | .select _ _ => 0
end

theorem fuelInline_ge (e : Inline Bytes) : 2 ≤ fuelInline e := by
  cases e with
  | term a b c => cases c with
    | none => simp [fuelInline]
    | some pn => obtain ⟨p, n⟩ := pn; simp [fuelInline]
  | fn a b c => simp [fuelInline]
  | placeable e => simp [fuelInline]
  | _ => simp [fuelInline]

/-! ## first bytes -/

/-- not a blank and not `)` -/
def notBlank (b : UInt8) : Bool := b != 32 && b != 10 && b != 13 && b != 41

theorem alpha_notBlank : ∀ b : UInt8, isAlpha b = true → notBlank b = true := by
  apply forall_uint8; decide +kernel
theorem digit_notBlank : ∀ b : UInt8, isDigit b = true → notBlank b = true := by
  apply forall_uint8; decide +kernel

theorem notBlank_iff (b : UInt8) : notBlank b = true ↔ b ≠ 32 ∧ b ≠ 10 ∧ b ≠ 13 ∧ b ≠ 41 := by
  simp [notBlank, and_assoc]

theorem at_head {s : Src} {p : Nat} {bs : Bytes} {b : UInt8} (h : At s p bs) (hb : bs.head? = some b) :
    s[p]? = some b := by
  cases bs with
  | nil => simp at hb
  | cons x xs => simp at hb; subst hb; rw [at_cons] at h; exact h.1

theorem inlineBytes_head (e : Inline Bytes) (hv : validInline e = true) :
    ∃ b, (inlineBytes e).head? = some b ∧ notBlank b = true := by
  cases e with
  | str v => exact ⟨34, by simp [inlineBytes], by decide⟩
  | num v =>
    simp only [validInline] at hv
    rcases validNumber_head hv with ⟨d, rest, rfl, hd⟩ | ⟨d, rest, rfl, hd⟩
    · exact ⟨d, by simp [inlineBytes], digit_notBlank d hd⟩
    · exact ⟨45, by simp [inlineBytes], by decide⟩
  | var id => exact ⟨36, by simp [inlineBytes], by decide⟩
  | msg id attr =>
    simp only [validInline, Bool.and_eq_true] at hv
    obtain ⟨b, rest, rfl, hb, _⟩ := validIdent_head hv.1
    exact ⟨b, by simp [inlineBytes], alpha_notBlank b hb⟩
  | fn id pos named =>
    simp only [validInline, Bool.and_eq_true] at hv
    obtain ⟨b, rest, rfl, hb, _⟩ := validIdent_head hv.1.1.1.1
    exact ⟨b, by simp [inlineBytes], alpha_notBlank b hb⟩
  | term id attr args =>
    cases args with
    | none => exact ⟨45, by simp [inlineBytes], by decide⟩
    | some pn => obtain ⟨p, n⟩ := pn; exact ⟨45, by simp [inlineBytes], by decide⟩
  | placeable e => exact ⟨123, by simp [inlineBytes], by decide⟩

theorem namedTail_head (named : List (Bytes × Inline Bytes)) (hv : validNamed named = true) :
    ∃ b, (namedTail named).head? = some b ∧ b ≠ 32 ∧ b ≠ 10 ∧ b ≠ 13 ∧ (named = [] → b = 41) ∧
      (named ≠ [] → b ≠ 41) := by
  cases named with
  | nil => exact ⟨41, by simp [namedTail], by decide, by decide, by decide, fun _ => rfl, fun h => absurd rfl h⟩
  | cons x xs =>
    obtain ⟨n, v⟩ := x
    simp only [validNamed, Bool.and_eq_true] at hv
    obtain ⟨b, rest, rfl, hb, _⟩ := validIdent_head hv.1.1.1
    obtain ⟨h1, h2, h3, h4⟩ := (notBlank_iff b).mp (alpha_notBlank b hb)
    exact ⟨b, by simp [namedTail], h1, h2, h3, fun h => by simp at h, fun _ => h4⟩

/-! ## named arguments -/

theorem getInline_literal {s : Src} (hs : AsciiThenBoundary s) (v : Inline Bytes) (hl : isLiteral v = true)
    (hv : validInline v = true) (p n : Nat) (ol : Bool) (h : At s p (inlineBytes v))
    (hstop : StopAt s (p + (inlineBytes v).length) numStop) :
    ∃ v', getInline s (n + 1) ol p = .ok v' (p + (inlineBytes v).length) ∧ v'.mapS (spanBytes s) = v := by
  cases v with
  | str b =>
    simp only [validInline] at hv
    simp only [inlineBytes] at h ⊢
    refine ⟨.str ⟨p + 1, p + 1 + b.length⟩, ?_, ?_⟩
    · rw [getInline_str hs b hv p n ol h]; simp; omega
    · rw [at_cons, at_append] at h
      simp [Inline.mapS, at_spanBytes h.2.1]
  | num b =>
    simp only [validInline] at hv
    simp only [inlineBytes] at h hstop ⊢
    exact ⟨_, getInline_num hs b hv p n ol h hstop, by simp [Inline.mapS, at_spanBytes h]⟩
  | _ => simp [isLiteral] at hl

/-- the bytes of a name in the accumulated named arguments -/
def accNames (s : Src) (named0 : List (Span × Inline Span)) : List Bytes := named0.map fun na => spanBytes s na.1

theorem mapNamed_append (f : Span → Bytes) (a b : List (Span × Inline Span)) :
    mapNamed f (a ++ b) = mapNamed f a ++ mapNamed f b := by
  induction a with
  | nil => rfl
  | cons x xs ih => obtain ⟨n, v⟩ := x; simp [mapNamed, ih]

theorem mapInl_append (f : Span → Bytes) (a b : List (Inline Span)) :
    mapInl f (a ++ b) = mapInl f a ++ mapInl f b := by
  induction a with
  | nil => rfl
  | cons x xs ih => simp [mapInl, ih]

theorem nextPos_close (s : Src) (q : Nat) (h : s[q]? = some 41) :
    skipBlank s (takeByteIf s (skipBlank s q) 44).fst = q := by
  have h1 := skipBlank_at_byte s q 41 h (by decide) (by decide) (by decide)
  rw [h1, takeByteIf_no s q 44 (by rw [h]; decide)]
  exact h1

theorem nextPos_comma (s : Src) (q : Nat) (b : UInt8) (h0 : s[q]? = some 44) (h1 : s[q + 1]? = some 32)
    (h2 : s[q + 2]? = some b) (hb : b ≠ 32 ∧ b ≠ 10 ∧ b ≠ 13) :
    skipBlank s (takeByteIf s (skipBlank s q) 44).fst = q + 2 := by
  rw [skipBlank_at_byte s q 44 h0 (by decide) (by decide) (by decide), takeByteIf_yes s q 44 h0]
  simp only []
  rw [skipBlank_space s (q + 1) h1]
  exact skipBlank_at_byte s (q + 2) b h2 hb.1 hb.2.1 hb.2.2

/-- what `getCallArgsLoop_named` proves about the named arguments (passed to `getCallArgsLoop_pos` as a
hypothesis, so that the mutual induction stays structural) -/
def NamedLoopOK (s : Src) (named : List (Bytes × Inline Bytes)) : Prop :=
  ∀ (p fuel : Nat) (pos0 : List (Inline Span)) (named0 : List (Span × Inline Span)),
    At s p (namedTail named) → fuelNamed named + 3 ≤ fuel →
    (∀ n ∈ named.map Prod.fst, n ∉ accNames s named0) →
    ∃ named', getCallArgsLoop s fuel pos0 named0 p =
        .ok (pos0, named0 ++ named') (p + (namedTail named).length - 1) ∧
      mapNamed (spanBytes s) named' = named

/-! ## positional arguments and the inline expression itself -/

theorem getCallArgsLoop_step_pos (s : Src) (k : Nat) (pos0 : List (Inline Span)) (p : Nat) (e' : Inline Span) (q : Nat)
    (hp : p < s.size) (h41 : isCurrentByte s p 41 = false) (he : getInline s k false p = .ok e' q)
    (hq : skipBlank s q = q) (h58 : isCurrentByte s q 58 = false) :
    getCallArgsLoop s (k + 1) pos0 [] p =
      getCallArgsLoop s k (pos0 ++ [e']) [] (skipBlank s (takeByteIf s q 44).fst) := by
  rw [getCallArgsLoop]
  simp only [hp, if_true, h41, Bool.false_eq_true, if_false, he]
  cases e' with
  | msg id attr => cases attr <;> simp [hq, h58]
  | _ => simp [hq]

theorem getCallArguments_open (s : Src) (m q : Nat) (b : UInt8) (r : List (Inline Span) × List (Span × Inline Span))
    (qe : Nat) (h40 : s[q]? = some 40) (hb : s[q + 1]? = some b) (hnb : b ≠ 32 ∧ b ≠ 10 ∧ b ≠ 13)
    (hloop : getCallArgsLoop s m [] [] (q + 1) = .ok r qe) (h41 : s[qe]? = some 41) :
    getCallArguments s (m + 1) q = .ok (some r) (qe + 1) := by
  rw [getCallArguments]
  rw [skipBlank_at_byte s q 40 h40 (by decide) (by decide) (by decide), takeByteIf_yes s q 40 h40]
  simp only [Bool.not_true, Bool.false_eq_true, if_false]
  rw [skipBlank_at_byte s (q + 1) b hb hnb.1 hnb.2.1 hnb.2.2, hloop]
  obtain ⟨r1, r2⟩ := r
  simp [expectByte, isCurrentByte, h41]

theorem posTail_head (xs : List (Inline Bytes)) (hv : validInl xs = true) (named : List (Bytes × Inline Bytes))
    (hvn : validNamed named = true) :
    ∃ b, (posTail xs named.isEmpty (namedTail named)).head? = some b ∧ b ≠ 32 ∧ b ≠ 10 ∧ b ≠ 13 := by
  cases xs with
  | nil =>
    obtain ⟨b, h1, h2, h3, h4, _⟩ := namedTail_head named hvn
    exact ⟨b, by simpa [posTail] using h1, h2, h3, h4⟩
  | cons x xs =>
    simp only [validInl, Bool.and_eq_true] at hv
    obtain ⟨b, h1, h2⟩ := inlineBytes_head x hv.1
    obtain ⟨n1, n2, n3, _⟩ := (notBlank_iff b).mp h2
    refine ⟨b, ?_, n1, n2, n3⟩
    rw [posTail]
    cases hx : inlineBytes x with
    | nil => simp [hx] at h1
    | cons y ys => simp [hx] at h1 ⊢; exact h1

theorem posTail_last (xs : List (Inline Bytes)) (named : List (Bytes × Inline Bytes)) :
    ∃ pre, posTail xs named.isEmpty (namedTail named) = pre ++ [41] := by
  have hn : ∀ named : List (Bytes × Inline Bytes), ∃ pre, namedTail named = pre ++ [41] := by
    intro named
    induction named with
    | nil => exact ⟨[], rfl⟩
    | cons x xs ih =>
      obtain ⟨n, v⟩ := x
      obtain ⟨pre, hpre⟩ := ih
      exact ⟨_, by rw [namedTail, hpre, ← List.append_assoc]⟩
  induction xs with
  | nil => simpa [posTail] using hn named
  | cons x xs ih =>
    obtain ⟨pre, hpre⟩ := ih
    exact ⟨_, by rw [posTail, hpre, ← List.append_assoc]⟩

theorem endPos_stay (e : Inline Bytes) (s : Src) (q : Nat) (h : skipBlank s q = q) : endPos e s q = q := by
  unfold endPos; split <;> simp [h]

theorem getPlaceable_inline (s : Src) (k p1 : Nat) (e' : Inline Span) (pe : Nat) (hsb : skipBlank s p1 = p1)
    (he : getInline s k false p1 = .ok e' pe) (h125 : s[pe]? = some 125)
    (hnt : ∀ a b c, e' ≠ .term a (some b) c) :
    getPlaceable s (k + 2) p1 = .ok (.inline e') (pe + 1) := by
  have hsb2 : skipBlank s pe = pe := skipBlank_at_byte s pe 125 h125 (by decide) (by decide) (by decide)
  have hsb3 : skipBlankInline s pe = pe := skipBlankInline_stay s pe (by rw [h125]; decide)
  have h45 : isCurrentByte s pe 45 = false := by simp [isCurrentByte, h125]
  have hex : getExpression s (k + 1) p1 = .ok (.inline e') pe := by
    rw [getExpression, he]
    simp only [hsb2, h45, Bool.not_false, Bool.true_or, if_true]
  rw [getPlaceable, hsb, hex]
  simp only [hsb3, expectByte, isCurrentByte, h125, beq_self_eq_true, if_true]
  cases e' with
  | term a b c => cases b with
    | none => rfl
    | some b => exact absurd rfl (hnt a b c)
  | _ => rfl

theorem notTermAttr_of_valid {i : Inline Bytes} (h : validInner (.inline i) = true) (e' : Inline Span)
    (f : Span → Bytes) (hm : e'.mapS f = i) : ∀ a b c, e' ≠ .term a (some b) c := by
  intro a b c he
  subst he
  cases c with
  | none => simp only [Inline.mapS] at hm; subst hm; simp [validInner] at h
  | some pn => obtain ⟨p, n⟩ := pn; simp only [Inline.mapS] at hm; subst hm; simp [validInner] at h

theorem at_last_paren {s : Src} {q : Nat} {T : Bytes} (h : At s q T) (hl : ∃ pre, T = pre ++ [41]) :
    s[q + T.length - 1]? = some 41 := by
  obtain ⟨pre, rfl⟩ := hl
  rw [at_append] at h
  simp only [at_cons] at h
  simpa using h.2.1

mutual

theorem getInline_bytes {s : Src} (hs : AsciiThenBoundary s) (e : Inline Bytes) (hv : validInline e = true)
    (p fuel : Nat) (h : At s p (inlineBytes e)) (hf : Follow s (p + (inlineBytes e).length))
    (hfuel : fuelInline e ≤ fuel) :
    ∃ e', getInline s fuel false p = .ok e' (endPos e s (p + (inlineBytes e).length)) ∧
      e'.mapS (spanBytes s) = e := by
  cases e with
  | str v =>
    obtain ⟨n, rfl⟩ : ∃ n, fuel = n + 1 := ⟨fuel - 1, by simp [fuelInline] at hfuel; omega⟩
    exact getInline_literal hs (.str v) rfl hv p n false h hf.num
  | num v =>
    obtain ⟨n, rfl⟩ : ∃ n, fuel = n + 1 := ⟨fuel - 1, by simp [fuelInline] at hfuel; omega⟩
    exact getInline_literal hs (.num v) rfl hv p n false h hf.num
  | var id =>
    obtain ⟨n, rfl⟩ : ∃ n, fuel = n + 1 := ⟨fuel - 1, by simp [fuelInline] at hfuel; omega⟩
    simp only [validInline] at hv
    simp only [inlineBytes, List.length_cons] at h hf ⊢
    have hf' : Follow s (p + 1 + id.length) := by rw [show p + 1 + id.length = p + (id.length + 1) by omega]; exact hf
    refine ⟨.var ⟨p + 1, p + 1 + id.length⟩, ?_, ?_⟩
    · rw [getInline_var hs id hv p n h hf'.ident]
      simp [endPos]; omega
    · rw [at_cons] at h
      simp [Inline.mapS, at_spanBytes h.2]
  | msg id attr =>
    obtain ⟨n, rfl⟩ : ∃ n, fuel = n + 2 := ⟨fuel - 2, by simp [fuelInline] at hfuel; omega⟩
    simp only [validInline, Bool.and_eq_true] at hv
    cases attr with
    | none =>
      simp only [inlineBytes, attrBytes, List.append_nil] at h hf ⊢
      exact ⟨_, getInline_msg_none hs id hv.1 p n h hf.ident hf.2, by simp [Inline.mapS, at_spanBytes h]⟩
    | some a =>
      simp only [optIdent] at hv
      simp only [inlineBytes, attrBytes, List.length_append, List.length_cons] at h hf ⊢
      have hf' : Follow s (p + id.length + 1 + a.length) := by
        rw [show p + id.length + 1 + a.length = p + (id.length + (a.length + 1)) by omega]; exact hf
      refine ⟨.msg ⟨p, p + id.length⟩ (some ⟨p + id.length + 1, p + id.length + 1 + a.length⟩), ?_, ?_⟩
      · rw [getInline_msg_some hs id a hv.1 hv.2 p n h hf'.ident]
        simp [endPos]; omega
      · rw [at_append, at_cons] at h
        simp [Inline.mapS, at_spanBytes h.1, at_spanBytes h.2.2]
  | term id attr args =>
    cases args with
    | none =>
      obtain ⟨n, rfl⟩ : ∃ n, fuel = n + 2 := ⟨fuel - 2, by simp [fuelInline] at hfuel; omega⟩
      simp only [validInline, Bool.and_eq_true] at hv
      simp only [inlineBytes] at h hf ⊢
      have epos : p + (45 :: (id ++ attrBytes attr)).length = p + 1 + id.length + (attrBytes attr).length := by
        simp; omega
      rw [epos] at hf
      simp only [endPos, epos]
      have := getInline_term_noargs hs id attr hv.1 hv.2 p n h hf.ident hf.2
      refine ⟨_, this, ?_⟩
      rw [at_cons, at_append] at h
      obtain ⟨_, h1, h2⟩ := h
      cases attr with
      | none => simp [Inline.mapS, at_spanBytes h1]
      | some a =>
        simp only [attrBytes, at_cons] at h2
        simp [Inline.mapS, at_spanBytes h1, at_spanBytes h2.2]
    | some pn =>
      obtain ⟨pos, named⟩ := pn
      simp only [validInline, Bool.and_eq_true] at hv
      obtain ⟨⟨⟨⟨hid, hattr⟩, hpos⟩, hnamed⟩, hnd⟩ := hv
      have hnd' : (named.map Prod.fst).Nodup := by simpa [namesNodup] using hnd
      obtain ⟨m, rfl⟩ : ∃ m, fuel = m + 2 := ⟨fuel - 2, by simp [fuelInline] at hfuel; omega⟩
      have hm : fuelArgs pos + fuelNamed named + 3 ≤ m := by simp [fuelInline] at hfuel; omega
      simp only [inlineBytes] at h hf ⊢
      rw [at_cons, at_append, at_append, at_cons] at h
      obtain ⟨h0, ⟨h1, h2⟩, h40, hT⟩ := h
      simp only [List.length_append] at h40 hT
      rw [← Nat.add_assoc] at h40 hT
      obtain ⟨xs', named', hloop, hmx, hmn⟩ :=
        getCallArgsLoop_pos hs pos hpos named hnamed
          (fun p fuel pos0 named0 => getCallArgsLoop_named hs named hnamed hnd' p fuel pos0 named0) _ m [] hT hm
      have h41 := at_last_paren hT (posTail_last pos named)
      have hTlen : 1 ≤ (posTail pos named.isEmpty (namedTail named)).length := by
        obtain ⟨pre, hpre⟩ := posTail_last pos named; rw [hpre]; simp
      obtain ⟨b, hb, hnb⟩ := posTail_head pos hpos named hnamed
      have hca := getCallArguments_open s m _ b _ _ h40 (at_head hT hb) hnb hloop h41
      obtain ⟨c, rest, hidc, hc, _⟩ := validIdent_head hid
      have hc0 : s[p + 1]? = some c := by rw [hidc, at_cons] at h1; exact h1.1
      have his : isIdentifierStart s (p + 1) = true := by simp [isIdentifierStart, hc0, hc]
      cases attr with
      | none =>
        simp only [attrBytes, List.length_nil, Nat.add_zero] at h40 hca
        have hstop : StopAt s (p + 1 + id.length) isIdentByte := fun c hc => by rw [h40] at hc; cases hc; decide
        have hid' := getIdentifierUnchecked_at hs (p + 1) id hid h1 hstop
        simp only [show p + 1 + 1 = p + 2 by omega] at hid'
        refine ⟨.term ⟨p + 1, p + 1 + id.length⟩ none (some (xs', named')), ?_,
          by simp [Inline.mapS, at_spanBytes h1, hmx, hmn]⟩
        rw [getInline, h0]
        simp only [his, hid', getAttributeAccessor_none s _ (by rw [h40]; decide), hca]
        simp [isDigit, endPos, attrBytes]
        omega
      | some a =>
        simp only [optIdent] at hattr
        simp only [attrBytes, at_cons, List.length_cons] at h2 h40 hca
        have hstop : StopAt s (p + 1 + id.length) isIdentByte := fun c hc => by rw [h2.1] at hc; cases hc; decide
        have hid' := getIdentifierUnchecked_at hs (p + 1) id hid h1 hstop
        simp only [show p + 1 + 1 = p + 2 by omega] at hid'
        have e3 : p + 1 + id.length + (a.length + 1) = p + 1 + id.length + 1 + a.length := by omega
        rw [e3] at h40 hca
        have hstop2 : StopAt s (p + 1 + id.length + 1 + a.length) isIdentByte := fun c hc => by
          rw [h40] at hc; cases hc; decide
        refine ⟨.term ⟨p + 1, p + 1 + id.length⟩ (some ⟨p + 1 + id.length + 1, p + 1 + id.length + 1 + a.length⟩)
          (some (xs', named')), ?_, by simp [Inline.mapS, at_spanBytes h1, at_spanBytes h2.2, hmx, hmn]⟩
        rw [getInline, h0]
        simp only [his, hid', getAttributeAccessor_some hs _ a hattr (by rw [at_cons]; exact h2) hstop2, hca]
        simp [isDigit, endPos, attrBytes]
        omega
  | fn id pos named =>
    simp only [validInline, Bool.and_eq_true] at hv
    obtain ⟨⟨⟨⟨hid, hcallee⟩, hpos⟩, hnamed⟩, hnd⟩ := hv
    have hnd' : (named.map Prod.fst).Nodup := by simpa [namesNodup] using hnd
    obtain ⟨m, rfl⟩ : ∃ m, fuel = m + 2 := ⟨fuel - 2, by simp [fuelInline] at hfuel; omega⟩
    have hm : fuelArgs pos + fuelNamed named + 3 ≤ m := by simp [fuelInline] at hfuel; omega
    simp only [inlineBytes] at h hf ⊢
    rw [at_append, at_cons] at h
    obtain ⟨h1, h40, hT⟩ := h
    obtain ⟨xs', named', hloop, hmx, hmn⟩ :=
      getCallArgsLoop_pos hs pos hpos named hnamed
        (fun p fuel pos0 named0 => getCallArgsLoop_named hs named hnamed hnd' p fuel pos0 named0)
        (p + id.length + 1) m [] hT hm
    have h41 := at_last_paren hT (posTail_last pos named)
    have hTlen : 1 ≤ (posTail pos named.isEmpty (namedTail named)).length := by
      obtain ⟨pre, hpre⟩ := posTail_last pos named; rw [hpre]; simp
    obtain ⟨b, hb, hnb⟩ := posTail_head pos hpos named hnamed
    have hca := getCallArguments_open s m (p + id.length) b _ _ h40 (at_head hT hb) hnb hloop h41
    obtain ⟨c, rest, hidc, hc, _⟩ := validIdent_head hid
    have h0 : s[p]? = some c := by rw [hidc, at_cons] at h1; exact h1.1
    obtain ⟨f1, f2, f3, f4⟩ := alpha_facts c hc
    have hstop : StopAt s (p + id.length) isIdentByte := fun c hc => by rw [h40] at hc; cases hc; decide
    have hcal : isCallee s ⟨p, p + id.length⟩ = true := by
      simp only [isCallee, at_spanBytes h1]; exact hcallee
    refine ⟨.fn ⟨p, p + id.length⟩ xs' named', ?_, by simp [Inline.mapS, at_spanBytes h1, hmx, hmn]⟩
    rw [getInline, h0]
    simp only [beq_iff_eq, f1, f2, f3, if_false, hc, if_true, Bool.false_eq_true,
      getIdentifierUnchecked_at hs p id hid h1 hstop, hca, hcal]
    simp [f4, endPos]
    omega
  | placeable e =>
    cases e with
    | select sel vs => simp [validInline, validInner] at hv
    | inline i =>
      have hvi : validInner (.inline i) = true := by simpa [validInline] using hv
      have hi := validInner_inline hvi
      obtain ⟨k, rfl⟩ : ∃ k, fuel = k + 3 := ⟨fuel - 3, by simp [fuelInline, fuelInner] at hfuel; omega⟩
      have hk : fuelInline i ≤ k := by simp [fuelInline, fuelInner] at hfuel; omega
      simp only [inlineBytes, innerBytes] at h hf ⊢
      rw [at_cons, at_append] at h
      obtain ⟨h0, h1, h2⟩ := h
      simp only [at_cons] at h2
      obtain ⟨hfol, hsb⟩ := follow_of_byte 125 h2.1 (by decide)
      obtain ⟨e', he, hm⟩ := getInline_bytes hs i hi (p + 1) k h1 hfol hk
      rw [endPos_stay i s _ hsb] at he
      obtain ⟨b, hb, hnb⟩ := inlineBytes_head i hi
      have hb0 := at_head h1 hb
      obtain ⟨n1, n2, n3, _⟩ := (notBlank_iff b).mp hnb
      have hsb1 := skipBlank_at_byte s (p + 1) b hb0 n1 n2 n3
      have hpl := getPlaceable_inline s k (p + 1) e' _ hsb1 he h2.1 (notTermAttr_of_valid hvi e' _ hm)
      refine ⟨.placeable (.inline e'), ?_, by simp [Inline.mapS, Expr.mapS, hm]⟩
      rw [getInline, h0]
      simp only [hpl]
      simp [isDigit, isAlpha, endPos]
      omega

theorem getCallArgsLoop_pos {s : Src} (hs : AsciiThenBoundary s) (xs : List (Inline Bytes)) (hv : validInl xs = true)
    (named : List (Bytes × Inline Bytes)) (hvn : validNamed named = true) (hnl : NamedLoopOK s named)
    (p fuel : Nat) (pos0 : List (Inline Span)) (h : At s p (posTail xs named.isEmpty (namedTail named)))
    (hfuel : fuelArgs xs + fuelNamed named + 3 ≤ fuel) :
    ∃ xs' named', getCallArgsLoop s fuel pos0 [] p =
        .ok (pos0 ++ xs', named') (p + (posTail xs named.isEmpty (namedTail named)).length - 1) ∧
      mapInl (spanBytes s) xs' = xs ∧ mapNamed (spanBytes s) named' = named := by
  cases xs with
  | nil =>
    simp only [posTail] at h ⊢
    obtain ⟨named', hl, hm⟩ := hnl p fuel pos0 [] h
      (by simp [fuelArgs] at hfuel; omega) (by simp [accNames])
    exact ⟨[], named', by simpa using hl, rfl, hm⟩
  | cons x xs =>
    simp only [validInl, Bool.and_eq_true] at hv
    obtain ⟨k, rfl⟩ : ∃ k, fuel = k + 1 := ⟨fuel - 1, by omega⟩
    have hk1 : fuelInline x ≤ k := by simp [fuelArgs] at hfuel; omega
    have hk2 : fuelArgs xs + fuelNamed named + 3 ≤ k := by simp [fuelArgs] at hfuel; omega
    have hpt : posTail (x :: xs) named.isEmpty (namedTail named) =
        inlineBytes x ++ (if xs.isEmpty && named.isEmpty then [] else [44, 32]) ++
          posTail xs named.isEmpty (namedTail named) := by rw [posTail]
    rw [hpt, at_append, at_append] at h
    obtain ⟨⟨h1, h2⟩, h3⟩ := h
    -- what follows `x`
    obtain ⟨q', hnext, hat', hfol, hsb, h58, hlen⟩ : ∃ q',
        skipBlank s (takeByteIf s (p + (inlineBytes x).length) 44).fst = q' ∧
        At s q' (posTail xs named.isEmpty (namedTail named)) ∧ Follow s (p + (inlineBytes x).length) ∧
        skipBlank s (p + (inlineBytes x).length) = p + (inlineBytes x).length ∧
        isCurrentByte s (p + (inlineBytes x).length) 58 = false ∧
        q' + (posTail xs named.isEmpty (namedTail named)).length =
          p + (posTail (x :: xs) named.isEmpty (namedTail named)).length := by
      by_cases hlast : (xs.isEmpty && named.isEmpty) = true
      · simp only [Bool.and_eq_true, List.isEmpty_iff] at hlast
        obtain ⟨rfl, rfl⟩ := hlast
        simp only [List.isEmpty_nil, Bool.and_self, if_true, posTail, namedTail, at_cons, List.append_nil] at h3 ⊢
        obtain ⟨hf1, hf2⟩ := follow_of_byte 41 h3.1 (by decide)
        have := nextPos_close s _ h3.1
        rw [hf2] at this
        exact ⟨_, this, by simp [h3.1], hf1, hf2, by simp [isCurrentByte, h3.1], by simp; omega⟩
      · simp only [hlast, Bool.false_eq_true, if_false, at_cons] at h2 h3
        rw [hpt]
        simp only [hlast, Bool.false_eq_true, if_false]
        obtain ⟨hf1, hf2⟩ := follow_of_byte 44 h2.1 (by decide)
        obtain ⟨b, hb, hnb⟩ := posTail_head xs hv.2 named hvn
        have e5 : p + (inlineBytes x ++ [44, 32]).length = p + (inlineBytes x).length + 2 := by simp; omega
        rw [e5] at h3
        have := nextPos_comma s _ b h2.1 h2.2.1 (at_head h3 hb) hnb
        rw [hf2] at this
        exact ⟨_, this, h3, hf1, hf2, by simp [isCurrentByte, h2.1], by simp; omega⟩
    obtain ⟨e', he, hme⟩ := getInline_bytes hs x hv.1 p k h1 hfol hk1
    rw [endPos_stay x s _ hsb] at he
    obtain ⟨xs', named', hloop, hmx, hmn⟩ :=
      getCallArgsLoop_pos hs xs hv.2 named hvn hnl q' k (pos0 ++ [e']) hat' hk2
    obtain ⟨b, hb, hnb⟩ := inlineBytes_head x hv.1
    have hb0 := at_head h1 hb
    have h41 : isCurrentByte s p 41 = false := by
      have := ((notBlank_iff b).mp hnb).2.2.2
      simp [isCurrentByte, hb0, this]
    refine ⟨e' :: xs', named', ?_, by simp [mapInl, hme, hmx], hmn⟩
    rw [getCallArgsLoop_step_pos s k pos0 p e' _ (get_lt hb0) h41 he hsb h58, hnext, hloop]
    simp only [List.append_assoc, List.singleton_append]
    congr 1
    omega

theorem getCallArgsLoop_named {s : Src} (hs : AsciiThenBoundary s) (named : List (Bytes × Inline Bytes))
    (hv : validNamed named = true) (hnd : (named.map Prod.fst).Nodup)
    (p fuel : Nat) (pos0 : List (Inline Span)) (named0 : List (Span × Inline Span))
    (h : At s p (namedTail named)) (hf : fuelNamed named + 3 ≤ fuel)
    (hdis : ∀ n ∈ named.map Prod.fst, n ∉ accNames s named0) :
    ∃ named', getCallArgsLoop s fuel pos0 named0 p =
        .ok (pos0, named0 ++ named') (p + (namedTail named).length - 1) ∧
      mapNamed (spanBytes s) named' = named := by
  cases named with
  | nil =>
    obtain ⟨k, rfl⟩ : ∃ k, fuel = k + 1 := ⟨fuel - 1, by omega⟩
    simp only [namedTail, at_cons] at h
    refine ⟨[], ?_, rfl⟩
    rw [getCallArgsLoop]
    simp only [get_lt h.1, if_true, isCurrentByte, h.1, beq_self_eq_true, namedTail, List.append_nil,
      List.length_cons, List.length_nil]
    rfl
  | cons x xs =>
    obtain ⟨n, v⟩ := x
    have hfv := fuelInline_ge v
    obtain ⟨k, rfl⟩ : ∃ k, fuel = k + 3 := ⟨fuel - 3, by simp only [fuelNamed] at hf; omega⟩
    have hkv : fuelInline v ≤ k + 2 := by simp only [fuelNamed] at hf; omega
    have hkxs : fuelNamed xs + 3 ≤ k + 2 := by simp only [fuelNamed] at hf; omega
    simp only [validNamed, Bool.and_eq_true] at hv
    obtain ⟨⟨⟨hn, hl⟩, hvv⟩, hxs⟩ := hv
    simp only [List.map_cons, List.nodup_cons] at hnd
    rw [namedTail, at_append, at_append, at_append, at_append] at h
    obtain ⟨⟨⟨⟨h1, h2⟩, h3⟩, h4⟩, h5⟩ := h
    simp only [at_cons, List.length_append, List.length_cons, List.length_nil] at h2 h3 h4 h5
    -- first byte: a letter
    obtain ⟨b, rest, hnb, hb, _⟩ := validIdent_head hn
    have hp0 : s[p]? = some b := by rw [hnb, at_cons] at h1; exact h1.1
    have hb41 : b ≠ 41 := ((notBlank_iff b).mp (alpha_notBlank b hb)).2.2.2
    -- the name
    obtain ⟨hfol, hsb⟩ := follow_of_byte 58 h2.1 (by decide)
    have e1 := getInline_msg_none hs n hn p k h1 hfol.ident hfol.2
    rw [hsb] at e1
    -- the value
    obtain ⟨vb, hvb, hvnb⟩ := inlineBytes_head v hvv
    have hv0 := at_head h3 hvb
    obtain ⟨nb1, nb2, nb3, _⟩ := (notBlank_iff vb).mp hvnb
    have hsb2 : skipBlank s (p + n.length + 1) = p + n.length + 2 := by
      rw [skipBlank_space s _ h2.2.1]
      exact skipBlank_at_byte s _ vb (by simpa [Nat.add_assoc] using hv0) nb1 nb2 nb3
    have e3 : p + (n.length + (0 + 1 + 1)) = p + n.length + 2 := by omega
    have e4 : p + (n.length + (0 + 1 + 1) + (inlineBytes v).length) = p + n.length + 2 + (inlineBytes v).length := by
      omega
    rw [e3] at h3 hv0
    rw [e4] at h4
    -- where the loop restarts
    obtain ⟨q', hnext, hat', hfolv, hsbv, hlen⟩ : ∃ q',
        skipBlank s (takeByteIf s (skipBlank s (p + n.length + 2 + (inlineBytes v).length)) 44).fst = q' ∧
        At s q' (namedTail xs) ∧ Follow s (p + n.length + 2 + (inlineBytes v).length) ∧
        skipBlank s (p + n.length + 2 + (inlineBytes v).length) = p + n.length + 2 + (inlineBytes v).length ∧
        q' + (namedTail xs).length = p + (namedTail ((n, v) :: xs)).length := by
      cases xs with
      | nil =>
        simp only [List.isEmpty_nil, if_true, List.length_nil, Nat.add_zero, namedTail, at_cons] at h5
        rw [e4] at h5
        refine ⟨_, nextPos_close s _ h5.1, by simp [namedTail, at_cons, h5.1],
          (follow_of_byte 41 h5.1 (by decide)).1, (follow_of_byte 41 h5.1 (by decide)).2, ?_⟩
        simp [namedTail]; omega
      | cons y ys =>
        simp only [List.isEmpty_cons, Bool.false_eq_true, if_false, at_cons, List.length_cons, List.length_nil] at h4 h5
        obtain ⟨yb, hyb, y1, y2, y3, _⟩ := namedTail_head (y :: ys) hxs
        have e5 : p + (n.length + (0 + 1 + 1) + (inlineBytes v).length + (0 + 1 + 1)) =
            p + n.length + 2 + (inlineBytes v).length + 2 := by omega
        rw [e5] at h5
        refine ⟨_, nextPos_comma s _ yb h4.1 h4.2.1 (at_head h5 hyb) ⟨y1, y2, y3⟩, h5,
          (follow_of_byte 44 h4.1 (by decide)).1, (follow_of_byte 44 h4.1 (by decide)).2, ?_⟩
        have : namedTail ((n, v) :: y :: ys) = n ++ [58, 32] ++ inlineBytes v ++ [44, 32] ++ namedTail (y :: ys) := by
          rw [namedTail]; rfl
        rw [this]
        simp; omega
    have hstopv := hfolv.num
    -- the value: a literal, or (on a letter `only_literal` is not looked at) a reference / a call
    have viaFalse : (∃ c rest, inlineBytes v = c :: rest ∧ isAlpha c = true) →
        (∃ v', getInline s (k + 2) false (p + n.length + 2) =
            .ok v' (endPos v s (p + n.length + 2 + (inlineBytes v).length)) ∧ v'.mapS (spanBytes s) = v) →
        ∃ v', getInline s (k + 1 + 1) true (p + n.length + 2) = .ok v' (p + n.length + 2 + (inlineBytes v).length) ∧
          v'.mapS (spanBytes s) = v := by
      intro ⟨c, rest, hc, hca⟩ ⟨v', ev, rv⟩
      have hc0 : s[p + n.length + 2]? = some c := by rw [hc, at_cons] at h3; exact h3.1
      rw [endPos_stay v s _ hsbv] at ev
      exact ⟨v', by rw [getInline_ol_alpha s (k + 1) _ c hc0 hca]; exact ev, rv⟩
    obtain ⟨v', ev, rv⟩ : ∃ v', getInline s (k + 1 + 1) true (p + n.length + 2) =
        .ok v' (p + n.length + 2 + (inlineBytes v).length) ∧ v'.mapS (spanBytes s) = v := by
      cases v with
      | str b => exact getInline_literal hs (.str b) rfl hvv (p + n.length + 2) (k + 1) true h3 hstopv
      | num b => exact getInline_literal hs (.num b) rfl hvv (p + n.length + 2) (k + 1) true h3 hstopv
      | msg id attr =>
        refine viaFalse ?_ (getInline_bytes hs (.msg id attr) hvv (p + n.length + 2) (k + 2) h3 hfolv hkv)
        simp only [validInline, Bool.and_eq_true] at hvv
        obtain ⟨c, rest, hidc, hc, _⟩ := validIdent_head hvv.1
        exact ⟨c, rest ++ attrBytes attr, by simp [inlineBytes, hidc], hc⟩
      | fn id pos nm =>
        refine viaFalse ?_ (getInline_bytes hs (.fn id pos nm) hvv (p + n.length + 2) (k + 2) h3 hfolv hkv)
        simp only [validInline, Bool.and_eq_true] at hvv
        obtain ⟨c, rest, hidc, hc, _⟩ := validIdent_head hvv.1.1.1.1
        exact ⟨c, _, by simp only [inlineBytes, hidc, List.cons_append]; rfl, hc⟩
      | var id => simp [isNamedValue] at hl
      | term a b c => simp [isNamedValue] at hl
      | placeable e => simp [isNamedValue] at hl
    have hdup : (named0.any fun na => spanBytes s na.fst == spanBytes s ⟨p, p + n.length⟩) = false := by
      rw [at_spanBytes h1, List.any_eq_false]
      intro na hna heq
      apply hdis n (by simp)
      simp only [accNames, List.mem_map]
      exact ⟨na, hna, by simpa using heq⟩
    obtain ⟨named', eih, rih⟩ := getCallArgsLoop_named hs xs hxs hnd.2 q' (k + 2) pos0
      (named0 ++ [(⟨p, p + n.length⟩, v')]) hat' hkxs (by
        intro m hm
        simp only [accNames, List.map_append, List.map_cons, List.map_nil, List.mem_append, List.mem_singleton,
          at_spanBytes h1, not_or]
        refine ⟨hdis m (by simp [hm]), ?_⟩
        intro hmn; subst hmn
        exact hnd.1 (by simpa using hm))
    refine ⟨(⟨p, p + n.length⟩, v') :: named', ?_, ?_⟩
    · rw [getCallArgsLoop]
      have hc41 : isCurrentByte s p 41 = false := by simp [isCurrentByte, hp0, hb41]
      have hc58 : isCurrentByte s (p + n.length) 58 = true := by simp [isCurrentByte, h2.1]
      rw [hsbv] at hnext
      simp only [get_lt hp0, if_true, hc41, Bool.false_eq_true, if_false, e1, hsb, hc58, hdup, hsb2, ev, hsbv, hnext, eih]
      simp only [List.append_assoc, List.singleton_append]
      congr 1
      omega
    · simp [mapNamed, rv, rih, at_spanBytes h1]

end

/-! ## packaging -/

theorem at_toArray (pre bs rest : Bytes) : At (pre ++ bs ++ rest).toArray pre.length bs := by
  induction bs generalizing pre with
  | nil => simp
  | cons x xs ih =>
    rw [at_cons]
    constructor
    · simp
    · have := ih (pre ++ [x])
      simpa using this

theorem get_toArray_rest (pre bs rest : Bytes) (i : Nat) :
    (pre ++ bs ++ rest).toArray[pre.length + bs.length + i]? = rest[i]? := by
  simp only [List.getElem?_toArray, List.append_assoc]
  rw [List.getElem?_append_right (by omega), List.getElem?_append_right (by omega)]
  congr 1; omega

/-- from the empty writer the serializer produces exactly `inlineBytes e` -/
theorem serInline_empty (e : Inline Bytes) (hv : validInline e = true) :
    (serInline {} e).map (fun w => w.buffer.toList) = some (inlineBytes e) := by
  rw [(serInline_eq_bytes e hv {}).1]
  simp [Writer.writeLiteral, endsWith, Writer.pushAll]

/-- **T2 `inline_roundtrip`.**  Let `e` be a valid inline expression (`validInline`, decidable) and
`w` any writer.  The serializer writes one literal `out` (`= inlineBytes e`), and on every source
`s` (with the `&str` invariant) that contains `out` at `p` and continues with something that cannot
extend the expression (`Follow`), `get_inline_expression` returns a tree `e'` that resolves to `e`
(all seven expression forms, call arguments with positional and named arguments, nested
placeables) and stops at `endPos e s (p + out.length)`: exactly behind `out`, except that a
message/term reference without arguments also swallows the blanks that follow
(`get_call_arguments` calls `skip_blank` before looking for `(`). -/
theorem inline_roundtrip (e : Inline Bytes) (hv : validInline e = true) (w : Writer) :
    ∃ out, serInline w e = some (w.writeLiteral out) ∧
      ∀ (s : Src) (p fuel : Nat), AsciiThenBoundary s → At s p out → Follow s (p + out.length) →
        fuelInline e ≤ fuel →
        ∃ e', getInline s fuel false p = .ok e' (endPos e s (p + out.length)) ∧ e'.mapS (spanBytes s) = e :=
  ⟨inlineBytes e, (serInline_eq_bytes e hv w).1, fun _ p fuel hs h hf hfu => getInline_bytes hs e hv p fuel h hf hfu⟩

/-- **T2, concrete form.**  Serialise `e` from the empty writer to `out`, embed it as
`pre ++ out ++ rest` where `rest` starts with `,`, `)`, `}` or `:`; then the parser started at
`pre.length` returns `e` and stops exactly at `rest`. -/
theorem inline_roundtrip_source (e : Inline Bytes) (hv : validInline e = true) (pre rest : Bytes) (c : UInt8)
    (hc : c = 44 ∨ c = 41 ∨ c = 125 ∨ c = 58) (hrest : rest.head? = some c) (fuel : Nat) (hfuel : fuelInline e ≤ fuel) :
    ∃ out, (serInline {} e).map (fun w => w.buffer.toList) = some out ∧
      (AsciiThenBoundary (pre ++ out ++ rest).toArray →
        ∃ e', getInline (pre ++ out ++ rest).toArray fuel false pre.length = .ok e' (pre.length + out.length) ∧
          e'.mapS (spanBytes (pre ++ out ++ rest).toArray) = e) := by
  refine ⟨inlineBytes e, serInline_empty e hv, fun hs => ?_⟩
  have hq : (pre ++ inlineBytes e ++ rest).toArray[pre.length + (inlineBytes e).length]? = some c := by
    have := get_toArray_rest pre (inlineBytes e) rest 0
    rw [Nat.add_zero] at this
    rw [this]
    cases rest <;> simp_all
  obtain ⟨hf, hsb⟩ := follow_of_byte c hq hc
  obtain ⟨e', he, hm⟩ := getInline_bytes hs e hv pre.length fuel (at_toArray pre _ rest) hf hfuel
  rw [endPos_stay e _ _ hsb] at he
  exact ⟨e', he, hm⟩

end FluentProofs.Ser
