import FluentProofs.SerializerLineSplit
import FluentProofs.ParserValidLeaf
/-!
# Serializer lemmas, part 18: deep lifting of per-call facts to the whole tree (C04, "parser output is in the class")

The tree returned by `parse` contains patterns at every depth (message/term/attribute values,
variant values of selects inside placeables, selects inside call arguments …).  Each of them was
produced by some call `getPattern s n p`, and every named-argument value by some call
`getInline s n true p`.  `parse_deep` lifts any property `PP` of the results of `getPattern` and any
property `NV` of the results of `getInline … true` to every pattern / named value of the tree
(`dEntry PP NV`), by the joint induction on fuel over the eight mutually recursive parser functions
(the skeleton of `specs2_all`).
-/
namespace FluentProofs.Ser
open FluentModel FluentModel.Syntax FluentModel.Syntax.Ser FluentProofs.Parser

/-! ## the deep predicate -/

section defs
variable (PP : List (PatElem Span) → Prop) (NV : Inline Span → Prop)

mutual
/-- every pattern below satisfies `PP`, every named-argument value below satisfies `NV` -/
def dInline : Inline Span → Prop
  | .fn _ pos named => dInl pos ∧ dNamed named
  | .term _ _ (some (pos, named)) => dInl pos ∧ dNamed named
  | .placeable e => dExpr e
  | _ => True
def dInl : List (Inline Span) → Prop
  | [] => True
  | x :: xs => dInline x ∧ dInl xs
def dNamed : List (Span × Inline Span) → Prop
  | [] => True
  | (_, x) :: xs => (NV x ∧ dInline x) ∧ dNamed xs
def dExpr : Expr Span → Prop
  | .inline e => dInline e
  | .select sel vs => dInline sel ∧ dVariants vs
def dVariants : List (Variant Span) → Prop
  | [] => True
  | v :: vs => dVariant v ∧ dVariants vs
def dVariant : Variant Span → Prop
  | .mk _ val _ => PP val ∧ dElems val
def dElems : List (PatElem Span) → Prop
  | [] => True
  | e :: es => dElem e ∧ dElems es
def dElem : PatElem Span → Prop
  | .text _ => True
  | .placeable e => dExpr e
end

/-- a pattern: `PP` for itself, and deeply for its placeables -/
def dPat (els : List (PatElem Span)) : Prop := PP els ∧ dElems PP NV els

def dAttrs (as : List (Attribute Span)) : Prop := ∀ a ∈ as, dPat PP NV a.value

def dEntry : Entry Span → Prop
  | .message m => (∀ v, m.value = some v → dPat PP NV v) ∧ dAttrs PP NV m.attributes
  | .term t => dPat PP NV t.value ∧ dAttrs PP NV t.attributes
  | _ => True

/-- the placeholders collected by `get_pattern` -/
def PhD : Placeholder → Prop
  | .placeable e => dExpr PP NV e
  | .text _ _ _ _ => True

end defs

variable {PP : List (PatElem Span) → Prop} {NV : Inline Span → Prop}

theorem dInl_snoc {pos : List (Inline Span)} {e : Inline Span} (h1 : dInl PP NV pos) (h2 : dInline PP NV e) :
    dInl PP NV (pos ++ [e]) := by
  induction pos with
  | nil => simpa [dInl] using h2
  | cons y ys ih =>
    simp only [dInl, List.cons_append] at h1 ⊢
    exact ⟨h1.1, ih h1.2⟩

theorem dNamed_snoc {named : List (Span × Inline Span)} {n : Span} {e : Inline Span} (h1 : dNamed PP NV named)
    (h2 : NV e) (h3 : dInline PP NV e) : dNamed PP NV (named ++ [(n, e)]) := by
  induction named with
  | nil => simp only [List.nil_append, dNamed]; exact ⟨⟨h2, h3⟩, trivial⟩
  | cons y ys ih =>
    obtain ⟨m, v⟩ := y
    simp only [dNamed, List.cons_append] at h1 ⊢
    exact ⟨h1.1, ih h1.2⟩

theorem dVariants_snoc {vs : List (Variant Span)} {v : Variant Span} (h1 : dVariants PP NV vs) (h2 : dVariant PP NV v) :
    dVariants PP NV (vs ++ [v]) := by
  induction vs with
  | nil => simp only [List.nil_append, dVariants]; exact ⟨h2, trivial⟩
  | cons y ys ih =>
    simp only [dVariants, List.cons_append] at h1 ⊢
    exact ⟨h1.1, ih h1.2⟩

/-- `finishElements` keeps exactly the placeable expressions of the placeholders -/
theorem finishElements_d {s : Src} {ci : Option Nat} {lnb i : Nat} {els : List Placeholder}
    {r : List (PatElem Span)} (h : finishElements s ci lnb i els = some r) (hv : ∀ ph ∈ els, PhD PP NV ph) :
    dElems PP NV r := by
  induction els generalizing i r with
  | nil => simp only [finishElements] at h; cases h; simp [dElems]
  | cons ph rest ih =>
    have hrest : ∀ ph ∈ rest, PhD PP NV ph := fun x hx => hv x (List.mem_cons_of_mem _ hx)
    have hph := hv ph List.mem_cons_self
    by_cases hi : i > lnb
    · simp only [finishElements, hi, if_true] at h; cases h; simp [dElems]
    · have hsh := finishElements_cons_shape h hi
      cases ph with
      | placeable e =>
        obtain ⟨r', h1, rfl⟩ := hsh
        simp only [dElems, dElem]
        exact ⟨hph, ih h1 hrest⟩
      | text start stop indent role =>
        obtain ⟨start', _, _, g3⟩ := hsh
        rcases g3 with ⟨_, h1⟩ | ⟨_, sp, r', _, h1, rfl⟩
        · exact ih h1 hrest
        · simp only [dElems, dElem]
          exact ⟨trivial, ih h1 hrest⟩

theorem st2Of_d {s : Src} (st : PatState) (p indent start stop : Nat) (nb : Bool) (term : Termination) (st2 : PatState)
    (hinv : ∀ ph ∈ st.elements, PhD PP NV ph)
    (h : st2Of s st p indent start stop nb term = some st2) : ∀ ph ∈ st2.elements, PhD PP NV ph := by
  unfold st2Of at h
  simp only [] at h
  split at h
  · split at h
    · split at h
      · rename_i e sv he hsv
        simp only [Option.some.injEq] at h
        subst h
        have hpe : PhD PP NV e := by
          unfold elOf at he
          split at he
          · simp only [Option.map_eq_some_iff] at he
            obtain ⟨a, _, rfl⟩ := he
            trivial
          · simp at he; subst he; trivial
        intro ph hph
        simp only [List.mem_append, List.mem_singleton] at hph
        rcases hph with hph | rfl
        · exact hinv ph hph
        · exact hpe
      · cases h
    · simp only [Option.some.injEq] at h; subst h
      exact hinv
  · simp only [Option.some.injEq] at h; subst h; exact hinv

/-! ## partial correctness of the eight mutually recursive functions -/

/-- the two per-call facts that are lifted -/
structure Lift (s : Src) (PP : List (PatElem Span) → Prop) (NV : Inline Span → Prop) : Prop where
  pat : ∀ n p els q, getPattern s n p = .ok (some els) q → PP els
  nv : ∀ n p e q, getInline s n true p = .ok e q → NV e

structure SpecsD (s : Src) (PP : List (PatElem Span) → Prop) (NV : Inline Span → Prop) (n : Nat) : Prop where
  patternLoop : ∀ st p, (∀ ph ∈ st.elements, PhD PP NV ph) →
    Post (getPatternLoop s n st p) (fun st' => ∀ ph ∈ st'.elements, PhD PP NV ph)
  pattern : ∀ p, Post (getPattern s n p) (fun o => ∀ els, o = some els → dPat PP NV els)
  placeable : ∀ p, Post (getPlaceable s n p) (dExpr PP NV)
  expression : ∀ p, Post (getExpression s n p) (dExpr PP NV)
  inline : ∀ ol p, Post (getInline s n ol p) (dInline PP NV)
  callArguments : ∀ p, Post (getCallArguments s n p)
    (fun o => ∀ pos named, o = some (pos, named) → dInl PP NV pos ∧ dNamed PP NV named)
  callArgsLoop : ∀ pos named p, dInl PP NV pos → dNamed PP NV named →
    Post (getCallArgsLoop s n pos named p) (fun r => dInl PP NV r.1 ∧ dNamed PP NV r.2)
  variants : ∀ hd acc p, dVariants PP NV acc → Post (getVariants s n hd acc p) (dVariants PP NV)

theorem pattern_stepD {s : Src} {n : Nat} (L : Lift s PP NV) (IH : SpecsD s PP NV n) (p : Nat) :
    Post (getPattern s (n + 1) p) (fun o => ∀ els, o = some els → dPat PP NV els) := by
  intro a q h els hels
  subst hels
  have hpp := L.pat (n + 1) p els q h
  simp only [getPattern] at h
  split at h <;> try (cases h; done)
  rename_i st q' hloop
  have hinv := IH.patternLoop _ _ (by simp) st q' hloop
  split at h
  · rename_i lnb hlnb
    split at h <;> try (cases h; done)
    rename_i els' hfin
    cases h
    exact ⟨hpp, finishElements_d hfin hinv⟩
  · cases h

theorem placeable_stepD {s : Src} {n : Nat} (IH : SpecsD s PP NV n) (p : Nat) :
    Post (getPlaceable s (n + 1) p) (dExpr PP NV) := by
  intro a q h
  simp only [getPlaceable] at h
  split at h <;> try (cases h; done)
  rename_i exp q' hex
  have := IH.expression _ exp q' hex
  split at h <;> try (cases h; done)
  split at h <;> try (cases h; done)
  cases h; exact this

theorem expression_stepD {s : Src} {n : Nat} (IH : SpecsD s PP NV n) (p : Nat) :
    Post (getExpression s (n + 1) p) (dExpr PP NV) := by
  intro a q h
  simp only [getExpression] at h
  split at h <;> try (cases h; done)
  rename_i exp q' hin
  have hi := IH.inline _ _ exp q' hin
  split at h
  · split at h <;> try (cases h; done)
    cases h
    simpa [dExpr] using hi
  · split at h <;> try (cases h; done)
    split at h <;> try (cases h; done)
    split at h <;> try (cases h; done)
    rename_i vs q5 hvs
    have hv := IH.variants false [] _ (by simp [dVariants]) vs q5 hvs
    cases h
    simp only [dExpr]
    exact ⟨hi, hv⟩

theorem callArguments_stepD {s : Src} {n : Nat} (IH : SpecsD s PP NV n) (p : Nat) :
    Post (getCallArguments s (n + 1) p)
      (fun o => ∀ pos named, o = some (pos, named) → dInl PP NV pos ∧ dNamed PP NV named) := by
  intro a q h pos named ha
  subst ha
  simp only [getCallArguments] at h
  split at h
  · cases h
  · split at h <;> try (cases h; done)
    rename_i r q' hloop
    split at h <;> try (cases h; done)
    cases h
    exact IH.callArgsLoop [] [] _ (by simp [dInl]) (by simp [dNamed]) _ q' hloop

theorem inline_stepD {s : Src} {n : Nat} (IH : SpecsD s PP NV n) (ol : Bool) (p : Nat) :
    Post (getInline s (n + 1) ol p) (dInline PP NV) := by
  intro a q h
  simp only [getInline] at h
  split at h
  · split at h <;> cases h
  · split at h
    · -- string
      split at h <;> try (cases h; done)
      split at h <;> try (cases h; done)
      split at h <;> try (cases h; done)
      split at h <;> try (cases h; done)
      cases h; simp [dInline]
    · split at h
      · split at h <;> try (cases h; done)
        cases h; simp [dInline]
      · split at h
        · split at h
          · -- term
            split at h <;> try (cases h; done)
            split at h <;> try (cases h; done)
            split at h <;> try (cases h; done)
            rename_i args q2 hca
            have := IH.callArguments _ args q2 hca
            cases h
            cases args with
            | none => simp [dInline]
            | some pn =>
              obtain ⟨pos, named⟩ := pn
              simpa [dInline] using this pos named rfl
          · split at h <;> try (cases h; done)
            cases h; simp [dInline]
        · split at h
          · split at h <;> try (cases h; done)
            cases h; simp [dInline]
          · split at h
            · split at h <;> try (cases h; done)
              split at h <;> try (cases h; done)
              · rename_i pos named q1 hca
                have := IH.callArguments _ _ q1 hca pos named rfl
                split at h <;> try (cases h; done)
                cases h
                simpa [dInline] using this
              · split at h <;> try (cases h; done)
                cases h; simp [dInline]
            · split at h
              · split at h <;> try (cases h; done)
                rename_i e q1 hpl
                have := IH.placeable _ e q1 hpl
                cases h
                simpa [dInline] using this
              · split at h <;> cases h

theorem callArgsLoop_stepD {s : Src} {n : Nat} (L : Lift s PP NV) (IH : SpecsD s PP NV n) (pos : List (Inline Span))
    (named : List (Span × Inline Span)) (p : Nat) (hpos : dInl PP NV pos) (hnamed : dNamed PP NV named) :
    Post (getCallArgsLoop s (n + 1) pos named p) (fun r => dInl PP NV r.1 ∧ dNamed PP NV r.2) := by
  intro a q h
  simp only [getCallArgsLoop] at h
  split at h
  · split at h
    · cases h; exact ⟨hpos, hnamed⟩
    · split at h <;> try (cases h; done)
      rename_i expr q1 hin
      have he := IH.inline _ _ expr q1 hin
      split at h
      · -- `.msg id none`
        split at h
        · split at h <;> try (cases h; done)
          split at h <;> try (cases h; done)
          rename_i val q3 hval
          have hv := IH.inline _ _ val q3 hval
          have hnv := L.nv _ _ val q3 hval
          exact IH.callArgsLoop _ _ _ hpos (dNamed_snoc hnamed hnv hv) a q h
        · split at h <;> try (cases h; done)
          exact IH.callArgsLoop _ _ _ (dInl_snoc hpos he) hnamed a q h
      · split at h <;> try (cases h; done)
        exact IH.callArgsLoop _ _ _ (dInl_snoc hpos he) hnamed a q h
  · cases h; exact ⟨hpos, hnamed⟩

theorem variants_stepD {s : Src} {n : Nat} (IH : SpecsD s PP NV n) (hd : Bool) (acc : List (Variant Span)) (p : Nat)
    (hacc : dVariants PP NV acc) : Post (getVariants s (n + 1) hd acc p) (dVariants PP NV) := by
  intro a q h
  simp only [getVariants] at h
  split at h <;> try (cases h; done)
  split at h
  · split at h <;> try (cases h; done)
    split at h <;> try (cases h; done)
    cases h; exact hacc
  · split at h <;> try (cases h; done)
    split at h <;> try (cases h; done)
    split at h <;> try (cases h; done)
    rename_i value q3 hpat
    have hp := IH.pattern _ _ q3 hpat value rfl
    refine IH.variants _ _ _ ?_ a q h
    exact dVariants_snoc hacc (by simp only [dVariant]; exact hp)

theorem patternLoop_stepD {s : Src} {n : Nat} (IH : SpecsD s PP NV n) (st : PatState) (p : Nat)
    (hinv : ∀ ph ∈ st.elements, PhD PP NV ph) :
    Post (getPatternLoop s (n + 1) st p) (fun st' => ∀ ph ∈ st'.elements, PhD PP NV ph) := by
  intro a q h
  simp only [getPatternLoop] at h
  split at h
  · split at h
    · -- a placeable
      split at h <;> try (cases h; done)
      rename_i e q1 hpl
      have he := IH.placeable _ e q1 hpl
      refine IH.patternLoop _ _ ?_ a q h
      intro ph hph
      simp only [List.mem_append, List.mem_singleton] at hph
      rcases hph with hph | rfl
      · refine hinv ph ?_
        revert hph
        split <;> exact id
      · exact he
    · -- text
      split at h
      · cases h; exact hinv
      · rename_i indent p1 hpre
        clear hpre
        split at h <;> try (cases h; done)
        rename_i start stop nb term q1 hts
        split at h
        · rename_i st2 hst2
          have e2 : st2Of s st p indent start stop nb term = some st2 := hst2
          have hinv2 := st2Of_d st p indent start stop nb term st2 hinv e2
          exact IH.patternLoop _ _ (by exact hinv2) a q h
        · cases h
  · cases h; exact hinv

theorem specsD_all {s : Src} (L : Lift s PP NV) (n : Nat) : SpecsD s PP NV n := by
  induction n with
  | zero =>
    refine ⟨?_, ?_, ?_, ?_, ?_, ?_, ?_, ?_⟩ <;> intros <;> intro a q h
    · simp [getPatternLoop] at h
    · simp [getPattern] at h
    · simp [getPlaceable] at h
    · simp [getExpression] at h
    · simp [getInline] at h
    · simp [getCallArguments] at h
    · simp [getCallArgsLoop] at h
    · simp [getVariants] at h
  | succ n ih =>
    exact {
      patternLoop := fun st p h1 => patternLoop_stepD ih st p h1
      pattern := fun p => pattern_stepD L ih p
      placeable := fun p => placeable_stepD ih p
      expression := fun p => expression_stepD ih p
      inline := fun ol p => inline_stepD ih ol p
      callArguments := fun p => callArguments_stepD ih p
      callArgsLoop := fun pos named p h1 h2 => callArgsLoop_stepD L ih pos named p h1 h2
      variants := fun hd acc p h1 => variants_stepD ih hd acc p h1 }

/-- every pattern `get_pattern` returns is deeply good -/
theorem getPattern_d {s : Src} (L : Lift s PP NV) (fuel p : Nat) (els : List (PatElem Span)) (q : Nat)
    (h : getPattern s fuel p = .ok (some els) q) : dPat PP NV els :=
  (specsD_all L fuel).pattern p _ q h els rfl

/-! ## entries and the entry loop -/

theorem getAttribute_d {s : Src} (L : Lift s PP NV) (fuel p : Nat) :
    Post (getAttribute s fuel p) (fun a => dPat PP NV a.value) := by
  intro a q h
  simp only [getAttribute] at h
  split at h <;> try (cases h; done)
  split at h <;> try (cases h; done)
  split at h <;> try (cases h; done)
  rename_i pat q3 hpat
  have := getPattern_d L fuel _ pat q3 hpat
  cases h
  exact this

theorem getAttributesGo_d {s : Src} (L : Lift s PP NV) (fuel : Nat) : ∀ (n : Nat) (acc : List (Attribute Span)) (p : Nat),
    dAttrs PP NV acc → Post (getAttributesGo s fuel n acc p) (dAttrs PP NV) := by
  intro n
  induction n with
  | zero => intro acc p _ a q h; simp [getAttributesGo] at h
  | succ n ih =>
    intro acc p hacc a q h
    simp only [getAttributesGo] at h
    split at h
    · cases h; exact hacc
    · split at h
      · rename_i at' q1 hat
        have := getAttribute_d L fuel _ at' q1 hat
        refine ih _ _ ?_ a q h
        intro x hx
        simp only [List.mem_append, List.mem_singleton] at hx
        rcases hx with hx | rfl
        · exact hacc x hx
        · exact this
      · cases h; exact hacc
      · cases h
      · cases h

theorem getEntry_d {s : Src} (L : Lift s PP NV) (fuel p : Nat) : Post (getEntry s fuel p) (dEntry PP NV) := by
  intro a q h
  simp only [getEntry] at h
  split at h
  · -- comment
    split at h <;> try (cases h; done)
    split at h
    · cases h; simp [dEntry]
    · split at h
      · cases h; simp [dEntry]
      · split at h
        · cases h; simp [dEntry]
        · cases h
  · -- term
    split at h <;> try (cases h; done)
    rename_i t q1 ht
    cases h
    simp only [getTerm] at ht
    split at ht <;> try (cases ht; done)
    split at ht <;> try (cases ht; done)
    split at ht <;> try (cases ht; done)
    split at ht <;> try (cases ht; done)
    rename_i value q3 hpat
    split at ht <;> try (cases ht; done)
    rename_i attrs q5 hattrs
    split at ht <;> try (cases ht; done)
    rename_i v
    have h1 := getPattern_d L fuel _ v q3 hpat
    have h2 := getAttributesGo_d L fuel _ [] _ (by intro x hx; simp at hx) attrs q5 hattrs
    cases ht
    exact ⟨h1, h2⟩
  · -- message
    split at h <;> try (cases h; done)
    rename_i m q1 hm
    cases h
    simp only [getMessage] at hm
    split at hm <;> try (cases hm; done)
    split at hm <;> try (cases hm; done)
    split at hm <;> try (cases hm; done)
    rename_i pattern q3 hpat
    split at hm <;> try (cases hm; done)
    rename_i attrs q5 hattrs
    split at hm <;> try (cases hm; done)
    have h1 : ∀ v, pattern = some v → dPat PP NV v := fun v hv => by
      subst hv; exact getPattern_d L fuel _ v q3 hpat
    have h2 := getAttributesGo_d L fuel _ [] _ (by intro x hx; simp at hx) attrs q5 hattrs
    cases hm
    exact ⟨h1, h2⟩

theorem dEntry_setComment_msg (m : Message Span) (c : List Span) (h : dEntry PP NV (.message m)) :
    dEntry PP NV (.message { m with comment := some c }) := h

theorem dEntry_setComment_term (t : Term Span) (c : List Span) (h : dEntry PP NV (.term t)) :
    dEntry PP NV (.term { t with comment := some c }) := h

theorem parseLoop_d {s : Src} (L : Lift s PP NV) (fuel : Nat) : ∀ (n : Nat) (body : List (Entry Span)) (errors : List PErr)
    (lc : Option (List Span)) (cnt p : Nat) (t : List (Entry Span)) (errs : List PErr),
    (∀ e ∈ body, dEntry PP NV e) → parseLoop s fuel n body errors lc cnt p = .done (t, errs) →
    ∀ e ∈ t, dEntry PP NV e := by
  intro n
  induction n with
  | zero => intro body errors lc cnt p t errs _ h; simp [parseLoop] at h
  | succ n ih =>
    intro body errors lc cnt p t errs hbody h
    simp only [parseLoop] at h
    have hc : ∀ c : List Span, dEntry PP NV (.comment c) := fun c => by simp [dEntry]
    have hsn : ∀ (b : List (Entry Span)) (x : Entry Span), (∀ e ∈ b, dEntry PP NV e) → dEntry PP NV x →
        ∀ e ∈ b ++ [x], dEntry PP NV e := by
      intro b x hb hx e he
      rcases mem_snoc he with he | rfl
      · exact hb e he
      · exact hx
    split at h
    · have hr := getEntry_d L fuel p
      have hjunk : ∀ content : Span, dEntry PP NV (.junk content) := fun c => by simp [dEntry]
      cases hge : getEntry s fuel p with
      | panic m => cases lc <;> simp [hge] at h
      | fuel => cases lc <;> simp [hge] at h
      | err er q =>
        cases lc with
        | none =>
          simp only [hge] at h
          split at h
          · cases h
          · split at h
            · exact ih _ _ _ _ _ _ _ (hsn _ _ hbody (hjunk _)) h
            · cases h
        | some c =>
          simp only [hge] at h
          split at h
          · cases h
          · split at h
            · exact ih _ _ _ _ _ _ _ (hsn _ _ (hsn _ _ hbody (hc c)) (hjunk _)) h
            · cases h
      | ok e q =>
        have he := hr e q hge
        cases lc with
        | none =>
          simp only [hge] at h
          cases e with
          | comment c' => exact ih _ _ _ _ _ _ _ hbody h
          | message m => exact ih _ _ _ _ _ _ _ (hsn _ _ hbody he) h
          | term t' => exact ih _ _ _ _ _ _ _ (hsn _ _ hbody he) h
          | groupComment c' => exact ih _ _ _ _ _ _ _ (hsn _ _ hbody he) h
          | resourceComment c' => exact ih _ _ _ _ _ _ _ (hsn _ _ hbody he) h
          | junk c' => exact ih _ _ _ _ _ _ _ (hsn _ _ hbody he) h
        | some c =>
          simp only [hge] at h
          cases e with
          | comment c' => exact ih _ _ _ _ _ _ _ (hsn _ _ hbody (hc c)) h
          | message m =>
            by_cases hcnt : cnt < 2
            · simp only [hcnt, if_true] at h
              exact ih _ _ _ _ _ _ _ (hsn _ _ hbody (dEntry_setComment_msg m c he)) h
            · simp only [hcnt, if_false] at h
              exact ih _ _ _ _ _ _ _ (hsn _ _ (hsn _ _ hbody (hc c)) he) h
          | term t' =>
            by_cases hcnt : cnt < 2
            · simp only [hcnt, if_true] at h
              exact ih _ _ _ _ _ _ _ (hsn _ _ hbody (dEntry_setComment_term t' c he)) h
            · simp only [hcnt, if_false] at h
              exact ih _ _ _ _ _ _ _ (hsn _ _ (hsn _ _ hbody (hc c)) he) h
          | groupComment c' => exact ih _ _ _ _ _ _ _ (hsn _ _ (hsn _ _ hbody (hc c)) he) h
          | resourceComment c' => exact ih _ _ _ _ _ _ _ (hsn _ _ (hsn _ _ hbody (hc c)) he) h
          | junk c' => exact ih _ _ _ _ _ _ _ (hsn _ _ (hsn _ _ hbody (hc c)) he) h
    · split at h
      · cases h; exact hsn _ _ hbody (hc _)
      · cases h; exact hbody

/-- **Deep lifting.**  Any property of the results of `get_pattern` and any property of the results of
`get_inline_expression(only_literal = true)` holds for every pattern / named-argument value, at any
nesting depth, of the tree returned by `parse`. -/
theorem parse_deep (s : Src) (PP : List (PatElem Span) → Prop) (NV : Inline Span → Prop)
    (hPP : ∀ n p els q, getPattern s n p = .ok (some els) q → PP els)
    (hNV : ∀ n p e q, getInline s n true p = .ok e q → NV e)
    (t : Resource Span) (errs : List PErr) (h : parse s = .done (t, errs)) : ∀ e ∈ t, dEntry PP NV e := by
  unfold parse at h
  exact parseLoop_d ⟨hPP, hNV⟩ _ _ [] [] none 0 _ t errs (by simp) h

/-! ## the concrete `NV`: what `get_inline_expression(only_literal = true)` can return -/

/-- a string / number literal, a message reference or a function call -/
def nvShape : Inline Span → Prop
  | .str _ => True
  | .num _ => True
  | .msg _ _ => True
  | .fn _ _ _ => True
  | _ => False

theorem getInline_literal_shape (s : Src) (n p : Nat) (e : Inline Span) (q : Nat)
    (h : getInline s n true p = .ok e q) : nvShape e := by
  cases n with
  | zero => simp [getInline] at h
  | succ n =>
    simp only [getInline] at h
    split at h
    · cases h
    · split at h
      · split at h <;> try (cases h; done)
        split at h <;> try (cases h; done)
        split at h <;> try (cases h; done)
        split at h <;> try (cases h; done)
        cases h; trivial
      · split at h
        · split at h <;> try (cases h; done)
          cases h; trivial
        · split at h
          · split at h
            · rename_i hc; simp at hc
            · split at h <;> try (cases h; done)
              cases h; trivial
          · split at h
            · rename_i hc; simp at hc
            · split at h
              · split at h <;> try (cases h; done)
                split at h <;> try (cases h; done)
                · split at h <;> try (cases h; done)
                  cases h; trivial
                · split at h <;> try (cases h; done)
                  cases h; trivial
              · split at h
                · rename_i hc; simp at hc
                · cases h

end FluentProofs.Ser
