import FluentProofs.ParserLocalPreEntry
import FluentProofs.ParserLocalLoop
/-!
# Locality of the parser, PREFIX family, part 6: the two entry loops

`parseLoop_prefix` / `parseRuntimeLoop_prefix`: an error-free run of the entry loop on `s₁` (which ends with a line
feed) is a prefix of the run on every `s₂` with `Pre n s₁ s₂`: the run on `s₂` arrives at position `n` with the
accumulators the run on `s₁` ended with (full parser: up to the blank-line count, which only matters for a pending
comment).
-/
namespace FluentProofs.Parser
open FluentModel.Syntax

/-! ## no errors at the end means no errors on the way -/

theorem parseLoop_noerr {s : Src} {F N : Nat} {body : List (Entry Span)} {errs : List PErr} {lc : Option (List Span)}
    {cnt p : Nat} {b : List (Entry Span)} (h : parseLoop s F N body errs lc cnt p = .done (b, [])) : errs = [] := by
  rw [parseLoop_acc_eq] at h
  obtain ⟨r, _, hr⟩ := mapD_eq_done h
  simp only [prep, Prod.mk.injEq] at hr
  exact (List.append_eq_nil_iff.mp hr.2).1

theorem parseRuntimeLoop_noerr {s : Src} {F N : Nat} {body : List (Entry Span)} {errs : List PErr} {p : Nat}
    {b : List (Entry Span)} (h : parseRuntimeLoop s F N body errs p = .done (b, [])) : errs = [] := by
  rw [parseRuntimeLoop_acc_eq] at h
  obtain ⟨r, _, hr⟩ := mapD_eq_done h
  simp only [prep, Prod.mk.injEq] at hr
  exact (List.append_eq_nil_iff.mp hr.2).1

/-! ## one iteration of the full parser's loop on a successful entry -/

/-- what a successful entry adds to the body -/
def okBody (lc : Option (List Span)) (cnt : Nat) : Entry Span → List (Entry Span)
  | .comment _ => flushC lc
  | .message m =>
    (match lc with
     | some c => if cnt < 2 then [.message { m with comment := some c }] else [.comment c, .message m]
     | none => [.message m])
  | .term t =>
    (match lc with
     | some c => if cnt < 2 then [.term { t with comment := some c }] else [.comment c, .term t]
     | none => [.term t])
  | .groupComment c => flushC lc ++ [.groupComment c]
  | .resourceComment c => flushC lc ++ [.resourceComment c]
  | .junk c => flushC lc ++ [.junk c]

/-- the pending comment after a successful entry -/
def okLc : Entry Span → Option (List Span)
  | .comment c => some c
  | _ => none

theorem loopStep_ok {s : Src} {F : Nat} {lc : Option (List Span)} {cnt p : Nat} {e : Entry Span} {q : Nat}
    (h : getEntry s F p = .ok e q) :
    loopStep s F lc cnt p = .next (okBody lc cnt e) [] (okLc e) (skipBlankBlock s q).2 (skipBlankBlock s q).1 := by
  unfold loopStep
  rw [h]
  cases e with
  | message m => cases lc with
    | none => rfl
    | some c => simp only [okBody, okLc]; split <;> rfl
  | term t => cases lc with
    | none => rfl
    | some c => simp only [okBody, okLc]; split <;> rfl
  | comment c => rfl
  | groupComment c => rfl
  | resourceComment c => rfl
  | junk c => rfl

theorem loopStep_err {s : Src} {F : Nat} {lc : Option (List Span)} {cnt p : Nat} {e : PErr} {q : Nat}
    (h : getEntry s F p = .err e q) (ab : List (Entry Span)) (ae : List PErr) (lc' : Option (List Span)) (cnt' p' : Nat)
    (hst : loopStep s F lc cnt p = .next ab ae lc' cnt' p') : ae ≠ [] := by
  unfold loopStep at hst
  rw [h] at hst
  simp only [] at hst
  split at hst
  · cases hst
  · split at hst
    · injection hst with _ h2
      rw [← h2]; simp
    · cases hst

theorem loopStep_next_ok {s : Src} {F : Nat} {lc : Option (List Span)} {cnt p : Nat} {ab : List (Entry Span)}
    {lc' : Option (List Span)} {cnt' p' : Nat} (hst : loopStep s F lc cnt p = .next ab [] lc' cnt' p') :
    ∃ e q, getEntry s F p = .ok e q := by
  cases hge : getEntry s F p with
  | ok e q => exact ⟨e, q, rfl⟩
  | err e q => exact absurd rfl (loopStep_err hge _ _ _ _ _ hst)
  | panic m => unfold loopStep at hst; rw [hge] at hst; cases hst
  | fuel => unfold loopStep at hst; rw [hge] at hst; cases hst

/-! ## an attribute-looking line after an entry is an error of the next iteration -/

theorem pre_dot_next {s : Src} {q : Nat} (hdot : s[skipBlankInline s q]? = some 46) (F : Nat) :
    (skipBlankBlock s q).1 = q ∧ q < s.size ∧ (∃ e, getEntry s F q = .err e q) ∧
      (∃ e, getEntryRuntime s F q = .err e q) := by
  have hlt := get_lt hdot
  have hge := (skipBlankInline_after s q).le
  have hq : q < s.size := by omega
  have e1 : (skipBlankBlock s q).1 = q := by
    unfold skipBlankBlock
    obtain ⟨k, hk⟩ : ∃ k, s.size - q + 1 = k + 1 := ⟨s.size - q, rfl⟩
    rw [hk]
    simp only [skipBlankBlockGo, pre_skipEol_none_of (p := skipBlankInline s q) (by rw [hdot]; decide) (by rw [hdot]; decide),
      hlt, if_true]
  have hq0 : s[q]? = some 46 ∨ s[q]? = some 32 := by
    by_cases he : skipBlankInline s q = q
    · left; rw [he] at hdot; exact hdot
    · right; exact skipBlankInline_spaces s q q (Nat.le_refl _) (by omega)
  have h35 : s[q]? ≠ some 35 := by rcases hq0 with e | e <;> rw [e] <;> decide
  have h45 : s[q]? ≠ some 45 := by rcases hq0 with e | e <;> rw [e] <;> decide
  have his : isIdentifierStart s q = false := by
    unfold isIdentifierStart
    rcases hq0 with e | e <;> rw [e] <;> rfl
  obtain ⟨e, he, _⟩ := getMessage_err_of_not_alpha (fuel := F) (es := q) his
  refine ⟨e1, hq, ⟨e, ?_⟩, ⟨e, ?_⟩⟩
  · rw [getEntry_of_not_hash s F q h35, if_neg h45, he]
  · rw [getEntryRuntime_of_not_hash s F q h35, if_neg h45, he]

theorem parseLoop_dot_false {s : Src} {F N : Nat} {body : List (Entry Span)} {lc : Option (List Span)} {cnt q : Nat}
    {b : List (Entry Span)} (hdot : s[skipBlankInline s q]? = some 46) :
    parseLoop s F N body [] lc cnt (skipBlankBlock s q).1 ≠ .done (b, []) := by
  obtain ⟨e1, hq, ⟨e, he⟩, _⟩ := pre_dot_next hdot F
  rw [e1]
  intro hr
  cases N with
  | zero => rw [parseLoop_zero] at hr; cases hr
  | succ N =>
    rw [parseLoop_succ, if_pos hq] at hr
    cases hst : loopStep s F lc cnt q with
    | next ab ae lc' cnt' p' =>
      rw [hst] at hr
      simp only [] at hr
      have hae : ae = [] := by simpa using parseLoop_noerr hr
      exact loopStep_err he _ _ _ _ _ hst hae
    | panic m => rw [hst] at hr; cases hr
    | fuel => rw [hst] at hr; cases hr

theorem parseRuntimeLoop_dot_false {s : Src} {F N : Nat} {body : List (Entry Span)} {q : Nat}
    {b : List (Entry Span)} (hdot : s[skipBlankInline s q]? = some 46) :
    parseRuntimeLoop s F N body [] (skipBlankBlock s q).1 ≠ .done (b, []) := by
  obtain ⟨e1, hq, _, ⟨e, he⟩⟩ := pre_dot_next hdot F
  rw [e1]
  intro hr
  cases N with
  | zero => rw [parseRuntimeLoop_zero] at hr; cases hr
  | succ N =>
    simp only [parseRuntimeLoop] at hr
    rw [if_pos hq, he] at hr
    simp only [] at hr
    split at hr
    · cases hr
    · split at hr
      · have := parseRuntimeLoop_noerr hr
        simp at this
      · cases hr

/-! ## the entry loops -/

theorem pre_self {n : Nat} {s₁ : Src} (hsz : s₁.size = n) (hls : LS s₁ n) : Pre n s₁ s₁ :=
  ⟨hsz, fun _ _ => rfl, hls, Or.inl hsz⟩

/-- **prefix property of the full parser's entry loop** -/
theorem parseLoop_prefix {n : Nat} {s₁ : Src} (hsz : s₁.size = n) (hls : LS s₁ n) (F₁ : Nat) :
    ∀ (N₁ : Nat) (body : List (Entry Span)) (lc : Option (List Span)) (cnt p : Nat) (b : List (Entry Span)), p ≤ n →
      parseLoop s₁ F₁ N₁ body [] lc cnt p = .done (b, []) →
      ∃ body' lc', b = body' ++ flushC lc' ∧
        ∀ (s₂ : Src) (F₂ : Nat), Pre n s₁ s₂ → F₁ ≤ F₂ →
          ∀ (N₂ : Nat) (r : List (Entry Span) × List PErr), parseLoop s₂ F₂ N₂ body [] lc cnt p = .done r →
            ∃ N₂' cnt', N₂' ≤ N₂ ∧ parseLoop s₂ F₂ N₂' body' [] lc' cnt' n = .done r := by
  intro N₁
  induction N₁ with
  | zero => intro body lc cnt p b _ hr; rw [parseLoop_zero] at hr; cases hr
  | succ N₁ ih =>
    intro body lc cnt p b hp hr
    rw [parseLoop_succ] at hr
    by_cases hpn : p = n
    · -- the end of `s₁`
      rw [if_neg (by omega)] at hr
      have hb : body ++ flushC lc = b := by
        injection hr with hr; injection hr
      refine ⟨body, lc, hb.symm, ?_⟩
      intro s₂ F₂ h hF N₂ r hr₂
      exact ⟨N₂, cnt, Nat.le_refl _, hpn ▸ hr₂⟩
    · have hlt : p < n := by omega
      rw [if_pos (by omega)] at hr
      cases hst : loopStep s₁ F₁ lc cnt p with
      | next ab ae lc₁ cnt₁ p₁ =>
        rw [hst] at hr
        simp only [] at hr
        have hae : ae = [] := by simpa using parseLoop_noerr hr
        subst hae
        obtain ⟨e, q, hge⟩ := loopStep_next_ok hst
        rw [loopStep_ok hge] at hst
        injection hst with h1 _ h3 h4 h5
        subst h1 h3 h4 h5
        simp only [List.append_nil] at hr
        -- no attribute-looking line follows a message or term: the next iteration would report an error
        have hdot : s₁[p]? ≠ some 35 → s₁[skipBlankInline s₁ q]? ≠ some 46 := fun _ hd => parseLoop_dot_false hd hr
        -- the same iteration on a continuation `s₂`
        have hstep : ∀ s₂ F₂, Pre n s₁ s₂ → F₁ ≤ F₂ → q ≤ n ∧ ∃ cnt₂,
            loopStep s₂ F₂ lc cnt p = .next (okBody lc cnt e) [] (okLc e) cnt₂ (skipBlankBlock s₁ q).1 ∧
            (cnt₂ = (skipBlankBlock s₁ q).2 ∨ (skipBlankBlock s₁ q).1 = n) := by
          intro s₂ F₂ h hF
          obtain ⟨c1, q', c2, c3⟩ := getEntry_pre h hF hlt hge hdot
          obtain ⟨d1, d2⟩ := skipBlankBlock_curRel h c1 c3
          refine ⟨c1, (skipBlankBlock s₂ q').2, ?_, d2⟩
          rw [loopStep_ok c2, d1]
        have h11 := pre_self hsz hls
        have hq : q ≤ n := (hstep s₁ F₁ h11 (Nat.le_refl _)).1
        have hp₁ : (skipBlankBlock s₁ q).1 ≤ n := skipBlankBlock_le_n h11 hq
        by_cases hp₁n : (skipBlankBlock s₁ q).1 = n
        · -- the loop on `s₁` ends after this iteration
          rw [hp₁n] at hr
          cases N₁ with
          | zero => rw [parseLoop_zero] at hr; cases hr
          | succ N₁ =>
            rw [parseLoop_succ, if_neg (by omega)] at hr
            have hb : (body ++ okBody lc cnt e) ++ flushC (okLc e) = b := by
              injection hr with hr; injection hr
            refine ⟨body ++ okBody lc cnt e, okLc e, hb.symm, ?_⟩
            intro s₂ F₂ h hF N₂ r hr₂
            obtain ⟨_, cnt₂, e1, _⟩ := hstep s₂ F₂ h hF
            cases N₂ with
            | zero => rw [parseLoop_zero] at hr₂; cases hr₂
            | succ N₂ =>
              rw [parseLoop_succ, if_pos (h.lt₂ hlt), e1] at hr₂
              simp only [List.append_nil] at hr₂
              rw [hp₁n] at hr₂
              exact ⟨N₂, cnt₂, Nat.le_succ _, hr₂⟩
        · obtain ⟨body', lc', hb, hrest⟩ := ih _ _ _ _ b hp₁ hr
          refine ⟨body', lc', hb, ?_⟩
          intro s₂ F₂ h hF N₂ r hr₂
          obtain ⟨_, cnt₂, e1, e2⟩ := hstep s₂ F₂ h hF
          have ec : cnt₂ = (skipBlankBlock s₁ q).2 := by
            rcases e2 with e2 | e2
            · exact e2
            · exact absurd e2 hp₁n
          cases N₂ with
          | zero => rw [parseLoop_zero] at hr₂; cases hr₂
          | succ N₂ =>
            rw [parseLoop_succ, if_pos (h.lt₂ hlt), e1, ec] at hr₂
            simp only [List.append_nil] at hr₂
            obtain ⟨N₂', cnt', hle, hfin⟩ := hrest s₂ F₂ h hF N₂ r hr₂
            exact ⟨N₂', cnt', by omega, hfin⟩
      | panic m => rw [hst] at hr; cases hr
      | fuel => rw [hst] at hr; cases hr

set_option linter.unusedVariables false in
/-- **prefix property of the runtime parser's entry loop** -/
theorem parseRuntimeLoop_prefix {n : Nat} {s₁ : Src} (hsz : s₁.size = n) (hls : LS s₁ n) (F₁ : Nat) :
    ∀ (N₁ : Nat) (body : List (Entry Span)) (p : Nat) (b : List (Entry Span)), p ≤ n →
      parseRuntimeLoop s₁ F₁ N₁ body [] p = .done (b, []) →
      ∀ (s₂ : Src) (F₂ : Nat), Pre n s₁ s₂ → F₁ ≤ F₂ →
        ∀ (N₂ : Nat) (r : List (Entry Span) × List PErr), parseRuntimeLoop s₂ F₂ N₂ body [] p = .done r →
          ∃ N₂', N₂' ≤ N₂ ∧ parseRuntimeLoop s₂ F₂ N₂' b [] n = .done r := by
  intro N₁
  induction N₁ with
  | zero => intro body p b _ hr; rw [parseRuntimeLoop_zero] at hr; cases hr
  | succ N₁ ih =>
    intro body p b hp hr s₂ F₂ h hF N₂ r hr₂
    simp only [parseRuntimeLoop] at hr
    by_cases hpn : p = n
    · rw [if_neg (by omega)] at hr
      have hb : body = b := by
        injection hr with hr; injection hr
      exact ⟨N₂, Nat.le_refl _, by rw [← hb, ← hpn]; exact hr₂⟩
    · have hlt : p < n := by omega
      rw [if_pos (by omega)] at hr
      cases N₂ with
      | zero => rw [parseRuntimeLoop_zero] at hr₂; cases hr₂
      | succ N₂ =>
        simp only [parseRuntimeLoop] at hr₂
        rw [if_pos (h.lt₂ hlt)] at hr₂
        cases hge : getEntryRuntime s₁ F₁ p with
        | ok o q =>
          rw [hge] at hr
          have key : ∀ body₁, parseRuntimeLoop s₁ F₁ N₁ body₁ [] (skipBlankBlock s₁ q).1 = .done (b, []) →
              parseRuntimeLoop s₂ F₂ N₂ body₁ [] (skipBlankBlock s₂ q).1 = .done r →
              q ≤ n → ∃ N₂', N₂' ≤ N₂ + 1 ∧ parseRuntimeLoop s₂ F₂ N₂' b [] n = .done r := by
            intro body₁ hr' hr₂' hq
            rw [skipBlankBlock_pre h hq] at hr₂'
            obtain ⟨N₂', hle, hfin⟩ := ih body₁ _ b (skipBlankBlock_le_n h hq) hr' s₂ F₂ h hF N₂ r hr₂'
            exact ⟨N₂', by omega, hfin⟩
          cases o with
          | some e =>
            simp only [] at hr
            have hdot : s₁[p]? ≠ some 35 → s₁[skipBlankInline s₁ q]? ≠ some 46 :=
              fun _ hd => parseRuntimeLoop_dot_false hd hr
            obtain ⟨c1, c2⟩ := getEntryRuntime_pre h hF hlt hge hdot
            rw [c2] at hr₂
            exact key _ hr hr₂ c1
          | none =>
            simp only [] at hr
            have hdot : s₁[p]? ≠ some 35 → s₁[skipBlankInline s₁ q]? ≠ some 46 :=
              fun _ hd => parseRuntimeLoop_dot_false hd hr
            obtain ⟨c1, c2⟩ := getEntryRuntime_pre h hF hlt hge hdot
            rw [c2] at hr₂
            exact key _ hr hr₂ c1
        | err e q =>
          rw [hge] at hr
          simp only [] at hr
          split at hr
          · cases hr
          · split at hr
            · have := parseRuntimeLoop_noerr hr
              simp at this
            · cases hr
        | panic m => rw [hge] at hr; cases hr
        | fuel => rw [hge] at hr; cases hr

end FluentProofs.Parser
