import FluentModel.Generated
import FluentModel.Parser
import FluentModel.Serializer
/-!
# Constant tie: literals of the hand-written models = constants re-extracted from /repo source

`tools/extract_consts.py` regenerates `FluentModel/Generated.lean` from the Rust source on every
run.  The models below contain the same constants as literals (byte tests, marks, keyword tables).
Each theorem here states that a model literal equals the extracted value; they are imported by the
property files that depend on the literal, so a change of the constant in the Rust source turns
into a failed proof obligation of exactly those properties (in addition to whatever the
correspondence check observes).  All are closed terms decided by kernel evaluation.
-/
namespace FluentProofs.ConstTie
open FluentModel FluentModel.Generated

/-- parser: `is_byte_pattern_continuation` excludes exactly the extracted bytes (all 256 byte values) -/
theorem pattern_break_bytes_from_source :
    (List.range 256).all (fun n =>
      Syntax.isBytePatternContinuation (UInt8.ofNat n) == !(patternBreakBytes.contains n)) = true := by decide +kernel

/-- parser: `skip_to_next_entry_start` stops at a line-initial ASCII letter or one of exactly the extracted
extra bytes (all 256 byte values, evaluated through the model function on a one-byte source) -/
theorem entry_start_bytes_from_source :
    (List.range 256).all (fun n =>
      (Syntax.skipToNextEntryStartGo #[UInt8.ofNat n] 1 0 == 0) ==
        (Syntax.isAlpha (UInt8.ofNat n) || entryStartBytes.contains n)) = true := by decide +kernel

/-- parser/serializer: `matches_fluent_ws` (used by `Slice::trim` and by comment serialisation) -/
theorem fluent_ws_from_source :
    (List.range 256).all (fun n =>
      Syntax.Ser.isBlankLine [UInt8.ofNat n] == fluentWs.contains n) = true := by decide +kernel

/-- parser: `Slice::trim` removes exactly the `matches_fluent_ws` characters (evaluated through `trimEnd` on
the two-byte source `x b`) -/
theorem trim_from_source :
    (List.range 256).all (fun n =>
      ((Syntax.trimEnd #[120, UInt8.ofNat n] ⟨0, 2⟩).stop == 1) == fluentWs.contains n) = true := by decide +kernel

end FluentProofs.ConstTie
