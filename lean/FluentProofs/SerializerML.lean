import FluentProofs.SerializerPattern
import FluentProofs.ParserHoareExpr
/-!
# Serializer lemmas, part 11: multi-line patterns (C04 / T3)

The general `get_pattern` loop on the text `serialize_pattern` writes for a pattern whose lines are
indented by `I = 4·level` spaces: line-start text elements (with excess indentation), blank lines,
placeable-led lines, the common-indent computation and the final `finishElements` pass.
-/
namespace FluentProofs.Ser
open FluentModel FluentModel.Syntax FluentModel.Syntax.Ser FluentProofs.Parser

/-! ## one loop iteration at a line start -/

theorem skipBlankInline_run (s : Src) (k p : Nat) (hsp : ∀ j, j < k → s[p + j]? = some 32)
    (hb : s[p + k]? ≠ some 32) : skipBlankInline s p = p + k := by
  induction k generalizing p with
  | zero => exact skipBlankInline_stay s p (by simpa using hb)
  | succ k ih =>
    have h0 : s[p]? = some 32 := by have := hsp 0 (by omega); simpa using this
    rw [skipBlankInline_space s p h0, ih (p + 1) (fun j hj => by
      have := hsp (j + 1) (by omega); rwa [show p + (j + 1) = p + 1 + j by omega] at this)
      (by rwa [show p + 1 + k = p + (k + 1) by omega])]
    omega

def mlRole (nl : Bool) (r : TextPos) : Prop := if nl then r = .lineStart else (r == .lineStart) = false

/-- a loop iteration at the start of an indented line: `ind` spaces, then a byte that may continue the
pattern; the new state is the `st2Of` replica of `ParserHoareExpr` -/
theorem patternLoop_ls_step (s : Src) (n : Nat) (st : PatState) (p ind : Nat) (b : UInt8) (stop q : Nat) (nb : Bool)
    (term : Termination) (hrole : st.role = .lineStart) (hind : 0 < ind)
    (hsp : ∀ j, j < ind → s[p + j]? = some 32) (hb : s[p + ind]? = some b) (hb32 : b ≠ 32)
    (hcont : isBytePatternContinuation b = true)
    (hts : getTextSlice s (p + ind) = .ok (p + ind, stop, nb, term) q) :
    getPatternLoop s (n + 1) st p =
      match st2Of s st p ind (p + ind) stop nb term with
      | some st2 => getPatternLoop s n { st2 with role := roleOf term } q
      | none => .panic "get_pattern: end - 1 underflow or text slice" := by
  have hp0 : s[p]? = some 32 := by have := hsp 0 hind; simpa using this
  have hlt := get_lt hp0
  have h123 : isCurrentByte s p 123 = false := by simp [isCurrentByte, hp0]
  have hsbi : skipBlankInline s p = p + ind := by
    exact skipBlankInline_run s ind p hsp (by rw [hb]; simpa using hb32)
  rw [getPatternLoop]
  simp only [hlt, if_true, h123, Bool.false_eq_true, if_false, hrole, beq_self_eq_true, hsbi, Nat.add_sub_cancel_left,
    hb]
  have hne : (ind == 0) = false := by simp; omega
  simp only [hne, hcont, Bool.not_true, Bool.false_eq_true, if_false, hts]
  simp only [st2Of, elOf, survivesOf, hrole, beq_self_eq_true, Bool.true_and, bne_self_eq_false, Bool.false_or]
  cases nb <;> cases term <;> simp [roleOf] <;> rfl

/-! ## the text of patterns and select expressions at an indent level -/

def spacesL (n : Nat) : Bytes := List.replicate n 32

def endsNl (v : Bytes) : Bool := v.getLast? == some 10

/-- the text ends with a (lone) `\r` -/
def endsCr (v : Bytes) : Bool := v.getLast? == some 13

/-- what the writer inserts behind the text `v`: a second `\r` when `v` ends with `\r` and the next element is a text
that starts with `\n` (`TextWriter::write_literal`, the fix for F24) -/
def crPad (v : Bytes) : List (PatElem Bytes) → Bytes
  | .text u :: _ => if endsCr v && u.head? == some 10 then [13] else []
  | _ => []

def keyBytes : VKey Bytes → Bytes
  | .ident n => n
  | .num v => v

/-- `\n` or ` ` — how `serialize_pattern` starts -/
def patPrefix (p : List (PatElem Bytes)) : Bytes := if startsOnNewLine p then [10] else [32]

/-- the indent level at which the elements of a pattern are written, when the pattern is written at level `L` -/
def elemLevel (L : Nat) (p : List (PatElem Bytes)) : Nat := if isMultiline p then L + 1 else L

mutual
/-- the text `serialize_inline_expression` writes at indent level `L`: `inlineBytes`, except that a select
expression inside a nested placeable (directly, or inside call arguments) is written over several lines — its
variants at level `L + 1`, and whatever follows it after `4·L` spaces -/
def inlineText (L : Nat) : Inline Bytes → Bytes
  | .str v => 34 :: (v ++ [34])
  | .num v => v
  | .var id => 36 :: id
  | .msg id attr => id ++ attrBytes attr
  | .term id attr none => 45 :: (id ++ attrBytes attr)
  | .term id attr (some (pos, named)) =>
    45 :: (id ++ attrBytes attr ++ 40 :: posText L pos named.isEmpty (namedText L named))
  | .fn id pos named => id ++ 40 :: posText L pos named.isEmpty (namedText L named)
  | .placeable e => 123 :: (innerText L e ++ [125])
/-- positional arguments from the start of one of them, then the named ones, then `)` -/
def posText (L : Nat) : List (Inline Bytes) → (noNamed : Bool) → (namedText : Bytes) → Bytes
  | [], _, nt => nt
  | x :: xs, nn, nt => inlineText L x ++ (if xs.isEmpty && nn then [] else [44, 32]) ++ posText L xs nn nt
/-- named arguments from the start of one of them, then `)` -/
def namedText (L : Nat) : List (Bytes × Inline Bytes) → Bytes
  | [] => [41]
  | (n, v) :: xs => n ++ [58, 32] ++ inlineText L v ++ (if xs.isEmpty then [] else [44, 32]) ++ namedText L xs
/-- what `serialize_expression` writes at level `L`; for a select expression this includes the `4·L` spaces
that the writer puts in front of whatever is written next (the closing brace) -/
def innerText (L : Nat) : Expr Bytes → Bytes
  | .inline i => inlineText L i
  | .select sel vs => inlineText L sel ++ [32, 45, 62, 10] ++ variantsText (L + 1) vs ++ spacesL (4 * L)
/-- text of a placeable element written at indent level `L` (without the indentation in front of it) -/
def exprText (L : Nat) : Expr Bytes → Bytes
  | .inline (.placeable e) => 123 :: 123 :: 32 :: (innerText L e ++ [32, 125, 125])
  | .inline i => 123 :: 32 :: (inlineText L i ++ [32, 125])
  | .select sel vs =>
    123 :: 32 :: (inlineText L sel ++ [32, 45, 62, 10] ++ variantsText (L + 1) vs ++ spacesL (4 * L) ++ [125])
def variantsText (L : Nat) : List (Variant Bytes) → Bytes
  | [] => []
  | v :: vs => variantText L v ++ 10 :: variantsText L vs
def variantText (L : Nat) : Variant Bytes → Bytes
  | .mk key value dflt =>
    (if dflt then spacesL (4 * L - 1) ++ [42] else spacesL (4 * L)) ++
      91 :: (keyBytes key ++ 93 :: (patPrefix value ++ elemsText (elemLevel L value) (startsOnNewLine value) value))
/-- the elements of a pattern written at level `L`; `nl` = the writer is at the start of a line -/
def elemsText (L : Nat) (nl : Bool) : List (PatElem Bytes) → Bytes
  | [] => []
  | .text v :: es => (if nl then spacesL (4 * L) else []) ++ v ++ crPad v es ++ elemsText L (endsNl v) es
  | .placeable x :: es => (if nl then spacesL (4 * L) else []) ++ exprText L x ++ elemsText L false es
end

/-- what `serialize_pattern` writes at indent level `L` -/
def patText (L : Nat) (p : List (PatElem Bytes)) : Bytes :=
  patPrefix p ++ elemsText (elemLevel L p) (startsOnNewLine p) p

theorem elemsText_text (L : Nat) (nl : Bool) (v : Bytes) (es : List (PatElem Bytes)) :
    elemsText L nl (.text v :: es) =
      (if nl then spacesL (4 * L) else []) ++ v ++ crPad v es ++ elemsText L (endsNl v) es := by
  rw [elemsText]

/-! ## on select-free inline expressions the level-indexed text is `inlineBytes` -/

mutual
theorem inlineText_valid (L : Nat) (e : Inline Bytes) (hv : validInline e = true) : inlineText L e = inlineBytes e := by
  cases e with
  | str v => simp [inlineText, inlineBytes]
  | num v => simp [inlineText, inlineBytes]
  | var v => simp [inlineText, inlineBytes]
  | msg a b => simp [inlineText, inlineBytes]
  | term id attr args =>
    cases args with
    | none => simp [inlineText, inlineBytes]
    | some pn =>
      obtain ⟨pos, named⟩ := pn
      simp only [validInline, Bool.and_eq_true] at hv
      simp only [inlineText, inlineBytes]
      rw [namedText_valid L named hv.1.2, posText_valid L pos hv.1.1.2]
  | fn id pos named =>
    simp only [validInline, Bool.and_eq_true] at hv
    simp only [inlineText, inlineBytes]
    rw [namedText_valid L named hv.1.2, posText_valid L pos hv.1.1.2]
  | placeable e =>
    cases e with
    | select a b => simp [validInline, validInner] at hv
    | inline i =>
      have := inlineText_valid L i (validInner_inline (by simpa [validInline] using hv))
      simp [inlineText, innerText, inlineBytes, innerBytes, this]
theorem posText_valid (L : Nat) (xs : List (Inline Bytes)) (hv : validInl xs = true) (nn : Bool) (nt : Bytes) :
    posText L xs nn nt = posTail xs nn nt := by
  cases xs with
  | nil => simp [posText, posTail]
  | cons x xs =>
    simp only [validInl, Bool.and_eq_true] at hv
    rw [posText, posTail, inlineText_valid L x hv.1, posText_valid L xs hv.2]
theorem namedText_valid (L : Nat) (named : List (Bytes × Inline Bytes)) (hv : validNamed named = true) :
    namedText L named = namedTail named := by
  cases named with
  | nil => simp [namedText, namedTail]
  | cons x xs =>
    obtain ⟨n, v⟩ := x
    simp only [validNamed, Bool.and_eq_true] at hv
    rw [namedText, namedTail, inlineText_valid L v hv.1.2, namedText_valid L xs hv.2]
end

/-- a valid inline placeable element (`{ i }`, `{{ i }}`) is written the same at every level -/
theorem exprText_inline_valid (L : Nat) (i : Inline Bytes) (hv : validInner (.inline i) = true) :
    exprText L (.inline i) = elemBytes (.placeable (.inline i)) := by
  have hi := inlineText_valid L i (validInner_inline hv)
  cases i with
  | placeable e2 =>
    cases e2 with
    | select a b =>
      have : validInner (.inline (.placeable (.select a b))) = validInline (.placeable (.select a b)) := rfl
      rw [this] at hv
      simp [validInline, validInner] at hv
    | inline j =>
      simp only [inlineText, innerText, inlineBytes, innerBytes, List.cons.injEq, true_and,
        List.append_cancel_right_eq] at hi
      simp [exprText, innerText, elemBytes, innerBytes, hi]
  | str v => simp [exprText, elemBytes, hi]
  | num v => simp [exprText, elemBytes, hi]
  | var v => simp [exprText, elemBytes, hi]
  | msg a b => simp [exprText, elemBytes, hi]
  | term a b c => simp [exprText, elemBytes, hi]
  | fn a b c => simp [exprText, elemBytes, hi]

/-! ## the class of patterns -/

/-- the text ends with `\r\n` -/
def crlfEnd (v : Bytes) : Bool := v.getLast? == some 10 && v.dropLast.getLast? == some 13

/-- text bytes: non-empty, no braces, `\n` only as the last byte and not behind a `\r` (a lone `\r` is allowed
everywhere) -/
def mlTextOK (v : Bytes) : Bool :=
  !v.isEmpty && v.all (fun b => b != 123 && b != 125) && v.dropLast.all (fun b => b != 10) && !crlfEnd v

def leadSpaces (v : Bytes) : Nat := (v.takeWhile (fun b => b == 32)).length

/-- first non-space byte of a text that starts a line -/
def contentStartOK (b : UInt8) : Bool := b != 32 && b != 10 && b != 46 && b != 91 && b != 42

/-- a text element at the start of a line (not a blank line): spaces, then a byte that continues the
pattern — or only spaces, directly in front of a placeable -/
def lineStartOK (v : Bytes) (es : List (PatElem Bytes)) : Bool :=
  match v.dropWhile (fun b => b == 32) with
  | [] => (match es with
    | .placeable _ :: _ => true
    | _ => false)
  | c :: _ => contentStartOK c

def mlElems : Bool → List (PatElem Bytes) → Bool
  | _, [] => true
  | _, .placeable _ :: es => mlElems false es
  | nl, .text v :: es =>
    mlTextOK v &&
      (match es with
       | .text u :: _ => endsNl v || (endsCr v && u == [10])
       | _ => true) &&
      (!nl || v == [10] || lineStartOK v es) && mlElems (endsNl v) es

/-- excess indentation of the lines that take part in the common-indent computation -/
def excesses : Bool → List (PatElem Bytes) → List Nat
  | _, [] => []
  | nl, .placeable _ :: es => (if nl then [0] else []) ++ excesses false es
  | nl, .text v :: es => (if nl && v != [10] then [leadSpaces v] else []) ++ excesses (endsNl v) es

/-- the last element, if a text, ends with a byte that `trim` keeps -/
def mlLastOK : List (PatElem Bytes) → Bool
  | [] => true
  | [.text v] => v.getLast? != some 32 && v.getLast? != some 10 && v.getLast? != some 13
  | _ :: rest => mlLastOK rest

/-- the first element fits how the pattern starts -/
def mlFirstOK (p : List (PatElem Bytes)) : Bool :=
  match p with
  | .text v :: _ => if startsOnNewLine p then v != [10] else v.head? != some 32 && v.head? != some 10
  | _ => true

/-- **the pattern class** (texts; the placeables are constrained separately): line-split texts (a lone `\r` is an
ordinary byte of a text; a text does not end with `\r\n`; two texts are adjacent only across a line break — the first
ends with `\n`, or it ends with `\r` and the second is `"\n"`: the shape the parser returns for `…\r\r\n`), lines start
with a byte that continues a pattern, the last text does not end with a byte `trim` removes (space, `\n`, `\r`), some
line has no excess indentation (or no line takes part in the common-indent computation: an inline start followed only
by a select expression) -/
def mlPattern (p : List (PatElem Bytes)) : Bool :=
  !p.isEmpty && mlElems (startsOnNewLine p) p && mlLastOK p && mlFirstOK p &&
    (!isMultiline p || (excesses (startsOnNewLine p) p).isEmpty || (excesses (startsOnNewLine p) p).contains 0)

/-! ## common indent bookkeeping -/

def ciStep (I : Nat) (cur : Option Nat) (x : Nat) : Option Nat :=
  match cur with
  | some c => if I + x < c then some (I + x) else some c
  | none => some (I + x)

def ciAfter (I : Nat) : Option Nat → List Nat → Option Nat
  | cur, [] => cur
  | cur, x :: xs => ciAfter I (ciStep I cur x) xs

def ciGE (I : Nat) : Option Nat → Prop
  | none => True
  | some c => I ≤ c

theorem ciStep_ge (I : Nat) (cur : Option Nat) (x : Nat) (h : ciGE I cur) : ciGE I (ciStep I cur x) := by
  cases cur with
  | none => simp [ciStep, ciGE]
  | some c => simp only [ciStep]; split <;> simp [ciGE] <;> first | omega | exact h

theorem ciAfter_ge (I : Nat) (cur : Option Nat) (xs : List Nat) (h : ciGE I cur) : ciGE I (ciAfter I cur xs) := by
  induction xs generalizing cur with
  | nil => exact h
  | cons x xs ih => exact ih _ (ciStep_ge I cur x h)

theorem ciAfter_zero (I : Nat) (cur : Option Nat) (xs : List Nat) (h : ciGE I cur) (h0 : 0 ∈ xs) :
    ciAfter I cur xs = some I := by
  induction xs generalizing cur with
  | nil => simp at h0
  | cons x xs ih =>
    simp only [List.mem_cons] at h0
    rcases h0 with rfl | h0
    · -- after a line without excess the common indent is `I` and stays
      have h1 : ciStep I cur 0 = some I := by
        cases cur with
        | none => simp [ciStep]
        | some c => simp only [ciStep, ciGE] at h ⊢; split <;> simp <;> omega
      simp only [ciAfter, h1]
      clear ih h
      induction xs with
      | nil => rfl
      | cons y ys ih2 =>
        simp only [ciAfter, ciStep]
        rw [if_neg (by omega)]
        exact ih2
    · exact ih _ (ciStep_ge I cur x h) h0

/-! ## placeholders vs tree elements, and `finishElements` -/

/-- start of a text placeholder after the common indent `c` is removed (as `finishElements` computes it) -/
def effStart (c : Option Nat) (a ind : Nat) (role : TextPos) : Nat :=
  if role == .lineStart then
    match c with
    | none => a + ind
    | some c => a + min ind c
  else a

def TextRel (s : Src) (c : Option Nat) (a b ind : Nat) (role : TextPos) (v : Bytes) (last : Bool) : Prop :=
  Bnd s (effStart c a ind role) ∧ Bnd s b ∧ At s (effStart c a ind role) v ∧ v ≠ [] ∧
    (if last then b = effStart c a ind role + v.length + 1 ∧ s[effStart c a ind role + v.length]? = some 10 ∧
        (∃ x, v.getLast? = some x ∧ x ≠ 32 ∧ x ≠ 10 ∧ x ≠ 13)
     else b = effStart c a ind role + v.length)

/-- the placeholders `phs` stand for the elements `es`; a placeable that starts a line is preceded by a
"ghost" text placeholder that `finishElements` drops -/
def MPh (s : Src) (c : Option Nat) : List Placeholder → List (PatElem Bytes) → Prop
  | phs, [] => phs = []
  | phs, .text v :: es => ∃ a b ind role phs', phs = .text a b ind role :: phs' ∧
      TextRel s c a b ind role v es.isEmpty ∧ MPh s c phs' es
  | phs, .placeable x :: es =>
    (∃ ex phs', phs = .placeable ex :: phs' ∧ ex.mapS (spanBytes s) = x ∧ MPh s c phs' es) ∨
    (∃ a b ind ex phs', phs = .text a b ind .lineStart :: .placeable ex :: phs' ∧
      effStart c a ind .lineStart = b ∧ ex.mapS (spanBytes s) = x ∧ MPh s c phs' es)

theorem MPh_ne {s : Src} {c : Option Nat} {phs : List Placeholder} {es : List (PatElem Bytes)} (h : MPh s c phs es)
    (hne : es ≠ []) : phs ≠ [] := by
  cases es with
  | nil => exact absurd rfl hne
  | cons e es =>
    cases e with
    | text v => simp only [MPh] at h; obtain ⟨a, b, ind, role, phs', rfl, _⟩ := h; simp
    | placeable x =>
      simp only [MPh] at h
      rcases h with ⟨ex, phs', rfl, _⟩ | ⟨a, b, ind, ex, phs', rfl, _⟩ <;> simp

theorem finishElements_mph (s : Src) (c : Option Nat) (es : List (PatElem Bytes)) (hne : es ≠ []) :
    ∀ (phs tr : List Placeholder) (i : Nat), MPh s c phs es →
      ∃ els, finishElements s c (i + phs.length - 1) i (phs ++ tr) = some els ∧ mapPat (spanBytes s) els = es := by
  induction es with
  | nil => exact absurd rfl hne
  | cons e es ih =>
    intro phs tr i hrel
    -- the tail, whenever it is non-empty
    have tailR : ∀ (phs' : List Placeholder) (L j : Nat), MPh s c phs' es → L = j + phs'.length - 1 → (es = [] → L < j) →
        ∃ els, finishElements s c L j (phs' ++ tr) = some els ∧ mapPat (spanBytes s) els = es := by
      intro phs' L j hr hL hlt
      cases es with
      | nil =>
        simp only [MPh] at hr; subst hr
        exact ⟨[], finishElements_past s c _ _ _ (hlt rfl), rfl⟩
      | cons e2 rest =>
        have := ih (by simp) phs' tr j hr
        rw [← hL] at this
        exact this
    cases e with
    | placeable x =>
      simp only [MPh] at hrel
      rcases hrel with ⟨ex, phs', rfl, hm, hr⟩ | ⟨a, b, ind, ex, phs', rfl, hg, hm, hr⟩
      · obtain ⟨els, hels, hmap⟩ := tailR phs' (i + (Placeholder.placeable ex :: phs').length - 1) (i + 1) hr
          (by simp only [List.length_cons]; omega) (by intro h0; subst h0; simp only [MPh] at hr; subst hr; simp)
        refine ⟨.placeable ex :: els, ?_, by simp [mapPat, PatElem.mapS, hm, hmap]⟩
        rw [List.cons_append]
        simp only [finishElements, show ¬ i > i + (Placeholder.placeable ex :: phs').length - 1 by simp, if_false, hels,
          Option.map_some]
      · obtain ⟨els, hels, hmap⟩ := tailR phs'
          (i + (Placeholder.text a b ind .lineStart :: Placeholder.placeable ex :: phs').length - 1) (i + 1 + 1) hr
          (by simp only [List.length_cons]; omega) (by intro h0; subst h0; simp only [MPh] at hr; subst hr; simp)
        refine ⟨.placeable ex :: els, ?_, by simp [mapPat, PatElem.mapS, hm, hmap]⟩
        rw [List.cons_append, List.cons_append]
        have hg' : (effStart c a ind .lineStart == b) = true := by simp [hg]
        simp only [effStart, beq_self_eq_true, if_true] at hg'
        simp only [finishElements, show ¬ i > i + (Placeholder.text a b ind .lineStart :: Placeholder.placeable ex ::
          phs').length - 1 by simp, if_false, beq_self_eq_true, if_true,
          show ¬ i + 1 > i + (Placeholder.text a b ind .lineStart :: Placeholder.placeable ex :: phs').length - 1 by
            simp, hels, Option.map_some]
        rw [if_pos]
        exact hg'
    | text v =>
      simp only [MPh] at hrel
      obtain ⟨a, b, ind, role, phs', rfl, ⟨hba, hbb, hat, hvne, hlast⟩, hr⟩ := hrel
      have hlen : 0 < v.length := by cases v <;> simp_all
      obtain ⟨els, hels, hmap⟩ := tailR phs' (i + (Placeholder.text a b ind role :: phs').length - 1) (i + 1) hr
        (by simp only [List.length_cons]; omega) (by intro h0; subst h0; simp only [MPh] at hr; subst hr; simp)
      rw [List.cons_append]
      have hLi : ¬ i > i + (Placeholder.text a b ind role :: phs').length - 1 := by simp
      have hLe : (i + (Placeholder.text a b ind role :: phs').length - 1 == i) = es.isEmpty := by
        cases es with
        | nil => simp only [MPh] at hr; subst hr; simp
        | cons e2 rest =>
          have := MPh_ne hr (by simp)
          cases phs' with
          | nil => exact absurd rfl this
          | cons _ _ => simp
      have key : ∀ a' : Nat, Bnd s a' → At s a' v →
          (if es.isEmpty = true then b = a' + v.length + 1 ∧ s[a' + v.length]? = some 10 ∧
              (∃ x, v.getLast? = some x ∧ x ≠ 32 ∧ x ≠ 10 ∧ x ≠ 13)
           else b = a' + v.length) →
          ∃ els', (if (a' == b) = true then finishElements s c (i + (Placeholder.text a b ind role :: phs').length - 1)
                (i + 1) (phs' ++ tr)
              else match slice s a' b with
                | none => none
                | some sp => Option.map (fun x => PatElem.text (if es.isEmpty = true then trimEnd s sp else sp) :: x)
                    (finishElements s c (i + (Placeholder.text a b ind role :: phs').length - 1) (i + 1) (phs' ++ tr))) =
              some els' ∧ mapPat (spanBytes s) els' = PatElem.text v :: es := by
        intro a' hba hat hlast
        by_cases hl : es.isEmpty = true
        · simp only [hl, if_true] at hlast ⊢
          obtain ⟨rfl, h10, x, hx, x1, x2, x3⟩ := hlast
          have hsc : s[a' + v.length - 1]? = some x := by
            have hg := at_get hat (v.length - 1) (by omega)
            rw [show a' + (v.length - 1) = a' + v.length - 1 by omega] at hg
            rw [hg]
            rw [List.getLast?_eq_getElem?, List.getElem?_eq_getElem (by omega)] at hx
            exact hx
          have htrim := trimEnd_lf s a' (a' + v.length) x (by omega) h10 hsc x1 x3 x2
          have h1 : (a' == a' + v.length + 1) = false := by simp; omega
          simp only [h1, Bool.false_eq_true, if_false, slice_ok (show a' ≤ a' + v.length + 1 by omega) hba hbb,
            hels, Option.map_some]
          refine ⟨_, rfl, ?_⟩
          have hes : es = [] := by simpa using hl
          simp [mapPat, PatElem.mapS, htrim, at_spanBytes hat, hmap, hes]
        · simp only [hl, Bool.false_eq_true, if_false] at hlast ⊢
          subst hlast
          have h1 : (a' == a' + v.length) = false := by simp; omega
          simp only [h1, Bool.false_eq_true, if_false, slice_ok (show a' ≤ a' + v.length by omega) hba hbb, hels,
            Option.map_some]
          refine ⟨_, rfl, ?_⟩
          simp [mapPat, PatElem.mapS, at_spanBytes hat, hmap]
      simp only [finishElements, hLi, if_false, hLe]
      exact key (effStart c a ind role) hba hat hlast

/-! ## what follows a pattern, and the end of the loop -/

/-- a line on which `get_pattern` stops: end of input, a byte in column 0 that is no blank / line end
/ `{`, or an indented `.`, `[`, `*`, `}` -/
def Stopper (s : Src) (q : Nat) : Prop :=
  s.size ≤ q ∨ (∃ b, s[q]? = some b ∧ b ≠ 32 ∧ b ≠ 10 ∧ (b = 13 → s[q + 1]? ≠ some 10) ∧ b ≠ 123) ∨
    (∃ k b, 0 < k ∧ (∀ j, j < k → s[q + j]? = some 32) ∧ s[q + k]? = some b ∧ (b = 46 ∨ b = 91 ∨ b = 42 ∨ b = 125))

/-- empty lines, then a stopper line at `q'` -/
def PatFollow (s : Src) (q q' : Nat) : Prop :=
  q ≤ q' ∧ (∀ j, q ≤ j → j < q' → s[j]? = some 10) ∧ Stopper s q'

theorem patternLoop_stop (s : Src) (n : Nat) (st : PatState) (q : Nat) (hrole : st.role = .lineStart)
    (h : Stopper s q) : getPatternLoop s (n + 1) st q = .ok st q := by
  rcases h with h | ⟨b, hb, b1, b2, b3, b4⟩ | ⟨k, b, hk, hsp, hb, hbb⟩
  · exact patternLoop_end s n st q hrole (Or.inl h)
  · exact patternLoop_end s n st q hrole (Or.inr ⟨b, hb, b4, b1, b2, b3⟩)
  · have hp0 : s[q]? = some 32 := by have := hsp 0 hk; simpa using this
    have hlt := get_lt hp0
    have h123 : isCurrentByte s q 123 = false := by simp [isCurrentByte, hp0]
    have hb32 : b ≠ 32 := by rcases hbb with rfl | rfl | rfl | rfl <;> decide
    have hsbi : skipBlankInline s q = q + k := skipBlankInline_run s k q hsp (by rw [hb]; simpa using hb32)
    have hnc : isBytePatternContinuation b = false := by rcases hbb with rfl | rfl | rfl | rfl <;> decide
    have hne : (k == 0) = false := by simp; omega
    rw [getPatternLoop]
    simp only [hlt, if_true, h123, Bool.false_eq_true, if_false, hrole, beq_self_eq_true, hsbi, Nat.add_sub_cancel_left,
      hb, hne, hnc, Bool.not_false]

theorem patternLoop_blank (s : Src) (n : Nat) (st : PatState) (q : Nat) (hrole : st.role = .lineStart)
    (h10 : s[q]? = some 10) :
    getPatternLoop s (n + 1) st q =
      getPatternLoop s n { st with elements := st.elements ++ [.text q (q + 1) 0 .lineStart] } (q + 1) := by
  have hlt := get_lt h10
  have h123 : isCurrentByte s q 123 = false := by simp [isCurrentByte, h10]
  have hsbi : skipBlankInline s q = q := skipBlankInline_stay s q (by rw [h10]; decide)
  have heol : isEol s q = true := by simp [isEol, h10]
  rw [getPatternLoop]
  simp only [hlt, if_true, h123, Bool.false_eq_true, if_false, hrole, beq_self_eq_true, hsbi, Nat.sub_self, h10,
    heol, Bool.not_true, getTextSlice_nl s q h10]
  simp [usub]

theorem patternLoop_finish (s : Src) (q' : Nat) : ∀ (d n q : Nat) (st : PatState), st.role = .lineStart →
    q + d = q' → (∀ j, q ≤ j → j < q' → s[j]? = some 10) → Stopper s q' → d + 1 ≤ n →
    ∃ tr, getPatternLoop s n st q =
      .ok ⟨st.elements ++ tr, st.lastNonBlank, st.commonIndent, .lineStart, st.keptCommonIndent⟩ q' := by
  intro d
  induction d with
  | zero =>
    intro n q st hrole hq _ hstop hn
    obtain ⟨m, rfl⟩ : ∃ m, n = m + 1 := ⟨n - 1, by omega⟩
    have : q = q' := by omega
    subst this
    refine ⟨[], ?_⟩
    rw [patternLoop_stop s m st q hrole hstop]
    cases st; simp_all
  | succ d ih =>
    intro n q st hrole hq h10 hstop hn
    obtain ⟨m, rfl⟩ : ∃ m, n = m + 1 := ⟨n - 1, by omega⟩
    rw [patternLoop_blank s m st q hrole (h10 q (Nat.le_refl _) (by omega))]
    obtain ⟨tr, htr⟩ := ih m (q + 1) { st with elements := st.elements ++ [.text q (q + 1) 0 .lineStart] } hrole
      (by omega) (fun j h1 h2 => h10 j (by omega) h2) hstop (by omega)
    exact ⟨.text q (q + 1) 0 .lineStart :: tr, by rw [htr]; simp⟩

/-! ## text elements of the class under `get_text_slice` -/

theorem mlTextOK_ne {v : Bytes} (h : mlTextOK v = true) : v ≠ [] := by
  intro h0; subst h0; simp [mlTextOK] at h

theorem mlTextOK_mem {v : Bytes} (h : mlTextOK v = true) : ∀ b ∈ v, b ≠ 123 ∧ b ≠ 125 := by
  intro b hb
  simp only [mlTextOK, Bool.and_eq_true, List.all_eq_true] at h
  have := h.1.1.2 b hb
  simpa using this

theorem mlTextOK_init {v : Bytes} (h : mlTextOK v = true) : ∀ b ∈ v.dropLast, b ≠ 10 := by
  intro b hb
  simp only [mlTextOK, Bool.and_eq_true, List.all_eq_true] at h
  simpa using h.1.2 b hb

theorem mlTextOK_nocrlf {v : Bytes} (h : mlTextOK v = true) : crlfEnd v = false := by
  simp only [mlTextOK, Bool.and_eq_true, Bool.not_eq_true'] at h
  exact h.2

theorem dropLast_snoc_self (l : Bytes) (x : UInt8) (h : l.getLast? = some x) : l = l.dropLast ++ [x] := by
  induction l with
  | nil => simp at h
  | cons a as ih =>
    cases as with
    | nil => simp at h; simp [h]
    | cons b bs =>
      rw [List.getLast?_cons_cons] at h
      rw [List.dropLast_cons_cons, List.cons_append, ← ih h]

theorem dropLast_snoc_exists (v : Bytes) (hne : v ≠ []) : ∃ x, v = v.dropLast ++ [x] := by
  cases hl : v.getLast? with
  | none => simp at hl; exact absurd hl hne
  | some x => exact ⟨x, dropLast_snoc_self v x hl⟩

/-- a text without final `\n` has no `\n`, `{`, `}` at all -/
theorem mlTextOK_clean {v : Bytes} (h : mlTextOK v = true) (hn : endsNl v = false) :
    ∀ b ∈ v, b ≠ 10 ∧ b ≠ 123 ∧ b ≠ 125 := by
  have hne := mlTextOK_ne h
  intro b hb
  obtain ⟨h2, h3⟩ := mlTextOK_mem h b hb
  refine ⟨?_, h2, h3⟩
  intro h0; subst h0
  obtain ⟨x, hx⟩ := dropLast_snoc_exists v hne
  rw [hx] at hb
  simp only [List.mem_append, List.mem_singleton] at hb
  rcases hb with hb | rfl
  · exact mlTextOK_init h 10 hb rfl
  · have : v.getLast? = some 10 := by rw [hx]; simp
    simp [endsNl, this] at hn

/-- `get_text_slice` on a text (no `\n`, no braces) that is followed by `{` -/
theorem getTextSlice_brace_g (s : Src) (v : Bytes) (hv : ∀ b ∈ v, b ≠ 10 ∧ b ≠ 123 ∧ b ≠ 125) (p : Nat) (h : At s p v)
    (hc : s[p + v.length]? = some 123) :
    getTextSlice s p = .ok (p, p + v.length, v.any (fun b => b != 32), .placeableStart) (p + v.length) := by
  have hlt := get_lt hc
  unfold getTextSlice
  simp only [show ¬ p > s.size by omega, if_false]
  rw [memchr3_at s v p h hv 123 hc (by decide)]
  simp only [hc, nonBlank_at s v p h]

/-- `get_text_slice` on a text (no `\n`, no braces, not ending with `\r`) that is followed by `\n` -/
theorem getTextSlice_lf_g (s : Src) (v : Bytes) (hv : ∀ b ∈ v, b ≠ 10 ∧ b ≠ 123 ∧ b ≠ 125) (hne : v ≠ [])
    (hl13 : v.getLast? ≠ some 13) (p : Nat) (h : At s p v) (hc : s[p + v.length]? = some 10) :
    getTextSlice s p = .ok (p, p + v.length + 1, v.any (fun b => b != 32), .lineFeed) (p + v.length + 1) := by
  have hlt := get_lt hc
  have hlen : 0 < v.length := by cases v <;> simp_all
  unfold getTextSlice
  simp only [show ¬ p > s.size by omega, if_false]
  rw [memchr3_at s v p h hv 10 hc (by decide)]
  simp only [hc]
  have h13 : s[p + v.length - 1]? ≠ some 13 := by
    have hg := at_get h (v.length - 1) (by omega)
    rw [show p + (v.length - 1) = p + v.length - 1 by omega] at hg
    rw [hg]
    rw [List.getLast?_eq_getElem?, List.getElem?_eq_getElem (by omega)] at hl13
    exact hl13
  simp only [beq_iff_eq, h13, and_false, if_false, nonBlank_at s v p h]

/-- `get_text_slice` on a text (no `\n`, no braces) that is followed by `\r\n`: the slice ends in front of the `\r`,
the cursor is left at the `\n` -/
theorem getTextSlice_crlf_g (s : Src) (v : Bytes) (hv : ∀ b ∈ v, b ≠ 10 ∧ b ≠ 123 ∧ b ≠ 125) (p : Nat) (h : At s p v)
    (h13 : s[p + v.length]? = some 13) (h10 : s[p + v.length + 1]? = some 10) :
    getTextSlice s p = .ok (p, p + v.length, v.any (fun b => b != 32), .crlf) (p + v.length + 1) := by
  have hlt := get_lt h10
  have hat2 : At s p (v ++ [13]) := by
    rw [at_append]; exact ⟨h, by simp [at_cons, h13]⟩
  have hv2 : ∀ b ∈ v ++ [13], b ≠ 10 ∧ b ≠ 123 ∧ b ≠ 125 := by
    intro b hb
    simp only [List.mem_append, List.mem_singleton] at hb
    rcases hb with hb | rfl
    · exact hv b hb
    · decide
  have hm := memchr3_at s (v ++ [13]) p hat2 hv2 10 (by simpa [Nat.add_assoc] using h10) (by decide)
  simp only [List.length_append, List.length_cons, List.length_nil, Nat.zero_add, ← Nat.add_assoc] at hm
  unfold getTextSlice
  simp only [show ¬ p > s.size by omega, if_false, hm, h10]
  simp only [show p + v.length + 1 > p by omega, show p + v.length + 1 - 1 = p + v.length by omega, h13,
    beq_self_eq_true, and_self, if_true, nonBlank_at s v p h]

theorem mlSlice_brace (s : Src) (v : Bytes) (hv : mlTextOK v = true) (hn : endsNl v = false) (pc : Nat)
    (h : At s pc v) (hc : s[pc + v.length]? = some 123) :
    getTextSlice s pc = .ok (pc, pc + v.length, v.any (fun b => b != 32), .placeableStart) (pc + v.length) :=
  getTextSlice_brace_g s v (mlTextOK_clean hv hn) pc h hc

theorem mlSlice_last (s : Src) (v : Bytes) (hv : mlTextOK v = true) (hn : endsNl v = false) (h13 : endsCr v = false)
    (pc : Nat) (h : At s pc v) (hc : s[pc + v.length]? = some 10) :
    getTextSlice s pc = .ok (pc, pc + v.length + 1, v.any (fun b => b != 32), .lineFeed) (pc + v.length + 1) :=
  getTextSlice_lf_g s v (mlTextOK_clean hv hn) (mlTextOK_ne hv) (by simpa [endsCr] using h13) pc h hc

theorem mlSlice_crlf (s : Src) (v : Bytes) (hv : mlTextOK v = true) (hn : endsNl v = false) (pc : Nat)
    (h : At s pc v) (h13 : s[pc + v.length]? = some 13) (h10 : s[pc + v.length + 1]? = some 10) :
    getTextSlice s pc = .ok (pc, pc + v.length, v.any (fun b => b != 32), .crlf) (pc + v.length + 1) :=
  getTextSlice_crlf_g s v (mlTextOK_clean hv hn) pc h h13 h10

theorem mlSlice_nl (s : Src) (v : Bytes) (hv : mlTextOK v = true) (hn : endsNl v = true) (pc : Nat)
    (h : At s pc v) :
    getTextSlice s pc = .ok (pc, pc + v.length, v.dropLast.any (fun b => b != 32), .lineFeed) (pc + v.length) := by
  have hne := mlTextOK_ne hv
  have hl : v.getLast? = some 10 := by simpa [endsNl] using hn
  have hx := dropLast_snoc_self v 10 hl
  rw [hx, at_append] at h
  simp only [at_cons] at h
  have hlen : v.length = v.dropLast.length + 1 := by
    have := congrArg List.length hx; simpa using this
  by_cases h0 : v.dropLast = []
  · rw [h0] at h hlen ⊢
    simp only [List.length_nil, Nat.add_zero] at h
    rw [getTextSlice_nl s pc h.2.1, hlen]
    simp
  · have hv0 : ∀ b ∈ v.dropLast, b ≠ 10 ∧ b ≠ 123 ∧ b ≠ 125 := by
      intro b hb
      have h1 := mlTextOK_mem hv b (by rw [hx]; simp [hb])
      exact ⟨mlTextOK_init hv b hb, h1.1, h1.2⟩
    have hl13 : v.dropLast.getLast? ≠ some 13 := by
      have := mlTextOK_nocrlf hv
      simp only [crlfEnd, hl, beq_self_eq_true, Bool.true_and, beq_eq_false_iff_ne, ne_eq] at this
      exact this
    rw [getTextSlice_lf_g s v.dropLast hv0 h0 hl13 pc h.1 h.2.1, hlen]
    simp [Nat.add_assoc]

theorem trimEndGo_first (s : Src) (a : Nat) (c : UInt8) (hc : s[a]? = some c) (h1 : c ≠ 32) (h2 : c ≠ 13) (h3 : c ≠ 10) :
    ∀ n b, a < b → a < trimEndGo s a n b := by
  intro n
  induction n with
  | zero => intro b hb; simpa [trimEndGo] using hb
  | succ n ih =>
    intro b hb
    rw [trimEndGo]
    simp only [hb, if_true]
    cases hx : s[b - 1]? with
    | none => simpa using hb
    | some x =>
      simp only []
      split
      · rename_i ht
        by_cases hba : b - 1 = a
        · rw [hba, hc] at hx; cases hx
          simp [h1, h2, h3] at ht
        · exact ih (b - 1) (by omega)
      · exact hb

/-- a slice whose first byte is kept by `trim` survives -/
theorem trimEnd_first (s : Src) (a b : Nat) (c : UInt8) (hab : a < b) (hc : s[a]? = some c) (h1 : c ≠ 32)
    (h2 : c ≠ 13) (h3 : c ≠ 10) : ((trimEnd s ⟨a, b⟩).stop != a) = true := by
  have := trimEndGo_first s a c hc h1 h2 h3 (b - a) b hab
  simp only [trimEnd, bne_iff_ne, ne_eq]
  omega

theorem crlfEnd_iff (v : Bytes) : crlfEnd v = true ↔ ∃ pre, v = pre ++ [13, 10] := by
  constructor
  · intro h
    simp only [crlfEnd, Bool.and_eq_true, beq_iff_eq] at h
    have h1 := dropLast_snoc_self v 10 h.1
    have h2 := dropLast_snoc_self v.dropLast 13 h.2
    exact ⟨v.dropLast.dropLast, by rw [List.append_cons, ← h2, ← h1]⟩
  · rintro ⟨pre, rfl⟩
    have h1 : (pre ++ [13, 10]).dropLast = pre ++ [13] := by
      rw [show pre ++ [13, 10] = (pre ++ [13]) ++ [10] by simp, List.dropLast_concat]
    simp [crlfEnd, h1]

theorem mlTextOK_drop {v : Bytes} (hv : mlTextOK v = true) (k : Nat) (hk : k < v.length) : mlTextOK (v.drop k) = true := by
  have hcr := mlTextOK_nocrlf hv
  simp only [mlTextOK, Bool.and_eq_true, Bool.not_eq_true', List.isEmpty_eq_false_iff, List.all_eq_true] at hv ⊢
  refine ⟨⟨⟨?_, fun b hb => hv.1.1.2 b (List.mem_of_mem_drop hb)⟩, ?_⟩, ?_⟩
  · intro h0; have := congrArg List.length h0; simp at this; omega
  · intro b hb
    apply hv.1.2 b
    rw [List.dropLast_eq_take] at hb ⊢
    have : b ∈ (v.drop k).take ((v.drop k).length - 1) := hb
    rw [List.length_drop] at this
    have h2 : (v.drop k).take (v.length - k - 1) = (v.take (v.length - 1)).drop k := by
      rw [List.drop_take]; congr 1; omega
    rw [h2] at this
    exact List.mem_of_mem_drop this
  · cases hc : crlfEnd (v.drop k) with
    | false => rfl
    | true =>
      obtain ⟨pre, hpre⟩ := (crlfEnd_iff _).mp hc
      have : crlfEnd v = true := (crlfEnd_iff v).mpr ⟨v.take k ++ pre, by
        rw [List.append_assoc, ← hpre, List.take_append_drop]⟩
      rw [this] at hcr; cases hcr

theorem leadSpaces_split (v : Bytes) : v = spacesL (leadSpaces v) ++ v.dropWhile (fun b => b == 32) := by
  have h1 : v.takeWhile (fun b => b == 32) = spacesL (leadSpaces v) := by
    unfold leadSpaces spacesL
    apply List.eq_replicate_iff.mpr
    refine ⟨rfl, fun b hb => ?_⟩
    have := mem_takeWhile_pred _ _ b hb
    simpa using this
  rw [← h1, List.takeWhile_append_dropWhile]

theorem dropWhile_eq_drop (v : Bytes) : v.dropWhile (fun b => b == 32) = v.drop (leadSpaces v) := by
  have := leadSpaces_split v
  have h2 : (spacesL (leadSpaces v) ++ v.dropWhile (fun b => b == 32)).drop (leadSpaces v) =
      v.dropWhile (fun b => b == 32) := by
    rw [List.drop_append_of_le_length (by simp [spacesL])]
    simp [spacesL]
  rw [← this] at h2
  exact h2.symm

theorem at_spaces (s : Src) (p n : Nat) (h : At s p (spacesL n)) : ∀ j, j < n → s[p + j]? = some 32 := by
  intro j hj
  have := at_get h j (by simpa [spacesL] using hj)
  simpa [spacesL] using this

/-! ## the state after a line-start iteration -/

theorem getTextSlice_at_brace (s : Src) (p : Nat) (hc : s[p]? = some 123) :
    getTextSlice s p = .ok (p, p, false, .placeableStart) p := by
  have hlt := get_lt hc
  unfold getTextSlice
  simp only [show ¬ p > s.size by omega, if_false]
  have : memchr3 s p = some p := by
    have := memchr3_at s [] p (by simp) (by simp) 123 (by simpa using hc) (by decide)
    simpa using this
  rw [this]
  simp only [hc]
  simp [nonBlank, nonBlankGo]

theorem st2Of_content (s : Src) (st : PatState) (p I k stop : Nat) (term : Termination)
    (hrole : st.role = .lineStart) (hne : p + (I + k) < stop)
    (hsl : slice s (p + (I + k)) stop = some ⟨p + (I + k), stop⟩) :
    st2Of s st p (I + k) (p + (I + k)) stop true term =
      some ⟨st.elements ++ [.text p stop (I + k) .lineStart],
        (if (trimEnd s ⟨p + (I + k), stop⟩).stop != p + (I + k) then some st.elements.length else st.lastNonBlank),
        ciStep I st.commonIndent k, .lineStart,
        (if (trimEnd s ⟨p + (I + k), stop⟩).stop != p + (I + k) then ciStep I st.commonIndent k
          else st.keptCommonIndent)⟩ := by
  have h1 : (p + (I + k) != stop) = true := by simp; omega
  simp only [st2Of, elOf, survivesOf, hrole, h1, Bool.true_or, if_true, beq_self_eq_true, Bool.true_and, Bool.or_true,
    Bool.not_true, Bool.false_and, Bool.false_eq_true, if_false, hsl, Option.map_some, ciStep]
  cases st.commonIndent <;> rfl

theorem st2Of_blank (s : Src) (st : PatState) (p ind p1 : Nat) (hrole : st.role = .lineStart) :
    st2Of s st p ind p1 (p1 + 1) false .lineFeed =
      some { st with elements := st.elements ++ [.text p1 (p1 + 1) 0 .lineStart] } := by
  have h1 : (p1 != p1 + 1) = true := by simp
  simp [st2Of, elOf, survivesOf, hrole, h1, usub]

theorem st2Of_led (s : Src) (st : PatState) (p I k : Nat) (hrole : st.role = .lineStart) :
    st2Of s st p (I + k) (p + (I + k)) (p + (I + k)) false .placeableStart =
      some ⟨st.elements ++ [.text p (p + (I + k)) (I + k) .lineStart], st.lastNonBlank,
        ciStep I st.commonIndent k, .lineStart, st.keptCommonIndent⟩ := by
  simp only [st2Of, elOf, survivesOf, hrole, bne_self_eq_false, beq_self_eq_true, Bool.true_and, Bool.false_or,
    if_true, Bool.or_true, Bool.not_true, Bool.and_false, Bool.false_eq_true, if_false, ciStep]
  cases st.commonIndent <;> rfl

/-! ## the loop over the elements of a class pattern -/

/-- writer state: indent level, buffer does not end with `\r`, and whether it ends with `\n` -/
def WS (w : Writer) (L : Nat) (nl : Bool) : Prop := w.indentLevel = L ∧ endsWith w 13 = false ∧ endsWith w 10 = nl

/-- writer state without the condition on a trailing `\r` (the state behind a text element that ends with `\r`) -/
def WSc (w : Writer) (L : Nat) (nl : Bool) : Prop := w.indentLevel = L ∧ endsWith w 10 = nl

theorem WS.toC {w : Writer} {L : Nat} {nl : Bool} (h : WS w L nl) : WSc w L nl := ⟨h.1, h.2.2⟩

/-- round-trip property of a placeable element written at indent level `L` -/
structure PlRT (L : Nat) (x : Expr Bytes) : Prop where
  head : (exprText L x).head? = some 123
  last : (exprText L x).getLast? = some 125
  ser : ∀ (w : Writer) (nl : Bool), WSc w L nl →
    ∃ w', serElement w (.placeable x) = some w' ∧
      w'.buffer = w.buffer ++ ((if nl then spacesL (4 * L) else []) ++ exprText L x).toArray ∧ WS w' L false
  parse : ∀ (s : Src) (p n : Nat), AsciiThenBoundary s → At s p (exprText L x) → 4 * (exprText L x).length + 11 ≤ n →
    ∃ ex, getPlaceable s n (p + 1) = .ok ex (p + (exprText L x).length) ∧ ex.mapS (spanBytes s) = x

theorem mlRole_false {r : TextPos} (h : mlRole false r) : (r == .lineStart) = false := by simpa [mlRole] using h
theorem mlRole_true {r : TextPos} (h : mlRole true r) : r = .lineStart := by simpa [mlRole] using h

theorem isMultiline_tail {e : PatElem Bytes} {es : List (PatElem Bytes)} (h : isMultiline (e :: es) = false) :
    isMultiline es = false := by
  cases e <;> simp [isMultiline] at h <;> exact h.2

theorem mlLastOK_tail {e : PatElem Bytes} {es : List (PatElem Bytes)} (h : mlLastOK (e :: es) = true) :
    mlLastOK es = true := by
  cases es with
  | nil => rfl
  | cons r rs => cases e <;> simpa [mlLastOK] using h

/-- the base case: after the last element comes the line feed, blank lines and a stopper -/
theorem mlLoop_nil {s : Src} (hs : AsciiThenBoundary s) (n p q' : Nat) (st : PatState)
    (hrole : (st.role == .lineStart) = false) (hb : Bnd s p) (h10 : s[p]? = some 10)
    (hf : PatFollow s (p + 1) q') (hn : (q' - p) + 3 ≤ n) :
    ∃ tr, getPatternLoop s n st p =
      .ok ⟨st.elements ++ tr, st.lastNonBlank, st.commonIndent, .lineStart, st.keptCommonIndent⟩ q' := by
  obtain ⟨m, rfl⟩ : ∃ m, n = m + 1 := ⟨n - 1, by omega⟩
  have hts := getTextSlice_nl s p h10
  have hsl : slice s p (p + 1) = some ⟨p, p + 1⟩ := slice_ok (by omega) hb (bnd_succ hs h10 (by decide))
  rw [patternLoop_text_step s m st p (p + 1) (p + 1) false .lineFeed (get_lt h10) (by rw [h10]; decide)
    hrole hts (by omega) hsl]
  obtain ⟨hle, h10s, hstop⟩ := hf
  obtain ⟨tr, htr⟩ := patternLoop_finish s q' (q' - (p + 1)) m (p + 1)
    ⟨st.elements ++ [.text p (p + 1) 0 st.role], st.lastNonBlank, st.commonIndent, roleOf .lineFeed, st.keptCommonIndent⟩
    rfl (by omega) h10s hstop (by omega)
  refine ⟨.text p (p + 1) 0 st.role :: tr, ?_⟩
  simp only [Bool.false_and, Bool.false_eq_true, if_false]
  rw [htr]
  simp

theorem cont_of_start : ∀ c : UInt8, contentStartOK c = true → c ≠ 125 → isBytePatternContinuation c = true ∧ c ≠ 32 := by
  apply forall_uint8; decide +kernel

/-- line-start iteration on a text with content -/
theorem step_ls_content (s : Src) (n : Nat) (st : PatState) (p I k : Nat) (c : UInt8) (stop q : Nat)
    (term : Termination) (hrole : st.role = .lineStart) (hI : 0 < I)
    (hsp : ∀ j, j < I + k → s[p + j]? = some 32) (hc : s[p + (I + k)]? = some c) (hc32 : c ≠ 32)
    (hcont : isBytePatternContinuation c = true)
    (hts : getTextSlice s (p + (I + k)) = .ok (p + (I + k), stop, true, term) q) (hne : p + (I + k) < stop)
    (hsl : slice s (p + (I + k)) stop = some ⟨p + (I + k), stop⟩) :
    getPatternLoop s (n + 1) st p =
      getPatternLoop s n ⟨st.elements ++ [.text p stop (I + k) .lineStart],
        (if (trimEnd s ⟨p + (I + k), stop⟩).stop != p + (I + k) then some st.elements.length else st.lastNonBlank),
        ciStep I st.commonIndent k, roleOf term,
        (if (trimEnd s ⟨p + (I + k), stop⟩).stop != p + (I + k) then ciStep I st.commonIndent k
          else st.keptCommonIndent)⟩ q := by
  rw [patternLoop_ls_step s n st p (I + k) c stop q true term hrole (by omega) hsp hc hc32 hcont hts,
    st2Of_content s st p I k stop term hrole hne hsl]

/-- line-start iteration on a blank line -/
theorem step_ls_blank (s : Src) (n : Nat) (st : PatState) (p I : Nat) (hrole : st.role = .lineStart) (hI : 0 < I)
    (hsp : ∀ j, j < I → s[p + j]? = some 32) (h10 : s[p + I]? = some 10) :
    getPatternLoop s (n + 1) st p =
      getPatternLoop s n ⟨st.elements ++ [.text (p + I) (p + I + 1) 0 .lineStart], st.lastNonBlank, st.commonIndent,
        .lineStart, st.keptCommonIndent⟩ (p + I + 1) := by
  rw [patternLoop_ls_step s n st p I 10 (p + I + 1) (p + I + 1) false .lineFeed hrole hI hsp h10 (by decide) (by decide)
    (getTextSlice_nl s (p + I) h10), st2Of_blank s st p I (p + I) hrole]
  rfl

/-- line-start iteration in front of a placeable -/
theorem step_ls_led (s : Src) (n : Nat) (st : PatState) (p I k : Nat) (hrole : st.role = .lineStart) (hI : 0 < I)
    (hsp : ∀ j, j < I + k → s[p + j]? = some 32) (hc : s[p + (I + k)]? = some 123) :
    getPatternLoop s (n + 1) st p =
      getPatternLoop s n ⟨st.elements ++ [.text p (p + (I + k)) (I + k) .lineStart], st.lastNonBlank,
        ciStep I st.commonIndent k, .continuation, st.keptCommonIndent⟩ (p + (I + k)) := by
  rw [patternLoop_ls_step s n st p (I + k) 123 (p + (I + k)) (p + (I + k)) false .placeableStart hrole (by omega) hsp hc
    (by decide) (by decide) (getTextSlice_at_brace s _ hc), st2Of_led s st p I k hrole]
  rfl

theorem exprText_bnd {s : Src} (hs : AsciiThenBoundary s) {L : Nat} {x : Expr Bytes} (h : PlRT L x) {p : Nat}
    (hat : At s p (exprText L x)) : s[p]? = some 123 ∧ Bnd s (p + (exprText L x).length) := by
  refine ⟨at_head hat h.head, ?_⟩
  have hl := h.last
  have hx := dropLast_snoc_self _ _ hl
  rw [hx, at_append] at hat
  simp only [at_cons] at hat
  have := bnd_succ hs hat.2.1 (by decide)
  have hlen : (exprText L x).length = (exprText L x).dropLast.length + 1 := by
    have := congrArg List.length hx; simpa using this
  rw [hlen]; simpa [Nat.add_assoc] using this

theorem exprText_len {L : Nat} {x : Expr Bytes} (h : PlRT L x) : 1 ≤ (exprText L x).length := by
  have := h.head
  cases hx : exprText L x with
  | nil => simp [hx] at this
  | cons a as => simp

end FluentProofs.Ser
