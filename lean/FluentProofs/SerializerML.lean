import FluentProofs.SerializerPattern
import FluentProofs.ParserHoareExpr
/-!
# Serializer lemmas, part 11: multi-line patterns (C04 / T3)

The general `get_pattern` loop on the text `serialize_pattern` writes for a pattern whose lines are
indented by `I = 4·level` spaces: line-start text elements (with excess indentation), blank lines,
placeable-led lines, the common-indent computation and the final `finishElements` pass.
-/
namespace FluentProofs.Ser
open FluentModel FluentModel.Syntax FluentModel.Syntax.Ser FluentProofs.Parser

/-! ## one loop iteration at a line start -/

theorem skipBlankInline_run (s : Src) (k p : Nat) (hsp : ∀ j, j < k → s[p + j]? = some 32)
    (hb : s[p + k]? ≠ some 32) : skipBlankInline s p = p + k := by
  induction k generalizing p with
  | zero => exact skipBlankInline_stay s p (by simpa using hb)
  | succ k ih =>
    have h0 : s[p]? = some 32 := by have := hsp 0 (by omega); simpa using this
    rw [skipBlankInline_space s p h0, ih (p + 1) (fun j hj => by
      have := hsp (j + 1) (by omega); rwa [show p + (j + 1) = p + 1 + j by omega] at this)
      (by rwa [show p + 1 + k = p + (k + 1) by omega])]
    omega

def mlRole (nl : Bool) (r : TextPos) : Prop := if nl then r = .lineStart else (r == .lineStart) = false

/-- a loop iteration at the start of an indented line: `ind` spaces, then a byte that may continue the
pattern; the new state is the `st2Of` replica of `ParserHoareExpr` -/
theorem patternLoop_ls_step (s : Src) (n : Nat) (st : PatState) (p ind : Nat) (b : UInt8) (stop q : Nat) (nb : Bool)
    (term : Termination) (hrole : st.role = .lineStart) (hind : 0 < ind)
    (hsp : ∀ j, j < ind → s[p + j]? = some 32) (hb : s[p + ind]? = some b) (hb32 : b ≠ 32)
    (hcont : isBytePatternContinuation b = true)
    (hts : getTextSlice s (p + ind) = .ok (p + ind, stop, nb, term) q) :
    getPatternLoop s (n + 1) st p =
      match st2Of s st p ind (p + ind) stop nb term with
      | some st2 => getPatternLoop s n { st2 with role := roleOf term } q
      | none => .panic "get_pattern: end - 1 underflow or text slice" := by
  have hp0 : s[p]? = some 32 := by have := hsp 0 hind; simpa using this
  have hlt := get_lt hp0
  have h123 : isCurrentByte s p 123 = false := by simp [isCurrentByte, hp0]
  have hsbi : skipBlankInline s p = p + ind := by
    exact skipBlankInline_run s ind p hsp (by rw [hb]; simpa using hb32)
  rw [getPatternLoop]
  simp only [hlt, if_true, h123, Bool.false_eq_true, if_false, hrole, beq_self_eq_true, hsbi, Nat.add_sub_cancel_left,
    hb]
  have hne : (ind == 0) = false := by simp; omega
  simp only [hne, hcont, Bool.not_true, Bool.false_eq_true, if_false, hts]
  simp only [st2Of, elOf, survivesOf, hrole, beq_self_eq_true, Bool.true_and, bne_self_eq_false, Bool.false_or]
  cases nb <;> cases term <;> simp [roleOf] <;> rfl

/-! ## the text of patterns and select expressions at an indent level -/

def spacesL (n : Nat) : Bytes := List.replicate n 32

def endsNl (v : Bytes) : Bool := v.getLast? == some 10

def keyBytes : VKey Bytes → Bytes
  | .ident n => n
  | .num v => v

/-- `\n` or ` ` — how `serialize_pattern` starts -/
def patPrefix (p : List (PatElem Bytes)) : Bytes := if startsOnNewLine p then [10] else [32]

/-- the indent level at which the elements of a pattern are written, when the pattern is written at level `L` -/
def elemLevel (L : Nat) (p : List (PatElem Bytes)) : Nat := if isMultiline p then L + 1 else L

mutual
/-- the text `serialize_inline_expression` writes at indent level `L`: `inlineBytes`, except that a select
expression inside a nested placeable (directly, or inside call arguments) is written over several lines — its
variants at level `L + 1`, and whatever follows it after `4·L` spaces -/
def inlineText (L : Nat) : Inline Bytes → Bytes
  | .str v => 34 :: (v ++ [34])
  | .num v => v
  | .var id => 36 :: id
  | .msg id attr => id ++ attrBytes attr
  | .term id attr none => 45 :: (id ++ attrBytes attr)
  | .term id attr (some (pos, named)) =>
    45 :: (id ++ attrBytes attr ++ 40 :: posText L pos named.isEmpty (namedText L named))
  | .fn id pos named => id ++ 40 :: posText L pos named.isEmpty (namedText L named)
  | .placeable e => 123 :: (innerText L e ++ [125])
/-- positional arguments from the start of one of them, then the named ones, then `)` -/
def posText (L : Nat) : List (Inline Bytes) → (noNamed : Bool) → (namedText : Bytes) → Bytes
  | [], _, nt => nt
  | x :: xs, nn, nt => inlineText L x ++ (if xs.isEmpty && nn then [] else [44, 32]) ++ posText L xs nn nt
/-- named arguments from the start of one of them, then `)` -/
def namedText (L : Nat) : List (Bytes × Inline Bytes) → Bytes
  | [] => [41]
  | (n, v) :: xs => n ++ [58, 32] ++ inlineText L v ++ (if xs.isEmpty then [] else [44, 32]) ++ namedText L xs
/-- what `serialize_expression` writes at level `L`; for a select expression this includes the `4·L` spaces
that the writer puts in front of whatever is written next (the closing brace) -/
def innerText (L : Nat) : Expr Bytes → Bytes
  | .inline i => inlineText L i
  | .select sel vs => inlineText L sel ++ [32, 45, 62, 10] ++ variantsText (L + 1) vs ++ spacesL (4 * L)
/-- text of a placeable element written at indent level `L` (without the indentation in front of it) -/
def exprText (L : Nat) : Expr Bytes → Bytes
  | .inline (.placeable e) => 123 :: 123 :: 32 :: (innerText L e ++ [32, 125, 125])
  | .inline i => 123 :: 32 :: (inlineText L i ++ [32, 125])
  | .select sel vs =>
    123 :: 32 :: (inlineText L sel ++ [32, 45, 62, 10] ++ variantsText (L + 1) vs ++ spacesL (4 * L) ++ [125])
def variantsText (L : Nat) : List (Variant Bytes) → Bytes
  | [] => []
  | v :: vs => variantText L v ++ 10 :: variantsText L vs
def variantText (L : Nat) : Variant Bytes → Bytes
  | .mk key value dflt =>
    (if dflt then spacesL (4 * L - 1) ++ [42] else spacesL (4 * L)) ++
      91 :: (keyBytes key ++ 93 :: (patPrefix value ++ elemsText (elemLevel L value) (startsOnNewLine value) value))
/-- the elements of a pattern written at level `L`; `nl` = the writer is at the start of a line -/
def elemsText (L : Nat) (nl : Bool) : List (PatElem Bytes) → Bytes
  | [] => []
  | .text v :: es => (if nl then spacesL (4 * L) else []) ++ v ++ elemsText L (endsNl v) es
  | .placeable x :: es => (if nl then spacesL (4 * L) else []) ++ exprText L x ++ elemsText L false es
end

/-- what `serialize_pattern` writes at indent level `L` -/
def patText (L : Nat) (p : List (PatElem Bytes)) : Bytes :=
  patPrefix p ++ elemsText (elemLevel L p) (startsOnNewLine p) p

/-! ## on select-free inline expressions the level-indexed text is `inlineBytes` -/

mutual
theorem inlineText_valid (L : Nat) (e : Inline Bytes) (hv : validInline e = true) : inlineText L e = inlineBytes e := by
  cases e with
  | str v => simp [inlineText, inlineBytes]
  | num v => simp [inlineText, inlineBytes]
  | var v => simp [inlineText, inlineBytes]
  | msg a b => simp [inlineText, inlineBytes]
  | term id attr args =>
    cases args with
    | none => simp [inlineText, inlineBytes]
    | some pn =>
      obtain ⟨pos, named⟩ := pn
      simp only [validInline, Bool.and_eq_true] at hv
      simp only [inlineText, inlineBytes]
      rw [namedText_valid L named hv.1.2, posText_valid L pos hv.1.1.2]
  | fn id pos named =>
    simp only [validInline, Bool.and_eq_true] at hv
    simp only [inlineText, inlineBytes]
    rw [namedText_valid L named hv.1.2, posText_valid L pos hv.1.1.2]
  | placeable e =>
    cases e with
    | select a b => simp [validInline, validInner] at hv
    | inline i =>
      have := inlineText_valid L i (validInner_inline (by simpa [validInline] using hv))
      simp [inlineText, innerText, inlineBytes, innerBytes, this]
theorem posText_valid (L : Nat) (xs : List (Inline Bytes)) (hv : validInl xs = true) (nn : Bool) (nt : Bytes) :
    posText L xs nn nt = posTail xs nn nt := by
  cases xs with
  | nil => simp [posText, posTail]
  | cons x xs =>
    simp only [validInl, Bool.and_eq_true] at hv
    rw [posText, posTail, inlineText_valid L x hv.1, posText_valid L xs hv.2]
theorem namedText_valid (L : Nat) (named : List (Bytes × Inline Bytes)) (hv : validNamed named = true) :
    namedText L named = namedTail named := by
  cases named with
  | nil => simp [namedText, namedTail]
  | cons x xs =>
    obtain ⟨n, v⟩ := x
    simp only [validNamed, Bool.and_eq_true] at hv
    rw [namedText, namedTail, inlineText_valid L v hv.1.2, namedText_valid L xs hv.2]
end

/-- a valid inline placeable element (`{ i }`, `{{ i }}`) is written the same at every level -/
theorem exprText_inline_valid (L : Nat) (i : Inline Bytes) (hv : validInner (.inline i) = true) :
    exprText L (.inline i) = elemBytes (.placeable (.inline i)) := by
  have hi := inlineText_valid L i (validInner_inline hv)
  cases i with
  | placeable e2 =>
    cases e2 with
    | select a b =>
      have : validInner (.inline (.placeable (.select a b))) = validInline (.placeable (.select a b)) := rfl
      rw [this] at hv
      simp [validInline, validInner] at hv
    | inline j =>
      simp only [inlineText, innerText, inlineBytes, innerBytes, List.cons.injEq, true_and,
        List.append_cancel_right_eq] at hi
      simp [exprText, innerText, elemBytes, innerBytes, hi]
  | str v => simp [exprText, elemBytes, hi]
  | num v => simp [exprText, elemBytes, hi]
  | var v => simp [exprText, elemBytes, hi]
  | msg a b => simp [exprText, elemBytes, hi]
  | term a b c => simp [exprText, elemBytes, hi]
  | fn a b c => simp [exprText, elemBytes, hi]

/-! ## the class of patterns -/

/-- text bytes: non-empty, no `\r`, no braces, `\n` only as the last byte -/
def mlTextOK (v : Bytes) : Bool :=
  !v.isEmpty && v.all (fun b => b != 13 && b != 123 && b != 125) && v.dropLast.all (fun b => b != 10)

def leadSpaces (v : Bytes) : Nat := (v.takeWhile (fun b => b == 32)).length

/-- first non-space byte of a text that starts a line -/
def contentStartOK (b : UInt8) : Bool := b != 32 && b != 10 && b != 46 && b != 91 && b != 42

/-- a text element at the start of a line (not a blank line): spaces, then a byte that continues the
pattern — or only spaces, directly in front of a placeable -/
def lineStartOK (v : Bytes) (es : List (PatElem Bytes)) : Bool :=
  match v.dropWhile (fun b => b == 32) with
  | [] => (match es with
    | .placeable _ :: _ => true
    | _ => false)
  | c :: _ => contentStartOK c

def mlElems : Bool → List (PatElem Bytes) → Bool
  | _, [] => true
  | _, .placeable _ :: es => mlElems false es
  | nl, .text v :: es =>
    mlTextOK v &&
      (match es with
       | .text _ :: _ => endsNl v
       | _ => true) &&
      (!nl || v == [10] || lineStartOK v es) && mlElems (endsNl v) es

/-- excess indentation of the lines that take part in the common-indent computation -/
def excesses : Bool → List (PatElem Bytes) → List Nat
  | _, [] => []
  | nl, .placeable _ :: es => (if nl then [0] else []) ++ excesses false es
  | nl, .text v :: es => (if nl && v != [10] then [leadSpaces v] else []) ++ excesses (endsNl v) es

/-- the last element, if a text, ends with a byte that `trim` keeps -/
def mlLastOK : List (PatElem Bytes) → Bool
  | [] => true
  | [.text v] => v.getLast? != some 32 && v.getLast? != some 10
  | _ :: rest => mlLastOK rest

/-- the first element fits how the pattern starts -/
def mlFirstOK (p : List (PatElem Bytes)) : Bool :=
  match p with
  | .text v :: _ => if startsOnNewLine p then v != [10] else v.head? != some 32 && v.head? != some 10
  | _ => true

/-- **the pattern class** (texts; the placeables are constrained separately): line-split texts without
`\r`, lines start with a byte that continues a pattern, some line has no excess indentation (or no line
takes part in the common-indent computation: an inline start followed only by a select expression) -/
def mlPattern (p : List (PatElem Bytes)) : Bool :=
  !p.isEmpty && mlElems (startsOnNewLine p) p && mlLastOK p && mlFirstOK p &&
    (!isMultiline p || (excesses (startsOnNewLine p) p).isEmpty || (excesses (startsOnNewLine p) p).contains 0)

/-! ## common indent bookkeeping -/

def ciStep (I : Nat) (cur : Option Nat) (x : Nat) : Option Nat :=
  match cur with
  | some c => if I + x < c then some (I + x) else some c
  | none => some (I + x)

def ciAfter (I : Nat) : Option Nat → List Nat → Option Nat
  | cur, [] => cur
  | cur, x :: xs => ciAfter I (ciStep I cur x) xs

def ciGE (I : Nat) : Option Nat → Prop
  | none => True
  | some c => I ≤ c

theorem ciStep_ge (I : Nat) (cur : Option Nat) (x : Nat) (h : ciGE I cur) : ciGE I (ciStep I cur x) := by
  cases cur with
  | none => simp [ciStep, ciGE]
  | some c => simp only [ciStep]; split <;> simp [ciGE] <;> first | omega | exact h

theorem ciAfter_ge (I : Nat) (cur : Option Nat) (xs : List Nat) (h : ciGE I cur) : ciGE I (ciAfter I cur xs) := by
  induction xs generalizing cur with
  | nil => exact h
  | cons x xs ih => exact ih _ (ciStep_ge I cur x h)

theorem ciAfter_zero (I : Nat) (cur : Option Nat) (xs : List Nat) (h : ciGE I cur) (h0 : 0 ∈ xs) :
    ciAfter I cur xs = some I := by
  induction xs generalizing cur with
  | nil => simp at h0
  | cons x xs ih =>
    simp only [List.mem_cons] at h0
    rcases h0 with rfl | h0
    · -- after a line without excess the common indent is `I` and stays
      have h1 : ciStep I cur 0 = some I := by
        cases cur with
        | none => simp [ciStep]
        | some c => simp only [ciStep, ciGE] at h ⊢; split <;> simp <;> omega
      simp only [ciAfter, h1]
      clear ih h
      induction xs with
      | nil => rfl
      | cons y ys ih2 =>
        simp only [ciAfter, ciStep]
        rw [if_neg (by omega)]
        exact ih2
    · exact ih _ (ciStep_ge I cur x h) h0

/-! ## placeholders vs tree elements, and `finishElements` -/

/-- start of a text placeholder after the common indent `c` is removed (as `finishElements` computes it) -/
def effStart (c : Option Nat) (a ind : Nat) (role : TextPos) : Nat :=
  if role == .lineStart then
    match c with
    | none => a + ind
    | some c => a + min ind c
  else a

def TextRel (s : Src) (c : Option Nat) (a b ind : Nat) (role : TextPos) (v : Bytes) (last : Bool) : Prop :=
  Bnd s (effStart c a ind role) ∧ Bnd s b ∧ At s (effStart c a ind role) v ∧ v ≠ [] ∧
    (if last then b = effStart c a ind role + v.length + 1 ∧ s[effStart c a ind role + v.length]? = some 10 ∧
        (∃ x, v.getLast? = some x ∧ x ≠ 32 ∧ x ≠ 10 ∧ x ≠ 13)
     else b = effStart c a ind role + v.length)

/-- the placeholders `phs` stand for the elements `es`; a placeable that starts a line is preceded by a
"ghost" text placeholder that `finishElements` drops -/
def MPh (s : Src) (c : Option Nat) : List Placeholder → List (PatElem Bytes) → Prop
  | phs, [] => phs = []
  | phs, .text v :: es => ∃ a b ind role phs', phs = .text a b ind role :: phs' ∧
      TextRel s c a b ind role v es.isEmpty ∧ MPh s c phs' es
  | phs, .placeable x :: es =>
    (∃ ex phs', phs = .placeable ex :: phs' ∧ ex.mapS (spanBytes s) = x ∧ MPh s c phs' es) ∨
    (∃ a b ind ex phs', phs = .text a b ind .lineStart :: .placeable ex :: phs' ∧
      effStart c a ind .lineStart = b ∧ ex.mapS (spanBytes s) = x ∧ MPh s c phs' es)

theorem MPh_ne {s : Src} {c : Option Nat} {phs : List Placeholder} {es : List (PatElem Bytes)} (h : MPh s c phs es)
    (hne : es ≠ []) : phs ≠ [] := by
  cases es with
  | nil => exact absurd rfl hne
  | cons e es =>
    cases e with
    | text v => simp only [MPh] at h; obtain ⟨a, b, ind, role, phs', rfl, _⟩ := h; simp
    | placeable x =>
      simp only [MPh] at h
      rcases h with ⟨ex, phs', rfl, _⟩ | ⟨a, b, ind, ex, phs', rfl, _⟩ <;> simp

theorem finishElements_mph (s : Src) (c : Option Nat) (es : List (PatElem Bytes)) (hne : es ≠ []) :
    ∀ (phs tr : List Placeholder) (i : Nat), MPh s c phs es →
      ∃ els, finishElements s c (i + phs.length - 1) i (phs ++ tr) = some els ∧ mapPat (spanBytes s) els = es := by
  induction es with
  | nil => exact absurd rfl hne
  | cons e es ih =>
    intro phs tr i hrel
    -- the tail, whenever it is non-empty
    have tailR : ∀ (phs' : List Placeholder) (L j : Nat), MPh s c phs' es → L = j + phs'.length - 1 → (es = [] → L < j) →
        ∃ els, finishElements s c L j (phs' ++ tr) = some els ∧ mapPat (spanBytes s) els = es := by
      intro phs' L j hr hL hlt
      cases es with
      | nil =>
        simp only [MPh] at hr; subst hr
        exact ⟨[], finishElements_past s c _ _ _ (hlt rfl), rfl⟩
      | cons e2 rest =>
        have := ih (by simp) phs' tr j hr
        rw [← hL] at this
        exact this
    cases e with
    | placeable x =>
      simp only [MPh] at hrel
      rcases hrel with ⟨ex, phs', rfl, hm, hr⟩ | ⟨a, b, ind, ex, phs', rfl, hg, hm, hr⟩
      · obtain ⟨els, hels, hmap⟩ := tailR phs' (i + (Placeholder.placeable ex :: phs').length - 1) (i + 1) hr
          (by simp only [List.length_cons]; omega) (by intro h0; subst h0; simp only [MPh] at hr; subst hr; simp)
        refine ⟨.placeable ex :: els, ?_, by simp [mapPat, PatElem.mapS, hm, hmap]⟩
        rw [List.cons_append]
        simp only [finishElements, show ¬ i > i + (Placeholder.placeable ex :: phs').length - 1 by simp, if_false, hels,
          Option.map_some]
      · obtain ⟨els, hels, hmap⟩ := tailR phs'
          (i + (Placeholder.text a b ind .lineStart :: Placeholder.placeable ex :: phs').length - 1) (i + 1 + 1) hr
          (by simp only [List.length_cons]; omega) (by intro h0; subst h0; simp only [MPh] at hr; subst hr; simp)
        refine ⟨.placeable ex :: els, ?_, by simp [mapPat, PatElem.mapS, hm, hmap]⟩
        rw [List.cons_append, List.cons_append]
        have hg' : (effStart c a ind .lineStart == b) = true := by simp [hg]
        simp only [effStart, beq_self_eq_true, if_true] at hg'
        simp only [finishElements, show ¬ i > i + (Placeholder.text a b ind .lineStart :: Placeholder.placeable ex ::
          phs').length - 1 by simp, if_false, beq_self_eq_true, if_true,
          show ¬ i + 1 > i + (Placeholder.text a b ind .lineStart :: Placeholder.placeable ex :: phs').length - 1 by
            simp, hels, Option.map_some]
        rw [if_pos]
        exact hg'
    | text v =>
      simp only [MPh] at hrel
      obtain ⟨a, b, ind, role, phs', rfl, ⟨hba, hbb, hat, hvne, hlast⟩, hr⟩ := hrel
      have hlen : 0 < v.length := by cases v <;> simp_all
      obtain ⟨els, hels, hmap⟩ := tailR phs' (i + (Placeholder.text a b ind role :: phs').length - 1) (i + 1) hr
        (by simp only [List.length_cons]; omega) (by intro h0; subst h0; simp only [MPh] at hr; subst hr; simp)
      rw [List.cons_append]
      have hLi : ¬ i > i + (Placeholder.text a b ind role :: phs').length - 1 := by simp
      have hLe : (i + (Placeholder.text a b ind role :: phs').length - 1 == i) = es.isEmpty := by
        cases es with
        | nil => simp only [MPh] at hr; subst hr; simp
        | cons e2 rest =>
          have := MPh_ne hr (by simp)
          cases phs' with
          | nil => exact absurd rfl this
          | cons _ _ => simp
      have key : ∀ a' : Nat, Bnd s a' → At s a' v →
          (if es.isEmpty = true then b = a' + v.length + 1 ∧ s[a' + v.length]? = some 10 ∧
              (∃ x, v.getLast? = some x ∧ x ≠ 32 ∧ x ≠ 10 ∧ x ≠ 13)
           else b = a' + v.length) →
          ∃ els', (if (a' == b) = true then finishElements s c (i + (Placeholder.text a b ind role :: phs').length - 1)
                (i + 1) (phs' ++ tr)
              else match slice s a' b with
                | none => none
                | some sp => Option.map (fun x => PatElem.text (if es.isEmpty = true then trimEnd s sp else sp) :: x)
                    (finishElements s c (i + (Placeholder.text a b ind role :: phs').length - 1) (i + 1) (phs' ++ tr))) =
              some els' ∧ mapPat (spanBytes s) els' = PatElem.text v :: es := by
        intro a' hba hat hlast
        by_cases hl : es.isEmpty = true
        · simp only [hl, if_true] at hlast ⊢
          obtain ⟨rfl, h10, x, hx, x1, x2, x3⟩ := hlast
          have hsc : s[a' + v.length - 1]? = some x := by
            have hg := at_get hat (v.length - 1) (by omega)
            rw [show a' + (v.length - 1) = a' + v.length - 1 by omega] at hg
            rw [hg]
            rw [List.getLast?_eq_getElem?, List.getElem?_eq_getElem (by omega)] at hx
            exact hx
          have htrim := trimEnd_lf s a' (a' + v.length) x (by omega) h10 hsc x1 x3 x2
          have h1 : (a' == a' + v.length + 1) = false := by simp; omega
          simp only [h1, Bool.false_eq_true, if_false, slice_ok (show a' ≤ a' + v.length + 1 by omega) hba hbb,
            hels, Option.map_some]
          refine ⟨_, rfl, ?_⟩
          have hes : es = [] := by simpa using hl
          simp [mapPat, PatElem.mapS, htrim, at_spanBytes hat, hmap, hes]
        · simp only [hl, Bool.false_eq_true, if_false] at hlast ⊢
          subst hlast
          have h1 : (a' == a' + v.length) = false := by simp; omega
          simp only [h1, Bool.false_eq_true, if_false, slice_ok (show a' ≤ a' + v.length by omega) hba hbb, hels,
            Option.map_some]
          refine ⟨_, rfl, ?_⟩
          simp [mapPat, PatElem.mapS, at_spanBytes hat, hmap]
      simp only [finishElements, hLi, if_false, hLe]
      exact key (effStart c a ind role) hba hat hlast

/-! ## what follows a pattern, and the end of the loop -/

/-- a line on which `get_pattern` stops: end of input, a byte in column 0 that is no blank / line end
/ `{`, or an indented `.`, `[`, `*`, `}` -/
def Stopper (s : Src) (q : Nat) : Prop :=
  s.size ≤ q ∨ (∃ b, s[q]? = some b ∧ b ≠ 32 ∧ b ≠ 10 ∧ b ≠ 13 ∧ b ≠ 123) ∨
    (∃ k b, 0 < k ∧ (∀ j, j < k → s[q + j]? = some 32) ∧ s[q + k]? = some b ∧ (b = 46 ∨ b = 91 ∨ b = 42 ∨ b = 125))

/-- empty lines, then a stopper line at `q'` -/
def PatFollow (s : Src) (q q' : Nat) : Prop :=
  q ≤ q' ∧ (∀ j, q ≤ j → j < q' → s[j]? = some 10) ∧ Stopper s q'

theorem patternLoop_stop (s : Src) (n : Nat) (st : PatState) (q : Nat) (hrole : st.role = .lineStart)
    (h : Stopper s q) : getPatternLoop s (n + 1) st q = .ok st q := by
  rcases h with h | ⟨b, hb, b1, b2, b3, b4⟩ | ⟨k, b, hk, hsp, hb, hbb⟩
  · exact patternLoop_end s n st q hrole (Or.inl h)
  · exact patternLoop_end s n st q hrole (Or.inr ⟨b, hb, b4, b1, b2, b3⟩)
  · have hp0 : s[q]? = some 32 := by have := hsp 0 hk; simpa using this
    have hlt := get_lt hp0
    have h123 : isCurrentByte s q 123 = false := by simp [isCurrentByte, hp0]
    have hb32 : b ≠ 32 := by rcases hbb with rfl | rfl | rfl | rfl <;> decide
    have hsbi : skipBlankInline s q = q + k := skipBlankInline_run s k q hsp (by rw [hb]; simpa using hb32)
    have hnc : isBytePatternContinuation b = false := by rcases hbb with rfl | rfl | rfl | rfl <;> decide
    have hne : (k == 0) = false := by simp; omega
    rw [getPatternLoop]
    simp only [hlt, if_true, h123, Bool.false_eq_true, if_false, hrole, beq_self_eq_true, hsbi, Nat.add_sub_cancel_left,
      hb, hne, hnc, Bool.not_false]

theorem patternLoop_blank (s : Src) (n : Nat) (st : PatState) (q : Nat) (hrole : st.role = .lineStart)
    (h10 : s[q]? = some 10) :
    getPatternLoop s (n + 1) st q =
      getPatternLoop s n { st with elements := st.elements ++ [.text q (q + 1) 0 .lineStart] } (q + 1) := by
  have hlt := get_lt h10
  have h123 : isCurrentByte s q 123 = false := by simp [isCurrentByte, h10]
  have hsbi : skipBlankInline s q = q := skipBlankInline_stay s q (by rw [h10]; decide)
  have heol : isEol s q = true := by simp [isEol, h10]
  rw [getPatternLoop]
  simp only [hlt, if_true, h123, Bool.false_eq_true, if_false, hrole, beq_self_eq_true, hsbi, Nat.sub_self, h10,
    heol, Bool.not_true, getTextSlice_nl s q h10]
  simp [usub]

theorem patternLoop_finish (s : Src) (q' : Nat) : ∀ (d n q : Nat) (st : PatState), st.role = .lineStart →
    q + d = q' → (∀ j, q ≤ j → j < q' → s[j]? = some 10) → Stopper s q' → d + 1 ≤ n →
    ∃ tr, getPatternLoop s n st q =
      .ok ⟨st.elements ++ tr, st.lastNonBlank, st.commonIndent, .lineStart, st.keptCommonIndent⟩ q' := by
  intro d
  induction d with
  | zero =>
    intro n q st hrole hq _ hstop hn
    obtain ⟨m, rfl⟩ : ∃ m, n = m + 1 := ⟨n - 1, by omega⟩
    have : q = q' := by omega
    subst this
    refine ⟨[], ?_⟩
    rw [patternLoop_stop s m st q hrole hstop]
    cases st; simp_all
  | succ d ih =>
    intro n q st hrole hq h10 hstop hn
    obtain ⟨m, rfl⟩ : ∃ m, n = m + 1 := ⟨n - 1, by omega⟩
    rw [patternLoop_blank s m st q hrole (h10 q (Nat.le_refl _) (by omega))]
    obtain ⟨tr, htr⟩ := ih m (q + 1) { st with elements := st.elements ++ [.text q (q + 1) 0 .lineStart] } hrole
      (by omega) (fun j h1 h2 => h10 j (by omega) h2) hstop (by omega)
    exact ⟨.text q (q + 1) 0 .lineStart :: tr, by rw [htr]; simp⟩

/-! ## text elements of the class under `get_text_slice` -/

theorem mlTextOK_ne {v : Bytes} (h : mlTextOK v = true) : v ≠ [] := by
  intro h0; subst h0; simp [mlTextOK] at h

theorem mlTextOK_mem {v : Bytes} (h : mlTextOK v = true) : ∀ b ∈ v, b ≠ 13 ∧ b ≠ 123 ∧ b ≠ 125 := by
  intro b hb
  simp only [mlTextOK, Bool.and_eq_true, List.all_eq_true] at h
  have := h.1.2 b hb
  simpa [and_assoc] using this

theorem mlTextOK_init {v : Bytes} (h : mlTextOK v = true) : ∀ b ∈ v.dropLast, b ≠ 10 := by
  intro b hb
  simp only [mlTextOK, Bool.and_eq_true, List.all_eq_true] at h
  simpa using h.2 b hb

/-- a text without final `\n` is a `validText` -/
theorem validText_of_ml {v : Bytes} (h : mlTextOK v = true) (hn : endsNl v = false) : validText v = true := by
  have hne := mlTextOK_ne h
  simp only [validText, Bool.and_eq_true, Bool.not_eq_true', List.isEmpty_eq_false_iff, List.all_eq_true]
  refine ⟨hne, ?_⟩
  intro b hb
  obtain ⟨h1, h2, h3⟩ := mlTextOK_mem h b hb
  have h10 : b ≠ 10 := by
    intro h0; subst h0
    have hd := dropLast_snoc_exists v hne
    obtain ⟨x, hx⟩ := hd
    rw [hx] at hb
    simp only [List.mem_append, List.mem_singleton] at hb
    rcases hb with hb | rfl
    · exact mlTextOK_init h 10 hb rfl
    · have : v.getLast? = some 10 := by rw [hx]; simp
      simp [endsNl, this] at hn
  simp [h1, h2, h3, h10]
where
  dropLast_snoc_exists (v : Bytes) (hne : v ≠ []) : ∃ x, v = v.dropLast ++ [x] := by
    cases hl : v.getLast? with
    | none => simp at hl; exact absurd hl hne
    | some x => exact ⟨x, dropLast_snoc_self v x hl⟩
  dropLast_snoc_self (l : Bytes) (x : UInt8) (h : l.getLast? = some x) : l = l.dropLast ++ [x] := by
    induction l with
    | nil => simp at h
    | cons a as ih =>
      cases as with
      | nil => simp at h; simp [h]
      | cons b bs =>
        rw [List.getLast?_cons_cons] at h
        rw [List.dropLast_cons_cons, List.cons_append, ← ih h]

theorem mlSlice_brace (s : Src) (v : Bytes) (hv : mlTextOK v = true) (hn : endsNl v = false) (pc : Nat)
    (h : At s pc v) (hc : s[pc + v.length]? = some 123) :
    getTextSlice s pc = .ok (pc, pc + v.length, v.any (fun b => b != 32), .placeableStart) (pc + v.length) :=
  getTextSlice_brace s v (validText_of_ml hv hn) pc h hc

theorem mlSlice_last (s : Src) (v : Bytes) (hv : mlTextOK v = true) (hn : endsNl v = false) (pc : Nat)
    (h : At s pc v) (hc : s[pc + v.length]? = some 10) :
    getTextSlice s pc = .ok (pc, pc + v.length + 1, v.any (fun b => b != 32), .lineFeed) (pc + v.length + 1) :=
  getTextSlice_lf s v (validText_of_ml hv hn) pc h hc

theorem mlSlice_nl (s : Src) (v : Bytes) (hv : mlTextOK v = true) (hn : endsNl v = true) (pc : Nat)
    (h : At s pc v) :
    getTextSlice s pc = .ok (pc, pc + v.length, v.dropLast.any (fun b => b != 32), .lineFeed) (pc + v.length) := by
  have hne := mlTextOK_ne hv
  have hl : v.getLast? = some 10 := by simpa [endsNl] using hn
  have hx := validText_of_ml.dropLast_snoc_self v 10 hl
  rw [hx, at_append] at h
  simp only [at_cons] at h
  have hlen : v.length = v.dropLast.length + 1 := by
    have := congrArg List.length hx; simpa using this
  by_cases h0 : v.dropLast = []
  · rw [h0] at h hlen ⊢
    simp only [List.length_nil, Nat.add_zero] at h
    rw [getTextSlice_nl s pc h.2.1, hlen]
    simp
  · have hv0 : validText v.dropLast = true := by
      simp only [validText, Bool.and_eq_true, Bool.not_eq_true', List.isEmpty_eq_false_iff, List.all_eq_true]
      refine ⟨h0, fun b hb => ?_⟩
      have h1 := mlTextOK_mem hv b (by rw [hx]; simp [hb])
      have h2 := mlTextOK_init hv b hb
      simp [h1.1, h1.2.1, h1.2.2, h2]
    rw [getTextSlice_lf s v.dropLast hv0 pc h.1 h.2.1, hlen]
    simp [Nat.add_assoc]

theorem trimEndGo_first (s : Src) (a : Nat) (c : UInt8) (hc : s[a]? = some c) (h1 : c ≠ 32) (h2 : c ≠ 13) (h3 : c ≠ 10) :
    ∀ n b, a < b → a < trimEndGo s a n b := by
  intro n
  induction n with
  | zero => intro b hb; simpa [trimEndGo] using hb
  | succ n ih =>
    intro b hb
    rw [trimEndGo]
    simp only [hb, if_true]
    cases hx : s[b - 1]? with
    | none => simpa using hb
    | some x =>
      simp only []
      split
      · rename_i ht
        by_cases hba : b - 1 = a
        · rw [hba, hc] at hx; cases hx
          simp [h1, h2, h3] at ht
        · exact ih (b - 1) (by omega)
      · exact hb

/-- a slice whose first byte is kept by `trim` survives -/
theorem trimEnd_first (s : Src) (a b : Nat) (c : UInt8) (hab : a < b) (hc : s[a]? = some c) (h1 : c ≠ 32)
    (h2 : c ≠ 13) (h3 : c ≠ 10) : ((trimEnd s ⟨a, b⟩).stop != a) = true := by
  have := trimEndGo_first s a c hc h1 h2 h3 (b - a) b hab
  simp only [trimEnd, bne_iff_ne, ne_eq]
  omega

theorem mlTextOK_drop {v : Bytes} (hv : mlTextOK v = true) (k : Nat) (hk : k < v.length) : mlTextOK (v.drop k) = true := by
  simp only [mlTextOK, Bool.and_eq_true, Bool.not_eq_true', List.isEmpty_eq_false_iff, List.all_eq_true] at hv ⊢
  refine ⟨⟨?_, fun b hb => hv.1.2 b (List.mem_of_mem_drop hb)⟩, ?_⟩
  · intro h0; have := congrArg List.length h0; simp at this; omega
  · intro b hb
    apply hv.2 b
    rw [List.dropLast_eq_take] at hb ⊢
    have : b ∈ (v.drop k).take ((v.drop k).length - 1) := hb
    rw [List.length_drop] at this
    have h2 : (v.drop k).take (v.length - k - 1) = (v.take (v.length - 1)).drop k := by
      rw [List.drop_take]; congr 1; omega
    rw [h2] at this
    exact List.mem_of_mem_drop this

theorem leadSpaces_split (v : Bytes) : v = spacesL (leadSpaces v) ++ v.dropWhile (fun b => b == 32) := by
  have h1 : v.takeWhile (fun b => b == 32) = spacesL (leadSpaces v) := by
    unfold leadSpaces spacesL
    apply List.eq_replicate_iff.mpr
    refine ⟨rfl, fun b hb => ?_⟩
    have := mem_takeWhile_pred _ _ b hb
    simpa using this
  rw [← h1, List.takeWhile_append_dropWhile]

theorem dropWhile_eq_drop (v : Bytes) : v.dropWhile (fun b => b == 32) = v.drop (leadSpaces v) := by
  have := leadSpaces_split v
  have h2 : (spacesL (leadSpaces v) ++ v.dropWhile (fun b => b == 32)).drop (leadSpaces v) =
      v.dropWhile (fun b => b == 32) := by
    rw [List.drop_append_of_le_length (by simp [spacesL])]
    simp [spacesL]
  rw [← this] at h2
  exact h2.symm

theorem at_spaces (s : Src) (p n : Nat) (h : At s p (spacesL n)) : ∀ j, j < n → s[p + j]? = some 32 := by
  intro j hj
  have := at_get h j (by simpa [spacesL] using hj)
  simpa [spacesL] using this

/-! ## the state after a line-start iteration -/

theorem getTextSlice_at_brace (s : Src) (p : Nat) (hc : s[p]? = some 123) :
    getTextSlice s p = .ok (p, p, false, .placeableStart) p := by
  have hlt := get_lt hc
  unfold getTextSlice
  simp only [show ¬ p > s.size by omega, if_false]
  have : memchr3 s p = some p := by
    have := memchr3_at s [] p (by simp) (by simp) 123 (by simpa using hc) (by decide)
    simpa using this
  rw [this]
  simp only [hc]
  simp [nonBlank, nonBlankGo]

theorem st2Of_content (s : Src) (st : PatState) (p I k stop : Nat) (term : Termination)
    (hrole : st.role = .lineStart) (hne : p + (I + k) < stop)
    (hsl : slice s (p + (I + k)) stop = some ⟨p + (I + k), stop⟩) :
    st2Of s st p (I + k) (p + (I + k)) stop true term =
      some ⟨st.elements ++ [.text p stop (I + k) .lineStart],
        (if (trimEnd s ⟨p + (I + k), stop⟩).stop != p + (I + k) then some st.elements.length else st.lastNonBlank),
        ciStep I st.commonIndent k, .lineStart,
        (if (trimEnd s ⟨p + (I + k), stop⟩).stop != p + (I + k) then ciStep I st.commonIndent k
          else st.keptCommonIndent)⟩ := by
  have h1 : (p + (I + k) != stop) = true := by simp; omega
  simp only [st2Of, elOf, survivesOf, hrole, h1, Bool.true_or, if_true, beq_self_eq_true, Bool.true_and, Bool.or_true,
    Bool.not_true, Bool.false_and, Bool.false_eq_true, if_false, hsl, Option.map_some, ciStep]
  cases st.commonIndent <;> rfl

theorem st2Of_blank (s : Src) (st : PatState) (p ind p1 : Nat) (hrole : st.role = .lineStart) :
    st2Of s st p ind p1 (p1 + 1) false .lineFeed =
      some { st with elements := st.elements ++ [.text p1 (p1 + 1) 0 .lineStart] } := by
  have h1 : (p1 != p1 + 1) = true := by simp
  simp [st2Of, elOf, survivesOf, hrole, h1, usub]

theorem st2Of_led (s : Src) (st : PatState) (p I k : Nat) (hrole : st.role = .lineStart) :
    st2Of s st p (I + k) (p + (I + k)) (p + (I + k)) false .placeableStart =
      some ⟨st.elements ++ [.text p (p + (I + k)) (I + k) .lineStart], st.lastNonBlank,
        ciStep I st.commonIndent k, .lineStart, st.keptCommonIndent⟩ := by
  simp only [st2Of, elOf, survivesOf, hrole, bne_self_eq_false, beq_self_eq_true, Bool.true_and, Bool.false_or,
    if_true, Bool.or_true, Bool.not_true, Bool.and_false, Bool.false_eq_true, if_false, ciStep]
  cases st.commonIndent <;> rfl

/-! ## the loop over the elements of a class pattern -/

/-- writer state: indent level, buffer does not end with `\r`, and whether it ends with `\n` -/
def WS (w : Writer) (L : Nat) (nl : Bool) : Prop := w.indentLevel = L ∧ endsWith w 13 = false ∧ endsWith w 10 = nl

/-- round-trip property of a placeable element written at indent level `L` -/
structure PlRT (L : Nat) (x : Expr Bytes) : Prop where
  head : (exprText L x).head? = some 123
  last : (exprText L x).getLast? = some 125
  ser : ∀ (w : Writer) (nl : Bool), WS w L nl →
    ∃ w', serElement w (.placeable x) = some w' ∧
      w'.buffer = w.buffer ++ ((if nl then spacesL (4 * L) else []) ++ exprText L x).toArray ∧ WS w' L false
  parse : ∀ (s : Src) (p n : Nat), AsciiThenBoundary s → At s p (exprText L x) → 4 * (exprText L x).length + 11 ≤ n →
    ∃ ex, getPlaceable s n (p + 1) = .ok ex (p + (exprText L x).length) ∧ ex.mapS (spanBytes s) = x

theorem mlRole_false {r : TextPos} (h : mlRole false r) : (r == .lineStart) = false := by simpa [mlRole] using h
theorem mlRole_true {r : TextPos} (h : mlRole true r) : r = .lineStart := by simpa [mlRole] using h

theorem isMultiline_tail {e : PatElem Bytes} {es : List (PatElem Bytes)} (h : isMultiline (e :: es) = false) :
    isMultiline es = false := by
  cases e <;> simp [isMultiline] at h <;> exact h.2

theorem mlLastOK_tail {e : PatElem Bytes} {es : List (PatElem Bytes)} (h : mlLastOK (e :: es) = true) :
    mlLastOK es = true := by
  cases es with
  | nil => rfl
  | cons r rs => cases e <;> simpa [mlLastOK] using h

/-- the base case: after the last element comes the line feed, blank lines and a stopper -/
theorem mlLoop_nil {s : Src} (hs : AsciiThenBoundary s) (n p q' : Nat) (st : PatState)
    (hrole : (st.role == .lineStart) = false) (hb : Bnd s p) (h10 : s[p]? = some 10)
    (hf : PatFollow s (p + 1) q') (hn : (q' - p) + 3 ≤ n) :
    ∃ tr, getPatternLoop s n st p =
      .ok ⟨st.elements ++ tr, st.lastNonBlank, st.commonIndent, .lineStart, st.keptCommonIndent⟩ q' := by
  obtain ⟨m, rfl⟩ : ∃ m, n = m + 1 := ⟨n - 1, by omega⟩
  have hts := getTextSlice_nl s p h10
  have hsl : slice s p (p + 1) = some ⟨p, p + 1⟩ := slice_ok (by omega) hb (bnd_succ hs h10 (by decide))
  rw [patternLoop_text_step s m st p (p + 1) (p + 1) false .lineFeed (get_lt h10) (by rw [h10]; decide)
    hrole hts (by omega) hsl]
  obtain ⟨hle, h10s, hstop⟩ := hf
  obtain ⟨tr, htr⟩ := patternLoop_finish s q' (q' - (p + 1)) m (p + 1)
    ⟨st.elements ++ [.text p (p + 1) 0 st.role], st.lastNonBlank, st.commonIndent, roleOf .lineFeed, st.keptCommonIndent⟩
    rfl (by omega) h10s hstop (by omega)
  refine ⟨.text p (p + 1) 0 st.role :: tr, ?_⟩
  simp only [Bool.false_and, Bool.false_eq_true, if_false]
  rw [htr]
  simp

theorem cont_of_start : ∀ c : UInt8, contentStartOK c = true → c ≠ 125 → isBytePatternContinuation c = true ∧ c ≠ 32 := by
  apply forall_uint8; decide +kernel

/-- line-start iteration on a text with content -/
theorem step_ls_content (s : Src) (n : Nat) (st : PatState) (p I k : Nat) (c : UInt8) (stop q : Nat)
    (term : Termination) (hrole : st.role = .lineStart) (hI : 0 < I)
    (hsp : ∀ j, j < I + k → s[p + j]? = some 32) (hc : s[p + (I + k)]? = some c) (hc32 : c ≠ 32)
    (hcont : isBytePatternContinuation c = true)
    (hts : getTextSlice s (p + (I + k)) = .ok (p + (I + k), stop, true, term) q) (hne : p + (I + k) < stop)
    (hsl : slice s (p + (I + k)) stop = some ⟨p + (I + k), stop⟩) :
    getPatternLoop s (n + 1) st p =
      getPatternLoop s n ⟨st.elements ++ [.text p stop (I + k) .lineStart],
        (if (trimEnd s ⟨p + (I + k), stop⟩).stop != p + (I + k) then some st.elements.length else st.lastNonBlank),
        ciStep I st.commonIndent k, roleOf term,
        (if (trimEnd s ⟨p + (I + k), stop⟩).stop != p + (I + k) then ciStep I st.commonIndent k
          else st.keptCommonIndent)⟩ q := by
  rw [patternLoop_ls_step s n st p (I + k) c stop q true term hrole (by omega) hsp hc hc32 hcont hts,
    st2Of_content s st p I k stop term hrole hne hsl]

/-- line-start iteration on a blank line -/
theorem step_ls_blank (s : Src) (n : Nat) (st : PatState) (p I : Nat) (hrole : st.role = .lineStart) (hI : 0 < I)
    (hsp : ∀ j, j < I → s[p + j]? = some 32) (h10 : s[p + I]? = some 10) :
    getPatternLoop s (n + 1) st p =
      getPatternLoop s n ⟨st.elements ++ [.text (p + I) (p + I + 1) 0 .lineStart], st.lastNonBlank, st.commonIndent,
        .lineStart, st.keptCommonIndent⟩ (p + I + 1) := by
  rw [patternLoop_ls_step s n st p I 10 (p + I + 1) (p + I + 1) false .lineFeed hrole hI hsp h10 (by decide) (by decide)
    (getTextSlice_nl s (p + I) h10), st2Of_blank s st p I (p + I) hrole]
  rfl

/-- line-start iteration in front of a placeable -/
theorem step_ls_led (s : Src) (n : Nat) (st : PatState) (p I k : Nat) (hrole : st.role = .lineStart) (hI : 0 < I)
    (hsp : ∀ j, j < I + k → s[p + j]? = some 32) (hc : s[p + (I + k)]? = some 123) :
    getPatternLoop s (n + 1) st p =
      getPatternLoop s n ⟨st.elements ++ [.text p (p + (I + k)) (I + k) .lineStart], st.lastNonBlank,
        ciStep I st.commonIndent k, .continuation, st.keptCommonIndent⟩ (p + (I + k)) := by
  rw [patternLoop_ls_step s n st p (I + k) 123 (p + (I + k)) (p + (I + k)) false .placeableStart hrole (by omega) hsp hc
    (by decide) (by decide) (getTextSlice_at_brace s _ hc), st2Of_led s st p I k hrole]
  rfl

theorem exprText_bnd {s : Src} (hs : AsciiThenBoundary s) {L : Nat} {x : Expr Bytes} (h : PlRT L x) {p : Nat}
    (hat : At s p (exprText L x)) : s[p]? = some 123 ∧ Bnd s (p + (exprText L x).length) := by
  refine ⟨at_head hat h.head, ?_⟩
  have hl := h.last
  have hx := validText_of_ml.dropLast_snoc_self _ _ hl
  rw [hx, at_append] at hat
  simp only [at_cons] at hat
  have := bnd_succ hs hat.2.1 (by decide)
  have hlen : (exprText L x).length = (exprText L x).dropLast.length + 1 := by
    have := congrArg List.length hx; simpa using this
  rw [hlen]; simpa [Nat.add_assoc] using this

theorem exprText_len {L : Nat} {x : Expr Bytes} (h : PlRT L x) : 1 ≤ (exprText L x).length := by
  have := h.head
  cases hx : exprText L x with
  | nil => simp [hx] at this
  | cons a as => simp

/-- what follows a text element of a class pattern -/
theorem ml_next (v : Bytes) (es : List (PatElem Bytes)) (nl : Bool) (hml : mlElems nl (.text v :: es) = true)
    (hlast : mlLastOK (.text v :: es) = true) :
    (endsNl v = true ∧ es ≠ []) ∨ (endsNl v = false ∧ es = [] ∧ ∃ x, v.getLast? = some x ∧ x ≠ 32 ∧ x ≠ 10 ∧ x ≠ 13) ∨
      (endsNl v = false ∧ ∃ x es', es = .placeable x :: es') := by
  simp only [mlElems, Bool.and_eq_true] at hml
  obtain ⟨⟨⟨hvok, hadj⟩, _⟩, _⟩ := hml
  cases hn : endsNl v
  · right
    cases es with
    | nil =>
      left
      refine ⟨rfl, rfl, ?_⟩
      have hne := mlTextOK_ne hvok
      cases hl : v.getLast? with
      | none => simp at hl; exact absurd hl hne
      | some x =>
        simp only [mlLastOK, hl, Bool.and_eq_true, bne_iff_ne, ne_eq, Option.some.injEq] at hlast
        exact ⟨x, rfl, hlast.1, hlast.2, (mlTextOK_mem hvok x (List.mem_of_getLast? hl)).1⟩
    | cons e es' =>
      right
      cases e with
      | text w => simp [hn] at hadj
      | placeable x => exact ⟨rfl, x, es', rfl⟩
  · left
    refine ⟨rfl, ?_⟩
    intro h0; subst h0
    simp only [endsNl, beq_iff_eq] at hn
    simp [mlLastOK, hn] at hlast

/-- **the `get_pattern` loop on the elements of a class pattern** written at level `L` -/
theorem mlLoop {s : Src} (hs : AsciiThenBoundary s) (L : Nat) (es : List (PatElem Bytes)) :
    ∀ (hpl : ∀ x, PatElem.placeable x ∈ es → PlRT L x) (nl : Bool) (n p q' : Nat) (st : PatState) (cfin : Option Nat),
      mlElems nl es = true → mlLastOK es = true → (es = [] → nl = false) → (0 < L ∨ isMultiline es = false) →
      (nl = true → 0 < L) → mlRole nl st.role →
      ciAfter (4 * L) st.commonIndent (excesses nl es) = cfin →
      (excesses nl es ≠ [] → cfin = some (4 * L)) → Bnd s p →
      At s p (elemsText L nl es ++ [10]) → PatFollow s (p + (elemsText L nl es).length + 1) q' →
      4 * (q' - p) + 8 ≤ n →
      ∃ phs tr, getPatternLoop s n st p =
          .ok ⟨st.elements ++ phs ++ tr,
            (if es.isEmpty then st.lastNonBlank else some (st.elements.length + phs.length - 1)),
            cfin, .lineStart, (if es.isEmpty then st.keptCommonIndent else cfin)⟩ q' ∧ MPh s cfin phs es := by
  induction es with
  | nil =>
    intro _ nl n p q' st cfin _ _ hnl _ _ hrole hci _ hb hat hf hn
    have hq' := hf.1
    have : nl = false := hnl rfl
    subst this
    simp only [elemsText, List.nil_append, at_cons, List.length_nil, Nat.add_zero] at hat hf hq'
    simp only [excesses, ciAfter] at hci
    obtain ⟨tr, htr⟩ := mlLoop_nil hs n p q' st (mlRole_false hrole) hb hat.1 hf (by omega)
    exact ⟨[], tr, by rw [htr, ← hci]; simp, by simp [MPh]⟩
  | cons e es ih =>
    intro hpl nl n p q' st cfin hml hlast _ hL hnlL hrole hci hcf hb hat hf hn
    have hq' := hf.1
    have hpl' : ∀ x, PatElem.placeable x ∈ es → PlRT L x := fun x hx => hpl x (List.mem_cons_of_mem _ hx)
    have ih' := ih hpl'
    have hlast' := mlLastOK_tail hlast
    obtain ⟨m, rfl⟩ : ∃ m, n = m + 1 := ⟨n - 1, by omega⟩
    cases e with
    | placeable x =>
      have hx := hpl x (List.mem_cons_self)
      have hml' : mlElems false es = true := by simpa [mlElems] using hml
      have hL' : 0 < L ∨ isMultiline es = false := by
        rcases hL with h | h
        · exact Or.inl h
        · exact Or.inr (isMultiline_tail h)
      cases nl with
      | false =>
        simp only [elemsText, Bool.false_eq_true, if_false, List.nil_append, List.append_assoc, List.length_append] at hat hf hq'
        rw [at_append] at hat
        obtain ⟨h123, hbq⟩ := exprText_bnd hs hx hat.1
        obtain ⟨ex, hpe, hme⟩ := hx.parse s p m hs hat.1 (by omega)
        rw [patternLoop_placeable_step s m st p ex _ h123 (mlRole_false hrole) hpe]
        have hxl := exprText_len hx
        simp only [excesses, Bool.false_eq_true, if_false, List.nil_append] at hci hcf
        obtain ⟨phs, tr, hloop, hrel⟩ := ih' false m _ q'
          ⟨st.elements ++ [.placeable ex], some st.elements.length, st.commonIndent, .continuation, st.commonIndent⟩ cfin
          hml' hlast' (fun _ => rfl) hL' (fun h => by cases h) (by simp [mlRole]) hci hcf hbq hat.2
          (by rw [← Nat.add_assoc] at hf; exact hf) (by omega)
        refine ⟨.placeable ex :: phs, tr, ?_, ?_⟩
        · rw [hloop]
          simp only [List.append_assoc, List.singleton_append, List.length_append, List.length_cons, List.length_nil,
            List.isEmpty_cons]
          cases es with
          | nil =>
            simp only [MPh] at hrel; subst hrel
            simp only [excesses, ciAfter] at hci
            simp [hci]
          | cons e2 rest =>
            have := MPh_ne hrel (by simp)
            simp only [List.isEmpty_cons, Bool.false_eq_true, if_false]
            congr 2
            cases phs with
            | nil => exact absurd rfl this
            | cons _ _ => simp; omega
        · simp only [MPh]; exact Or.inl ⟨ex, phs, rfl, hme, hrel⟩
      | true =>
        have hLp := hnlL rfl
        simp only [elemsText, if_true, List.append_assoc, List.length_append] at hat hf hq'
        rw [at_append, at_append] at hat
        obtain ⟨hsp0, hatx, hrest⟩ := hat
        have hspl : (spacesL (4 * L)).length = 4 * L := by simp [spacesL]
        rw [hspl] at hatx hrest hf hq'
        have hsp := at_spaces s p (4 * L) hsp0
        obtain ⟨h123, hbq⟩ := exprText_bnd hs hx hatx
        obtain ⟨m2, rfl⟩ : ∃ m2, m = m2 + 1 := ⟨m - 1, by have := exprText_len hx; omega⟩
        rw [step_ls_led s (m2 + 1) st p (4 * L) 0 (mlRole_true hrole) (by omega) (by simpa using hsp)
          (by simpa using h123)]
        simp only [Nat.add_zero]
        obtain ⟨ex, hpe, hme⟩ := hx.parse s (p + 4 * L) m2 hs hatx (by omega)
        rw [patternLoop_placeable_step s m2 _ (p + 4 * L) ex _ h123 rfl hpe]
        have hxl := exprText_len hx
        simp only [excesses, if_true, List.singleton_append, ciAfter] at hci hcf
        have hcfin : cfin = some (4 * L) := hcf (by simp)
        obtain ⟨phs, tr, hloop, hrel⟩ := ih' false m2 _ q'
          ⟨st.elements ++ [.text p (p + 4 * L) (4 * L) .lineStart] ++ [.placeable ex],
            some (st.elements ++ [Placeholder.text p (p + 4 * L) (4 * L) .lineStart]).length,
            ciStep (4 * L) st.commonIndent 0, .continuation, ciStep (4 * L) st.commonIndent 0⟩ cfin
          hml' hlast' (fun _ => rfl) hL' (fun h => by cases h) (by simp [mlRole]) hci (fun _ => hcfin) hbq hrest
          (by rw [← Nat.add_assoc, ← Nat.add_assoc] at hf; exact hf) (by omega)
        refine ⟨.text p (p + 4 * L) (4 * L) .lineStart :: .placeable ex :: phs, tr, ?_, ?_⟩
        · rw [hloop]
          simp only [List.append_assoc, List.singleton_append, List.length_append, List.length_cons, List.length_nil,
            List.isEmpty_cons, List.cons_append, List.nil_append]
          cases es with
          | nil =>
            simp only [MPh] at hrel; subst hrel
            simp only [excesses, ciAfter] at hci
            simp [hci]
          | cons e2 rest =>
            have := MPh_ne hrel (by simp)
            simp only [List.isEmpty_cons, Bool.false_eq_true, if_false]
            congr 2
            cases phs with
            | nil => exact absurd rfl this
            | cons _ _ => simp; omega
        · simp only [MPh]
          refine Or.inr ⟨p, p + 4 * L, 4 * L, ex, phs, rfl, ?_, hme, hrel⟩
          simp [effStart, hcfin]
    | text v =>
      have hnext := ml_next v es nl hml hlast
      simp only [mlElems, Bool.and_eq_true] at hml
      obtain ⟨⟨⟨hvok, hadj⟩, hls⟩, hml'⟩ := hml
      have hvne := mlTextOK_ne hvok
      have hvlen : 0 < v.length := by cases v <;> simp_all
      have hL' : 0 < L ∨ isMultiline es = false := by
        rcases hL with h | h
        · exact Or.inl h
        · exact Or.inr (isMultiline_tail h)
      have hLnl : endsNl v = true → 0 < L := by
        intro hnv
        rcases hL with h | h
        · exact h
        · simp only [isMultiline, Bool.or_eq_false_iff] at h
          have h10 : (10 : UInt8) ∈ v := by
            have : v.getLast? = some 10 := by simpa [endsNl] using hnv
            exact List.mem_of_getLast? this
          have := h.1
          rw [List.contains_eq_mem] at this
          simp [h10] at this
      cases nl with
      | false =>
        have hroleF := mlRole_false hrole
        simp only [elemsText, Bool.false_eq_true, if_false, List.nil_append, List.append_assoc, List.length_append] at hat hf hq'
        rw [at_append] at hat
        obtain ⟨hatv, hrest⟩ := hat
        simp only [excesses, Bool.false_and, Bool.false_eq_true, if_false, List.nil_append] at hci hcf
        have hp0 : s[p]? ≠ some 123 := by
          have hg := at_get hatv 0 hvlen
          rw [Nat.add_zero] at hg
          rw [hg]
          have := (mlTextOK_mem hvok _ (List.getElem_mem hvlen)).2.1
          simpa using this
        have hplt : p < s.size := by
          have hg := at_get hatv 0 hvlen
          rw [Nat.add_zero] at hg; exact get_lt hg
        have heff : effStart cfin p 0 st.role = p := by simp [effStart, hroleF]
        rcases hnext with ⟨hnv, hes⟩ | ⟨hnv, hes, x, hx, x1, x2, x3⟩ | ⟨hnv, x, es', hes⟩
        · -- the text ends its line
          have hts := mlSlice_nl s v hvok hnv p hatv
          have hlf : s[p + v.length - 1]? = some 10 := by
            have hg := at_get hatv (v.length - 1) (by omega)
            rw [show p + (v.length - 1) = p + v.length - 1 by omega] at hg
            rw [hg]
            have : v.getLast? = some 10 := by simpa [endsNl] using hnv
            rw [List.getLast?_eq_getElem?, List.getElem?_eq_getElem (by omega)] at this
            exact this
          have hb2 : Bnd s (p + v.length) := by
            have := bnd_succ hs hlf (by decide)
            rwa [show p + v.length - 1 + 1 = p + v.length by omega] at this
          have hsl := slice_ok (show p ≤ p + v.length by omega) hb hb2
          rw [patternLoop_text_step s m st p _ _ _ .lineFeed hplt hp0 hroleF hts (by omega) hsl]
          obtain ⟨phs, tr, hloop, hrel⟩ := ih' true m _ q'
            ⟨st.elements ++ [.text p (p + v.length) 0 st.role], _, st.commonIndent, roleOf .lineFeed, _⟩ cfin
            (by rw [hnv] at hml'; exact hml') hlast' (fun h => absurd h hes) hL' (fun _ => hLnl hnv) (by simp [mlRole, roleOf])
            (by rw [hnv] at hci; exact hci) (by rw [hnv] at hcf; exact hcf) hb2 (by rw [hnv] at hrest; exact hrest)
            (by rw [hnv] at hf; rw [← Nat.add_assoc] at hf; exact hf) (by rw [hnv] at hq'; omega)
          have hesE : es.isEmpty = false := by
            cases es with
            | nil => exact absurd rfl hes
            | cons _ _ => rfl
          refine ⟨.text p (p + v.length) 0 st.role :: phs, tr, ?_, ?_⟩
          · rw [hloop]
            have := MPh_ne hrel hes
            simp only [hesE, Bool.false_eq_true, if_false, List.append_assoc, List.singleton_append, List.length_append,
              List.length_cons, List.length_nil, List.isEmpty_cons]
            congr 2
            cases phs with
            | nil => exact absurd rfl this
            | cons _ _ => simp; omega
          · simp only [MPh]
            refine ⟨p, p + v.length, 0, st.role, phs, rfl, ⟨?_, hb2, ?_, hvne, ?_⟩, hrel⟩
            · rw [heff]; exact hb
            · rw [heff]; exact hatv
            · simp [hesE, heff]
        · -- the last element
          subst hes
          simp only [elemsText, List.nil_append, at_cons, List.length_nil, Nat.add_zero] at hrest hf hq'
          have h10 := hrest.1
          have hts := mlSlice_last s v hvok hnv p hatv h10
          have hb2 : Bnd s (p + v.length + 1) := bnd_succ hs h10 (by decide)
          have hsl := slice_ok (show p ≤ p + v.length + 1 by omega) hb hb2
          rw [patternLoop_text_step s m st p _ _ _ .lineFeed hplt hp0 hroleF hts (by omega) hsl]
          have hsc : s[p + v.length - 1]? = some x := by
            have hg := at_get hatv (v.length - 1) (by omega)
            rw [show p + (v.length - 1) = p + v.length - 1 by omega] at hg
            rw [hg]
            rw [List.getLast?_eq_getElem?, List.getElem?_eq_getElem (by omega)] at hx
            exact hx
          have htrim := trimEnd_lf s p (p + v.length) x (by omega) h10 hsc x1 x3 x2
          obtain ⟨hle, h10s, hstop⟩ := hf
          obtain ⟨tr, htr⟩ := patternLoop_finish s q' (q' - (p + v.length + 1)) m (p + v.length + 1)
            ⟨st.elements ++ [.text p (p + v.length + 1) 0 st.role], _, st.commonIndent, roleOf .lineFeed, _⟩
            rfl (by omega) h10s hstop (by omega)
          simp only [excesses, ciAfter] at hci
          refine ⟨[.text p (p + v.length + 1) 0 st.role], tr, ?_, ?_⟩
          · rw [htr]
            have h2 : (p + v.length != p) = true := by simp; omega
            simp [htrim, getLast_any_ne32 v x hx x1, h2, hci]
          · simp only [MPh]
            refine ⟨p, p + v.length + 1, 0, st.role, [], rfl, ⟨?_, hb2, ?_, hvne, ?_⟩, rfl⟩
            · rw [heff]; exact hb
            · rw [heff]; exact hatv
            · simp only [List.isEmpty_nil, if_true, heff]
              exact ⟨trivial, h10, x, hx, x1, x2, x3⟩
        · -- a placeable follows
          subst hes
          have hxp := hpl' x (List.mem_cons_self)
          have h123 : s[p + v.length]? = some 123 := by
            simp only [elemsText, Bool.false_eq_true, if_false, List.nil_append, List.append_assoc] at hrest
            rw [hnv] at hrest
            simp only [elemsText, Bool.false_eq_true, if_false, List.nil_append, List.append_assoc] at hrest
            rw [at_append] at hrest
            exact at_head hrest.1 hxp.head
          have hts := mlSlice_brace s v hvok hnv p hatv h123
          have hb2 : Bnd s (p + v.length) := bnd_of_ascii h123 (by decide)
          have hsl := slice_ok (show p ≤ p + v.length by omega) hb hb2
          rw [patternLoop_text_step s m st p _ _ _ .placeableStart hplt hp0 hroleF hts (by omega) hsl]
          obtain ⟨phs, tr, hloop, hrel⟩ := ih' false m _ q'
            ⟨st.elements ++ [.text p (p + v.length) 0 st.role], _, st.commonIndent, roleOf .placeableStart, _⟩ cfin
            (by rw [hnv] at hml'; exact hml') hlast' (fun h => by cases h) hL' (fun h => by cases h) (by simp [mlRole, roleOf])
            (by rw [hnv] at hci; exact hci) (by rw [hnv] at hcf; exact hcf) hb2 (by rw [hnv] at hrest; exact hrest)
            (by rw [hnv] at hf; rw [← Nat.add_assoc] at hf; exact hf) (by rw [hnv] at hq'; omega)
          refine ⟨.text p (p + v.length) 0 st.role :: phs, tr, ?_, ?_⟩
          · rw [hloop]
            have := MPh_ne hrel (by simp)
            simp only [List.isEmpty_cons, Bool.false_eq_true, if_false, List.append_assoc, List.singleton_append,
              List.length_append, List.length_cons, List.length_nil]
            congr 2
            cases phs with
            | nil => exact absurd rfl this
            | cons _ _ => simp; omega
          · simp only [MPh]
            refine ⟨p, p + v.length, 0, st.role, phs, rfl, ⟨?_, hb2, ?_, hvne, ?_⟩, hrel⟩
            · rw [heff]; exact hb
            · rw [heff]; exact hatv
            · simp [heff]
      | true =>
        have hLp := hnlL rfl
        have hroleT := mlRole_true hrole
        simp only [elemsText, if_true, List.append_assoc, List.length_append] at hat hf hq'
        rw [at_append, at_append] at hat
        obtain ⟨hsp0, hatv, hrest⟩ := hat
        have hspl : (spacesL (4 * L)).length = 4 * L := by simp [spacesL]
        rw [hspl] at hatv hrest hf hq'
        have hsp := at_spaces s p (4 * L) hsp0
        have hbI : Bnd s (p + 4 * L) := by
          have := hsp (4 * L - 1) (by omega)
          have := bnd_succ hs this (by decide)
          rwa [show p + (4 * L - 1) + 1 = p + 4 * L by omega] at this
        by_cases hblank : v = [10]
        · -- a blank line
          subst hblank
          simp only [at_cons] at hatv
          have hes : es ≠ [] := by
            rcases hnext with ⟨_, h⟩ | ⟨h, _⟩ | ⟨h, _⟩
            · exact h
            · simp [endsNl] at h
            · simp [endsNl] at h
          rw [step_ls_blank s m st p (4 * L) hroleT (by omega) hsp hatv.1]
          simp only [excesses, Bool.true_and, bne_self_eq_false, Bool.false_eq_true, if_false, List.nil_append] at hci hcf
          have hnv : endsNl ([10] : Bytes) = true := by decide
          rw [hnv] at hml' hci hcf hrest hf hq'
          simp only [List.length_cons, List.length_nil] at hrest hf hq'
          have hb2 : Bnd s (p + 4 * L + 1) := bnd_succ hs hatv.1 (by decide)
          obtain ⟨phs, tr, hloop, hrel⟩ := ih' true m _ q'
            ⟨st.elements ++ [.text (p + 4 * L) (p + 4 * L + 1) 0 .lineStart], st.lastNonBlank, st.commonIndent,
              .lineStart, st.keptCommonIndent⟩ cfin
            hml' hlast' (fun h => absurd h hes) hL' (fun _ => hLp) (by simp [mlRole])
            hci hcf hb2 hrest
            (by rw [show p + 4 * L + 1 + (elemsText L true es).length + 1 =
                  p + (4 * L + (0 + 1 + (elemsText L true es).length)) + 1 by omega]
                exact hf)
            (by omega)
          have hesE : es.isEmpty = false := by
            cases es with
            | nil => exact absurd rfl hes
            | cons _ _ => rfl
          refine ⟨.text (p + 4 * L) (p + 4 * L + 1) 0 .lineStart :: phs, tr, ?_, ?_⟩
          · rw [hloop]
            have := MPh_ne hrel hes
            simp only [hesE, Bool.false_eq_true, if_false, List.append_assoc, List.singleton_append, List.length_append,
              List.length_cons, List.length_nil, List.isEmpty_cons]
            congr 2
            cases phs with
            | nil => exact absurd rfl this
            | cons _ _ => simp; omega
          · simp only [MPh]
            have heff : effStart cfin (p + 4 * L) 0 .lineStart = p + 4 * L := by
              cases cfin <;> simp [effStart]
            refine ⟨p + 4 * L, p + 4 * L + 1, 0, .lineStart, phs, rfl, ⟨?_, hb2, ?_, by simp, ?_⟩, hrel⟩
            · rw [heff]; exact hbI
            · rw [heff]; simp [at_cons, hatv.1]
            · simp [hesE, heff]
        · -- a line that starts with a text element
          have hlsok : lineStartOK v es = true := by
            simp only [Bool.not_true, Bool.false_or, Bool.or_eq_true, beq_iff_eq] at hls
            rcases hls with h | h
            · exact absurd h hblank
            · exact h
          have hvb : (v != [10]) = true := by simpa using hblank
          simp only [excesses, Bool.true_and, hvb, if_true, List.singleton_append, ciAfter] at hci hcf
          have hcfin : cfin = some (4 * L) := hcf (by simp)
          have hsplit := leadSpaces_split v
          generalize hk : leadSpaces v = k at hsplit hci
          have hvlen' : v.length = k + (v.dropWhile (fun b => b == 32)).length := by
            have := congrArg List.length hsplit; simpa [spacesL] using this
          have hatv2 : At s (p + 4 * L) (spacesL k) ∧ At s (p + 4 * L + k) (v.dropWhile (fun b => b == 32)) := by
            rw [hsplit, at_append] at hatv; simpa [spacesL] using hatv
          have hsp' : ∀ j, j < 4 * L + k → s[p + j]? = some 32 := by
            intro j hj
            by_cases h1 : j < 4 * L
            · exact hsp j h1
            · have := at_spaces s (p + 4 * L) k hatv2.1 (j - 4 * L) (by omega)
              rwa [show p + 4 * L + (j - 4 * L) = p + j by omega] at this
          have hbc : Bnd s (p + (4 * L + k)) := by
            have := hsp' (4 * L + k - 1) (by omega)
            have := bnd_succ hs this (by decide)
            rwa [show p + (4 * L + k - 1) + 1 = p + (4 * L + k) by omega] at this
          have heff : effStart cfin p (4 * L + k) .lineStart = p + 4 * L := by
            simp [effStart, hcfin]
          cases hu : v.dropWhile (fun b => b == 32) with
          | nil =>
            -- only spaces, in front of a placeable
            rw [hu] at hvlen'
            simp only [lineStartOK, hu] at hlsok
            obtain ⟨x, es', rfl⟩ : ∃ x es', es = .placeable x :: es' := by
              cases es with
              | nil => simp at hlsok
              | cons e es' => cases e with
                | text w => simp at hlsok
                | placeable x => exact ⟨x, es', rfl⟩
            have hnv : endsNl v = false := by
              have hk0 : 0 < k := by simp at hvlen'; omega
              have hv2 : v = spacesL k := by rw [hu] at hsplit; simpa using hsplit
              have : v.getLast? = some 32 := by
                rw [hv2]; simp [spacesL, List.getLast?_replicate]; omega
              simp [endsNl, this]
            rw [hnv] at hml' hci hcf hrest hf hq'
            have hxp := hpl' x (List.mem_cons_self)
            simp only [List.length_nil, Nat.add_zero] at hvlen'
            have hrest' : At s (p + (4 * L + k)) (elemsText L false (.placeable x :: es') ++ [10]) := by
              rw [hvlen'] at hrest; rwa [Nat.add_assoc] at hrest
            have h123 : s[p + (4 * L + k)]? = some 123 := by
              have := hrest'
              simp only [elemsText, Bool.false_eq_true, if_false, List.nil_append, List.append_assoc] at this
              rw [at_append] at this
              exact at_head this.1 hxp.head
            rw [step_ls_led s m st p (4 * L) k hroleT (by omega) hsp' h123]
            obtain ⟨phs, tr, hloop, hrel⟩ := ih' false m _ q'
              ⟨st.elements ++ [.text p (p + (4 * L + k)) (4 * L + k) .lineStart], st.lastNonBlank,
                ciStep (4 * L) st.commonIndent k, .continuation, st.keptCommonIndent⟩ cfin
              hml' hlast' (fun h => by cases h) hL' (fun h => by cases h) (by simp [mlRole])
              hci (fun _ => hcfin) hbc hrest'
              (by rw [hvlen'] at hf
                  rw [show p + (4 * L + k) + (elemsText L false (.placeable x :: es')).length + 1 =
                    p + (4 * L + (k + (elemsText L false (.placeable x :: es')).length)) + 1 by omega]
                  exact hf)
              (by rw [hvlen'] at hq'; omega)
            refine ⟨.text p (p + (4 * L + k)) (4 * L + k) .lineStart :: phs, tr, ?_, ?_⟩
            · rw [hloop]
              have := MPh_ne hrel (by simp)
              simp only [List.isEmpty_cons, Bool.false_eq_true, if_false, List.append_assoc, List.singleton_append,
                List.length_append, List.length_cons, List.length_nil]
              congr 2
              cases phs with
              | nil => exact absurd rfl this
              | cons _ _ => simp; omega
            · simp only [MPh]
              refine ⟨p, p + (4 * L + k), 4 * L + k, .lineStart, phs, rfl, ⟨?_, hbc, ?_, hvne, ?_⟩, hrel⟩
              · rw [heff]; exact hbI
              · rw [heff]; exact hatv
              · simp only [List.isEmpty_cons, Bool.false_eq_true, if_false, heff]; omega
          | cons c u' =>
            rw [hu] at hvlen' hatv2
            simp only [lineStartOK, hu] at hlsok
            have hc0 : s[p + (4 * L + k)]? = some c := by
              have := hatv2.2; rw [at_cons] at this; rw [← Nat.add_assoc]; exact this.1
            have hcm : c ∈ v := by rw [hsplit, hu]; simp
            obtain ⟨hcont, hc32⟩ := cont_of_start c hlsok (mlTextOK_mem hvok c hcm).2.2
            have hc10 : c ≠ 10 := by simp [contentStartOK] at hlsok; exact hlsok.1.1.1.2
            have hc13 : c ≠ 13 := (mlTextOK_mem hvok c hcm).1
            have hklt : k < v.length := by simp at hvlen'; omega
            have hdrop : v.drop k = c :: u' := by rw [← hu, dropWhile_eq_drop, hk]
            have huok : mlTextOK (c :: u') = true := by rw [← hdrop]; exact mlTextOK_drop hvok k hklt
            have hveq : v = spacesL k ++ (c :: u') := by rw [← hu]; exact hsplit
            have hulast : (c :: u').getLast? = v.getLast? := by
              rw [hveq, List.getLast?_append]
              cases hg : (c :: u').getLast? with
              | none => simp at hg
              | some y => rfl
            have hatu : At s (p + (4 * L + k)) (c :: u') := by rw [← Nat.add_assoc]; exact hatv2.2
            have hulen : p + (4 * L + k) + (c :: u').length = p + 4 * L + v.length := by rw [hvlen']; omega
            rcases hnext with ⟨hnv, hes⟩ | ⟨hnv, hes, x, hx, x1, x2, x3⟩ | ⟨hnv, x, es', hes⟩
            · -- the text ends its line
              have hnu : endsNl (c :: u') = true := by simp only [endsNl, hulast]; exact hnv
              have hts := mlSlice_nl s (c :: u') huok hnu _ hatu
              have hnb : ((c :: u').dropLast.any fun b => b != 32) = true := by
                cases u' with
                | nil => simp [endsNl] at hnu; exact absurd hnu hc10
                | cons y ys => simp [hc32]
              rw [hnb, hulen] at hts
              have hlf : s[p + 4 * L + v.length - 1]? = some 10 := by
                have hg := at_get hatv (v.length - 1) (by omega)
                rw [show p + 4 * L + (v.length - 1) = p + 4 * L + v.length - 1 by omega] at hg
                rw [hg]
                have : v.getLast? = some 10 := by simpa [endsNl] using hnv
                rw [List.getLast?_eq_getElem?, List.getElem?_eq_getElem (by omega)] at this
                exact this
              have hb2 : Bnd s (p + 4 * L + v.length) := by
                have := bnd_succ hs hlf (by decide)
                rwa [show p + 4 * L + v.length - 1 + 1 = p + 4 * L + v.length by omega] at this
              have hsl := slice_ok (show p + (4 * L + k) ≤ p + 4 * L + v.length by omega) hbc hb2
              rw [step_ls_content s m st p (4 * L) k c _ _ .lineFeed hroleT (by omega) hsp' hc0 hc32 hcont hts (by omega) hsl]
              rw [hnv] at hml' hci hcf hrest hf hq'
              obtain ⟨phs, tr, hloop, hrel⟩ := ih' true m _ q'
                ⟨st.elements ++ [.text p (p + 4 * L + v.length) (4 * L + k) .lineStart], _,
                  ciStep (4 * L) st.commonIndent k, roleOf .lineFeed, _⟩ cfin
                hml' hlast' (fun h => absurd h hes) hL' (fun _ => hLp) (by simp [mlRole, roleOf])
                hci (fun _ => hcfin) hb2 hrest
                (by rw [show p + 4 * L + v.length + (elemsText L true es).length + 1 =
                      p + (4 * L + (v.length + (elemsText L true es).length)) + 1 by omega]; exact hf)
                (by omega)
              have hesE : es.isEmpty = false := by
                cases es with
                | nil => exact absurd rfl hes
                | cons _ _ => rfl
              refine ⟨.text p (p + 4 * L + v.length) (4 * L + k) .lineStart :: phs, tr, ?_, ?_⟩
              · rw [hloop]
                have := MPh_ne hrel hes
                simp only [hesE, Bool.false_eq_true, if_false, List.append_assoc, List.singleton_append,
                  List.length_append, List.length_cons, List.length_nil, List.isEmpty_cons]
                congr 2
                cases phs with
                | nil => exact absurd rfl this
                | cons _ _ => simp; omega
              · simp only [MPh]
                refine ⟨p, p + 4 * L + v.length, 4 * L + k, .lineStart, phs, rfl, ⟨?_, hb2, ?_, hvne, ?_⟩, hrel⟩
                · rw [heff]; exact hbI
                · rw [heff]; exact hatv
                · simp [hesE, heff]
            · -- the last element
              subst hes
              rw [hnv] at hrest hf hq' hci
              simp only [elemsText, List.nil_append, at_cons, List.length_nil, Nat.add_zero] at hrest hf hq'
              simp only [excesses, ciAfter] at hci
              have h10 := hrest.1
              have hnu : endsNl (c :: u') = false := by simp only [endsNl, hulast]; exact hnv
              have h10' : s[p + (4 * L + k) + (c :: u').length]? = some 10 := by rw [hulen]; exact h10
              have hts := mlSlice_last s (c :: u') huok hnu _ hatu h10'
              have hnb : ((c :: u').any fun b => b != 32) = true := by simp [hc32]
              rw [hnb, hulen] at hts
              have hb2 : Bnd s (p + 4 * L + v.length + 1) := bnd_succ hs h10 (by decide)
              have hsl := slice_ok (show p + (4 * L + k) ≤ p + 4 * L + v.length + 1 by omega) hbc hb2
              rw [step_ls_content s m st p (4 * L) k c _ _ .lineFeed hroleT (by omega) hsp' hc0 hc32 hcont hts (by omega) hsl]
              have hsv := trimEnd_first s (p + (4 * L + k)) (p + 4 * L + v.length + 1) c (by omega) hc0 hc32 hc13 hc10
              obtain ⟨hle, h10s, hstop⟩ := hf
              obtain ⟨tr, htr⟩ := patternLoop_finish s q' (q' - (p + 4 * L + v.length + 1)) m (p + 4 * L + v.length + 1)
                ⟨st.elements ++ [.text p (p + 4 * L + v.length + 1) (4 * L + k) .lineStart], _,
                  ciStep (4 * L) st.commonIndent k, roleOf .lineFeed, _⟩
                rfl (by omega) (fun j h1 h2 => h10s j (by omega) h2)
                hstop (by omega)
              have hsc : s[p + 4 * L + v.length - 1]? = some x := by
                have hg := at_get hatv (v.length - 1) (by omega)
                rw [show p + 4 * L + (v.length - 1) = p + 4 * L + v.length - 1 by omega] at hg
                rw [hg]
                rw [List.getLast?_eq_getElem?, List.getElem?_eq_getElem (by omega)] at hx
                exact hx
              refine ⟨[.text p (p + 4 * L + v.length + 1) (4 * L + k) .lineStart], tr, ?_, ?_⟩
              · rw [htr]
                simp [hsv, hci]
              · simp only [MPh]
                refine ⟨p, p + 4 * L + v.length + 1, 4 * L + k, .lineStart, [], rfl, ⟨?_, hb2, ?_, hvne, ?_⟩, rfl⟩
                · rw [heff]; exact hbI
                · rw [heff]; exact hatv
                · simp only [List.isEmpty_nil, if_true, heff]
                  exact ⟨trivial, h10, x, hx, x1, x2, x3⟩
            · -- a placeable follows
              subst hes
              rw [hnv] at hml' hci hcf hrest hf hq'
              have hxp := hpl' x (List.mem_cons_self)
              have h123 : s[p + 4 * L + v.length]? = some 123 := by
                have := hrest
                simp only [elemsText, Bool.false_eq_true, if_false, List.nil_append, List.append_assoc] at this
                rw [at_append] at this
                exact at_head this.1 hxp.head
              have hnu : endsNl (c :: u') = false := by simp only [endsNl, hulast]; exact hnv
              have h123' : s[p + (4 * L + k) + (c :: u').length]? = some 123 := by rw [hulen]; exact h123
              have hts := mlSlice_brace s (c :: u') huok hnu _ hatu h123'
              have hnb : ((c :: u').any fun b => b != 32) = true := by simp [hc32]
              rw [hnb, hulen] at hts
              have hb2 : Bnd s (p + 4 * L + v.length) := bnd_of_ascii h123 (by decide)
              have hsl := slice_ok (show p + (4 * L + k) ≤ p + 4 * L + v.length by omega) hbc hb2
              rw [step_ls_content s m st p (4 * L) k c _ _ .placeableStart hroleT (by omega) hsp' hc0 hc32 hcont hts
                (by omega) hsl]
              obtain ⟨phs, tr, hloop, hrel⟩ := ih' false m _ q'
                ⟨st.elements ++ [.text p (p + 4 * L + v.length) (4 * L + k) .lineStart], _,
                  ciStep (4 * L) st.commonIndent k, roleOf .placeableStart, _⟩ cfin
                hml' hlast' (fun h => by cases h) hL' (fun h => by cases h) (by simp [mlRole, roleOf])
                hci (fun _ => hcfin) hb2 hrest
                (by rw [show p + 4 * L + v.length + (elemsText L false (.placeable x :: es')).length + 1 =
                      p + (4 * L + (v.length + (elemsText L false (.placeable x :: es')).length)) + 1 by omega]
                    exact hf)
                (by omega)
              refine ⟨.text p (p + 4 * L + v.length) (4 * L + k) .lineStart :: phs, tr, ?_, ?_⟩
              · rw [hloop]
                have := MPh_ne hrel (by simp)
                simp only [List.isEmpty_cons, Bool.false_eq_true, if_false, List.append_assoc, List.singleton_append,
                  List.length_append, List.length_cons, List.length_nil]
                congr 2
                cases phs with
                | nil => exact absurd rfl this
                | cons _ _ => simp; omega
              · simp only [MPh]
                refine ⟨p, p + 4 * L + v.length, 4 * L + k, .lineStart, phs, rfl, ⟨?_, hb2, ?_, hvne, ?_⟩, hrel⟩
                · rw [heff]; exact hbI
                · rw [heff]; exact hatv
                · simp [heff]

end FluentProofs.Ser
