import FluentProofs.ResolverRefineVal
/-!
# Simulation, the limit outcome: when the reference semantics aborts with `.limit log`, the model sets `dirty`
with exactly that log and never reports the limit again

`LimAll env f` — for each of the eight spec functions at fuel `f`: if the spec call started from the abstraction of a
good scope returns `.limit lg`, the model call with any fuel `≥ 3 * f` does not panic, and if it returns (it keeps
running to the end of the enclosing constructs, which may need more fuel than the aborted spec evaluation used —
fuel sufficiency is C06) then `dirty = true` and `errors = lg ++ extra` with no `tooManyPlaceables` in `extra`.
Needs the plural rules to exist (`CategoryTotal`): on this path the code still evaluates `key.matches`.
-/
namespace FluentProofs.ResolverRefine
open FluentModel FluentModel.Syntax FluentModel.Num FluentModel.Resolver FluentModel.ResolverSpec

theorem chosen_no_panic (env : Env) (hc : CategoryTotal env) (vs : List (Variant Bytes)) (s : Value) :
    ∃ r, chosen env vs s = .ok r := by
  cases s <;> first | exact selectVariant_no_panic env hc vs _ | exact ⟨_, rfl⟩

/-- the rest of a select expression in a dirty scope -/
theorem select_tail_dirty (env : Env) (hc : CategoryTotal env) (k : Nat) (D : DirtyAll env k) (vs : List (Variant Bytes))
    (selector : Value) (w : Bytes) (lg : List RErr) (sc1 : Scope) (h : Ext lg sc1) :
    DirtyOk lg (match chosen env vs selector with
      | .ok (some v) => writePattern env k v w sc1
      | .ok .none => writeDefault env k vs w sc1
      | .panic m => .panic m
      | .fuel => .fuel) := by
  obtain ⟨r, hr⟩ := chosen_no_panic env hc vs selector
  rw [hr]
  cases r with
  | none => exact D.2.2.2.2.1 vs w lg sc1 h
  | some v => exact D.2.1 v w lg sc1 h

/-- the rest of a term reference (target lookup, the term's pattern, restoring `local_args`) in a dirty scope -/
theorem term_tail_dirty (env : Env) (k : Nat) (D : DirtyAll env k) (id : Bytes) (attr : Option Bytes)
    (args : Option (List (Inline Bytes) × List (Bytes × Inline Bytes))) (w : Bytes) (lg : List RErr) (sc2 : Scope)
    (la : Option ArgList) (h : Ext lg sc2) :
    DirtyOk lg (match (match termTarget env id attr with
          | some p => track env k p (.term id attr args) w sc2
          | .none => writeRefError w sc2 (.term id attr args)) with
      | .ok (w1, sc3) => RR.ok (w1, { sc3 with localArgs := la })
      | .panic m => .panic m
      | .fuel => .fuel) := by
  have h1 : DirtyOk lg (match termTarget env id attr with
          | some p => track env k p (.term id attr args) w sc2
          | .none => writeRefError w sc2 (.term id attr args)) := by
    cases termTarget env id attr with
    | some p => exact D.2.2.1 p _ w lg sc2 h
    | none => exact writeRefError_dirty w lg sc2 _ h rfl
  revert h1
  generalize (match termTarget env id attr with
          | some p => track env k p (.term id attr args) w sc2
          | .none => writeRefError w sc2 (.term id attr args)) = r
  intro h1
  match r, h1 with
  | .fuel, _ => trivial
  | .ok (w1, sc3), h1 => exact Ext.congr (b := sc3) h1 rfl rfl


def LimAll (env : Env) (f : Nat) : Prop :=
  (∀ whole len es sc st lg, sc.dirty = false → sc.placeables ≤ mx → st = effStack sc.travelled whole →
     evalElems ⟨env, sc.localArgs, st⟩ f len es sc.placeables sc.errors = .limit lg →
     ∀ fuel', 3 * f ≤ fuel' → ∀ w, DirtyOk lg (writeElems env fuel' whole len es w sc)) ∧
  (∀ p src sc lg, Good sc → evalRef (ctxOf env sc) f p src sc.placeables sc.errors = .limit lg →
     ∀ fuel', 3 * f ≤ fuel' → ∀ w, DirtyOk lg (track env fuel' p src w sc)) ∧
  (∀ e sc lg, Good sc → evalExpr (ctxOf env sc) f e sc.placeables sc.errors = .limit lg →
     ∀ fuel', 3 * f ≤ fuel' → ∀ w, DirtyOk lg (writeExpr env fuel' e w sc)) ∧
  (∀ e sc lg, Good sc → evalInline (ctxOf env sc) f e sc.placeables sc.errors = .limit lg →
     ∀ fuel', 3 * f ≤ fuel' → ∀ w, DirtyOk lg (writeInline env fuel' e w sc)) ∧
  (∀ e sc lg, Good sc → evalValue (ctxOf env sc) f e sc.placeables sc.errors = .limit lg →
     ∀ fuel', 3 * f ≤ fuel' → DirtyOk lg (resolveInline env fuel' e sc)) ∧
  (∀ a sc lg, Good sc → evalArgs (ctxOf env sc) f a sc.placeables sc.errors = .limit lg →
     ∀ fuel', 3 * f ≤ fuel' → DirtyOk lg (getArguments env fuel' a sc)) ∧
  (∀ es sc lg, Good sc → evalList (ctxOf env sc) f es sc.placeables sc.errors = .limit lg →
     ∀ fuel', 3 * f ≤ fuel' → DirtyOk lg (resolveList env fuel' es sc)) ∧
  (∀ es sc lg, Good sc → evalNamed (ctxOf env sc) f es sc.placeables sc.errors = .limit lg →
     ∀ fuel', 3 * f ≤ fuel' → DirtyOk lg (resolveNamed env fuel' es sc))

theorem limAll (env : Env) (hc : CategoryTotal env) : ∀ f, LimAll env f := by
  intro f
  induction f with
  | zero =>
    refine ⟨?_, ?_, ?_, ?_, ?_, ?_, ?_, ?_⟩ <;> intros <;>
      simp_all [evalElems, evalRef, evalExpr, evalInline, evalValue, evalArgs, evalList, evalNamed]
  | succ f ih =>
    obtain ⟨iElems, iRef, iExpr, iInl, iVal, iArgs, iList, iNamed⟩ := ih
    obtain ⟨vElems, vRef, vExpr, vInl, vVal, vArgs, vList, vNamed⟩ := valAll env f
    have dAll := dirtyAll env hc
    have hPat : ∀ v sc1 lg, Good sc1 →
        evalElems (ctxOf env sc1) f v.length v sc1.placeables sc1.errors = .limit lg →
        ∀ fuel', 3 * f + 1 ≤ fuel' → ∀ w, DirtyOk lg (writePattern env fuel' v w sc1) := by
      intro v sc1 lg hg1 hs fuel' hf w
      obtain ⟨k, rfl⟩ : ∃ k, fuel' = k + 1 := ⟨fuel' - 1, by omega⟩
      simp only [writePattern]
      exact iElems v v.length v sc1 sc1.travelled lg hg1.clean hg1.bound
        (effStack_of_ne_nil _ hg1.stack).symm hs k (by omega) w
    refine ⟨?_, ?_, ?_, ?_, ?_, ?_, ?_, ?_⟩
    · -- evalElems / writeElems
      intro whole len es sc st lg hd hb hst hs fuel' hf w
      obtain ⟨k, rfl⟩ : ∃ k, fuel' = k + 1 := ⟨fuel' - 1, by omega⟩
      match es with
      | [] => simp [evalElems] at hs
      | .text v :: rest =>
        simp only [evalElems] at hs
        split at hs
        · cases hs
        · rw [writeElems_text _ _ _ _ _ _ _ _ hd]
          exact iElems whole len rest sc st lg hd hb hst hs k (by omega) _
      | .placeable e :: rest =>
        simp only [evalElems] at hs
        split at hs
        · rename_i hl
          simp only [Out.limit.injEq] at hs
          subst hs
          rw [writeElems_limit _ _ _ _ _ _ _ _ hd hb hl]
          exact ⟨rfl, [], by simp, by simp⟩
        · rename_i hlim
          have hb' : sc.placeables + 1 ≤ Generated.maxPlaceables := Nat.le_of_not_gt hlim
          have hg2 : Good ⟨sc.localArgs, sc.placeables + 1, st, sc.errors, false⟩ :=
            ⟨rfl, hb', by rw [hst]; exact effStack_ne_nil _ _⟩
          rw [writeElems_placeable _ _ _ _ _ _ _ _ hd hb', ← hst]
          split at hs
          · rename_i s c1 l1 hE
            obtain ⟨hb1, hME⟩ := vExpr e _ s c1 l1 hg2 hE
            rw [hME k (by omega)]
            dsimp only
            split at hs
            · cases hs
            · exact iElems whole len rest (upd ⟨sc.localArgs, sc.placeables + 1, st, sc.errors, false⟩ c1 l1)
                st lg rfl hb1 (by show st = effStack st whole; rw [hst, effStack_idem]) hs k (by omega) _
          · rename_i l hE
            simp only [Out.limit.injEq] at hs
            subst hs
            have h1 := iExpr e _ l hg2 hE k (by omega)
              (if (env.useIsolating && decide (len > 1) && isolatable e) = true then w ++ fsi else w)
            revert h1
            generalize writeExpr env k e _ _ = r
            intro h1
            match r, h1 with
            | .fuel, _ => trivial
            | .ok (w2, sc3), h1 => exact (dAll k).1 whole len rest _ l sc3 h1
          all_goals cases hs
    · -- evalRef / track
      intro p src sc lg hg hs fuel' hf w
      have hd := hg.clean
      obtain ⟨k, rfl⟩ : ∃ k, fuel' = k + 2 := ⟨fuel' - 2, by omega⟩
      simp only [evalRef] at hs
      split at hs
      · cases hs
      · rename_i hcy
        have h1 := iElems p p.length p ⟨sc.localArgs, sc.placeables, sc.travelled ++ [p], sc.errors, false⟩
          (sc.travelled ++ [p]) lg rfl hg.bound (by rw [effStack_of_ne_nil]; simp) hs k (by omega) w
        simp only [track, hcy, writePattern, hd, Bool.false_eq_true, if_false]
        revert h1
        generalize writeElems env k p p.length p w _ = r
        intro h1
        match r, h1 with
        | .fuel, _ => trivial
        | .ok (w1, sc1), h1 => exact Ext.congr (b := sc1) h1 rfl rfl
    · -- evalExpr / writeExpr
      intro e sc lg hg hs fuel' hf w
      obtain ⟨k, rfl⟩ : ∃ k, fuel' = k + 1 := ⟨fuel' - 1, by omega⟩
      match e with
      | .inline e =>
        simp only [evalExpr] at hs
        simp only [writeExpr]
        exact iInl e sc lg hg hs k (by omega) w
      | .select sel vs =>
        rw [evalExpr_select] at hs
        split at hs
        · rename_i selector c1 l1 hV
          obtain ⟨hb1, hMV⟩ := vVal sel sc selector c1 l1 hg hV
          have hg1 := upd_good hg l1 hb1
          rw [writeExpr_select env k sel vs w sc selector _ (hMV k (by omega))]
          revert hs
          generalize chosen env vs selector = ch
          intro hs
          match ch with
          | .ok (some v) =>
            simp only [] at hs
            exact hPat v _ lg hg1 hs k (by omega) w
          | .ok .none =>
            simp only [] at hs
            split at hs
            · rename_i v hdv
              obtain ⟨k, rfl⟩ : ∃ k', k = k' + 1 := ⟨k - 1, by omega⟩
              simp only [writeDefault, hdv]
              exact hPat v _ lg hg1 hs k (by omega) w
            · cases hs
          | .panic m => simp at hs
          | .fuel => simp at hs
        · rename_i l hV
          simp only [Out.limit.injEq] at hs
          subst hs
          have h1 := iVal sel sc l hg hV k (by omega)
          cases hr : resolveInline env k sel sc with
          | fuel => simp [writeExpr, hr, DirtyOk]
          | panic m => rw [hr] at h1; exact h1.elim
          | ok p =>
            obtain ⟨selector, sc1⟩ := p
            rw [hr] at h1
            rw [writeExpr_select env k sel vs w sc selector sc1 hr]
            exact select_tail_dirty env hc k (dAll k) vs selector w l sc1 h1
        all_goals cases hs
    · -- evalInline / writeInline
      intro e sc lg hg hs fuel' hf w
      obtain ⟨k, rfl⟩ : ∃ k, fuel' = k + 1 := ⟨fuel' - 1, by omega⟩
      match e with
      | .str v => simp [evalInline] at hs
      | .num v => simp [evalInline] at hs
      | .var id =>
        simp only [evalInline] at hs
        (repeat' split at hs) <;> cases hs
      | .placeable e =>
        simp only [evalInline] at hs
        simp only [writeInline]
        exact iExpr e sc lg hg hs k (by omega) w
      | .msg id attr =>
        simp only [evalInline] at hs
        cases hm : env.msg id with
        | none => simp [hm] at hs
        | some m =>
          simp only [hm] at hs
          cases attr with
          | some a =>
            simp only [] at hs
            cases hfa : findAttr m.attributes a with
            | some p =>
              simp only [hfa] at hs
              simp only [writeInline, hm, hfa]
              exact iRef p _ sc lg hg hs k (by omega) w
            | none => simp [hfa] at hs
          | none =>
            simp only [] at hs
            cases hv : m.value with
            | some p =>
              simp only [hv] at hs
              simp only [writeInline, hm, hv]
              exact iRef p _ sc lg hg hs k (by omega) w
            | none => simp [hv] at hs
      | .fn id pos named =>
        simp only [evalInline] at hs
        split at hs
        · (repeat' split at hs) <;> cases hs
        · rename_i l hA
          simp only [Out.limit.injEq] at hs
          subst hs
          have h1 := iArgs _ sc l hg hA k (by omega)
          simp only [writeInline]
          revert h1
          generalize getArguments env k (some (pos, named)) sc = r
          intro h1
          match r, h1 with
          | .fuel, _ => trivial
          | .ok ((rp, rn), sc1), h1 =>
            have h1 : Ext l sc1 := h1
            dsimp only
            split
            · split <;> exact h1
            · exact writeRefError_dirty w l sc1 _ h1 rfl
        all_goals cases hs
      | .term id attr args =>
        rw [evalInline_term] at hs
        split at hs
        · rename_i rp named c1 l1 hA
          obtain ⟨hb1, hMA⟩ := vArgs args sc (rp, named) c1 l1 hg hA
          rw [writeInline_term env k id attr args w sc rp named _ (hMA k (by omega))]
          simp only [] at hs
          cases ht : termTarget env id attr with
          | none => simp [ht] at hs
          | some p =>
            simp only [ht] at hs
            have hg2 : Good ⟨some named, c1, sc.travelled, l1, false⟩ := ⟨rfl, hb1, hg.stack⟩
            have h1 := iRef p (.term id attr args) _ lg hg2 hs k (by omega) w
            simp only [upd]
            revert h1
            generalize track env k p (.term id attr args) w _ = r
            intro h1
            match r, h1 with
            | .fuel, _ => trivial
            | .ok (w1, sc3), h1 => exact Ext.congr (b := sc3) h1 rfl rfl
        · rename_i l hA
          simp only [Out.limit.injEq] at hs
          subst hs
          have h1 := iArgs args sc l hg hA k (by omega)
          cases hr : getArguments env k args sc with
          | fuel => simp [writeInline, hr, DirtyOk]
          | panic m => rw [hr] at h1; exact h1.elim
          | ok q =>
            obtain ⟨⟨rp, named⟩, sc1⟩ := q
            rw [hr] at h1
            rw [writeInline_term env k id attr args w sc rp named sc1 hr]
            exact term_tail_dirty env k (dAll k) id attr args w l _ _ (Ext.congr (b := sc1) h1 rfl rfl)
        all_goals cases hs
    · -- evalValue / resolveInline
      intro e sc lg hg hs fuel' hf
      obtain ⟨k, rfl⟩ : ∃ k, fuel' = k + 1 := ⟨fuel' - 1, by omega⟩
      have hw : ∀ e : Inline Bytes,
          (match evalInline (ctxOf env sc) f e sc.placeables sc.errors with
            | .val s count' log' => Out.val (Value.str s) count' log'
            | .limit l => .limit l
            | .panic m => .panic m
            | .fuel => .fuel) = .limit lg →
          DirtyOk lg (match writeInline env k e [] sc with
              | .ok (w, sc1) => RR.ok (Value.str w, sc1)
              | .panic m => .panic m
              | .fuel => .fuel) := by
        intro e hs
        split at hs
        · cases hs
        · rename_i l hI
          simp only [Out.limit.injEq] at hs
          subst hs
          have h1 := iInl e sc l hg hI k (by omega) []
          revert h1
          generalize writeInline env k e [] sc = r
          intro h1
          match r, h1 with
          | .fuel, _ => trivial
          | .ok (w1, sc1), h1 => exact h1
        all_goals cases hs
      match e with
      | .str s => simp [evalValue] at hs
      | .num s => simp [evalValue] at hs
      | .var id =>
        simp only [evalValue] at hs
        (repeat' split at hs) <;> cases hs
      | .placeable e => simp only [evalValue] at hs; simp only [resolveInline]; exact hw _ hs
      | .msg id attr => simp only [evalValue] at hs; simp only [resolveInline]; exact hw _ hs
      | .term id attr args => simp only [evalValue] at hs; simp only [resolveInline]; exact hw _ hs
      | .fn id pos named =>
        simp only [evalValue] at hs
        split at hs
        · (repeat' split at hs) <;> cases hs
        · rename_i l hA
          simp only [Out.limit.injEq] at hs
          subst hs
          have h1 := iArgs _ sc l hg hA k (by omega)
          simp only [resolveInline]
          revert h1
          generalize getArguments env k (some (pos, named)) sc = r
          intro h1
          match r, h1 with
          | .fuel, _ => trivial
          | .ok ((rp, rn), sc1), h1 =>
            have h1 : Ext l sc1 := h1
            dsimp only
            split
            · exact h1
            · exact h1.addError _ (by simp)
        all_goals cases hs
    · -- evalArgs / getArguments
      intro a sc lg hg hs fuel' hf
      obtain ⟨k, rfl⟩ : ∃ k, fuel' = k + 1 := ⟨fuel' - 1, by omega⟩
      match a with
      | .none => simp [evalArgs] at hs
      | some (pos, named) =>
        simp only [evalArgs] at hs
        simp only [getArguments]
        split at hs
        · rename_i vs c1 l1 hL
          obtain ⟨hb1, hML⟩ := vList pos sc vs c1 l1 hg hL
          rw [hML k (by omega)]
          dsimp only
          split at hs
          · cases hs
          · rename_i l hN
            simp only [Out.limit.injEq] at hs
            subst hs
            have h1 := iNamed named _ l (upd_good hg l1 hb1) hN k (by omega)
            revert h1
            generalize resolveNamed env k named _ = r
            intro h1
            match r, h1 with
            | .fuel, _ => trivial
            | .ok (ns, sc2), h1 => exact h1
          all_goals cases hs
        · rename_i l hL
          simp only [Out.limit.injEq] at hs
          subst hs
          have h1 := iList pos sc l hg hL k (by omega)
          revert h1
          generalize resolveList env k pos sc = r
          intro h1
          match r, h1 with
          | .fuel, _ => trivial
          | .ok (vs, sc1), h1 =>
            have h1 : Ext l sc1 := h1
            dsimp only
            have h2 := (dAll k).2.2.2.2.2.2.2.2.2 named l sc1 h1
            revert h2
            generalize resolveNamed env k named sc1 = r2
            intro h2
            match r2, h2 with
            | .fuel, _ => trivial
            | .ok (ns, sc2), h2 => exact h2
        all_goals cases hs
    · -- evalList / resolveList
      intro es sc lg hg hs fuel' hf
      obtain ⟨k, rfl⟩ : ∃ k, fuel' = k + 1 := ⟨fuel' - 1, by omega⟩
      match es with
      | [] => simp [evalList] at hs
      | e :: es =>
        simp only [evalList] at hs
        simp only [resolveList]
        split at hs
        · rename_i v1 c1 l1 hV
          obtain ⟨hb1, hMV⟩ := vVal e sc v1 c1 l1 hg hV
          rw [hMV k (by omega)]
          dsimp only
          split at hs
          · cases hs
          · have h1 := iList es _ lg (upd_good hg l1 hb1) hs k (by omega)
            revert h1
            generalize resolveList env k es _ = r
            intro h1
            match r, h1 with
            | .fuel, _ => trivial
            | .ok (ns, sc2), h1 => exact h1
        · rename_i l hV
          simp only [Out.limit.injEq] at hs
          subst hs
          have h1 := iVal e sc l hg hV k (by omega)
          revert h1
          generalize resolveInline env k e sc = r
          intro h1
          match r, h1 with
          | .fuel, _ => trivial
          | .ok (v, sc1), h1 =>
            have h1 : Ext l sc1 := h1
            dsimp only
            have h2 := (dAll k).2.2.2.2.2.2.2.2.1 es l sc1 h1
            revert h2
            generalize resolveList env k es sc1 = r2
            intro h2
            match r2, h2 with
            | .fuel, _ => trivial
            | .ok (ns, sc2), h2 => exact h2
        all_goals cases hs
    · -- evalNamed / resolveNamed
      intro es sc lg hg hs fuel' hf
      obtain ⟨k, rfl⟩ : ∃ k, fuel' = k + 1 := ⟨fuel' - 1, by omega⟩
      match es with
      | [] => simp [evalNamed] at hs
      | (n, e) :: es =>
        simp only [evalNamed] at hs
        simp only [resolveNamed]
        split at hs
        · rename_i v1 c1 l1 hV
          obtain ⟨hb1, hMV⟩ := vVal e sc v1 c1 l1 hg hV
          rw [hMV k (by omega)]
          dsimp only
          split at hs
          · cases hs
          · have h1 := iNamed es _ lg (upd_good hg l1 hb1) hs k (by omega)
            revert h1
            generalize resolveNamed env k es _ = r
            intro h1
            match r, h1 with
            | .fuel, _ => trivial
            | .ok (ns, sc2), h1 => exact h1
        · rename_i l hV
          simp only [Out.limit.injEq] at hs
          subst hs
          have h1 := iVal e sc l hg hV k (by omega)
          revert h1
          generalize resolveInline env k e sc = r
          intro h1
          match r, h1 with
          | .fuel, _ => trivial
          | .ok (v, sc1), h1 =>
            have h1 : Ext l sc1 := h1
            dsimp only
            have h2 := (dAll k).2.2.2.2.2.2.2.2.2 es l sc1 h1
            revert h2
            generalize resolveNamed env k es sc1 = r2
            intro h2
            match r2, h2 with
            | .fuel, _ => trivial
            | .ok (ns, sc2), h2 => exact h2
        all_goals cases hs

end FluentProofs.ResolverRefine
