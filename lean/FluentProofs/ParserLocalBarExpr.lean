import FluentProofs.ParserLocalBarLeaf
/-!
# Barrier family (C03 locality), part 2: the eight mutually recursive functions

Joint induction on the fuel (`BSpecs`): expression-level functions started at or before `E` report cursors `≤ E`;
`get_pattern` started before `n` succeeds with a cursor `≤ n`.
-/
namespace FluentProofs.Parser
open FluentModel.Syntax

variable {s : Src} {n E : Nat}

theorem Bar.succ_le_E (hb : Bar s n E) {p : Nat} {b : UInt8} (hp : p ≤ E) (h : s[p]? = some b) (hne : b ≠ 61) :
    p + 1 ≤ E := by
  have : p ≠ E := by
    intro hpe; subst hpe; rw [hb.eq] at h; cases h; exact hne rfl
  omega

theorem Bar.not_isEol_n (hb : Bar s n E) : isEol s n = false := by
  obtain ⟨b, hb1, hb2⟩ := hb.real
  cases h : isEol s n with
  | false => rfl
  | true =>
    rcases isEol_cases h with h | h | ⟨h, _⟩
    · rw [h] at hb1; cases hb1
    · rw [h] at hb1; cases hb1; exact absurd hb2 (by decide)
    · rw [h] at hb1; cases hb1; exact absurd hb2 (by decide)

theorem Bar.variantKey_E (hb : Bar s n E) {p : Nat} (hp : p ≤ E) : UN E E (variantKey s p) := by
  unfold variantKey
  split
  · rcases (hb.getNumberLiteral_E hp).cases with ⟨sp, q, hr, h1⟩ | ⟨e, q, hr, h1⟩ | ⟨m, hr⟩ | hr <;> simp only [hr] <;>
      un_close
  · rcases (hb.getIdentifier_E hp).cases with ⟨sp, q, hr, h1⟩ | ⟨e, q, hr, h1⟩ | ⟨m, hr⟩ | hr <;> simp only [hr] <;>
      un_close

/-- a successful `get_placeable` ends just behind a `}` -/
theorem getPlaceable_ok_brace {s : Src} {f p : Nat} {e : Expr Span} {q : Nat} (h : getPlaceable s f p = .ok e q) :
    ∃ q', q = q' + 1 ∧ s[q']? = some 125 := by
  cases f with
  | zero => simp [getPlaceable] at h
  | succ f =>
    simp only [getPlaceable] at h
    split at h
    · rename_i exp q0 hr
      rcases expectByte_cases s (skipBlankInline s q0) 125 with ⟨hx, hx'⟩ | ⟨hx, _⟩ <;> rw [hx] at h <;>
        simp only [] at h
      · split at h
        · cases h
        · cases h; exact ⟨_, rfl, hx'⟩
      · cases h
    all_goals cases h

/-- joint barrier specification of the eight mutually recursive functions at fuel `f` -/
structure BSpecs (s : Src) (n E f : Nat) : Prop where
  patternLoop : ∀ st p, p ≤ n → (p = n → st.role = .lineStart) → UN n E (getPatternLoop s f st p)
  pattern : ∀ p, p < n → UN n E (getPattern s f p)
  placeable : ∀ p, p ≤ E → UN E E (getPlaceable s f p)
  expression : ∀ p, p ≤ E → UN E E (getExpression s f p)
  inline : ∀ ol p, p ≤ E → UN E E (getInline s f ol p)
  callArguments : ∀ p, p ≤ E → UN E E (getCallArguments s f p)
  callArgsLoop : ∀ pos named p, p ≤ E → UN E E (getCallArgsLoop s f pos named p)
  variants : ∀ hd acc p, p ≤ E → UN E E (getVariants s f hd acc p)

theorem placeable_bar_step (hb : Bar s n E) {f : Nat} (IH : BSpecs s n E f) (p : Nat) (hp : p ≤ E) :
    UN E E (getPlaceable s (f + 1) p) := by
  have hlt := hb.lt
  simp only [getPlaceable]
  have h0 := hb.skipBlank_le_E hp
  rcases (IH.expression _ h0).cases with ⟨e, q, hr, h1⟩ | ⟨e, q, hr, h1⟩ | ⟨m, hr⟩ | hr <;> simp only [hr] <;>
    try un_close
  have h2 := hb.skipBlankInline_le_E h1
  rcases expectByte_cases s (skipBlankInline s q) 125 with ⟨hx, hx'⟩ | ⟨hx, _⟩ <;> rw [hx] <;> simp only []
  · have := hb.stop2 h2 hx'
    split <;> un_close
  · un_close

theorem pattern_bar_step (hb : Bar s n E) {f : Nat} (IH : BSpecs s n E f) (p : Nat) (hp : p < n) :
    UN n E (getPattern s (f + 1) p) := by
  have hlt := hb.lt
  have key : ∀ role p2, p2 ≤ n → (p2 = n → role = TextPos.lineStart) →
      UN n E (match getPatternLoop s f ⟨[], none, none, role, none⟩ p2 with
        | .ok st q =>
          (match st.lastNonBlank with
           | some lnb =>
             (match finishElements s st.keptCommonIndent lnb 0 st.elements with
              | some els => .ok (some els) q
              | none => .panic "get_pattern slice")
           | none => .ok none q)
        | .err e q => .err e q
        | .panic m => .panic m
        | .fuel => .fuel) := by
    intro role p2 hle hrole
    rcases (IH.patternLoop ⟨[], none, none, role, none⟩ p2 hle hrole).cases with
      ⟨st, q, hr, h1⟩ | ⟨e, q, hr, h1⟩ | ⟨m, hr⟩ | hr <;> simp only [hr] <;> try un_close
    split
    · split <;> un_close
    · un_close
  simp only [getPattern]
  have h1 := hb.skipBlankInline_lt_n hp
  cases hE : skipEol s (skipBlankInline s p) with
  | none => exact key _ (skipBlankInline s p) (by omega) (fun h => by omega)
  | some q =>
    have h2 := hb.skipEol_le_n hE (by omega)
    have h3 := hb.skipBlankBlock_le_n h2
    exact key _ (skipBlankBlock s q).1 h3 (fun _ => rfl)

theorem callArguments_bar_step (hb : Bar s n E) {f : Nat} (IH : BSpecs s n E f) (p : Nat) (hp : p ≤ E) :
    UN E E (getCallArguments s (f + 1) p) := by
  have hlt := hb.lt
  simp only [getCallArguments]
  have h1 := hb.skipBlank_le_E hp
  rcases takeByteIf_cases s (skipBlank s p) 40 with ⟨h, h'⟩ | ⟨h, _⟩ <;> rw [h] <;> simp only []
  · have h2 := hb.stop2 h1 h'
    have h3 := hb.skipBlank_le_E (p := skipBlank s p + 1) (by omega)
    simp only [Bool.not_true, Bool.false_eq_true, if_false]
    rcases (IH.callArgsLoop [] [] _ h3).cases with
      ⟨⟨pos, named⟩, q, hr, h5⟩ | ⟨e, q, hr, h5⟩ | ⟨m, hr⟩ | hr <;> simp only [hr] <;> try un_close
    rcases expectByte_cases s q 41 with ⟨hx, hx'⟩ | ⟨hx, _⟩ <;> rw [hx] <;> simp only []
    · have := hb.stop2 h5 hx'; un_close
    · un_close
  · simp only [Bool.not_false, if_true]; un_close

theorem expression_bar_step (hb : Bar s n E) {f : Nat} (IH : BSpecs s n E f) (p : Nat) (hp : p ≤ E) :
    UN E E (getExpression s (f + 1) p) := by
  have hlt := hb.lt
  simp only [getExpression]
  rcases (IH.inline false p hp).cases with ⟨exp, q, hr, h1⟩ | ⟨e, q, hr, h1⟩ | ⟨m, hr⟩ | hr <;> simp only [hr] <;>
    try un_close
  have h5 := hb.skipBlank_le_E h1
  split
  · split <;> un_close
  · rename_i hc
    have hc' : s[skipBlank s q]? = some 45 ∧ s[skipBlank s q + 1]? = some 62 := by
      simpa [isCurrentByte_iff] using hc
    split
    · un_close
    · have h6 := hb.succ_le_E h5 hc'.1 (by decide)
      have h7 : skipBlank s q + 2 < n := hb.stop2 h6 hc'.2
      have h8 := hb.skipBlankInline_lt_n h7
      split
      · un_close
      · rename_i q3 hq3
        have h9 := hb.skipEol_le_n hq3 (by omega)
        have h10 := hb.skipBlank_le_n h9
        rcases (IH.variants false [] _ (hb.le_E h10)).cases with
          ⟨vs, q5, hr5, h11⟩ | ⟨e, q5, hr5, h11⟩ | ⟨m, hr5⟩ | hr5 <;> simp only [hr5] <;> un_close

theorem variants_bar_step (hb : Bar s n E) {f : Nat} (IH : BSpecs s n E f) (hd : Bool) (acc : List (Variant Span))
    (p : Nat) (hp : p ≤ E) : UN E E (getVariants s (f + 1) hd acc p) := by
  have hlt := hb.lt
  simp only [getVariants]
  have h1 := hb.takeByteIf_le_E (b := 42) hp (by decide)
  generalize takeByteIf s p 42 = t at h1 ⊢
  obtain ⟨p1, dflt⟩ := t
  simp only [] at h1 ⊢
  split
  · un_close
  · rcases takeByteIf_cases s p1 91 with ⟨h, h'⟩ | ⟨h, _⟩ <;> rw [h] <;> simp only []
    · simp only [Bool.not_true, Bool.false_eq_true, if_false]
      have h2 := hb.stop2 h1 h'
      have h3 := hb.skipBlank_le_n (p := p1 + 1) (by omega)
      have hk := hb.variantKey_E (hb.le_E h3)
      split
      · rename_i key q heq
        rw [show variantKey s (skipBlank s (p1 + 1)) = R.ok key q from heq] at hk
        simp only [un_ok] at hk
        have h9 := hb.skipBlank_le_E hk
        rcases expectByte_cases s (skipBlank s q) 93 with ⟨hx, hx'⟩ | ⟨hx, _⟩ <;> rw [hx] <;> simp only []
        · have h11 := hb.stop2 h9 hx'
          rcases (IH.pattern _ h11).cases with ⟨o, q3, hr3, h15⟩ | ⟨e3, q3, hr3, h15⟩ | ⟨m, hr3⟩ | hr3 <;>
            simp only [hr3] <;> try un_close
          cases o with
          | none => un_close
          | some value =>
            simp only []
            have h19 := hb.skipBlank_le_n h15
            exact IH.variants _ _ _ (hb.le_E h19)
        · un_close
      · rename_i e q heq
        rw [show variantKey s (skipBlank s (p1 + 1)) = R.err e q from heq] at hk
        simp only [un_err] at hk
        un_close
      · un_close
      · un_close
    · simp only [Bool.not_false, if_true]
      (repeat' split) <;> un_close

theorem callArgsLoop_bar_step (hb : Bar s n E) {f : Nat} (IH : BSpecs s n E f)
    (pos : List (Inline Span)) (named : List (Span × Inline Span)) (p : Nat) (hp : p ≤ E) :
    UN E E (getCallArgsLoop s (f + 1) pos named p) := by
  have hlt := hb.lt
  simp only [getCallArgsLoop]
  split
  · split
    · un_close
    · have next_ok : ∀ pos' named' q', q' ≤ E →
          UN E E (getCallArgsLoop s f pos' named' (skipBlank s (takeByteIf s (skipBlank s q') 44).fst)) := by
        intro pos' named' q' h1
        have h2 := hb.skipBlank_le_E h1
        have h3 := hb.takeByteIf_le_E (b := 44) h2 (by decide)
        exact IH.callArgsLoop pos' named' _ (hb.skipBlank_le_E h3)
      rcases (IH.inline false p hp).cases with ⟨exp, q, hr, h1⟩ | ⟨e, q, hr, h1⟩ | ⟨m, hr⟩ | hr <;> simp only [hr] <;>
        try un_close
      have h5 := hb.skipBlank_le_E h1
      split
      · rename_i id
        split
        · rename_i h58
          have h58 := (isCurrentByte_iff _ _ _).mp h58
          split
          · un_close
          · have h6 := hb.stop2 h5 h58
            have h7 := hb.skipBlank_le_E (p := skipBlank s q + 1) (by omega)
            rcases (IH.inline true _ h7).cases with
              ⟨val, q3, hr3, h9⟩ | ⟨e, q3, hr3, h9⟩ | ⟨m, hr3⟩ | hr3 <;> simp only [hr3] <;> try un_close
            exact next_ok _ _ q3 h9
        · split
          · un_close
          · exact next_ok _ _ _ h5
      · split
        · un_close
        · exact next_ok _ _ _ h1
  · un_close

theorem inline_bar_step (hb : Bar s n E) {f : Nat} (IH : BSpecs s n E f) (ol : Bool) (p : Nat) (hp : p ≤ E) :
    UN E E (getInline s (f + 1) ol p) := by
  have hlt := hb.lt
  simp only [getInline]
  have hfb : UN E E (if ol = true then (R.err (mkErr .expectedLiteral p) p : R (Inline Span))
      else .err (mkErr .expectedInlineExpression p) p) := by
    split <;> un_close
  split
  · exact hfb
  · rename_i b hb'
    split
    · rename_i h34
      have h34 : b = 34 := by simpa using h34
      subst h34
      have h1 := hb.stop2 hp hb'
      rcases (hb.scanString_lt h1).cases with ⟨_, q, hr, h2⟩ | ⟨e, q, hr, h2⟩ | ⟨m, hr⟩ | hr <;> simp only [hr] <;>
        try un_close
      rcases expectByte_cases s q 34 with ⟨hx, hx'⟩ | ⟨hx, _⟩ <;> rw [hx] <;> simp only []
      · split
        · un_close
        · split <;> un_close
      · un_close
    · split
      · rcases (hb.getNumberLiteral_E hp).cases with ⟨sp, q, hr, h1⟩ | ⟨e, q, hr, h1⟩ | ⟨m, hr⟩ | hr <;> simp only [hr] <;>
          un_close
      · split
        · rename_i h45
          have h45 : b = 45 := by simpa using h45
          subst h45
          split
          · rename_i hc
            have hc : isIdentifierStart s (p + 1) = true := by
              simp only [Bool.and_eq_true] at hc; exact hc.2
            obtain ⟨b1, hb1, hb2⟩ := (isIdentifierStart_iff s (p + 1)).mp hc
            have hp1 := hb.succ_le_E hp hb' (by decide)
            have hp2 := hb.succ_le_E hp1 hb1 (by intro h; subst h; exact absurd hb2 (by decide))
            rcases (hb.getIdentifierUnchecked_E hp2).cases with ⟨id, q, hr, h1⟩ | ⟨e, q, hr, h1⟩ | ⟨m, hr⟩ | hr <;>
              simp only [hr] <;> try un_close
            rcases (hb.getAttributeAccessor_E h1).cases with ⟨attr, q1, hr1, h6⟩ | ⟨e, q1, hr1, h6⟩ | ⟨m, hr1⟩ | hr1 <;>
              simp only [hr1] <;> try un_close
            rcases (IH.callArguments q1 h6).cases with ⟨args, q2, hr2, h9⟩ | ⟨e, q2, hr2, h9⟩ | ⟨m, hr2⟩ | hr2 <;>
              simp only [hr2] <;> un_close
          · rcases (hb.getNumberLiteral_E hp).cases with ⟨sp, q, hr, h1⟩ | ⟨e, q, hr, h1⟩ | ⟨m, hr⟩ | hr <;>
              simp only [hr] <;> un_close
        · split
          · rename_i h36
            have h36 : b = 36 := by
              simp only [Bool.and_eq_true, beq_iff_eq] at h36; exact h36.1
            subst h36
            have h1 := hb.stop2 hp hb'
            rcases (hb.getIdentifier_E (p := p + 1) (by omega)).cases with
              ⟨id, q, hr, h1⟩ | ⟨e, q, hr, h1⟩ | ⟨m, hr⟩ | hr <;> simp only [hr] <;> un_close
          · split
            · rename_i halpha
              have hp1 := hb.succ_le_E hp hb' (by intro h; subst h; exact absurd halpha (by decide))
              rcases (hb.getIdentifierUnchecked_E hp1).cases with ⟨id, q, hr, h1⟩ | ⟨e, q, hr, h1⟩ | ⟨m, hr⟩ | hr <;>
                simp only [hr] <;> try un_close
              rcases (IH.callArguments q h1).cases with ⟨args, q1, hr1, h6⟩ | ⟨e, q1, hr1, h6⟩ | ⟨m, hr1⟩ | hr1 <;>
                simp only [hr1] <;> try un_close
              cases args with
              | some pn =>
                obtain ⟨pos, named⟩ := pn
                simp only []
                split <;> un_close
              | none =>
                simp only []
                rcases (hb.getAttributeAccessor_E h6).cases with
                  ⟨attr, q2, hr2, h9⟩ | ⟨e, q2, hr2, h9⟩ | ⟨m, hr2⟩ | hr2 <;> simp only [hr2] <;> un_close
            · split
              · rename_i h123
                have h123 : b = 123 := by
                  simp only [Bool.and_eq_true, beq_iff_eq] at h123; exact h123.1
                subst h123
                have h1 := hb.stop2 hp hb'
                rcases (IH.placeable (p + 1) (by omega)).cases with ⟨e, q, hr, h1⟩ | ⟨e, q, hr, h1⟩ | ⟨m, hr⟩ | hr <;>
                  simp only [hr] <;> un_close
              · exact hfb

theorem patternLoop_bar_step (hb : Bar s n E) {f : Nat} (IH : BSpecs s n E f) (st : PatState) (p : Nat)
    (hp : p ≤ n) (hrole : p = n → st.role = .lineStart) : UN n E (getPatternLoop s (f + 1) st p) := by
  have hlt := hb.lt
  simp only [getPatternLoop]
  split
  · split
    · rename_i h123
      have h123 := (isCurrentByte_iff _ _ _).mp h123
      have h1 := hb.stop2 (hb.le_E hp) h123
      have hpl := IH.placeable (p + 1) (by omega)
      cases hr : getPlaceable s f (p + 1) with
      | ok e q =>
        rw [hr] at hpl
        simp only [un_ok] at hpl
        obtain ⟨q', rfl, h125⟩ := getPlaceable_ok_brace hr
        have := hb.stop2 (by omega) h125
        simp only []
        exact IH.patternLoop _ _ (by omega) (fun h => by omega)
      | err e q =>
        rw [hr] at hpl
        exact hpl
      | panic m => trivial
      | fuel => trivial
    · have hle := (skipBlankInline_after s p).le
      have hle_n := hb.skipBlankInline_le_n hp
      split
      · simp only [un_ok]
        split
        · split
          · exact hle_n
          · split
            · exact hp
            · exact hle_n
        · exact hle_n
      · rename_i indent p1 hpre
        have hp1 : p1 < n := by
          split at hpre
          · split at hpre
            · have hpn : p ≠ n := by
                intro hpn
                subst hpn
                rw [hb.skipBlankInline_at_n] at hpre
                simp [hb.not_isEol_n] at hpre
              have := hb.skipBlankInline_lt_n (p := p) (by omega)
              split at hpre <;> split at hpre <;> simp at hpre <;> obtain ⟨_, rfl⟩ := hpre <;> exact this
            · simp at hpre
          · rename_i hrl
            have hpn : p ≠ n := fun h => hrl (by simp [hrole h])
            simp at hpre
            obtain ⟨_, rfl⟩ := hpre
            omega
        clear hpre
        have hts := hb.getTextSlice_lt hp1
        cases hr : getTextSlice s p1 with
        | ok v q =>
          obtain ⟨start, stop, nb, term⟩ := v
          rw [hr] at hts
          simp only [] at hts ⊢
          split
          · refine IH.patternLoop _ _ hts.1 (fun h => ?_)
            have := hts.2 h
            subst this
            rfl
          · trivial
        | err e q =>
          rw [hr] at hts
          simp only [] at hts ⊢
          un_close
        | panic m => trivial
        | fuel => trivial
  · un_close

theorem bspecs_all (hb : Bar s n E) (f : Nat) : BSpecs s n E f := by
  induction f with
  | zero =>
    refine ⟨?_, ?_, ?_, ?_, ?_, ?_, ?_, ?_⟩ <;> intros <;>
      simp [getPatternLoop, getPattern, getPlaceable, getExpression, getInline, getCallArguments, getCallArgsLoop,
        getVariants]
  | succ f ih =>
    exact {
      patternLoop := fun st p h1 h2 => patternLoop_bar_step hb ih st p h1 h2
      pattern := fun p h => pattern_bar_step hb ih p h
      placeable := fun p h => placeable_bar_step hb ih p h
      expression := fun p h => expression_bar_step hb ih p h
      inline := fun ol p h => inline_bar_step hb ih ol p h
      callArguments := fun p h => callArguments_bar_step hb ih p h
      callArgsLoop := fun pos named p h => callArgsLoop_bar_step hb ih pos named p h
      variants := fun hd acc p h => variants_bar_step hb ih hd acc p h }

/-- `get_pattern`, started before `n`, succeeds at or before `n` and fails at or before `E` -/
theorem Bar.getPattern_lt (hb : Bar s n E) (f : Nat) {p : Nat} (hp : p < n) : UN n E (getPattern s f p) :=
  (bspecs_all hb f).pattern p hp

end FluentProofs.Parser
