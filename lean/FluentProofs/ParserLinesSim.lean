import FluentProofs.ParserLines
/-!
# C05: the runtime entry loop simulates the full entry loop on messages and terms

Simulation relation between the full loop at cursor `pf` and the runtime loop at cursor `pr`:
both are line starts (or at/after EOF) and **no position where a message or term could start**
(`RealStart`: a line start holding `[a-zA-Z]` or `-`) lies between them (`Zone`).

* If the full parser's cursor cannot start a message/term (`#`, or a byte that makes `get_message`
  fail on the spot), it steps alone: the step emits no message/term and does not pass a `RealStart`
  (`getEntry_lines`); likewise the runtime parser (`getEntryRuntime_lines`).
* Otherwise both cursors are `RealStart`s (or both are at/after EOF); the zone between them being free
  of `RealStart`s, they are equal, and the two dispatchers run the same `get_term`/`get_message` with the
  same result, junk recovery and next cursor.

Termination: the sum of the two loops' fuels.  No hypothesis on the source: the theorem is about runs that
ended in `done`.
-/
namespace FluentProofs.Parser
open FluentModel.Syntax

/-- no message/term start between the two cursors -/
def Zone (s : Src) (a b : Nat) : Prop := NoRS s (min a b) (max a b)

theorem Zone.refl (s : Src) (a : Nat) : Zone s a a := by
  intro x h1 h2
  have : min a a = a := Nat.min_self a
  have : max a a = a := Nat.max_self a
  omega

theorem Zone.symm {s : Src} {a b : Nat} (h : Zone s a b) : Zone s b a := by
  unfold Zone at h ⊢
  rwa [Nat.min_comm, Nat.max_comm]

theorem Zone.step_left {s : Src} {a a' b : Nat} (h : Zone s a b) (hle : a ≤ a') (hz : NoRS s a a') : Zone s a' b := by
  intro x h1 h2
  by_cases hx : a ≤ x ∧ x < a'
  · exact hz x hx.1 hx.2
  · refine h x ?_ ?_
    · have : min a b ≤ min a' b := by
        simp only [Nat.min_def]; split <;> split <;> omega
      omega
    · simp only [Nat.max_def] at h2 ⊢
      split at h2 <;> split <;> omega

theorem Zone.step_right {s : Src} {a b b' : Nat} (h : Zone s a b) (hle : b ≤ b') (hz : NoRS s b b') : Zone s a b' :=
  (h.symm.step_left hle hz).symm

theorem Zone.not_left {s : Src} {a b : Nat} (h : Zone s a b) (hlt : a < b) : ¬ RealStart s a :=
  h a (Nat.min_le_left _ _) (by have := Nat.le_max_right a b; omega)

theorem Zone.not_right {s : Src} {a b : Nat} (h : Zone s a b) (hlt : b < a) : ¬ RealStart s b :=
  h.symm.not_left hlt

theorem realStart_iff {s : Src} {p : Nat} (hp : LSE s p) (hlt : p < s.size) :
    RealStart s p ↔ ∃ b, s[p]? = some b ∧ isReal b = true :=
  ⟨fun h => h.2, fun h => ⟨hp.ls hlt, h⟩⟩

theorem realStart_not_hash {s : Src} {p : Nat} (h : RealStart s p) : s[p]? ≠ some 35 := by
  intro h35
  obtain ⟨_, b, hb, hr⟩ := h
  rw [h35] at hb; cases hb
  revert hr; decide

theorem realStart_lt {s : Src} {p : Nat} (h : RealStart s p) : p < s.size := by
  obtain ⟨_, b, hb, _⟩ := h
  exact get_lt hb

/-- where no comment is involved both dispatchers run the same entry parser -/
theorem getEntryRuntime_eq_of_not_hash (s : Src) (fuel p : Nat) (h : s[p]? ≠ some (35 : UInt8)) :
    getEntryRuntime s fuel p =
      (match getEntry s fuel p with
       | .ok e q => .ok (some e) q
       | .err e q => .err e q
       | .panic m => .panic m
       | .fuel => .fuel) := by
  rw [getEntry_of_not_hash s fuel p h, getEntryRuntime_of_not_hash s fuel p h]
  split
  · cases getTerm s fuel p p <;> rfl
  · cases getMessage s fuel p p <;> rfl

/-- **simulation**: from related cursors and bodies with the same messages/terms, the two loops finish with
the same messages/terms -/
theorem sim_msgsTerms (s : Src) (fuel : Nat) :
    ∀ k n m, n + m ≤ k →
      ∀ (bf : List (Entry Span)) (ef : List PErr) (lc : Option (List Span)) (lbc pf : Nat)
        (br : List (Entry Span)) (er : List PErr) (pr : Nat) (rf rr : List (Entry Span) × List PErr),
        LSE s pf → LSE s pr → Zone s pf pr → msgsTerms bf = msgsTerms br →
        parseLoop s fuel n bf ef lc lbc pf = .done rf → parseRuntimeLoop s fuel m br er pr = .done rr →
        msgsTerms rf.1 = msgsTerms rr.1 := by
  intro k
  induction k with
  | zero =>
    intro n m hk bf ef lc lbc pf br er pr rf rr _ _ _ _ hf _
    have : n = 0 := by omega
    subst this
    simp [parseLoop] at hf
  | succ k ih =>
    intro n m hk bf ef lc lbc pf br er pr rf rr hlf hlr hz hb hf hr
    cases n with
    | zero => simp [parseLoop] at hf
    | succ n =>
    cases m with
    | zero => simp [parseRuntimeLoop] at hr
    | succ m =>
    by_cases hA : pf < s.size ∧ ¬ RealStart s pf
    · -- the full parser steps alone
      obtain ⟨hlt, hnr⟩ := hA
      have hls := hlf.ls hlt
      have hel := getEntry_lines s fuel pf
      rcases parseLoop_step hlt hf with ⟨e, q, body', lc', hre, hloop, hm, _⟩ |
        ⟨e, q, q1, content, body', hre, hq1, _, hloop, hm, _⟩
      · rw [hre] at hel
        obtain ⟨h1, h2, h3⟩ := hel
        obtain ⟨h4, h5⟩ := h3 hls hnr
        refine ih n (m + 1) (by omega) _ _ _ _ _ br er pr rf rr (skipBlankBlock_LSE h2) hlr ?_ ?_ hloop hr
        · exact hz.step_left (by have := skipBlankBlock_le s q; omega) (h5.trans (skipBlankBlock_noRS s q))
        · rw [hm, h4, List.append_nil]; exact hb
      · rw [hre] at hel
        obtain ⟨_, h3⟩ := hel
        have h5 := h3 hls hnr q1 hq1
        have hge := skipToNextEntryStart_ge hq1
        refine ih n (m + 1) (by omega) _ _ _ _ _ br er pr rf rr
          (skipBlankBlock_LSE (skipToNextEntryStart_LSE hq1).next) hlr ?_ ?_ hloop hr
        · exact hz.step_left (by have := skipBlankBlock_le s q1; omega) (h5.trans (skipBlankBlock_noRS s q1))
        · rw [msgsTerms_append, hm]; simpa [msgsTerms] using hb
    · by_cases hB : pr < s.size ∧ ¬ RealStart s pr
      · -- the runtime parser steps alone
        obtain ⟨hlt, hnr⟩ := hB
        have hls := hlr.ls hlt
        have hel := getEntryRuntime_lines s fuel pr
        rcases parseRuntimeLoop_step hlt hr with ⟨o, q, body', hre, hloop, hm, _⟩ |
          ⟨e, q, q1, content, hre, hq1, _, hloop⟩
        · rw [hre] at hel
          obtain ⟨h1, h2, h3⟩ := hel
          obtain ⟨h4, h5⟩ := h3 hls hnr
          refine ih (n + 1) m (by omega) bf ef lc lbc pf _ er _ rf rr hlf (skipBlankBlock_LSE h2) ?_ ?_ hf hloop
          · exact hz.step_right (by have := skipBlankBlock_le s q; omega) (h5.trans (skipBlankBlock_noRS s q))
          · rw [hm, h4]; simpa [msgsTerms] using hb
        · rw [hre] at hel
          obtain ⟨_, h3⟩ := hel
          have h5 := h3 hls hnr q1 hq1
          have hge := skipToNextEntryStart_ge hq1
          refine ih (n + 1) m (by omega) bf ef lc lbc pf _ _ _ rf rr hlf
            (skipBlankBlock_LSE (skipToNextEntryStart_LSE hq1).next) ?_ ?_ hf hloop
          · exact hz.step_right (by have := skipBlankBlock_le s q1; omega) (h5.trans (skipBlankBlock_noRS s q1))
          · rw [msgsTerms_append]; simpa [msgsTerms] using hb
      · -- both cursors are message/term starts, or both are at the end
        have hA' : pf < s.size → RealStart s pf := fun h => Classical.byContradiction fun hn => hA ⟨h, hn⟩
        have hB' : pr < s.size → RealStart s pr := fun h => Classical.byContradiction fun hn => hB ⟨h, hn⟩
        by_cases hlt : pf < s.size
        · have hrs := hA' hlt
          have heq : pr = pf := by
            rcases Nat.lt_trichotomy pf pr with h | h | h
            · exact absurd hrs (hz.not_left h)
            · exact h.symm
            · exact absurd (hB' (by omega)) (hz.not_right h)
          subst heq
          have hd := getEntryRuntime_eq_of_not_hash s fuel pr (realStart_not_hash hrs)
          have hel := getEntry_lines s fuel pr
          rcases parseLoop_step hlt hf with ⟨e, q, body', lc', hre, hloop, hm, _⟩ |
            ⟨e, q, q1, content, body', hre, hq1, hsl, hloop, hm, _⟩
          · rw [hre] at hd hel
            rcases parseRuntimeLoop_step hlt hr with ⟨o, q', body'', hre', hloop', hm', _⟩ |
              ⟨e', q', q1', content', hre', _⟩
            · rw [hd] at hre'
              simp only [R.ok.injEq] at hre'
              obtain ⟨rfl, rfl⟩ := hre'
              refine ih n m (by omega) _ _ _ _ _ _ _ _ rf rr (skipBlankBlock_LSE hel.2.1) (skipBlankBlock_LSE hel.2.1)
                (Zone.refl _ _) ?_ hloop hloop'
              rw [hm, hm', hb]; rfl
            · rw [hd] at hre'; cases hre'
          · rw [hre] at hd
            rcases parseRuntimeLoop_step hlt hr with ⟨o, q', body'', hre', _⟩ |
              ⟨e', q', q1', content', hre', hq1', hsl', hloop'⟩
            · rw [hd] at hre'; cases hre'
            · rw [hd] at hre'
              simp only [R.err.injEq] at hre'
              obtain ⟨rfl, rfl⟩ := hre'
              rw [hq1] at hq1'
              cases hq1'
              have hl := skipBlankBlock_LSE (skipToNextEntryStart_LSE hq1).next
              refine ih n m (by omega) _ _ _ _ _ _ _ _ rf rr hl hl (Zone.refl _ _) ?_ hloop hloop'
              rw [msgsTerms_append, msgsTerms_append, hm, hb]
              simp [msgsTerms]
        · have hge : ¬ pr < s.size := by
            intro h
            have hrs := hB' h
            exact absurd hrs (hz.not_right (by omega))
          have h1 := parseLoop_end hlt hf
          have h2 := parseRuntimeLoop_end hge hr
          rw [h1.2.1, h2]; exact hb

end FluentProofs.Parser
