import FluentProofs.SerializerOutCr4
/-!
# Serializer lemmas, part 26: the patterns of ANY source are in the class after joining (C04)

`getPattern_mlPattern_joinAll`: for every source (no hypothesis on `\r`), the pattern returned by
`get_pattern`, with every text that does not end in `\n` joined to the text that follows it unless a `\r`
would meet a `\n` (`joinTop`, the top level of `nPat okSafe`), satisfies `mlPattern`.
`getPattern_mlPattern_join` is the same statement with the (now unused) hypothesis `NoLoneCR`, kept for the
files that use it.
-/
namespace FluentProofs.Ser
open FluentModel FluentModel.Syntax FluentModel.Syntax.Ser FluentProofs.Parser

theorem finish_mlPatternC {s : Src} {r0 : TextPos} (hr0 : r0 = .lineStart ∨ r0 = .initialLineStart)
    {st : PatState} {p' : Nat} (hI : PInvC s r0 st p') {lnb : Nat}
    (hl : st.lastNonBlank = some lnb) {els : List (PatElem Span)}
    (hf : finishElements s st.keptCommonIndent lnb 0 st.elements = some els) :
    mlPattern (joinTop (mapPat (spanBytes s) els)) = true := by
  obtain ⟨⟨ph, hph, hsv⟩, hk⟩ := hI.lnb lnb hl
  have hlt := getElem?_lt_length hph
  have hF := fin_shapeC (s := s) st.keptCommonIndent lnb _ st.elements (Nat.le_refl _) 0 (.first r0) els hI.chk
    (Nat.zero_le _) (by omega) (fun x hx => by rw [Nat.sub_zero, hph] at hx; cases hx; exact hsv) hf
  rw [Nat.sub_zero] at hF
  have hexc : excesses (nlOf (.first r0)) (joinTop (mapPat (spanBytes s) els)) = [] ∨
      0 ∈ excesses (nlOf (.first r0)) (joinTop (mapPat (spanBytes s) els)) := by
    rw [hF.exc, hk]
    generalize lineInds s (.first r0) (st.elements.take (lnb + 1)) = L
    cases hm : minL L with
    | none => left; rw [(minL_spec L).1.mp hm]; rfl
    | some c =>
      right
      have := ((minL_spec L).2 c hm).1
      rw [List.mem_map]
      exact ⟨c, this, by simp [eff]⟩
  refine mlPattern_of_strong _ (nlOf (.first r0)) hF.ne hF.ml hF.last hexc ?_ ?_
  · intro h0 v es hv
    rcases hr0 with h | h
    · subst h; cases h0
    · subst h; exact hF.firstI rfl v es hv
  · intro h0 v es hv
    rcases hr0 with h | h
    · subst h; exact hF.firstL rfl v es hv
    · subst h; cases h0

/-- **Every pattern `get_pattern` returns is in the class `mlPattern` after joining split line ends**
(ANY source — also with `\r` that is not followed by `\n`; any fuel, any start position). -/
theorem getPattern_mlPattern_joinAll (s : Src) (n p : Nat) (els : List (PatElem Span)) (q : Nat)
    (h : getPattern s n p = .ok (some els) q) : mlPattern (joinTop (mapPat (spanBytes s) els)) = true := by
  cases n with
  | zero => simp [getPattern] at h
  | succ n =>
    cases hE : skipEol s (skipBlankInline s p) with
    | none =>
      simp only [getPattern, hE] at h
      split at h <;> try (cases h; done)
      rename_i st q' hloop
      obtain ⟨p', hI⟩ := patternLoop_pinvC .initialLineStart n _ _ st q'
        (pinvC_init_inline _ (sbi_stop s p) hE) hloop
      split at h
      · rename_i lnb hl
        split at h <;> try (cases h; done)
        rename_i els' hf
        cases h
        exact finish_mlPatternC (Or.inr rfl) hI hl hf
      · cases h
    | some q0 =>
      simp only [getPattern, hE] at h
      split at h <;> try (cases h; done)
      rename_i st q' hloop
      obtain ⟨p', hI⟩ := patternLoop_pinvC .lineStart n _ _ st q' (pinvC_init_block q0) hloop
      split at h
      · rename_i lnb hl
        split at h <;> try (cases h; done)
        rename_i els' hf
        cases h
        exact finish_mlPatternC (Or.inl rfl) hI hl hf
      · cases h

/-- the same for sources in which every `\r` is followed by `\n` (the hypothesis is not needed any more) -/
theorem getPattern_mlPattern_join {s : Src} (_hcr : NoLoneCR s) (n p : Nat) (els : List (PatElem Span)) (q : Nat)
    (h : getPattern s n p = .ok (some els) q) : mlPattern (joinTop (mapPat (spanBytes s) els)) = true :=
  getPattern_mlPattern_joinAll s n p els q h

end FluentProofs.Ser
