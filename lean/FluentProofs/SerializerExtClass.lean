import FluentProofs.SerializerExtArgs
/-!
# Serializer lemmas, part 13d: the class of round-trippable patterns, closed under nesting (C04 / T3)

`rtInline` / `rtExpr` / `rtPattern`: inline expressions, expressions inside braces and patterns, with select
expressions allowed wherever the parser accepts them — as a pattern element, inside nested placeables
(`{{ $x -> … }}`, `{ { { $x -> … } } }`), inside call arguments (`{ F({ $x -> … }, k: G({ … })) }`) and inside
selectors (`{ F({ $x -> … }) -> … }`).  Every member round-trips at every indent level
(`rtInline_inlRT`, `rtExpr_exprRT`, `rtExpr_plRT`, `rtPattern_patRT`), by mutual structural induction.
-/
namespace FluentProofs.Ser
open FluentModel FluentModel.Syntax FluentModel.Syntax.Ser FluentProofs.Parser

mutual
/-- inline expressions of the class: like `validInline`, but a nested placeable may contain any `rtExpr`
(in particular a select expression) -/
def rtInline : Inline Bytes → Bool
  | .str v => validStrBody v
  | .num v => validNumber v
  | .var id => validIdent id
  | .msg id attr => validIdent id && optIdent attr
  | .term id attr none => validIdent id && optIdent attr
  | .term id attr (some (pos, named)) =>
    validIdent id && optIdent attr && rtInl pos && rtNamed named && namesNodup named
  | .fn id pos named => validIdent id && isCalleeName id && rtInl pos && rtNamed named && namesNodup named
  | .placeable e => rtExpr e
def rtInl : List (Inline Bytes) → Bool
  | [] => true
  | x :: xs => rtInline x && rtInl xs
def rtNamed : List (Bytes × Inline Bytes) → Bool
  | [] => true
  | (n, v) :: xs => validIdent n && isNamedValue v && rtInline v && rtNamed xs
/-- the expression inside `{ … }` (a pattern element or a nested placeable): an inline expression that is not
a term attribute, or a select whose selector is accepted by the parser, with exactly one default variant,
valid keys and class patterns as values -/
def rtExpr : Expr Bytes → Bool
  | .inline (.term _ (some _) _) => false
  | .inline i => rtInline i
  | .select sel vs => rtInline sel && selShapeB sel && rtVariants vs && decide ((vs.filter isDefault).length = 1)
def rtVariants : List (Variant Bytes) → Bool
  | [] => true
  | v :: vs => rtVariant v && rtVariants vs
def rtVariant : Variant Bytes → Bool
  | .mk key value _ => validKey key && mlPattern value && rtElems value
def rtElems : List (PatElem Bytes) → Bool
  | [] => true
  | .text _ :: es => rtElems es
  | .placeable x :: es => rtExpr x && rtElems es
end

/-- **`RoundTrippable` patterns**: `mlPattern` (line-split texts, line starts, common indent, trims) with
placeables of the class, recursively -/
def rtPattern (p : List (PatElem Bytes)) : Bool := mlPattern p && rtElems p

theorem rtExpr_inline {i : Inline Bytes} (h : rtExpr (.inline i) = true) :
    rtInline i = true ∧ ∀ a b c, i ≠ .term a (some b) c := by
  unfold rtExpr at h
  split at h
  · cases h
  · rename_i j hne heq
    cases heq
    exact ⟨h, fun a b c hi => hne a b c (by rw [hi])⟩
  · rename_i heq; cases heq

/-- literals, message references and function calls of the class are accepted as values of named arguments -/
theorem olFree_of_named (L : Nat) (v : Inline Bytes) (hnv : isNamedValue v = true) (hv : rtInline v = true) :
    OLFree L v := by
  apply olFree_of_head
  cases v with
  | str b => exact Or.inl ⟨b ++ [34], by simp [inlineText]⟩
  | num b =>
    simp only [rtInline] at hv
    rcases validNumber_head hv with ⟨d, rest, rfl, hd⟩ | ⟨d, rest, rfl, hd⟩
    · exact Or.inr (Or.inl ⟨d, rest, by simp [inlineText], hd⟩)
    · exact Or.inr (Or.inr (Or.inl ⟨d, rest, by simp [inlineText], hd⟩))
  | msg id attr =>
    simp only [rtInline, Bool.and_eq_true] at hv
    obtain ⟨c, rest, hidc, hc, _⟩ := validIdent_head hv.1
    exact Or.inr (Or.inr (Or.inr ⟨c, rest ++ attrBytes attr, by simp [inlineText, hidc], hc⟩))
  | fn id pos nm =>
    simp only [rtInline, Bool.and_eq_true] at hv
    obtain ⟨c, rest, hidc, hc, _⟩ := validIdent_head hv.1.1.1.1
    exact Or.inr (Or.inr (Or.inr ⟨c, _, by simp only [inlineText, hidc, List.cons_append]; rfl, hc⟩))
  | var id => simp [isNamedValue] at hnv
  | term a b c => simp [isNamedValue] at hnv
  | placeable e => simp [isNamedValue] at hnv

mutual
/-- **every inline expression of the class round-trips at every indent level** -/
theorem rtInline_inlRT (i : Inline Bytes) (h : rtInline i = true) (L : Nat) : InlRT L i := by
  cases i with
  | str v => exact inlRT_of_valid L _ (by simpa [rtInline, validInline] using h)
  | num v => exact inlRT_of_valid L _ (by simpa [rtInline, validInline] using h)
  | var v => exact inlRT_of_valid L _ (by simpa [rtInline, validInline] using h)
  | msg a b => exact inlRT_of_valid L _ (by simpa [rtInline, validInline] using h)
  | term id attr args =>
    cases args with
    | none => exact inlRT_of_valid L _ (by simpa [rtInline, validInline] using h)
    | some pn =>
      obtain ⟨pos, named⟩ := pn
      simp only [rtInline, Bool.and_eq_true] at h
      obtain ⟨⟨⟨⟨hid, hattr⟩, hpos⟩, hnamed⟩, hnd⟩ := h
      exact inlRT_term_args L id attr pos named hid hattr (rtInl_ok pos hpos L) (rtNamed_ok named hnamed L)
        (by simpa [namesNodup] using hnd)
  | fn id pos named =>
    simp only [rtInline, Bool.and_eq_true] at h
    obtain ⟨⟨⟨⟨hid, hcallee⟩, hpos⟩, hnamed⟩, hnd⟩ := h
    exact inlRT_fn L id pos named hid hcallee (rtInl_ok pos hpos L) (rtNamed_ok named hnamed L)
      (by simpa [namesNodup] using hnd)
  | placeable e =>
    simp only [rtInline] at h
    exact inlRT_placeable L e (rtExpr_exprRT e h L)
theorem rtInl_ok (xs : List (Inline Bytes)) (h : rtInl xs = true) (L : Nat) : ∀ x ∈ xs, InlRT L x := by
  cases xs with
  | nil => intro x hx; simp at hx
  | cons x0 xs =>
    simp only [rtInl, Bool.and_eq_true] at h
    intro x hx
    simp only [List.mem_cons] at hx
    rcases hx with hx | hx
    · rw [hx]; exact rtInline_inlRT x0 h.1 L
    · exact rtInl_ok xs h.2 L x hx
theorem rtNamed_ok (named : List (Bytes × Inline Bytes)) (h : rtNamed named = true) (L : Nat) : NamedOK L named := by
  cases named with
  | nil => intro x hx; simp at hx
  | cons x0 xs =>
    obtain ⟨n, v⟩ := x0
    simp only [rtNamed, Bool.and_eq_true] at h
    intro x hx
    simp only [List.mem_cons] at hx
    rcases hx with hx | hx
    · rw [hx]; exact ⟨h.1.1.1, rtInline_inlRT v h.1.2 L, olFree_of_named L v h.1.1.2 h.1.2⟩
    · exact rtNamed_ok xs h.2 L x hx
/-- **every expression of the class round-trips inside braces at every indent level** -/
theorem rtExpr_exprRT (e : Expr Bytes) (h : rtExpr e = true) (L : Nat) : ExprRT L e := by
  cases e with
  | inline i =>
    obtain ⟨hi, hnt⟩ := rtExpr_inline h
    exact exprRT_inline L i (rtInline_inlRT i hi L) hnt
  | select sel vs =>
    simp only [rtExpr, Bool.and_eq_true, decide_eq_true_eq] at h
    exact exprRT_select L sel vs (rtInline_inlRT sel h.1.1.1 L) h.1.1.2 (rtVariants_ok vs h.1.2 L) h.2
/-- **every placeable of the class round-trips as a pattern element at every indent level** -/
theorem rtExpr_plRT (x : Expr Bytes) (h : rtExpr x = true) (L : Nat) : PlRT L x := by
  cases x with
  | inline i =>
    obtain ⟨hi, hnt⟩ := rtExpr_inline h
    cases i with
    | placeable e =>
      simp only [rtInline] at hi
      exact plRT_double L e (rtExpr_exprRT e hi L)
    | str v => exact plRT_of_inlRT L _ (rtInline_inlRT _ hi L) (by intro e he; cases he) hnt
    | num v => exact plRT_of_inlRT L _ (rtInline_inlRT _ hi L) (by intro e he; cases he) hnt
    | var v => exact plRT_of_inlRT L _ (rtInline_inlRT _ hi L) (by intro e he; cases he) hnt
    | msg a b => exact plRT_of_inlRT L _ (rtInline_inlRT _ hi L) (by intro e he; cases he) hnt
    | term a b c => exact plRT_of_inlRT L _ (rtInline_inlRT _ hi L) (by intro e he; cases he) hnt
    | fn a b c => exact plRT_of_inlRT L _ (rtInline_inlRT _ hi L) (by intro e he; cases he) hnt
  | select sel vs =>
    simp only [rtExpr, Bool.and_eq_true, decide_eq_true_eq] at h
    exact plRT_of_select L sel vs
      (exprRT_select L sel vs (rtInline_inlRT sel h.1.1.1 L) h.1.1.2 (rtVariants_ok vs h.1.2 L) h.2)
theorem rtVariants_ok (vs : List (Variant Bytes)) (h : rtVariants vs = true) (L : Nat) :
    ∀ v ∈ vs, validKey (variantKey' v) = true ∧ PatRT (L + 1) (variantValue v) := by
  cases vs with
  | nil => intro v hv; simp at hv
  | cons v0 vs =>
    simp only [rtVariants, Bool.and_eq_true] at h
    intro v hv
    simp only [List.mem_cons] at hv
    rcases hv with hv | hv
    · rw [hv]; exact rtVariant_ok v0 h.1 L
    · exact rtVariants_ok vs h.2 L v hv
theorem rtVariant_ok (v : Variant Bytes) (h : rtVariant v = true) (L : Nat) :
    validKey (variantKey' v) = true ∧ PatRT (L + 1) (variantValue v) := by
  cases v with
  | mk key value d =>
    simp only [rtVariant, Bool.and_eq_true] at h
    exact ⟨h.1.1, patRT_of_ml (L + 1) value h.1.2 (fun x hx => rtElems_ok value h.2 _ x hx)⟩
theorem rtElems_ok (es : List (PatElem Bytes)) (h : rtElems es = true) (L : Nat) :
    ∀ x, PatElem.placeable x ∈ es → PlRT L x := by
  cases es with
  | nil => intro x hx; simp at hx
  | cons e es =>
    intro x hx
    cases e with
    | text v =>
      simp only [rtElems] at h
      simp only [List.mem_cons, reduceCtorEq, false_or] at hx
      exact rtElems_ok es h L x hx
    | placeable y =>
      simp only [rtElems, Bool.and_eq_true] at h
      simp only [List.mem_cons, PatElem.placeable.injEq] at hx
      rcases hx with hx | hx
      · rw [hx]; exact rtExpr_plRT y h.1 L
      · exact rtElems_ok es h.2 L x hx
end

/-- **every pattern of the class round-trips at every indent level** -/
theorem rtPattern_patRT (p : List (PatElem Bytes)) (h : rtPattern p = true) (L : Nat) : PatRT L p := by
  simp only [rtPattern, Bool.and_eq_true] at h
  exact patRT_of_ml L p h.1 (fun x hx => rtElems_ok p h.2 _ x hx)

/-! ## the class contains the select-free one -/

mutual
theorem rtInline_of_valid (i : Inline Bytes) (h : validInline i = true) : rtInline i = true := by
  cases i with
  | str v => simpa [rtInline, validInline] using h
  | num v => simpa [rtInline, validInline] using h
  | var v => simpa [rtInline, validInline] using h
  | msg a b => simpa [rtInline, validInline] using h
  | term id attr args =>
    cases args with
    | none => simpa [rtInline, validInline] using h
    | some pn =>
      obtain ⟨pos, named⟩ := pn
      simp only [validInline, Bool.and_eq_true] at h
      simp only [rtInline, Bool.and_eq_true]
      exact ⟨⟨⟨h.1.1.1, rtInl_of_valid pos h.1.1.2⟩, rtNamed_of_valid named h.1.2⟩, h.2⟩
  | fn id pos named =>
    simp only [validInline, Bool.and_eq_true] at h
    simp only [rtInline, Bool.and_eq_true]
    exact ⟨⟨⟨h.1.1.1, rtInl_of_valid pos h.1.1.2⟩, rtNamed_of_valid named h.1.2⟩, h.2⟩
  | placeable e =>
    cases e with
    | select a b => simp [validInline, validInner] at h
    | inline j =>
      have hv : validInner (.inline j) = true := by simpa [validInline] using h
      have hj := rtInline_of_valid j (validInner_inline hv)
      simp only [rtInline]
      cases j with
      | term a b c =>
        cases b with
        | some b => simp [validInner] at hv
        | none => simpa [rtExpr] using hj
      | str v => simpa [rtExpr] using hj
      | num v => simpa [rtExpr] using hj
      | var v => simpa [rtExpr] using hj
      | msg a b => simpa [rtExpr] using hj
      | fn a b c => simpa [rtExpr] using hj
      | placeable e => simpa [rtExpr] using hj
theorem rtInl_of_valid (xs : List (Inline Bytes)) (h : validInl xs = true) : rtInl xs = true := by
  cases xs with
  | nil => rfl
  | cons x xs =>
    simp only [validInl, Bool.and_eq_true] at h
    simp only [rtInl, Bool.and_eq_true]
    exact ⟨rtInline_of_valid x h.1, rtInl_of_valid xs h.2⟩
theorem rtNamed_of_valid (named : List (Bytes × Inline Bytes)) (h : validNamed named = true) : rtNamed named = true := by
  cases named with
  | nil => rfl
  | cons x xs =>
    obtain ⟨n, v⟩ := x
    simp only [validNamed, Bool.and_eq_true] at h
    simp only [rtNamed, Bool.and_eq_true]
    exact ⟨⟨h.1.1, rtInline_of_valid v h.1.2⟩, rtNamed_of_valid xs h.2⟩
end

/-- a valid select-free placeable is in the class -/
theorem rtExpr_of_validInner (i : Inline Bytes) (h : validInner (.inline i) = true) : rtExpr (.inline i) = true := by
  have hj := rtInline_of_valid i (validInner_inline h)
  cases i with
  | term a b c =>
    cases b with
    | some b => simp [validInner] at h
    | none => simpa [rtExpr] using hj
  | str v => simpa [rtExpr] using hj
  | num v => simpa [rtExpr] using hj
  | var v => simpa [rtExpr] using hj
  | msg a b => simpa [rtExpr] using hj
  | fn a b c => simpa [rtExpr] using hj
  | placeable e => simpa [rtExpr] using hj

theorem selShapeB_of_validSelector {sel : Inline Bytes} (h : validSelector sel = true) : selShapeB sel = true := by
  simp only [validSelector, Bool.and_eq_true] at h
  cases sel with
  | term a b c => cases b <;> simp_all [selShapeB]
  | _ => simp_all [selShapeB]

/-- a select with a valid select-free selector (the former definition of the class) is in the class -/
theorem rtExpr_select_of_valid (sel : Inline Bytes) (vs : List (Variant Bytes)) (hsel : validSelector sel = true)
    (hvs : rtVariants vs = true) (hdef : (vs.filter isDefault).length = 1) : rtExpr (.select sel vs) = true := by
  have h1 : validInline sel = true := by simp only [validSelector, Bool.and_eq_true] at hsel; exact hsel.1
  simp only [rtExpr, Bool.and_eq_true, decide_eq_true_eq]
  exact ⟨⟨⟨rtInline_of_valid sel h1, selShapeB_of_validSelector hsel⟩, hvs⟩, hdef⟩

end FluentProofs.Ser
