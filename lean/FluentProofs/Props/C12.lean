import FluentProofs.ConstTieNum
import FluentProofs.NumRules
import FluentProofs.NumMerge
import FluentProofs.BundleLocale
/-!
# C12 — numbers keep their written precision and select the locale's plural category

All theorems are about the executable model that the driver `fvm_num` runs
(`FluentModel/Num.lean`, `FluentModel/Plural.lean`).  Values are exact decimals (`Dec`); the tie to
`f64` is the correspondence check on the ≤ 15-significant-digit domain (DESIGN §4.5).  The theorems
about plural categories are parametric in the rule function; `cldrRule` (hand-transcribed CLDR 37)
and `crateRule` (what intl_pluralrules 7.0.2 computes) are instances.
-/
namespace FluentProofs.C12
open FluentModel FluentModel.Num FluentModel.Plural FluentProofs.Num

/-! ## written precision -/

/-- **literal_fraction_digits.**  For every source text that `FluentNumber::from_str` /
`FluentValue::try_number` turns into a number (number literals and numeric-string arguments):
the number remembers exactly the fraction digits that were written, and `as_string` prints a decimal
that denotes the same value and shows at least that many fraction digits, up to the clamp
`MAX_FRACTION_DIGITS` — exactly that many when the written count is within the clamp. -/
theorem literal_fraction_digits (src : Bytes) (n : FluentNumber) (h : tryNumber src = .number n) :
    ∃ d, parseDec src = some d ∧ n.value = d ∧
      n.options.minimumFractionDigits = (if (splitAtDot src).2.isSome then some d.frac.length else none) ∧
      ∃ p, parseDec (asString n) = some p ∧ p.valueEq d = true ∧
        min d.frac.length maxFractionDigits ≤ p.frac.length ∧
        (d.frac.length ≤ maxFractionDigits → p.frac.length = d.frac.length) := by
  unfold tryNumber at h
  cases hp : parseDec src with
  | none =>
    simp only [hp] at h
    split at h <;> simp at h
  | some d =>
    simp only [hp] at h
    split at h
    · simp at h
    · simp only [TryNum.number.injEq] at h
      subst h
      obtain ⟨hm, hnone, hsome⟩ := mfdOfSource_parseDec hp
      have hwf : WF d := parseDec_wf hp
      refine ⟨d, rfl, rfl, hm, ?_⟩
      have hid := hwf.int_digits.stripLeading
      have hin := stripLeadingZeros_ne_nil hwf.int_ne
      let n : FluentNumber := ⟨d, { minimumFractionDigits := mfdOfSource src }⟩
      have hvd : Digits (visibleFrac n) := visibleFrac_digits hwf
      have hstrip := stripTrailingZeros_visibleFrac n
      have hle := stripTrailingZeros_length_le d.frac
      have hval : ∀ f, stripTrailingZeros f = stripTrailingZeros d.frac →
          Dec.valueEq ⟨d.neg, stripLeadingZeros d.int, f⟩ d = true := by
        intro f hf
        unfold Dec.valueEq
        simp [stripLeadingZeros_idem, hf]
      rw [show asString ⟨d, { minimumFractionDigits := mfdOfSource src }⟩ = asString n from rfl, asString_eq hwf]
      cases hdot : (splitAtDot src).2 with
      | none =>
        -- no point written: nothing remembered, nothing padded
        have hf : d.frac = [] := hnone hdot
        have hmn : n.options.minimumFractionDigits = none := by
          show mfdOfSource src = none
          rw [hm, hdot]; rfl
        have hst : stripTrailingZeros ([] : List Nat) = [] := by decide
        have hnd : printedHasDot n = false := by
          unfold printedHasDot
          rw [hmn]
          show (false || !(stripTrailingZeros d.frac).isEmpty) = false
          rw [hf, hst]; rfl
        simp only [hnd, Bool.false_eq_true, if_false, List.append_nil]
        refine ⟨⟨d.neg, stripLeadingZeros d.int, []⟩, parseDec_printed_int d.neg hid hin, ?_, ?_, ?_⟩
        · apply hval; rw [hf]
        · simp [hf]
        · intro _; simp [hf]
      | some fb =>
        have hfn : d.frac ≠ [] := hsome (by rw [hdot]; rfl)
        have hmn : n.options.minimumFractionDigits = some d.frac.length := by
          show mfdOfSource src = some d.frac.length
          rw [hm, hdot]; rfl
        have hpos : 0 < d.frac.length := List.length_pos_iff.mpr hfn
        have hvlen : (visibleFrac n).length =
            (stripTrailingZeros d.frac).length +
              (min d.frac.length maxFractionDigits - (stripTrailingZeros d.frac).length) := by
          unfold visibleFrac
          rw [hmn]
          show (stripTrailingZeros d.frac ++ List.replicate _ 0).length = _
          simp only [List.length_append, List.length_replicate]
          rfl
        have hmax : 0 < maxFractionDigits := by decide
        have hvne : visibleFrac n ≠ [] := by
          intro he
          rw [he] at hvlen
          simp only [List.length_nil] at hvlen
          omega
        have hd : printedHasDot n = true := by
          unfold printedHasDot; rw [hmn]; rfl
        simp only [hd, if_true]
        refine ⟨⟨d.neg, stripLeadingZeros d.int, visibleFrac n⟩,
          parseDec_printed_frac d.neg hid hin hvd hvne, hval _ hstrip, ?_, ?_⟩
        · show min d.frac.length maxFractionDigits ≤ (visibleFrac n).length
          omega
        · intro hc
          show (visibleFrac n).length = d.frac.length
          omega

/-! ## NUMBER: options of the call override those of the value -/

/-- **number_options_override.**  `NUMBER(x, named…)` on a number keeps the value and yields, for
every option name, the value given by the last named argument that `merge` has an arm for
(`effective`), and otherwise the option the value already had.  (On anything but a number the
result is the error value.) -/
theorem number_options_override (n : FluentNumber) (more : List Val) (named : List (String × Val)) :
    ∃ m, fnNUMBER (.num n :: more) named = .num m ∧ m.value = n.value ∧
      ∀ name, getOption m.options name = (effective named name).getD (getOption n.options name) :=
  ⟨{ n with options := merge n.options named }, rfl, rfl, fun name => getOption_merge n.options named name⟩

theorem number_of_non_number (b : Bytes) (more : List Val) (named : List (String × Val)) :
    fnNUMBER (.str b :: more) named = .error ∧ fnNUMBER (.error :: more) named = .error ∧
    fnNUMBER [] named = .error := ⟨rfl, rfl, rfl⟩

/-! ## operands -/

/-- **operands_match_display.**  For a well-formed decimal value (everything `parseDec` yields,
`parseDec_wf`): the string `as_string` prints has CLDR operands `spec`, and whenever at most 18
fraction digits are visible and the integer part fits a `u64`, the operands the code computes
(`value.to_string()` through the `&str` parser, then the `minimum_fraction_digits` adjustment of `v`
and `f`) are these operands: same `i v w f t`, and `n` of the same numeric value.  No panic. -/
theorem operands_match_display (n : FluentNumber) (hwf : WF n.value) :
    ∃ spec, cldrOperands (asString n) = some spec ∧
      (spec.v ≤ 18 → spec.i ≤ u64Max →
        ∃ code, operandsOf n = some code ∧ Same code spec) := by
  refine ⟨_, cldrOperands_asString hwf, ?_⟩
  intro hv hi
  refine ⟨_, operandsOf_eq hwf hi hv, ?_, rfl, rfl, rfl, rfl, rfl⟩
  unfold Dec.valueEq
  simp [stripTrailingZeros_visibleFrac, stripTrailingZeros_idem]

/-- the same for a number that came from source text -/
theorem operands_match_display_of_source (src : Bytes) (n : FluentNumber) (h : tryNumber src = .number n) :
    ∃ spec, cldrOperands (asString n) = some spec ∧
      (spec.v ≤ 18 → spec.i ≤ u64Max → ∃ code, operandsOf n = some code ∧ Same code spec) := by
  obtain ⟨d, hp, hv, _⟩ := literal_fraction_digits src n h
  exact operands_match_display n (by rw [hv]; exact parseDec_wf hp)

/-! ## plural keys -/

/-- **plural_match_iff.**  A variant key that is a plural keyword (`zero one two few many other`)
matches the number `x` exactly when the rule (of the number's `type`) assigns that category to the
CLDR operands of the string `as_string` prints for `x` — visible fraction digits included.
Parametric in the rule function (any function that reads `n` through its value). -/
theorem plural_match_iff (rule : NumType → Rule) (hr : RespectsValue rule) (kw : Bytes) (c : Category)
    (hk : categoryOfKeyword kw = some c) (x : FluentNumber) (hwf : WF x.value) :
    ∃ spec, cldrOperands (asString x) = some spec ∧
      (spec.v ≤ 18 → spec.i ≤ u64Max →
        keyMatches (pluralCategoryWith rule) (.str kw) (.num x) =
          some (decide (rule x.options.type spec = c))) := by
  obtain ⟨spec, hs, hcode⟩ := operands_match_display x hwf
  refine ⟨spec, hs, ?_⟩
  intro hv hi
  obtain ⟨code, hc, hsame⟩ := hcode hv hi
  unfold keyMatches pluralCategoryWith
  simp only [hk, hc, Option.map_some, hr x.options.type code spec hsame]
  rfl

/-- an identifier key that is not a plural keyword never matches a number; a numeric key matches a
number exactly by `FluentNumber.eq` (value and options); a numeric key never matches a string -/
theorem other_keys (cat : FluentNumber → Option Category) (kw : Bytes) (a x : FluentNumber) (s : Bytes) :
    (categoryOfKeyword kw = none → keyMatches cat (.str kw) (.num x) = some false) ∧
    keyMatches cat (.num a) (.num x) = some (a.eq x) ∧
    keyMatches cat (.num a) (.str s) = some false ∧
    keyMatches cat (.str kw) (.str s) = some (kw == s) := by
  refine ⟨?_, rfl, rfl, rfl⟩
  intro h
  simp [keyMatches, h]

/-- **Variant order decides.**  The select writes the first variant (in source order) whose key
matches; in particular an exact numeric key wins over a plural keyword when — and only when — it
comes first. -/
theorem select_first_match (cat : FluentNumber → Option Category) (sel : Val) (hsel : sel ≠ .error)
    (pre post : List (Key × Bool)) (k : Key) (d : Bool)
    (hpre : ∀ kd ∈ pre, ∃ kv, keyValue kd.1 = .val kv ∧ keyMatches cat kv sel = some false)
    (hk : ∃ kv, keyValue k = .val kv ∧ keyMatches cat kv sel = some true) :
    selectVariant cat sel (pre ++ (k, d) :: post) = .idx pre.length := by
  obtain ⟨kv, h1, h2⟩ := hk
  unfold selectVariant
  have hm : firstMatch cat sel (pre ++ (k, d) :: post) 0 = some (.idx pre.length) := by
    rw [firstMatch_append cat sel pre _ 0 hpre]
    simp [firstMatch, h1, h2]
  cases sel with
  | error => exact absurd rfl hsel
  | str s => simp only [hm]
  | num x => simp only [hm]

/-- when no key matches, the default variant is written (the first one flagged as default) -/
theorem select_default (cat : FluentNumber → Option Category) (sel : Val) (vs : List (Key × Bool))
    (h : ∀ kd ∈ vs, ∃ kv, keyValue kd.1 = .val kv ∧ keyMatches cat kv sel = some false) :
    selectVariant cat sel vs =
      match firstDefault vs 0 with
      | some i => .idx i
      | none => .noDefault := by
  unfold selectVariant
  have hm := firstMatch_none cat sel vs 0 h
  cases sel <;> simp only [hm] <;> cases firstDefault vs 0 <;> rfl

/-- the plural category is defined (the Rust code does not panic) for every well-formed value with
at most 18 visible fraction digits and an integer part below 2^64 -/
theorem plural_category_total (locale : String) (n : FluentNumber) (hwf : WF n.value)
    (hv : (visibleFrac n).length ≤ 18) (hi : digitsToNat (stripLeadingZeros n.value.int) ≤ u64Max) :
    (pluralCategory locale n).isSome = true := by
  unfold pluralCategory pluralCategoryWith
  rw [operandsOf_eq hwf hi hv]; rfl

/-- "the rule of the bundle's FIRST locale": the formatters (plural rules included) of a bundle are created for the
head of its locale chain (`FluentBundle::new` / `new_concurrent`: `locales.first()`), so the category of every number
is the same for all chains with that head — nothing after the first locale is consulted -/
theorem first_locale_only (l : String) (r₁ r₂ : List String) (n : FluentNumber) :
    pluralCategory (memoizerLocale (l :: r₁)) n = pluralCategory (memoizerLocale (l :: r₂)) n :=
  FluentProofs.BundleLocale.category_tail_irrelevant l r₁ r₂ n

/-- TEST: `["xx", "pl"]` selects with the rules of `xx` (none of its own: negotiated to `en`), not with Polish ones -/
example : pluralCategory (memoizerLocale ["xx", "pl"]) ⟨⟨false, [2], []⟩, {}⟩ = some .other ∧
    pluralCategory "pl" ⟨⟨false, [2], []⟩, {}⟩ = some .few := by decide

/-! ## non-vacuity and CLDR sanity facts (these are TESTS on literals, checked by `decide`) -/

/-- a well-formed value (hypothesis of `operands_match_display`, `plural_match_iff`); every parsed source is one -/
example : WF ⟨true, [0, 1, 2], [5, 0]⟩ :=
  ⟨by decide, by intro d hd; simp at hd; omega, by intro d hd; simp at hd; omega⟩
example (src : Bytes) (d : Dec) (h : parseDec src = some d) : WF d := parseDec_wf h

/-- the rule tables are instances of the hypothesis of `plural_match_iff` -/
example : RespectsValue (cldrRule "ar") := cldrRule_respects "ar"
example : RespectsValue (crateRule "lt") := crateRule_respects "lt"

def ops (s : String) : Option Operands := cldrOperands (strBytes s)
def cat (lang : String) (ty : NumType) (s : String) : Option Category := (ops s).map (cldrRule lang ty)

-- TEST: operands of printed strings
example : ops "1.50" = some ⟨⟨false, [1], [5, 0]⟩, 1, 2, 1, 50, 5⟩ := by decide
example : ops "-0012.0" = some ⟨⟨false, [0, 0, 1, 2], [0]⟩, 12, 1, 0, 0, 0⟩ := by decide
example : ops "1." = some ⟨⟨false, [1], []⟩, 1, 0, 0, 0, 0⟩ := by decide
-- TEST: English — 1 is `one`, 1.0 is `other`
example : cat "en" .cardinal "1" = some .one := by decide
example : cat "en" .cardinal "1.0" = some .other := by decide
example : cat "en" .cardinal "-1" = some .one := by decide
example : cat "en" .ordinal "1" = some .one ∧ cat "en" .ordinal "2" = some .two ∧ cat "en" .ordinal "3" = some .few ∧
    cat "en" .ordinal "11" = some .other ∧ cat "en" .ordinal "112" = some .other ∧ cat "en" .ordinal "23" = some .few := by decide
-- TEST: Polish, Russian, Arabic, French, Czech, Lithuanian, Japanese
example : cat "pl" .cardinal "1" = some .one ∧ cat "pl" .cardinal "2" = some .few ∧ cat "pl" .cardinal "5" = some .many ∧
    cat "pl" .cardinal "12" = some .many ∧ cat "pl" .cardinal "22" = some .few ∧ cat "pl" .cardinal "1.5" = some .other := by decide
example : cat "ru" .cardinal "21" = some .one ∧ cat "ru" .cardinal "11" = some .many ∧ cat "ru" .cardinal "3" = some .few ∧
    cat "ru" .cardinal "21.0" = some .other := by decide
example : cat "ar" .cardinal "0" = some .zero ∧ cat "ar" .cardinal "2" = some .two ∧ cat "ar" .cardinal "11" = some .many ∧
    cat "ar" .cardinal "103" = some .few ∧ cat "ar" .cardinal "100" = some .other ∧ cat "ar" .cardinal "3.0" = some .few := by decide
example : cat "fr" .cardinal "0" = some .one ∧ cat "fr" .cardinal "1.9" = some .one ∧ cat "fr" .cardinal "2" = some .other ∧
    cat "fr" .ordinal "1" = some .one ∧ cat "fr" .ordinal "2" = some .other := by decide
example : cat "cs" .cardinal "3" = some .few ∧ cat "cs" .cardinal "1.0" = some .many ∧ cat "cs" .cardinal "5" = some .other := by decide
example : cat "lt" .cardinal "21" = some .one ∧ cat "lt" .cardinal "22" = some .few ∧ cat "lt" .cardinal "11" = some .other ∧
    cat "lt" .cardinal "1.5" = some .many := by decide
example : cat "ja" .cardinal "1" = some .other := by decide

-- TEST (known finding F26): where intl_pluralrules 7.0.2 leaves CLDR
example : (ops "103").map (crateRule "ar" .cardinal) = some .other ∧ cat "ar" .cardinal "103" = some .few := by decide
example : (ops "22").map (crateRule "lt" .cardinal) = some .other ∧ cat "lt" .cardinal "22" = some .few := by decide
example : (ops "1.5").map (crateRule "en" .ordinal) = some .one ∧ cat "en" .ordinal "1.5" = some .other := by decide

-- TEST: the whole path of the code on `1.0` in English: remembered digits, printing, operands, category, selection
example : tryNumber (strBytes "1.0") = .number ⟨⟨false, [1], [0]⟩, { minimumFractionDigits := some 1 }⟩ := by rfl
example : ruleLocale "en-US" .cardinal = "en" ∧ ruleLocale "pl" .ordinal = "pl" ∧ ruleLocale "xx" .cardinal = "en" ∧
    ruleLocale "ar-EG" .cardinal = "ar" := by decide
-- TEST: negotiation with the crate's one region-specific entry: exact `pt-PT` (cardinal only) wins over `pt`
example : ruleLocale "pt-PT" .cardinal = "pt-PT" ∧ ruleLocale "pt" .cardinal = "pt" ∧ ruleLocale "pt-BR" .cardinal = "pt" ∧
    ruleLocale "pt-AO" .cardinal = "pt" ∧ ruleLocale "pt-PT" .ordinal = "pt" ∧ ruleLocale "pt-Latn-PT" .cardinal = "en" ∧
    localeShape "pt-Latn-PT" = none := by decide
-- TEST: pt versus pt-PT on 0 and 1.5 (pt one: i = 0..1; pt-PT one: i = 1 and v = 0)
example : cat "pt" .cardinal "0" = some .one ∧ cat "pt-PT" .cardinal "0" = some .other ∧
    cat "pt" .cardinal "1.5" = some .one ∧ cat "pt-PT" .cardinal "1.5" = some .other ∧
    cat "pt" .cardinal "1" = some .one ∧ cat "pt-PT" .cardinal "1" = some .one ∧
    cat "pt" .cardinal "2" = some .other ∧ cat "pt-PT" .cardinal "1.0" = some .other := by decide
example : pluralCategory "pt-PT" ⟨⟨false, [0], []⟩, {}⟩ = some .other ∧ pluralCategory "pt-BR" ⟨⟨false, [0], []⟩, {}⟩ = some .one ∧
    pluralCategory "pt-PT" ⟨⟨false, [1], [5]⟩, {}⟩ = some .other ∧ pluralCategory "pt" ⟨⟨false, [1], [5]⟩, {}⟩ = some .one := by decide
example : asString ⟨⟨false, [1], [0]⟩, { minimumFractionDigits := some 1 }⟩ = strBytes "1.0" := by decide
example : operandsOf ⟨⟨false, [1], [0]⟩, { minimumFractionDigits := some 1 }⟩ =
    some ⟨⟨false, [1], []⟩, 1, 1, 0, 0, 0⟩ := by decide
example : pluralCategory "en-US" ⟨⟨false, [1], [0]⟩, { minimumFractionDigits := some 1 }⟩ = some .other := by decide
example : pluralCategory "en" ⟨⟨false, [1], []⟩, {}⟩ = some .one := by decide
-- TEST: `[one] … [1] … *[other]` versus `[1] … [one] … *[other]` on the selector 1: the first matching key wins
example : selectVariant (pluralCategory "en") (.num ⟨⟨false, [1], []⟩, {}⟩)
    [(.ident (strBytes "one"), false), (.numLit (strBytes "1"), false), (.ident (strBytes "other"), true)] = .idx 0 := by decide
example : selectVariant (pluralCategory "en") (.num ⟨⟨false, [1], []⟩, {}⟩)
    [(.numLit (strBytes "1"), false), (.ident (strBytes "one"), false), (.ident (strBytes "other"), true)] = .idx 0 := by decide
example : selectVariant (pluralCategory "en") (.num ⟨⟨false, [1], []⟩, {}⟩)
    [(.numLit (strBytes "1.0"), false), (.ident (strBytes "one"), false), (.ident (strBytes "other"), true)] = .idx 1 := by decide
-- TEST: NUMBER(1, minimumFractionDigits: 1) is `other` in English, prints `1.0`
example : fnNUMBER [.num ⟨⟨false, [1], []⟩, {}⟩] [("minimumFractionDigits", .num ⟨⟨false, [1], []⟩, {}⟩)] =
    .num ⟨⟨false, [1], []⟩, { minimumFractionDigits := some 1 }⟩ := by decide
example : effective [("type", .str (strBytes "ordinal")), ("type", .num ⟨⟨false, [1], []⟩, {}⟩)] "type" = some "ordinal" := by
  decide
-- TEST: an explicit `type: "cardinal"` on a number that already is ordinal (handed over by the caller, or the result of an
-- inner NUMBER call) makes it cardinal again - the call's option replaces the value's; English 2 is then `other`, not `two`
example : fnNUMBER [.num ⟨⟨false, [2], []⟩, { type := .ordinal }⟩] [("type", .str (strBytes "cardinal"))] =
    .num ⟨⟨false, [2], []⟩, { type := .cardinal }⟩ := by decide
example : pluralCategory "en" ⟨⟨false, [2], []⟩, { type := .ordinal }⟩ = some .two ∧
    pluralCategory "en" ⟨⟨false, [2], []⟩, { type := .cardinal }⟩ = some .other := by decide

end FluentProofs.C12
