import FluentProofs.ConstTieSyntax
import FluentProofs.ParserHoareEntry
/-!
# C01 — parsing is total

For **every** input string the full parser model `parse` and the runtime parser model
`parseRuntime` finish with `Outcome.done`: no Rust panic site is reachable (every `&str[a..b]` is
in range and on char boundaries, no `usize` underflow, both `unreachable!` arms are dead) and the
fuel the drivers pass (`exprFuel s = 8·len + 16` for the mutually recursive expression/pattern
functions, `len + 1` for the entry loops, `len - p + 1` for `get_attributes`/`get_comment`) is
never exhausted — i.e. every loop makes progress.  Moreover every string stored in the resulting
tree and every error's `slice` is a byte range on which Rust's slicing is defined.

The only fact about UTF-8 that is used is `AsciiThenBoundary` ("the position after an ASCII byte
is a char boundary"); it is proved for the bytes of every `String`
(`asciiThenBoundary_of_string`), so the `String`-level theorems carry no hypothesis.

Proof structure: one Hoare-style lemma per parser function (`FluentProofs/ParserBasics.lean`,
`ParserHoareAst.lean`, `ParserHoareExpr.lean`, `ParserHoareEntry.lean`); the eight mutually
recursive functions are handled by a joint induction on fuel with the quantitative precondition
`4·(len − p) + rank ≤ fuel`.
-/
namespace FluentProofs.C01
open FluentModel.Syntax FluentProofs.Parser

/-- Rust's `&source[a..b]` is defined (in range, both ends on char boundaries). -/
def ValidSlice (s : Src) (sp : Span) : Prop := slice s sp.start sp.stop = some sp

theorem vspan_eq_validSlice (s : Src) : VSpan s = ValidSlice s :=
  funext fun _ => propext ⟨VSpan.slice, fun h => (slice_eq_some h).2⟩

/-- every string of the tree and every error slice is a valid slice of `s` -/
def ResultValid (s : Src) (r : Resource Span × List PErr) : Prop :=
  (∀ e ∈ r.1, allEntry (ValidSlice s) e) ∧
  (∀ e ∈ r.2, ∀ a b, e.slice = some (a, b) → slice s a b = some ⟨a, b⟩)

theorem resultValid_of_done {s : Src} {o : Outcome (Resource Span × List PErr)} (h : Done s o) :
    ∃ r, o = .done r ∧ ResultValid s r := by
  obtain ⟨r, h1, h2, h3⟩ := h
  refine ⟨r, h1, ?_, ?_⟩
  · rw [← vspan_eq_validSlice]; exact h2
  · intro e he a b hab
    exact (h3 e he a b hab).slice

/-- **Totality + slice validity of the full parser on any byte source with the `&str` invariant.** -/
theorem parse_total_src (s : Src) (hs : AsciiThenBoundary s) : ∃ r, parse s = .done r ∧ ResultValid s r := by
  unfold parse
  have hA := skipBlankBlock_after s 0
  have hb := hA.bnd hs (bnd_zero s)
  exact resultValid_of_done
    (parseLoop_done hs (s.size + 1) [] [] none 0 _ hb.le hb (by omega) (by simp) (by simp) (by simp))

/-- **Totality + slice validity of the runtime parser on any byte source with the `&str` invariant.** -/
theorem parseRuntime_total_src (s : Src) (hs : AsciiThenBoundary s) :
    ∃ r, parseRuntime s = .done r ∧ ResultValid s r := by
  unfold parseRuntime
  have hA := skipBlankBlock_after s 0
  have hb := hA.bnd hs (bnd_zero s)
  exact resultValid_of_done
    (parseRuntimeLoop_done hs (s.size + 1) [] [] _ (fun _ => hb) (by omega) (by simp) (by simp))

/-- **C01 (full parser).**  For every string, `parse` on its UTF-8 bytes returns `done`: no panic,
no fuel exhaustion. -/
theorem parse_total (str : String) : ∃ r, parse str.toUTF8.data = .done r := by
  obtain ⟨r, h, _⟩ := parse_total_src _ (asciiThenBoundary_of_string str)
  exact ⟨r, h⟩

/-- **C01 (runtime parser).** -/
theorem parseRuntime_total (str : String) : ∃ r, parseRuntime str.toUTF8.data = .done r := by
  obtain ⟨r, h, _⟩ := parseRuntime_total_src _ (asciiThenBoundary_of_string str)
  exact ⟨r, h⟩

/-- **C01 (slices).**  Every `Span` in the tree returned by `parse` (identifiers, text elements,
literals, comment lines, junk, …) and every error's `slice` is a byte range `a..b` with
`slice s a b = some ⟨a, b⟩`, i.e. `a ≤ b ≤ len` and both ends are char boundaries; so the borrowed
(`&str`) and owned (`String`) instantiations slice exactly the same, well-defined ranges. -/
theorem parse_slices_valid (str : String) (r : Resource Span × List PErr)
    (h : parse str.toUTF8.data = .done r) : ResultValid str.toUTF8.data r := by
  obtain ⟨r', h', hv⟩ := parse_total_src _ (asciiThenBoundary_of_string str)
  rw [h] at h'
  cases h'
  exact hv

/-- **C01 (slices, runtime parser).** -/
theorem parseRuntime_slices_valid (str : String) (r : Resource Span × List PErr)
    (h : parseRuntime str.toUTF8.data = .done r) : ResultValid str.toUTF8.data r := by
  obtain ⟨r', h', hv⟩ := parseRuntime_total_src _ (asciiThenBoundary_of_string str)
  rw [h] at h'
  cases h'
  exact hv

/-- **Fuel sufficiency, explicitly.**  The entry loop needs at most `len + 1` iterations and the
expression/pattern functions at most `exprFuel s = 8·len + 16` nested calls: with exactly these
amounts (the ones `parse` passes) the loop never reports `outOfFuel`. -/
theorem parse_fuel_sufficient (str : String) :
    ∃ r, parseLoop str.toUTF8.data (exprFuel str.toUTF8.data) (str.toUTF8.data.size + 1) [] [] none 0
      (skipBlankBlock str.toUTF8.data 0).1 = .done r :=
  parse_total str

/-! ## non-vacuity and sanity tests (`decide +kernel` on literals: these are tests, not proofs of the property) -/

/-- test: `"a = {$x}\n# c\n-t = v\n"` parses to two entries (the comment is attached to the term) without errors -/
example : (match parse #[97, 32, 61, 32, 123, 36, 120, 125, 10, 35, 32, 99, 10, 45, 116, 32, 61, 32, 118, 10] with
    | .done r => r.1.length == 2 && r.2.isEmpty
    | _ => false) = true := by decide +kernel

/-- test: junk recovery — `"é = 1\nb = 2\n"` gives one junk entry, one message and one error -/
example : (match parse #[0xC3, 0xA9, 32, 61, 32, 49, 10, 98, 32, 61, 32, 50, 10] with
    | .done r => r.1.length == 2 && r.2.length == 1
    | _ => false) = true := by decide +kernel

/-- test: the runtime parser skips the comment of the first example -/
example : (match parseRuntime #[97, 32, 61, 32, 123, 36, 120, 125, 10, 35, 32, 99, 10, 45, 116, 32, 61, 32, 118, 10] with
    | .done r => r.1.length == 2 && r.2.isEmpty
    | _ => false) = true := by decide +kernel

/-- test: the `&str` invariant is needed — on the non-UTF-8 bytes `61 80` (`a` followed by a stray
continuation byte) the identifier slice `0..1` ends off a char boundary and the model panics, as
Rust's `&str[0..1]` would if such a `&str` could exist. -/
example : (match parse #[97, 0x80] with
    | .panic _ => true
    | _ => false) = true := by decide +kernel

/-- the hypothesis of the `_src` theorems is satisfiable by every string -/
example : AsciiThenBoundary "a = é😀\n".toUTF8.data := asciiThenBoundary_of_string _

end FluentProofs.C01
