import FluentModel.Parser
namespace FluentProofs.C01
open FluentModel.Syntax
theorem placeholder : True := trivial
end FluentProofs.C01
