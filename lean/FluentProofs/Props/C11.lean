import FluentProofs.BytesOrder
/-!
# C11 — FluentArgs is a map: last write wins, lookup finds every key

Model: `FluentModel.Args` (`setL`/`getL`/`fromPairs`, keys = UTF-8 bytes in Rust `str` order).
All theorems quantify over *every* sequence of `set` operations (`ops`), every key and every
value type `V` (values are stored and returned unchanged: the model is parametric in `V`, which
is the "values round-trip unchanged" clause).
-/
namespace FluentProofs.C11
open FluentModel FluentModel.Args

variable {V : Type}

/-- state after `FluentArgs::new()` and any sequence of `set` calls
(= `from_iter` = `fluent_args!`, which are folds of `set`) -/
abbrev run (ops : List (Bytes × V)) : List (Bytes × V) := fromPairs bytesLt ops

/-- The vector is strictly sorted by key after every history (the invariant `get` relies on). -/
theorem C11_invariant (ops : List (Bytes × V)) : Sorted bytesLt (run ops) :=
  sorted_fromPairs bytesLt_strictTotal [] ops trivial

/-- `get` returns the value most recently set for the key, and nothing for keys never set. -/
theorem C11_last_write_wins (ops : List (Bytes × V)) (k : Bytes) :
    getL bytesLt (run ops) k = (ops.reverse.find? (fun p => p.1 = k)).map (·.2) := by
  have := getL_foldl bytesLt_strictTotal ([] : List (Bytes × V)) ops k trivial
  unfold run fromPairs
  rw [this]
  cases ops.reverse.find? (fun p => p.1 = k) <;> simp [getL]

/-- one-step form of the map law (for states reached by any history) -/
theorem C11_get_set (ops : List (Bytes × V)) (k k' : Bytes) (v : V) :
    getL bytesLt (setL bytesLt (run ops) k v) k' = if k' = k then some v else getL bytesLt (run ops) k' :=
  getL_setL bytesLt_strictTotal _ k v k' (C11_invariant ops)

/-- iteration yields exactly the keys that were set … -/
theorem C11_iter_keys (ops : List (Bytes × V)) (k : Bytes) :
    k ∈ keys (run ops) ↔ k ∈ ops.map (·.1) := by
  have := mem_keys_foldl bytesLt_strictTotal ([] : List (Bytes × V)) ops k
  simpa [keys, run, fromPairs] using this

/-- … each exactly once … -/
theorem C11_iter_nodup (ops : List (Bytes × V)) : (keys (run ops)).Nodup :=
  sorted_keys_nodup bytesLt_strictTotal _ (C11_invariant ops)

/-- … and every pair iteration yields is what `get` returns for that key. -/
theorem C11_iter_values (ops : List (Bytes × V)) (p : Bytes × V) (hp : p ∈ run ops) :
    getL bytesLt (run ops) p.1 = some p.2 := by
  have hs := C11_invariant ops
  generalize run ops = l at hp hs
  induction l with
  | nil => cases hp
  | cons q r ih =>
    obtain ⟨k₁, v₁⟩ := q
    have h' := (sorted_cons_iff bytesLt_strictTotal k₁ v₁ r).1 hs
    rcases List.mem_cons.1 hp with rfl | hp
    · simp [getL, bytesLt_irrefl]
    · have hlt : bytesLt k₁ p.1 = true := h'.1 p hp
      simp [getL, hlt, ih hp h'.2]

/-- The result does not depend on how the arguments were inserted: two histories that leave the
same final map leave the *same value* (used by C08). -/
theorem C11_canonical (ops₁ ops₂ : List (Bytes × V))
    (h : ∀ k, getL bytesLt (run ops₁) k = getL bytesLt (run ops₂) k) : run ops₁ = run ops₂ :=
  sorted_ext bytesLt_strictTotal _ _ (C11_invariant ops₁) (C11_invariant ops₂) h

/-- non-vacuity / sanity: a concrete history with an overwrite, an empty key and a prefix pair -/
example :
    run [([98], 1), ([], 2), ([97, 98], 3), ([97], 4), ([98], 5)]
      = [([], 2), ([97], 4), ([97, 98], 3), ([98], 5)] := by decide

end FluentProofs.C11
