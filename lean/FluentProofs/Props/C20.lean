import FluentProofs.Pseudo
/-!
# C20 — pseudolocalisation changes only ASCII letters and never touches markup

Model: `FluentModel.Pseudo` (transcribed from `fluent-pseudo/src/lib.rs`; table lookups, `usize`
subtractions, `&s[a..b]` and `replace_range` are explicit possibly-panicking operations on **byte**
offsets).  Specification: `imgChar` / `image` (`FluentProofs.Pseudo`).  All theorems hold for *every*
string, every flag combination and *any* four tables with 26 entries (`FullTables`); the tables extracted
from the source satisfy that (`C20_generated_tables_full`, re-checked against the source on every run).
-/
namespace FluentProofs.C20
open FluentModel FluentModel.Pseudo FluentProofs.Pseudo

/-- **`transform` never panics and is the per-character image**: the output is the concatenation, over
the input's characters in order, of `imgChar` – the table counterpart for ASCII letters, the character itself
otherwise.  (No table index is out of bounds.) -/
theorem C20_transform_spec (T : Tables) (hT : FullTables T) (flipped elongate : Bool) (s : List Char) :
    transform T flipped elongate s = .done (s.flatMap (imgChar T flipped elongate)) :=
  transform_spec T hT flipped elongate s

/-- **What the image of a character is**: a lower-case ASCII letter becomes its entry in the selected
small table, twice exactly when elongation is on and the letter is one of `a e o u`; an upper-case letter
becomes its entry in the selected capitals table, once; every other character is left untouched. -/
theorem C20_imgChar_cases (T : Tables) (flipped elongate : Bool) (c : Char) :
    (isLower c → imgChar T flipped elongate c =
        List.replicate (if elongate = true ∧ isElongated c then 2 else 1)
          (Char.ofNat ((smallOf T flipped).getD (c.toNat - 97) 0))) ∧
    (isUpper c → imgChar T flipped elongate c = [Char.ofNat ((capsOf T flipped).getD (c.toNat - 65) 0)]) ∧
    (¬ isLower c → ¬ isUpper c → imgChar T flipped elongate c = [c]) := by
  refine ⟨?_, ?_, ?_⟩
  · intro h
    unfold imgChar
    rw [if_pos h]
    by_cases he : elongate = true ∧ isElongated c
    · simp only [if_pos he]; rfl
    · simp only [if_neg he]; rfl
  · intro h
    have hn : ¬ isLower c := by unfold isLower; unfold isUpper at h; omega
    unfold imgChar
    rw [if_neg hn, if_pos h]
  · intro h1 h2
    unfold imgChar
    rw [if_neg h1, if_neg h2]

/-- **Everything that is not an ASCII letter stays in place**: a non-letter `c` between any two texts is
found, unchanged, between their images. -/
theorem C20_nonletter_in_place (T : Tables) (hT : FullTables T) (flipped elongate : Bool)
    (a b : List Char) (c : Char) (hc : ¬ isLower c ∧ ¬ isUpper c) :
    transform T flipped elongate (a ++ c :: b) =
      .done (image T flipped elongate a ++ c :: image T flipped elongate b) := by
  rw [transform_spec T hT]
  have := (C20_imgChar_cases T flipped elongate c).2.2 hc.1 hc.2
  simp [image, this]

/-- **Length facts**: one output character per input character plus one per doubled letter (so nothing is
dropped or invented), and the output is never shorter in bytes than the input (the fact that keeps `diff` from
underflowing). -/
theorem C20_transform_length (T : Tables) (flipped elongate : Bool) (s : List Char) :
    (image T flipped elongate s).length =
        s.length + (if elongate = true then s.countP (fun c => decide (isElongated c)) else 0) ∧
      blen s ≤ blen (image T flipped elongate s) :=
  ⟨length_image T flipped elongate s, blen_image_ge T flipped elongate s⟩

/-- **Markup-aware variant, on every ordered, non-overlapping, boundary-aligned match list** (whatever
the regex engine reports, as long as it is of that shape): the input decomposes as
`seg₀ tag₀ seg₁ tag₁ … segₙ` along the matches and the result is
`t(seg₀) tag₀ t(seg₁) tag₁ … t(segₙ)` – every tag/entity byte-identical and in order, every text segment
transformed with the *caller's* `flipped`/`elongate`, brackets iff `with_markers`.  In particular no
`usize` subtraction (`sub_len`, `diff`) underflows and every slice / `replace_range` is on a char boundary. -/
theorem C20_transform_dom_spec (T : Tables) (hT : FullTables T) (flipped elongate withMarkers : Bool)
    (s : List Char) (ms : List (Nat × Nat)) (hms : ValidMatches s 0 ms) (hlen : s.length ≠ 1) :
    ∃ parts last, s = flatten parts ++ last ∧ ms = offsets 0 parts ∧
      transformDomWith T ms s flipped elongate withMarkers =
        .done (bracket withMarkers
          (parts.flatMap (fun p => image T flipped elongate p.1 ++ p.2) ++ image T flipped elongate last)) := by
  obtain ⟨parts, last, hs, hoff⟩ := validMatches_decompose s ms [] s rfl hms
  refine ⟨parts, last, hs, hoff, ?_⟩
  have hoff' : ms = offsets 0 parts := hoff
  rw [hoff', hs]
  exact transformDomWith_spec T hT flipped elongate withMarkers parts last (by rw [← hs]; exact hlen)

/-- **One-character strings are unchanged** (and get no brackets), for every character, whatever the
regex matched. -/
theorem C20_one_character_unchanged (T : Tables) (ms : List (Nat × Nat)) (c : Char)
    (flipped elongate withMarkers : Bool) :
    transformDomWith T ms [c] flipped elongate withMarkers = .done [c] :=
  transformDomWith_one T ms [c] flipped elongate withMarkers rfl

/-- **The executable model `transformDom`** (the one the driver runs, with the leftmost-first matcher for
`&[#\w]+;|<\s*.+?\s*>`): its matches always form a decomposition of the input, so the result is the
decomposition's image; the fuel given to the matcher is sufficient (more fuel changes nothing). -/
theorem C20_transform_dom_model (T : Tables) (hT : FullTables T) (flipped elongate withMarkers : Bool)
    (s : List Char) :
    ∃ parts last, s = flatten parts ++ last ∧
      (∀ fuel, s.length < fuel → findParts fuel [] s = (parts, last)) ∧
      transformDom T s flipped elongate withMarkers =
        .done (if s.length = 1 then s else bracket withMarkers
          (parts.flatMap (fun p => image T flipped elongate p.1 ++ p.2) ++ image T flipped elongate last)) := by
  refine ⟨(findParts (s.length + 1) [] s).1, (findParts (s.length + 1) [] s).2, ?_, ?_, ?_⟩
  · have := findParts_flatten (s.length + 1) [] s
    simpa using this.symm
  · intro fuel hf
    exact findParts_fuel fuel (s.length + 1) [] s hf (by omega)
  · unfold transformDom
    by_cases h1 : s.length = 1
    · rw [if_pos h1]; exact transformDomWith_one _ _ _ _ _ _ h1
    · rw [if_neg h1]
      have hs := findParts_flatten (s.length + 1) [] s
      simp only [List.reverse_nil, List.nil_append] at hs
      have := transformDomWith_spec T hT flipped elongate withMarkers
        (findParts (s.length + 1) [] s).1 (findParts (s.length + 1) [] s).2 (by rw [hs]; exact h1)
      rw [hs] at this
      exact this

/-- the tables in the source have 26 entries each (test on the extracted constants, re-run on every check) -/
theorem C20_generated_tables_full : FullTables generatedTables := by
  unfold FullTables generatedTables; decide

/-- the regexes the model implements are the ones in the source (test on the extracted constants) -/
theorem C20_regex_sources :
    Generated.pseudoExcludedRegex = modelledExcludedRegex ∧ Generated.pseudoAzRegex = modelledAzRegex := by
  decide

/-! Non-vacuity / sanity (tests on literals): the crate's unit tests, the F16 witness (caller's flags before
the first tag) and the F19 witness, run on the model with the extracted tables. -/
example : transform generatedTables false true "Hello World".toList = .done "Ħeeŀŀoo Ẇoořŀḓ".toList := by decide
example : transformDom generatedTables "Hello <b>World</b> end".toList true false false =
    .done "Hǝʅʅo <b>Moɹʅp</b> ǝup".toList := by decide
example : transformDom generatedTables "é".toList false true true = .done "é".toList := by decide
example : transformDom generatedTables "a &amp; <b >é</b>".toList false true true =
    .done "[aa &amp; <b >é</b>]".toList := by decide
example : ValidMatches "a<b>c".toList 0 [(1, 4)] :=
  ⟨by decide, by decide, ⟨"a".toList, "<b>c".toList, by decide, by decide⟩,
    ⟨"a<b>".toList, "c".toList, by decide, by decide⟩, trivial⟩

end FluentProofs.C20
