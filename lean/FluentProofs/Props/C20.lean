import FluentProofs.Pseudo
namespace FluentProofs.C20
open FluentModel FluentModel.Pseudo

/-- the regexes the model implements are the ones in the source -/
theorem C20_regex_sources :
    Generated.pseudoExcludedRegex = modelledExcludedRegex ∧ Generated.pseudoAzRegex = modelledAzRegex := by
  decide

end FluentProofs.C20
