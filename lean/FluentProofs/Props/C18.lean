import FluentProofs.Localization
/-!
# C18 — Localization reflects every state change as a fresh instance would

Model: `FluentModel.Localization` (`localization.rs`, `Bundles::new`, `ResourceId` equality) — the code
the model driver `fvm_loc` runs.  A history is any list of `Op`s: add / remove of resource ids (single,
bulk, duplicates, the same id with the other type), mutation of the locale provider (`setLocales`),
`on_change`, `set_async`, prefetch, `bundles()`, requests through the current bundle set, `hold` (keep a
clone of the current `Rc<Bundles>`), requests through a held handle, requests begun on a held handle and
finished later.  `answer built key` — what a bundle set built by the generator call `built` answers —
is an arbitrary function (instantiated in the driver with C16's `format_value` over real content): the
theorems hold for every such function, every initial configuration and every history.
-/
namespace FluentProofs.C18
open FluentModel.Fallback FluentModel.Localization FluentProofs.Localization

variable {V L K R : Type} [DecidableEq V]

/-- **bundles_fresh.**  After any history from any initial `Localization::with_env(ids₀, sync₀, …)`:
* a cached bundle set was built from exactly the current resource ids and mode, and — unless the provider
  was mutated since without a change notification (`dirty`) — the current locales;
* so (not `dirty`) a request is answered as `answer ⟨current mode, current locales, current ids⟩`,
  which is literally what a newly built `Localization::with_env(current ids, current mode, provider)`
  answers to the same request (handle `0` of the fresh instance). -/
theorem C18_bundles_fresh (answer : Built V L → K → R) (ids₀ : List (ResId V)) (sync₀ : Bool)
    (locales₀ : List L) (ops : List (Op V L K)) (s : St V L K)
    (h : exec answer (St.init ids₀ sync₀ locales₀) ops = .done s) :
    (∀ hd, s.bundles = some hd →
        hd.built.ids = s.resIds ∧ hd.built.sync = s.sync ∧ (s.dirty = false → hd.built.locales = s.locales)) ∧
    (s.dirty = false → ∀ key : K,
      ∃ id s' s₀',
        step answer s (.req key) = .done (s', .answer id (answer (current s) key)) ∧
        step answer (St.init (K := K) s.resIds s.sync s.locales) (.req key) =
          .done (s₀', .answer 0 (answer (current s) key))) := by
  have hI : Inv s := inv_exec answer ops _ s (inv_init ids₀ sync₀ locales₀) h
  refine ⟨hI.fresh, fun hd key => ?_⟩
  have hfresh : extendIds [] s.resIds = s.resIds := by
    have := extendIds_of_nodup [] s.resIds (by simpa using hI.nodup)
    simpa using this
  have hA : ∃ id s', step answer s (.req key) = .done (s', .answer id (answer (current s) key)) := by
    rcases getOrInit_cases s with ⟨h0, hb, hg⟩ | ⟨hb, hg⟩
    · obtain ⟨h1, h2, h3⟩ := hI.fresh h0 hb
      have hbuilt : h0.built = current s := by
        have h3' := h3 hd
        cases hb0 : h0.built
        simp_all [current]
      exact ⟨h0.id, s, by simp only [step, hg]; rw [hbuilt]⟩
    · exact ⟨s.nextId, _, by simp only [step, hg]; rfl⟩
  have hB : ∃ s₀', step answer (St.init (K := K) s.resIds s.sync s.locales) (.req key) =
      .done (s₀', .answer 0 (answer (current s) key)) :=
    ⟨_, by simp only [step, St.getOrInit, St.init, hfresh, current]; rfl⟩
  obtain ⟨id, s', hA⟩ := hA
  obtain ⟨s₀', hB⟩ := hB
  exact ⟨id, s', s₀', hA, hB⟩

/-- **one_build_per_epoch (arguments).**  Whatever the state and the operation: either the generator is not
consulted, or no bundle set was cached and it is consulted exactly once, with exactly the current mode,
locales and resource ids — which that operation does not change. -/
theorem C18_generator_args (answer : Built V L → K → R) (s s' : St V L K) (op : Op V L K) (o : Obs V L R)
    (h : step answer s op = .done (s', o)) :
    callsOf s'.log = callsOf s.log ∨
      (s.bundles = none ∧ callsOf s'.log = callsOf s.log ++ [current s] ∧ current s' = current s) := by
  rcases step_calls answer s s' op o h with h1 | ⟨h1, h2, h3, _⟩
  · exact Or.inl h1
  · exact Or.inr ⟨h1, h2, h3⟩

/-- **one_build_per_epoch (count).**  Between two changes — over any sequence of operations none of which
is `add*`/`remove*`/`on_change`/`set_async` (provider mutation without notification, prefetch, `bundles()`,
requests, holds, in-flight requests are all allowed) — the generator is consulted at most once, and not at
all if a bundle set is already cached. -/
theorem C18_one_build_per_epoch (answer : Built V L → K → R) (s s' : St V L K) (ops : List (Op V L K))
    (hops : ∀ op ∈ ops, isChange op = false) (h : exec answer s ops = .done s') :
    (callsOf s'.log).length ≤ (callsOf s.log).length + 1 ∧
    (s.bundles.isSome → callsOf s'.log = callsOf s.log) := by
  obtain ⟨h1, h2⟩ := exec_epoch answer ops s s' hops h
  refine ⟨?_, h1⟩
  rcases h2 with h2 | ⟨b, h2⟩ <;> simp [h2]

/-- the ghost epoch counter of reachable states: one generator call in the current epoch iff a bundle set
is cached, none otherwise; and every `Rc` ever handed out corresponds to one logged generator call -/
theorem C18_epoch_counter (answer : Built V L → K → R) (ids₀ : List (ResId V)) (sync₀ : Bool)
    (locales₀ : List L) (ops : List (Op V L K)) (s : St V L K)
    (h : exec answer (St.init ids₀ sync₀ locales₀) ops = .done s) :
    s.epochBuilds ≤ 1 ∧ (s.epochBuilds = 1 ↔ s.bundles.isSome) ∧ (callsOf s.log).length = s.nextId := by
  have hI : Inv s := inv_exec answer ops _ s (inv_init ids₀ sync₀ locales₀) h
  have he := hI.epoch
  refine ⟨?_, ?_, hI.calls⟩
  · rw [he]; split <;> simp
  · rw [he]; cases s.bundles <;> simp

/-- **old_handle_stable.**  A handle held at some point (`held[n] = h`) is still `held[n]` after any further
history, and a request through it answers `answer h.built key` — a function of the generator call that
built it, not of anything that happened since. -/
theorem C18_old_handle_stable (answer : Built V L → K → R) (s s' : St V L K) (ops : List (Op V L K))
    (h : exec answer s ops = .done s') (n : Nat) (hd : Handle V L) (hn : s.held[n]? = some hd) (key : K) :
    s'.held[n]? = some hd ∧
    step answer s' (.askHeld n key) = .done (s', .answer hd.id (answer hd.built key)) ∧
    step answer s (.askHeld n key) = .done (s, .answer hd.id (answer hd.built key)) := by
  obtain ⟨more, hm⟩ := exec_held answer ops s s' h
  have hn' : s'.held[n]? = some hd := by
    rw [hm]
    have hlt : n < s.held.length := by
      rcases Nat.lt_or_ge n s.held.length with hlt | hge
      · exact hlt
      · rw [List.getElem?_eq_none hge] at hn; cases hn
    rw [List.getElem?_append_left hlt]; exact hn
  exact ⟨hn', by simp [step, hn'], by simp [step, hn]⟩

/-- **requests in flight across changes.**  A request begun on a handle is answered, whenever it is finished
(after any operations other than finishing it), from that handle: `answer h.built key`. -/
theorem C18_inflight_stable (answer : Built V L → K → R) (s s' : St V L K) (ops : List (Op V L K))
    (hops : ∀ op ∈ ops, isFinish op = false) (h : exec answer s ops = .done s')
    (hd : Handle V L) (key : K) (q : List (Handle V L × K)) (hq : s.inflight = (hd, key) :: q) :
    ∃ s'', step answer s' .finish = .done (s'', .answer hd.id (answer hd.built key)) := by
  obtain ⟨more, hm⟩ := exec_inflight answer ops s s' hops h
  rw [hq] at hm
  exact ⟨{ s' with inflight := q ++ more }, by simp [step, hm]⟩

/-- **handle identity.**  In a reachable state `Rc` identity determines the bundle set: two held handles
(or a held one and the cached one) with the same identity were built by the same generator call; and the
identity a new build would get (`nextId`) differs from every handle that exists. -/
theorem C18_handle_identity (answer : Built V L → K → R) (ids₀ : List (ResId V)) (sync₀ : Bool)
    (locales₀ : List L) (ops : List (Op V L K)) (s : St V L K)
    (h : exec answer (St.init ids₀ sync₀ locales₀) ops = .done s) :
    (∀ h₁ ∈ s.held, ∀ h₂ ∈ s.held, h₁.id = h₂.id → h₁ = h₂) ∧
    (∀ h₁ ∈ s.held, ∀ h₂, s.bundles = some h₂ → h₁.id = h₂.id → h₁ = h₂) ∧
    (∀ h₁ ∈ s.held, h₁.id < s.nextId) ∧ (∀ h₂, s.bundles = some h₂ → h₂.id < s.nextId) := by
  have hI : Inv s := inv_exec answer ops _ s (inv_init ids₀ sync₀ locales₀) h
  have hlt : ∀ (i : Nat) (b : Built V L), (callsOf s.log)[i]? = some b → i < s.nextId := by
    intro i b hb
    rw [← hI.calls]
    rcases Nat.lt_or_ge i (callsOf s.log).length with hlt | hge
    · exact hlt
    · rw [List.getElem?_eq_none hge] at hb; cases hb
  refine ⟨?_, ?_, ?_, ?_⟩
  · intro h₁ hh₁ h₂ hh₂ hid
    have e1 := hI.heldLogged h₁ hh₁
    have e2 := hI.heldLogged h₂ hh₂
    rw [hid, e2] at e1
    cases h₁; cases h₂; simp_all
  · intro h₁ hh₁ h₂ hh₂ hid
    have e1 := hI.heldLogged h₁ hh₁
    have e2 := hI.cachedLogged h₂ hh₂
    rw [hid, e2] at e1
    cases h₁; cases h₂; simp_all
  · intro h₁ hh₁; exact hlt _ _ (hI.heldLogged h₁ hh₁)
  · intro h₂ hh₂; exact hlt _ _ (hI.cachedLogged h₂ hh₂)

/-- the resource-id set behaves as a set keyed by `value`: after any history no two ids share a value
(so "the same id with the other type" keeps the first type), and re-collecting it (`from_iter`, what a
fresh instance does) changes nothing -/
theorem C18_res_ids_set (answer : Built V L → K → R) (ids₀ : List (ResId V)) (sync₀ : Bool)
    (locales₀ : List L) (ops : List (Op V L K)) (s : St V L K)
    (h : exec answer (St.init ids₀ sync₀ locales₀) ops = .done s) :
    (s.resIds.map (·.value)).Nodup ∧ extendIds [] s.resIds = s.resIds := by
  have hI : Inv s := inv_exec answer ops _ s (inv_init ids₀ sync₀ locales₀) h
  exact ⟨hI.nodup, by simpa using extendIds_of_nodup [] s.resIds (by simpa using hI.nodup)⟩

/-! ## non-vacuity witnesses (`decide` here is a test of a concrete history, not a proof of the property) -/

section witness

/-- answer = `[mode, key] ++ locales ++ [0] ++ ids` (an optional id `v` is written `v + 100`) -/
private def ansW (b : Built Nat Nat) (key : Nat) : List Nat :=
  [if b.sync then 1 else 0, key] ++ b.locales ++ [0] ++ b.ids.map fun r => if r.optional then r.value + 100 else r.value

private def opsW : List (Op Nat Nat Nat) :=
  [.bundles, .hold, .add ⟨7, true⟩, .add ⟨5, true⟩, .setLocales [2, 1], .onChange, .req 9, .bundles,
   .askHeld 0 9, .begin 0 8, .remove ⟨5, false⟩, .setAsync, .finish, .req 9]

/-- a history with a type conflict (`5` stays Required), a provider change with notification, a held
handle asked after changes, a request in flight across changes, and three generator calls -/
example :
    (run ansW (St.init [⟨5, false⟩, ⟨6, false⟩] true [1, 2]) opsW).map (fun t => t.map (·.2)) =
      .done [.handle 0 true, .handle 0 true, .unit, .unit, .unit, .unit,
             .answer 1 [1, 9, 2, 1, 0, 5, 6, 107], .handle 1 true,
             .answer 0 [1, 9, 1, 2, 0, 5, 6], .begun, .len 2, .unit,
             .answer 0 [1, 8, 1, 2, 0, 5, 6],
             .answer 2 [0, 9, 2, 1, 0, 6, 107]] := by decide

example :
    (exec ansW (St.init [⟨5, false⟩, ⟨6, false⟩] true [1, 2]) opsW).map (fun s => callsOf s.log) =
      .done [⟨true, [1, 2], [⟨5, false⟩, ⟨6, false⟩]⟩, ⟨true, [2, 1], [⟨5, false⟩, ⟨6, false⟩, ⟨7, true⟩]⟩,
             ⟨false, [2, 1], [⟨6, false⟩, ⟨7, true⟩]⟩] := by decide

/-- prefetch of the wrong kind panics (after building) -/
example : (exec ansW (St.init [] false [1]) [Op.prefetchSync]).map (fun s => s.nextId) =
    .panic "Can't prefetch a sync bundle set asynchronously" := by decide

end witness

end FluentProofs.C18
