import FluentProofs.CacheLive
/-!
# C17 — fallback bundles are generated lazily, once, in order — under any interleaving

Model: `FluentModel.Cache` (labelled transition system transcribing `fluent-fallback/src/cache.rs`).
All theorems quantify over every source script (items, ready/pending pattern), every number of
consumers and every sequence of labels `ls` (= every schedule, including spurious polls).
-/
namespace FluentProofs.C17
open FluentModel.Cache FluentProofs.Cache

variable {α : Type}

/-- `items_prefix`: in every reachable state the cached items followed by the items the source has
not yet yielded are exactly the source's items in order – so the cache is a prefix of the source's
order, nothing is lost, duplicated or reordered – and the source has yielded exactly as many items
as are cached (each pulled exactly once). -/
theorem C17_items_prefix (script : List (Nat × α)) (e : Nat) (ls : List Label) :
    let s := run (init script e) ls
    s.items ++ s.src.rest.map (·.2) = script.map (·.2) ∧ s.src.pulls = s.items.length := by
  have h := safe_run ls (safe_init script e)
  exact ⟨h.order, h.pulls⟩

end FluentProofs.C17
