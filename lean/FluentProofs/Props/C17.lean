import FluentProofs.CacheOps
/-!
# C17 — fallback bundles are generated lazily, once, in order — under any interleaving

Model: `FluentModel.Cache`, a labelled transition system transcribing
`fluent-fallback/src/cache.rs` (`AsyncCacheStream::poll_next`, `AsyncCache::poll_next_item` with
`pending_wakes`, `CacheIter::next`) and the `while let Some(bundle) = stream.next().await` loops of
`bundles.rs`, over a scripted *fused* source that keeps only the last waker.

Every theorem quantifies over every source script (`script`: the items with their ready/pending
pattern, `e`: the pattern of the end), and every sequence of fine-grained labels `ls` –
`start c d` (task `c` issues a request of depth `d`), `poll c fresh` (ONE `poll_next` of `c`'s
stream, with or without the executor having just cleared `c`'s wake flag: this covers all
interleavings and all spurious polls), `finish c`, `fire` (one event for the source) – or every
sequence `ops` of the task-level operations the driver and the harness execute (`C17_ops_are_runs`
shows the latter are instances of the former).  Consumers are arbitrary natural numbers: there is no
bound on their number.

Wakers may be shared: every theorem also quantifies over every assignment `grp : Task → Task` of
consumers to wakers – consumer `c` is polled with the waker of task `grp c`, and that waker wakes every
consumer `t` with `grp t = grp c` (two requests joined in one task: `join!`, `FuturesUnordered`).
`pending_wakes`, the source and the wake log hold waker ids.  Section `OwnWaker` at the end restates
everything for `grp = id` (one waker per consumer), in the form the statements had before.
-/
namespace FluentProofs.C17
open FluentModel.Cache FluentProofs.Cache

variable {α : Type}

/-- states reachable from the initial state of a script by any label sequence, with wakers assigned
by `grp` -/
def Reachable (script : List (Nat × α)) (e : Nat) (grp : Task → Task) (s : St α) : Prop :=
  ∃ ls, s = run (init script e grp) ls

/-- **items_prefix / once.** In every reachable state the cached items followed by the items the source
has not yet yielded are exactly the source's items in order – the cache is a prefix of the source's
order, nothing is lost, duplicated or reordered – and the number of items the source has yielded
equals the cache length (each bundle is generated exactly once, then reused). -/
theorem C17_items_prefix (script : List (Nat × α)) (e : Nat) (grp : Task → Task) (ls : List Label) :
    let s := run (init script e grp) ls
    s.items ++ s.src.rest.map (·.2) = script.map (·.2) ∧ s.src.pulls = s.items.length := by
  have h := safe_run ls (safe_init script e grp)
  exact ⟨h.order, h.pulls⟩

/-- **consumers_agree.** What any consumer's stream has delivered so far is exactly the first `curr`
cached items; hence the `i`-th bundle ANY consumer receives is the source's `i`-th bundle (same
bundles, same order, none lost or duplicated, for every consumer and every request). -/
theorem C17_consumers_agree (script : List (Nat × α)) (e : Nat) (grp : Task → Task) (ls : List Label)
    (c : Task) :
    let s := run (init script e grp) ls
    (s.cons c).got = s.items.take (s.cons c).curr ∧
    ∀ (i : Nat) (x : α), (s.cons c).got[i]? = some x → (script.map (·.2))[i]? = some x := by
  have h := safe_run ls (safe_init script e grp)
  refine ⟨h.got c, ?_⟩
  intro i x hx
  rw [h.got c] at hx
  have hi : i < ((run (init script e grp) ls).items.take ((run (init script e grp) ls).cons c).curr).length := by
    rcases Nat.lt_or_ge i ((run (init script e grp) ls).items.take ((run (init script e grp) ls).cons c).curr).length with h | h
    · exact h
    · rw [List.getElem?_eq_none h] at hx; cases hx
  rw [List.getElem?_eq_getElem hi, List.getElem_take] at hx
  have hi' : i < (run (init script e grp) ls).items.length := by
    have := hi
    rw [List.length_take] at this
    omega
  rw [← h.order, List.getElem?_append_left hi', List.getElem?_eq_getElem hi']
  exact hx

/-- **consumers_agree, one poll.** An item a stream hands out is the cached item at the stream's
cursor, and the cursor moves by exactly one. -/
theorem C17_poll_delivers (s s' : St α) (c : Task) (it : α)
    (h : pollNext s c = (s', .ready (some it))) :
    (s'.cons c).curr = (s.cons c).curr + 1 ∧ s'.items[(s.cons c).curr]? = some it :=
  pollNext_some h

/-- **lazy, one step.** No label polls the source except one `poll_next` of a stream of a request in
flight whose cursor equals the cache length; that polls it exactly once. -/
theorem C17_lazy_step (s : St α) (l : Label) :
    (step s l).src.polls = s.src.polls ∨
    ∃ c fresh, l = .poll c fresh ∧ (s.cons c).active = true ∧ (s.cons c).curr = s.items.length ∧
      (step s l).src.polls = s.src.polls + 1 :=
  step_polls s l

/-- **lazy, growth.** One `poll_next` leaves the cache (and the source) untouched unless the stream
stands exactly at the end of the cache; then the cache grows by at most one item, and that item is
handed to the polling stream (its cursor becomes the new length). -/
theorem C17_lazy_growth (s : St α) (c : Task) :
    ((s.cons c).curr ≠ s.items.length →
      (pollNext s c).1.items = s.items ∧ (pollNext s c).1.src = s.src) ∧
    ((s.cons c).curr = s.items.length →
      (pollNext s c).1.src.polls = s.src.polls + 1 ∧
      ((pollNext s c).1.items = s.items ∨
        ((pollNext s c).1.items.length = s.items.length + 1 ∧
         (((pollNext s c).1).cons c).curr = (pollNext s c).1.items.length))) :=
  pollNext_lazy s c

/-- **lazy.** Under every sequence of task-level operations (requests of any depths, polled in any
interleaving, with any source events) the number of bundles generated never exceeds the depth of the
deepest request issued so far. -/
theorem C17_lazy (script : List (Nat × α)) (e : Nat) (grp : Task → Task) (ops : List Op) :
    let s := opRun (init script e grp) ops
    s.items.length ≤ deepest (init script e grp) ops ∧ s.src.pulls ≤ deepest (init script e grp) ops := by
  have h0 : OpInv 0 (init script e grp) := ⟨fun c hc => by simp [init] at hc, by simp [init]⟩
  have h := opInv_opRun ops h0
  obtain ⟨ls, hls⟩ := opRun_run (init script e grp) ops
  have hs := safe_run ls (safe_init script e grp)
  rw [← hls] at hs
  simp only [Nat.zero_max] at h
  exact ⟨h.2, by rw [hs.pulls]; exact h.2⟩

/-- **answer.** A request of depth `d` that completes with a bundle is answered by the `d`-th bundle
of the source's order, whatever happened in between. -/
theorem C17_answer (script : List (Nat × α)) (e : Nat) (grp : Task → Task) (ops : List Op) (c : Task)
    (it : α) :
    let s := opRun (init script e grp) ops
    (pollTask s c).2 = .done (some it) →
    (script.map (·.2))[max (s.cons c).want 1 - 1]? = some it := by
  intro s hr
  have h0 : OpInv 0 (init script e grp) := ⟨fun c hc => by simp [init] at hc, by simp [init]⟩
  have h := opInv_opRun ops h0
  have ha := pollTask_answer c h it hr
  obtain ⟨ls, hls⟩ := opRun_run (init script e grp) ops
  obtain ⟨ls2, _, hls2⟩ := pollTask_run s c
  have hs := safe_run ls2 (safe_run ls (safe_init script e grp))
  rw [← hls, ← hls2] at hs
  have hlt : max (s.cons c).want 1 - 1 < (pollTask s c).1.items.length := by
    rcases Nat.lt_or_ge (max (s.cons c).want 1 - 1) (pollTask s c).1.items.length with h | h
    · exact h
    · rw [List.getElem?_eq_none h] at ha; cases ha
  rw [← hs.order, List.getElem?_append_left hlt]
  exact ha

/-- **no_lost_wakeup (invariant).** In every reachable state, for every waker assignment `grp`: only
requests in flight wait; every waker in `pending_wakes` belongs to a waiting request standing at the end
of the cache (some consumer polled with it waits there: `Backed`); every parked request `t` (waiting, not
woken) stands at the end of the cache and its waker `grp t` IS in `pending_wakes`; the waker the source
holds is the last one registered (the last entry of `pending_wakes`), belongs to a waiting request, and
the source really is pending; and while anybody is parked, the source holds a waker or some waiting
request at the end of the cache is runnable. -/
theorem C17_no_lost_wakeup (script : List (Nat × α)) (e : Nat) (grp : Task → Task) (ls : List Label) :
    WakeInv none (run (init script e grp) ls) :=
  wakeInv_run ls (wakeInv_init script e grp)

/-- the heart of `C17_no_lost_wakeup`, spelled out: a request that waits and has not been woken has its
waker `grp c` in `pending_wakes`; and the waker the source remembers is one of those (the last) -/
theorem C17_no_lost_wakeup_parked (script : List (Nat × α)) (e : Nat) (grp : Task → Task)
    (ls : List Label) (c : Task) :
    let s := run (init script e grp) ls
    (s.cons c).waiting = true → (s.cons c).woken = false →
    grp c ∈ s.pending ∧ ∀ w, s.src.waker = some w → s.pending.getLast? = some w := by
  intro s hw hn
  have hs : WakeInv none s := wakeInv_run ls (wakeInv_init script e grp)
  have hg : s.grp = grp := run_grp _ ls
  have := (hs.park c (by simp) ⟨hw, hn⟩).2
  rw [hg] at this
  exact ⟨this, fun w h => (hs.srcw w h).2.2⟩

/-- **no_lost_wakeup (wake all).** When a stream at the end of the cache polls a source that is ready,
every registered waker is called, and each wakes every consumer polled with it: afterwards no request
is parked. -/
theorem C17_ready_wakes_all (script : List (Nat × α)) (e : Nat) (grp : Task → Task) (ls : List Label)
    (c : Task) (fresh : Bool) :
    let s := run (init script e grp) ls
    (s.cons c).active = true → (s.cons c).curr = s.items.length → s.src.need = 0 →
    ∀ t, ¬ Parked (step s (.poll c fresh)) t :=
  fun ha hc hn t => ready_wakes_all (wakeInv_run ls (wakeInv_init script e grp)) c fresh ha hc hn t

/-- **progress.** In every reachable state in which some request waits, either a waiting request's task
has been woken (it is runnable), or the source is pending and holds the waker `grp t` of a parked
request `t` (so the source's next event makes that request's task runnable).  There is no reachable
stuck state. -/
theorem C17_progress (script : List (Nat × α)) (e : Nat) (grp : Task → Task) (ls : List Label) (c : Task) :
    let s := run (init script e grp) ls
    (s.cons c).waiting = true →
    (∃ t, (s.cons t).waiting = true ∧ (s.cons t).woken = true) ∨
    (s.src.need ≠ 0 ∧ ∃ t, s.src.waker = some (grp t) ∧ Parked s t) := by
  intro s hc
  have hg : s.grp = grp := run_grp _ ls
  have := progress_of_wakeInv (wakeInv_run ls (wakeInv_init script e grp)) c hc
  rw [hg] at this
  exact this

/-- **eventually woken and completes.** From any reachable state, consider any executor that from then
on only takes *useful* steps – polls a consumer whose waiting request has been woken, or lets the pending
source deliver an event (a fair executor with a source that eventually yields; `k` bounds the consumer
ids in use, and no waker is shared by more than `g` of them).  (1) It can take at most `measureG g k s`
such steps.  (2) As long as a request waits, a useful step exists.  Hence every maximal such run is
finite and ends with no request waiting. -/
theorem C17_drain (script : List (Nat × α)) (e : Nat) (grp : Task → Task) (ls : List Label) (g k : Nat)
    (us : List Label) :
    let s := run (init script e grp) ls
    GroupBound g k grp → UsefulRun k s us →
    us.length ≤ measureG g k s ∧
    ((∀ t, ((run s us).cons t).waiting = true → t < k) →
      (¬ ∃ l, Useful k (run s us) l) → ∀ c, ((run s us).cons c).waiting = false) := by
  intro s hg hu
  have hs : WakeInv none s := wakeInv_run ls (wakeInv_init script e grp)
  have hg' : GroupBound g k s.grp := by
    have : s.grp = grp := run_grp _ ls
    rw [this]; exact hg
  refine ⟨by have := usefulRun_length_le us hs hg' hu; omega, ?_⟩
  intro hk hno c
  cases hw : ((run s us).cons c).waiting with
  | false => rfl
  | true => exact absurd (useful_exists (wakeInv_run us hs) hk c hw) hno

/-- `C17_drain` for EVERY waker assignment, with no side condition: a waker is never shared by more than
all `k` consumers, so `measureG k k s` bounds the number of useful steps. -/
theorem C17_drain_any (script : List (Nat × α)) (e : Nat) (grp : Task → Task) (ls : List Label) (k : Nat)
    (us : List Label) :
    let s := run (init script e grp) ls
    UsefulRun k s us →
    us.length ≤ measureG k k s ∧
    ((∀ t, ((run s us).cons t).waiting = true → t < k) →
      (¬ ∃ l, Useful k (run s us) l) → ∀ c, ((run s us).cons c).waiting = false) :=
  C17_drain script e grp ls k k us (groupBound_self k grp)

/-- **task-level operations are label runs.** Every state the driver (and the harness) reaches with
`start` / poll-a-future / `fire` operations is reached by a sequence of fine-grained labels, so all
theorems above hold for it. -/
theorem C17_ops_are_runs (script : List (Nat × α)) (e : Nat) (grp : Task → Task) (ops : List Op) :
    Reachable script e grp (opRun (init script e grp) ops) :=
  opRun_run (init script e grp) ops

/-- **fuel.** The loop that models one poll of a request's future never runs out of fuel. -/
theorem C17_fuel (s : St α) (c : Task) : (pollTask s c).2 ≠ .outOfFuel :=
  pollTask_fuel s c

/-- **iterator variant.** Over a source that never answers `Pending` the sync cache (`CacheIter::next`,
`format_*_sync`) behaves exactly like the async one: same results, same states, for every sequence
of operations – so every theorem above covers the iterator variant. -/
theorem C17_sync_is_async (items : List α) (grp : Task → Task) (ops : List Op) :
    ops.foldl syncOpStep (init (items.map fun x => (0, x)) 0 grp)
      = opRun (init (items.map fun x => (0, x)) 0 grp) ops ∧
    ∀ c, syncTask (opRun (init (items.map fun x => (0, x)) 0 grp) ops) c
      = pollTask (opRun (init (items.map fun x => (0, x)) 0 grp) ops) c := by
  have h0 : NoPend (init (items.map fun x => ((0 : Nat), x)) 0 grp) := by
    refine ⟨?_, rfl, rfl⟩
    intro p hp
    simp only [init, List.mem_map] at hp
    obtain ⟨x, _, rfl⟩ := hp
    rfl
  have key : ∀ (ops : List Op) (s : St α), NoPend s →
      ops.foldl syncOpStep s = opRun s ops ∧ NoPend (opRun s ops) := by
    intro ops
    induction ops with
    | nil => intro s hs; exact ⟨rfl, hs⟩
    | cons op r ih =>
      intro s hs
      have h1 := syncOpStep_eq_opStep op hs
      have h2 := ih (syncOpStep s op) h1.2
      simp only [List.foldl, opRun] at h2 ⊢
      rw [← h1.1]
      exact h2
  have := key ops _ h0
  exact ⟨this.1, fun c => (syncTask_eq_pollTask c this.2).1⟩

/-! ## Non-vacuity (tests by evaluation on literals, not theorems)

Two consumers, three bundles `10, 11, 12`; bundle `11` needs one source event.  Task 0 (depth 3)
parks on bundle 11, task 1 (depth 2) parks too and replaces task 0's waker in the source; the event
wakes only task 1; task 1's poll gets the bundle and wakes BOTH registered wakers. -/

private def demo : St Nat :=
  opRun (init [(0, 10), (1, 11), (0, 12)] 0)
    [.start 0 3, .start 1 2, .poll 0, .poll 1]

example : (demo.items, demo.pending, demo.src.waker, demo.src.polls, demo.src.pulls)
    = ([10], [0, 1], some 1, 3, 1) := by decide
example : Parked demo 0 ∧ Parked demo 1 := by unfold Parked; decide
example : ((opStep demo .fire).cons 1).woken = true ∧ ((opStep demo .fire).cons 0).woken = false := by decide
example : (pollTask (opStep demo .fire) 1).2 = .done (some 11) := by decide
example : let s := (pollTask (opStep demo .fire) 1).1
    (s.wakeLog, s.pending, (s.cons 0).woken, (s.cons 0).waiting) = ([1, 0, 1], [], true, true) := by decide
example : let s := (pollTask (opStep demo .fire) 1).1
    (pollTask s 0).2 = .done (some 12) ∧ (pollTask s 0).1.src.pulls = 3 := by decide
example : Useful 2 demo .fire ∧ measure 2 demo = 2 * 1 + 3 * 2 + 0 := by
  refine ⟨?_, ?_⟩
  · show demo.src.need ≠ 0; decide
  · decide
example : deepest (init [(0, 10), (1, 11), (0, 12)] 0) [.start 0 3, .start 1 2, .poll 0, .poll 1] = 3 := by decide

/-! Shared wakers: consumers 0 and 1 are two requests joined in ONE task (waker 0), consumer 2 has a task
of its own (waker 2); one bundle that needs one source event.  All three park: `pending_wakes` holds
waker 0 twice and waker 2, the source remembers only waker 2.  The event wakes waker 2 only; consumer
2's poll gets the bundle and calls every registered waker, which makes BOTH joined requests runnable. -/

private def joined (c : Task) : Task := c - c % 2

private def demoJ : St Nat :=
  opRun (init [(1, 10)] 0 joined)
    [.start 0 1, .start 1 1, .start 2 1, .poll 0, .poll 1, .poll 2]

example : (demoJ.items, demoJ.pending, demoJ.src.waker, demoJ.src.polls) = ([], [0, 0, 2], some 2, 3) := by
  decide
example : Parked demoJ 0 ∧ Parked demoJ 1 ∧ Parked demoJ 2 := by unfold Parked; decide
example : (opStep demoJ .fire).wakeLog = [2] ∧ Parked (opStep demoJ .fire) 0 ∧ Parked (opStep demoJ .fire) 1 ∧
    ((opStep demoJ .fire).cons 2).woken = true := by unfold Parked; decide
example : let s := (pollTask (opStep demoJ .fire) 2).1
    (s.wakeLog, s.pending, (s.cons 0).woken, (s.cons 1).woken, (s.cons 1).waiting)
      = ([2, 0, 0, 2], [], true, true, true) := by decide
example : let s := (pollTask (opStep demoJ .fire) 2).1
    (pollTask s 1).2 = .done (some 10) ∧ (pollTask s 0).2 = .done (some 10) ∧
    (pollTask s 1).1.src.pulls = 1 := by decide
/-- a source event whose waker is shared makes two requests runnable at once: the `g = 1` measure would
go up, `measureG 2` goes down -/
private def demoJ2 : St Nat :=
  opRun (init [(1, 10)] 0 joined) [.start 0 1, .start 1 1, .poll 0, .poll 1]
example : measure 2 demoJ2 = 8 ∧ measure 2 (opStep demoJ2 .fire) = 8 ∧
    measureG 2 2 demoJ2 = 9 ∧ measureG 2 2 (opStep demoJ2 .fire) = 8 := by decide

/-- **Prefetch is invisible to the cache.**  `Bundles::prefetch_sync` / `prefetch_async` only forward to the source's
own hook: whatever history of requests, polls, source events and prefetches runs, the state (cached items, source
position and counters, every consumer, parked wakers, wake log) is the one the history WITHOUT the prefetches
produces — in particular no bundle is generated that no request needs -/
theorem prefetch_is_invisible (s : St α) : prefetch s = s := rfl

theorem prefetch_anywhere (s : St α) (ops₁ ops₂ : List Op) :
    opRun (prefetch (opRun s ops₁)) ops₂ = opRun s (ops₁ ++ ops₂) := by
  simp [prefetch, opRun, List.foldl_append]

/-! ## One waker per consumer (`grp = id`)

The statements as they were before wakers could be shared (`init script e` is `init script e id`): each
follows from the general theorem of the same name. -/
namespace OwnWaker

/-- `WakeInv` for wakers that are not shared: waker id = consumer id -/
structure WakeInvId (x : Option Task) (s : St α) : Prop where
  /-- only requests in flight wait -/
  act : ∀ t, (s.cons t).waiting = true → (s.cons t).active = true
  /-- every waker in `pending_wakes` belongs to a waiting request that stands at the end of the cache -/
  pend : ∀ t, t ∈ s.pending → (s.cons t).waiting = true ∧ (s.cons t).curr = s.items.length
  /-- every parked request stands at the end of the cache and its waker is in `pending_wakes` -/
  park : ∀ t, x ≠ some t → Parked s t → (s.cons t).curr = s.items.length ∧ t ∈ s.pending
  /-- the waker the source holds is the last one registered (also in `pending_wakes`), its request
  waits at the end of the cache, and the source really is pending -/
  srcw : ∀ w, s.src.waker = some w → s.src.need ≠ 0 ∧ (s.cons w).waiting = true ∧
      (s.cons w).curr = s.items.length ∧ s.pending.getLast? = some w
  /-- while anybody is parked, either the source holds a waker, or a waiting request at the end of
  the cache is runnable (or is the one being polled right now) -/
  hope : (∃ t, x ≠ some t ∧ Parked s t) → s.src.waker ≠ none ∨
      ∃ w, (s.cons w).waiting = true ∧ (s.cons w).curr = s.items.length ∧
        ((s.cons w).woken = true ∨ x = some w)

theorem backed_id {s : St α} (hg : s.grp = id) {w : Task} (h : Backed s w) :
    (s.cons w).waiting = true ∧ (s.cons w).curr = s.items.length := by
  obtain ⟨t, h1, h2, h3⟩ := h
  rw [hg] at h1
  cases h1
  exact ⟨h2, h3⟩

theorem wakeInvId_of_wakeInv {x : Option Task} {s : St α} (hg : s.grp = id) (h : WakeInv x s) :
    WakeInvId x s := by
  refine ⟨h.act, fun t ht => backed_id hg (h.pend t ht), ?_, ?_, h.hope⟩
  · intro t hx hp
    have := h.park t hx hp
    rw [hg] at this
    exact this
  · intro w hw
    have := h.srcw w hw
    exact ⟨this.1, (backed_id hg this.2.1).1, (backed_id hg this.2.1).2, this.2.2⟩

theorem run_init_grp (script : List (Nat × α)) (e : Nat) (ls : List Label) :
    (run (init script e) ls).grp = id := run_grp _ ls

theorem C17_items_prefix (script : List (Nat × α)) (e : Nat) (ls : List Label) :
    let s := run (init script e) ls
    s.items ++ s.src.rest.map (·.2) = script.map (·.2) ∧ s.src.pulls = s.items.length :=
  C17.C17_items_prefix script e id ls

theorem C17_consumers_agree (script : List (Nat × α)) (e : Nat) (ls : List Label) (c : Task) :
    let s := run (init script e) ls
    (s.cons c).got = s.items.take (s.cons c).curr ∧
    ∀ (i : Nat) (x : α), (s.cons c).got[i]? = some x → (script.map (·.2))[i]? = some x :=
  C17.C17_consumers_agree script e id ls c

theorem C17_lazy (script : List (Nat × α)) (e : Nat) (ops : List Op) :
    let s := opRun (init script e) ops
    s.items.length ≤ deepest (init script e) ops ∧ s.src.pulls ≤ deepest (init script e) ops :=
  C17.C17_lazy script e id ops

theorem C17_answer (script : List (Nat × α)) (e : Nat) (ops : List Op) (c : Task) (it : α) :
    let s := opRun (init script e) ops
    (pollTask s c).2 = .done (some it) →
    (script.map (·.2))[max (s.cons c).want 1 - 1]? = some it :=
  C17.C17_answer script e id ops c it

theorem C17_no_lost_wakeup (script : List (Nat × α)) (e : Nat) (ls : List Label) :
    WakeInvId none (run (init script e) ls) :=
  wakeInvId_of_wakeInv (run_init_grp script e ls) (C17.C17_no_lost_wakeup script e id ls)

theorem C17_ready_wakes_all (script : List (Nat × α)) (e : Nat) (ls : List Label) (c : Task) (fresh : Bool) :
    let s := run (init script e) ls
    (s.cons c).active = true → (s.cons c).curr = s.items.length → s.src.need = 0 →
    ∀ t, ¬ Parked (step s (.poll c fresh)) t :=
  C17.C17_ready_wakes_all script e id ls c fresh

theorem C17_progress (script : List (Nat × α)) (e : Nat) (ls : List Label) (c : Task) :
    let s := run (init script e) ls
    (s.cons c).waiting = true →
    (∃ w, (s.cons w).waiting = true ∧ (s.cons w).woken = true) ∨
    (s.src.need ≠ 0 ∧ ∃ w, s.src.waker = some w ∧ Parked s w) :=
  C17.C17_progress script e id ls c

theorem C17_drain (script : List (Nat × α)) (e : Nat) (ls : List Label) (k : Nat) (us : List Label) :
    let s := run (init script e) ls
    UsefulRun k s us →
    us.length ≤ measure k s ∧
    ((∀ t, ((run s us).cons t).waiting = true → t < k) →
      (¬ ∃ l, Useful k (run s us) l) → ∀ c, ((run s us).cons c).waiting = false) :=
  C17.C17_drain script e id ls 1 k us (groupBound_id k)

theorem C17_ops_are_runs (script : List (Nat × α)) (e : Nat) (ops : List Op) :
    Reachable script e id (opRun (init script e) ops) :=
  C17.C17_ops_are_runs script e id ops

theorem C17_sync_is_async (items : List α) (ops : List Op) :
    ops.foldl syncOpStep (init (items.map fun x => (0, x)) 0)
      = opRun (init (items.map fun x => (0, x)) 0) ops ∧
    ∀ c, syncTask (opRun (init (items.map fun x => (0, x)) 0) ops) c
      = pollTask (opRun (init (items.map fun x => (0, x)) 0) ops) c :=
  C17.C17_sync_is_async items id ops

end OwnWaker

end FluentProofs.C17
