import FluentModel.ResolverSpec
namespace FluentProofs.C07
theorem placeholder : True := trivial
end FluentProofs.C07
