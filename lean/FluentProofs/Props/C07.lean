import FluentProofs.ConstTieResolver
import FluentProofs.ResolverRefineTop
import FluentProofs.ResolverRefineFrame
/-!
# C07 — resolved text and reported errors follow Fluent semantics

`FluentModel.Resolver` is the function-for-function transcription of the Rust resolver (mutable `Scope`:
`local_args`, `placeables`, `travelled`, `errors`, `dirty`).  `FluentModel.ResolverSpec` is the reference
big-step semantics written from the property text (term-call arguments and the resolution stack are
parameters of the context, the placeable limit is an outcome, counter and error log are threaded).

* `resolver_refines_spec` — the simulation, for all eight functions of the spec at once (`Refines`).
* `format_refines_spec`, `format_refines_spec_limit` — the two entry points `format_pattern` / `write_pattern`.
* one theorem per sentence of the property (`text_verbatim` … `nothing_else_reported`).
* `example`s at the end are tests on concrete bundles (`decide +kernel`), not theorems.

Lemma files: `FluentProofs/ResolverRefine{Dirty,Val,Limit,Frame}.lean`, `FluentProofs/ResolverSpec.lean`.
-/
namespace FluentProofs.C07
open FluentModel FluentModel.Syntax FluentModel.Num FluentModel.Resolver FluentModel.ResolverSpec
open FluentProofs.ResolverRefine

/-- The abstraction relation of the simulation: the spec context `c` and state `(count, log)` describe the
model scope `sc`.  `nonempty` holds everywhere below the top-level `Pattern::write` (see `AbsTop`). -/
structure Abs (env : Env) (c : Ctx) (count : Nat) (log : List RErr) (sc : Scope) : Prop where
  env_eq : c.env = env
  locals_eq : c.locals = sc.localArgs
  stack_eq : c.stack = sc.travelled
  nonempty : sc.travelled ≠ []
  count_eq : sc.placeables = count
  log_eq : sc.errors = log
  clean : sc.dirty = false
  bound : count ≤ Generated.maxPlaceables

/-- The abstraction for the element loop of pattern `whole`: the code pushes the top pattern lazily
(`maybe_track`, when `travelled` is empty at the first placeable); the spec starts with `stack = [whole]`. -/
structure AbsTop (env : Env) (c : Ctx) (count : Nat) (log : List RErr) (sc : Scope) (whole : Pattern Bytes) : Prop where
  env_eq : c.env = env
  locals_eq : c.locals = sc.localArgs
  stack_eq : c.stack = effStack sc.travelled whole
  count_eq : sc.placeables = count
  log_eq : sc.errors = log
  clean : sc.dirty = false
  bound : count ≤ Generated.maxPlaceables

/-- What the model call `r` must be, given the spec outcome `o` of the corresponding call from `c`:
* `.val a count' log'`: `r = .ok (b, sc')` with `b` the same result (`R a b`) and `sc'` abstracted by the SAME
  context `c` with the new counter and log — so `sc'.localArgs` and `sc'.travelled` are those before the call
  (the scope is restored) and `dirty` is still false;
* `.limit lg`: provided the plural rules exist, `r` is not a panic, and if it returns (`.fuel` is C06's business)
  then `dirty = true` and `errors = lg ++ extra` where `extra` contains no `tooManyPlaceables`: `lg` is exactly
  the model's log at the moment `dirty` was set; afterwards the code still finishes the enclosing constructs and may
  append other reports (e.g. for the remaining call arguments), never the limit again. -/
def SimOut {α β : Type} (env : Env) (A : Nat → List RErr → Scope → Prop) (R : α → β → Prop) (o : Out α)
    (r : RR (β × Scope)) : Prop :=
  match o with
  | .val a count' log' => ∃ b sc', r = .ok (b, sc') ∧ R a b ∧ A count' log' sc'
  | .limit lg => CategoryTotal env → DirtyOk lg r
  | .panic _ => True
  | .fuel => True

/-- The simulation at spec fuel `f`: every model fuel `≥ 3 * f` works (the model has the extra hops
`writePattern` and `writeDefault`). -/
structure Refines (env : Env) (f : Nat) : Prop where
  elems : ∀ c count log sc whole len es, AbsTop env c count log sc whole → ∀ fuel', 3 * f ≤ fuel' → ∀ w,
    SimOut env (fun n l sc' => AbsTop env c n l sc' whole ∧ (sc.travelled ≠ [] → sc'.travelled = sc.travelled))
      (fun out b => b = w ++ out)
      (evalElems c f len es count log) (writeElems env fuel' whole len es w sc)
  ref : ∀ c count log sc p src, Abs env c count log sc → ∀ fuel', 3 * f ≤ fuel' → ∀ w,
    SimOut env (Abs env c) (fun out b => b = w ++ out)
      (evalRef c f p src count log) (track env fuel' p src w sc)
  expr : ∀ c count log sc e, Abs env c count log sc → ∀ fuel', 3 * f ≤ fuel' → ∀ w,
    SimOut env (Abs env c) (fun out b => b = w ++ out)
      (evalExpr c f e count log) (writeExpr env fuel' e w sc)
  inline : ∀ c count log sc e, Abs env c count log sc → ∀ fuel', 3 * f ≤ fuel' → ∀ w,
    SimOut env (Abs env c) (fun out b => b = w ++ out)
      (evalInline c f e count log) (writeInline env fuel' e w sc)
  value : ∀ c count log sc e, Abs env c count log sc → ∀ fuel', 3 * f ≤ fuel' →
    SimOut env (Abs env c) Eq (evalValue c f e count log) (resolveInline env fuel' e sc)
  args : ∀ c count log sc a, Abs env c count log sc → ∀ fuel', 3 * f ≤ fuel' →
    SimOut env (Abs env c) Eq (evalArgs c f a count log) (getArguments env fuel' a sc)
  list : ∀ c count log sc es, Abs env c count log sc → ∀ fuel', 3 * f ≤ fuel' →
    SimOut env (Abs env c) Eq (evalList c f es count log) (resolveList env fuel' es sc)
  named : ∀ c count log sc es, Abs env c count log sc → ∀ fuel', 3 * f ≤ fuel' →
    SimOut env (Abs env c) Eq (evalNamed c f es count log) (resolveNamed env fuel' es sc)

/-- **resolver_refines_spec** — the resolver model refines the reference semantics: for all eight functions
of both mutual blocks simultaneously (induction on the spec fuel), a call of the model in a clean scope `sc`
abstracted by `(c, count, log)` (`Abs`) does what the spec call from `(c, count, log)` says (`SimOut`): same text
appended to the writer / same value, same counter, same error log, scope restored; and on the limit outcome the
model goes `dirty` with exactly the spec's log. -/
theorem resolver_refines_spec (env : Env) (f : Nat) : Refines env f := by
  obtain ⟨vElems, vRef, vExpr, vInl, vVal, vArgs, vList, vNamed⟩ := valAll env f
  have good : ∀ {c : Ctx} {count : Nat} {log : List RErr} {sc : Scope}, Abs env c count log sc →
      Good sc ∧ c = ctxOf env sc ∧ count = sc.placeables ∧ log = sc.errors := by
    intro c count log sc h
    obtain ⟨h1, h2, h3, h4, h5, h6, h7, h8⟩ := h
    refine ⟨⟨h7, by rw [h5]; exact h8, h4⟩, ?_, h5.symm, h6.symm⟩
    cases c; simp_all [ctxOf]
  have simOut_of : ∀ {α β : Type} {c : Ctx} {count : Nat} {log : List RErr} {sc : Scope},
      Abs env c count log sc → ∀ (R : α → β → Prop) (o : Out α) (r : RR (β × Scope)),
      (∀ a count' log', o = .val a count' log' → count' ≤ mx ∧ ∃ b, r = .ok (b, upd sc count' log') ∧ R a b) →
      (CategoryTotal env → ∀ lg, o = .limit lg → DirtyOk lg r) → SimOut env (Abs env c) R o r := by
    intro α β c count log sc h R o r hv hl
    cases o with
    | val a count' log' =>
      obtain ⟨hb, b, hr, hR⟩ := hv a count' log' rfl
      exact ⟨b, _, hr, hR, ⟨h.env_eq, h.locals_eq, h.stack_eq, h.nonempty, rfl, rfl, rfl, hb⟩⟩
    | limit lg => exact fun hc => hl hc lg rfl
    | panic m => trivial
    | fuel => trivial
  refine ⟨?_, ?_, ?_, ?_, ?_, ?_, ?_, ?_⟩
  · intro c count log sc whole len es h fuel' hf w
    obtain ⟨h1, h2, h3, h5, h6, h7, h8⟩ := h
    have hc : c = ⟨env, sc.localArgs, effStack sc.travelled whole⟩ := by cases c; simp_all
    subst hc h5 h6
    cases ho : evalElems _ f len es sc.placeables sc.errors with
    | val out count' log' =>
      obtain ⟨hb, hM⟩ := vElems whole len es sc _ out count' log' h7 h8 rfl ho
      obtain ⟨t', ht', hw⟩ := hM fuel' hf w
      refine ⟨_, _, hw, rfl, ⟨rfl, rfl, ?_, rfl, rfl, rfl, hb⟩, ?_⟩
      · show effStack sc.travelled whole = effStack t' whole
        rcases ht' with rfl | rfl
        · rfl
        · exact (effStack_idem _ _).symm
      · intro hne
        show t' = sc.travelled
        rcases ht' with rfl | rfl
        · rfl
        · exact effStack_of_ne_nil _ hne
    | limit lg =>
      intro hcat
      exact (limAll env hcat f).1 whole len es sc _ lg h7 h8 rfl ho fuel' hf w
    | panic m => trivial
    | fuel => trivial
  · intro c count log sc p src h fuel' hf w
    obtain ⟨hg, rfl, rfl, rfl⟩ := good h
    exact simOut_of h _ _ _
      (fun a count' log' ho => by
        obtain ⟨hb, hM⟩ := vRef p src sc a count' log' hg ho
        exact ⟨hb, _, hM fuel' hf w, rfl⟩)
      (fun hcat lg ho => (limAll env hcat f).2.1 p src sc lg hg ho fuel' hf w)
  · intro c count log sc e h fuel' hf w
    obtain ⟨hg, rfl, rfl, rfl⟩ := good h
    exact simOut_of h _ _ _
      (fun a count' log' ho => by
        obtain ⟨hb, hM⟩ := vExpr e sc a count' log' hg ho
        exact ⟨hb, _, hM fuel' hf w, rfl⟩)
      (fun hcat lg ho => (limAll env hcat f).2.2.1 e sc lg hg ho fuel' hf w)
  · intro c count log sc e h fuel' hf w
    obtain ⟨hg, rfl, rfl, rfl⟩ := good h
    exact simOut_of h _ _ _
      (fun a count' log' ho => by
        obtain ⟨hb, hM⟩ := vInl e sc a count' log' hg ho
        exact ⟨hb, _, hM fuel' hf w, rfl⟩)
      (fun hcat lg ho => (limAll env hcat f).2.2.2.1 e sc lg hg ho fuel' hf w)
  · intro c count log sc e h fuel' hf
    obtain ⟨hg, rfl, rfl, rfl⟩ := good h
    exact simOut_of h _ _ _
      (fun a count' log' ho => by
        obtain ⟨hb, hM⟩ := vVal e sc a count' log' hg ho
        exact ⟨hb, _, hM fuel' hf, rfl⟩)
      (fun hcat lg ho => (limAll env hcat f).2.2.2.2.1 e sc lg hg ho fuel' hf)
  · intro c count log sc a h fuel' hf
    obtain ⟨hg, rfl, rfl, rfl⟩ := good h
    exact simOut_of h _ _ _
      (fun a' count' log' ho => by
        obtain ⟨hb, hM⟩ := vArgs a sc a' count' log' hg ho
        exact ⟨hb, _, hM fuel' hf, rfl⟩)
      (fun hcat lg ho => (limAll env hcat f).2.2.2.2.2.1 a sc lg hg ho fuel' hf)
  · intro c count log sc es h fuel' hf
    obtain ⟨hg, rfl, rfl, rfl⟩ := good h
    exact simOut_of h _ _ _
      (fun a count' log' ho => by
        obtain ⟨hb, hM⟩ := vList es sc a count' log' hg ho
        exact ⟨hb, _, hM fuel' hf, rfl⟩)
      (fun hcat lg ho => (limAll env hcat f).2.2.2.2.2.2.1 es sc lg hg ho fuel' hf)
  · intro c count log sc es h fuel' hf
    obtain ⟨hg, rfl, rfl, rfl⟩ := good h
    exact simOut_of h _ _ _
      (fun a count' log' ho => by
        obtain ⟨hb, hM⟩ := vNamed es sc a count' log' hg ho
        exact ⟨hb, _, hM fuel' hf, rfl⟩)
      (fun hcat lg ho => (limAll env hcat f).2.2.2.2.2.2.2 es sc lg hg ho fuel' hf)


/-! ## the entry points -/

/-- what an entry point returns when the spec says `.limit lg` -/
def LimitTop (lg : List RErr) : RR (Bytes × List RErr) → Prop
  | .fuel => True
  | .panic _ => False
  | .ok (_, errs) => ∃ extra, errs = lg ++ extra ∧ RErr.tooManyPlaceables ∉ extra

/-- **Top level, normal outcome.**  If the reference semantics gives pattern `p` the text `out` and the error
list `log` (with fuel `fuel`), then both `format_pattern` and `write_pattern` of the model return exactly
`(out, log)` for every fuel `≥ 3 * fuel + 1` (the single-text fast path of `Pattern::resolve` included). -/
theorem format_refines_spec (env : Env) (fuel : Nat) (p : Pattern Bytes) (out : Bytes) (n : Nat) (log : List RErr)
    (h : ResolverSpec.format env fuel p = .val out n log) (fuel' : Nat) (hf : 3 * fuel + 1 ≤ fuel') :
    formatPattern env fuel' p = .ok (out, log) ∧ writePatternTop env fuel' p = .ok (out, log) := by
  have hfuel : 1 ≤ fuel := by
    cases fuel with
    | zero => simp [ResolverSpec.format, evalElems] at h
    | succ k => omega
  have hw : writePatternTop env fuel' p = .ok (out, log) := by
    obtain ⟨k, rfl⟩ : ∃ k, fuel' = k + 1 := ⟨fuel' - 1, by omega⟩
    obtain ⟨_, hM⟩ := (valAll env fuel).1 p p.length p {} [p] out n log rfl (Nat.zero_le _) rfl h
    obtain ⟨t', _, hw⟩ := hM k (by omega) []
    simp [writePatternTop, writePattern, hw]
  exact ⟨by rw [formatPattern_eq_writePatternTop env fuel' p (by omega)]; exact hw, hw⟩

/-- **Top level, limit outcome.**  If the reference semantics aborts with `.limit lg` then (plural rules
existing) neither entry point panics, and when it returns, its error list is `lg ++ extra` with no
`tooManyPlaceables` in `extra`; `lg` itself is `pre ++ [tooManyPlaceables]` with none in `pre`. -/
theorem format_refines_spec_limit (env : Env) (hc : CategoryTotal env) (fuel : Nat) (p : Pattern Bytes)
    (lg : List RErr) (h : ResolverSpec.format env fuel p = .limit lg) (fuel' : Nat) (hf : 3 * fuel + 1 ≤ fuel') :
    LimitTop lg (formatPattern env fuel' p) ∧ LimitTop lg (writePatternTop env fuel' p) ∧
      ∃ pre, lg = pre ++ [.tooManyPlaceables] ∧ RErr.tooManyPlaceables ∉ pre := by
  have hfuel : 1 ≤ fuel := by
    cases fuel with
    | zero => simp [ResolverSpec.format, evalElems] at h
    | succ k => omega
  have hw : LimitTop lg (writePatternTop env fuel' p) := by
    obtain ⟨k, rfl⟩ : ∃ k, fuel' = k + 1 := ⟨fuel' - 1, by omega⟩
    have h1 := (limAll env hc fuel).1 p p.length p {} [p] lg rfl (Nat.zero_le _) rfl h k (by omega) []
    simp only [writePatternTop, writePattern]
    revert h1
    generalize writeElems env k p p.length p [] {} = r
    intro h1
    match r, h1 with
    | .fuel, _ => trivial
    | .ok (w, sc'), ⟨_, extra, he, hn⟩ => exact ⟨extra, he, hn⟩
  refine ⟨by rw [formatPattern_eq_writePatternTop env fuel' p (by omega)]; exact hw, hw, ?_⟩
  have hs := format_log false env fuel p (by simp) (by simp)
  rw [h] at hs
  obtain ⟨added, he, ha⟩ := hs
  exact ⟨added, by simpa using he, fun hm => (ha _ hm).1 rfl⟩


/-! ## one theorem per sentence of the property

Each is a statement about the MODEL (the transcribed code).  The one-step equations say what the code does at the
construct in question — in particular that it appends exactly ONE report (`Scope.addError e` is
`errors := errors ++ [e]`); `resolver_refines_spec` / `format_refines_spec` lift them to whole resolutions: the
final text and error list are those of the reference semantics, where each such occurrence contributes its one entry. -/

/-- **text verbatim** (after the bundle's transform, `tr env`): a text element appends its bytes to the writer and
nothing else happens; a single-text pattern formats to its text with no errors. -/
theorem text_verbatim (env : Env) (n : Nat) (whole : Pattern Bytes) (len : Nat) (v : Bytes) (rest : List (PatElem Bytes))
    (w : Bytes) (sc : Scope) (hd : sc.dirty = false) :
    writeElems env (n + 1) whole len (.text v :: rest) w sc = writeElems env n whole len rest (w ++ tr env v) sc ∧
    formatPattern env n [.text v] = .ok (tr env v, []) ∧ writePatternTop env (n + 3) [.text v] = .ok (tr env v, []) :=
  ⟨writeElems_text env n whole len v rest w sc hd, formatPattern_text env n v, writePatternTop_text env n v⟩

/-- **terms see only the arguments passed at their call site**: once the call arguments are resolved (in the
caller's scope) to `named`, the term's pattern `p` is written in a scope whose `localArgs` is exactly `some named`,
and afterwards `localArgs` is set back to what it was. -/
theorem term_args_scoped (env : Env) (n : Nat) (id : Bytes) (attr : Option Bytes)
    (args : Option (List (Inline Bytes) × List (Bytes × Inline Bytes))) (w : Bytes) (sc : Scope)
    (rp : List Value) (named : ArgList) (sc1 : Scope) (p : Pattern Bytes)
    (ha : getArguments env n args sc = .ok ((rp, named), sc1)) (ht : termTarget env id attr = some p) :
    writeInline env (n + 1) (.term id attr args) w sc =
      match track env n p (.term id attr args) w { sc1 with localArgs := some named } with
      | .ok (w1, sc3) => .ok (w1, { sc3 with localArgs := sc1.localArgs })
      | .panic m => .panic m
      | .fuel => .fuel := by
  rw [writeInline_term env n id attr args w sc rp named sc1 ha, ht]
  rfl

/-- … and inside a term call a variable is looked up in those arguments only (`env.args`, the caller's, are
not consulted), in print and in value mode. -/
theorem term_sees_only_call_args (env : Env) (n : Nat) (id w : Bytes) (sc : Scope) (l : ArgList)
    (hl : sc.localArgs = some l) :
    writeInline env (n + 1) (.var id) w sc =
      .ok (w ++ (match l.get id with | some v => valueString env v | .none => braced ([36] ++ id)), sc) ∧
    resolveInline env (n + 1) (.var id) sc = .ok ((l.get id).getD .error, sc) := by
  constructor
  · simp only [writeInline, hl]
    cases hg : l.get id <;> simp [hg, inlineWriteError]
  · simp only [resolveInline, hl]
    cases hg : l.get id <;> simp

/-- **back in force when a nested call returns** — code level, unconditional: whenever a call of the model returns
(any expression, any scope, normal or error or limit path), `localArgs` is what it was before the call, and so is
`travelled` unless it was empty.  In particular after `writeInline (.term …)` the caller's term arguments are in
force again (the pinned tree failed this: F12). -/
theorem term_args_restored_after_nested_call (env : Env) (n : Nat) (e : Inline Bytes) (w : Bytes) (sc : Scope)
    (w' : Bytes) (sc' : Scope) (h : writeInline env n e w sc = .ok (w', sc')) :
    sc'.localArgs = sc.localArgs ∧ (sc.travelled ≠ [] → sc'.travelled = sc.travelled) := by
  have := (frameAll env n).2.2.2.2.2.1 e w sc sc (Fr.refl sc)
  rw [h] at this
  exact this

/-- the same for the other entry points of the mutual block (expressions, value mode, referenced patterns,
call arguments) -/
theorem scope_restored (env : Env) (n : Nat) (sc : Scope) :
    (∀ e w w' sc', writeExpr env n e w sc = .ok (w', sc') → Fr sc sc') ∧
    (∀ e v sc', resolveInline env n e sc = .ok (v, sc') → Fr sc sc') ∧
    (∀ p src w w' sc', track env n p src w sc = .ok (w', sc') → Fr sc sc') ∧
    (∀ a v sc', getArguments env n a sc = .ok (v, sc') → Fr sc sc') := by
  obtain ⟨_, _, hT, hE, _, _, hR, hA, _, _⟩ := frameAll env n
  refine ⟨?_, ?_, ?_, ?_⟩
  · intro e w w' sc' h; have := hE e w sc sc (Fr.refl sc); rw [h] at this; exact this
  · intro e v sc' h; have := hR e sc sc (Fr.refl sc); rw [h] at this; exact this
  · intro p src w w' sc' h; have := hT p src w sc sc (Fr.refl sc); rw [h] at this; exact this
  · intro a v sc' h; have := hA a sc sc (Fr.refl sc); rw [h] at this; exact this

/-- **messages see the caller's arguments**: a message reference writes the message's pattern in the SAME scope
(only `travelled` grows, for cycle detection) — `localArgs` is not touched, so at top level (`localArgs = none`)
variables inside are looked up in `env.args`; see `caller_variable_lookup`. -/
theorem message_sees_callers_args (env : Env) (n : Nat) (id : Bytes) (m : Message Bytes) (p : Pattern Bytes)
    (w : Bytes) (sc : Scope) (hm : env.msg id = some m) (hv : m.value = some p) :
    writeInline env (n + 1) (.msg id .none) w sc = track env n p (.msg id .none) w sc ∧
    (∀ k src, travelledContains sc.travelled p = false →
      track env (k + 1) p src w sc =
        match writePattern env k p w { sc with travelled := sc.travelled ++ [p] } with
        | .ok (w1, sc1) => .ok (w1, { sc1 with travelled := sc1.travelled.dropLast })
        | .panic m => .panic m
        | .fuel => .fuel) := by
  constructor
  · simp [writeInline, hm, hv]
  · intro k src hc
    simp only [track, hc, Bool.false_eq_true, if_false]
    rfl

/-- the same for a message attribute -/
theorem message_attribute_sees_callers_args (env : Env) (n : Nat) (id a : Bytes) (m : Message Bytes)
    (p : Pattern Bytes) (w : Bytes) (sc : Scope) (hm : env.msg id = some m) (ha : findAttr m.attributes a = some p) :
    writeInline env (n + 1) (.msg id (some a)) w sc = track env n p (.msg id (some a)) w sc := by
  simp [writeInline, hm, ha]

/-- outside a term call a variable is looked up in the caller's arguments; a miss renders `{$id}` and is reported
exactly once (print and value mode) -/
theorem caller_variable_lookup (env : Env) (n : Nat) (id w : Bytes) (sc : Scope) (hl : sc.localArgs = .none) :
    writeInline env (n + 1) (.var id) w sc =
      (match env.args.bind (·.get id) with
       | some v => .ok (w ++ valueString env v, sc)
       | .none => .ok (w ++ braced ([36] ++ id), sc.addError (.reference (.variable id)))) ∧
    resolveInline env (n + 1) (.var id) sc =
      (match env.args.bind (·.get id) with
       | some v => .ok (v, sc)
       | .none => .ok (.error, sc.addError (.reference (.variable id)))) := by
  constructor
  · simp only [writeInline, hl]
    cases hg : env.args.bind (·.get id) <;> simp [inlineWriteError]
  · simp only [resolveInline, hl]
    cases hg : env.args.bind (·.get id) <;> simp

/-- **functions are applied to the resolved positional and named arguments**: positional values left to right,
then the named ones collected into a canonical argument list (C11), both in value mode and in print mode. -/
theorem function_receives_resolved_args (env : Env) (n : Nat) (id : Bytes) (pos : List (Inline Bytes))
    (named : List (Bytes × Inline Bytes)) (sc sc1 sc2 : Scope) (vs : List Value) (ns : List (Bytes × Value)) (fn : Fn)
    (hl : resolveList env n pos sc = .ok (vs, sc1)) (hn : resolveNamed env n named sc1 = .ok (ns, sc2))
    (hf : env.fn id = some fn) :
    resolveInline env (n + 2) (.fn id pos named) sc = .ok (fn vs (ArgList.ofPairs ns), sc2) ∧
    ∀ w, writeInline env (n + 2) (.fn id pos named) w sc =
      .ok (w ++ (match fn vs (ArgList.ofPairs ns) with
                 | .error => inlineWriteError (.fn id pos named)
                 | r => valueString env r), sc2) := by
  have hga : getArguments env (n + 1) (some (pos, named)) sc = .ok ((vs, ArgList.ofPairs ns), sc2) := by
    simp [getArguments, hl, hn]
  constructor
  · simp [resolveInline, hga, hf]
  · intro w
    simp only [writeInline, hga, hf]
    split <;> simp_all

/-- what `key.matches(selector)` means: exact string, exact number (`FluentNumber::eq`), or — for an identifier
key naming a plural category against a number selector — the selector's plural category -/
theorem variant_key_matches (env : Env) (a b : Bytes) (x y : FluentNumber) :
    valueMatches env (.str a) (.str b) = some (a == b) ∧
    valueMatches env (.num x) (.num y) = some (x.eq y) ∧
    valueMatches env (.str a) (.num y) =
      (match categoryOfKeyword a with
       | .none => some false
       | some cat => (env.category y).map (· == cat)) ∧
    valueMatches env (.num x) (.str b) = some false :=
  ⟨rfl, rfl, rfl, rfl⟩

/-- `selectVariant` returns the FIRST variant whose key matches: every variant before it does not match -/
theorem selectVariant_first (env : Env) (vs : List (Variant Bytes)) (s : Value) (v : Pattern Bytes)
    (h : selectVariant env vs s = .ok (some v)) :
    ∃ pre k d post, vs = pre ++ .mk k v d :: post ∧ valueMatches env (keyValue env k) s = some true ∧
      ∀ k' v' d', Variant.mk k' v' d' ∈ pre → valueMatches env (keyValue env k') s = some false := by
  induction vs with
  | nil => simp [selectVariant] at h
  | cons x rest ih =>
    obtain ⟨k, val, d⟩ := x
    rw [selectVariant_cons] at h
    cases hm : valueMatches env (keyValue env k) s with
    | none => simp [hm] at h
    | some b =>
      cases b with
      | true =>
        simp [hm] at h
        subst h
        exact ⟨[], k, d, rest, rfl, hm, by simp⟩
      | false =>
        simp [hm] at h
        obtain ⟨pre, k2, d2, post, e, h1, h2⟩ := ih h
        refine ⟨.mk k val d :: pre, k2, d2, post, by simp [e], h1, ?_⟩
        intro k' v' d' hmem
        rcases List.mem_cons.1 hmem with heq | hmem
        · cases heq; exact hm
        · exact h2 k' v' d' hmem

/-- … and returns none only when no key matches -/
theorem selectVariant_none (env : Env) (vs : List (Variant Bytes)) (s : Value)
    (h : selectVariant env vs s = .ok .none) :
    ∀ k' v' d', Variant.mk k' v' d' ∈ vs → valueMatches env (keyValue env k') s = some false := by
  induction vs with
  | nil => simp
  | cons x rest ih =>
    obtain ⟨k, val, d⟩ := x
    rw [selectVariant_cons] at h
    cases hm : valueMatches env (keyValue env k) s with
    | none => simp [hm] at h
    | some b =>
      cases b with
      | true => simp [hm] at h
      | false =>
        simp [hm] at h
        intro k' v' d' hmem
        rcases List.mem_cons.1 hmem with heq | hmem
        · cases heq; exact hm
        · exact ih h k' v' d' hmem

/-- **selects choose the first variant whose key equals the selector, otherwise the default**: with the selector
resolved to `selector`, a string or number selector is matched against the keys in order (`chosen` =
`selectVariant`, see `selectVariant_first` / `variant_key_matches`); if none matches, or the selector is not a
string or number (e.g. an unresolvable reference), the default variant is written. -/
theorem select_first_matching_else_default (env : Env) (n : Nat) (sel : Inline Bytes) (vs : List (Variant Bytes))
    (w : Bytes) (sc : Scope) (selector : Value) (sc1 : Scope)
    (hs : resolveInline env n sel sc = .ok (selector, sc1)) :
    writeExpr env (n + 1) (.select sel vs) w sc =
      (match chosen env vs selector with
       | .ok (some v) => writePattern env n v w sc1
       | .ok .none => writeDefault env n vs w sc1
       | .panic m => .panic m
       | .fuel => .fuel) ∧
    (∀ k, writeDefault env (k + 1) vs w sc1 =
      match defaultVariant vs with
      | some v => writePattern env k v w sc1
      | .none => .ok (w, sc1.addError .missingDefault)) ∧
    (∀ b, chosen env vs (.str b) = selectVariant env vs (.str b)) ∧
    (∀ x, chosen env vs (.num x) = selectVariant env vs (.num x)) ∧
    chosen env vs .error = .ok .none ∧ chosen env vs .none = .ok .none ∧ ∀ t, chosen env vs (.custom t) = .ok .none :=
  ⟨writeExpr_select env n sel vs w sc selector sc1 hs, fun k => by simp only [writeDefault]; rfl,
    fun _ => rfl, fun _ => rfl, rfl, rfl, fun _ => rfl⟩


/-- **an unresolvable message, term, attribute, function or caller-variable reference renders as its source form in
braces and is reported exactly once** — in print mode (`writeInline`) AND in value mode (`resolveInline`, i.e. as a
selector or call argument; the pinned tree reported an unknown function there zero times: F13).  The new scope is
the old one with exactly one `reference` entry appended (`Scope.addError`), nothing else changes.
(1) unknown message, (2) unknown attribute of a known message, (3) unknown term or term attribute,
(4) unknown function, (5) variable the caller did not pass. -/
theorem missing_reference_reported_once (env : Env) (n : Nat) (sc : Scope) :
    -- (1) unknown message
    (∀ id attr, env.msg id = .none →
      (∀ w, writeInline env (n + 1) (.msg id attr) w sc =
        .ok (w ++ braced (inlineWriteError (.msg id attr)), sc.addError (.reference (.message id attr)))) ∧
      resolveInline env (n + 2) (.msg id attr) sc =
        .ok (.str (braced (inlineWriteError (.msg id attr))), sc.addError (.reference (.message id attr)))) ∧
    -- (2) unknown attribute
    (∀ id a m, env.msg id = some m → findAttr m.attributes a = .none →
      (∀ w, writeInline env (n + 1) (.msg id (some a)) w sc =
        .ok (w ++ braced (id ++ [46] ++ a), sc.addError (.reference (.message id (some a))))) ∧
      resolveInline env (n + 2) (.msg id (some a)) sc =
        .ok (.str (braced (id ++ [46] ++ a)), sc.addError (.reference (.message id (some a))))) ∧
    -- (3) unknown term / term attribute (after the call arguments were resolved)
    (∀ id attr args rp named sc1, getArguments env n args sc = .ok ((rp, named), sc1) →
      termTarget env id attr = .none →
      (∀ w, writeInline env (n + 1) (.term id attr args) w sc =
        .ok (w ++ braced (inlineWriteError (.term id attr args)), sc1.addError (.reference (.term id attr)))) ∧
      resolveInline env (n + 2) (.term id attr args) sc =
        .ok (.str (braced (inlineWriteError (.term id attr args))), sc1.addError (.reference (.term id attr)))) ∧
    -- (4) unknown function (after the call arguments were resolved)
    (∀ id pos named rp rn sc1, getArguments env n (some (pos, named)) sc = .ok ((rp, rn), sc1) →
      env.fn id = .none →
      (∀ w, writeInline env (n + 1) (.fn id pos named) w sc =
        .ok (w ++ braced (id ++ [40, 41]), sc1.addError (.reference (.function id)))) ∧
      resolveInline env (n + 1) (.fn id pos named) sc = .ok (.error, sc1.addError (.reference (.function id)))) ∧
    -- (5) variable missing from the caller's arguments
    (∀ id, sc.localArgs = .none → env.args.bind (·.get id) = .none →
      (∀ w, writeInline env (n + 1) (.var id) w sc =
        .ok (w ++ braced ([36] ++ id), sc.addError (.reference (.variable id)))) ∧
      resolveInline env (n + 1) (.var id) sc = .ok (.error, sc.addError (.reference (.variable id)))) := by
  refine ⟨?_, ?_, ?_, ?_, ?_⟩
  · intro id attr hm
    have h1 : ∀ k w, writeInline env (k + 1) (.msg id attr) w sc =
        .ok (w ++ braced (inlineWriteError (.msg id attr)), sc.addError (.reference (.message id attr))) := by
      intro k w; simp [writeInline, hm, writeRefError, refKindOf]
    exact ⟨h1 n, by simp [resolveInline, h1 n []]⟩
  · intro id a m hm ha
    have h1 : ∀ k w, writeInline env (k + 1) (.msg id (some a)) w sc =
        .ok (w ++ braced (id ++ [46] ++ a), sc.addError (.reference (.message id (some a)))) := by
      intro k w; simp [writeInline, hm, ha, writeRefError, refKindOf, inlineWriteError]
    exact ⟨h1 n, by simp [resolveInline, h1 n []]⟩
  · intro id attr args rp named sc1 ha ht
    have h1 : ∀ w, writeInline env (n + 1) (.term id attr args) w sc =
        .ok (w ++ braced (inlineWriteError (.term id attr args)), sc1.addError (.reference (.term id attr))) := by
      intro w
      rw [writeInline_term env n id attr args w sc rp named sc1 ha, ht]
      simp [writeRefError, refKindOf, Scope.addError]
    exact ⟨h1, by simp [resolveInline, h1 []]⟩
  · intro id pos named rp rn sc1 ha hf
    constructor
    · intro w; simp [writeInline, ha, hf, writeRefError, refKindOf, inlineWriteError]
    · simp [resolveInline, ha, hf]
  · intro id hl hg
    constructor
    · intro w
      have := (caller_variable_lookup env n id w sc hl).1
      rw [hg] at this; exact this
    · have := (caller_variable_lookup env n id [] sc hl).2
      rw [hg] at this; exact this

/-- **a parameter that a term was not given renders the same way but is not an error**: inside a term call
(`localArgs = some l`) a variable missing from `l` renders `{$id}` (value mode: the error value) and the scope —
in particular the error log — is unchanged. -/
theorem term_parameter_miss_not_an_error (env : Env) (n : Nat) (id w : Bytes) (sc : Scope) (l : ArgList)
    (hl : sc.localArgs = some l) (hg : l.get id = .none) :
    writeInline env (n + 1) (.var id) w sc = .ok (w ++ braced ([36] ++ id), sc) ∧
    resolveInline env (n + 1) (.var id) sc = .ok (.error, sc) := by
  have := term_sees_only_call_args env n id w sc l hl
  rw [hg] at this
  exact this

/-- **a cycle is reported once where it occurs**: a reference to a pattern that is already being resolved renders
the reference's source form in braces and appends exactly one `cyclic` entry; the pattern is not entered. -/
theorem cycle_reported_once (env : Env) (n : Nat) (p : Pattern Bytes) (src : Inline Bytes) (w : Bytes) (sc : Scope)
    (h : travelledContains sc.travelled p = true) :
    track env (n + 1) p src w sc = .ok (w ++ braced (inlineWriteError src), sc.addError .cyclic) := by
  simp [track, h]

/-- **a value-less message is reported once where it occurs**: `{ msg }` for a message with attributes only
renders `{msg}` and appends exactly one `noValue` entry (print and value mode). -/
theorem no_value_reported_once (env : Env) (n : Nat) (id : Bytes) (m : Message Bytes) (sc : Scope)
    (hm : env.msg id = some m) (hv : m.value = .none) :
    (∀ w, writeInline env (n + 1) (.msg id .none) w sc = .ok (w ++ braced id, sc.addError (.noValue id))) ∧
    resolveInline env (n + 2) (.msg id .none) sc = .ok (.str (braced id), sc.addError (.noValue id)) := by
  have h1 : ∀ k w, writeInline env (k + 1) (.msg id .none) w sc = .ok (w ++ braced id, sc.addError (.noValue id)) := by
    intro k w; simp [writeInline, hm, hv, inlineWriteError]
  exact ⟨h1 n, by simp [resolveInline, h1 n []]⟩

/-- **an exceeded placeable limit is reported once where it occurs.**
Local: the placeable that takes the counter over `maxPlaceables` writes nothing, sets `dirty` and appends one
`tooManyPlaceables`.  Global: whenever the reference semantics hits the limit, the error list either entry point
of the model returns contains `tooManyPlaceables` EXACTLY once. -/
theorem limit_reported_once (env : Env) :
    (∀ k whole len e rest w sc, sc.dirty = false → sc.placeables ≤ Generated.maxPlaceables →
      sc.placeables + 1 > Generated.maxPlaceables →
      writeElems env (k + 1) whole len (.placeable e :: rest) w sc =
        .ok (w, ⟨sc.localArgs, sc.placeables + 1, sc.travelled, sc.errors ++ [.tooManyPlaceables], true⟩)) ∧
    (CategoryTotal env → ∀ fuel p lg, ResolverSpec.format env fuel p = .limit lg →
      ∀ fuel', 3 * fuel + 1 ≤ fuel' → ∀ out errs,
        (formatPattern env fuel' p = .ok (out, errs) ∨ writePatternTop env fuel' p = .ok (out, errs)) →
        errs.count .tooManyPlaceables = 1) := by
  refine ⟨fun k whole len e rest w sc hd hb hl => writeElems_limit env k whole len e rest w sc hd hb hl, ?_⟩
  intro hc fuel p lg h fuel' hf out errs hr
  obtain ⟨h1, h2, pre, rfl, hpre⟩ := format_refines_spec_limit env hc fuel p lg h fuel' hf
  have key : ∃ extra, errs = (pre ++ [RErr.tooManyPlaceables]) ++ extra ∧ RErr.tooManyPlaceables ∉ extra := by
    rcases hr with hr | hr
    · rw [hr] at h1; exact h1
    · rw [hr] at h2; exact h2
  obtain ⟨extra, rfl, hex⟩ := key
  simp [List.count_append, List.count_eq_zero.2 hpre, List.count_eq_zero.2 hex]

/-- the kinds of report the property lists for a resolution that stays within the limit -/
def Listed (e : RErr) : Prop := (∃ k, e = .reference k) ∨ (∃ id, e = .noValue id) ∨ e = .cyclic

/-- **nothing else is reported.**  The model's error list is exactly the log of the reference semantics
(`format_refines_spec`), in which every entry was appended by one of the clauses above.  In particular, if every
select expression of the pattern and of every message and term of the bundle has a default variant (`patD`,
`EnvD`: true of every parsed resource), every entry is a `reference`, `noValue` or `cyclic` report — `missingDefault`
never occurs; and without that hypothesis the only further possibility is `missingDefault` (never
`tooManyPlaceables` on a normal outcome). -/
theorem nothing_else_reported (env : Env) (fuel : Nat) (p : Pattern Bytes) (out : Bytes) (n : Nat) (log : List RErr)
    (h : ResolverSpec.format env fuel p = .val out n log) (fuel' : Nat) (hf : 3 * fuel + 1 ≤ fuel') :
    formatPattern env fuel' p = .ok (out, log) ∧ writePatternTop env fuel' p = .ok (out, log) ∧
    (∀ e ∈ log, Listed e ∨ e = .missingDefault) ∧
    (EnvD env → patD p = true → ∀ e ∈ log, Listed e) := by
  obtain ⟨h1, h2⟩ := format_refines_spec env fuel p out n log h fuel' hf
  have kinds : ∀ e : RErr, e ≠ .tooManyPlaceables → Listed e ∨ e = .missingDefault := by
    intro e he
    cases e with
    | reference k => exact .inl (.inl ⟨k, rfl⟩)
    | noValue id => exact .inl (.inr (.inl ⟨id, rfl⟩))
    | missingDefault => exact .inr rfl
    | cyclic => exact .inl (.inr (.inr rfl))
    | tooManyPlaceables => exact absurd rfl he
  refine ⟨h1, h2, ?_, ?_⟩
  · have hs := format_log false env fuel p (by simp) (by simp)
    rw [h] at hs
    obtain ⟨added, he, ha⟩ := hs
    intro e hm
    have : e ∈ added := by simpa [he] using hm
    exact kinds e (ha e this).1
  · intro hE hp
    have hs := format_log true env fuel p (fun _ => hE) (fun _ => hp)
    rw [h] at hs
    obtain ⟨added, he, ha⟩ := hs
    intro e hm
    have hm' : e ∈ added := by simpa [he] using hm
    rcases kinds e (ha e hm').1 with hk | hk
    · exact hk
    · exact absurd hk ((ha e hm').2 rfl)


/-! ## tests on concrete bundles (`decide +kernel` on literals — non-vacuity checks, not theorems about all inputs) -/
section Tests

/-- test helper: the observable part of an entry-point result (`RR` has no `DecidableEq`) -/
def obs : RR (Bytes × List RErr) → Option (Bytes × List RErr)
  | .ok r => some r
  | _ => .none

/-- test helper: the observable part of a spec outcome; a limit outcome shows its log -/
def obsSpec : Out Bytes → Option (Bytes × List RErr)
  | .val out _ log => some (out, log)
  | .limit log => some ([], log)
  | _ => .none

/-- `-i = I` -/
def tTermI : Term Bytes := ⟨[105], [.text [73]], [], .none⟩
/-- `-o = { -i(y: "b") } then { $x }` — a nested term call followed by a variable (the F12 shape) -/
def tTermO : Term Bytes :=
  ⟨[111], [.placeable (.inline (.term [105] .none (some ([], [([121], .str [98])])))),
           .text [32, 116, 104, 101, 110, 32],
           .placeable (.inline (.var [120]))], [], .none⟩
/-- `m = { -o(x: "LOCAL") }` -/
def tPatM : Pattern Bytes := [.placeable (.inline (.term [111] .none (some ([], [([120], .str [76, 79, 67, 65, 76])]))))]
/-- `s = { MISSING() -> *[a] A }` — unknown function as selector (the F13 shape) -/
def tPatS : Pattern Bytes := [.placeable (.select (.fn [77] [] []) [.mk (.ident [97]) [.text [65]] true])]
/-- `v = { $x } { $z }` -/
def tPatV : Pattern Bytes := [.placeable (.inline (.var [120])), .text [32], .placeable (.inline (.var [122]))]
/-- 101 placeables `{ "" }` -/
def tPatL : Pattern Bytes := List.replicate 101 (.placeable (.inline (.str [])))

/-- bundle with the two terms, no functions, caller arguments `x = "CALLER"` -/
def tEnv : Env where
  msg := fun _ => .none
  term := fun id => if id == [105] then some tTermI else if id == [111] then some tTermO else .none
  fn := fun _ => .none
  useIsolating := false
  transform := .none
  formatter := .none
  category := fun _ => some .other
  tryNumber := fun b => .str b
  unescape := fun b => b
  customStr := fun b => b
  args := some [([120], .str [67, 65, 76, 76, 69, 82])]

/-- test: nested term call followed by a variable — the term's own argument `x = "LOCAL"` is back in force:
`I then LOCAL`, no errors (the pinned tree printed `I then CALLER`) -/
example : obs (formatPattern tEnv 40 tPatM) =
    some ([73, 32, 116, 104, 101, 110, 32, 76, 79, 67, 65, 76], []) := by decide +kernel

/-- test: the writer API gives the same, and so does the reference semantics -/
example : obs (writePatternTop tEnv 40 tPatM) = obsSpec (ResolverSpec.format tEnv 13 tPatM) := by decide +kernel

/-- test: unknown function as selector — default variant `A`, exactly one `reference` report -/
example : obs (formatPattern tEnv 40 tPatS) = some ([65], [.reference (.function [77])]) := by decide +kernel
example : obsSpec (ResolverSpec.format tEnv 13 tPatS) = some ([65], [.reference (.function [77])]) := by decide +kernel

/-- test: caller variable present / missing — `CALLER {$z}`, one report for `$z` -/
example : obs (formatPattern tEnv 40 tPatV) =
    some ([67, 65, 76, 76, 69, 82, 32, 123, 36, 122, 125], [.reference (.variable [122])]) := by decide +kernel

/-- test: the 101st placeable trips the limit — reported once, by the model and by the spec -/
example : (obs (formatPattern tEnv 400 tPatL)).map (·.2) = some [.tooManyPlaceables] := by decide +kernel
example : (obsSpec (ResolverSpec.format tEnv 130 tPatL)).map (·.2) = some [.tooManyPlaceables] := by decide +kernel

/-- 99 placeables `{ "" }`, then `{ F(-o, $z) }`: the call is the 100th placeable, the first placeable inside `-o`
is the 101st -/
def tPatX : Pattern Bytes := List.replicate 99 (.placeable (.inline (.str []))) ++
  [.placeable (.inline (.fn [70] [.term [111] .none .none, .var [122]] []))]

/-- test: what `format_refines_spec_limit` allows after the limit (`extra`): the limit trips inside the first call
argument; the code still resolves the remaining argument `$z` and looks up `F`, so the model's log is the spec's
`[tooManyPlaceables]` followed by two `reference` reports, and the fallback `{F()}` is printed by `write_ref_error`
and again by `maybe_track` -/
example : obs (formatPattern tEnv 400 tPatX) =
    some ([123, 70, 40, 41, 125, 123, 70, 40, 41, 125],
      [.tooManyPlaceables, .reference (.variable [122]), .reference (.function [70])]) ∧
    obsSpec (ResolverSpec.format tEnv 130 tPatX) = some ([], [.tooManyPlaceables]) := by decide +kernel

/-- test: the hypotheses of `nothing_else_reported` are satisfiable — the select of `tPatS` has a default -/
example : patD tPatS = true ∧ patD tPatM = true := by decide +kernel

end Tests

end FluentProofs.C07
