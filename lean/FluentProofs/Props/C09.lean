import FluentModel.Resolver
namespace FluentProofs.C09
theorem placeholder : True := trivial
end FluentProofs.C09
