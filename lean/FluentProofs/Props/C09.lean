import FluentProofs.ConstTieResolver
import FluentProofs.ResolverIso5
/-!
# C09 — bidi isolation is additive, balanced and confined to interpolated values

Theorems about the transcribed resolver (`FluentModel/Resolver.lean`), for every `Env`, pattern, fuel,
writer and scope.  Vocabulary (`FluentProofs/ResolverIso*.lean`):

* `strip` removes every FSI / PDI, `Balanced` is the Dyck check, `NoMarks b` = `b` contains neither mark;
* `MarkFree piece` — the hypothesis on each piece of "own text": every byte `E2` of the piece is followed
  *inside the piece* by two bytes that do not complete a mark.  It excludes pieces containing a mark **and**
  pieces ending in a partial mark (`… E2` or `… E2 81`), so that no mark can arise at a junction of two
  pieces.  Any concatenation of well-formed UTF-8 sequences other than U+2068/U+2069 is `MarkFree`
  (`Bidi.markFree_of_utf8`);
* `Pieces env p` — every text element (after the transform), string literal (raw and unescaped), number
  literal (raw and formatted), identifier, argument value, function output and formatter output of the
  pattern and of every entry of the bundle is `MarkFree`;
* `Dyck` — mark-free pieces with properly nested `fsi … pdi` pairs; `Dyck out → Balanced out`.
-/
namespace FluentProofs.C09
open FluentModel FluentModel.Syntax FluentModel.Resolver FluentProofs.Bidi

/-! ## T1 `isolation_sites` -/

/-- **where marks are written.**  One step of `Pattern::write` on a placeable: unless the scope is dirty,
the counter overflows or the placeable limit trips (all three return *before* anything is written for this
placeable), the model writes `openMark ++ (output of the expression) ++ ({error} fallback if the limit
tripped inside) ++ closeMark` and goes on with the rest; `(openMark, closeMark)` is `(fsi, pdi)` exactly
when isolation is on, the pattern has more than one element and the expression is not a message reference,
term reference or string literal, and `([], [])` otherwise.  A text element writes its (transformed) text
and nothing else.  These are the only places where the model writes `fsi` / `pdi`. -/
theorem isolation_sites (env : Env) (n : Nat) (whole : Pattern Bytes) (len : Nat) (rest : List (PatElem Bytes))
    (w : Bytes) (sc : Scope) :
    (∀ e, writeElems env (n + 1) whole len (.placeable e :: rest) w sc =
      if sc.dirty = true then .ok (w, sc)
      else if sc.placeables + 1 > 255 then .panic "placeables u8 overflow"
      else if sc.placeables + 1 > Generated.maxPlaceables then
        .ok (w, ({ sc with placeables := sc.placeables + 1, dirty := true } : Scope).addError .tooManyPlaceables)
      else match writeExpr env n e (w ++ openMark env len e) (trackScope whole sc) with
        | .ok (w2, sc3) => writeElems env n whole len rest (w2 ++ fallback e sc3 ++ closeMark env len e) sc3
        | .panic m => .panic m
        | .fuel => .fuel) ∧
    (∀ e, (openMark env len e, closeMark env len e) =
      if env.useIsolating = true ∧ len > 1 ∧ isolatable e = true then (fsi, pdi) else ([], [])) ∧
    (∀ v, writeElems env (n + 1) whole len (.text v :: rest) w sc =
      if sc.dirty = true then .ok (w, sc)
      else writeElems env n whole len rest (w ++ (match env.transform with | some f => f v | .none => v)) sc) := by
  refine ⟨fun e => writeElems_placeable env n whole len e rest w sc, fun e => ?_,
    fun v => writeElems_text env n whole len v rest w sc⟩
  unfold openMark closeMark
  by_cases h : env.useIsolating = true ∧ len > 1 ∧ isolatable e = true
  · rw [if_pos h]; simp [h.1, h.2.1, h.2.2]
  · rw [if_neg h]
    have : (env.useIsolating && decide (len > 1) && isolatable e) = false := by
      cases h1 : env.useIsolating <;> cases h3 : isolatable e <;> simp_all
    simp [this]

/-- **the shape of an isolated value**: when the step on a placeable gets past the three early returns and
the whole `writeElems` call returns, the output appended for this placeable is exactly
`openMark ++ body ++ fallback ++ closeMark` — `body` the (balanced) output of the expression, `fallback` its
`{error}` text if the placeable limit tripped inside — followed by the (balanced) output `tail` of the rest.
So an opened FSI is always closed: there is no return between the two writes. -/
theorem isolation_site_shape {env : Env} (H : EnvOK env Dyck) {n : Nat} {whole : Pattern Bytes} {len : Nat}
    {e : Expr Bytes} {rest : List (PatElem Bytes)} {w w' : Bytes} {sc sc' : Scope}
    (he : AtomsOK env Dyck (exprAtoms e)) (hrest : AtomsOK env Dyck (elemsAtoms (decide (len > 1)) rest))
    (hsc : ScOK env Dyck sc) (hd : sc.dirty = false) (hlim : sc.placeables + 1 ≤ Generated.maxPlaceables)
    (h : writeElems env (n + 1) whole len (.placeable e :: rest) w sc = .ok (w', sc')) :
    ∃ body tail sc3,
      writeExpr env n e (w ++ openMark env len e) (trackScope whole sc) = .ok (w ++ openMark env len e ++ body, sc3) ∧
      w' = w ++ (openMark env len e ++ body ++ fallback e sc3 ++ closeMark env len e) ++ tail ∧
      Dyck body ∧ Dyck tail := by
  rw [writeElems_placeable] at h
  have h255 : ¬ sc.placeables + 1 > 255 := by
    have : Generated.maxPlaceables = 100 := rfl
    omega
  rw [if_neg (by simp [hd]), if_neg h255, if_neg (by omega)] at h
  have hl2 : (trackScope whole sc).localArgs = sc.localArgs := by unfold trackScope; split <;> rfl
  have h1 := (inv_all H n).writeExpr e (w ++ openMark env len e) (trackScope whole sc) he (ScOK.of_eq hl2 hsc)
  rcases hr : writeExpr env n e (w ++ openMark env len e) (trackScope whole sc) with ⟨⟨w2, sc3⟩⟩ | ⟨m⟩ | _
  · rw [hr] at h h1
    simp only [] at h
    obtain ⟨⟨body, rfl, hb⟩, hl3⟩ := h1
    have h2 := (inv_all H n).writeElems whole len rest
      (w ++ openMark env len e ++ body ++ fallback e sc3 ++ closeMark env len e) sc3 hrest (ScOK.of_eq (hl3.trans hl2) hsc)
    rw [h] at h2
    obtain ⟨⟨tail, e2, ht⟩, _⟩ := h2
    exact ⟨body, tail, sc3, rfl, by rw [e2]; simp [List.append_assoc], hb, ht⟩
  · rw [hr] at h; cases h
  · rw [hr] at h; cases h

/-- **single-element patterns get no marks of their own**: in a pattern with at most one element nothing is
written around the placeable (marks in the output can then only come from multi-element patterns the
expression refers to). -/
theorem single_element_no_own_marks (env : Env) {len : Nat} (h : len ≤ 1) (e : Expr Bytes) :
    openMark env len e = [] ∧ closeMark env len e = [] :=
  ⟨openMark_single env h e, closeMark_single env h e⟩

/-- message references, term references and string literals are never isolated -/
theorem references_and_literals_not_isolated (env : Env) (len : Nat) :
    (∀ id a, openMark env len (.inline (.msg id a)) = [] ∧ closeMark env len (.inline (.msg id a)) = []) ∧
    (∀ id a args, openMark env len (.inline (.term id a args)) = [] ∧ closeMark env len (.inline (.term id a args)) = []) ∧
    (∀ v, openMark env len (.inline (.str v)) = [] ∧ closeMark env len (.inline (.str v)) = []) :=
  ⟨fun _ _ => ⟨openMark_not_isolatable env len rfl, closeMark_not_isolatable env len rfl⟩,
   fun _ _ _ => ⟨openMark_not_isolatable env len rfl, closeMark_not_isolatable env len rfl⟩,
   fun _ => ⟨openMark_not_isolatable env len rfl, closeMark_not_isolatable env len rfl⟩⟩

/-- **isolation off ⇒ no marks**: with `use_isolating = false` and mark-free pieces the output appended by
`Pattern::write` is mark-free (in particular contains neither FSI nor PDI), on every path. -/
theorem isolation_off_no_marks {env : Env} {p : Pattern Bytes} (hoff : env.useIsolating = false) (P : Pieces env p)
    (fuel : Nat) (w : Bytes) (sc : Scope) (hsc : ScOK env MarkFree sc) {w' : Bytes} {sc' : Scope}
    (h : writePattern env fuel p w sc = .ok (w', sc')) :
    ∃ out, w' = w ++ out ∧ MarkFree out ∧ NoMarks out := by
  obtain ⟨H, hp⟩ := P.envOK lang_markFree (siteOK_off _ hoff)
  have := (inv_all H fuel).writePattern p w sc hp hsc
  rw [h] at this
  obtain ⟨⟨o, e, ho⟩, _⟩ := this
  exact ⟨o, e, ho, ho.noMarks⟩

/-- the same for `FluentBundle::format_pattern` and `write_pattern` -/
theorem isolation_off_no_marks_top {env : Env} {p : Pattern Bytes} (hoff : env.useIsolating = false) (P : Pieces env p)
    (fuel : Nat) {out : Bytes} {errs : List RErr}
    (h : formatPattern env fuel p = .ok (out, errs) ∨ writePatternTop env fuel p = .ok (out, errs)) :
    MarkFree out ∧ NoMarks out := by
  obtain ⟨H, hp⟩ := P.envOK lang_markFree (siteOK_off _ hoff)
  rcases h with h | h
  · have h1 := resolvePattern_out H hp fuel {} (scOK_empty _ _)
    unfold formatPattern at h
    rcases hr : resolvePattern env fuel p {} with ⟨⟨w, sc⟩⟩ | _ | _ <;> rw [hr] at h <;> simp at h
    rw [hr] at h1
    obtain ⟨⟨o, e, ho⟩, _⟩ := h1
    obtain ⟨rfl, _⟩ := h
    simp at e; subst e
    exact ⟨ho, ho.noMarks⟩
  · have h1 := (inv_all H fuel).writePattern p [] {} hp (scOK_empty _ _)
    unfold writePatternTop at h
    rcases hr : writePattern env fuel p [] {} with ⟨⟨w, sc⟩⟩ | _ | _ <;> rw [hr] at h <;> simp at h
    rw [hr] at h1
    obtain ⟨⟨o, e, ho⟩, _⟩ := h1
    obtain ⟨rfl, _⟩ := h
    simp at e; subst e
    exact ⟨ho, ho.noMarks⟩

/-- **marks only come from sites**: even with isolation on, if no pattern of the bundle (nor `p`) has an
isolatable placeable inside a multi-element pattern, the output is mark-free. -/
theorem isolation_only_at_sites {env : Env} {p : Pattern Bytes} (P : Pieces env p) (N : NoSites env p)
    (fuel : Nat) (w : Bytes) (sc : Scope) (hsc : ScOK env MarkFree sc) {w' : Bytes} {sc' : Scope}
    (h : writePattern env fuel p w sc = .ok (w', sc')) :
    ∃ out, w' = w ++ out ∧ MarkFree out ∧ NoMarks out := by
  obtain ⟨H, hp⟩ := P.envOK_noSites lang_markFree N
  have := (inv_all H fuel).writePattern p w sc hp hsc
  rw [h] at this
  obtain ⟨⟨o, e, ho⟩, _⟩ := this
  exact ⟨o, e, ho, ho.noMarks⟩

/-! ## T1 `isolation_balanced` -/

/-- **balance, for every call of every function of the resolver** (general form).  `Inv env Dyck fuel`
says, for each of `writeElems`, `writePattern`, `track`, `writeExpr`, `writeDefault`, `writeInline`: a call
from writer `w` that returns `.ok (w', sc')` has `w' = w ++ out` with `Dyck out` (and restores the local
arguments); for `resolveInline`, `getArguments`, `resolveList`, `resolveNamed`: the resolved values are
written as Dyck words.  `EnvOK env Dyck` is the piece hypothesis in its weakest form: atoms mark-free,
argument values written as Dyck words, functions mapping Dyck-valued arguments to Dyck-valued results. -/
theorem isolation_balanced_every_call {env : Env} (H : EnvOK env Dyck) (fuel : Nat) : Inv env Dyck fuel :=
  inv_all H fuel

/-- **balance**: whatever the isolation setting, on every path — reference-error fallbacks, cycles, missing
defaults, the placeable-limit (`dirty`) path — a `Pattern::write` that returns appends a word with balanced,
properly nested marks.  (Panics and fuel exhaustion return nothing; C06 shows they do not happen.) -/
theorem isolation_balanced {env : Env} {p : Pattern Bytes} (P : Pieces env p)
    (fuel : Nat) (w : Bytes) (sc : Scope) (hsc : ScOK env Dyck sc) {w' : Bytes} {sc' : Scope}
    (h : writePattern env fuel p w sc = .ok (w', sc')) :
    ∃ out, w' = w ++ out ∧ Dyck out ∧ Balanced out := by
  obtain ⟨H, hp⟩ := P.envOK lang_dyck (siteOK_dyck env)
  have := (inv_all H fuel).writePattern p w sc hp hsc
  rw [h] at this
  obtain ⟨⟨o, e, ho⟩, _⟩ := this
  exact ⟨o, e, ho, ho.balanced⟩

/-- the same for `FluentBundle::format_pattern` and `write_pattern` -/
theorem isolation_balanced_top {env : Env} {p : Pattern Bytes} (P : Pieces env p)
    (fuel : Nat) {out : Bytes} {errs : List RErr}
    (h : formatPattern env fuel p = .ok (out, errs) ∨ writePatternTop env fuel p = .ok (out, errs)) :
    Dyck out ∧ Balanced out := by
  obtain ⟨H, hp⟩ := P.envOK lang_dyck (siteOK_dyck env)
  rcases h with h | h
  · have h1 := resolvePattern_out H hp fuel {} (scOK_empty _ _)
    unfold formatPattern at h
    rcases hr : resolvePattern env fuel p {} with ⟨⟨w, sc⟩⟩ | _ | _ <;> rw [hr] at h <;> simp at h
    rw [hr] at h1
    obtain ⟨⟨o, e, ho⟩, _⟩ := h1
    obtain ⟨rfl, _⟩ := h
    simp at e; subst e
    exact ⟨ho, ho.balanced⟩
  · have h1 := (inv_all H fuel).writePattern p [] {} hp (scOK_empty _ _)
    unfold writePatternTop at h
    rcases hr : writePattern env fuel p [] {} with ⟨⟨w, sc⟩⟩ | _ | _ <;> rw [hr] at h <;> simp at h
    rw [hr] at h1
    obtain ⟨⟨o, e, ho⟩, _⟩ := h1
    obtain ⟨rfl, _⟩ := h
    simp at e; subst e
    exact ⟨ho, ho.balanced⟩

/-! ## T1 `isolation_additive_partial` -/

/-- outcome of the isolating run against the plain run, both started from writer `w` and the same scope:
same final scope (error log, placeables counter, dirty flag, …); the isolating output stripped of its
marks is the plain output; the isolating output is balanced; the plain output has no marks.  Panics agree. -/
def Additive (w : Bytes) : RR (Bytes × Scope) → RR (Bytes × Scope) → Prop
  | .ok (a, s), .ok (b, t) =>
    s = t ∧ ∃ on off, a = w ++ on ∧ b = w ++ off ∧ strip on = off ∧ Iso on off ∧ Balanced on ∧ NoMarks off
  | .panic m, .panic m' => m = m'
  | .fuel, .fuel => True
  | _, _ => False

/-- **additivity, under `NoIsolatedValueFlow`** (partial: see `C09_full_statement` and F15). -/
theorem isolation_additive_partial {env : Env} {p : Pattern Bytes} (F : NoIsolatedValueFlow env p) (P : Pieces env p)
    (fuel : Nat) (w : Bytes) (sc : Scope) (hsc : ScOK env MarkFree sc) :
    Additive w (writePattern (withIso env true) fuel p w sc) (writePattern (withIso env false) fuel p w sc) := by
  obtain ⟨Hoff, hpoff⟩ := (P.withIso false).envOK lang_markFree (siteOK_off _ rfl)
  obtain ⟨Hon, hpon⟩ := (P.withIso true).envOK lang_dyck (siteOK_dyck _)
  have hoff := (inv_all Hoff fuel).writePattern p w sc hpoff hsc
  have hon := (inv_all Hon fuel).writePattern p w sc hpon
    (fun l hl kv hkv => Dyck.of_markFree (hsc l hl kv hkv))
  rcases ((inv2_all F.bundle fuel).writePattern p w w sc F.pattern).cases with
    ⟨s, on, off, e1, e2, hi⟩ | ⟨m, e1, e2⟩ | ⟨e1, e2⟩
  · rw [e1] at hon ⊢; rw [e2] at hoff ⊢
    obtain ⟨⟨o1, h1, ho1⟩, _⟩ := hon
    obtain ⟨⟨o2, h2, ho2⟩, _⟩ := hoff
    have h1 := List.append_cancel_left h1
    have h2 := List.append_cancel_left h2
    subst h1; subst h2
    exact ⟨rfl, on, off, rfl, rfl, hi.strip_eq ho2, hi, ho1.balanced, ho2.noMarks⟩
  · rw [e1, e2]; exact rfl
  · rw [e1, e2]; exact True.intro

/-- additivity for `FluentBundle::format_pattern`: identical error lists, `strip on = off`, … -/
theorem isolation_additive_partial_format {env : Env} {p : Pattern Bytes} (F : NoIsolatedValueFlow env p)
    (P : Pieces env p) (fuel : Nat) :
    match formatPattern (withIso env true) fuel p, formatPattern (withIso env false) fuel p with
    | .ok (on, e₁), .ok (off, e₂) => strip on = off ∧ e₁ = e₂ ∧ Iso on off ∧ Balanced on ∧ NoMarks off
    | .panic m, .panic m' => m = m'
    | .fuel, .fuel => True
    | _, _ => False := by
  obtain ⟨Hoff, hpoff⟩ := (P.withIso false).envOK lang_markFree (siteOK_off _ rfl)
  obtain ⟨Hon, hpon⟩ := (P.withIso true).envOK lang_dyck (siteOK_dyck _)
  have hoff := resolvePattern_out Hoff hpoff fuel {} (scOK_empty _ _)
  have hon := resolvePattern_out Hon hpon fuel {} (scOK_empty _ _)
  unfold formatPattern
  rcases (resolvePattern_rel F fuel {}).cases with ⟨s, on, off, e1, e2, hi⟩ | ⟨m, e1, e2⟩ | ⟨e1, e2⟩
  · rw [e1] at hon ⊢; rw [e2] at hoff ⊢
    obtain ⟨⟨o1, h1, ho1⟩, _⟩ := hon
    obtain ⟨⟨o2, h2, ho2⟩, _⟩ := hoff
    have h1 := List.append_cancel_left h1
    have h2 := List.append_cancel_left h2
    subst h1; subst h2
    exact ⟨hi.strip_eq ho2, rfl, hi, ho1.balanced, ho2.noMarks⟩
  · rw [e1, e2]
  · rw [e1, e2]; exact True.intro

/-- additivity for `FluentBundle::write_pattern` -/
theorem isolation_additive_partial_write {env : Env} {p : Pattern Bytes} (F : NoIsolatedValueFlow env p)
    (P : Pieces env p) (fuel : Nat) :
    match writePatternTop (withIso env true) fuel p, writePatternTop (withIso env false) fuel p with
    | .ok (on, e₁), .ok (off, e₂) => strip on = off ∧ e₁ = e₂ ∧ Iso on off ∧ Balanced on ∧ NoMarks off
    | .panic m, .panic m' => m = m'
    | .fuel, .fuel => True
    | _, _ => False := by
  have h := isolation_additive_partial F P fuel [] {} (scOK_empty _ _)
  unfold writePatternTop
  rcases h1 : writePattern (withIso env true) fuel p [] {} with ⟨⟨a, s⟩⟩ | ⟨m⟩ | _ <;>
    rcases h2 : writePattern (withIso env false) fuel p [] {} with ⟨⟨b, t⟩⟩ | ⟨m'⟩ | _ <;>
    rw [h1, h2] at h <;> try exact h.elim
  · obtain ⟨rfl, on, off, rfl, rfl, hs, hi, hb, hn⟩ := h
    exact ⟨hs, rfl, hi, hb, hn⟩
  · exact h
  · exact True.intro

/-! ## the full statement and why it is not a theorem (finding F15) -/

/-- **C09 additivity at full strength** — without `NoIsolatedValueFlow`.  This is *false* for the model and
for the implementation (`full_statement_fails` below): known finding **F15**.  A selector (or a call
argument) that is a term-attribute / message / term reference or a nested placeable is resolved by
*writing* the referenced pattern into a string; with isolation on that string carries the marks, so the
selector compares differently (or a function sees a different argument). -/
def C09_full_statement : Prop :=
  ∀ (env : Env) (p : Pattern Bytes) (fuel : Nat) (on off : Bytes) (e₁ e₂ : List RErr), Pieces env p →
    formatPattern (withIso env true) fuel p = .ok (on, e₁) →
    formatPattern (withIso env false) fuel p = .ok (off, e₂) →
    strip on = off ∧ e₁ = e₂

deriving instance DecidableEq for FluentModel.Resolver.RR

namespace F15
/-! `-t = T` / ` .attr = { $v }{""}` and `m = { -t.attr(v: "foo") -> [foo] A *[other] B }` -/

def tId : Bytes := [116]            -- "t"
def attrId : Bytes := [97, 116, 116, 114]   -- "attr"
def vId : Bytes := [118]            -- "v"
def foo : Bytes := [102, 111, 111]
def other : Bytes := [111, 116, 104, 101, 114]

def termT : Term Bytes :=
  { id := tId, value := [.text [84]],
    attributes := [⟨attrId, [.placeable (.inline (.var vId)), .placeable (.inline (.str []))]⟩],
    comment := .none }

def env : Env :=
  { msg := fun _ => .none
    term := fun id => if id = tId then some termT else .none
    fn := fun _ => .none
    useIsolating := false
    transform := .none
    formatter := .none
    category := fun _ => some .other
    tryNumber := fun b => .str b
    unescape := fun b => b
    customStr := fun b => b
    args := .none }

def m : Pattern Bytes :=
  [.placeable (.select (.term tId (some attrId) (some ([], [(vId, .str foo)])))
    [.mk (.ident foo) [.text [65]] false, .mk (.ident other) [.text [66]] true])]

def outOf : RR (Bytes × List RErr) → Option (Bytes × Nat)
  | .ok (w, e) => some (w, e.length)
  | _ => .none

/-- TEST (`decide` on literals): without isolation the selector is `"foo"` and variant `A` is chosen … -/
example : outOf (formatPattern (withIso env false) 12 m) = some ([65], 0) := by decide +kernel
/-- TEST: … with isolation the selector is `FSI foo PDI` and the default `B` is chosen: F15. -/
example : outOf (formatPattern (withIso env true) 12 m) = some ([66], 0) := by decide +kernel
/-- TEST: the example violates exactly the extra hypothesis -/
example : nfElems m = false := by decide +kernel

theorem pieces : Pieces env m := by
  have hterm : ∀ id t, env.term id = some t → t = termT := by
    intro id t h
    simp only [env] at h
    split at h
    · cases h; rfl
    · cases h
  have mf : ∀ b, markFreeB b = true → MarkFree b := markFreeB_sound
  refine ⟨?_, ?_, ?_, ?_, ?_, ?_, ?_, ?_⟩
  · intro a ha
    have : a ∈ [Atom.ident tId, .ident attrId, .str foo, .text [65], .text [66]] := by
      simpa [m, patAtoms, elemsAtoms, elemAtoms, exprAtoms, inlineAtoms, optAtom, inlinesAtoms, namedAtoms,
        variantsAtoms, variantAtoms, isolatable] using ha
    simp only [List.mem_cons, List.not_mem_nil, or_false] at this
    rcases this with rfl | rfl | rfl | rfl | rfl
    · exact mf _ (by decide)
    · exact mf _ (by decide)
    · exact ⟨mf _ (by decide), mf _ (by decide)⟩
    · exact mf _ (by decide)
    · exact mf _ (by decide)
  · intro id m' q h; cases h
  · intro id m' a h; cases h
  · intro id t h a ha
    rw [hterm id t h] at ha
    have : a = Atom.text [84] := by
      simpa [termT, patAtoms, elemsAtoms, elemAtoms] using ha
    subst this
    exact mf _ (by decide)
  · intro id t at' h hat a ha
    rw [hterm id t h] at hat
    simp only [termT, List.mem_cons, List.not_mem_nil, or_false] at hat
    subst hat
    have : a ∈ [Atom.site, .ident vId, .str []] := by
      simpa [patAtoms, elemsAtoms, elemAtoms, exprAtoms, inlineAtoms, isolatable] using ha
    simp only [List.mem_cons, List.not_mem_nil, or_false] at this
    rcases this with rfl | rfl | rfl
    · trivial
    · exact mf _ (by decide)
    · exact ⟨mf _ (by decide), mf _ (by decide)⟩
  · intro a h; cases h
  · intro id f ps ns h; cases h
  · intro f v s h; cases h

end F15

/-- the full statement fails on the F15 bundle (all pieces are mark-free ASCII): the hypothesis
`NoIsolatedValueFlow` of `isolation_additive_partial` cannot be dropped. -/
theorem full_statement_fails : ¬ C09_full_statement := by
  intro h
  have h1 : formatPattern (withIso F15.env true) 12 F15.m = .ok ([66], []) := by decide +kernel
  have h2 : formatPattern (withIso F15.env false) 12 F15.m = .ok ([65], []) := by decide +kernel
  have := (h F15.env F15.m 12 [66] [65] [] [] F15.pieces h1 h2).1
  exact absurd this (by decide)

/-! ## non-vacuity (TESTS: `decide` on literals) -/

namespace Demo
/-! `hello = Hello, { $name }! { -brand }` with `-brand = { $x }Fluent`, `$name = "Ann"` -/

def nameId : Bytes := [110]
def brandId : Bytes := [98]
def xId : Bytes := [120]

def brand : Term Bytes :=
  { id := brandId, value := [.placeable (.inline (.var xId)), .text [70]], attributes := [], comment := .none }

def env : Env :=
  { msg := fun _ => .none
    term := fun id => if id = brandId then some brand else .none
    fn := fun _ => .none
    useIsolating := true
    transform := .none
    formatter := .none
    category := fun _ => some .other
    tryNumber := fun b => .str b
    unescape := fun b => b
    customStr := fun b => b
    args := some [(nameId, .str [65, 110, 110])] }

def hello : Pattern Bytes :=
  [.text [72, 105, 32], .placeable (.inline (.var nameId)), .text [33, 32],
   .placeable (.inline (.term brandId .none .none))]

def outOf : RR (Bytes × List RErr) → Option (Bytes × Nat)
  | .ok (w, e) => some (w, e.length)
  | _ => .none

/-- the hypotheses of the theorems are jointly satisfiable on a bundle that does write marks -/
theorem pieces : Pieces env hello := by
  have hterm : ∀ id t, env.term id = some t → t = brand := by
    intro id t h
    simp only [env] at h
    split at h
    · cases h; rfl
    · cases h
  have mf : ∀ b, markFreeB b = true → MarkFree b := markFreeB_sound
  refine ⟨?_, ?_, ?_, ?_, ?_, ?_, ?_, ?_⟩
  · intro a ha
    have : a ∈ [Atom.text [72, 105, 32], .site, .ident nameId, .text [33, 32], .ident brandId] := by
      simpa [hello, patAtoms, elemsAtoms, elemAtoms, exprAtoms, inlineAtoms, optAtom, isolatable] using ha
    simp only [List.mem_cons, List.not_mem_nil, or_false] at this
    rcases this with rfl | rfl | rfl | rfl | rfl
    · exact mf _ (by decide)
    · trivial
    · exact mf _ (by decide)
    · exact mf _ (by decide)
    · exact mf _ (by decide)
  · intro id m' q h; cases h
  · intro id m' a h; cases h
  · intro id t h a ha
    rw [hterm id t h] at ha
    have : a ∈ [Atom.site, .ident xId, .text [70]] := by
      simpa [brand, patAtoms, elemsAtoms, elemAtoms, exprAtoms, inlineAtoms, isolatable] using ha
    simp only [List.mem_cons, List.not_mem_nil, or_false] at this
    rcases this with rfl | rfl | rfl
    · trivial
    · exact mf _ (by decide)
    · exact mf _ (by decide)
  · intro id t at' h hat
    rw [hterm id t h] at hat
    simp [brand] at hat
  · intro a h kv hkv
    simp only [env] at h
    cases h
    simp only [List.mem_cons, List.not_mem_nil, or_false] at hkv
    subst hkv
    exact mf _ (by decide)
  · intro id f ps ns h; cases h
  · intro f v s h; cases h

theorem noFlow : NoIsolatedValueFlow env hello := by
  refine ⟨by decide +kernel, ?_, ?_, ?_, ?_⟩
  · intro id m' q h; cases h
  · intro id m' a h; cases h
  · intro id t h
    simp only [env] at h
    split at h
    · cases h; decide +kernel
    · cases h
  · intro id t at' h hat
    simp only [env] at h
    split at h
    · cases h; simp [brand] at hat
    · cases h

/-- TEST: the additive theorem applied to this bundle -/
example := isolation_additive_partial_format noFlow pieces 12

/-- TEST: isolation on writes `Hi FSI Ann PDI ! FSI {$x} PDI F` (the term reference itself is not isolated, the
placeable inside the two-element term value is, including its `{$x}` error fallback) -/
example : outOf (formatPattern (withIso env true) 12 hello) =
    some ([72, 105, 32] ++ fsi ++ [65, 110, 110] ++ pdi ++ [33, 32] ++ fsi ++ [123, 36, 120, 125] ++ pdi ++ [70], 0) := by
  decide +kernel
/-- TEST: isolation off -/
example : outOf (formatPattern (withIso env false) 12 hello) =
    some ([72, 105, 32, 65, 110, 110, 33, 32, 123, 36, 120, 125, 70], 0) := by decide +kernel
/-- TEST: the hypothesis of the additive theorem holds here -/
example : nfElems hello = true ∧ nfElems brand.value = true := by decide +kernel
/-- TEST: the isolating output is balanced and strips to the plain output -/
example : Balanced ([72, 105, 32] ++ fsi ++ [65, 110, 110] ++ pdi ++ [33, 32] ++ fsi ++ [123, 36, 120, 125] ++ pdi ++ [70]) ∧
    strip ([72, 105, 32] ++ fsi ++ [65, 110, 110] ++ pdi ++ [33, 32] ++ fsi ++ [123, 36, 120, 125] ++ pdi ++ [70]) =
      [72, 105, 32, 65, 110, 110, 33, 32, 123, 36, 120, 125, 70] := by decide +kernel
/-- TEST: a single-element pattern `{ $name }` gets no marks although isolation is on -/
example : outOf (formatPattern (withIso env true) 12 [.placeable (.inline (.var nameId))]) = some ([65, 110, 110], 0) := by
  decide +kernel
/-- TEST: the placeable-limit path stays balanced: 101 placeables `{ $name }` in one pattern; the 101st trips the
limit *before* its FSI is written -/
example : (match formatPattern (withIso env true) 300 (List.replicate 101 (.placeable (.inline (.var nameId)))) with
    | .ok (w, e) => decide (Balanced w) && decide (strip w = (List.replicate 100 [65, 110, 110]).flatten) && e.length == 1
    | _ => false) = true := by decide +kernel
/-- TEST: why the piece hypothesis speaks about partial marks: two pieces without any mark whose junction is one -/
example : strip [0x41, 0xE2, 0x81] = [0x41, 0xE2, 0x81] ∧ strip [0xA8, 0x42] = [0xA8, 0x42] ∧ strip ([0x41, 0xE2, 0x81] ++ [0xA8, 0x42]) = [0x41, 0x42] ∧
    markFreeB [0x41, 0xE2, 0x81] = false := by decide +kernel

end Demo

end FluentProofs.C09
