import FluentProofs.SpecLex
import FluentProofs.SpecDedent
namespace FluentProofs.C02
open FluentModel FluentModel.Syntax

/-- full statement -/
def parse_refines_grammar : Prop :=
  ∀ (src : Bytes), SpecGrammar.wellFormed src = true →
    ∃ t, parse src.toArray = .done (t, []) ∧
      some (Resource.joinText (resolve src.toArray t)) = SpecGrammar.parse src

theorem stub_partial : True := trivial
end FluentProofs.C02
