import FluentProofs.ConstTieSyntax
import FluentProofs.SpecLex
import FluentProofs.SpecDedent
import FluentProofs.SpecFuel
import FluentProofs.SpecPatLoop
import FluentProofs.SpecResource
/-!
# C02 — well-formed FTL parses to exactly the tree the Fluent grammar assigns

Two executable objects are related here:

* `FluentModel.Syntax.parse` (`FluentModel/Parser.lean`) — the function-for-function model of the Rust
  parser, tied to `/repo` by the `parse` and `spec` correspondence checks;
* `FluentModel.SpecGrammar.parse` (`FluentModel/SpecGrammar.lean`) — an independent executable
  specification transcribed from the Fluent 1.0 EBNF (as a PEG) and the abstract-syntax rules, validated
  at every run against the repo's 68 reference trees.  `wellFormed src` = that tree has no Junk.

The property is the THEOREM `parse_refines_grammar` at the end of this file (whole resource, every `String`):
if the grammar calls the source well-formed and the source satisfies the side condition `Surv` (which excludes
exactly the shape of the known, deliberate deviation F30 — `T3_side_condition`; it holds for every source
without a lone carriage return, `parse_refines_grammar_noLoneCR`), the parser model returns no error and its tree,
text-joined, IS the grammar's tree.  It is proved in layers, each a theorem below:

* **T1, lexical layer** — every scanner of the parser model against the grammar's lexical rule:
  `blank_inline`, `line_end`, `blank`, `blank_block`, `Identifier`, `NumberLiteral`, `StringLiteral`
  (exact escape set), the `VariantKey` choice, `inline_text`, `comment_char*`, the comment marker;
* **spec totality** — `SpecGrammar.parse` never runs out of fuel (`spec_total`);
* **T2, dedentation core** — `finishElements`' offset arithmetic `start + min indent common` is the
  grammar's `dedent`; `Slice::trim` is "the last element loses trailing white space"; `commonIndent` is
  the attained minimum; the grammar's patterns are in `joinText`-normal form;
* **T2 expression layer / T3 pattern layer** — inline expressions, call arguments, select/variants with their
  validity rules; `get_pattern`'s loop and `finishElements` against `PatternElement+` and the abstract pass;
* **T3 entries** — attributes, Message, Term, the comment-line loop, and the resource loop with comment
  joining, comment attachment (blank-line count) and blank blocks;
* **T4** — the whole resource, the statement without side condition refuted by F30's witness, and the
  layout-independence corollary.

The direction is "the grammar accepts ⇒ the parser returns the grammar's tree" (what the property needs: on
well-formed input no error branch of the parser is taken).  Spec-vs-parser differences on ill-formed input are
outside the property; the differential test of `tools/fv/props/c02.py` counts them as leniencies.

The source is the UTF-8 encoding of a `String` (`bytesOf str`), which is what a Rust `&str` is; the one
UTF-8 fact used is `asciiThenBoundary_of_string`.  `rest s p` = the bytes of `s` from `p` on.
-/
namespace FluentProofs.C02
open FluentModel FluentModel.Syntax FluentModel.SpecGrammar
open FluentProofs.Parser FluentProofs.SpecLex FluentProofs.SpecDedent
open FluentProofs.SpecRefine FluentProofs.PatLoop FluentProofs.SpecEntries FluentProofs.SpecResource

/-- the UTF-8 bytes of a string, as the parser model's source -/
def bytesOf (str : String) : Src := str.toUTF8.data

/-- **The statement of C02 WITHOUT a side condition** (kept visible): for every source that the grammar calls
well-formed, the parser returns without panic or fuel exhaustion, reports no error (hence no Junk), and its tree
with adjacent text elements joined is the tree the grammar assigns.  This is the property as it should hold; on
the pinned tree it is FALSE — `parse_refines_grammar_unconditional_false` below refutes it with the witness of
the known finding F30 (a deliberate deviation: a last pattern line that consists of spaces and a lone carriage
return is kept by the reference and dropped by the parser).  What is proved is `parse_refines_grammar`: the same
conclusion for every well-formed source satisfying `Surv`. -/
def parse_refines_grammar_unconditional : Prop :=
  ∀ (str : String), wellFormed (bytesOf str).toList = true →
    ∃ t, parse (bytesOf str) = .done (t, []) ∧
      SpecGrammar.parse (bytesOf str).toList = some (Resource.joinText (resolve (bytesOf str) t))

/-! ## the specification is total -/

/-- the executable grammar assigns a tree to EVERY input: the fuel `SpecGrammar.parse` passes to its
recursive productions always suffices (`wellFormed` is never decided by fuel exhaustion) -/
theorem spec_total (i : List UInt8) : (SpecGrammar.parse i).isSome = true :=
  FluentProofs.SpecFuel.parse_isSome i

/-! ## T1 — lexical layer -/

/-- `blank_inline?` (`" "*`) is `skip_blank_inline` -/
theorem T1_blank_inline (str : String) (p : Nat) :
    spaces (rest (bytesOf str) p) = rest (bytesOf str) (skipBlankInline (bytesOf str) p) :=
  spaces_eq_skipBlankInline _ p

/-- `line_end ::= "\r\n" | "\n" | EOF` is `skip_eol`, except that the grammar also accepts `EOF` -/
theorem T1_line_end (str : String) (p : Nat) :
    lineEnd (rest (bytesOf str) p) =
      (match skipEol (bytesOf str) p with
       | some q => some (rest (bytesOf str) q)
       | none => if (bytesOf str).size ≤ p then some [] else none) :=
  lineEnd_eq_skipEol _ p

/-- `blank?` (`(blank_inline | line_end)*`) is `skip_blank` -/
theorem T1_blank (str : String) (p : Nat) :
    blankOpt (rest (bytesOf str) p) = rest (bytesOf str) (skipBlank (bytesOf str) p) :=
  blankOpt_eq_skipBlank _ p

/-- `blank_block ::= (blank_inline? line_end)+` is `skip_blank_block`: same number of line breaks, same end
position (spaces that run to `EOF` included); the rule fails exactly when nothing was skipped and the
input has not ended. -/
theorem T1_blank_block (str : String) (p : Nat) (hp : p ≤ (bytesOf str).size) :
    blankBlock (rest (bytesOf str) p) =
      (let qc := skipBlankBlock (bytesOf str) p
       if qc.2 = 0 ∧ qc.1 < (bytesOf str).size then none else some (qc.2, rest (bytesOf str) qc.1)) :=
  blankBlock_eq_skipBlankBlock _ p hp

/-- `get_identifier` succeeds exactly when `Identifier ::= [a-zA-Z][a-zA-Z0-9_-]*` matches, on exactly
the bytes `s[p..q)`, with the same rest; otherwise it reports an error and the rule fails; no panic. -/
theorem T1_identifier (str : String) (p : Nat) :
    match getIdentifier (bytesOf str) p with
    | .ok sp q => sp = ⟨p, q⟩ ∧ p < q ∧
        identifier (rest (bytesOf str) p) = some (spanBytes (bytesOf str) sp, rest (bytesOf str) q)
    | .err _ _ => identifier (rest (bytesOf str) p) = none
    | .panic _ => False
    | .fuel => False :=
  identifier_eq_getIdentifier (asciiThenBoundary_of_string str) p

/-- `get_number_literal` versus `NumberLiteral ::= "-"? digits ("." digits)?` (T1 + T2 acceptance):
success = the rule matches exactly `s[p..q)`.  On `digits "."` without a following digit the scanner
reports an error where the PEG rule matches the digits and stops before the dot. -/
theorem T1_number_literal (str : String) (p : Nat) (hp : isBoundary (bytesOf str) p = true) :
    match getNumberLiteral (bytesOf str) p with
    | .ok sp q => sp = ⟨p, q⟩ ∧ p < q ∧
        numberLiteral (rest (bytesOf str) p) = some (spanBytes (bytesOf str) sp, rest (bytesOf str) q)
    | .err _ _ => numberLiteral (rest (bytesOf str) p) = none ∨
        ∃ q, p < q ∧ (bytesOf str)[q]? = some 46 ∧
          numberLiteral (rest (bytesOf str) p) = some (seg (bytesOf str) p q, rest (bytesOf str) q)
    | .panic _ => False
    | .fuel => False :=
  numberLiteral_eq_getNumberLiteral (asciiThenBoundary_of_string str) p hp

/-- the string-literal scanner (from after the opening quote; the caller then expects `"`) accepts
exactly `StringLiteral ::= "\"" quoted_char* "\""` — escapes `\\`, `\"`, `\uXXXX`, `\UXXXXXX` only, no raw
line end — and yields the same raw value `s[p+1..q)` (T1 + T2 acceptance). -/
theorem T1_string_literal (str : String) (p : Nat) (h : (bytesOf str)[p]? = some 34) :
    match scanString (bytesOf str) (p + 1) with
    | .ok _ q =>
      ((bytesOf str)[q]? = some 34 ∧
        stringLiteral (rest (bytesOf str) p) = some (seg (bytesOf str) (p + 1) q, rest (bytesOf str) (q + 1))) ∨
      ((bytesOf str)[q]? = none ∧ stringLiteral (rest (bytesOf str) p) = none)
    | .err _ _ => stringLiteral (rest (bytesOf str) p) = none
    | .panic _ => False
    | .fuel => False :=
  stringLiteral_eq_scanString (asciiThenBoundary_of_string str) p h

/-- `VariantKey`: the one-byte test `is_number_start` of `get_variant_key` decides the grammar's ordered
choice `NumberLiteral | Identifier` (with `T1_number_literal`, `T1_identifier`, `T1_blank`) -/
theorem T1_variant_key_choice (str : String) (p : Nat) :
    (isNumberStart (bytesOf str) p = true → identifier (rest (bytesOf str) p) = none) ∧
    (isNumberStart (bytesOf str) p = false → numberLiteral (rest (bytesOf str) p) = none) :=
  variantKey_choice _ p

/-- `get_text_slice` versus `inline_text ::= text_char+`: the slice starts at the cursor and covers exactly
the grammar's run of text chars (`text_char ::= any_char - "{" - "}" - line_end`; a lone `\r` is a text
char), plus the `\n` itself when the termination is a line feed; the terminations are exactly what can
follow a run (`\n`, `\r\n`, `{`, end of input) and `}` is the error. -/
theorem T1_inline_text (str : String) (p : Nat) (hp : p ≤ (bytesOf str).size) :
    match getTextSlice (bytesOf str) p with
    | .ok (start, stop, _, term) q => start = p ∧
        textRun (rest (bytesOf str) p) =
          (seg (bytesOf str) p (textStop term stop), rest (bytesOf str) (textStop term stop)) ∧
        (match term with
         | .lineFeed => (bytesOf str)[stop - 1]? = some 10 ∧ q = stop ∧ p < stop
         | .crlf => (bytesOf str)[stop]? = some 13 ∧ (bytesOf str)[stop + 1]? = some 10 ∧ q = stop + 1
         | .placeableStart => (bytesOf str)[stop]? = some 123 ∧ q = stop
         | .eof => stop = (bytesOf str).size ∧ q = (bytesOf str).size)
    | .err _ q => (bytesOf str)[q]? = some 125 ∧
        textRun (rest (bytesOf str) p) = (seg (bytesOf str) p q, rest (bytesOf str) q)
    | .panic _ => False
    | .fuel => False :=
  textRun_eq_getTextSlice _ p hp

/-- `get_comment_line` reads exactly `comment_char*` (up to, not including, the line end) -/
theorem T1_comment_line (str : String) (p : Nat) (hp : isBoundary (bytesOf str) p = true) :
    ∃ e, getCommentLine (bytesOf str) p = .ok ⟨p, e⟩ e ∧
      commentChars (rest (bytesOf str) p) = (spanBytes (bytesOf str) ⟨p, e⟩, rest (bytesOf str) e) :=
  commentChars_eq_getCommentLine p hp

/-- `get_comment_level` is the ordered choice `"###" | "##" | "#"` -/
theorem T1_comment_level (str : String) (p : Nat) :
    commentMarker (rest (bytesOf str) p) =
      (if (getCommentLevel (bytesOf str) p).1 = 0 then none
       else some ((getCommentLevel (bytesOf str) p).1, rest (bytesOf str) (getCommentLevel (bytesOf str) p).2)) :=
  commentMarker_eq_getCommentLevel _ p

/-! ## T2 — validity rule on callees -/

/-- on an identifier, Rust's `is_callee` (every byte in `[A-Z0-9_-]`) is the grammar's callee rule
`[A-Z][A-Z0-9_-]*` -/
theorem T2_callee (s : Src) (sp : Span) (b : UInt8) (r : List UInt8)
    (h : spanBytes s sp = b :: r) (hb : isAlpha b = true) :
    calleeOk (spanBytes s sp) = isCallee s sp :=
  calleeOk_eq_isCallee s sp b r h hb

/-! ## T2 — dedentation core -/

/-- for a line whose first `indent` bytes are spaces, the slice `start + min indent common .. stop` taken
by `finishElements` is what the grammar produces for the line: the indent minus `common` spaces, then the
line's text -/
theorem T2_dedent_offset (s : Src) (start stop indent common : Nat)
    (hsp : ∀ j, start ≤ j → j < start + indent → s[j]? = some 32) (h : start + indent ≤ stop) :
    spanBytes s ⟨start + min indent common, stop⟩ =
      dedentText common indent ++ spanBytes s ⟨start + indent, stop⟩ :=
  dedent_offset s start stop indent common hsp h

/-- `Slice::trim` (drops trailing `' ' | '\r' | '\n'`) is the grammar's "the last element loses trailing
white space", byte for byte -/
theorem T2_trim (s : Src) (sp : Span) (h : sp.stop ≤ s.size) :
    spanBytes s (trimEnd s sp) = dropTrailingWs (spanBytes s sp) :=
  trimEnd_eq_dropTrailingWs s sp h

/-- the grammar's common indent is the attained minimum over all `block_text`/`block_placeable` indents -/
theorem T2_common_indent_min (els : List RawEl) (c : Nat) (h : commonIndent els = some c) :
    c ∈ indentsOf els ∧ ∀ k ∈ indentsOf els, c ≤ k :=
  commonIndent_is_min els c h

/-- every pattern of the grammar's tree is in joined normal form and has no empty text element -/
theorem T2_pattern_normal_form (els : List RawEl) :
    NoAdjText (finishPattern els) ∧ ∀ e ∈ finishPattern els, nonEmptyEl e = true :=
  ⟨finishPattern_noAdj els, finishPattern_nonEmpty els⟩

/-! ## T2/T3 — expression layer and pattern layer (refinement: the grammar accepts ⇒ the parser returns its tree) -/

/-- **Expression layer.** For every spec fuel `m`, under the side condition `Surv` (see `T3_side_condition`):
wherever the grammar's `InlineExpression`, `CallArguments`/`argument_list` (with the rules "no positional
argument after a named one", "no duplicate name", callee shape), `inline_placeable` (term attribute not as
placeable), `SelectExpression` (selector kinds) or `variant_list` (exactly one default, variant keys) accepts,
the parser model's `getInline` / `getCallArguments` / `getCallArgsLoop` / `getPlaceable` + `getExpression` /
`getVariants` return the same tree — spans resolved, adjacent text joined — and stop at the corresponding
position (`ExprRef` spells out the eight statements). -/
theorem T2_expression_layer (str : String) (hSurv : Surv (bytesOf str)) (m : Nat) : ExprRef (bytesOf str) m :=
  exprRef_all (asciiThenBoundary_of_string str) hSurv m

/-- **Pattern layer.** `Pattern ::= PatternElement+` followed by the abstract-syntax pass (dedent over all
indented lines, blank lines as `\n`, join, trim) against `get_pattern` (the loop with line roles, blank lines,
placeable-led lines, CRLF, `keptCommonIndent`, and `finishElements`): where the grammar accepts a pattern that is
followed by what can follow a pattern (`PatFollow`), `getPattern` returns the same pattern after joining text and
stops at the start of the first line that is not part of the pattern. -/
theorem T3_pattern_layer (str : String) (hSurv : Surv (bytesOf str)) (m : Nat) : PatternRef (bytesOf str) m :=
  patternRef_all (asciiThenBoundary_of_string str) hSurv m

/-- **The side condition is exact about F30.**  `Surv` ("every non-blank text slice keeps a byte under the final
trim") holds for every source in which each `\r` belongs to a `\r\n`; the witness of the known finding F30
violates it (its last line is a lone carriage return). -/
theorem T3_side_condition :
    (∀ str : String, NoLoneCR (bytesOf str) → Surv (bytesOf str)) ∧
    ¬ Surv (strBytes "a =\n  x\n \r").toArray :=
  ⟨fun str h => surv_of_noLoneCR (asciiThenBoundary_of_string str) h, f30_witness_not_surv⟩

/-! ## T3 — entries and the resource loop -/

/-- **Attributes.** `Attribute*` against `get_attributes` (line end, blank, `.`, identifier, `=`, pattern; the
cursor goes back to the line start when the next line is not an attribute) -/
theorem T3_attributes (str : String) (hSurv : Surv (bytesOf str)) (sf n : Nat) : AttrsRef (bytesOf str) sf n :=
  attrsRef (asciiThenBoundary_of_string str) hSurv sf n

/-- **Message.** Where the grammar's `Message` matches and is followed by what follows an entry of a junk-free
source (`EntryFollow`: a line end, and the next non-blank byte is in column 0 and not `.`/`{`), `get_message`
returns the same message (value or attributes-only, attributes in order, no comment yet) and stops at the start of
the next non-blank line. -/
theorem T3_message (str : String) (hSurv : Surv (bytesOf str)) {sf pf es p : Nat} {msg : Message Bytes}
    {r4 : List UInt8} (h : messageP sf (rest (bytesOf str) p) = .ok msg r4) (hfol : EntryFollow r4)
    (hp : p ≤ (bytesOf str).size) (hpf : 4 * ((bytesOf str).size - p) + 2 ≤ pf) :
    ∃ m' q, getMessage (bytesOf str) pf es p = .ok m' q ∧ jMsg (bytesOf str) m' = msg ∧
      rest (bytesOf str) q = afterBlank r4 ∧ q ≤ (bytesOf str).size ∧ Bnd (bytesOf str) q ∧ p < q :=
  message_ref (asciiThenBoundary_of_string str) hSurv h hfol hp hpf

/-- **Term.** The same for `Term` and `get_term`. -/
theorem T3_term (str : String) (hSurv : Surv (bytesOf str)) {sf pf es p : Nat} {trm : Term Bytes}
    {r4 : List UInt8} (h : termP sf (rest (bytesOf str) p) = .ok trm r4) (hfol : EntryFollow r4)
    (hp : p ≤ (bytesOf str).size) (hpf : 4 * ((bytesOf str).size - p) + 2 ≤ pf) :
    ∃ t' q, getTerm (bytesOf str) pf es p = .ok t' q ∧ jTerm (bytesOf str) t' = trm ∧
      rest (bytesOf str) q = afterBlank r4 ∧ q ≤ (bytesOf str).size ∧ Bnd (bytesOf str) q ∧ p < q :=
  term_ref (asciiThenBoundary_of_string str) hSurv h hfol hp hpf

/-- what follows a Message or Term in a junk-free source satisfies `EntryFollow` (so `T3_message`/`T3_term` apply
to every entry of a well-formed source) -/
theorem T3_entry_follow {sf m : Nat} {r4 r5 : List UInt8} {raw : List (Option (Entry Bytes))}
    (hl : lineEnd r4 = some r5) (h : resourceRaw sf m r5 = some raw) (hj : hasJunk raw = false) : EntryFollow r4 :=
  follow_of_raw hl h hj

/-- **Comments: levels and joining.**  From a line start `p` of a junk-free source (the grammar's raw item list from
there is `raw`), `get_comment`'s loop (`lv = 0`: first round, the level is that of the first line; `lv = L`: later
rounds) consumes exactly the maximal run of `CommentLine`s of level `L` — `raw` is that run followed by `raw1`, which
does not begin with a comment of level `L` — and collects their contents in order.  The cursor it returns is either the
start `p1` of the next line (end of input, or a `#` line of another level) or the line feed in front of `p1` (the next
line does not begin with `#`), which `skip_blank_block` then counts as one blank line. -/
theorem T3_comment_run (str : String) (sf : Nat) {L : Nat} (hL : L = 1 ∨ L = 2 ∨ L = 3)
    (g m p lv : Nat) (content : List Span) (raw : List (Option (Entry Bytes))) (hp : p ≤ (bytesOf str).size)
    (hg : (bytesOf str).size - p + 1 ≤ g) (hraw : resourceRaw sf m (rest (bytesOf str) p) = some raw)
    (hj : hasJunk raw = false)
    (hlv : (lv = L ∧ (p < (bytesOf str).size → 0 < p ∧ (bytesOf str)[p - 1]? = some 10)) ∨ (lv = 0 ∧ headLevel raw = L)) :
    ∃ spans raw1 q p1 m1,
      raw = runItems (bytesOf str) L spans ++ raw1 ∧
      getCommentGo (bytesOf str) g lv content p = .ok (content ++ spans, L) q ∧
      resourceRaw sf m1 (rest (bytesOf str) p1) = some raw1 ∧ m1 ≤ m ∧ hasJunk raw1 = false ∧ headLevel raw1 ≠ L ∧
      p ≤ p1 ∧ p1 ≤ (bytesOf str).size ∧ (lv = 0 → p < p1) ∧
      ((q = p1 ∧ ((bytesOf str).size ≤ p1 ∨ (bytesOf str)[p1]? = some 35)) ∨
       (q + 1 = p1 ∧ (bytesOf str)[q]? = some 10 ∧ p1 < (bytesOf str).size ∧ (bytesOf str)[p1]? ≠ some 35)) :=
  comment_run (asciiThenBoundary_of_string str) sf hL g m p lv content raw hp hg hraw hj hlv

/-- **Comment attachment: the blank-line count.**  After `get_comment` returned at `q` (see `T3_comment_run`),
`skip_blank_block` stops at the start of the next non-blank line, the grammar's items from `p1` on are the same
less at most one `blank_block`, and the count `skip_blank_block` reports is `< 2` exactly when no `blank_block`
stands between (or nothing follows at all) — the parser's test `last_blank_count < 2` for attaching the comment. -/
theorem T3_blank_after_comment (str : String) {sf m1 q p1 : Nat} {raw1 : List (Option (Entry Bytes))}
    (hraw : resourceRaw sf m1 (rest (bytesOf str) p1) = some raw1) (hj : hasJunk raw1 = false)
    (hp1 : p1 ≤ (bytesOf str).size)
    (hq : (q = p1 ∧ ((bytesOf str).size ≤ p1 ∨ (bytesOf str)[p1]? = some 35)) ∨
          (q + 1 = p1 ∧ (bytesOf str)[q]? = some 10 ∧ p1 < (bytesOf str).size ∧ (bytesOf str)[p1]? ≠ some 35)) :
    ∃ raw2 m2, resourceRaw sf m2 (rest (bytesOf str) (skipBlankBlock (bytesOf str) q).1) = some raw2 ∧
      hasJunk raw2 = false ∧ Canon (rest (bytesOf str) (skipBlankBlock (bytesOf str) q).1) ∧
      q ≤ (skipBlankBlock (bytesOf str) q).1 ∧ (skipBlankBlock (bytesOf str) q).1 ≤ (bytesOf str).size ∧
      ((raw1 = raw2 ∧ (skipBlankBlock (bytesOf str) q).2 < 2) ∨
       (raw1 = none :: raw2 ∧ (2 ≤ (skipBlankBlock (bytesOf str) q).2 ∨ raw2 = []))) :=
  blank_after_comment hraw hj hp1 hq

/-- **The resource loop.**  From the start `p` of a non-blank line of a junk-free source, `Parser::parse`'s loop
(no pending comment; any blank count) finishes with NO error and appends exactly the entries the grammar's abstract
pass assigns to the rest of the source (`assemble raw`: comment lines joined by level, a `#` comment attached to the
Message/Term that follows it without a blank block, blank blocks dropped) — spans resolved, text joined. -/
theorem T3_resource_loop (str : String) (hSurv : Surv (bytesOf str)) {sf pf : Nat} (hpf : 4 * (bytesOf str).size + 2 ≤ pf)
    (N m p : Nat) (raw : List (Option (Entry Bytes))) (body : List (Entry Span)) (cnt : Nat)
    (hraw : resourceRaw sf m (rest (bytesOf str) p) = some raw) (hj : hasJunk raw = false)
    (hcan : Canon (rest (bytesOf str) p)) (hp : p ≤ (bytesOf str).size) (hN : (bytesOf str).size - p + 1 ≤ N) :
    ∃ out, parseLoop (bytesOf str) pf N body [] none cnt p = .done (body ++ out, []) ∧
      out.map (jEntry (bytesOf str)) = assemble raw :=
  resource_loop (asciiThenBoundary_of_string str) hSurv hpf N m p raw body cnt hraw hj hcan hp hN

/-! ## T4 — the whole resource -/

/-- **C02.**  For every source (a `String`) that the grammar calls well-formed — `SpecGrammar.parse` assigns it a
tree without Junk — and that satisfies the side condition `Surv` (`T3_side_condition`: it excludes exactly the shape
of the known finding F30 and holds whenever every `\r` belongs to a `\r\n`), the parser model terminates without
panic or fuel exhaustion, reports NO error, and its tree — spans resolved to bytes, adjacent text elements joined —
is exactly the tree the grammar assigns. -/
theorem parse_refines_grammar (str : String) (hwf : wellFormed (bytesOf str).toList = true)
    (hSurv : Surv (bytesOf str)) :
    ∃ t, parse (bytesOf str) = .done (t, []) ∧
      SpecGrammar.parse (bytesOf str).toList = some (Resource.joinText (resolve (bytesOf str) t)) :=
  parse_refines (asciiThenBoundary_of_string str) hSurv hwf

/-- C02 for sources without a lone carriage return (a side condition that can be read off the source) -/
theorem parse_refines_grammar_noLoneCR (str : String) (hwf : wellFormed (bytesOf str).toList = true)
    (hcr : NoLoneCR (bytesOf str)) :
    ∃ t, parse (bytesOf str) = .done (t, []) ∧
      SpecGrammar.parse (bytesOf str).toList = some (Resource.joinText (resolve (bytesOf str) t)) :=
  parse_refines_grammar str hwf (surv_of_noLoneCR (asciiThenBoundary_of_string str) hcr)

/-- **Layout independence** (the property's second sentence).  Two well-formed sources to which the grammar assigns
the same tree — any two layouts of one AST: spacing, blank lines, indentation depth, LF/CRLF, final newline, as far as
`SpecGrammar.parse` does not see them — get the same tree from the parser (and no error). -/
theorem layout_independence (a b : String)
    (ha : wellFormed (bytesOf a).toList = true) (hb : wellFormed (bytesOf b).toList = true)
    (sa : Surv (bytesOf a)) (sb : Surv (bytesOf b))
    (hg : SpecGrammar.parse (bytesOf a).toList = SpecGrammar.parse (bytesOf b).toList) :
    ∃ ta tb, parse (bytesOf a) = .done (ta, []) ∧ parse (bytesOf b) = .done (tb, []) ∧
      Resource.joinText (resolve (bytesOf a) ta) = Resource.joinText (resolve (bytesOf b) tb) := by
  obtain ⟨ta, a1, a2⟩ := parse_refines_grammar a ha sa
  obtain ⟨tb, b1, b2⟩ := parse_refines_grammar b hb sb
  refine ⟨ta, tb, a1, b1, ?_⟩
  rw [a2, b2] at hg
  exact Option.some.inj hg

/-- the check "no error and the grammar's tree" as a Boolean -/
def agrees (s : Src) : Bool :=
  match parse s, SpecGrammar.parse s.toList with
  | .done (t, errs), some g => errs.isEmpty && Resource.sexp (Resource.joinText (resolve s t)) == Resource.sexp g
  | _, _ => false

theorem agrees_of_refines {s : Src}
    (h : ∃ t, parse s = .done (t, []) ∧ SpecGrammar.parse s.toList = some (Resource.joinText (resolve s t))) :
    agrees s = true := by
  obtain ⟨t, h1, h2⟩ := h
  simp [agrees, h1, h2]

/-- **The side condition cannot be dropped on the pinned tree**: the witness of the known finding F30 is well-formed,
and the parser's tree for it is not the grammar's. -/
theorem parse_refines_grammar_unconditional_false : ¬ parse_refines_grammar_unconditional := by
  intro h
  have e : bytesOf "a =\n  x\n \r" = (strBytes "a =\n  x\n \r").toArray := by simp [bytesOf, strBytes]
  have hw : wellFormed (bytesOf "a =\n  x\n \r").toList = true := by rw [e]; decide +kernel
  have := agrees_of_refines (h _ hw)
  rw [e] at this
  revert this
  decide +kernel

/-! ## non-vacuity / sanity (tests on literals) -/

/-- test: a well-formed source with an attached comment, a multi-line value with a placeable-led line,
a select expression and a term: the grammar calls it well-formed and `parse_refines_grammar`'s
conclusion holds for it (`agrees`) -/
example :
    let src := strBytes "# c\nkey =\n      two\n    { $n ->\n        [one] x\n       *[other] { FOO(1, k: \"v\") }\n    }\n-t = v\n    .a = w\n"
    (wellFormed src &&
      (match parse src.toArray, SpecGrammar.parse src with
       | .done (t, errs), some g => errs.isEmpty && Resource.sexp (Resource.joinText (resolve src.toArray t)) == Resource.sexp g
       | _, _ => false)) = true := by decide +kernel

/-- test: the grammar rejects what the abstract syntax forbids (entries become Junk) -/
example :
    ((["a = { -t.attr }\n", "a = { m -> \n *[x] y\n}\n", "a = { FOO(x: 1, 2) }\n", "a = { FOO(x: 1, x: 2) }\n",
       "a = { foo() }\n", "a = { $x ->\n [a] b\n}\n", "a = { \"\\q\" }\n"].map
        fun s => wellFormed (strBytes s)) = [false, false, false, false, false, false, false]) := by decide +kernel

end FluentProofs.C02
