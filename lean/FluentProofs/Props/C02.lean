import FluentProofs.ConstTieSyntax
import FluentProofs.SpecLex
import FluentProofs.SpecDedent
import FluentProofs.SpecFuel
import FluentProofs.SpecPatLoop
/-!
# C02 — well-formed FTL parses to exactly the tree the Fluent grammar assigns

Two executable objects are related here:

* `FluentModel.Syntax.parse` (`FluentModel/Parser.lean`) — the function-for-function model of the Rust
  parser, tied to `/repo` by the `parse` and `spec` correspondence checks;
* `FluentModel.SpecGrammar.parse` (`FluentModel/SpecGrammar.lean`) — an independent executable
  specification transcribed from the Fluent 1.0 EBNF (as a PEG) and the abstract-syntax rules, validated
  at every run against the repo's 68 reference trees.  `wellFormed src` = that tree has no Junk.

The property is `parse_refines_grammar` below (a `def … : Prop`, the whole-resource statement).  It is
NOT yet a theorem: what is proved (for ALL sources and positions, no bounds) is the layered plan of
DESIGN §6/C02 up to

* **T1, lexical layer** — every scanner of the parser model against the grammar's lexical rule:
  `blank_inline`, `line_end`, `blank`, `blank_block`, `Identifier`, `NumberLiteral`, `StringLiteral`
  (exact escape set), the `VariantKey` choice, `inline_text`, `comment_char*`, the comment marker;
* **spec totality** — `SpecGrammar.parse` never runs out of fuel (`spec_total`);
* **T2, dedentation core** — `finishElements`' offset arithmetic `start + min indent common` is the
  grammar's `dedent`; `Slice::trim` is "the last element loses trailing white space"; `commonIndent` is
  the attained minimum; the grammar's patterns are in `joinText`-normal form.

Until the expression layer (inline expressions, call arguments, select/variants), whole patterns,
entries and comment attachment are connected (T2 rest, T3), the whole-resource claim rests on the
three-way differential test of `tools/fv/props/c02.py` (spec vs. parser vs. generator's tree).

The source is the UTF-8 encoding of a `String` (`bytesOf str`), which is what a Rust `&str` is; the one
UTF-8 fact used is `asciiThenBoundary_of_string`.  `rest s p` = the bytes of `s` from `p` on.
-/
namespace FluentProofs.C02
open FluentModel FluentModel.Syntax FluentModel.SpecGrammar
open FluentProofs.Parser FluentProofs.SpecLex FluentProofs.SpecDedent
open FluentProofs.SpecRefine FluentProofs.PatLoop

/-- the UTF-8 bytes of a string, as the parser model's source -/
def bytesOf (str : String) : Src := str.toUTF8.data

/-- **Full statement of C02 on the models** (kept visible; not yet proved).  For every source that the
grammar calls well-formed, the parser returns without panic or fuel exhaustion, reports no error (hence
no Junk), and its tree with adjacent text elements joined is the tree the grammar assigns.

Missing for a proof: (1) expression layer — `getInline`/`getCallArguments`/`getCallArgsLoop`/
`getExpression`/`getVariants` against `inlineExpression`/`callArguments`/`argumentList`/`inlinePlaceable`/
`variantList` (mutual induction on fuel; the parser's optional comma between arguments and its
`blank_inline`-only skip before `}` are leniencies that do not arise on well-formed input);
(2) `getPatternLoop` against `patternElements` (line structure of the placeholders versus
`block_text`/`block_placeable`), then `finishElements` against `finishPattern` using `dedent_offset` and
`trimEnd_eq_dropTrailingWs`; (3) `getMessage`/`getTerm`/`getAttributes`/`getComment`
against `messageP`/`termP`/`attributesP`/`commentLine`; (4) `parseLoop`'s `lastComment`/`lastBlankCount`
against `joinComments`/`attachComments`.  (Fuel sufficiency of `SpecGrammar.fuelFor` is `spec_total`.)
Layout independence (the property's second sentence) follows from this statement for every layout change
under which `SpecGrammar.parse` is invariant; it is exercised by the ≥ 8 layouts per AST of the generator.

Deviations of the parser from the grammar on well-formed input that the differential check found are
recorded in `known_findings.json` (a whitespace-only last line without line break used to become Junk);
the statement below is the property as it should hold. -/
def parse_refines_grammar : Prop :=
  ∀ (str : String), wellFormed (bytesOf str).toList = true →
    ∃ t, parse (bytesOf str) = .done (t, []) ∧
      SpecGrammar.parse (bytesOf str).toList = some (Resource.joinText (resolve (bytesOf str) t))

/-! ## the specification is total -/

/-- the executable grammar assigns a tree to EVERY input: the fuel `SpecGrammar.parse` passes to its
recursive productions always suffices (`wellFormed` is never decided by fuel exhaustion) -/
theorem spec_total (i : List UInt8) : (SpecGrammar.parse i).isSome = true :=
  FluentProofs.SpecFuel.parse_isSome i

/-! ## T1 — lexical layer -/

/-- `blank_inline?` (`" "*`) is `skip_blank_inline` -/
theorem T1_blank_inline (str : String) (p : Nat) :
    spaces (rest (bytesOf str) p) = rest (bytesOf str) (skipBlankInline (bytesOf str) p) :=
  spaces_eq_skipBlankInline _ p

/-- `line_end ::= "\r\n" | "\n" | EOF` is `skip_eol`, except that the grammar also accepts `EOF` -/
theorem T1_line_end (str : String) (p : Nat) :
    lineEnd (rest (bytesOf str) p) =
      (match skipEol (bytesOf str) p with
       | some q => some (rest (bytesOf str) q)
       | none => if (bytesOf str).size ≤ p then some [] else none) :=
  lineEnd_eq_skipEol _ p

/-- `blank?` (`(blank_inline | line_end)*`) is `skip_blank` -/
theorem T1_blank (str : String) (p : Nat) :
    blankOpt (rest (bytesOf str) p) = rest (bytesOf str) (skipBlank (bytesOf str) p) :=
  blankOpt_eq_skipBlank _ p

/-- `blank_block ::= (blank_inline? line_end)+` is `skip_blank_block`: same number of line breaks, same end
position (spaces that run to `EOF` included); the rule fails exactly when nothing was skipped and the
input has not ended. -/
theorem T1_blank_block (str : String) (p : Nat) (hp : p ≤ (bytesOf str).size) :
    blankBlock (rest (bytesOf str) p) =
      (let qc := skipBlankBlock (bytesOf str) p
       if qc.2 = 0 ∧ qc.1 < (bytesOf str).size then none else some (qc.2, rest (bytesOf str) qc.1)) :=
  blankBlock_eq_skipBlankBlock _ p hp

/-- `get_identifier` succeeds exactly when `Identifier ::= [a-zA-Z][a-zA-Z0-9_-]*` matches, on exactly
the bytes `s[p..q)`, with the same rest; otherwise it reports an error and the rule fails; no panic. -/
theorem T1_identifier (str : String) (p : Nat) :
    match getIdentifier (bytesOf str) p with
    | .ok sp q => sp = ⟨p, q⟩ ∧ p < q ∧
        identifier (rest (bytesOf str) p) = some (spanBytes (bytesOf str) sp, rest (bytesOf str) q)
    | .err _ _ => identifier (rest (bytesOf str) p) = none
    | .panic _ => False
    | .fuel => False :=
  identifier_eq_getIdentifier (asciiThenBoundary_of_string str) p

/-- `get_number_literal` versus `NumberLiteral ::= "-"? digits ("." digits)?` (T1 + T2 acceptance):
success = the rule matches exactly `s[p..q)`.  On `digits "."` without a following digit the scanner
reports an error where the PEG rule matches the digits and stops before the dot. -/
theorem T1_number_literal (str : String) (p : Nat) (hp : isBoundary (bytesOf str) p = true) :
    match getNumberLiteral (bytesOf str) p with
    | .ok sp q => sp = ⟨p, q⟩ ∧ p < q ∧
        numberLiteral (rest (bytesOf str) p) = some (spanBytes (bytesOf str) sp, rest (bytesOf str) q)
    | .err _ _ => numberLiteral (rest (bytesOf str) p) = none ∨
        ∃ q, p < q ∧ (bytesOf str)[q]? = some 46 ∧
          numberLiteral (rest (bytesOf str) p) = some (seg (bytesOf str) p q, rest (bytesOf str) q)
    | .panic _ => False
    | .fuel => False :=
  numberLiteral_eq_getNumberLiteral (asciiThenBoundary_of_string str) p hp

/-- the string-literal scanner (from after the opening quote; the caller then expects `"`) accepts
exactly `StringLiteral ::= "\"" quoted_char* "\""` — escapes `\\`, `\"`, `\uXXXX`, `\UXXXXXX` only, no raw
line end — and yields the same raw value `s[p+1..q)` (T1 + T2 acceptance). -/
theorem T1_string_literal (str : String) (p : Nat) (h : (bytesOf str)[p]? = some 34) :
    match scanString (bytesOf str) (p + 1) with
    | .ok _ q =>
      ((bytesOf str)[q]? = some 34 ∧
        stringLiteral (rest (bytesOf str) p) = some (seg (bytesOf str) (p + 1) q, rest (bytesOf str) (q + 1))) ∨
      ((bytesOf str)[q]? = none ∧ stringLiteral (rest (bytesOf str) p) = none)
    | .err _ _ => stringLiteral (rest (bytesOf str) p) = none
    | .panic _ => False
    | .fuel => False :=
  stringLiteral_eq_scanString (asciiThenBoundary_of_string str) p h

/-- `VariantKey`: the one-byte test `is_number_start` of `get_variant_key` decides the grammar's ordered
choice `NumberLiteral | Identifier` (with `T1_number_literal`, `T1_identifier`, `T1_blank`) -/
theorem T1_variant_key_choice (str : String) (p : Nat) :
    (isNumberStart (bytesOf str) p = true → identifier (rest (bytesOf str) p) = none) ∧
    (isNumberStart (bytesOf str) p = false → numberLiteral (rest (bytesOf str) p) = none) :=
  variantKey_choice _ p

/-- `get_text_slice` versus `inline_text ::= text_char+`: the slice starts at the cursor and covers exactly
the grammar's run of text chars (`text_char ::= any_char - "{" - "}" - line_end`; a lone `\r` is a text
char), plus the `\n` itself when the termination is a line feed; the terminations are exactly what can
follow a run (`\n`, `\r\n`, `{`, end of input) and `}` is the error. -/
theorem T1_inline_text (str : String) (p : Nat) (hp : p ≤ (bytesOf str).size) :
    match getTextSlice (bytesOf str) p with
    | .ok (start, stop, _, term) q => start = p ∧
        textRun (rest (bytesOf str) p) =
          (seg (bytesOf str) p (textStop term stop), rest (bytesOf str) (textStop term stop)) ∧
        (match term with
         | .lineFeed => (bytesOf str)[stop - 1]? = some 10 ∧ q = stop ∧ p < stop
         | .crlf => (bytesOf str)[stop]? = some 13 ∧ (bytesOf str)[stop + 1]? = some 10 ∧ q = stop + 1
         | .placeableStart => (bytesOf str)[stop]? = some 123 ∧ q = stop
         | .eof => stop = (bytesOf str).size ∧ q = (bytesOf str).size)
    | .err _ q => (bytesOf str)[q]? = some 125 ∧
        textRun (rest (bytesOf str) p) = (seg (bytesOf str) p q, rest (bytesOf str) q)
    | .panic _ => False
    | .fuel => False :=
  textRun_eq_getTextSlice _ p hp

/-- `get_comment_line` reads exactly `comment_char*` (up to, not including, the line end) -/
theorem T1_comment_line (str : String) (p : Nat) (hp : isBoundary (bytesOf str) p = true) :
    ∃ e, getCommentLine (bytesOf str) p = .ok ⟨p, e⟩ e ∧
      commentChars (rest (bytesOf str) p) = (spanBytes (bytesOf str) ⟨p, e⟩, rest (bytesOf str) e) :=
  commentChars_eq_getCommentLine p hp

/-- `get_comment_level` is the ordered choice `"###" | "##" | "#"` -/
theorem T1_comment_level (str : String) (p : Nat) :
    commentMarker (rest (bytesOf str) p) =
      (if (getCommentLevel (bytesOf str) p).1 = 0 then none
       else some ((getCommentLevel (bytesOf str) p).1, rest (bytesOf str) (getCommentLevel (bytesOf str) p).2)) :=
  commentMarker_eq_getCommentLevel _ p

/-! ## T2 — validity rule on callees -/

/-- on an identifier, Rust's `is_callee` (every byte in `[A-Z0-9_-]`) is the grammar's callee rule
`[A-Z][A-Z0-9_-]*` -/
theorem T2_callee (s : Src) (sp : Span) (b : UInt8) (r : List UInt8)
    (h : spanBytes s sp = b :: r) (hb : isAlpha b = true) :
    calleeOk (spanBytes s sp) = isCallee s sp :=
  calleeOk_eq_isCallee s sp b r h hb

/-! ## T2 — dedentation core -/

/-- for a line whose first `indent` bytes are spaces, the slice `start + min indent common .. stop` taken
by `finishElements` is what the grammar produces for the line: the indent minus `common` spaces, then the
line's text -/
theorem T2_dedent_offset (s : Src) (start stop indent common : Nat)
    (hsp : ∀ j, start ≤ j → j < start + indent → s[j]? = some 32) (h : start + indent ≤ stop) :
    spanBytes s ⟨start + min indent common, stop⟩ =
      dedentText common indent ++ spanBytes s ⟨start + indent, stop⟩ :=
  dedent_offset s start stop indent common hsp h

/-- `Slice::trim` (drops trailing `' ' | '\r' | '\n'`) is the grammar's "the last element loses trailing
white space", byte for byte -/
theorem T2_trim (s : Src) (sp : Span) (h : sp.stop ≤ s.size) :
    spanBytes s (trimEnd s sp) = dropTrailingWs (spanBytes s sp) :=
  trimEnd_eq_dropTrailingWs s sp h

/-- the grammar's common indent is the attained minimum over all `block_text`/`block_placeable` indents -/
theorem T2_common_indent_min (els : List RawEl) (c : Nat) (h : commonIndent els = some c) :
    c ∈ indentsOf els ∧ ∀ k ∈ indentsOf els, c ≤ k :=
  commonIndent_is_min els c h

/-- every pattern of the grammar's tree is in joined normal form and has no empty text element -/
theorem T2_pattern_normal_form (els : List RawEl) :
    NoAdjText (finishPattern els) ∧ ∀ e ∈ finishPattern els, nonEmptyEl e = true :=
  ⟨finishPattern_noAdj els, finishPattern_nonEmpty els⟩

/-! ## T2/T3 — expression layer and pattern layer (refinement: the grammar accepts ⇒ the parser returns its tree) -/

/-- **Expression layer.** For every spec fuel `m`, under the side condition `Surv` (see `T3_side_condition`):
wherever the grammar's `InlineExpression`, `CallArguments`/`argument_list` (with the rules "no positional
argument after a named one", "no duplicate name", callee shape), `inline_placeable` (term attribute not as
placeable), `SelectExpression` (selector kinds) or `variant_list` (exactly one default, variant keys) accepts,
the parser model's `getInline` / `getCallArguments` / `getCallArgsLoop` / `getPlaceable` + `getExpression` /
`getVariants` return the same tree — spans resolved, adjacent text joined — and stop at the corresponding
position (`ExprRef` spells out the eight statements). -/
theorem T2_expression_layer (str : String) (hSurv : Surv (bytesOf str)) (m : Nat) : ExprRef (bytesOf str) m :=
  exprRef_all (asciiThenBoundary_of_string str) hSurv m

/-- **Pattern layer.** `Pattern ::= PatternElement+` followed by the abstract-syntax pass (dedent over all
indented lines, blank lines as `\n`, join, trim) against `get_pattern` (the loop with line roles, blank lines,
placeable-led lines, CRLF, `keptCommonIndent`, and `finishElements`): where the grammar accepts a pattern that is
followed by what can follow a pattern (`PatFollow`), `getPattern` returns the same pattern after joining text and
stops at the start of the first line that is not part of the pattern. -/
theorem T3_pattern_layer (str : String) (hSurv : Surv (bytesOf str)) (m : Nat) : PatternRef (bytesOf str) m :=
  patternRef_all (asciiThenBoundary_of_string str) hSurv m

/-- **The side condition is exact about F30.**  `Surv` ("every non-blank text slice keeps a byte under the final
trim") holds for every source in which each `\r` belongs to a `\r\n`; the witness of the known finding F30
violates it (its last line is a lone carriage return). -/
theorem T3_side_condition :
    (∀ str : String, NoLoneCR (bytesOf str) → Surv (bytesOf str)) ∧
    ¬ Surv (strBytes "a =\n  x\n \r").toArray :=
  ⟨fun str h => surv_of_noLoneCR (asciiThenBoundary_of_string str) h, f30_witness_not_surv⟩

/-! ## non-vacuity / sanity (tests on literals) -/

/-- test: a well-formed source with an attached comment, a multi-line value with a placeable-led line,
a select expression and a term: the grammar calls it well-formed and `parse_refines_grammar`'s
conclusion holds for it -/
example :
    let src := strBytes "# c\nkey =\n      two\n    { $n ->\n        [one] x\n       *[other] { FOO(1, k: \"v\") }\n    }\n-t = v\n    .a = w\n"
    (wellFormed src &&
      (match parse src.toArray, SpecGrammar.parse src with
       | .done (t, errs), some g => errs.isEmpty && Resource.sexp (Resource.joinText (resolve src.toArray t)) == Resource.sexp g
       | _, _ => false)) = true := by decide +kernel

/-- test: the grammar rejects what the abstract syntax forbids (entries become Junk) -/
example :
    ((["a = { -t.attr }\n", "a = { m -> \n *[x] y\n}\n", "a = { FOO(x: 1, 2) }\n", "a = { FOO(x: 1, x: 2) }\n",
       "a = { foo() }\n", "a = { $x ->\n [a] b\n}\n", "a = { \"\\q\" }\n"].map
        fun s => wellFormed (strBytes s)) = [false, false, false, false, false, false, false]) := by decide +kernel

end FluentProofs.C02
