import FluentProofs.Unescape
import FluentProofs.UnescapeFast
/-!
# C13 — string-literal escapes decode exactly and never fail

Model: `FluentModel.Unescape` (byte cursor over `Array UInt8`, transcribed from
`fluent-syntax/src/unicode.rs`; slicing off a char boundary or out of range is the explicit outcome
`panic`, the loops take fuel).  Specification: `FluentProofs.UnescapeSpec.decode` (recursion on
characters, written from the property text).  Inputs are *all* `String`s, i.e. all valid UTF-8 byte
sequences of any length (`ByteArray.IsValidUTF8`); nothing is bounded.
-/
namespace FluentProofs.C13
open FluentModel FluentModel.Unescape FluentProofs.UnescapeSpec FluentProofs.Unescape FluentProofs.UnescapeFast

/-- **Unescaping returns, for every valid UTF-8 input of any length**: neither entry point reaches a
panicking slice (`&input[a..b]` off a char boundary or out of range) and the fuel the model passes to
its loops is sufficient (termination). -/
theorem C13_unescape_total (b : ByteArray) (h : b.IsValidUTF8) (w : Bytes) :
    (∃ r, unescapeUnicodeToString b.data = .done r) ∧ (∃ r, unescapeUnicode w b.data = .done r) := by
  obtain ⟨cs, hcs⟩ := validUTF8_bytes b h
  rw [hcs]
  exact ⟨⟨_, unescapeUnicodeToString_spec cs⟩, ⟨_, unescapeUnicode_spec w cs⟩⟩

/-- **Exact decoding on all inputs**: the string form yields the UTF-8 of `decode` of the input's
characters (`\\`→`\`, `\"`→`"`, `\uXXXX`/`\UXXXXXX`→ the scalar or U+FFFD, malformed escape → U+FFFD, all
other text unchanged and in order), and `Cow::Owned` exactly when `decode` had an escape to process. -/
theorem C13_unescape_eq_decode (s : String) :
    unescapeUnicodeToString s.toUTF8.data =
      .done (utf8 (decode s.toList), s.toList.any (· == '\\')) := by
  rw [string_bytes, unescapeUnicodeToString_spec, utf8_eq_enc]; rfl

/-- **Well-formed input decodes token by token**: on any concatenation of plain characters, `\\`, `\"`,
`\uXXXX` and `\UXXXXXX` (exactly 4 / 6 hex digits) the output is the concatenation of the tokens' values
(U+FFFD for surrogates and values above U+10FFFF). -/
theorem C13_unescape_wellformed (ts : List Tok) (h : ∀ t ∈ ts, t.Valid) :
    ∃ owned, unescapeUnicodeToString (String.ofList (ts.flatMap Tok.text)).toUTF8.data =
      .done (utf8 (ts.flatMap Tok.value), owned) := by
  refine ⟨(ts.flatMap Tok.text).any (· == '\\'), ?_⟩
  rw [C13_unescape_eq_decode, String.toList_ofList, decode_tokens ts h]

/-- **Borrowed iff no backslash**: the result is `Cow::Borrowed` (flag `false`) exactly when the input has
no backslash, and then it is the input itself, byte for byte. -/
theorem C13_no_backslash_borrowed (s : String) :
    ∃ out owned, unescapeUnicodeToString s.toUTF8.data = .done (out, owned) ∧
      (owned = false ↔ '\\' ∉ s.toList) ∧ (owned = false → out = s.toUTF8.data.toList) := by
  refine ⟨_, _, C13_unescape_eq_decode s, ?_, ?_⟩
  · rw [← hasBS_iff]; cases h : hasBS s.toList <;> simp_all [hasBS]
  · intro h
    rw [utf8_eq_enc, decode_noBS _ h, string_bytes]; rfl

/-- **Writer form = string form**: `unescape_unicode(w, input)` appends to `w` exactly the text that
`unescape_unicode_to_string(input)` returns (whether borrowed or owned). -/
theorem C13_writer_eq_string (s : String) (w : Bytes) :
    ∃ out owned, unescapeUnicodeToString s.toUTF8.data = .done (out, owned) ∧
      unescapeUnicode w s.toUTF8.data = .done (w ++ out) := by
  refine ⟨_, _, C13_unescape_eq_decode s, ?_⟩
  rw [string_bytes, unescapeUnicode_spec, utf8_eq_enc]

/-! ### The functions the driver `fvm_unesc` runs

The model tie executes the linear-time variants `unescapeUnicodeToStringFast` / `unescapeUnicodeFast`
(`FluentModel.UnescapeFast`: the written bytes are kept in an array instead of a list).  They are equal
to the functions above on every input and in every outcome (`FluentProofs.UnescapeFast`), so the
headline theorems hold of them verbatim. -/

/-- **The driver's functions are the model's functions** (all inputs, all outcomes incl. the flag). -/
theorem C13_fast_eq (s : Src) (w : Bytes) :
    unescapeUnicodeToStringFast s = unescapeUnicodeToString s ∧
      unescapeUnicodeFast w s = unescapeUnicode w s :=
  ⟨unescapeUnicodeToStringFast_eq s, unescapeUnicodeFast_eq w s⟩

/-- `C13_unescape_total` for the functions the driver runs. -/
theorem C13_unescape_total_fast (b : ByteArray) (h : b.IsValidUTF8) (w : Bytes) :
    (∃ r, unescapeUnicodeToStringFast b.data = .done r) ∧ (∃ r, unescapeUnicodeFast w b.data = .done r) := by
  rw [unescapeUnicodeToStringFast_eq, unescapeUnicodeFast_eq]
  exact C13_unescape_total b h w

/-- `C13_unescape_eq_decode` and `C13_writer_eq_string` for the functions the driver runs: the string
form yields the UTF-8 of `decode` with the owned/borrowed flag, the writer form appends that same text. -/
theorem C13_unescape_eq_decode_fast (s : String) (w : Bytes) :
    unescapeUnicodeToStringFast s.toUTF8.data =
        .done (utf8 (decode s.toList), s.toList.any (· == '\\')) ∧
      unescapeUnicodeFast w s.toUTF8.data = .done (w ++ utf8 (decode s.toList)) := by
  rw [unescapeUnicodeToStringFast_eq, unescapeUnicodeFast_eq]
  refine ⟨C13_unescape_eq_decode s, ?_⟩
  obtain ⟨out, owned, h1, h2⟩ := C13_writer_eq_string s w
  rw [C13_unescape_eq_decode] at h1
  cases h1
  exact h2

/-! Non-vacuity / sanity (these are tests on literals, not the theorems): the model run on the former
crash witness F3 (`\u000éx`), on F4 (`\u+041`), on a truncated escape, and a well-formed token list. -/
example : unescapeUnicodeToString (src "\\u000éx".toList) = .done (enc "�x".toList, true) := by
  rw [unescapeUnicodeToString_spec]; decide
example : decode "\\u+041".toList = "�".toList := by decide
example : decode "a\\\\b\\\"c\\u00e9\\U01F600\\uD800\\U110000\\".toList = "a\\b\"cé😀���".toList := by decide
example : decode "\\u00".toList = "�".toList ∧ decode "\\xé".toList = "�é".toList ∧
    decode "\\é\\".toList = "��".toList := by decide
example : Tok.Valid (.u "00e9".toList) ∧ Tok.Valid (.U "10FFFF".toList) ∧ Tok.Valid (.plain 'é') := by
  simp only [Tok.Valid]; decide

end FluentProofs.C13
