import FluentProofs.ConstTieSyntax
import FluentProofs.ParserLinesWF
/-!
# C05 — the runtime parser agrees with the full parser apart from comments

Model: `parse` / `parseRuntime` of `FluentModel/Parser.lean` (transcriptions of `Parser::parse`
and `Parser::parse_runtime`; they share `getMessage`/`getTerm` exactly as the Rust code shares
`get_message`/`get_term`).

Proved:
* `C05_full` (= `C05_full_statement`): for EVERY byte source on which both parsers finish, the runtime parser
  returns exactly the messages and terms of the full parser (same order, same content, `comment := none`);
  `C05_full_string`: for every `String` both parsers finish (C01) and agree in this sense.
  Proof (`FluentProofs/ParserLinesSim.lean`): a simulation between the two entry loops.  Relation: both cursors
  are line starts (or EOF) and no position where a message or term could start (a line start holding `[a-zA-Z]`
  or `-`) lies between them.  A parser whose cursor is not such a position (`#` comment — well-formed, mixed
  levels, malformed `#x`, CRLF —, or any byte on which `get_message` fails at once) steps alone: it emits no
  message/term, and neither `get_comment`, `skip_comment`, `skip_blank_block` nor the junk recovery
  `skip_to_next_entry_start` passes a message/term start (`getEntry_lines`, `getEntryRuntime_lines`).
  Otherwise both cursors coincide and the dispatchers run the same `get_term`/`get_message` (`C05_dispatch`).
* `C05_junk_errors` (second sentence): when every line whose first byte is `#` matches `#{1,3}( .*)?`
  (`CommentsWellFormed`, a decidable predicate on the bytes; CRLF line ends allowed) the Junk entries and the
  complete error lists coincide as well; `C05_complete_string` puts both sentences together for every `String`.
  Proof (`FluentProofs/ParserLinesWF.lean`): a second simulation — cursors are non-blank line starts and only `#`
  lines and blank lines lie between them; `get_comment` cannot fail on a well-formed first line, so a parser at a
  `#` line steps alone without Junk; otherwise the cursors coincide and the dispatchers are the same function.
  The hypothesis is needed: see the `#x` example at the end.
* `C05_dispatch`: on every entry whose first byte is not `#` the two dispatchers are the same function
  (same message/term, same error, same cursor);
* `C05_no_hash_partial`: for every source without a `#` byte the two parsers return identical results
  (all entries, all Junk, the complete error list).
-/
namespace FluentProofs.C05
open FluentModel.Syntax

/-- full statement of the property on the model (first sentence; proved below: `C05_full`) -/
def C05_full_statement : Prop :=
  ∀ (s : Src) (b₁ b₂ : Resource Span) (e₁ e₂ : List PErr),
    parse s = .done (b₁, e₁) → parseRuntime s = .done (b₂, e₂) →
    msgsTerms b₂ = msgsTerms b₁

/-- **C05, first sentence**: for every source, the runtime parser returns exactly the messages and terms (same
order, same content, no comments) that the full parser returns. -/
theorem C05_full : C05_full_statement := by
  intro s b₁ b₂ e₁ e₂ h1 h2
  open FluentProofs.Parser in
  exact (sim_msgsTerms s _ _ _ _ (Nat.le_refl _) [] [] none 0 _ [] [] _ (b₁, e₁) (b₂, e₂) (start_LSE s) (start_LSE s)
    (Zone.refl _ _) rfl h1 h2).symm

/-- **C05 for every `String`**: both parsers finish (C01) and return the same messages and terms. -/
theorem C05_full_string (str : String) :
    ∃ b₁ e₁ b₂ e₂, parse str.toUTF8.data = .done (b₁, e₁) ∧ parseRuntime str.toUTF8.data = .done (b₂, e₂) ∧
      msgsTerms b₂ = msgsTerms b₁ := by
  open FluentProofs.Parser in
  have hs := asciiThenBoundary_of_string str
  have hA := skipBlankBlock_after str.toUTF8.data 0
  have hb := hA.bnd hs (bnd_zero _)
  obtain ⟨⟨b₁, e₁⟩, h1, _⟩ : Done str.toUTF8.data (parse str.toUTF8.data) :=
    parseLoop_done hs _ [] [] none 0 _ hb.le hb (by omega) (by simp) (by simp) (by simp)
  obtain ⟨⟨b₂, e₂⟩, h2, _⟩ : Done str.toUTF8.data (parseRuntime str.toUTF8.data) :=
    parseRuntimeLoop_done hs _ [] [] _ (fun _ => hb) (by omega) (by simp) (by simp)
  exact ⟨b₁, e₁, b₂, e₂, h1, h2, C05_full _ b₁ b₂ e₁ e₂ h1 h2⟩

/-- **C05, second sentence**: when every `#` line of the input is a well-formed comment line, the two parsers
also agree on all Junk entries (same spans, in order) and on the complete error list. -/
theorem C05_junk_errors (s : Src) (hwf : FluentProofs.Parser.CommentsWellFormed s) (b₁ b₂ : Resource Span)
    (e₁ e₂ : List PErr) (h1 : parse s = .done (b₁, e₁)) (h2 : parseRuntime s = .done (b₂, e₂)) :
    junkSpans b₂ = junkSpans b₁ ∧ e₂ = e₁ :=
  FluentProofs.Parser.parse_runtime_junk s hwf b₁ b₂ e₁ e₂ h1 h2

/-- **C05 for every `String`, both sentences**: both parsers finish; messages and terms agree; and if all `#`
lines are well-formed comments, Junk and errors agree too. -/
theorem C05_complete_string (str : String) :
    ∃ b₁ e₁ b₂ e₂, parse str.toUTF8.data = .done (b₁, e₁) ∧ parseRuntime str.toUTF8.data = .done (b₂, e₂) ∧
      msgsTerms b₂ = msgsTerms b₁ ∧
      (FluentProofs.Parser.CommentsWellFormed str.toUTF8.data → junkSpans b₂ = junkSpans b₁ ∧ e₂ = e₁) := by
  obtain ⟨b₁, e₁, b₂, e₂, h1, h2, h3⟩ := C05_full_string str
  exact ⟨b₁, e₁, b₂, e₂, h1, h2, h3, fun hwf => C05_junk_errors _ hwf b₁ b₂ e₁ e₂ h1 h2⟩

/-- lock-step: where no comment is involved both entry points run the same entry parser -/
theorem C05_dispatch (s : Src) (fuel p : Nat) (h : s[p]? ≠ some (35 : UInt8)) :
    getEntryRuntime s fuel p =
      (match getEntry s fuel p with
       | .ok e q => .ok (some e) q
       | .err e q => .err e q
       | .panic m => .panic m
       | .fuel => .fuel) := by
  rw [getEntry_of_not_hash s fuel p h, getEntryRuntime_of_not_hash s fuel p h]
  split
  · cases getTerm s fuel p p <;> rfl
  · cases getMessage s fuel p p <;> rfl

/-- for every source without a `#` byte: identical trees, Junk and error lists -/
theorem C05_no_hash_partial (s : Src) (h : NoHash s) : parseRuntime s = parse s := by
  unfold parseRuntime parse
  exact (parseLoop_eq_runtime_of_noHash s h _ _ _ _ _ _).symm

/-- non-vacuity / sanity (a test): a source with comments of all levels, Junk and two messages -/
example :
    (match parse (FluentModel.strBytes "# c\na = 1\n## g\n\n### r\nx {\n-t = 2\n").toArray,
           parseRuntime (FluentModel.strBytes "# c\na = 1\n## g\n\n### r\nx {\n-t = 2\n").toArray with
     | .done (b₁, e₁), .done (b₂, e₂) =>
       (msgsTerms b₁).length == 2 && (msgsTerms b₂).length == 2 && e₁.length == 1 && e₂.length == 1
     | _, _ => false) = true := by decide +kernel

/-- test: the well-formedness predicate is decidable and holds for the source above -/
example : FluentProofs.Parser.CommentsWellFormed
    (FluentModel.strBytes "# c\na = 1\n## g\n\n### r\nx {\n-t = 2\n").toArray := by decide +kernel

/-- test: the hypothesis of `C05_junk_errors` is needed.  In `#x⏎ foo⏎bar = 1⏎` the malformed comment line makes
the full parser's Junk `0..8` (it runs to the next line that looks like an entry) while the runtime parser skips
the `#` line and records Junk `3..8`; the message `bar` is found by both. -/
example :
    (match parse (FluentModel.strBytes "#x\n foo\nbar = 1\n").toArray,
           parseRuntime (FluentModel.strBytes "#x\n foo\nbar = 1\n").toArray with
     | .done (b₁, _), .done (b₂, _) =>
       junkSpans b₁ == [⟨0, 8⟩] && junkSpans b₂ == [⟨3, 8⟩] && (msgsTerms b₁).length == 1 && (msgsTerms b₂).length == 1
     | _, _ => false) = true := by decide +kernel

example : ¬ FluentProofs.Parser.CommentsWellFormed (FluentModel.strBytes "#x\n foo\nbar = 1\n").toArray := by
  decide +kernel

end FluentProofs.C05
