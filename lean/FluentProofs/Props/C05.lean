import FluentProofs.ParserRuntime
/-!
# C05 — the runtime parser agrees with the full parser apart from comments

Model: `parse` / `parseRuntime` of `FluentModel/Parser.lean` (transcriptions of `Parser::parse`
and `Parser::parse_runtime`; they share `getMessage`/`getTerm` exactly as the Rust code shares
`get_message`/`get_term`).

Full statement (kept visible): `C05_full_statement`.  Proved so far:
* `C05_dispatch`: on every entry whose first byte is not `#` the two dispatchers are the same function
  (same message/term, same error, same cursor) — the lock-step fact the property's mechanism rests on;
* `C05_no_hash_partial`: for every source without a `#` byte the two parsers return identical results
  (all entries, all Junk, the complete error list).
The `#`-line case (comment vs. skip_comment re-synchronisation at the next non-comment line) is not yet a
theorem; it is covered by the correspondence harness (comment-placement generator) and by the property
predicate evaluated on the implementation.
-/
namespace FluentProofs.C05
open FluentModel.Syntax

/-- full statement of the property on the model (first sentence; the second sentence adds: when every line
whose first byte is `#` matches `#{1,3}( .*)?`, also `b₂`'s Junk entries and `e₂ = e₁`) -/
def C05_full_statement : Prop :=
  ∀ (s : Src) (b₁ b₂ : Resource Span) (e₁ e₂ : List PErr),
    parse s = .done (b₁, e₁) → parseRuntime s = .done (b₂, e₂) →
    msgsTerms b₂ = msgsTerms b₁

/-- lock-step: where no comment is involved both entry points run the same entry parser -/
theorem C05_dispatch (s : Src) (fuel p : Nat) (h : s[p]? ≠ some (35 : UInt8)) :
    getEntryRuntime s fuel p =
      (match getEntry s fuel p with
       | .ok e q => .ok (some e) q
       | .err e q => .err e q
       | .panic m => .panic m
       | .fuel => .fuel) := by
  rw [getEntry_of_not_hash s fuel p h, getEntryRuntime_of_not_hash s fuel p h]
  split
  · cases getTerm s fuel p p <;> rfl
  · cases getMessage s fuel p p <;> rfl

/-- for every source without a `#` byte: identical trees, Junk and error lists -/
theorem C05_no_hash_partial (s : Src) (h : NoHash s) : parseRuntime s = parse s := by
  unfold parseRuntime parse
  exact (parseLoop_eq_runtime_of_noHash s h _ _ _ _ _ _).symm

/-- non-vacuity / sanity (a test): a source with comments of all levels, Junk and two messages -/
example :
    (match parse (FluentModel.strBytes "# c\na = 1\n## g\n\n### r\nx {\n-t = 2\n").toArray,
           parseRuntime (FluentModel.strBytes "# c\na = 1\n## g\n\n### r\nx {\n-t = 2\n").toArray with
     | .done (b₁, e₁), .done (b₂, e₂) =>
       (msgsTerms b₁).length == 2 && (msgsTerms b₂).length == 2 && e₁.length == 1 && e₂.length == 1
     | _, _ => false) = true := by decide +kernel

end FluentProofs.C05
