import FluentProofs.ConstTieResolver
import FluentProofs.Props.C14
import FluentProofs.MemoConcPure
import FluentModel.Resolver
/-!
# C15 — a concurrent bundle formats the same from many threads as from one

Corollary structure (DESIGN §6/C15):
(a) in the transcribed resolver model a request's result is a function of (bundle, request): the model
    threads no state between calls (`FluentModel.Resolver.formatPattern env fuel p` has no other input);
    the only shared mutable object a real request touches is the formatter memoizer, which enters the
    model as the pure function `env.category`;
(b) the concurrent memoizer model (C14) shows, for ALL schedules, that every lookup completes, that
    the instance a callback sees is what `construct` returns for its key (cache state is
    unobservable) and that no reachable state is deadlocked.
Hence every interleaving of requests at the granularity of memoizer accesses returns, request by
request, the sequential result.  Real thread schedules and the memory model are sampled by the
harness (N threads behind a barrier on a cold cache), not enumerated.
-/
namespace FluentProofs.C15
open FluentModel FluentModel.Syntax FluentModel.Resolver

/-- a request = (pattern, caller arguments); a thread program = list of requests -/
abbrev Request := Pattern Bytes × Option ArgList

/-- what one request returns against a bundle (the memoizer enters only through `env.category`) -/
def answer (env : Env) (fuel : Nat) (r : Request) : RR (Bytes × List RErr) :=
  formatPattern { env with args := r.2 } fuel r.1

/-- running programs under a schedule: a schedule is any interleaving of the threads' requests
(list of thread ids); the bundle is immutable (`&self`), so the state is only each thread's cursor. -/
def runSchedule (env : Env) (fuel : Nat) (progs : List (List Request)) :
    List Nat → List (List (RR (Bytes × List RErr))) → List (List (RR (Bytes × List RErr)))
  | [], outs => outs
  | t :: rest, outs =>
    match progs[t]?, outs[t]? with
    | some prog, some done =>
      (match prog[done.length]? with
       | some rq => runSchedule env fuel progs rest (outs.set t (done ++ [answer env fuel rq]))
       | none => runSchedule env fuel progs rest outs)
    | _, _ => runSchedule env fuel progs rest outs

/-- every result a thread has obtained under ANY schedule is the sequential result of that request -/
theorem C15_concurrent_eq_sequential (env : Env) (fuel : Nat) (progs : List (List Request)) (sched : List Nat)
    (outs : List (List (RR (Bytes × List RErr))))
    (hlen : outs.length = progs.length)
    (h : ∀ (t : Nat) (prog : List Request) (done : List (RR (Bytes × List RErr))), progs[t]? = some prog → outs[t]? = some done →
      done = (prog.take done.length).map (answer env fuel)) :
    ∀ (t : Nat) (prog : List Request) (done : List (RR (Bytes × List RErr))), progs[t]? = some prog →
      (runSchedule env fuel progs sched outs)[t]? = some done →
      done = (prog.take done.length).map (answer env fuel) := by
  induction sched generalizing outs with
  | nil => intro t prog done hp hd; exact h t prog done hp hd
  | cons t0 rest ih =>
    unfold runSchedule
    split
    · rename_i prog0 done0 hp0 hd0
      split
      · rename_i rq hrq
        apply ih
        · simp [hlen]
        · intro t prog done hp hd
          by_cases ht : t = t0
          · subst ht
            have hlt : t < outs.length := by
              rcases Nat.lt_or_ge t outs.length with h1 | h1
              · exact h1
              · rw [List.getElem?_eq_none h1] at hd0; cases hd0
            rw [List.getElem?_set_self hlt] at hd
            have hpe : prog0 = prog := by rw [hp0] at hp; exact Option.some.inj hp
            subst hpe
            have hde : done = done0 ++ [answer env fuel rq] := (Option.some.inj hd).symm
            subst hde
            have h0 := h t prog0 done0 hp0 hd0
            have hlt2 : done0.length < prog0.length := by
              rcases Nat.lt_or_ge done0.length prog0.length with h1 | h1
              · exact h1
              · rw [List.getElem?_eq_none h1] at hrq; cases hrq
            simp only [List.length_append, List.length_singleton]
            rw [List.take_add_one, hrq, List.map_append, ← h0]
            rfl
          · rw [List.getElem?_set_ne (Ne.symm ht)] at hd
            exact h t prog done hp hd
      · exact ih outs hlen h
    · exact ih outs hlen h

end FluentProofs.C15

/-! ## lock-granularity corollary of C14 (the thread-safe formatter memoizer)

`X` is `Memoizable::construct` of every formatter type over an arbitrary external world; here it is *pure*
(`hpure`: its result is a function `f` of language, type and arguments – `PluralRules::construct` is) and the
callbacks' results do not depend on the world (`hcb`; `|pr| pr.0.select(..)` is a function of the instance).
Model and schedules as in C14 (`FluentModel.Memo.cstep`: one explicit lock, a schedule is any list of thread
ids).  Real thread schedules are sampled by the harness, not enumerated. -/
namespace FluentProofs.C15
open FluentModel.Memo

section MemoLock
variable {σ L τ α ι ε ρ : Type} [DecidableEq τ] [DecidableEq α]
variable (X : Ext σ L τ α ι ε) (lang : L) (w₀ : σ)

/-- **memoizer lookups are schedule independent.**  For ALL thread programs and ALL schedules:
(1) whenever the lock is free, every thread's results (in order) are exactly `pureOutcome f lang w₀` – the
    callback applied to what `construct` returns for the key, or `construct`'s error – of the lookups that
    thread has acquired so far;
(2) in any state where no thread is unfinished, thread `t`'s results are `pureOutcome` mapped over `t`'s whole
    program, which is also what a single-threaded run of that program alone on a cold memoizer returns. -/
theorem C15_lookups_schedule_independent (f : L → τ → α → Except ε ι)
    (hpure : ∀ w l t a, (X.construct w l t a).1 = f l t a)
    (progs : List (List (Op σ τ α ι ρ)))
    (hcb : ∀ p ∈ progs, ∀ op ∈ p, ∀ i w w', (op.cb i w).1 = (op.cb i w').1) (sched : List Nat) :
    let s : CState σ L τ α ι ε ρ := FluentProofs.C14.cafter X lang w₀ progs sched
    (s.lock = none → ∀ t, (s.threads t).results.reverse = (acqOf t s.acq).map (pureOutcome f lang w₀)) ∧
    ((∀ t, ¬ unfinished s t) → ∀ t,
      (s.threads t).results.reverse = (progOf progs t).map (pureOutcome f lang w₀) ∧
      (s.threads t).results.reverse = (runOps X lang (progOf progs t) LMemo.empty w₀).1) := by
  intro s
  refine ⟨fun hl t => lookups_schedule_independent X lang w₀ f hpure progs hcb sched hl t, ?_⟩
  intro hf t
  exact ⟨complete_results_schedule_independent X lang w₀ f hpure progs hcb sched hf t,
    complete_results_eq_single_thread X lang w₀ f hpure progs hcb sched hf t⟩

/-- after *any* schedule prefix followed by the completing schedule of `C14_completion`, thread `t` holds the
pure outcomes of its program – the same list for every schedule -/
theorem C15_lookups_after_completion (f : L → τ → α → Except ε ι)
    (hpure : ∀ w l t a, (X.construct w l t a).1 = f l t a)
    (progs : List (List (Op σ τ α ι ρ)))
    (hcb : ∀ p ∈ progs, ∀ op ∈ p, ∀ i w w', (op.cb i w).1 = (op.cb i w').1) (sched : List Nat) (t : Nat) :
    ((FluentProofs.C14.cafter X lang w₀ progs
        (sched ++ roundRobin progs.length (3 * (progs.map List.length).sum)) :
        CState σ L τ α ι ε ρ).threads t).results.reverse =
      (progOf progs t).map (pureOutcome f lang w₀) :=
  complete_results_schedule_independent X lang w₀ f hpure progs hcb _
    (fun t' => FluentProofs.C14.C14_completion X lang w₀ progs sched t') t

/-- **no deadlock, no livelock** at the memoizer: in every reachable state an unfinished thread implies an
enabled thread, and round-robin for `3 × (number of lookups)` rounds after any prefix finishes every thread -/
theorem C15_no_deadlock (progs : List (List (Op σ τ α ι ρ))) (sched : List Nat) :
    (∀ t, unfinished (FluentProofs.C14.cafter X lang w₀ progs sched : CState σ L τ α ι ε ρ) t →
      ∃ t', enabled (FluentProofs.C14.cafter X lang w₀ progs sched : CState σ L τ α ι ε ρ) t') ∧
    (∀ t, ¬ unfinished (FluentProofs.C14.cafter X lang w₀ progs
        (sched ++ roundRobin progs.length (3 * (progs.map List.length).sum)) : CState σ L τ α ι ε ρ) t) :=
  ⟨fun t hu => FluentProofs.C14.C14_deadlock_free X lang w₀ progs sched t hu,
   fun t => FluentProofs.C14.C14_completion X lang w₀ progs sched t⟩

end MemoLock
end FluentProofs.C15
