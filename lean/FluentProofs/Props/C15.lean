import FluentProofs.ConstTieResolver
import FluentProofs.Props.C14
import FluentModel.Resolver
/-!
# C15 — a concurrent bundle formats the same from many threads as from one

Corollary structure (DESIGN §6/C15):
(a) in the transcribed resolver model a request's result is a function of (bundle, request): the model
    threads no state between calls (`FluentModel.Resolver.formatPattern env fuel p` has no other input);
    the only shared mutable object a real request touches is the formatter memoizer, which enters the
    model as the pure function `env.category`;
(b) the concurrent memoizer model (C14) shows, for ALL schedules, that every lookup completes, that
    the instance a callback sees is what `construct` returns for its key (cache state is
    unobservable) and that no reachable state is deadlocked.
Hence every interleaving of requests at the granularity of memoizer accesses returns, request by
request, the sequential result.  Real thread schedules and the memory model are sampled by the
harness (N threads behind a barrier on a cold cache), not enumerated.
-/
namespace FluentProofs.C15
open FluentModel FluentModel.Syntax FluentModel.Resolver

/-- a request = (pattern, caller arguments); a thread program = list of requests -/
abbrev Request := Pattern Bytes × Option ArgList

/-- what one request returns against a bundle (the memoizer enters only through `env.category`) -/
def answer (env : Env) (fuel : Nat) (r : Request) : RR (Bytes × List RErr) :=
  formatPattern { env with args := r.2 } fuel r.1

/-- running programs under a schedule: a schedule is any interleaving of the threads' requests
(list of thread ids); the bundle is immutable (`&self`), so the state is only each thread's cursor. -/
def runSchedule (env : Env) (fuel : Nat) (progs : List (List Request)) :
    List Nat → List (List (RR (Bytes × List RErr))) → List (List (RR (Bytes × List RErr)))
  | [], outs => outs
  | t :: rest, outs =>
    match progs[t]?, outs[t]? with
    | some prog, some done =>
      (match prog[done.length]? with
       | some rq => runSchedule env fuel progs rest (outs.set t (done ++ [answer env fuel rq]))
       | none => runSchedule env fuel progs rest outs)
    | _, _ => runSchedule env fuel progs rest outs

/-- every result a thread has obtained under ANY schedule is the sequential result of that request -/
theorem C15_concurrent_eq_sequential (env : Env) (fuel : Nat) (progs : List (List Request)) (sched : List Nat)
    (outs : List (List (RR (Bytes × List RErr))))
    (hlen : outs.length = progs.length)
    (h : ∀ (t : Nat) (prog : List Request) (done : List (RR (Bytes × List RErr))), progs[t]? = some prog → outs[t]? = some done →
      done = (prog.take done.length).map (answer env fuel)) :
    ∀ (t : Nat) (prog : List Request) (done : List (RR (Bytes × List RErr))), progs[t]? = some prog →
      (runSchedule env fuel progs sched outs)[t]? = some done →
      done = (prog.take done.length).map (answer env fuel) := by
  induction sched generalizing outs with
  | nil => intro t prog done hp hd; exact h t prog done hp hd
  | cons t0 rest ih =>
    unfold runSchedule
    split
    · rename_i prog0 done0 hp0 hd0
      split
      · rename_i rq hrq
        apply ih
        · simp [hlen]
        · intro t prog done hp hd
          by_cases ht : t = t0
          · subst ht
            have hlt : t < outs.length := by
              rcases Nat.lt_or_ge t outs.length with h1 | h1
              · exact h1
              · rw [List.getElem?_eq_none h1] at hd0; cases hd0
            rw [List.getElem?_set_self hlt] at hd
            have hpe : prog0 = prog := by rw [hp0] at hp; exact Option.some.inj hp
            subst hpe
            have hde : done = done0 ++ [answer env fuel rq] := (Option.some.inj hd).symm
            subst hde
            have h0 := h t prog0 done0 hp0 hd0
            have hlt2 : done0.length < prog0.length := by
              rcases Nat.lt_or_ge done0.length prog0.length with h1 | h1
              · exact h1
              · rw [List.getElem?_eq_none h1] at hrq; cases hrq
            simp only [List.length_append, List.length_singleton]
            rw [List.take_add_one, hrq, List.map_append, ← h0]
            rfl
          · rw [List.getElem?_set_ne (Ne.symm ht)] at hd
            exact h t prog done hp hd
      · exact ih outs hlen h
    · exact ih outs hlen h

end FluentProofs.C15
