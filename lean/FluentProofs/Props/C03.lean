import FluentProofs.ConstTieSyntax
import FluentProofs.ParserLines
import FluentProofs.ParserValid
import FluentProofs.ParserValidEntry
import FluentProofs.ParserLocalTop
/-!
# C03 — syntax errors are contained: Junk accounting and per-entry recovery

Model: `FluentModel.Syntax.parse` / `parseRuntime` (transcription of `Parser::parse`,
`Parser::parse_runtime`, validated against the implementation on every run).
All theorems are for EVERY source `s` (any byte array).

Proved here (accounting part of the property, both parsers):
* `C03_accounting…`: errors and Junk entries correspond one-to-one in source order; each error's
  `slice` is exactly its Junk's span; every Junk span is a valid slice of the source (in range and
  on character boundaries — otherwise the Rust slicing would have panicked); the reported position
  is not beyond the Junk's end; the Junk ends at the end of input or at a line-initial entry-start
  byte (`[a-zA-Z]`, `-`, `#`).
* `C03_ok_iff_no_junk…`: the error list is empty exactly when the tree has no Junk
  (the Rust API returns `Ok` exactly when the error list is empty).

* `C03_full` (= `C03_full_statement`, for EVERY byte source on which `parse` finishes; `C03_full_string` for every
  `String`, where it always finishes) and `C03_full_runtime`: in addition every error's slice `a..b`
  starts at a line start (`a = 0` or the byte before `a` is `\n`) and `a ≤ pos.start` — so together with
  `Acc.ends` the Junk range contains the error position, starts at a line start and ends where the next entry
  begins.  Proof (`FluentProofs/ParserLines.lean`): (1) `Mono` — every cursor and every error position
  produced by a parser function started at `p` is `≥ p` (all eight mutually recursive functions, by
  induction on fuel; `get_comment`, `get_message`, `get_term`), and junk recovery / `clampErr` never move
  before the entry start; (2) every iteration of both entry loops starts at a line start: a pattern can only
  end at a line start or EOF (`getPatternLoop_LSE`), `get_attributes` rewinds to one, `get_comment` /
  `skip_comment` end at a line start, at EOF or AT the `\n` of a line end, and `skip_blank_block` turns
  each of those into a line start (`skipBlankBlock_LSE`).

* `C03_admitted_entries_valid…` (second half of this file): every admitted message or term satisfies the
  AST-visible documented rules (`ValidEntry`), for every source and both parsers.

* `C03_containment…` (last section of this file): the containment sentence — damaging one entry of a well-formed
  resource leaves every other message and term parsed exactly as before (`C03_containment`, `C03_containment_runtime`,
  `C03_suffix_independence…`, `C03_prefix_independence…`, `String` corollary `C03_containment_string`).

Not a Lean theorem (checked by the correspondence harness and the property predicate on the
implementation): the three rules the tree cannot show (positional-after-named order, literal-ness of named
values, commas).
-/
namespace FluentProofs.C03
open FluentModel.Syntax

/-- accounting for the full parser, for every source -/
theorem C03_accounting_parse (s : Src) (body : Resource Span) (errs : List PErr)
    (h : parse s = .done (body, errs)) : Acc s body errs :=
  parseLoop_acc s _ _ [] [] none 0 _ (Acc.nil s) body errs h

/-- accounting for the runtime parser, for every source -/
theorem C03_accounting_parseRuntime (s : Src) (body : Resource Span) (errs : List PErr)
    (h : parseRuntime s = .done (body, errs)) : Acc s body errs :=
  parseRuntimeLoop_acc s _ _ [] [] _ (Acc.nil s) body errs h

/-- same number of errors and Junk entries -/
theorem C03_count (s : Src) (body : Resource Span) (errs : List PErr)
    (h : parse s = .done (body, errs)) : errs.length = (junkSpans body).length := by
  have := congrArg List.length (C03_accounting_parse s body errs h).slices
  simpa using this

/-- success is reported exactly when the tree has no Junk (full parser) -/
theorem C03_ok_iff_no_junk_parse (s : Src) (body : Resource Span) (errs : List PErr)
    (h : parse s = .done (body, errs)) : errs = [] ↔ junkSpans body = [] := by
  have := C03_count s body errs h
  constructor
  · intro h'; subst h'; exact List.eq_nil_of_length_eq_zero this.symm
  · intro h'; rw [h'] at this; exact List.eq_nil_of_length_eq_zero this

/-- success is reported exactly when the tree has no Junk (runtime parser) -/
theorem C03_ok_iff_no_junk_parseRuntime (s : Src) (body : Resource Span) (errs : List PErr)
    (h : parseRuntime s = .done (body, errs)) : errs = [] ↔ junkSpans body = [] := by
  have := congrArg List.length (C03_accounting_parseRuntime s body errs h).slices
  simp only [List.length_map] at this
  constructor
  · intro h'; subst h'; exact List.eq_nil_of_length_eq_zero this.symm
  · intro h'; rw [h'] at this; exact List.eq_nil_of_length_eq_zero this

/-- each Junk holds exactly the source text of its error's slice: the i-th error's slice is the span
of the i-th Junk, and that span is what `content` is cut from (`spanBytes s sp`) -/
theorem C03_junk_is_slice (s : Src) (body : Resource Span) (errs : List PErr)
    (h : parse s = .done (body, errs)) (i : Nat) (hi : i < errs.length) :
    ∃ sp, (junkSpans body)[i]? = some sp ∧ errs[i].slice = some (sp.start, sp.stop) ∧
      slice s sp.start sp.stop = some sp := by
  have acc := C03_accounting_parse s body errs h
  have hlen := C03_count s body errs h
  have hi' : i < (junkSpans body).length := by omega
  refine ⟨(junkSpans body)[i], by simp [hi'], ?_, acc.valid _ (List.getElem_mem hi')⟩
  have := congrArg (fun l => l[i]?) acc.slices
  simp [hi, hi'] at this
  exact this

/-- full accounting statement: `Acc`, and every error's slice starts at a line start at or before the
error position (proved below: `C03_full`) -/
def C03_full_statement : Prop :=
  ∀ (s : Src) (body : Resource Span) (errs : List PErr), parse s = .done (body, errs) →
    Acc s body errs ∧
    (∀ e ∈ errs, ∃ a b, e.slice = some (a, b) ∧ a ≤ e.posStart ∧ (a = 0 ∨ s[a - 1]? = some 10))

/-- the same for the runtime parser -/
def C03_full_statement_runtime : Prop :=
  ∀ (s : Src) (body : Resource Span) (errs : List PErr), parseRuntime s = .done (body, errs) →
    Acc s body errs ∧
    (∀ e ∈ errs, ∃ a b, e.slice = some (a, b) ∧ a ≤ e.posStart ∧ (a = 0 ∨ s[a - 1]? = some 10))

/-- **C03 accounting, complete (full parser)**: for every source, errors and Junk correspond one-to-one in
order, each Junk is exactly its error's slice, a valid slice that starts at a line start, ends at the next
entry start (or EOF) and contains the error position. -/
theorem C03_full : C03_full_statement := fun s body errs h =>
  ⟨C03_accounting_parse s body errs h, FluentProofs.Parser.parse_errPos s body errs h⟩

/-- **C03 accounting, complete (runtime parser)** -/
theorem C03_full_runtime : C03_full_statement_runtime := fun s body errs h =>
  ⟨C03_accounting_parseRuntime s body errs h, FluentProofs.Parser.parseRuntime_errPos s body errs h⟩

/-- the error position lies inside the Junk: `slice.start ≤ pos.start ≤ slice.end` (both parsers share `Acc`) -/
theorem C03_pos_in_junk (s : Src) (body : Resource Span) (errs : List PErr) (h : parse s = .done (body, errs)) :
    ∀ e ∈ errs, ∃ a b, e.slice = some (a, b) ∧ a ≤ e.posStart ∧ e.posStart ≤ b := by
  intro e he
  obtain ⟨a, b, h1, h2, _⟩ := (C03_full s body errs h).2 e he
  obtain ⟨a', b', h1', h2', _⟩ := (C03_full s body errs h).1.ends e he
  rw [h1] at h1'; cases h1'
  exact ⟨a, b, h1, h2, h2'⟩

/-- **C03 for every `String`**: both parsers finish (C01) and the complete accounting statement holds. -/
theorem C03_full_string (str : String) :
    (∃ body errs, parse str.toUTF8.data = .done (body, errs) ∧ Acc str.toUTF8.data body errs ∧
      ∀ e ∈ errs, ∃ a b, e.slice = some (a, b) ∧ a ≤ e.posStart ∧ (a = 0 ∨ str.toUTF8.data[a - 1]? = some 10)) ∧
    (∃ body errs, parseRuntime str.toUTF8.data = .done (body, errs) ∧ Acc str.toUTF8.data body errs ∧
      ∀ e ∈ errs, ∃ a b, e.slice = some (a, b) ∧ a ≤ e.posStart ∧ (a = 0 ∨ str.toUTF8.data[a - 1]? = some 10)) := by
  open FluentProofs.Parser in
  have hs := asciiThenBoundary_of_string str
  have hA := skipBlankBlock_after str.toUTF8.data 0
  have hb := hA.bnd hs (bnd_zero _)
  constructor
  · obtain ⟨⟨body, errs⟩, hr, _⟩ : Done str.toUTF8.data (parse str.toUTF8.data) :=
      parseLoop_done hs _ [] [] none 0 _ hb.le hb (by omega) (by simp) (by simp) (by simp)
    exact ⟨body, errs, hr, C03_full _ body errs hr⟩
  · obtain ⟨⟨body, errs⟩, hr, _⟩ : Done str.toUTF8.data (parseRuntime str.toUTF8.data) :=
      parseRuntimeLoop_done hs _ [] [] _ (fun _ => hb) (by omega) (by simp) (by simp)
    exact ⟨body, errs, hr, C03_full_runtime _ body errs hr⟩

/-- non-vacuity (a test, not the unbounded claim): `a = {` newline `b = c` gives one Junk `0..6`,
one error, and the message `b` survives -/
example : (match parse #[97, 32, 61, 32, 123, 10, 98, 32, 61, 32, 99, 10] with
    | .done (body, errs) => errs.length == 1 && junkSpans body == [⟨0, 6⟩] && body.length == 2
    | _ => false) = true := by decide +kernel

/-! ## C03, third sentence: an entry that breaks a documented syntax rule is never admitted

`ValidEntry s e` (`FluentProofs/ParserValid.lean`, decidable) collects the documented rules that are
visible in the tree: exactly one default variant per select; the selector is a literal, variable, function
call or term attribute; no term attribute as a placeable (also nested); a callee is `[A-Z][A-Z0-9_-]*`;
named-argument names are pairwise distinct; string literals contain only the escapes `\\`, `\"`, `\uXXXX`,
`\UXXXXXX`, no raw line feed, no unescaped quote; identifiers are `[a-zA-Z][a-zA-Z0-9_-]*`; numbers are
`-?[0-9]+(\.[0-9]+)?`; text elements contain no brace; every pattern has at least one element; a message has a
value or an attribute.  It is trivially true of comments and Junk, so "every entry of the body is valid"
says exactly "every admitted message or term is valid".  Not covered (the Rust parser is lenient there and
the tree cannot show it): positional-after-named order, literal-ness of named values, commas.

Proof: `FluentProofs/ParserValid{Leaf,Expr,Entry}.lean` — a second pass over every parser function in
partial-correctness style (no hypothesis on the source, the cursor or the fuel), the eight mutually
recursive functions by joint induction on fuel (`VSpecs`). -/

open FluentProofs.Parser in
/-- **C03 (admission), full parser, EVERY byte source**: every message and term in the body satisfies the
AST-visible syntax rules (`ValidEntry` is trivially true for comments and Junk). -/
theorem C03_admitted_entries_valid (s : Src) (body : Resource Span) (errs : List PErr)
    (h : parse s = .done (body, errs)) : ∀ e ∈ body, ValidEntry s e :=
  parse_valid s body errs h

open FluentProofs.Parser in
/-- **C03 (admission), runtime parser, EVERY byte source** -/
theorem C03_admitted_entries_valid_runtime (s : Src) (body : Resource Span) (errs : List PErr)
    (h : parseRuntime s = .done (body, errs)) : ∀ e ∈ body, ValidEntry s e :=
  parseRuntime_valid s body errs h

open FluentProofs.Parser in
/-- the same in the "is a message or a term" form, for either parser -/
theorem C03_admitted_messages_terms_valid (s : Src) (body : Resource Span) (errs : List PErr)
    (h : parse s = .done (body, errs) ∨ parseRuntime s = .done (body, errs)) :
    (∀ m, Entry.message m ∈ body → ValidEntry s (.message m)) ∧ (∀ t, Entry.term t ∈ body → ValidEntry s (.term t)) := by
  rcases h with h | h
  · exact ⟨fun m hm => C03_admitted_entries_valid s body errs h _ hm,
      fun t ht => C03_admitted_entries_valid s body errs h _ ht⟩
  · exact ⟨fun m hm => C03_admitted_entries_valid_runtime s body errs h _ hm,
      fun t ht => C03_admitted_entries_valid_runtime s body errs h _ ht⟩

open FluentProofs.Parser in
/-- **C03 (admission) for every `String`**: both parsers finish (C01) and every admitted entry is valid. -/
theorem C03_admitted_entries_valid_string (str : String) :
    (∃ body errs, parse str.toUTF8.data = .done (body, errs) ∧ ∀ e ∈ body, ValidEntry str.toUTF8.data e) ∧
    (∃ body errs, parseRuntime str.toUTF8.data = .done (body, errs) ∧ ∀ e ∈ body, ValidEntry str.toUTF8.data e) := by
  obtain ⟨⟨b1, e1, h1, _⟩, ⟨b2, e2, h2, _⟩⟩ := C03_full_string str
  exact ⟨⟨b1, e1, h1, C03_admitted_entries_valid _ b1 e1 h1⟩, ⟨b2, e2, h2, C03_admitted_entries_valid_runtime _ b2 e2 h2⟩⟩

open FluentProofs.Parser in
/-- one clause of `ValidEntry` spelled out: a select expression at the top level of an admitted message's
value has exactly one default variant and an admissible selector -/
theorem C03_one_default (s : Src) (body : Resource Span) (errs : List PErr) (h : parse s = .done (body, errs))
    (m : Message Span) (hm : Entry.message m ∈ body) (v : Pattern Span) (hv : m.value = some v)
    (sel : Inline Span) (vs : List (Variant Span)) (hsel : PatElem.placeable (.select sel vs) ∈ v) :
    vs.countP variantDefault = 1 ∧ selectorOk sel = true := by
  have hval : validEntry s (.message m) = true := C03_admitted_entries_valid s body errs h _ hm
  simp only [validEntry, hv, Bool.and_eq_true] at hval
  have hp : vPat s v = true := by
    have := hval.1.1.2
    simp only [patOk, Bool.and_eq_true] at this
    exact this.2
  have : ∀ (l : List (PatElem Span)), vPat s l = true → PatElem.placeable (.select sel vs) ∈ l →
      vExpr s (.select sel vs) = true := by
    intro l
    induction l with
    | nil => intro _ hmem; cases hmem
    | cons x xs ih =>
      intro hl hmem
      simp only [vPat, Bool.and_eq_true] at hl
      rcases List.mem_cons.mp hmem with rfl | hmem
      · simpa [vPatElem] using hl.1
      · exact ih hl.2 hmem
  have hx := this v hp hsel
  simp only [vExpr, Bool.and_eq_true, beq_iff_eq] at hx
  exact ⟨hx.2, hx.1.1.2⟩

/-- test (non-vacuity, not the unbounded claim): a select without a default variant
(`a = { $x ->` / ` [a] b` / ` }`) yields no message — the whole entry is Junk with one error -/
example : (match parse #[97, 32, 61, 32, 123, 32, 36, 120, 32, 45, 62, 10, 32, 91, 97, 93, 32, 98, 10, 32, 125, 10] with
    | .done (body, errs) =>
      errs.length == 1 && body.all (fun e => match e with | .message _ => false | .term _ => false | _ => true)
    | _ => false) = true := by decide +kernel

/-- test: with the default marked (`*[a] b`) the message is admitted, and `validEntry` evaluates to `true` on it -/
example : (let s : Src := #[97, 32, 61, 32, 123, 32, 36, 120, 32, 45, 62, 10, 32, 42, 91, 97, 93, 32, 98, 10, 32, 125, 10]
    match parse s with
    | .done (body, errs) => errs.isEmpty && body.length == 1 && body.all (FluentProofs.Parser.validEntry s)
    | _ => false) = true := by decide +kernel

/-- test: `ValidEntry` is not trivially true — the hand-built message `a = { $x -> [a] b }` without a default,
over the same source, is rejected by the predicate -/
example : (let s : Src := #[97, 32, 61, 32, 123, 32, 36, 120, 32, 45, 62, 10, 32, 91, 97, 93, 32, 98, 10, 32, 125, 10]
    FluentProofs.Parser.validEntry s
      (.message ⟨⟨0, 1⟩, some [.placeable (.select (.var ⟨7, 8⟩) [.mk (.ident ⟨14, 15⟩) [.text ⟨17, 18⟩] false])], [], none⟩))
    = false := by decide +kernel

/-! ## C03, last sentence: containment — damaging one entry leaves every other message and term as before

Setting.  A resource is cut at two line starts into `A ++ X ++ B`:
* `A` — the entries before the damaged one: empty or ending with a line feed (`EndsNl A`), and well-formed
  (`parse A` reports no error);
* `X` — the damaged entry: ANY byte string that ends with a line feed and whose first byte is a `stopByte`, i.e. anything
  but a space, LF, CR, `#`, `.`, `{` or a UTF-8 continuation byte (`Damage X`; a letter or `-` in particular, but also a
  damaged first byte such as a digit or `}`; everything after the first byte is arbitrary — every kind of damage at every
  placement — and `X` may span any number of lines);
* `B` — the text after it: it starts, at column 0, with an entry head (`Head B`: a letter or `-`, then only
  identifier bytes `[a-zA-Z0-9_-]` and spaces up to an `=`; `identifier blank_inline* "="` and
  `"-" identifier blank_inline* "="` are of this form).  NOTHING else is assumed about `B` (it may itself contain errors).

Excluded, and why: an `X` or `B` that starts with `#` (comment blocks merge, a comment attaches to the next message), an
`X` that starts with a space, line break, `.` or `{` (such a line continues the pattern / attribute list of the entry
before it: it is damage to THAT entry), and an `A` whose own parse has errors (its junk recovery may already depend on
what follows).

Claim (`C03_containment`): the body of `parse (A ++ X ++ B)` is `body' ++ mid ++ B'` where `body'` depends on `A` only (it
is `A`'s body; a trailing standalone comment of `A`, still pending when `X` begins, is the `lc'` of
`bodyA = body' ++ flushC lc'`), `mid` is whatever `X` produced, and `B'` is EXACTLY the body of `parse B` with every
position moved by `|A| + |X|` — except that a comment pending at the end of `X` is attached to / put before `B`'s first
entry (`attachO`; `lc = none` when `X` does not end in a comment).  The error list is: errors of the `X` region, then the
errors of `parse B`, moved; the Junk spans and error slices of the `X` region lie inside `[|A|, |A| + |X|]`.  Same for `parseRuntime` without the comment caveats.  So two different damages `X`, `X'` of the
same entry give the same entries from `A`, and the same entries from `B` up to the shift `|X'| - |X|`
(`C03_containment_msgsTerms`).  No hypothesis on fuel: the statement is for every byte source on which the parsers finish;
for `String`s they always do (`C03_containment_string`).

Proof (`FluentProofs/ParserLocal*.lean`, three joint inductions over all parser functions):
* shift (`parseLoop_shift`): on `P ++ s` from cursor `|P| + p` every function does what it does on `s` from `p`, moved by `|P|`;
* barrier (`parseLoop_reach`): with an entry head at line start `n`, no function started before `n` gets past the `=`; a
  successful entry ends `≤ n`, a failing one reports a cursor `≤` the `=`, and junk recovery (which rewinds to the start of
  the line holding the error) stops at `n`: the entry loop arrives at `n` exactly, whatever precedes;
* prefix (`parseLoop_prefix`): a successful entry-level run on `A` is reproduced verbatim on `A ++ Z` when `Z` starts with a
  `stopByte` — peeking such a byte at a line start is the same as peeking the end of input. -/

open FluentProofs.Parser in
/-- the containment statement (proved below: `C03_containment`) -/
def C03_containment_statement : Prop :=
  ∀ (A : Src), EndsNl A → ∀ bodyA : Resource Span, parse A = .done (bodyA, []) →
    ∃ body' lc', bodyA = body' ++ flushC lc' ∧
      ∀ X B : Src, Damage X → Head B → ∀ r rB, parse (A ++ X ++ B) = .done r → parse B = .done rB →
        ∃ mid errsMid lc cnt,
          r = (body' ++ mid ++ attachO lc cnt (rB.1.map (shEntry (A.size + X.size))),
               errsMid ++ rB.2.map (shErr (A.size + X.size))) ∧
          (∀ sp ∈ junkSpans mid, A.size ≤ sp.start ∧ sp.stop ≤ A.size + X.size) ∧
          (∀ e ∈ errsMid, ∃ a b, e.slice = some (a, b) ∧ A.size ≤ a ∧ b ≤ A.size + X.size)

open FluentProofs.Parser in
/-- **C03 containment (full parser), every byte source on which `parse` finishes.** -/
theorem C03_containment : C03_containment_statement :=
  fun _ hA _ hpA => parse_containment hA hpA

open FluentProofs.Parser in
/-- **C03 containment (runtime parser)**: the body of `parseRuntime (A ++ X ++ B)` is the body of `parseRuntime A`, then what
`X` produced, then the body of `parseRuntime B` moved by `|A| + |X|`; the errors are those of the `X` region, then those of
`B`, moved. -/
theorem C03_containment_runtime {A X B : Src} (hA : EndsNl A) (hX : Damage X) (hB : Head B)
    {bodyA : Resource Span} {r rB : Resource Span × List PErr}
    (hpA : parseRuntime A = .done (bodyA, [])) (hpB : parseRuntime B = .done rB)
    (h : parseRuntime (A ++ X ++ B) = .done r) :
    ∃ mid errsMid,
      r = (bodyA ++ mid ++ rB.1.map (shEntry (A.size + X.size)), errsMid ++ rB.2.map (shErr (A.size + X.size))) ∧
      (∀ sp ∈ junkSpans mid, A.size ≤ sp.start ∧ sp.stop ≤ A.size + X.size) ∧
      (∀ e ∈ errsMid, ∃ a b, e.slice = some (a, b) ∧ A.size ≤ a ∧ b ≤ A.size + X.size) :=
  parseRuntime_containment hA hpA hX hB h hpB

open FluentProofs.Parser in
/-- **suffix independence (full parser)**: `P` is ANY byte string that is empty or ends with a line feed (no
well-formedness assumed: `P` = the entries before + the damaged entry), `B` starts with an entry head.  The parse of
`P ++ B` is some entries / errors produced inside `P` (Junk spans and error slices end at or before `|P|`), followed by
exactly the parse of `B` moved by `|P|` (a comment pending at the end of `P` attached to `B`'s first entry). -/
theorem C03_suffix_independence {P B : Src} (hP : EndsNl P) (hB : Head B) {r rB : Resource Span × List PErr}
    (h : parse (P ++ B) = .done r) (hpB : parse B = .done rB) :
    ∃ pre preErrs lc cnt,
      r = (pre ++ attachO lc cnt (rB.1.map (shEntry P.size)), preErrs ++ rB.2.map (shErr P.size)) ∧
      (∀ sp ∈ junkSpans pre, sp.stop ≤ P.size) ∧
      (∀ e ∈ preErrs, ∃ a b, e.slice = some (a, b) ∧ b ≤ P.size) :=
  parse_suffix hP hB h hpB

open FluentProofs.Parser in
/-- **suffix independence (runtime parser)** -/
theorem C03_suffix_independence_runtime {P B : Src} (hP : EndsNl P) (hB : Head B) {r rB : Resource Span × List PErr}
    (h : parseRuntime (P ++ B) = .done r) (hpB : parseRuntime B = .done rB) :
    ∃ pre preErrs, r = (pre ++ rB.1.map (shEntry P.size), preErrs ++ rB.2.map (shErr P.size)) ∧
      (∀ sp ∈ junkSpans pre, sp.stop ≤ P.size) ∧
      (∀ e ∈ preErrs, ∃ a b, e.slice = some (a, b) ∧ b ≤ P.size) :=
  parseRuntime_suffix hP hB h hpB

open FluentProofs.Parser in
/-- **prefix independence (full parser)**: a well-formed `A` gives the same entries `body'` in front of EVERY continuation
`Z` that is empty or starts with a `stopByte` (e.g. a letter or `-`); everything else in the parse of `A ++ Z` is produced by the entry loop
started at `|A|` (with `A`'s trailing standalone comment `lc'`, if any, still pending).  With `Z = X` this is the containment
statement for a damaged LAST entry. -/
theorem C03_prefix_independence {A : Src} (hA : EndsNl A) {bodyA : Resource Span} (hpA : parse A = .done (bodyA, [])) :
    ∃ body' lc', bodyA = body' ++ flushC lc' ∧
      ∀ Z : Src, StopOrEmpty Z → ∀ r, parse (A ++ Z) = .done r →
        ∃ N cnt r₀, parseLoop (A ++ Z) (exprFuel (A ++ Z)) N [] [] lc' cnt A.size = .done r₀ ∧
          r = (body' ++ r₀.1, r₀.2) :=
  parse_prefix hA hpA

open FluentProofs.Parser in
/-- **prefix independence (runtime parser)** -/
theorem C03_prefix_independence_runtime {A : Src} (hA : EndsNl A) {bodyA : Resource Span}
    (hpA : parseRuntime A = .done (bodyA, [])) {Z : Src} (hZ : StopOrEmpty Z) {r : Resource Span × List PErr}
    (h : parseRuntime (A ++ Z) = .done r) :
    ∃ N r₀, parseRuntimeLoop (A ++ Z) (exprFuel (A ++ Z)) N [] [] A.size = .done r₀ ∧ r = (bodyA ++ r₀.1, r₀.2) :=
  parseRuntime_prefix hA hpA hZ h

open FluentProofs.Parser in
/-- **two damages of the same entry, messages and terms only** (`msgsTerms` drops comments and Junk and strips attached
comments): both parses have the messages/terms of `A`, then those of the damaged region, then those of `B` — identical up
to the shift `|A| + |X|` vs `|A| + |X'|`. -/
theorem C03_containment_msgsTerms {A X X' B : Src} (hA : EndsNl A) (hX : Damage X) (hX' : Damage X') (hB : Head B)
    {bodyA : Resource Span} {r r' rB : Resource Span × List PErr}
    (hpA : parse A = .done (bodyA, [])) (hpB : parse B = .done rB)
    (h : parse (A ++ X ++ B) = .done r) (h' : parse (A ++ X' ++ B) = .done r') :
    ∃ mid mid' : List (Entry Span),
      msgsTerms r.1 = msgsTerms bodyA ++ mid ++ (msgsTerms rB.1).map (shEntry (A.size + X.size)) ∧
      msgsTerms r'.1 = msgsTerms bodyA ++ mid' ++ (msgsTerms rB.1).map (shEntry (A.size + X'.size)) := by
  obtain ⟨body', lc', heq, H⟩ := parse_containment hA hpA
  obtain ⟨mid, em, lc, cnt, rfl, _⟩ := H X B hX hB r rB h hpB
  obtain ⟨mid', em', lc2, cnt2, rfl, _⟩ := H X' B hX' hB r' rB h' hpB
  refine ⟨msgsTerms mid, msgsTerms mid', ?_, ?_⟩ <;>
    simp only [heq, msgsTerms_append, msgsTerms_flushC, msgsTerms_attachO, msgsTerms_map_sh, List.append_nil]

/-- the UTF-8 bytes of a concatenation -/
theorem toUTF8_append3 (A X B : String) :
    (A ++ X ++ B).toUTF8.data = A.toUTF8.data ++ X.toUTF8.data ++ B.toUTF8.data := by
  simp [String.toUTF8, String.toByteArray_append, ByteArray.data_append]

open FluentProofs.Parser in
/-- **C03 containment for `String`s**: all three parses finish (C01); if `A` is well-formed, the parse of `A ++ X ++ B` is
`A`'s entries, the damaged region's entries (its Junk and errors located inside the region), and exactly `B`'s parse moved
by `|A| + |X|` bytes. -/
theorem C03_containment_string (A X B : String) (hA : EndsNl A.toUTF8.data) (hX : Damage X.toUTF8.data)
    (hB : Head B.toUTF8.data) (hok : ∃ bodyA, parse A.toUTF8.data = .done (bodyA, [])) :
    ∃ bodyA rB r mid errsMid lc cnt body' lc',
      parse A.toUTF8.data = .done (bodyA, []) ∧ parse B.toUTF8.data = .done rB ∧
      parse (A ++ X ++ B).toUTF8.data = .done r ∧ bodyA = body' ++ flushC lc' ∧
      r = (body' ++ mid ++ attachO lc cnt (rB.1.map (shEntry (A.toUTF8.data.size + X.toUTF8.data.size))),
           errsMid ++ rB.2.map (shErr (A.toUTF8.data.size + X.toUTF8.data.size))) ∧
      (∀ sp ∈ junkSpans mid, A.toUTF8.data.size ≤ sp.start ∧ sp.stop ≤ A.toUTF8.data.size + X.toUTF8.data.size) ∧
      (∀ e ∈ errsMid, ∃ a b, e.slice = some (a, b) ∧ A.toUTF8.data.size ≤ a ∧
        b ≤ A.toUTF8.data.size + X.toUTF8.data.size) := by
  obtain ⟨bodyA, hpA⟩ := hok
  obtain ⟨⟨bB, eB, hpB, _⟩, _⟩ := C03_full_string B
  obtain ⟨⟨b, e, hp, _⟩, _⟩ := C03_full_string (A ++ X ++ B)
  obtain ⟨body', lc', heq, H⟩ := parse_containment hA hpA
  rw [toUTF8_append3] at hp
  obtain ⟨mid, em, lc, cnt, hr⟩ := H _ _ hX hB (b, e) (bB, eB) hp hpB
  exact ⟨bodyA, (bB, eB), (b, e), mid, em, lc, cnt, body', lc', hpA, hpB, by rw [toUTF8_append3]; exact hp, heq, hr⟩

/-! ### non-vacuity (tests on literals, not the unbounded claim)

`a = 1⏎`, then `b = { $x ->⏎ [one] x⏎ }⏎` (a select without default variant: the damaged entry), then `c = 3⏎`. -/

/-- `a = 1⏎` -/
def exA : Src := #[97,32,61,32,49,10]
/-- `b = { $x ->⏎ [one] x⏎ }⏎` -/
def exX : Src := #[98,32,61,32,123,32,36,120,32,45,62,10, 32,91,111,110,101,93,32,120,10, 32,125,10]
/-- the undamaged `b = 2⏎` -/
def exY : Src := #[98,32,61,32,50,10]
/-- `c = 3⏎` -/
def exB : Src := #[99,32,61,32,51,10]

open FluentProofs.Parser in
theorem exA_endsNl : EndsNl exA := Or.inr (by decide +kernel)
open FluentProofs.Parser in
theorem exX_damage : Damage exX := ⟨⟨98, by decide +kernel, by decide +kernel⟩, by decide +kernel⟩
open FluentProofs.Parser in
theorem exY_damage : Damage exY := ⟨⟨98, by decide +kernel, by decide +kernel⟩, by decide +kernel⟩

/-- `1b = 2⏎`: the FIRST byte of the entry damaged (an identifier cannot start with a digit) -/
def exZ : Src := #[49,98,32,61,32,50,10]
open FluentProofs.Parser in
theorem exZ_damage : Damage exZ := ⟨⟨49, by decide +kernel, by decide +kernel⟩, by decide +kernel⟩
open FluentProofs.Parser in
theorem exB_head : Head exB := by
  refine ⟨2, Or.inl rfl, by decide, ⟨99, by decide +kernel, by decide⟩, ?_, by decide +kernel⟩
  intro i _ h2
  have : i = 0 ∨ i = 1 := by omega
  rcases this with rfl | rfl
  · exact ⟨99, by decide +kernel, Or.inl (by decide)⟩
  · exact ⟨32, by decide +kernel, Or.inr rfl⟩

/-- test: the damaged resource parses to message `a`, ONE Junk `6..30` (exactly the damaged entry), message `c` at `30..` -/
example : (match parse (exA ++ exX ++ exB) with
    | .done ([.message ⟨⟨0, 1⟩, some [.text ⟨4, 5⟩], [], none⟩, .junk ⟨6, 30⟩,
              .message ⟨⟨30, 31⟩, some [.text ⟨34, 35⟩], [], none⟩], [e]) => e.slice == some (6, 30)
    | _ => false) = true := by decide +kernel

/-- test: the undamaged resource: `a`, `b`, and `c` at `12..` — the same `c` moved by `|X'| - |X| = -18` -/
example : (match parse (exA ++ exY ++ exB) with
    | .done ([.message ⟨⟨0, 1⟩, some [.text ⟨4, 5⟩], [], none⟩, .message ⟨⟨6, 7⟩, some [.text ⟨10, 11⟩], [], none⟩,
              .message ⟨⟨12, 13⟩, some [.text ⟨16, 17⟩], [], none⟩], []) => true
    | _ => false) = true := by decide +kernel

/-- test: damage to the first byte (`1b = 2`): `a`, ONE Junk `6..13`, and `c` at `13..` -/
example : (match parse (exA ++ exZ ++ exB) with
    | .done ([.message ⟨⟨0, 1⟩, some [.text ⟨4, 5⟩], [], none⟩, .junk ⟨6, 13⟩,
              .message ⟨⟨13, 14⟩, some [.text ⟨17, 18⟩], [], none⟩], [e]) => e.slice == some (6, 13)
    | _ => false) = true := by decide +kernel

open FluentProofs.Parser in
/-- test: the hypotheses of `C03_containment_msgsTerms` are satisfiable — instantiated on the literals above it yields that
both parses have message `a` first and message `c` last (at `30..` resp. `12..`). -/
example : ∃ (r r' : Resource Span × List PErr) (mid mid' : List (Entry Span)),
    parse (exA ++ exX ++ exB) = .done r ∧ parse (exA ++ exY ++ exB) = .done r' ∧
    msgsTerms r.1 = [.message ⟨⟨0, 1⟩, some [.text ⟨4, 5⟩], [], none⟩] ++ mid ++
      [.message ⟨⟨30, 31⟩, some [.text ⟨34, 35⟩], [], none⟩] ∧
    msgsTerms r'.1 = [.message ⟨⟨0, 1⟩, some [.text ⟨4, 5⟩], [], none⟩] ++ mid' ++
      [.message ⟨⟨12, 13⟩, some [.text ⟨16, 17⟩], [], none⟩] := by
  have hA : parse exA = .done ([.message ⟨⟨0, 1⟩, some [.text ⟨4, 5⟩], [], none⟩], []) := by with_unfolding_all rfl
  have hB : parse exB = .done ([.message ⟨⟨0, 1⟩, some [.text ⟨4, 5⟩], [], none⟩], []) := by with_unfolding_all rfl
  have fin : ∀ s : Src, (match parse s with | .done _ => true | _ => false) = true → ∃ r, parse s = .done r := by
    intro s h
    cases hp : parse s with
    | done r => exact ⟨r, rfl⟩
    | panic m => rw [hp] at h; cases h
    | outOfFuel => rw [hp] at h; cases h
  obtain ⟨r, hr⟩ := fin (exA ++ exX ++ exB) (by decide +kernel)
  obtain ⟨r', hr'⟩ := fin (exA ++ exY ++ exB) (by decide +kernel)
  obtain ⟨mid, mid', h1, h2⟩ := C03_containment_msgsTerms exA_endsNl exX_damage exY_damage exB_head hA hB hr hr'
  exact ⟨r, r', mid, mid', hr, hr', h1, h2⟩

end FluentProofs.C03
