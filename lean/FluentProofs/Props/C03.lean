import FluentProofs.ParserLoops
/-!
# C03 — syntax errors are contained: Junk accounting and per-entry recovery

Model: `FluentModel.Syntax.parse` / `parseRuntime` (transcription of `Parser::parse`,
`Parser::parse_runtime`, validated against the implementation on every run).
All theorems are for EVERY source `s` (any byte array).

Proved here (accounting part of the property, both parsers):
* `C03_accounting…`: errors and Junk entries correspond one-to-one in source order; each error's
  `slice` is exactly its Junk's span; every Junk span is a valid slice of the source (in range and
  on character boundaries — otherwise the Rust slicing would have panicked); the reported position
  is not beyond the Junk's end; the Junk ends at the end of input or at a line-initial entry-start
  byte (`[a-zA-Z]`, `-`, `#`).
* `C03_ok_iff_no_junk…`: the error list is empty exactly when the tree has no Junk
  (the Rust API returns `Ok` exactly when the error list is empty).

Not yet a theorem (kept visible, checked by the correspondence harness and the property predicate on the
implementation): `C03_full_statement` — Junk starts at a line start and `slice.start ≤ pos.start`
(needs the per-function cursor lemmas of C01), every admitted entry satisfies the documented rules,
and containment of a damaged entry.
-/
namespace FluentProofs.C03
open FluentModel.Syntax

/-- accounting for the full parser, for every source -/
theorem C03_accounting_parse (s : Src) (body : Resource Span) (errs : List PErr)
    (h : parse s = .done (body, errs)) : Acc s body errs :=
  parseLoop_acc s _ _ [] [] none 0 _ (Acc.nil s) body errs h

/-- accounting for the runtime parser, for every source -/
theorem C03_accounting_parseRuntime (s : Src) (body : Resource Span) (errs : List PErr)
    (h : parseRuntime s = .done (body, errs)) : Acc s body errs :=
  parseRuntimeLoop_acc s _ _ [] [] _ (Acc.nil s) body errs h

/-- same number of errors and Junk entries -/
theorem C03_count (s : Src) (body : Resource Span) (errs : List PErr)
    (h : parse s = .done (body, errs)) : errs.length = (junkSpans body).length := by
  have := congrArg List.length (C03_accounting_parse s body errs h).slices
  simpa using this

/-- success is reported exactly when the tree has no Junk (full parser) -/
theorem C03_ok_iff_no_junk_parse (s : Src) (body : Resource Span) (errs : List PErr)
    (h : parse s = .done (body, errs)) : errs = [] ↔ junkSpans body = [] := by
  have := C03_count s body errs h
  constructor
  · intro h'; subst h'; exact List.eq_nil_of_length_eq_zero this.symm
  · intro h'; rw [h'] at this; exact List.eq_nil_of_length_eq_zero this

/-- success is reported exactly when the tree has no Junk (runtime parser) -/
theorem C03_ok_iff_no_junk_parseRuntime (s : Src) (body : Resource Span) (errs : List PErr)
    (h : parseRuntime s = .done (body, errs)) : errs = [] ↔ junkSpans body = [] := by
  have := congrArg List.length (C03_accounting_parseRuntime s body errs h).slices
  simp only [List.length_map] at this
  constructor
  · intro h'; subst h'; exact List.eq_nil_of_length_eq_zero this.symm
  · intro h'; rw [h'] at this; exact List.eq_nil_of_length_eq_zero this

/-- each Junk holds exactly the source text of its error's slice: the i-th error's slice is the span
of the i-th Junk, and that span is what `content` is cut from (`spanBytes s sp`) -/
theorem C03_junk_is_slice (s : Src) (body : Resource Span) (errs : List PErr)
    (h : parse s = .done (body, errs)) (i : Nat) (hi : i < errs.length) :
    ∃ sp, (junkSpans body)[i]? = some sp ∧ errs[i].slice = some (sp.start, sp.stop) ∧
      slice s sp.start sp.stop = some sp := by
  have acc := C03_accounting_parse s body errs h
  have hlen := C03_count s body errs h
  have hi' : i < (junkSpans body).length := by omega
  refine ⟨(junkSpans body)[i], by simp [hi'], ?_, acc.valid _ (List.getElem_mem hi')⟩
  have := congrArg (fun l => l[i]?) acc.slices
  simp [hi, hi'] at this
  exact this

/-- the part of the property not yet proved as a theorem (see the header) -/
def C03_full_statement : Prop :=
  ∀ (s : Src) (body : Resource Span) (errs : List PErr), parse s = .done (body, errs) →
    Acc s body errs ∧
    (∀ e ∈ errs, ∃ a b, e.slice = some (a, b) ∧ a ≤ e.posStart ∧ (a = 0 ∨ s[a - 1]? = some 10))

/-- non-vacuity (a test, not the unbounded claim): `a = {` newline `b = c` gives one Junk `0..6`,
one error, and the message `b` survives -/
example : (match parse #[97, 32, 61, 32, 123, 10, 98, 32, 61, 32, 99, 10] with
    | .done (body, errs) => errs.length == 1 && junkSpans body == [⟨0, 6⟩] && body.length == 2
    | _ => false) = true := by decide +kernel

end FluentProofs.C03
