import FluentProofs.ConstTieSyntax
import FluentProofs.ParserLines
import FluentProofs.ParserValid
import FluentProofs.ParserValidEntry
/-!
# C03 — syntax errors are contained: Junk accounting and per-entry recovery

Model: `FluentModel.Syntax.parse` / `parseRuntime` (transcription of `Parser::parse`,
`Parser::parse_runtime`, validated against the implementation on every run).
All theorems are for EVERY source `s` (any byte array).

Proved here (accounting part of the property, both parsers):
* `C03_accounting…`: errors and Junk entries correspond one-to-one in source order; each error's
  `slice` is exactly its Junk's span; every Junk span is a valid slice of the source (in range and
  on character boundaries — otherwise the Rust slicing would have panicked); the reported position
  is not beyond the Junk's end; the Junk ends at the end of input or at a line-initial entry-start
  byte (`[a-zA-Z]`, `-`, `#`).
* `C03_ok_iff_no_junk…`: the error list is empty exactly when the tree has no Junk
  (the Rust API returns `Ok` exactly when the error list is empty).

* `C03_full` (= `C03_full_statement`, for EVERY byte source on which `parse` finishes; `C03_full_string` for every
  `String`, where it always finishes) and `C03_full_runtime`: in addition every error's slice `a..b`
  starts at a line start (`a = 0` or the byte before `a` is `\n`) and `a ≤ pos.start` — so together with
  `Acc.ends` the Junk range contains the error position, starts at a line start and ends where the next entry
  begins.  Proof (`FluentProofs/ParserLines.lean`): (1) `Mono` — every cursor and every error position
  produced by a parser function started at `p` is `≥ p` (all eight mutually recursive functions, by
  induction on fuel; `get_comment`, `get_message`, `get_term`), and junk recovery / `clampErr` never move
  before the entry start; (2) every iteration of both entry loops starts at a line start: a pattern can only
  end at a line start or EOF (`getPatternLoop_LSE`), `get_attributes` rewinds to one, `get_comment` /
  `skip_comment` end at a line start, at EOF or AT the `\n` of a line end, and `skip_blank_block` turns
  each of those into a line start (`skipBlankBlock_LSE`).

* `C03_admitted_entries_valid…` (second half of this file): every admitted message or term satisfies the
  AST-visible documented rules (`ValidEntry`), for every source and both parsers.

Not a Lean theorem (checked by the correspondence harness and the property predicate on the
implementation): containment of a damaged entry (every OTHER entry parses exactly as before), and the three
rules the tree cannot show (positional-after-named order, literal-ness of named values, commas).
-/
namespace FluentProofs.C03
open FluentModel.Syntax

/-- accounting for the full parser, for every source -/
theorem C03_accounting_parse (s : Src) (body : Resource Span) (errs : List PErr)
    (h : parse s = .done (body, errs)) : Acc s body errs :=
  parseLoop_acc s _ _ [] [] none 0 _ (Acc.nil s) body errs h

/-- accounting for the runtime parser, for every source -/
theorem C03_accounting_parseRuntime (s : Src) (body : Resource Span) (errs : List PErr)
    (h : parseRuntime s = .done (body, errs)) : Acc s body errs :=
  parseRuntimeLoop_acc s _ _ [] [] _ (Acc.nil s) body errs h

/-- same number of errors and Junk entries -/
theorem C03_count (s : Src) (body : Resource Span) (errs : List PErr)
    (h : parse s = .done (body, errs)) : errs.length = (junkSpans body).length := by
  have := congrArg List.length (C03_accounting_parse s body errs h).slices
  simpa using this

/-- success is reported exactly when the tree has no Junk (full parser) -/
theorem C03_ok_iff_no_junk_parse (s : Src) (body : Resource Span) (errs : List PErr)
    (h : parse s = .done (body, errs)) : errs = [] ↔ junkSpans body = [] := by
  have := C03_count s body errs h
  constructor
  · intro h'; subst h'; exact List.eq_nil_of_length_eq_zero this.symm
  · intro h'; rw [h'] at this; exact List.eq_nil_of_length_eq_zero this

/-- success is reported exactly when the tree has no Junk (runtime parser) -/
theorem C03_ok_iff_no_junk_parseRuntime (s : Src) (body : Resource Span) (errs : List PErr)
    (h : parseRuntime s = .done (body, errs)) : errs = [] ↔ junkSpans body = [] := by
  have := congrArg List.length (C03_accounting_parseRuntime s body errs h).slices
  simp only [List.length_map] at this
  constructor
  · intro h'; subst h'; exact List.eq_nil_of_length_eq_zero this.symm
  · intro h'; rw [h'] at this; exact List.eq_nil_of_length_eq_zero this

/-- each Junk holds exactly the source text of its error's slice: the i-th error's slice is the span
of the i-th Junk, and that span is what `content` is cut from (`spanBytes s sp`) -/
theorem C03_junk_is_slice (s : Src) (body : Resource Span) (errs : List PErr)
    (h : parse s = .done (body, errs)) (i : Nat) (hi : i < errs.length) :
    ∃ sp, (junkSpans body)[i]? = some sp ∧ errs[i].slice = some (sp.start, sp.stop) ∧
      slice s sp.start sp.stop = some sp := by
  have acc := C03_accounting_parse s body errs h
  have hlen := C03_count s body errs h
  have hi' : i < (junkSpans body).length := by omega
  refine ⟨(junkSpans body)[i], by simp [hi'], ?_, acc.valid _ (List.getElem_mem hi')⟩
  have := congrArg (fun l => l[i]?) acc.slices
  simp [hi, hi'] at this
  exact this

/-- full accounting statement: `Acc`, and every error's slice starts at a line start at or before the
error position (proved below: `C03_full`) -/
def C03_full_statement : Prop :=
  ∀ (s : Src) (body : Resource Span) (errs : List PErr), parse s = .done (body, errs) →
    Acc s body errs ∧
    (∀ e ∈ errs, ∃ a b, e.slice = some (a, b) ∧ a ≤ e.posStart ∧ (a = 0 ∨ s[a - 1]? = some 10))

/-- the same for the runtime parser -/
def C03_full_statement_runtime : Prop :=
  ∀ (s : Src) (body : Resource Span) (errs : List PErr), parseRuntime s = .done (body, errs) →
    Acc s body errs ∧
    (∀ e ∈ errs, ∃ a b, e.slice = some (a, b) ∧ a ≤ e.posStart ∧ (a = 0 ∨ s[a - 1]? = some 10))

/-- **C03 accounting, complete (full parser)**: for every source, errors and Junk correspond one-to-one in
order, each Junk is exactly its error's slice, a valid slice that starts at a line start, ends at the next
entry start (or EOF) and contains the error position. -/
theorem C03_full : C03_full_statement := fun s body errs h =>
  ⟨C03_accounting_parse s body errs h, FluentProofs.Parser.parse_errPos s body errs h⟩

/-- **C03 accounting, complete (runtime parser)** -/
theorem C03_full_runtime : C03_full_statement_runtime := fun s body errs h =>
  ⟨C03_accounting_parseRuntime s body errs h, FluentProofs.Parser.parseRuntime_errPos s body errs h⟩

/-- the error position lies inside the Junk: `slice.start ≤ pos.start ≤ slice.end` (both parsers share `Acc`) -/
theorem C03_pos_in_junk (s : Src) (body : Resource Span) (errs : List PErr) (h : parse s = .done (body, errs)) :
    ∀ e ∈ errs, ∃ a b, e.slice = some (a, b) ∧ a ≤ e.posStart ∧ e.posStart ≤ b := by
  intro e he
  obtain ⟨a, b, h1, h2, _⟩ := (C03_full s body errs h).2 e he
  obtain ⟨a', b', h1', h2', _⟩ := (C03_full s body errs h).1.ends e he
  rw [h1] at h1'; cases h1'
  exact ⟨a, b, h1, h2, h2'⟩

/-- **C03 for every `String`**: both parsers finish (C01) and the complete accounting statement holds. -/
theorem C03_full_string (str : String) :
    (∃ body errs, parse str.toUTF8.data = .done (body, errs) ∧ Acc str.toUTF8.data body errs ∧
      ∀ e ∈ errs, ∃ a b, e.slice = some (a, b) ∧ a ≤ e.posStart ∧ (a = 0 ∨ str.toUTF8.data[a - 1]? = some 10)) ∧
    (∃ body errs, parseRuntime str.toUTF8.data = .done (body, errs) ∧ Acc str.toUTF8.data body errs ∧
      ∀ e ∈ errs, ∃ a b, e.slice = some (a, b) ∧ a ≤ e.posStart ∧ (a = 0 ∨ str.toUTF8.data[a - 1]? = some 10)) := by
  open FluentProofs.Parser in
  have hs := asciiThenBoundary_of_string str
  have hA := skipBlankBlock_after str.toUTF8.data 0
  have hb := hA.bnd hs (bnd_zero _)
  constructor
  · obtain ⟨⟨body, errs⟩, hr, _⟩ : Done str.toUTF8.data (parse str.toUTF8.data) :=
      parseLoop_done hs _ [] [] none 0 _ hb.le hb (by omega) (by simp) (by simp) (by simp)
    exact ⟨body, errs, hr, C03_full _ body errs hr⟩
  · obtain ⟨⟨body, errs⟩, hr, _⟩ : Done str.toUTF8.data (parseRuntime str.toUTF8.data) :=
      parseRuntimeLoop_done hs _ [] [] _ (fun _ => hb) (by omega) (by simp) (by simp)
    exact ⟨body, errs, hr, C03_full_runtime _ body errs hr⟩

/-- non-vacuity (a test, not the unbounded claim): `a = {` newline `b = c` gives one Junk `0..6`,
one error, and the message `b` survives -/
example : (match parse #[97, 32, 61, 32, 123, 10, 98, 32, 61, 32, 99, 10] with
    | .done (body, errs) => errs.length == 1 && junkSpans body == [⟨0, 6⟩] && body.length == 2
    | _ => false) = true := by decide +kernel

/-! ## C03, third sentence: an entry that breaks a documented syntax rule is never admitted

`ValidEntry s e` (`FluentProofs/ParserValid.lean`, decidable) collects the documented rules that are
visible in the tree: exactly one default variant per select; the selector is a literal, variable, function
call or term attribute; no term attribute as a placeable (also nested); a callee is `[A-Z][A-Z0-9_-]*`;
named-argument names are pairwise distinct; string literals contain only the escapes `\\`, `\"`, `\uXXXX`,
`\UXXXXXX`, no raw line feed, no unescaped quote; identifiers are `[a-zA-Z][a-zA-Z0-9_-]*`; numbers are
`-?[0-9]+(\.[0-9]+)?`; text elements contain no brace; every pattern has at least one element; a message has a
value or an attribute.  It is trivially true of comments and Junk, so "every entry of the body is valid"
says exactly "every admitted message or term is valid".  Not covered (the Rust parser is lenient there and
the tree cannot show it): positional-after-named order, literal-ness of named values, commas.

Proof: `FluentProofs/ParserValid{Leaf,Expr,Entry}.lean` — a second pass over every parser function in
partial-correctness style (no hypothesis on the source, the cursor or the fuel), the eight mutually
recursive functions by joint induction on fuel (`VSpecs`). -/

open FluentProofs.Parser in
/-- **C03 (admission), full parser, EVERY byte source**: every message and term in the body satisfies the
AST-visible syntax rules (`ValidEntry` is trivially true for comments and Junk). -/
theorem C03_admitted_entries_valid (s : Src) (body : Resource Span) (errs : List PErr)
    (h : parse s = .done (body, errs)) : ∀ e ∈ body, ValidEntry s e :=
  parse_valid s body errs h

open FluentProofs.Parser in
/-- **C03 (admission), runtime parser, EVERY byte source** -/
theorem C03_admitted_entries_valid_runtime (s : Src) (body : Resource Span) (errs : List PErr)
    (h : parseRuntime s = .done (body, errs)) : ∀ e ∈ body, ValidEntry s e :=
  parseRuntime_valid s body errs h

open FluentProofs.Parser in
/-- the same in the "is a message or a term" form, for either parser -/
theorem C03_admitted_messages_terms_valid (s : Src) (body : Resource Span) (errs : List PErr)
    (h : parse s = .done (body, errs) ∨ parseRuntime s = .done (body, errs)) :
    (∀ m, Entry.message m ∈ body → ValidEntry s (.message m)) ∧ (∀ t, Entry.term t ∈ body → ValidEntry s (.term t)) := by
  rcases h with h | h
  · exact ⟨fun m hm => C03_admitted_entries_valid s body errs h _ hm,
      fun t ht => C03_admitted_entries_valid s body errs h _ ht⟩
  · exact ⟨fun m hm => C03_admitted_entries_valid_runtime s body errs h _ hm,
      fun t ht => C03_admitted_entries_valid_runtime s body errs h _ ht⟩

open FluentProofs.Parser in
/-- **C03 (admission) for every `String`**: both parsers finish (C01) and every admitted entry is valid. -/
theorem C03_admitted_entries_valid_string (str : String) :
    (∃ body errs, parse str.toUTF8.data = .done (body, errs) ∧ ∀ e ∈ body, ValidEntry str.toUTF8.data e) ∧
    (∃ body errs, parseRuntime str.toUTF8.data = .done (body, errs) ∧ ∀ e ∈ body, ValidEntry str.toUTF8.data e) := by
  obtain ⟨⟨b1, e1, h1, _⟩, ⟨b2, e2, h2, _⟩⟩ := C03_full_string str
  exact ⟨⟨b1, e1, h1, C03_admitted_entries_valid _ b1 e1 h1⟩, ⟨b2, e2, h2, C03_admitted_entries_valid_runtime _ b2 e2 h2⟩⟩

open FluentProofs.Parser in
/-- one clause of `ValidEntry` spelled out: a select expression at the top level of an admitted message's
value has exactly one default variant and an admissible selector -/
theorem C03_one_default (s : Src) (body : Resource Span) (errs : List PErr) (h : parse s = .done (body, errs))
    (m : Message Span) (hm : Entry.message m ∈ body) (v : Pattern Span) (hv : m.value = some v)
    (sel : Inline Span) (vs : List (Variant Span)) (hsel : PatElem.placeable (.select sel vs) ∈ v) :
    vs.countP variantDefault = 1 ∧ selectorOk sel = true := by
  have hval : validEntry s (.message m) = true := C03_admitted_entries_valid s body errs h _ hm
  simp only [validEntry, hv, Bool.and_eq_true] at hval
  have hp : vPat s v = true := by
    have := hval.1.1.2
    simp only [patOk, Bool.and_eq_true] at this
    exact this.2
  have : ∀ (l : List (PatElem Span)), vPat s l = true → PatElem.placeable (.select sel vs) ∈ l →
      vExpr s (.select sel vs) = true := by
    intro l
    induction l with
    | nil => intro _ hmem; cases hmem
    | cons x xs ih =>
      intro hl hmem
      simp only [vPat, Bool.and_eq_true] at hl
      rcases List.mem_cons.mp hmem with rfl | hmem
      · simpa [vPatElem] using hl.1
      · exact ih hl.2 hmem
  have hx := this v hp hsel
  simp only [vExpr, Bool.and_eq_true, beq_iff_eq] at hx
  exact ⟨hx.2, hx.1.1.2⟩

/-- test (non-vacuity, not the unbounded claim): a select without a default variant
(`a = { $x ->` / ` [a] b` / ` }`) yields no message — the whole entry is Junk with one error -/
example : (match parse #[97, 32, 61, 32, 123, 32, 36, 120, 32, 45, 62, 10, 32, 91, 97, 93, 32, 98, 10, 32, 125, 10] with
    | .done (body, errs) =>
      errs.length == 1 && body.all (fun e => match e with | .message _ => false | .term _ => false | _ => true)
    | _ => false) = true := by decide +kernel

/-- test: with the default marked (`*[a] b`) the message is admitted, and `validEntry` evaluates to `true` on it -/
example : (let s : Src := #[97, 32, 61, 32, 123, 32, 36, 120, 32, 45, 62, 10, 32, 42, 91, 97, 93, 32, 98, 10, 32, 125, 10]
    match parse s with
    | .done (body, errs) => errs.isEmpty && body.length == 1 && body.all (FluentProofs.Parser.validEntry s)
    | _ => false) = true := by decide +kernel

/-- test: `ValidEntry` is not trivially true — the hand-built message `a = { $x -> [a] b }` without a default,
over the same source, is rejected by the predicate -/
example : (let s : Src := #[97, 32, 61, 32, 123, 32, 36, 120, 32, 45, 62, 10, 32, 91, 97, 93, 32, 98, 10, 32, 125, 10]
    FluentProofs.Parser.validEntry s
      (.message ⟨⟨0, 1⟩, some [.placeable (.select (.var ⟨7, 8⟩) [.mk (.ident ⟨14, 15⟩) [.text ⟨17, 18⟩] false])], [], none⟩))
    = false := by decide +kernel

end FluentProofs.C03
