import FluentProofs.ConstTieSyntax
import FluentProofs.ParserLines
/-!
# C03 — syntax errors are contained: Junk accounting and per-entry recovery

Model: `FluentModel.Syntax.parse` / `parseRuntime` (transcription of `Parser::parse`,
`Parser::parse_runtime`, validated against the implementation on every run).
All theorems are for EVERY source `s` (any byte array).

Proved here (accounting part of the property, both parsers):
* `C03_accounting…`: errors and Junk entries correspond one-to-one in source order; each error's
  `slice` is exactly its Junk's span; every Junk span is a valid slice of the source (in range and
  on character boundaries — otherwise the Rust slicing would have panicked); the reported position
  is not beyond the Junk's end; the Junk ends at the end of input or at a line-initial entry-start
  byte (`[a-zA-Z]`, `-`, `#`).
* `C03_ok_iff_no_junk…`: the error list is empty exactly when the tree has no Junk
  (the Rust API returns `Ok` exactly when the error list is empty).

* `C03_full` (= `C03_full_statement`, for EVERY byte source on which `parse` finishes; `C03_full_string` for every
  `String`, where it always finishes) and `C03_full_runtime`: in addition every error's slice `a..b`
  starts at a line start (`a = 0` or the byte before `a` is `\n`) and `a ≤ pos.start` — so together with
  `Acc.ends` the Junk range contains the error position, starts at a line start and ends where the next entry
  begins.  Proof (`FluentProofs/ParserLines.lean`): (1) `Mono` — every cursor and every error position
  produced by a parser function started at `p` is `≥ p` (all eight mutually recursive functions, by
  induction on fuel; `get_comment`, `get_message`, `get_term`), and junk recovery / `clampErr` never move
  before the entry start; (2) every iteration of both entry loops starts at a line start: a pattern can only
  end at a line start or EOF (`getPatternLoop_LSE`), `get_attributes` rewinds to one, `get_comment` /
  `skip_comment` end at a line start, at EOF or AT the `\n` of a line end, and `skip_blank_block` turns
  each of those into a line start (`skipBlankBlock_LSE`).

Not a Lean theorem (checked by the correspondence harness and the property predicate on the
implementation): every admitted entry satisfies the documented rules, and containment of a damaged entry.
-/
namespace FluentProofs.C03
open FluentModel.Syntax

/-- accounting for the full parser, for every source -/
theorem C03_accounting_parse (s : Src) (body : Resource Span) (errs : List PErr)
    (h : parse s = .done (body, errs)) : Acc s body errs :=
  parseLoop_acc s _ _ [] [] none 0 _ (Acc.nil s) body errs h

/-- accounting for the runtime parser, for every source -/
theorem C03_accounting_parseRuntime (s : Src) (body : Resource Span) (errs : List PErr)
    (h : parseRuntime s = .done (body, errs)) : Acc s body errs :=
  parseRuntimeLoop_acc s _ _ [] [] _ (Acc.nil s) body errs h

/-- same number of errors and Junk entries -/
theorem C03_count (s : Src) (body : Resource Span) (errs : List PErr)
    (h : parse s = .done (body, errs)) : errs.length = (junkSpans body).length := by
  have := congrArg List.length (C03_accounting_parse s body errs h).slices
  simpa using this

/-- success is reported exactly when the tree has no Junk (full parser) -/
theorem C03_ok_iff_no_junk_parse (s : Src) (body : Resource Span) (errs : List PErr)
    (h : parse s = .done (body, errs)) : errs = [] ↔ junkSpans body = [] := by
  have := C03_count s body errs h
  constructor
  · intro h'; subst h'; exact List.eq_nil_of_length_eq_zero this.symm
  · intro h'; rw [h'] at this; exact List.eq_nil_of_length_eq_zero this

/-- success is reported exactly when the tree has no Junk (runtime parser) -/
theorem C03_ok_iff_no_junk_parseRuntime (s : Src) (body : Resource Span) (errs : List PErr)
    (h : parseRuntime s = .done (body, errs)) : errs = [] ↔ junkSpans body = [] := by
  have := congrArg List.length (C03_accounting_parseRuntime s body errs h).slices
  simp only [List.length_map] at this
  constructor
  · intro h'; subst h'; exact List.eq_nil_of_length_eq_zero this.symm
  · intro h'; rw [h'] at this; exact List.eq_nil_of_length_eq_zero this

/-- each Junk holds exactly the source text of its error's slice: the i-th error's slice is the span
of the i-th Junk, and that span is what `content` is cut from (`spanBytes s sp`) -/
theorem C03_junk_is_slice (s : Src) (body : Resource Span) (errs : List PErr)
    (h : parse s = .done (body, errs)) (i : Nat) (hi : i < errs.length) :
    ∃ sp, (junkSpans body)[i]? = some sp ∧ errs[i].slice = some (sp.start, sp.stop) ∧
      slice s sp.start sp.stop = some sp := by
  have acc := C03_accounting_parse s body errs h
  have hlen := C03_count s body errs h
  have hi' : i < (junkSpans body).length := by omega
  refine ⟨(junkSpans body)[i], by simp [hi'], ?_, acc.valid _ (List.getElem_mem hi')⟩
  have := congrArg (fun l => l[i]?) acc.slices
  simp [hi, hi'] at this
  exact this

/-- full accounting statement: `Acc`, and every error's slice starts at a line start at or before the
error position (proved below: `C03_full`) -/
def C03_full_statement : Prop :=
  ∀ (s : Src) (body : Resource Span) (errs : List PErr), parse s = .done (body, errs) →
    Acc s body errs ∧
    (∀ e ∈ errs, ∃ a b, e.slice = some (a, b) ∧ a ≤ e.posStart ∧ (a = 0 ∨ s[a - 1]? = some 10))

/-- the same for the runtime parser -/
def C03_full_statement_runtime : Prop :=
  ∀ (s : Src) (body : Resource Span) (errs : List PErr), parseRuntime s = .done (body, errs) →
    Acc s body errs ∧
    (∀ e ∈ errs, ∃ a b, e.slice = some (a, b) ∧ a ≤ e.posStart ∧ (a = 0 ∨ s[a - 1]? = some 10))

/-- **C03 accounting, complete (full parser)**: for every source, errors and Junk correspond one-to-one in
order, each Junk is exactly its error's slice, a valid slice that starts at a line start, ends at the next
entry start (or EOF) and contains the error position. -/
theorem C03_full : C03_full_statement := fun s body errs h =>
  ⟨C03_accounting_parse s body errs h, FluentProofs.Parser.parse_errPos s body errs h⟩

/-- **C03 accounting, complete (runtime parser)** -/
theorem C03_full_runtime : C03_full_statement_runtime := fun s body errs h =>
  ⟨C03_accounting_parseRuntime s body errs h, FluentProofs.Parser.parseRuntime_errPos s body errs h⟩

/-- the error position lies inside the Junk: `slice.start ≤ pos.start ≤ slice.end` (both parsers share `Acc`) -/
theorem C03_pos_in_junk (s : Src) (body : Resource Span) (errs : List PErr) (h : parse s = .done (body, errs)) :
    ∀ e ∈ errs, ∃ a b, e.slice = some (a, b) ∧ a ≤ e.posStart ∧ e.posStart ≤ b := by
  intro e he
  obtain ⟨a, b, h1, h2, _⟩ := (C03_full s body errs h).2 e he
  obtain ⟨a', b', h1', h2', _⟩ := (C03_full s body errs h).1.ends e he
  rw [h1] at h1'; cases h1'
  exact ⟨a, b, h1, h2, h2'⟩

/-- **C03 for every `String`**: both parsers finish (C01) and the complete accounting statement holds. -/
theorem C03_full_string (str : String) :
    (∃ body errs, parse str.toUTF8.data = .done (body, errs) ∧ Acc str.toUTF8.data body errs ∧
      ∀ e ∈ errs, ∃ a b, e.slice = some (a, b) ∧ a ≤ e.posStart ∧ (a = 0 ∨ str.toUTF8.data[a - 1]? = some 10)) ∧
    (∃ body errs, parseRuntime str.toUTF8.data = .done (body, errs) ∧ Acc str.toUTF8.data body errs ∧
      ∀ e ∈ errs, ∃ a b, e.slice = some (a, b) ∧ a ≤ e.posStart ∧ (a = 0 ∨ str.toUTF8.data[a - 1]? = some 10)) := by
  open FluentProofs.Parser in
  have hs := asciiThenBoundary_of_string str
  have hA := skipBlankBlock_after str.toUTF8.data 0
  have hb := hA.bnd hs (bnd_zero _)
  constructor
  · obtain ⟨⟨body, errs⟩, hr, _⟩ : Done str.toUTF8.data (parse str.toUTF8.data) :=
      parseLoop_done hs _ [] [] none 0 _ hb.le hb (by omega) (by simp) (by simp) (by simp)
    exact ⟨body, errs, hr, C03_full _ body errs hr⟩
  · obtain ⟨⟨body, errs⟩, hr, _⟩ : Done str.toUTF8.data (parseRuntime str.toUTF8.data) :=
      parseRuntimeLoop_done hs _ [] [] _ (fun _ => hb) (by omega) (by simp) (by simp)
    exact ⟨body, errs, hr, C03_full_runtime _ body errs hr⟩

/-- non-vacuity (a test, not the unbounded claim): `a = {` newline `b = c` gives one Junk `0..6`,
one error, and the message `b` survives -/
example : (match parse #[97, 32, 61, 32, 123, 10, 98, 32, 61, 32, 99, 10] with
    | .done (body, errs) => errs.length == 1 && junkSpans body == [⟨0, 6⟩] && body.length == 2
    | _ => false) = true := by decide +kernel

end FluentProofs.C03
