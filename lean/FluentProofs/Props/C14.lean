import FluentProofs.Memo
import FluentProofs.MemoIntl
import FluentProofs.MemoReenter
import FluentProofs.MemoConc
/-!
# C14 — the formatter memoizer constructs each formatter once per key, under any schedule

Model: `FluentModel.Memo` (`withTryGet`, `mstep`, `cstep`; see its header for what is transcribed and what is a
contract).  `X : Ext …` is the external code (`Memoizable::construct` of every formatter type) over an arbitrary
world `σ`; callbacks are arbitrary functions carried by the operations.  All theorems quantify over every `X`,
every initial world, every language, every history of operations and (concurrent part) every schedule.
-/
namespace FluentProofs.C14
open FluentModel.Memo

variable {σ L τ α ι ε ρ : Type} [DecidableEq τ] [DecidableEq α]
variable (X : Ext σ L τ α ι ε) (lang : L) (w₀ : σ)

/-! ## one memoizer, sequential histories -/

/-- the memoizer after `IntlLangMemoizer::new(lang)` and any history of `with_try_get` calls -/
abbrev after (ops : List (Op σ τ α ι ρ)) : LMemo L τ α ι ε := (runOps X lang ops LMemo.empty w₀).2.1

/-- the invariant holds after every history -/
theorem C14_invariant (ops : List (Op σ τ α ι ρ)) : LInv lang (after X lang w₀ ops) :=
  LInv_runOps X lang LMemo.empty w₀ ops (LInv_empty lang)

/-- **at most once**: after any history, every key `(type, args)` has at most one successful construct event
(failed constructions in between do not change that). -/
theorem C14_construct_at_most_once (ops : List (Op σ τ α ι ρ)) (t : τ) (a : α) :
    (okEvents (after X lang w₀ ops) t a).length ≤ 1 :=
  (C14_invariant X lang w₀ ops).at_most_once t a

/-- **with exactly those arguments and the memoizer's language**: every construct call (successful or not)
carried the memoizer's language, and the successful one for a cached key is
`construct(lang, args) = Ok(the cached instance)` for exactly that key. -/
theorem C14_construct_lang_args (ops : List (Op σ τ α ι ρ)) :
    (∀ e ∈ (after X lang w₀ ops).log, e.lang = lang) ∧
    ∀ t a, match find (after X lang w₀ ops).map t a with
      | none => okEvents (after X lang w₀ ops) t a = []
      | some i => okEvents (after X lang w₀ ops) t a = [⟨lang, t, a, .ok i⟩] :=
  ⟨(C14_invariant X lang w₀ ops).lang_ok, (C14_invariant X lang w₀ ops).cached⟩

/-- **every callback for a key ran against that one instance**: whenever a callback ran for key `(t, a)`
against instance `i` anywhere in the history, the only successful construct event for `(t, a)` is the one
that returned `i`. -/
theorem C14_callback_instance (ops : List (Op σ τ α ι ρ)) (t : τ) (a : α) (i : ι)
    (h : (t, a, i) ∈ (after X lang w₀ ops).calls) :
    okEvents (after X lang w₀ ops) t a = [⟨lang, t, a, .ok i⟩] :=
  (C14_invariant X lang w₀ ops).call_instance t a i h

/-- **one lookup, in any reachable state** (`m` is the memoizer after any history, `w` any world):
* cached key: `construct` is not called, the callback runs against the cached instance, its result is returned
  unchanged, no lookup changes;
* not cached, `construct(lang, args)` fails: that error is returned, no callback runs, *nothing* is cached
  (no lookup changes: the failing key stays absent, other keys are untouched);
* not cached, `construct(lang, args)` succeeds with `i`: the callback runs against `i`, its result is returned
  unchanged, `i` is cached under exactly this key and no other lookup changes.
In the two miss cases `construct` received the memoizer's language and exactly the looked-up type and arguments
(`X.construct w lang op.ty op.args`). -/
theorem C14_lookup_step (m : LMemo L τ α ι ε) (w : σ) (op : Op σ τ α ι ρ) :
    let r := withTryGet X lang m w op
    let c := X.construct w lang op.ty op.args
    match find m.map op.ty op.args, c.1 with
    | some i, _ =>
      r.out = .ok (op.cb i w).1 ∧ r.ev = none ∧ r.world = (op.cb i w).2 ∧
      ∀ t a, find r.memo.map t a = find m.map t a
    | none, .error e =>
      r.out = .err e ∧ r.ev = some ⟨lang, op.ty, op.args, .error e⟩ ∧ r.world = c.2 ∧
      r.memo.calls = m.calls ∧ ∀ t a, find r.memo.map t a = find m.map t a
    | none, .ok i =>
      r.out = .ok (op.cb i c.2).1 ∧ r.ev = some ⟨lang, op.ty, op.args, .ok i⟩ ∧ r.world = (op.cb i c.2).2 ∧
      ∀ t a, find r.memo.map t a = if t = op.ty ∧ a = op.args then some i else find m.map t a := by
  intro r c
  cases h : find m.map op.ty op.args with
  | some i =>
    obtain ⟨h1, h2, h3, _, _, h6⟩ := withTryGet_hit X lang m w op h
    exact ⟨h1, h2, h3, h6⟩
  | none =>
    cases hc : c.1 with
    | error e =>
      obtain ⟨h1, h2, h3, _, h5, h6⟩ := withTryGet_miss_err X lang m w op h hc
      exact ⟨h1, h2, h3, h5, h6⟩
    | ok i =>
      obtain ⟨h1, h2, h3, _, _, h6⟩ := withTryGet_miss_ok X lang m w op h hc
      exact ⟨h1, h2, h3, h6⟩

/-- **lookup_eq_construct** (used by C08/C15): if `construct` is a function `f` of (language, type, arguments)
and callback results do not depend on the world, the outcomes of any history are those of calling `construct`
afresh for every lookup – the cache is unobservable. -/
theorem C14_lookup_eq_construct (f : L → τ → α → Except ε ι)
    (hpure : ∀ w l t a, (X.construct w l t a).1 = f l t a)
    (ops : List (Op σ τ α ι ρ)) (hcb : ∀ op ∈ ops, ∀ i w w', (op.cb i w).1 = (op.cb i w').1) :
    (runOps X lang ops LMemo.empty w₀).1 = ops.map (pureOutcome f lang w₀) :=
  lookup_eq_construct_run X lang LMemo.empty w₀ f hpure w₀ ops hcb (PInv_empty lang f)

/-! ## `IntlMemoizer::get_for_lang`: histories of get_for_lang / new / drop / lookups through handles -/

section Intl
variable [DecidableEq L]

/-- the state after `IntlMemoizer::default()` and any history -/
abbrev mafter (ops : List (MOp σ L τ α ι ρ)) : MState σ L τ α ι ε := (mrun X ops (MState.init w₀)).2

/-- after every history: strong count = number of live handles (> 0) for every live allocation, every live
allocation's memoizer satisfies the per-memoizer invariant (at most once, language, callback instance) for its
own language, no handle dangles, weak table entries point to allocations of the right language -/
theorem C14_intl_invariant (ops : List (MOp σ L τ α ι ρ)) : MInv (mafter X w₀ ops) :=
  MInv_run X ops _ (MInv_init w₀)

/-- no history ever uses a freed memoizer -/
theorem C14_no_dangling (ops : List (MOp σ L τ α ι ρ)) :
    MObs.dangling ∉ (mrun X ops (MState.init w₀ : MState σ L τ α ι ε)).1 :=
  no_dangling_run X ops _ (MInv_init w₀)

/-- at most one successful construction per key in every live memoizer, after every history that mixes
get_for_lang, drops and lookups through any handles -/
theorem C14_intl_construct_at_most_once (ops : List (MOp σ L τ α ι ρ)) (oid : Nat) (o : Obj L τ α ι ε)
    (ho : aget (mafter X w₀ ops).heap oid = some o) (t : τ) (a : α) :
    (okEvents o.memo t a).length ≤ 1 ∧ ∀ e ∈ o.memo.log, e.lang = o.lang :=
  ⟨((C14_intl_invariant X w₀ ops).heap_ok oid o ho).2.2.2.at_most_once t a,
   ((C14_intl_invariant X w₀ ops).heap_ok oid o ho).2.2.2.lang_ok⟩

/-- **shared while in use**: `get_for_lang(l)` hands out handle `h`; whatever happens afterwards (other
languages, other handles created and dropped, lookups, failures), as long as handle `h` itself has not been
dropped, `get_for_lang(l)` returns the *same* allocation, with its cache as the lookups left it (only the
strong count changes) and without touching the table. -/
theorem C14_shared_while_in_use (pre mid : List (MOp σ L τ α ι ρ)) (l : L) (oid : Nat) :
    let s₁ := mafter X w₀ pre
    let h := s₁.handles.length
    let r := mstep (ρ := ρ) X s₁ (.getForLang l)
    let s₃ := (mrun X mid r.1).2
    r.2 = .handle h oid → s₃.handles[h]? = some (some oid) →
    ∃ o, aget s₃.heap oid = some o ∧
      mstep (ρ := ρ) X s₃ (.getForLang l) =
        ({ s₃ with heap := aset s₃.heap oid { o with strong := o.strong + 1 }
                   handles := s₃.handles ++ [some oid] }, .handle s₃.handles.length oid) := by
  intro s₁ h r s₃ hobs halive
  have hi₁ : MInv s₁ := C14_intl_invariant X w₀ pre
  obtain ⟨oid', o', h1, h2, h3, _, _⟩ := getForLang_result (ρ := ρ) X s₁ l hi₁
  have e : oid' = oid := by
    have : MObs.handle (L := L) (τ := τ) (α := α) (ι := ι) (ε := ε) (ρ := ρ) s₁.handles.length oid'
        = .handle h oid := h1.symm.trans hobs
    cases this; rfl
  subst e
  have hlt : h < r.1.handles.length := by
    show s₁.handles.length < (mstep (ρ := ρ) X s₁ (.getForLang l)).1.handles.length
    rw [h2]; simp
  obtain ⟨ht, o, ho⟩ := shared_while_alive X mid r.1 (MInv_step X s₁ _ hi₁) h oid' l hlt (fun _ => h3) halive
  exact ⟨o, ho, getForLang_alive X s₃ l oid' o ht ho⟩

/-- **shared while in use, seen from inside a lookup** (`reenter_same`).  `MOp.lookupReenter h op` is a
`with_try_get` through handle `h` whose callback, while the lookup is still active, calls `get_for_lang` for the
memoizer's own language, compares the `Rc` it gets with the one it runs on and drops it.  In every reachable state
(`pre`, `mid`: any histories, re-entrant lookups included), if `h` is the handle `get_for_lang(l)` handed out and it
has not been dropped, the inner call is handed the very memoizer the lookup runs on: the flag is `some true`
whenever the callback ran, `none` when the construction failed (no callback) – never `some false`. -/
theorem C14_reenter_same (pre mid : List (MOp σ L τ α ι ρ)) (l : L) (op : Op σ τ α ι ρ) :
    let s₁ := mafter X w₀ pre
    let h := s₁.handles.length
    let s₃ := (mrun X mid (mstep (ρ := ρ) X s₁ (.getForLang l)).1).2
    (∃ oid, s₃.handles[h]? = some (some oid)) →
    ∃ out ev, (mstep X s₃ (.lookupReenter h op)).2 = .resReenter out ev (sameOk out) :=
  reenter_same X w₀ pre mid l op

/-- **the re-entrant call is transparent** (`reenter_transparent`): under the same hypotheses the re-entrant lookup
ends in exactly the state of the plain lookup (strong counts, table, id counter, handles, caches, world) with the
same outcome and construct event. -/
theorem C14_reenter_transparent (pre mid : List (MOp σ L τ α ι ρ)) (l : L) (op : Op σ τ α ι ρ) :
    let s₁ := mafter X w₀ pre
    let h := s₁.handles.length
    let s₃ := (mrun X mid (mstep (ρ := ρ) X s₁ (.getForLang l)).1).2
    (∃ oid, s₃.handles[h]? = some (some oid)) →
    (mstep X s₃ (.lookupReenter h op)).1 = (mstep X s₃ (.lookup h op)).1 ∧
    ∃ out ev same, (mstep X s₃ (.lookupReenter h op)).2 = .resReenter out ev same ∧
      (mstep X s₃ (.lookup h op)).2 = .res out ev :=
  reenter_transparent X w₀ pre mid l op

/-- **independent across languages**: a memoizer handed out for `l₁` and one handed out later for `l₂ ≠ l₁`
are never the same allocation, whatever happened in between -/
theorem C14_independent_across_languages (pre mid : List (MOp σ L τ α ι ρ)) (l₁ l₂ : L) (hne : l₁ ≠ l₂)
    (h₁ oid₁ h₂ oid₂ : Nat) :
    let s₁ := mafter X w₀ pre
    let r₁ := mstep (ρ := ρ) X s₁ (.getForLang l₁)
    let s₂ := (mrun X mid r₁.1).2
    let r₂ := mstep (ρ := ρ) X s₂ (.getForLang l₂)
    r₁.2 = .handle h₁ oid₁ → r₂.2 = .handle h₂ oid₂ → oid₁ ≠ oid₂ := by
  intro s₁ r₁ s₂ r₂ e₁ e₂ heq
  have hi₁ : MInv s₁ := C14_intl_invariant X w₀ pre
  have hi₁' : MInv r₁.1 := MInv_step X s₁ _ hi₁
  have hi₂ : MInv s₂ := MInv_run X mid _ hi₁'
  obtain ⟨a₁, o₁, g1, _, _, g4, g5⟩ := getForLang_result (ρ := ρ) X s₁ l₁ hi₁
  obtain ⟨a₂, o₂, k1, _, _, k4, k5⟩ := getForLang_result (ρ := ρ) X s₂ l₂ hi₂
  have ea : a₁ = oid₁ := by
    have : MObs.handle (L := L) (τ := τ) (α := α) (ι := ι) (ε := ε) (ρ := ρ) s₁.handles.length a₁
        = .handle h₁ oid₁ := g1.symm.trans e₁
    cases this; rfl
  have eb : a₂ = oid₂ := by
    have : MObs.handle (L := L) (τ := τ) (α := α) (ι := ι) (ε := ε) (ρ := ρ) s₂.handles.length a₂
        = .handle h₂ oid₂ := k1.symm.trans e₂
    cases this; rfl
  subst ea; subst eb; subst heq
  -- the allocation's language is fixed for life
  have hrun : (mrun X (mid ++ [MOp.getForLang l₂]) r₁.1).2 = r₂.1 := by
    have : ∀ (a : List (MOp σ L τ α ι ρ)) (op : MOp σ L τ α ι ρ) (s : MState σ L τ α ι ε),
        (mrun X (a ++ [op]) s).2 = (mstep X (mrun X a s).2 op).1 := by
      intro a op s
      induction a generalizing s with
      | nil => simp [mrun]
      | cons x xs ih => simp only [List.cons_append, mrun]; exact ih _
    exact this mid _ _
  have := lang_stable_run X (mid ++ [MOp.getForLang l₂]) r₁.1 hi₁' a₁ o₁ o₂ g4 (by rw [hrun]; exact k4)
  rw [g5, k5] at this
  exact hne this.symm

/-- a lookup through one handle touches nothing but that handle's memoizer (so memoizers of different
languages, and different memoizers of one language, never disturb each other) -/
theorem C14_lookup_isolated (s : MState σ L τ α ι ε) (h : Nat) (op : Op σ τ α ι ρ) :
    (mstep X s (.lookup h op)).1.table = s.table ∧ (mstep X s (.lookup h op)).1.handles = s.handles ∧
    (mstep X s (.lookup h op)).1.next = s.next ∧
    ∀ oid, s.handles[h]? = some (some oid) → ∀ oid', oid' ≠ oid →
      aget (mstep X s (.lookup h op)).1.heap oid' = aget s.heap oid' :=
  lookup_isolated X s h op

/-- **fresh after the last drop**: when the only live handle of the memoizer registered for `l` is dropped,
the memoizer is freed, and the next `get_for_lang(l)` returns a brand-new allocation – an id no earlier
operation ever handed out – with an empty cache and strong count 1. -/
theorem C14_fresh_after_last_drop (ops : List (MOp σ L τ α ι ρ)) (h oid : Nat) (l : L) :
    let s := mafter X w₀ ops
    let s' := (mstep (ρ := ρ) X s (.drop h)).1
    let r := mstep (ρ := ρ) X s' (.getForLang l)
    s.handles[h]? = some (some oid) → liveCount s.handles oid = 1 → aget s.table l = some oid →
    aget s'.heap oid = none ∧
    r.2 = .handle s'.handles.length s'.next ∧
    aget r.1.heap s'.next = some { lang := l, strong := 1, memo := LMemo.empty } ∧
    ∀ h' oid', MObs.handle h' oid' ∈ (mrun X ops (MState.init w₀ : MState σ L τ α ι ε)).1 → oid' < s'.next := by
  intro s s' r hh hone ht
  have hi : MInv s := C14_intl_invariant X w₀ ops
  have hfree := drop_last_frees (ρ := ρ) X s hi h oid hh hone
  obtain ⟨htab, hnext⟩ := drop_table (ρ := ρ) X s h
  have hr : r = allocFresh s' l true :=
    getForLang_fresh X s' l (Or.inr ⟨oid, by rw [htab]; exact ht, hfree⟩)
  obtain ⟨a1, _, a3, _, _⟩ := allocFresh_spec (ρ := ρ) s' l true
  refine ⟨hfree, by rw [hr]; exact a1, by rw [hr]; exact a3, ?_⟩
  intro h' oid' hm
  rw [hnext]
  exact handed_out_lt_next X ops _ (MInv_init w₀) h' oid' hm

end Intl

/-! ## the thread-safe memoizer: all schedules -/

/-- the state reached from a cold `concurrent::IntlLangMemoizer::new(lang)` with one thread per program under
schedule `sched` (any list of thread ids; steps of blocked or finished threads are no-ops) -/
abbrev cafter (progs : List (List (Op σ τ α ι ρ))) (sched : List Nat) : CState σ L τ α ι ε ρ :=
  crun X sched (CState.init lang w₀ progs)

theorem C14_conc_lang (progs : List (List (Op σ τ α ι ρ))) (sched : List Nat) :
    (cafter X lang w₀ progs sched).lang = lang :=
  (CInv_run X lang w₀ sched _ (CInv_init X lang w₀ progs)).lang_eq

/-- the per-memoizer invariant holds under every schedule -/
theorem C14_conc_invariant (progs : List (List (Op σ τ α ι ρ))) (sched : List Nat) :
    LInv lang (cafter X lang w₀ progs sched).memo := by
  have := LInv_crun X sched (CState.init lang w₀ progs : CState σ L τ α ι ε ρ) (LInv_empty lang)
  rw [C14_conc_lang X lang w₀ progs sched] at this
  exact this

/-- **at most once under any schedule**: whatever the interleaving of any number of threads, every key has at
most one successful construct event; all events carry the memoizer's language; the successful event of a
cached key is `construct(lang, args) = Ok(cached instance)`. -/
theorem C14_conc_construct_at_most_once (progs : List (List (Op σ τ α ι ρ))) (sched : List Nat)
    (t : τ) (a : α) :
    (okEvents (cafter X lang w₀ progs sched).memo t a).length ≤ 1 ∧
    (∀ e ∈ (cafter X lang w₀ progs sched).memo.log, e.lang = lang) ∧
    (match find (cafter X lang w₀ progs sched).memo.map t a with
      | none => okEvents (cafter X lang w₀ progs sched).memo t a = []
      | some i => okEvents (cafter X lang w₀ progs sched).memo t a = [⟨lang, t, a, .ok i⟩]) :=
  ⟨(C14_conc_invariant X lang w₀ progs sched).at_most_once t a,
   (C14_conc_invariant X lang w₀ progs sched).lang_ok,
   (C14_conc_invariant X lang w₀ progs sched).cached t a⟩

/-- every callback of every thread ran against the one instance constructed for its key -/
theorem C14_conc_callback_instance (progs : List (List (Op σ τ α ι ρ))) (sched : List Nat)
    (t : τ) (a : α) (i : ι) (h : (t, a, i) ∈ (cafter X lang w₀ progs sched).memo.calls) :
    okEvents (cafter X lang w₀ progs sched).memo t a = [⟨lang, t, a, .ok i⟩] :=
  (C14_conc_invariant X lang w₀ progs sched).call_instance t a i h

/-- the simulation invariant (also describes states in which the lock is held) after every schedule -/
theorem C14_conc_simulation (progs : List (List (Op σ τ α ι ρ))) (sched : List Nat) :
    CInv X lang w₀ (cafter X lang w₀ progs sched) :=
  CInv_run X lang w₀ sched _ (CInv_init X lang w₀ progs)

/-- **every schedule = the sequential run in lock-acquisition order.**  Let `order` be the (thread, lookup)
pairs in the order in which the lock was acquired, and `seq` the ordinary sequential run (`runOps`) of those
lookups on a fresh memoizer.  Whenever the lock is free (in particular when all threads are done) the shared
memoizer and world are the sequential ones, and the outcomes `outs` of the sequential run, tagged with the
acquiring thread, are exactly what the threads got: thread `t` holds, in order, the outcomes at `t`'s positions. -/
theorem C14_conc_eq_sequential (progs : List (List (Op σ τ α ι ρ))) (sched : List Nat) :
    let s := cafter X lang w₀ progs sched
    let order := s.acq.reverse
    let seq := runOps X lang (order.map (·.2)) LMemo.empty w₀
    s.lock = none →
    (s.memo, s.world) = seq.2 ∧
    ∃ outs : List (Nat × Outcome ε ρ),
      outs.map (·.1) = order.map (·.1) ∧ outs.map (·.2) = seq.1 ∧
      ∀ t, (s.threads t).results.reverse = (outs.filter fun p => decide (p.1 = t)).map (·.2) := by
  intro s order seq hl
  obtain ⟨_, q2, q3⟩ := (C14_conc_simulation X lang w₀ progs sched).quiet hl
  obtain ⟨e1, e2, e3⟩ := seqAfter_eq_runOps X lang w₀ s.acq
  refine ⟨q2.trans e1, (seqOuts X lang w₀ s.acq).reverse, e3, e2, ?_⟩
  intro t
  rw [q3 t]
  simp only [outsOf, List.filter_reverse, List.map_reverse]
  rfl

/-- the acquisition order is an interleaving of the programs: what thread `t` acquired so far (oldest first)
followed by what it has not started yet is exactly `t`'s program -/
theorem C14_conc_order_interleaves (progs : List (List (Op σ τ α ι ρ))) (sched : List Nat) (t : Nat) :
    acqOf t (cafter X lang w₀ progs sched).acq ++ ((cafter X lang w₀ progs sched).threads t).prog =
      ((CState.init lang w₀ progs : CState σ L τ α ι ε ρ).threads t).prog :=
  IInv_run X (fun t => ((CState.init lang w₀ progs : CState σ L τ α ι ε ρ).threads t).prog) sched _
    (by intro t; simp [CState.init, acqOf]) t

/-- **deadlock freedom**: in every reachable state, if some thread still has work, some thread is enabled.
(One lock, never acquired while held; `construct`/callbacks do not re-enter – see the model header.) -/
theorem C14_deadlock_free (progs : List (List (Op σ τ α ι ρ))) (sched : List Nat) (t : Nat)
    (hu : unfinished (cafter X lang w₀ progs sched) t) : ∃ t', enabled (cafter X lang w₀ progs sched) t' :=
  deadlock_free X lang w₀ _ (C14_conc_simulation X lang w₀ progs sched) t hu

/-- **progress**: a step of an enabled thread lowers that thread's measure (3 per outstanding lookup) by one
and leaves the other threads alone; a step of a thread that is not enabled changes nothing.  Hence every
schedule contains at most `3 × (number of lookups)` effective steps. -/
theorem C14_progress (s : CState σ L τ α ι ε ρ) (t : Nat) :
    (enabled s t → ((cstep X s t).threads t).measure + 1 = (s.threads t).measure ∧
      ∀ t', t' ≠ t → (cstep X s t).threads t' = s.threads t') ∧
    (¬ enabled s t → cstep X s t = s) :=
  ⟨cstep_enabled X s t, cstep_not_enabled X s t⟩

/-- **completion** (no livelock): after *any* schedule prefix, `3 × (number of lookups)` rounds of round-robin
finish every thread.  This is the schedule the model driver appends, so the driver always prints a complete run. -/
theorem C14_completion (progs : List (List (Op σ τ α ι ρ))) (sched : List Nat) (t : Nat) :
    ¬ unfinished (cafter X lang w₀ progs
        (sched ++ roundRobin progs.length (3 * (progs.map List.length).sum))) t := by
  unfold cafter
  rw [crun_append]
  have hi := C14_conc_simulation X lang w₀ progs sched
  have hb : BInv progs.length (cafter X lang w₀ progs sched) :=
    BInv_run X _ sched _ (BInv_init lang w₀ progs)
  apply rounds_finish X lang w₀ _ _ _ hi hb
  have := msum_crun_le X progs.length sched _ (BInv_init (ε := ε) lang w₀ progs)
  rw [msum_init] at this
  exact this

/-- in a complete run the lock is free, every thread acquired exactly its program, in program order, and (by
`C14_conc_eq_sequential`) got the sequential outcomes -/
theorem C14_conc_complete_run (progs : List (List (Op σ τ α ι ρ))) (sched : List Nat)
    (hf : ∀ t, ¬ unfinished (cafter X lang w₀ progs sched) t) :
    (cafter X lang w₀ progs sched).lock = none ∧
    ∀ t, acqOf t (cafter X lang w₀ progs sched).acq =
      ((CState.init lang w₀ progs : CState σ L τ α ι ε ρ).threads t).prog := by
  refine ⟨lock_free_of_finished X lang w₀ _ (C14_conc_simulation X lang w₀ progs sched) hf, ?_⟩
  intro t
  have h1 := C14_conc_order_interleaves X lang w₀ progs sched t
  have h2 := hf t
  have hidle : ((cafter X lang w₀ progs sched).threads t).prog = [] := by
    unfold unfinished at h2
    cases hpc : ((cafter X lang w₀ progs sched).threads t).pc with
    | idle => rw [hpc] at h2; exact Classical.byContradiction fun hne => h2 hne
    | locked op => rw [hpc] at h2; exact absurd trivial h2
    | done r => rw [hpc] at h2; exact absurd trivial h2
  rw [hidle, List.append_nil] at h1
  exact h1

/-! ## non-vacuity witnesses

Concrete instances of everything the theorems quantify over.  `decide` on these literals is a *test* (it
evaluates the executable model in the kernel); the property itself is the theorems above. -/
namespace Ex

/-- world = number of `construct` calls so far; args 7 always fail, args 8 fail when the world is even
(fail-then-succeed), everything else succeeds with instance `100·world + args` -/
def XE : Ext Nat Nat Nat Nat Nat Nat :=
  { construct := fun w _ _ a =>
      if a = 7 then (.error w, w + 1)
      else if a = 8 ∧ w % 2 = 0 then (.error w, w + 1)
      else (.ok (100 * w + a), w + 1) }

def op (t a x : Nat) : Op Nat Nat Nat Nat Nat := { ty := t, args := a, cb := fun i w => (i + x, w) }

/-- hit, second type with equal args, fail-then-succeed, always-fail, hit after failures of other keys -/
def hist : List (Op Nat Nat Nat Nat Nat) :=
  [op 0 1 5, op 0 1 6, op 1 1 0, op 0 8 0, op 0 8 0, op 0 7 0, op 0 1 7]

example : (runOps XE 0 hist LMemo.empty 0).1 = [.ok 6, .ok 7, .ok 101, .err 2, .ok 308, .err 4, .ok 8] := by decide
example : (okEvents (after XE 0 0 hist) 0 8).length = 1 ∧ (okEvents (after XE 0 0 hist) 0 7).length = 0 ∧
    (after XE 0 0 hist).log.length = 5 ∧
    (after XE 0 0 hist).calls = [(0, 1, 1), (0, 8, 308), (1, 1, 101), (0, 1, 1), (0, 1, 1)] := by decide

def obsOid : MObs Nat Nat Nat Nat Nat Nat → Option Nat
  | .handle _ oid => some oid
  | _ => none

def constructed : MObs Nat Nat Nat Nat Nat Nat → Bool
  | .res _ (some _) => true
  | _ => false

/-- shared while alive (handles 0, 1), other language separate (handle 2), fresh after the last drop
(handle 3 constructs again) -/
def mhist : List (MOp Nat Nat Nat Nat Nat Nat) :=
  [.getForLang 0, .lookup 0 (op 0 1 0), .getForLang 0, .drop 0, .getForLang 1, .lookup 1 (op 0 1 0), .drop 1,
   .getForLang 0, .lookup 3 (op 0 1 0)]

example : (mrun XE mhist (MState.init 0)).1.map obsOid =
    [some 0, none, some 0, none, some 1, none, none, some 2, none] := by decide
example : (mrun XE mhist (MState.init 0)).1.map constructed =
    [false, true, false, false, false, false, false, false, true] := by decide

/-- the `same` flag of a re-entrant lookup -/
def sameFlag : MObs Nat Nat Nat Nat Nat Nat → Option (Option Bool)
  | .resReenter _ _ b => some b
  | _ => none

/-- re-entrant lookups: through a `get_for_lang` handle (same), through an unregistered `newLang` handle while the
registered memoizer of that language is alive (the inner call upgrades the OTHER one), with a failing construction
(no callback), after the registered one was freed (the inner call allocates a fresh memoizer, registers it and
drops it again: the table is left with a dead weak reference and id 2 is used up), through a fresh registered one -/
def rhist : List (MOp Nat Nat Nat Nat Nat Nat) :=
  [.getForLang 0, .lookupReenter 0 (op 0 1 0), .newLang 0, .lookupReenter 1 (op 0 1 0),
   .lookupReenter 1 (op 0 7 0), .drop 0, .lookupReenter 1 (op 0 1 0), .getForLang 0, .lookupReenter 2 (op 0 7 0),
   .lookupReenter 2 (op 0 1 0), .lookupReenter 0 (op 0 1 0)]

example : (mrun XE rhist (MState.init 0)).1.map sameFlag =
    [none, some (some true), none, some (some false), some none, none, some (some false), none, some none,
     some (some true), none] := by decide
/-- handle numbers do not shift (the `get_for_lang` after three re-entrant lookups is handle 2), the inner
allocation used up id 2, strong counts are back to the number of live handles -/
example : (mrun XE rhist (MState.init 0)).1.map obsOid =
      [some 0, none, some 1, none, none, none, none, some 3, none, none, none] ∧
    (mafter XE 0 rhist).handles = [none, some 1, some 3] ∧ (mafter XE 0 rhist).table = [(0, 3)] ∧
    (mafter XE 0 rhist).next = 4 ∧
    ((mafter XE 0 rhist).heap.map fun p => (p.1, p.2.strong)) = [(1, 1), (3, 1)] := by decide
/-- after the re-entrant lookup through the unregistered handle 1 (registered memoizer freed before): the table
holds a dead weak reference to the temporary memoizer 2 -/
example : (mafter XE 0 (rhist.take 7)).table = [(0, 2)] ∧ (mafter XE 0 (rhist.take 7)).next = 3 ∧
    ((mafter XE 0 (rhist.take 7)).heap.map fun p => (p.1, p.2.strong)) = [(1, 1)] := by decide

/-- the hypothesis of `C14_reenter_same` / `C14_reenter_transparent` is satisfiable (pre = [], mid = a re-entrant
lookup, an unregistered memoizer of the same language and a re-entrant lookup through it) -/
example :
    let r := mstep (ρ := Nat) XE (mafter XE 0 ([] : List (MOp Nat Nat Nat Nat Nat Nat))) (.getForLang 0)
    (mrun XE [.lookupReenter 0 (op 0 1 0), .newLang 0, .lookupReenter 1 (op 0 1 0)] r.1).2.handles[0]?
      = some (some 0) := by decide

/-- the hypotheses of `C14_shared_while_in_use` are satisfiable (pre = [], mid = lookup, other language, drop) -/
example :
    let r := mstep XE (mafter XE 0 ([] : List (MOp Nat Nat Nat Nat Nat Nat))) (.getForLang 0)
    obsOid r.2 = some 0 ∧
    (mrun XE [.lookup 0 (op 0 1 0), .getForLang 1, .drop 1] r.1).2.handles[0]? = some (some 0) := by decide

/-- the hypotheses of `C14_fresh_after_last_drop` are satisfiable -/
example :
    let s := mafter XE 0 (mhist.take 4)
    s.handles[1]? = some (some 0) ∧ liveCount s.handles 0 = 1 ∧ aget s.table 0 = some 0 := by decide

/-- three threads, simultaneous first lookups of one key, a fail-then-succeed key -/
def progs : List (List (Op Nat Nat Nat Nat Nat)) := [[op 0 1 1, op 0 8 2], [op 0 1 3, op 0 8 4], [op 0 1 9]]

def sched : List Nat :=
  [1, 0, 2, 1, 1, 0, 2, 0, 0, 1, 2, 2, 1, 0, 0, 1, 1, 0, 0, 1, 1, 2, 2] ++ roundRobin 3 15

set_option maxRecDepth 8000 in
example :
    ((cafter XE 0 0 progs sched).threads 0).results = [.ok 110, .ok 2] ∧
    ((cafter XE 0 0 progs sched).threads 1).results = [.ok 112, .ok 4] ∧
    ((cafter XE 0 0 progs sched).threads 2).results = [.ok 10] ∧
    (cafter XE 0 0 progs sched).acq.map (·.1) = [2, 0, 1, 0, 1] ∧
    (cafter XE 0 0 progs sched).lock = none ∧
    (okEvents (cafter XE 0 0 progs sched).memo 0 1).length = 1 := by decide

/-- a reachable state with the lock held and unfinished threads (hypothesis of `C14_deadlock_free`) -/
example : (cafter XE 0 0 progs [1, 0, 2, 1]).lock = some 1 ∧
    (List.range 3).map (finishedB (cafter XE 0 0 progs [1, 0, 2, 1])) = [false, false, false] := by decide

end Ex

end FluentProofs.C14
