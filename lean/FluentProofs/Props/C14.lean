import FluentProofs.Memo
/-!
# C14 — the formatter memoizer constructs each formatter once per key, under any schedule

Model: `FluentModel.Memo` (`withTryGet`, `mstep`, `cstep`; see its header for what is transcribed and what is a
contract).  `X : Ext …` is the external code (`Memoizable::construct` of every formatter type) over an arbitrary
world `σ`; callbacks are arbitrary functions carried by the operations.  All theorems quantify over every `X`,
every initial world, every language, every history of operations and (concurrent part) every schedule.
-/
namespace FluentProofs.C14
open FluentModel.Memo

variable {σ L τ α ι ε ρ : Type} [DecidableEq τ] [DecidableEq α]
variable (X : Ext σ L τ α ι ε) (lang : L) (w₀ : σ)

/-! ## one memoizer, sequential histories -/

/-- the memoizer after `IntlLangMemoizer::new(lang)` and any history of `with_try_get` calls -/
abbrev after (ops : List (Op σ τ α ι ρ)) : LMemo L τ α ι ε := (runOps X lang ops LMemo.empty w₀).2.1

/-- the invariant holds after every history -/
theorem C14_invariant (ops : List (Op σ τ α ι ρ)) : LInv lang (after X lang w₀ ops) :=
  LInv_runOps X lang LMemo.empty w₀ ops (LInv_empty lang)

/-- **at most once**: after any history, every key `(type, args)` has at most one successful construct event
(failed constructions in between do not change that). -/
theorem C14_construct_at_most_once (ops : List (Op σ τ α ι ρ)) (t : τ) (a : α) :
    (okEvents (after X lang w₀ ops) t a).length ≤ 1 :=
  (C14_invariant X lang w₀ ops).at_most_once t a

/-- **with exactly those arguments and the memoizer's language**: every construct call (successful or not)
carried the memoizer's language, and the successful one for a cached key is
`construct(lang, args) = Ok(the cached instance)` for exactly that key. -/
theorem C14_construct_lang_args (ops : List (Op σ τ α ι ρ)) :
    (∀ e ∈ (after X lang w₀ ops).log, e.lang = lang) ∧
    ∀ t a, match find (after X lang w₀ ops).map t a with
      | none => okEvents (after X lang w₀ ops) t a = []
      | some i => okEvents (after X lang w₀ ops) t a = [⟨lang, t, a, .ok i⟩] :=
  ⟨(C14_invariant X lang w₀ ops).lang_ok, (C14_invariant X lang w₀ ops).cached⟩

/-- **every callback for a key ran against that one instance**: whenever a callback ran for key `(t, a)`
against instance `i` anywhere in the history, the only successful construct event for `(t, a)` is the one
that returned `i`. -/
theorem C14_callback_instance (ops : List (Op σ τ α ι ρ)) (t : τ) (a : α) (i : ι)
    (h : (t, a, i) ∈ (after X lang w₀ ops).calls) :
    okEvents (after X lang w₀ ops) t a = [⟨lang, t, a, .ok i⟩] :=
  (C14_invariant X lang w₀ ops).call_instance t a i h

/-- **one lookup, in any reachable state** (`m` is the memoizer after any history, `w` any world):
* cached key: `construct` is not called, the callback runs against the cached instance, its result is returned
  unchanged, no lookup changes;
* not cached, `construct(lang, args)` fails: that error is returned, no callback runs, *nothing* is cached
  (no lookup changes: the failing key stays absent, other keys are untouched);
* not cached, `construct(lang, args)` succeeds with `i`: the callback runs against `i`, its result is returned
  unchanged, `i` is cached under exactly this key and no other lookup changes.
In the two miss cases `construct` received the memoizer's language and exactly the looked-up type and arguments
(`X.construct w lang op.ty op.args`). -/
theorem C14_lookup_step (m : LMemo L τ α ι ε) (w : σ) (op : Op σ τ α ι ρ) :
    let r := withTryGet X lang m w op
    let c := X.construct w lang op.ty op.args
    match find m.map op.ty op.args, c.1 with
    | some i, _ =>
      r.out = .ok (op.cb i w).1 ∧ r.ev = none ∧ r.world = (op.cb i w).2 ∧
      ∀ t a, find r.memo.map t a = find m.map t a
    | none, .error e =>
      r.out = .err e ∧ r.ev = some ⟨lang, op.ty, op.args, .error e⟩ ∧ r.world = c.2 ∧
      r.memo.calls = m.calls ∧ ∀ t a, find r.memo.map t a = find m.map t a
    | none, .ok i =>
      r.out = .ok (op.cb i c.2).1 ∧ r.ev = some ⟨lang, op.ty, op.args, .ok i⟩ ∧ r.world = (op.cb i c.2).2 ∧
      ∀ t a, find r.memo.map t a = if t = op.ty ∧ a = op.args then some i else find m.map t a := by
  intro r c
  cases h : find m.map op.ty op.args with
  | some i =>
    obtain ⟨h1, h2, h3, _, _, h6⟩ := withTryGet_hit X lang m w op h
    exact ⟨h1, h2, h3, h6⟩
  | none =>
    cases hc : c.1 with
    | error e =>
      obtain ⟨h1, h2, h3, _, h5, h6⟩ := withTryGet_miss_err X lang m w op h hc
      exact ⟨h1, h2, h3, h5, h6⟩
    | ok i =>
      obtain ⟨h1, h2, h3, _, _, h6⟩ := withTryGet_miss_ok X lang m w op h hc
      exact ⟨h1, h2, h3, h6⟩

/-- **lookup_eq_construct** (used by C08/C15): if `construct` is a function `f` of (language, type, arguments)
and callback results do not depend on the world, the outcomes of any history are those of calling `construct`
afresh for every lookup – the cache is unobservable. -/
theorem C14_lookup_eq_construct (f : L → τ → α → Except ε ι)
    (hpure : ∀ w l t a, (X.construct w l t a).1 = f l t a)
    (ops : List (Op σ τ α ι ρ)) (hcb : ∀ op ∈ ops, ∀ i w w', (op.cb i w).1 = (op.cb i w').1) :
    (runOps X lang ops LMemo.empty w₀).1 = ops.map (pureOutcome f lang w₀) :=
  lookup_eq_construct_run X lang LMemo.empty w₀ f hpure w₀ ops hcb (PInv_empty lang f)

end FluentProofs.C14
