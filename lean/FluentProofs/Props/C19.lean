import FluentProofs.ConstTieResMgr
import FluentProofs.ResMgr
/-!
# C19 — ResourceManager: files loaded once, bundles per locale, I/O faults reported

Model: `FluentModel.ResMgr` (`strReplace`, `pathOf`, `getResource`, `getBundle`, `getBundles`,
`BundlesIter.next`, `stepReq`, `runReqs`), reusing the registry model of C10 for `add_resource`.

Quantification.  `w : World` is an arbitrary function `read-time → path → io::Result<String>`: every
file-system history (files present, missing, unreadable, a directory, invalid UTF-8, changed, deleted
or created between any two reads — even inside one request) is an instance.  `parse` is an arbitrary
total function (so every file content, with or without syntax errors, is covered).  `reqs : List Req`
is an arbitrary history of `get_bundle`, `get_bundles` and `next()` calls on any of the iterators
opened so far, in any interleaving.  Schemes, locales and resource ids are arbitrary byte strings.
The property's precondition "non-empty locale list" appears as `locales ≠ []` / `loc :: ls`.
-/
namespace FluentProofs.C19
open FluentModel FluentModel.Registry FluentModel.ResMgr

/-! ## path_substitution -/

/-- `replace`: a scheme without the placeholder is left alone. -/
theorem C19_replace_no_placeholder (pat to s : Bytes) (h : ∀ k, k < s.length → ¬ pat <+: s.drop k) :
    strReplace s pat to = s :=
  strReplace_no_match pat to s h

/-- `replace`: the leftmost occurrence is replaced first, the replacement text is not rescanned, and
the rest of the string is treated the same way (these two equations determine the function). -/
theorem C19_replace_leftmost_first (pat to u rest : Bytes) (hp : pat ≠ [])
    (h : ∀ k, k < u.length → ¬ pat <+: (u ++ (pat ++ rest)).drop k) :
    strReplace (u ++ (pat ++ rest)) pat to = u ++ (to ++ strReplace rest pat to) :=
  strReplace_first_match pat to u rest hp h

/-- **path_substitution.**  For a scheme built from literal text (without `{`) and the placeholders
`{locale}` / `{res_id}` in ANY number, order and position (adjacent, repeated, first, last, absent),
the path the manager reads is the scheme with every `{locale}` replaced by the locale and every
`{res_id}` replaced by the resource id — for every resource id, including ids that themselves contain
`{locale}` or `{res_id}` (they are not substituted again), and every locale text without `{`. -/
theorem C19_path_substitution (segs : List Seg) (loc rid : Bytes)
    (hl : ∀ s, Seg.lit s ∈ segs → Clean s) (hloc : Clean loc) :
    pathOf (renderScheme segs) loc rid = substScheme loc rid segs :=
  path_of_segments segs loc rid hl hloc

/-! ## get_resource -/

/-- cache hit: the cached resource, no read, no state change -/
theorem C19_get_resource_hit (w : World) (parse : Bytes → Resource) (m : Mgr) (rid loc : Bytes) (r : Resource)
    (h : cacheGet m.cache (pathOf m.scheme loc rid) = some r) :
    getResource w parse m rid loc = (m, .ok r) := by
  simp [getResource, h]

/-- cache miss, readable file: **whatever the content** (syntax errors included) the request succeeds
with the parse of the content, which is cached under the path -/
theorem C19_get_resource_tolerates_any_content (w : World) (parse : Bytes → Resource) (m : Mgr)
    (rid loc content : Bytes)
    (h : cacheGet m.cache (pathOf m.scheme loc rid) = none)
    (hw : w m.clock (pathOf m.scheme loc rid) = .ok content) :
    (getResource w parse m rid loc).2 = .ok (parse content) ∧
    cacheGet (getResource w parse m rid loc).1.cache (pathOf m.scheme loc rid) = some (parse content) := by
  simp [getResource, h, hw, cacheGet_insert _ _ _ _ h]

/-- cache miss, unreadable file (missing, directory, invalid UTF-8, …): the I/O error is returned —
no panic — and nothing is cached -/
theorem C19_get_resource_io_error (w : World) (parse : Bytes → Resource) (m : Mgr) (rid loc : Bytes) (e : IoErr)
    (h : cacheGet m.cache (pathOf m.scheme loc rid) = none)
    (hw : w m.clock (pathOf m.scheme loc rid) = .err e) :
    (getResource w parse m rid loc).2 = .error e ∧ (getResource w parse m rid loc).1.cache = m.cache := by
  simp [getResource, h, hw]

/-! ## bundle_contents -/

/-- A bundle request with a non-empty locale list never panics, whatever the file system does. -/
theorem C19_get_bundle_no_panic (w : World) (parse : Bytes → Resource) (m : Mgr) (locales ids : List Bytes)
    (h : locales ≠ []) : ∃ r, (getBundle w parse m locales ids).2 = .done r := by
  cases locales with
  | nil => exact absurd rfl h
  | cons l ls => exact ⟨_, rfl⟩

/-- The request performs one `get_resource` per listed id, in order, for the FIRST locale
(`loads … = the outcomes of these calls`), and its answer is `Ok` iff the failure list is empty. -/
theorem C19_bundle_result (w : World) (parse : Bytes → Resource) (m : Mgr) (loc : Bytes) (ls ids : List Bytes) :
    ((loads w parse loc ids m).2.length = ids.length) ∧
    (getBundle w parse m (loc :: ls) ids).1 = (loads w parse loc ids m).1 ∧
    ∃ b, (getBundle w parse m (loc :: ls) ids).2 =
      .done (if (failures (loads w parse loc ids m).2 []).isEmpty then .ok ⟨loc :: ls, b⟩
             else .error (failures (loads w parse loc ids m).2 [])) := by
  refine ⟨loads_length _ _ _ _ _, by rw [getBundle_eq], ?_⟩
  rw [getBundle_eq]
  refine ⟨(assemble (loads w parse loc ids m).2 Bundle.empty).1, ?_⟩
  simp only [finish]
  rw [assemble_errors _ Bundle.empty [] empty_inv (by intro id; simp [empty_abs, Spec.empty, idsOf])]

/-- **bundle_contents, success.**  If the request returns a bundle then every listed resource was
obtained (`rs`, in list order), the bundle carries the requested locales, its registry is exactly
C10's fold of `add_resource` over these resources, no id is defined twice among them, and therefore
every id resolves to its (unique) definition in the listed resources — the bundle contains exactly
their messages. -/
theorem C19_bundle_contents_ok (w : World) (parse : Bytes → Resource) (m : Mgr) (loc : Bytes)
    (ls ids : List Bytes) (fb : FBundle)
    (h : (getBundle w parse m (loc :: ls) ids).2 = .done (.ok fb)) :
    fb.locales = loc :: ls ∧
    ∃ rs : List Resource, (loads w parse loc ids m).2 = rs.map Except.ok ∧
      fb.reg = Registry.run (rs.map Op.add) ∧
      (idsOf rs.flatten).Nodup ∧
      (∀ id, fb.reg.abs id = firstDef rs.flatten id) ∧
      (∀ id, getMessage fb.reg id = match firstDef rs.flatten id with
        | some (.message v a) => some ⟨id, v, a⟩
        | _ => none) := by
  rw [getBundle_eq] at h
  simp only [finish, Outcome.done.injEq] at h
  split at h
  · rename_i hempty
    simp only [Except.ok.injEq] at h
    subst h
    have hnil : (assemble (loads w parse loc ids m).2 Bundle.empty).2 = [] := by
      simpa [List.isEmpty_iff] using hempty
    obtain ⟨rs, h1, h2, h3⟩ := assemble_ok _ _ hnil
    have hreg : (assemble (loads w parse loc ids m).2 Bundle.empty).1 = Registry.run (rs.map Op.add) := h2
    have habs : ∀ id, (Registry.run (rs.map Op.add)).abs id = firstDef rs.flatten id := by
      intro id
      have := (foldl_refines (rs.map Op.add) Bundle.empty Spec.empty empty_inv empty_abs).2
      unfold Registry.run
      rw [this, List.foldl_map]
      exact specAdd_fold_lookup rs Spec.empty id
    have hinv : (Registry.run (rs.map Op.add)).Inv :=
      (foldl_refines (rs.map Op.add) Bundle.empty Spec.empty empty_inv empty_abs).1
    refine ⟨rfl, rs, h1, hreg, (adds_clean_nodup rs Bundle.empty empty_inv h3).1, ?_, ?_⟩
    · intro id; simp only [hreg]; exact habs id
    · intro id
      simp only [hreg]
      unfold getMessage
      rw [getEntryMessage_eq _ hinv id, habs id]
      cases firstDef rs.flatten id with
      | none => rfl
      | some d => cases d <;> rfl
  · simp at h

/-- **bundle_contents, failure.**  If the request fails, the error list is non-empty and is exactly
the list of ALL failures in resource order: for each listed resource its I/O error if it could not
be read, otherwise one `Overriding{kind,id}` (in source order) for every entry whose id already
occurs in the resources obtained before it or earlier in the resource itself; unreadable resources
do not hide later ones. -/
theorem C19_bundle_contents_err (w : World) (parse : Bytes → Resource) (m : Mgr) (loc : Bytes)
    (ls ids : List Bytes) (errs : List MgrError)
    (h : (getBundle w parse m (loc :: ls) ids).2 = .done (.error errs)) :
    errs ≠ [] ∧ errs = failures (loads w parse loc ids m).2 [] := by
  obtain ⟨_, _, b, hb⟩ := C19_bundle_result w parse m loc ls ids
  rw [hb] at h
  simp only [Outcome.done.injEq] at h
  split at h
  · simp at h
  · rename_i hne
    simp only [Except.error.injEq] at h
    subst h
    exact ⟨by simpa [List.isEmpty_iff] using hne, rfl⟩

/-! ## load_once -/

/-- **load_once.**  After ANY request history against ANY file-system history:
(1) the log lists the reads the manager performed, numbered consecutively, each with the answer the
    file system gave at that moment;
(2) once a path has been read successfully it is never read again (so each path has at most one
    successful read — `C19_at_most_one_successful_read`);
(3) the cache holds exactly the paths that were read successfully, each with the parse of the content
    that was read then. -/
theorem C19_load_once (w : World) (parse : Bytes → Resource) (scheme : Bytes) (reqs : List Req) :
    let m := (runReqs w parse scheme reqs).mgr
    (m.log.map (·.tick) = List.range m.clock ∧ ∀ e ∈ m.log, e.result = w e.tick e.path) ∧
    m.log.Pairwise (fun e e' => IsOk e → e'.path ≠ e.path) ∧
    (∀ p r, cacheGet m.cache p = some r ↔
      ∃ e ∈ m.log, e.path = p ∧ ∃ c, e.result = .ok c ∧ r = parse c) := by
  have h := (foldl_stepReq_step w parse reqs (Sys.new scheme) (new_inv w parse scheme)).1
  refine ⟨⟨h.ticks, h.faithful⟩, h.once, fun p r => ⟨h.ok_of_cached p r, ?_⟩⟩
  rintro ⟨e, he, hp, c, hc, hr⟩
  subst hp hr
  exact h.cached_of_ok e he c hc

/-- each path has at most one successful read in the whole history -/
theorem C19_at_most_one_successful_read (w : World) (parse : Bytes → Resource) (scheme : Bytes)
    (reqs : List Req) (e₁ e₂ : LogEntry)
    (h₁ : e₁ ∈ (runReqs w parse scheme reqs).mgr.log) (h₂ : e₂ ∈ (runReqs w parse scheme reqs).mgr.log)
    (ok₁ : IsOk e₁) (ok₂ : IsOk e₂) (hp : e₁.path = e₂.path) : e₁ = e₂ := by
  have h := (C19_load_once w parse scheme reqs).2.1
  generalize (runReqs w parse scheme reqs).mgr.log = l at h h₁ h₂
  obtain ⟨i, hi, rfl⟩ := List.mem_iff_getElem.1 h₁
  obtain ⟨j, hj, rfl⟩ := List.mem_iff_getElem.1 h₂
  rw [List.pairwise_iff_getElem] at h
  rcases Nat.lt_trichotomy i j with hij | hij | hij
  · exact absurd hp.symm (h i j hi hj hij ok₁)
  · subst hij; rfl
  · exact absurd hp (h j i hj hi hij ok₂)

/-- **later requests see the first-loaded content.**  If at some point of a history the path of
`(locale, res_id)` has been read successfully with content `c`, then after ANY further requests —
whatever happens to the file meanwhile — `get_resource` for that path answers `parse c` from the
cache, without a read and without changing the manager. -/
theorem C19_first_loaded_content_sticks (w : World) (parse : Bytes → Resource) (scheme : Bytes)
    (reqs reqs' : List Req) (rid loc : Bytes) (e : LogEntry) (c : Bytes)
    (he : e ∈ (runReqs w parse scheme reqs).mgr.log) (hp : e.path = pathOf scheme loc rid)
    (hc : e.result = .ok c) :
    getResource w parse (runReqs w parse scheme (reqs ++ reqs')).mgr rid loc
      = ((runReqs w parse scheme (reqs ++ reqs')).mgr, .ok (parse c)) := by
  have h0 := foldl_stepReq_step w parse reqs (Sys.new scheme) (new_inv w parse scheme)
  have h1 := foldl_stepReq_step w parse reqs' _ h0.1
  have hrun : runReqs w parse scheme (reqs ++ reqs') =
      reqs'.foldl (fun s r => (stepReq w parse s r).1) (runReqs w parse scheme reqs) := by
    simp [runReqs, List.foldl_append]
  rw [hrun]
  have hs := h0.2.trans h1.2
  have hscheme : (reqs'.foldl (fun s r => (stepReq w parse s r).1) (runReqs w parse scheme reqs)).mgr.scheme
      = scheme := hs.scheme
  apply getResource_of_loaded w parse _ rid loc h1.1 e
  · exact (h1.2.log_prefix).subset he
  · rw [hp]; exact congrArg (fun s => pathOf s loc rid) hscheme.symm
  · exact hc

/-! ## bundles_lazy_in_order -/

/-- **lazy**: creating the multi-locale iterator reads nothing and changes nothing in the manager. -/
theorem C19_get_bundles_is_lazy (w : World) (parse : Bytes → Resource) (s : Sys) (locales ids : List Bytes) :
    (stepReq w parse s (.openIter locales ids)).1.mgr = s.mgr ∧
    (stepReq w parse s (.openIter locales ids)).1.iters = s.iters ++ [⟨locales, ids, 0⟩] :=
  ⟨rfl, rfl⟩

/-- **one result per locale, in order, computed when pulled**: the `next()` that finds locale number
`idx` is exactly the single-locale bundle request for that locale against the manager and the file
system as they are at that moment, and advances the iterator by one. -/
theorem C19_next_is_single_locale_request (w : World) (parse : Bytes → Resource) (m : Mgr)
    (it : BundlesIter) (loc : Bytes) (h : it.locales[it.idx]? = some loc) :
    ∃ r, getBundle w parse m [loc] it.ids = ((it.next w parse m).1, .done r) ∧
      it.next w parse m = ((it.next w parse m).1, { it with idx := it.idx + 1 }, some r) := by
  rw [next_some _ _ _ _ _ h, getBundle_eq]
  exact ⟨_, rfl, rfl⟩

/-- past the last locale `next()` answers `None`, reads nothing and changes nothing -/
theorem C19_next_past_the_end (w : World) (parse : Bytes → Resource) (m : Mgr) (it : BundlesIter)
    (h : it.locales.length ≤ it.idx) : it.next w parse m = (m, it, none) :=
  next_none _ _ _ _ (List.getElem?_eq_none h)

/-- **lazy**: a `next()` reads only paths of the locale it is about to yield (never those of a later
locale), and the cache and log only grow. -/
theorem C19_next_reads_only_its_locale (w : World) (parse : Bytes → Resource) (scheme : Bytes)
    (reqs : List Req) (it : BundlesIter) :
    let m := (runReqs w parse scheme reqs).mgr
    Step m (it.next w parse m).1
      (fun p => ∃ loc, it.locales[it.idx]? = some loc ∧ ∃ rid ∈ it.ids, p = pathOf m.scheme loc rid) :=
  (next_step w parse _ it (foldl_stepReq_step w parse reqs (Sys.new scheme) (new_inv w parse scheme)).1).2

/-- **in order, one per locale**: pulling a fresh iterator `locales.length + k` times yields exactly
the results of the single-locale requests for `locales` in the given order, followed by `k` times
`None`. -/
theorem C19_bundles_in_order (w : World) (parse : Bytes → Resource) (m : Mgr) (locales ids : List Bytes)
    (k : Nat) :
    pulls w parse (locales.length + k) m (getBundles locales ids) =
      ((seqBundles w parse ids locales m).1, ⟨locales, ids, locales.length⟩,
       (seqBundles w parse ids locales m).2.map some ++ List.replicate k none) := by
  have := pulls_drop w parse locales ids k locales 0 m (by simp)
  simpa [getBundles] using this

/-! ## the driver's form of a history -/

/-- A history in which every request is evaluated against its own file-system function — in
particular against the snapshot of the moment, constant during the request, which is how the
correspondence driver runs the model (`runPW`, responses included) — is a history against ONE world.
Hence every theorem above about `runReqs` speaks about the runs that are compared with the
implementation. -/
theorem C19_snapshot_runs_are_world_runs (parse : Bytes → Resource) (scheme : Bytes)
    (steps : List (World × Req)) :
    ∃ W : World,
      (runPW parse (Sys.new scheme) steps).1 = runReqs W parse scheme (steps.map (·.2)) ∧
      (runPW parse (Sys.new scheme) steps).2 = resps W parse (Sys.new scheme) (steps.map (·.2)) :=
  piecewise_glue parse steps (Sys.new scheme)

/-! ## non-vacuity (tests on literals, labelled as such) -/

section Examples
private def A : Id := [65]
private def sch : Bytes := [120, 47] ++ localePat ++ [47] ++ resIdPat     -- "x/{locale}/{res_id}"
private def pl : Bytes := [112, 108]
private def rid : Bytes := [109]
private def pth : Bytes := [120, 47, 112, 108, 47, 109]                    -- "x/pl/m"
/-- the file exists with content `[1]` for reads 0 and 1, then with content `[2]` -/
private def w0 : World := fun t p => if p = pth then (if t < 2 then .ok [1] else .ok [2]) else .err .notFound
private def p0 (c : Bytes) : Resource := [.message A (some c) []]

/-- test: the scheme is an instance of `C19_path_substitution` -/
example : pathOf sch pl rid = pth := by decide
/-- test: two requests, the file changes in between, one read, first content served twice -/
example :
    let s := runReqs w0 p0 sch [.bundle [pl] [rid], .bundle [pl] [rid]]
    s.mgr.log.length = 1 ∧ cacheGet s.mgr.cache pth = some (p0 [1]) := by decide
/-- test: the same resource listed twice is reported as a duplicate; a missing one as an I/O error -/
example : (match (getBundle w0 p0 (Mgr.new sch) [pl] [rid, [110], rid]).2 with
    | .done (.error es) => es | _ => []) = [.io .notFound, .fluent ⟨.message, A⟩] := by decide
/-- test: a successful request returns the message -/
example : (match (getBundle w0 p0 (Mgr.new sch) [pl] [rid]).2 with
    | .done (.ok fb) => getMessage fb.reg A | _ => none) = some ⟨A, some [1], []⟩ := by decide
end Examples

end FluentProofs.C19
