import FluentProofs.ResMgr
/-!
# C19 — ResourceManager: files loaded once, bundles per locale, I/O faults reported
-/
namespace FluentProofs.C19
open FluentModel FluentModel.Registry FluentModel.ResMgr

/-- a bundle request with a non-empty locale list never panics, whatever the file system does -/
theorem C19_get_bundle_no_panic (w : World) (parse : Bytes → Resource) (m : Mgr) (locales ids : List Bytes)
    (h : locales ≠ []) : ∃ r, (getBundle w parse m locales ids).2 = .done r := by
  cases locales with
  | nil => exact absurd rfl h
  | cons l ls => exact ⟨_, rfl⟩

end FluentProofs.C19
