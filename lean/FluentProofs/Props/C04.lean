import FluentModel.Serializer
namespace FluentProofs.C04
theorem placeholder : True := trivial
end FluentProofs.C04
