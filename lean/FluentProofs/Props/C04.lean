import FluentProofs.ConstTieSyntax
import FluentProofs.SerializerEntries
import FluentProofs.SerializerLineSplit
import FluentProofs.SerializerSources
import FluentProofs.SerializerSelect
import FluentProofs.SerializerFinal
import FluentProofs.SerializerOutValid
import FluentProofs.SerializerOutShape5
import FluentProofs.SerializerOutCrValid
import FluentProofs.SerializerJunkTransfer
/-!
# C04 — serializer round trip

Model: `FluentModel/Serializer.lean` (`Serializer` + `TextWriter`, function for function) and
`FluentModel/Parser.lean`.  The two full statements are the `def`s `C04_roundtrip_statement` and
`C04_fixpoint_statement` below.  **Both are proved, for EVERY `String` and both values of `with_junk`, without any
hypothesis on the tree or on the bytes: `C04_roundtrip_full`, `C04_fixpoint_full`** (`C04_roundtrip_all` gives the four
conjuncts at once).  Milestones kept as theorems of their own: `C04_roundtrip_crfree_nojunk`,
`C04_roundtrip_crfree_junkfree` (`\r`-free sources, where the tree itself — not only its `normSafe` form — is in the
class), `C04_roundtrip_noLoneCR` (every `\r` followed by `\n`), `C04_roundtrip_junk` / `C04_roundtrip_withJunk` (Junk
kept by the serializer), `C04_roundtrip_all_nojunk` and `C04_roundtrip_cr` (sources with a lone `\r`, the last case to
be closed: the former open `def` `C04_roundtrip_cr_open` is now a theorem).  In detail, for all trees / all inputs
(structural induction over the mutual AST types, partial-correctness induction along the parser functions):

* T1a `serialize_total` — the serializer never panics (`dedent` never underflows), any tree shape;
* T1b `writeLiteral_discipline`, `newline_discipline`, `writeCharIntoIndent_discipline`,
  `star_only_replaces_indentation` — what the `TextWriter` primitives do to the buffer;
* T1c `writeLiteral_join_iff`, `serialize_congr`, `serialize_congr_lineSplit`,
  `fixpoint_of_roundtrip_lineSplit` — the exact congruence under joining text elements;
* `parse_lineSplit`, `fixpoint_of_roundtrip` — the parser produces line-split trees (for every
  source), hence **`C04_roundtrip_statement → C04_fixpoint_statement`**;
* T2 `inline_serialize`, `inline_roundtrip`, `inline_roundtrip_source` — every valid inline
  expression (all seven forms, call arguments, nested placeables) is parsed back;
* T2 `pattern_roundtrip_singleline`, `roundtrip_singleline_partial`, `roundtrip_singleline_sources` —
  the full round trip and fixed point for resources of messages/terms with single-line values;
* `serialize_output_str_invariant` — the serializer's output on a parsed tree keeps the `&str` invariant;
* T3 `pattern_roundtrip` — multi-line patterns (common indent, blank lines, excess indentation,
  placeable-led lines, inline start for `.`/`[`/`*`, trim) and select expressions, nested, at every level —
  also inside doubled / nested placeables, call arguments and selectors (`inline_roundtrip_level`,
  `placeable_roundtrip_level`: the level-indexed inline layer);
* T3 `roundtrip_class_partial`, `roundtrip_class_sources` — **both full statements for every source
  whose parse tree is `RoundTrippable`** (decidable): messages and terms with optional values,
  attributes, attached comments; free comments of the three levels; Junk when serialising without junk.
  A census (`#guard`, tests) shows 35 of the 36 fixture files inside the class for `with_junk = false`
  (the other one, `crlf.ftl`, is covered through `normSafe`: `"x"`, `"\n"` joined to `"x\n"`);
* **the other half, "every tree the parser produces is in the class"**: `parse_pattern_shape` (the element
  list `get_pattern` returns after dedent and trim is an `mlPattern`, any `\r`-free source, any fuel, any
  start), `parse_pattern_shape_crlf` (the same after joining `"x"`, `"\n"` for CRLF sources),
  `parse_output_in_class` (every entry of the parse tree is Junk or `rtEntry`: bridge from `ValidEntry`,
  deep lifting of the pattern shape, comments), `parse_output_roundTrippable`,
  `parse_output_normSafe_roundTrippable`;
* **`C04_roundtrip_crfree_nojunk`, `C04_roundtrip_crfree_junkfree`, `C04_roundtrip_noLoneCR`** — the full
  statements for all such sources (no hypothesis on the tree, no fuel hypothesis).  To get there the class was
  widened where the parser produces shapes that round-trip but were excluded: multi-line patterns in which no
  line takes part in the common indent (`b=.{$x ->…}z`), named-argument values that are message references or
  calls (`F(x: foo)`, the parser's `only_literal` leniency), select expressions at every inline position.

* **Junk kept by the serializer (`with_junk = true`)**: `C04_roundtrip_junk`.  The serializer re-emits a Junk's bytes
  verbatim; the bytes of a Junk run from a line start to the next entry start / the end of input, and the failing run
  of `get_entry` that produced it may have looked into the first line of the following entry (up to its `=`), whose
  blanks the serializer normalises.  Proof: a two-source simulation of the parser (`FluentProofs/ParserLocalSim*.lean`:
  two sources that agree up to a line start `N` holding, in both, a `#` or an entry head: every parser function
  started at or before `N` returns the same outcome in both, or ends behind `N` inside the entry head in both —
  `junk_transfer`, `attr_transfer`), the facts about the Junk spans of a parse tree (`SerializerJunkSrc*.lean`:
  `parse_srcGood`), their transfer to every text that holds the same Junk bytes followed by the serialised following
  entries (`SerializerJunkTransfer.lean`: `jgood_of_srcGood`), and the entry loop on such a text
  (`SerializerJunkText.lean`: `parseLoop_textJ`, `roundtrip_junk_tree`).

* **Sources with a lone `\r`** (a byte 13 not followed by 10; the parser treats it as an ordinary byte of a text or a
  comment line, `trim` strips it from the end of a pattern, the `TextWriter` doubles it in front of a `\n` — the fix for
  defect F24): `C04_roundtrip_cr`.  The class admits the byte 13 in text elements and comment lines under the
  conditions the writer needs: a text does not end with `\r\n`; a text that ends with `\r` is followed by a placeable
  or by the text `"\n"` (the shape the parser returns for `…\r\r\n`: the slice is cut in front of the LAST `\r`, the
  `\n` is pushed as an element of its own; the serialised text — `Ser.elemsText` with `Ser.crPad` — holds the doubled
  `\r` and is read back as the same two elements); the last text does not end with `\r`; a comment line may contain and
  end with `\r` (`Ser.commentText` with `Ser.crDbl`); a `\r` may start a continuation line, a text behind a placeable,
  a pattern, a Junk (`Ser.Stopper`, `Ser.nonBlankStart`, `Ser.stopperText` ask that a `\r` is not followed by `\n`).
  Class round trip: `Ser.mlLoop` (the `get_pattern` loop on the serialised text, with the "pending line feed" state
  behind a `.crlf` slice), `Ser.serElements_ml_g` (the writer behind a text that ends with `\r`),
  `Ser.getCommentGo_text`.  Parser output in the class for EVERY source: `parse_pattern_shape_all`
  (`Ser.getPattern_mlPattern_joinAll`), `Ser.parse_comments_all`, `parse_output_normSafe_roundTrippable_all`; Junk for
  every source: `Ser.roundtrip_junk_source_all`.  Before proving, the statement was searched for counterexamples by
  evaluation of the model: all sources of length ≤ 8 over the alphabet `a`, space, `=`, LF, CR, `{`, `}`, `.`, `#`, `-`,
  `"` that contain a lone `\r`, all `a=`+w with |w| ≤ 8 over a pattern alphabet, comment / multi-line / select
  templates with 7 free bytes — both options, no violation.

`C04_fixpoint_statement` needs nothing else than `C04_roundtrip_statement` (`fixpoint_of_roundtrip`).
-/
namespace FluentProofs.C04
open FluentModel FluentModel.Syntax FluentModel.Syntax.Ser FluentProofs.Parser FluentProofs.Ser

/-! ## the full statements (kept visible as `def`s; proved at the end of the file: `C04_roundtrip_full`,
`C04_fixpoint_full`) -/

/-- **C04 round trip (full statement; theorem `C04_roundtrip_full`).**
For every source string and both options: if the parser gives the tree `t`, then serialising `t` succeeds with some text `out`, parsing `out`
succeeds with a tree `t'`, and `t'` equals `t` under `norm` (adjacent text elements joined
recursively, whitespace-only comment lines equal to empty ones, Junk dropped when `¬withJunk`).

Proved for every string, both options, no hypothesis on the tree: `C04_roundtrip_full` (cases: `C04_roundtrip_noLoneCR`
for strings without a lone `\r`, `C04_roundtrip_cr` for the others; Junk kept by the serializer: `C04_roundtrip_withJunk`,
`C04_roundtrip_withJunk_all`). -/
def C04_roundtrip_statement : Prop :=
  ∀ (str : String) (withJunk : Bool) (t : Resource Span) (errs : List PErr),
    parse str.toUTF8.data = .done (t, errs) →
    ∃ out, Ser.serialize withJunk (resolve str.toUTF8.data t) = some out ∧
      ∃ t' errs', parse out.toArray = .done (t', errs') ∧
        norm withJunk (resolve out.toArray t') = norm withJunk (resolve str.toUTF8.data t)

/-- **C04 fixed point (full statement; theorem `C04_fixpoint_full`).**  Serialising the re-parsed tree reproduces the
text byte for byte.

`fixpoint_of_roundtrip` proves that it follows from `C04_roundtrip_statement`; it is also the last conjunct of
`C04_roundtrip_all`. -/
def C04_fixpoint_statement : Prop :=
  ∀ (str : String) (withJunk : Bool) (t : Resource Span) (errs : List PErr),
    parse str.toUTF8.data = .done (t, errs) →
    ∀ out, Ser.serialize withJunk (resolve str.toUTF8.data t) = some out →
      ∀ t' errs', parse out.toArray = .done (t', errs') →
        Ser.serialize withJunk (resolve out.toArray t') = some out

/-! ## T1a — totality -/

/-- **T1a.**  For every resource — any tree shape, not only parser output — and both options the
serializer returns a text: the `expect` in `TextWriter::dedent` is unreachable.  (Invariant, by
mutual structural induction over `Inline`/`Expr`/`Variant`/`PatElem`: every serializer function
returns `some` writer with the `indentLevel` it was given — `Ser.serInline_keeps` …
`Ser.serResourceGo_keeps`.) -/
theorem serialize_total (withJunk : Bool) (r : Resource Bytes) : Ser.serialize withJunk r ≠ none := by
  obtain ⟨out, h⟩ := serialize_isSome withJunk r
  rw [h]; exact fun h => by cases h

/-- every expression/pattern-level serializer function keeps the indent level and never fails -/
theorem serializer_keeps_indent (w : Writer) :
    (∀ e, ∃ w', serInline w e = some w' ∧ w'.indentLevel = w.indentLevel) ∧
    (∀ e, ∃ w', serExpr w e = some w' ∧ w'.indentLevel = w.indentLevel) ∧
    (∀ v, ∃ w', serVariant w v = some w' ∧ w'.indentLevel = w.indentLevel) ∧
    (∀ p, ∃ w', serPattern w p = some w' ∧ w'.indentLevel = w.indentLevel) :=
  ⟨fun e => serInline_keeps e w, fun e => serExpr_keeps e w, fun v => serVariant_keeps v w,
   fun p => serPattern_keeps p w⟩

/-! ## T1b — writer discipline -/

/-- **T1b, `write_literal`.**  It only appends.  Right after a line break the line starts with
exactly `4 · indentLevel` spaces followed by the literal; elsewhere the literal is appended, preceded
by one extra `\r` iff the buffer ends with `\r` and the literal starts with `\n`. -/
theorem writeLiteral_discipline (w : Writer) (item : Bytes) :
    (endsWith w 10 = true →
      (w.writeLiteral item).buffer = w.buffer ++ spaces (4 * w.indentLevel) ++ item.toArray) ∧
    (endsWith w 10 = false →
      (w.writeLiteral item).buffer =
        w.buffer ++ (if endsWith w 13 && item.head? == some 10 then #[13] else #[]) ++ item.toArray) ∧
    (w.writeLiteral item).indentLevel = w.indentLevel :=
  ⟨writeLiteral_after_newline w item, writeLiteral_mid_line w item, writeLiteral_indentLevel w item⟩

/-- **T1b, `newline`.**  Appends `\n`, after a second `\r` if the buffer ends with `\r`; afterwards
the buffer ends with `\n`. -/
theorem newline_discipline (w : Writer) :
    w.newline.buffer = w.buffer ++ (if endsWith w 13 then #[13, 10] else #[10]) ∧
    endsWith w.newline 10 = true ∧ w.newline.indentLevel = w.indentLevel :=
  ⟨newline_buffer w, newline_endsWith w, rfl⟩

/-- **T1b, `write_char_into_indent`.**  At the start of a line inside indent level `k + 1` it appends
`4k + 3` spaces and the character (i.e. the last indentation space is replaced, nothing older is
touched); in general, when the buffer ends with a non-continuation byte `x ≠ '\n'`, exactly `x` is
replaced. -/
theorem writeCharIntoIndent_discipline (w : Writer) (ch : UInt8) :
    (∀ k, endsWith w 10 = true → w.indentLevel = k + 1 →
      (w.writeCharIntoIndent ch).buffer = w.buffer ++ spaces (4 * k + 3) ++ #[ch]) ∧
    (∀ (b : Array UInt8) (x : UInt8), w.buffer = b.push x → x ≠ 10 → (x &&& 0xC0) ≠ 0x80 → (w.writeCharIntoIndent ch).buffer = b.push ch) :=
  ⟨fun k h hk => writeCharIntoIndent_after_newline w ch k h hk,
   fun b x h h1 h2 => writeCharIntoIndent_mid_line w ch x b h h1 h2⟩

/-- **T1b, the `*` of a default variant only ever replaces an indentation space.**  Serialising a
select expression calls `write_char_into_indent` only at the start of a line inside indent level
≥ 1: `serialize_expression` equals the variant loop `serVariantsSpec`, in which the `*` is appended
after `4·indentLevel − 1` spaces (`starIndent`) and no byte of the buffer is ever removed. -/
theorem star_only_replaces_indentation (w : Writer) (sel : Inline Bytes) (vs : List (Variant Bytes)) :
    serExpr w (.select sel vs) =
      match serInline w sel with
      | none => none
      | some w1 =>
        match serVariantsSpec (((w1.writeLiteral (lit " ->")).newline).indent) vs with
        | none => none
        | some w3 => w3.dedent :=
  serExpr_select_eq w sel vs

/-! ## T1c — congruence -/

/-- **T1c, two literals.**  For non-empty `a`: writing `a` then `b` gives the same writer as writing
`a ++ b` **iff** no indentation is inserted between them (`a` does not end with `\n`, or the indent
level is 0) and no `\r` is doubled (`a` ends with `\r` and `b` starts with `\n`). -/
theorem writeLiteral_join_iff (w : Writer) (a b : Bytes) (ha : a ≠ []) :
    (w.writeLiteral a).writeLiteral b = w.writeLiteral (a ++ b) ↔
      (a.getLast? = some 10 → w.indentLevel = 0) ∧ ¬(a.getLast? = some 13 ∧ b.head? = some 10) :=
  Ser.writeLiteral_join_iff w a b ha

/-- **T1c `serialize_congr`, the congruence that is true.**  For every resource and both options:
joining every adjacent pair of text elements `a, b` with `JoinOK a b` (`a ≠ []`, `a` does not end
with `\n`, not (`a` ends with `\r` and `b` starts with `\n`)) in every pattern of the tree
(recursively), replacing whitespace-only comment lines by empty ones and dropping Junk when
`¬withJunk` (`normSafe`) leaves the output unchanged; `is_multiline` / `has_leading_text_dot` agree
(`Ser.isMultiline_nPat`, `Ser.hasLeadingTextDot_nPat`).  The unrestricted `norm` does **not** have
this property: `[text "a\n", text "b"]` is written with indentation before `b`,
`[text "a\nb"]` without. -/
theorem serialize_congr (withJunk : Bool) (r : Resource Bytes) :
    Ser.serialize withJunk (normSafe withJunk r) = Ser.serialize withJunk r :=
  serialize_normSafe withJunk r

/-- **T1c for parser-shaped trees.**  Two line-split resources (`LineSplit`: every text element is
non-empty, contains `\n` only as its last byte and no `\r\n`) that are equal under the property's
comparison `norm` serialise to the same bytes. -/
theorem serialize_congr_lineSplit (withJunk : Bool) (r₁ r₂ : Resource Bytes) (h₁ : LineSplit r₁) (h₂ : LineSplit r₂)
    (h : norm withJunk r₁ = norm withJunk r₂) : Ser.serialize withJunk r₁ = Ser.serialize withJunk r₂ :=
  Ser.serialize_congr_lineSplit withJunk r₁ r₂ h₁ h₂ h

/-- **`fixpoint` is a corollary of `roundtrip` for line-split trees** (conditional form of
`C04_fixpoint_statement`): if the tree `t` and the re-parsed tree `t'` are line-split and equal under
`norm`, the second serialisation reproduces `out`. -/
theorem fixpoint_of_roundtrip_lineSplit (withJunk : Bool) (t t' : Resource Bytes) (out : Bytes)
    (hout : Ser.serialize withJunk t = some out) (hls : LineSplit t) (hls' : LineSplit t')
    (hnorm : norm withJunk t' = norm withJunk t) : Ser.serialize withJunk t' = some out := by
  rw [Ser.serialize_congr_lineSplit withJunk t' t hls' hls hnorm, hout]

/-- **The parser produces line-split trees.**  For every byte source, every text element of every
pattern (values, attribute values, variant values, at any depth) in the tree returned by `parse` is
non-empty, contains `\n` only as its last byte and contains no `\r\n` (partial-correctness
induction along the eight mutually recursive parser functions, with an invariant on the placeholders
of `get_pattern` including "the element `last_non_blank` points to survives `trim`"). -/
theorem parse_lineSplit (s : Src) (t : Resource Span) (errs : List PErr) (h : parse s = .done (t, errs)) :
    LineSplit (resolve s t) :=
  Ser.parse_lineSplit s t errs h

/-- **`fixpoint` is a corollary of `roundtrip`**: the second full statement follows from the first,
because both the original and the re-parsed tree are parser output, hence line-split
(`parse_lineSplit`), and line-split trees that agree under `norm` serialise identically
(`serialize_congr_lineSplit`). -/
theorem fixpoint_of_roundtrip (h : C04_roundtrip_statement) : C04_fixpoint_statement := by
  intro str withJunk t errs hp out hout t' errs' hp'
  obtain ⟨out2, ho2, t2, errs2, hp2, hnorm⟩ := h str withJunk t errs hp
  rw [hout] at ho2
  cases ho2
  rw [hp'] at hp2
  cases hp2
  rw [Ser.serialize_congr_lineSplit withJunk _ _ (Ser.parse_lineSplit _ _ _ hp') (Ser.parse_lineSplit _ _ _ hp) hnorm,
    hout]

/-! ## T2 — inline expressions -/

/-- **T2, serializer half.**  For a valid inline expression the serializer writes exactly the text
`inlineBytes e`, as if by a single `write_literal`, whatever the writer's state. -/
theorem inline_serialize (e : Inline Bytes) (hv : validInline e = true) (w : Writer) :
    serInline w e = some (w.writeLiteral (inlineBytes e)) :=
  (serInline_eq_bytes e hv w).1

/-- **T2 `inline_roundtrip`.**  See `Ser.inline_roundtrip`: for every `validInline` expression `e`
(identifiers / number literals well-shaped, string literals with valid escapes only and no raw
newline or quote, callee upper-case, named-argument names unique with values that are literals, message
references or function calls, no select and
no term attribute inside a nested placeable) and every writer `w`, the serializer writes one literal
`out`, and on every source with the `&str` invariant that contains `out` at `p` followed by something
that cannot extend the expression, `get_inline_expression` returns `e'` with `resolve e' = e` and
stops at `endPos e s (p + out.length)`. -/
theorem inline_roundtrip (e : Inline Bytes) (hv : validInline e = true) (w : Writer) :
    ∃ out, serInline w e = some (w.writeLiteral out) ∧
      ∀ (s : Src) (p fuel : Nat), AsciiThenBoundary s → At s p out → Follow s (p + out.length) →
        fuelInline e ≤ fuel →
        ∃ e', getInline s fuel false p = .ok e' (endPos e s (p + out.length)) ∧ e'.mapS (spanBytes s) = e :=
  Ser.inline_roundtrip e hv w

/-- **T2, concrete form**: `pre ++ serialise(e) ++ rest` with `rest` starting with `,` `)` `}` or `:`
is parsed back to `e`, stopping exactly at `rest`. -/
theorem inline_roundtrip_source (e : Inline Bytes) (hv : validInline e = true) (pre rest : Bytes) (c : UInt8)
    (hc : c = 44 ∨ c = 41 ∨ c = 125 ∨ c = 58) (hrest : rest.head? = some c) (fuel : Nat) (hfuel : fuelInline e ≤ fuel) :
    ∃ out, (serInline {} e).map (fun w => w.buffer.toList) = some out ∧
      (AsciiThenBoundary (pre ++ out ++ rest).toArray →
        ∃ e', getInline (pre ++ out ++ rest).toArray fuel false pre.length = .ok e' (pre.length + out.length) ∧
          e'.mapS (spanBytes (pre ++ out ++ rest).toArray) = e) :=
  Ser.inline_roundtrip_source e hv pre rest c hc hrest fuel hfuel

/-! ## T2 — single-line patterns and entries -/

/-- **T2, pattern level.**  For a valid single-line pattern `es` (`validSingleLine`) the serializer
writes ` ` followed by `patBytes es` (`Ser.serPattern_eq`), and on every source with the `&str`
invariant that contains `" " ++ patBytes es ++ "\n"` at `p` and continues with the end of input or a
line that cannot continue the pattern, `get_pattern` returns a pattern that resolves to `es` and
stops behind the line feed. -/
theorem pattern_roundtrip_singleline (es : List (PatElem Bytes)) (hv : validSingleLine es = true) :
    (∀ (w : Writer) (acc : Bytes), tidy acc = true →
      serPattern (w.writeLiteral acc) es = some (w.writeLiteral (acc ++ 32 :: patBytes es))) ∧
    (∀ (s : Src) (p n : Nat), AsciiThenBoundary s → At s p (32 :: (patBytes es ++ [10])) →
      LineEndOK s (p + 1 + (patBytes es).length + 1) → fuelPat es + 1 ≤ n →
      ∃ els, getPattern s n p = .ok (some els) (p + 1 + (patBytes es).length + 1) ∧
        mapPat (spanBytes s) els = es) :=
  ⟨fun w acc ha => (serPattern_eq es (validSingleLine_elems hv) w acc ha).1,
   fun _ p n hs h hend hn => getPattern_singleline hs es hv p n h hend hn⟩

/-- **T2 `roundtrip_singleline_partial`** — both full statements, restricted to trees of messages and
terms with single-line values.  For every resource all of whose entries satisfy `validSimpleEntry`
(message or term; identifier well-shaped; value a `validSingleLine` pattern: non-empty, texts
non-empty without `\n` `\r` `{` `}`, placeables with `validInline` expressions and no select / term
attribute, no adjacent texts, no leading or trailing space; no attributes; no comment) and both
options: `serialize` returns `out`; if `out` has the `&str` invariant (true whenever the tree's
strings are UTF-8) then `parse out` — with the fuel `parse` itself passes — returns, with an empty
error list, a tree that resolves to **exactly** `r` (hence equal under `norm`), and serialising the
re-parsed tree gives `out` again.

`_partial`: multi-line patterns, selects, attributes, comments and Junk are not covered, and the
quantification is over trees of this shape rather than over sources. -/
theorem roundtrip_singleline_partial (withJunk : Bool) (r : Resource Bytes)
    (hv : ∀ e ∈ r, validSimpleEntry e = true) :
    ∃ out, Ser.serialize withJunk r = some out ∧
      (AsciiThenBoundary out.toArray →
        ∃ t', parse out.toArray = .done (t', []) ∧ resolve out.toArray t' = r ∧
          norm withJunk (resolve out.toArray t') = norm withJunk r ∧
          Ser.serialize withJunk (resolve out.toArray t') = some out) := by
  obtain ⟨out, h1, h2⟩ := roundtrip_singleline withJunk r hv
  refine ⟨out, h1, fun hs => ?_⟩
  obtain ⟨t', h3, h4, h5⟩ := h2 hs
  exact ⟨t', h3, h4, by rw [h4], h5⟩

/-- **T3, pattern level: every pattern of the class `rtPattern` round-trips at every indent level.**
`rtPattern` (decidable) = `mlPattern` — non-empty; texts non-empty, without `\r` `{` `}`, `\n` only as
last byte; two texts adjacent only across a line break; a text that starts a line is a blank line `"\n"`,
or spaces followed by a byte other than ` ` `\n` `.` `[` `*`, or only spaces in front of a placeable (the
F17 shape); the last text does not end with ` `/`\n`; the first text fits the layout the serializer
chooses (`starts_on_new_line`: not a blank line / inline: no leading space); for multi-line patterns
some line has no excess indentation (or no line takes part in the common-indent computation) — with
placeables of the class `rtExpr`: inline expressions `rtInline` (like `validInline`, but a nested placeable
may again contain any `rtExpr`) that are not term attributes, or **select expressions** (selector an
`rtInline` of a shape accepted by the parser, valid keys, exactly one default, values again `rtPattern`),
recursively — so selects may sit inside `{{ … }}`, `{ { { … } } }`, call arguments and selectors.

For such `p` and every level `L`: (serializer) from a writer at level `L` whose buffer ends with
neither `\n` nor `\r`, `serialize_pattern` appends exactly `patText L p` (newline + `4·(L+1)` spaces
per line for multi-line patterns, inline start for patterns starting with `.` `[` `*`, select variants
one level deeper with the `*` in the last indentation column) and returns to level `L`; (parser) on
every source with the `&str` invariant containing `patText L p ++ "\n"` followed by empty lines and a
line on which a pattern stops, `get_pattern` returns a pattern that resolves to exactly `p` — the
common indent it removes is `4·(L+1)`, blank lines, excess indentation, placeable-led lines and the
final `trim` come out as in `p`. -/
theorem pattern_roundtrip (p : List (PatElem Bytes)) (h : rtPattern p = true) (L : Nat) :
    (∀ w : Writer, WS w L false →
      ∃ w', serPattern w p = some w' ∧ w'.buffer = w.buffer ++ (patText L p).toArray ∧ WS w' L false) ∧
    (∀ (s : Src) (q q' n : Nat), AsciiThenBoundary s → At s q (patText L p ++ [10]) →
      PatFollow s (q + (patText L p).length + 1) q' → 4 * (q' - q) + 8 ≤ n →
      ∃ els, getPattern s n q = .ok (some els) q' ∧ mapPat (spanBytes s) els = p) :=
  ⟨(rtPattern_patRT p h L).ser, (rtPattern_patRT p h L).parse⟩

/-- **T3, the level-indexed inline layer.**  For every inline expression of the class `rtInline` (decidable:
like `validInline`, but a nested placeable may contain any `rtExpr`, in particular a select expression —
directly, `{ $x -> … }`, or deeper inside call arguments) and every indent level `L`: (serializer) from a
writer at level `L` whose buffer ends with neither `\n` nor `\r`, `serialize_inline_expression` appends
exactly `inlineText L e` (= `inlineBytes e` when `e` is select-free, `inlineText_valid`; the variants of a
nested select one level deeper, its closing brace after `4·L` spaces) and stays at level `L`; (parser) on
every source with the `&str` invariant containing that text, followed by something that cannot extend the
expression, `get_inline_expression` returns a tree that resolves to `e`. -/
theorem inline_roundtrip_level (e : Inline Bytes) (h : rtInline e = true) (L : Nat) :
    (∀ w : Writer, WS w L false →
      ∃ w', serInline w e = some w' ∧ w'.buffer = w.buffer ++ (inlineText L e).toArray ∧ WS w' L false) ∧
    (∀ (s : Src) (p fuel : Nat), AsciiThenBoundary s → At s p (inlineText L e) →
      Follow s (p + (inlineText L e).length) → 4 * (inlineText L e).length + 4 ≤ fuel →
      ∃ e', getInline s fuel false p = .ok e' (endPos e s (p + (inlineText L e).length)) ∧
        e'.mapS (spanBytes s) = e) :=
  ⟨(rtInline_inlRT e h L).ser, (rtInline_inlRT e h L).parse⟩

/-- **T3, placeables at a level.**  For every expression of the class `rtExpr` and every level `L`, as a
pattern element: `serialize_element` appends (after the indentation, at a line start) exactly `exprText L x`
— `{ i }`, `{{ e }}` or `{ sel ->` … `}` — and `get_placeable`, started behind the opening brace, reads it
back to exactly `x`. -/
theorem placeable_roundtrip_level (x : Expr Bytes) (h : rtExpr x = true) (L : Nat) :
    (∀ (w : Writer) (nl : Bool), WSc w L nl →
      ∃ w', serElement w (.placeable x) = some w' ∧
        w'.buffer = w.buffer ++ ((if nl then spacesL (4 * L) else []) ++ exprText L x).toArray ∧ WS w' L false) ∧
    (∀ (s : Src) (p n : Nat), AsciiThenBoundary s → At s p (exprText L x) → 4 * (exprText L x).length + 11 ≤ n →
      ∃ ex, getPlaceable s n (p + 1) = .ok ex (p + (exprText L x).length) ∧ ex.mapS (spanBytes s) = x) :=
  ⟨(rtExpr_plRT x h L).ser, (rtExpr_plRT x h L).parse⟩

/-- the select-free class is contained in the level-indexed one -/
theorem validInline_rtInline (e : Inline Bytes) (h : validInline e = true) : rtInline e = true :=
  rtInline_of_valid e h

/-- **The serializer's output on a parsed tree is again a `&str`-shaped byte string**: for every
`String` and both options, the output of serialising its parse tree satisfies `AsciiThenBoundary` (the
only UTF-8 fact the parser model uses).  Proof: every string of the tree is a slice at char boundaries
(`C01.parse_slices_valid`), such slices never start with a continuation byte and never have one after
an ASCII byte, and the `TextWriter` only interleaves them with ASCII (writer invariant by mutual
structural induction, `Ser.serialize_atb`). -/
theorem serialize_output_str_invariant (str : String) (t : Resource Span) (errs : List PErr)
    (hp : parse str.toUTF8.data = .done (t, errs)) (withJunk : Bool) (out : Bytes)
    (h : Ser.serialize withJunk (resolve str.toUTF8.data t) = some out) : AsciiThenBoundary out.toArray :=
  serialize_atb_of_parse str t errs hp withJunk out h

/-- **T2 `roundtrip_singleline_partial`, for sources.**  `C04_roundtrip_statement` and
`C04_fixpoint_statement` restricted to the strings whose parse tree consists of simple entries
(`validSimpleEntry`, a decidable predicate on the tree) — no further hypothesis: the re-parse has no
errors and resolves to exactly the same tree. -/
theorem roundtrip_singleline_sources (str : String) (withJunk : Bool) (t : Resource Span) (errs : List PErr)
    (hp : parse str.toUTF8.data = .done (t, errs))
    (hv : ∀ e ∈ resolve str.toUTF8.data t, validSimpleEntry e = true) :
    ∃ out, Ser.serialize withJunk (resolve str.toUTF8.data t) = some out ∧
      ∃ t' errs', parse out.toArray = .done (t', errs') ∧
        norm withJunk (resolve out.toArray t') = norm withJunk (resolve str.toUTF8.data t) ∧
        Ser.serialize withJunk (resolve out.toArray t') = some out := by
  obtain ⟨out, h1, t', h2, h3, h4⟩ := roundtrip_singleline_source str withJunk t errs hp hv
  exact ⟨out, h1, t', [], h2, by rw [h3], h4⟩

/-- **T3 `roundtrip_class_partial`, on trees.**  `RoundTrippable withJunk r` (decidable): every entry is
a message (identifier well-shaped; value an `rtPattern` or absent if there are attributes; attributes
with well-shaped identifiers and `rtPattern` values; optional attached comment), a term (same, value
mandatory), or a comment / group comment / resource comment (non-empty, lines without `\n` `\r`);
Junk entries are allowed when `withJunk = false`.  For such `r`: `serialize` returns `out` (attached
comments in front of their entry, attributes on indented lines one level deep, free comments separated
by the `wrote_non_junk_entry` blank line and followed by one, Junk skipped); if `out` has the `&str`
invariant then `parse out` returns, **without errors**, a tree equal to `r` under `norm withJunk`, and
serialising that tree again gives `out`. -/
theorem roundtrip_class_partial (withJunk : Bool) (r : Resource Bytes) (h : RoundTrippable withJunk r = true) :
    ∃ out, Ser.serialize withJunk r = some out ∧
      (AsciiThenBoundary out.toArray →
        ∃ t', parse out.toArray = .done (t', []) ∧
          norm withJunk (resolve out.toArray t') = norm withJunk r ∧
          Ser.serialize withJunk (resolve out.toArray t') = some out) :=
  roundtrip_rt withJunk r h

/-- **T3 `roundtrip_class_sources`: `C04_roundtrip_statement` and `C04_fixpoint_statement` restricted
to the sources whose parse tree is `RoundTrippable`** — no other hypothesis. -/
theorem roundtrip_class_sources (str : String) (withJunk : Bool) (t : Resource Span) (errs : List PErr)
    (hp : parse str.toUTF8.data = .done (t, errs))
    (h : RoundTrippable withJunk (resolve str.toUTF8.data t) = true) :
    ∃ out, Ser.serialize withJunk (resolve str.toUTF8.data t) = some out ∧
      ∃ t' errs', parse out.toArray = .done (t', errs') ∧
        norm withJunk (resolve out.toArray t') = norm withJunk (resolve str.toUTF8.data t) ∧
        Ser.serialize withJunk (resolve out.toArray t') = some out := by
  obtain ⟨out, h1, t', h2, h3, h4⟩ := roundtrip_rt_source str withJunk t errs hp h
  exact ⟨out, h1, t', [], h2, h3, h4⟩

/-! ## non-vacuity and sanity tests (`decide +kernel` on literals: these are tests, not proofs of the property) -/

/-- the two full statements evaluated on one source (test helper): serialise, re-parse, compare under
`norm` (via the canonical S-expression), serialise again and compare the bytes -/
def roundtripHolds (src : Src) (withJunk : Bool) : Bool :=
  match parse src with
  | .done (t, _) =>
    match Ser.serialize withJunk (resolve src t) with
    | some out =>
      match parse out.toArray with
      | .done (t', _) =>
        (norm withJunk (resolve out.toArray t')).sexp == (norm withJunk (resolve src t)).sexp &&
          Ser.serialize withJunk (resolve out.toArray t') == some out
      | _ => false
    | none => false
  | _ => false

/-- test: select with a call and a default variant, a comment attached to a term with an attribute:
`a = { $x ->\n    [one] One\n   *[other] { FOO(1, x: "y") } b\n }\n# c\n-t = v\n    .attr = w\n`, both options -/
example : (roundtripHolds #[97, 32, 61, 32, 123, 32, 36, 120, 32, 45, 62, 10, 32, 32, 32, 32, 91, 111, 110, 101, 93, 32,
    79, 110, 101, 10, 32, 32, 32, 42, 91, 111, 116, 104, 101, 114, 93, 32, 123, 32, 70, 79, 79, 40, 49, 44, 32, 120, 58,
    32, 34, 121, 34, 41, 32, 125, 32, 98, 10, 32, 125, 10, 35, 32, 99, 10, 45, 116, 32, 61, 32, 118, 10, 32, 32, 32, 32,
    46, 97, 116, 116, 114, 32, 61, 32, 119, 10] true &&
  roundtripHolds #[97, 32, 61, 32, 123, 32, 36, 120, 32, 45, 62, 10, 32, 32, 32, 32, 91, 111, 110, 101, 93, 32,
    79, 110, 101, 10, 32, 32, 32, 42, 91, 111, 116, 104, 101, 114, 93, 32, 123, 32, 70, 79, 79, 40, 49, 44, 32, 120, 58,
    32, 34, 121, 34, 41, 32, 125, 32, 98, 10, 32, 125, 10, 35, 32, 99, 10, 45, 116, 32, 61, 32, 118, 10, 32, 32, 32, 32,
    46, 97, 116, 116, 114, 32, 61, 32, 119, 10] false) = true := by decide +kernel

/-- test (finding F8 shape, fixed tree): multi-line value whose first text starts with `.`: `a = .x\n    y\n` -/
example : roundtripHolds #[97, 32, 61, 32, 46, 120, 10, 32, 32, 32, 32, 121, 10] true = true := by decide +kernel

/-- test (finding F18 shape, fixed tree): Junk followed by a free comment, serialised without junk:
`a = 1\nerr {\n\n# c\n\nb = 2\n` -/
example : roundtripHolds #[97, 32, 61, 32, 49, 10, 101, 114, 114, 32, 123, 10, 10, 35, 32, 99, 10, 10, 98, 32, 61, 32,
    50, 10] false = true := by decide +kernel

/-- test: CRLF inside a multi-line pattern and a term-attribute selector with a named argument:
`a =\n    line1\r\n    line2 { -t.a(k: 1) ->\n       *[o] v\n    }\n` -/
example : roundtripHolds #[97, 32, 61, 10, 32, 32, 32, 32, 108, 105, 110, 101, 49, 13, 10, 32, 32, 32, 32, 108, 105, 110,
    101, 50, 32, 123, 32, 45, 116, 46, 97, 40, 107, 58, 32, 49, 41, 32, 45, 62, 10, 32, 32, 32, 32, 32, 32, 32, 42, 91,
    111, 93, 32, 118, 10, 32, 32, 32, 32, 125, 10] true = true := by decide +kernel

/-- test: `validInline` is satisfiable by an expression using every form:
`FOO(1, "s\\u00e9", $v, m, m.a, -t, -t.b(x: -1.5), { 2 }, x: 1, y: "z")` -/
example : validInline (.fn [70, 79, 79]
    [.num [49], .str [115, 92, 117, 48, 48, 101, 57], .var [118], .msg [109] none, .msg [109] (some [97]),
     .term [116] none none, .term [116] (some [98]) (some ([], [([120], .num [45, 49, 46, 53])])),
     .placeable (.inline (.num [50]))]
    [([120], .num [49]), ([121], .str [122])]) = true := by decide +kernel

/-- test: the text written for that expression -/
example : inlineBytes (.fn [70, 79, 79] [.num [49], .msg [109] (some [97])] [([120], .num [49])]) =
    "FOO(1, m.a, x: 1)".toUTF8.data.toList := by decide +kernel

/-- test: `validSimpleEntry` is satisfiable — `a = x { FOO(1, k: "v") } y{{ $z }}` and `-t = { -u.a(n: 1) }`… -/
example : (validSimpleEntry (.message ⟨[97], some [.text [120, 32],
      .placeable (.inline (.fn [70, 79, 79] [.num [49]] [([107], .str [118])])), .text [32, 121],
      .placeable (.inline (.placeable (.inline (.var [122]))))], [], none⟩) &&
    validSimpleEntry (.term ⟨[116], [.placeable (.inline (.fn [85] [.term [117] (some [97]) (some ([], [([110], .num [49])]))] []))],
      [], none⟩)) = true := by decide +kernel

/-- test: the line written for the first of them -/
example : entryBytes (.message ⟨[97], some [.text [120, 32],
      .placeable (.inline (.fn [70, 79, 79] [.num [49]] [([107], .str [118])])), .text [32, 121],
      .placeable (.inline (.placeable (.inline (.var [122]))))], [], none⟩) =
    "a = x { FOO(1, k: \"v\") } y{{ $z }}\n".toUTF8.data.toList := by decide +kernel

/-- test: the hypothesis of `roundtrip_singleline_sources` is satisfiable: the parse tree of
`"a = x { FOO(1, k: \"v\") } y\n-t = { $z }\n"` consists of simple entries -/
example : (match parse "a = x { FOO(1, k: \"v\") } y\n-t = { $z }\n".toUTF8.data with
    | .done (t, _) => (resolve "a = x { FOO(1, k: \"v\") } y\n-t = { $z }\n".toUTF8.data t).all validSimpleEntry
    | _ => false) = true := by decide +kernel

/-- test: `rtPattern` is satisfiable by a nested multi-line pattern:
`x\n`, `  { $n ->`, `[one] a`, `*[other] b\n c`, `} y` (texts `"x\n"`, `"  "`, select, `" y"`) -/
example : rtPattern [.text [120, 10], .text [32, 32],
    .placeable (.select (.var [110])
      [.mk (.ident [111, 110, 101]) [.text [97]] false,
       .mk (.ident [111, 116, 104, 101, 114]) [.text [98, 10], .text [99]] true]),
    .text [32, 121]] = true := by decide +kernel

/-- test: the unrestricted `norm` is *not* a congruence — `[text "x\n", text "y"]` and `[text "x\ny"]`
have the same `norm` but serialise differently (continuation indented / not indented) -/
example :
    let r₁ : Resource Bytes := [.message ⟨[97], some [.text [120, 10], .text [121]], [], none⟩]
    let r₂ : Resource Bytes := [.message ⟨[97], some [.text [120, 10, 121]], [], none⟩]
    ((norm true r₁).sexp == (norm true r₂).sexp && Ser.serialize true r₁ != Ser.serialize true r₂) = true := by
  decide +kernel

/-- test: a line-split tree (hypothesis of `serialize_congr_lineSplit`) -/
example : LineSplit [.message ⟨[97], some [.text [120, 10], .text [121]], [], none⟩] := by
  intro e he
  simp at he
  subst he
  simp [lsEntry, lsPat, lsElem, lineText]

/-! ## census: which of the repo's fixture sources fall inside the class (tests, not proofs of the property)

`inClass src withJunk` = the parse tree of `src` is `RoundTrippable withJunk`, i.e. `roundtrip_class_sources`
applies to it.  Evaluated by `#guard` on all 36 files of `fluent-syntax/tests/fixtures/*.ftl` (and by
`decide +kernel` on the small ones).  Result: with `with_junk = false` 35 of 36 fixtures are inside the
class (all but `crlf.ftl`, whose tree has `"x"`, `"\n"` where the class asks for `"x\n"`: its `normSafe` form is inside;
`cr.ftl` — one comment line with lone `\r`s — is inside since the class admits the byte 13); with `with_junk = true`
the 11 fixtures without Junk are inside. -/

/-- test helper: the parse tree of `src` is in the class -/
def inClass (src : Src) (withJunk : Bool) : Bool :=
  match parse src with
  | .done (t, _) => RoundTrippable withJunk (resolve src t)
  | _ => false

/-- test (class extension 1, `excesses` may be empty): `b=.{$x ->\n[a].\n*[b]y\n}z` — value
`[text ".", placeable (select …), text "z"]`, multi-line only through the select, inline start, so no line
takes part in the common-indent computation — is in the class and round-trips -/
example : (inClass #[98, 61, 46, 123, 36, 120, 32, 45, 62, 10, 91, 97, 93, 46, 10, 42, 91, 98, 93, 121, 10, 125, 122] false &&
    inClass #[98, 61, 46, 123, 36, 120, 32, 45, 62, 10, 91, 97, 93, 46, 10, 42, 91, 98, 93, 121, 10, 125, 122] true &&
    roundtripHolds #[98, 61, 46, 123, 36, 120, 32, 45, 62, 10, 91, 97, 93, 46, 10, 42, 91, 98, 93, 121, 10, 125, 122] true) =
    true := by decide +kernel

/-- test (class extension 2, named-argument values need not be literals): `a = { F(x: foo) }\n` and
`a = { F(x: G(y: m.a)) }\n` — the value of a named argument is a message reference / a function call
(`get_inline_expression(only_literal = true)` does not guard its `is_ascii_alphabetic` branch) — are in the
class and round-trip -/
example : (inClass #[97, 32, 61, 32, 123, 32, 70, 40, 120, 58, 32, 102, 111, 111, 41, 32, 125, 10] false &&
    inClass #[97, 32, 61, 32, 123, 32, 70, 40, 120, 58, 32, 71, 40, 121, 58, 32, 109, 46, 97, 41, 41, 32, 125, 10] false &&
    roundtripHolds #[97, 32, 61, 32, 123, 32, 70, 40, 120, 58, 32, 102, 111, 111, 41, 32, 125, 10] true &&
    roundtripHolds #[97, 32, 61, 32, 123, 32, 70, 40, 120, 58, 32, 71, 40, 121, 58, 32, 109, 46, 97, 41, 41, 32, 125, 10] true) =
    true := by decide +kernel

/-- test: `validInline` accepts a call whose named arguments have a message-attribute and a call value, and
rejects a variable / term / placeable value (the parser does, too) -/
example : (validInline (.fn [70] [] [([120], .msg [109] (some [97])), ([121], .fn [71] [.var [118]] [])]) &&
    !validInline (.fn [70] [] [([120], .var [118])]) && !validInline (.fn [70] [] [([120], .term [116] none none)]) &&
    !validInline (.fn [70] [] [([120], .placeable (.inline (.num [49])))])) = true := by decide +kernel

/-- test (class extension 3, selects inside nested placeables): `a={{$x ->\n*[b]w\n}}` (doubled placeable),
`a = { { { $x ->\n*[b] w\n} } }\n` (chain of nested placeables),
`a = { F({ $x ->\n*[a] b\n}, k: G({ $y ->\n*[c] d\n})) }\n` (inside a positional argument and inside the call
that is the value of a named argument) and `a = { F({ $x ->\n*[a] b\n}) ->\n*[c] d\n}\n` (inside the selector)
are in the class and round-trip -/
example : (inClass #[97, 61, 123, 123, 36, 120, 32, 45, 62, 10, 42, 91, 98, 93, 119, 10, 125, 125] false &&
    inClass #[97, 61, 123, 123, 36, 120, 32, 45, 62, 10, 42, 91, 98, 93, 119, 10, 125, 125] true &&
    roundtripHolds #[97, 61, 123, 123, 36, 120, 32, 45, 62, 10, 42, 91, 98, 93, 119, 10, 125, 125] true &&
    inClass #[97, 32, 61, 32, 123, 32, 123, 32, 123, 32, 36, 120, 32, 45, 62, 10, 42, 91, 98, 93, 32, 119, 10, 125, 32,
      125, 32, 125, 10] false &&
    roundtripHolds #[97, 32, 61, 32, 123, 32, 123, 32, 123, 32, 36, 120, 32, 45, 62, 10, 42, 91, 98, 93, 32, 119, 10, 125,
      32, 125, 32, 125, 10] true) = true := by decide +kernel

example : (inClass #[97, 32, 61, 32, 123, 32, 70, 40, 123, 32, 36, 120, 32, 45, 62, 10, 42, 91, 97, 93, 32, 98, 10, 125, 44,
      32, 107, 58, 32, 71, 40, 123, 32, 36, 121, 32, 45, 62, 10, 42, 91, 99, 93, 32, 100, 10, 125, 41, 41, 32, 125, 10] false &&
    roundtripHolds #[97, 32, 61, 32, 123, 32, 70, 40, 123, 32, 36, 120, 32, 45, 62, 10, 42, 91, 97, 93, 32, 98, 10, 125,
      44, 32, 107, 58, 32, 71, 40, 123, 32, 36, 121, 32, 45, 62, 10, 42, 91, 99, 93, 32, 100, 10, 125, 41, 41, 32, 125,
      10] true &&
    inClass #[97, 32, 61, 32, 123, 32, 70, 40, 123, 32, 36, 120, 32, 45, 62, 10, 42, 91, 97, 93, 32, 98, 10, 125, 41, 32, 45,
      62, 10, 42, 91, 99, 93, 32, 100, 10, 125, 10] false &&
    roundtripHolds #[97, 32, 61, 32, 123, 32, 70, 40, 123, 32, 36, 120, 32, 45, 62, 10, 42, 91, 97, 93, 32, 98, 10, 125, 41,
      32, 45, 62, 10, 42, 91, 99, 93, 32, 100, 10, 125, 10] true) = true := by decide +kernel

/-- test: the text of a select inside a doubled placeable at level 1 — `{{ $x ->`, the default variant at level 2
with the `*` in the last indentation column, the closing ` }}` after 4 spaces -/
example : exprText 1 (.inline (.placeable (.select (.var [120]) [.mk (.ident [98]) [.text [119]] true]))) =
    "{{ $x ->\n       *[b] w\n     }}".toUTF8.data.toList := by decide +kernel

/-- census: `any_char.ftl` — with_junk=true: true, with_junk=false: true -/
def fixture_any_char : Src :=
    #[35, 32, 32, 32, 32, 32, 32, 32, 32, 32, 32, 32, 32, 32, 226, 134, 147, 32, 66, 69, 76, 44, 32, 85, 43, 48,
    48, 48, 55, 10, 99, 111, 110, 116, 114, 111, 108, 48, 32, 61, 32, 97, 98, 99, 7, 100, 101, 102, 10, 10, 35,
    32, 32, 32, 32, 32, 32, 32, 32, 32, 32, 32, 226, 134, 147, 32, 68, 69, 76, 44, 32, 85, 43, 48, 48, 55, 70, 10,
    100, 101, 108, 101, 116, 101, 32, 61, 32, 97, 98, 99, 127, 100, 101, 102, 10, 10, 35, 32, 32, 32, 32, 32, 32,
    32, 32, 32, 32, 32, 32, 32, 226, 134, 147, 32, 66, 80, 77, 44, 32, 85, 43, 48, 48, 56, 50, 10, 99, 111, 110,
    116, 114, 111, 108, 49, 32, 61, 32, 97, 98, 99, 194, 130, 100, 101, 102, 10]
#guard inClass fixture_any_char true == true && inClass fixture_any_char false == true
example : (inClass fixture_any_char true == true && inClass fixture_any_char false == true) = true := by decide +kernel

/-- census: `astral.ftl` — with_junk=true: false, with_junk=false: true -/
def fixture_astral : Src :=
    #[102, 97, 99, 101, 45, 119, 105, 116, 104, 45, 116, 101, 97, 114, 115, 45, 111, 102, 45, 106, 111, 121, 32,
    61, 32, 240, 159, 152, 130, 10, 116, 101, 116, 114, 97, 103, 114, 97, 109, 45, 102, 111, 114, 45, 99, 101,
    110, 116, 114, 101, 32, 61, 32, 240, 157, 140, 134, 10, 10, 115, 117, 114, 114, 111, 103, 97, 116, 101, 115,
    45, 105, 110, 45, 116, 101, 120, 116, 32, 61, 32, 92, 117, 68, 56, 51, 68, 92, 117, 68, 69, 48, 50, 10, 115,
    117, 114, 114, 111, 103, 97, 116, 101, 115, 45, 105, 110, 45, 115, 116, 114, 105, 110, 103, 32, 61, 32, 123,
    34, 92, 117, 68, 56, 51, 68, 92, 117, 68, 69, 48, 50, 34, 125, 10, 115, 117, 114, 114, 111, 103, 97, 116, 101,
    115, 45, 105, 110, 45, 97, 100, 106, 97, 99, 101, 110, 116, 45, 115, 116, 114, 105, 110, 103, 115, 32, 61, 32,
    123, 34, 92, 117, 68, 56, 51, 68, 34, 125, 123, 34, 92, 117, 68, 69, 48, 50, 34, 125, 10, 10, 101, 109, 111,
    106, 105, 45, 105, 110, 45, 116, 101, 120, 116, 32, 61, 32, 65, 32, 102, 97, 99, 101, 32, 240, 159, 152, 130,
    32, 119, 105, 116, 104, 32, 116, 101, 97, 114, 115, 32, 111, 102, 32, 106, 111, 121, 46, 10, 101, 109, 111,
    106, 105, 45, 105, 110, 45, 115, 116, 114, 105, 110, 103, 32, 61, 32, 123, 34, 65, 32, 102, 97, 99, 101, 32,
    240, 159, 152, 130, 32, 119, 105, 116, 104, 32, 116, 101, 97, 114, 115, 32, 111, 102, 32, 106, 111, 121, 46,
    34, 125, 10, 10, 35, 32, 69, 82, 82, 79, 82, 32, 73, 110, 118, 97, 108, 105, 100, 32, 105, 100, 101, 110, 116,
    105, 102, 105, 101, 114, 10, 101, 114, 114, 45, 240, 159, 152, 130, 32, 61, 32, 86, 97, 108, 117, 101, 10, 10,
    35, 32, 69, 82, 82, 79, 82, 32, 73, 110, 118, 97, 108, 105, 100, 32, 101, 120, 112, 114, 101, 115, 115, 105,
    111, 110, 10, 101, 114, 114, 45, 105, 110, 118, 97, 108, 105, 100, 45, 101, 120, 112, 114, 101, 115, 115, 105,
    111, 110, 32, 61, 32, 123, 32, 240, 159, 152, 130, 32, 125, 10, 10, 35, 32, 69, 82, 82, 79, 82, 32, 73, 110,
    118, 97, 108, 105, 100, 32, 118, 97, 114, 105, 97, 110, 116, 32, 107, 101, 121, 10, 101, 114, 114, 45, 105,
    110, 118, 97, 108, 105, 100, 45, 118, 97, 114, 105, 97, 110, 116, 45, 107, 101, 121, 32, 61, 32, 123, 32, 36,
    115, 101, 108, 32, 45, 62, 10, 32, 32, 32, 32, 42, 91, 240, 159, 152, 130, 93, 32, 86, 97, 108, 117, 101, 10,
    125, 10]
#guard inClass fixture_astral true == false && inClass fixture_astral false == true

/-- census: `call_expressions.ftl` — with_junk=true: false, with_junk=false: true -/
def fixture_call_expressions : Src :=
    #[35, 35, 32, 70, 117, 110, 99, 116, 105, 111, 110, 32, 110, 97, 109, 101, 115, 10, 10, 118, 97, 108, 105,
    100, 45, 102, 117, 110, 99, 45, 110, 97, 109, 101, 45, 48, 49, 32, 61, 32, 123, 70, 85, 78, 49, 40, 41, 125,
    10, 118, 97, 108, 105, 100, 45, 102, 117, 110, 99, 45, 110, 97, 109, 101, 45, 48, 50, 32, 61, 32, 123, 70, 85,
    78, 95, 70, 85, 78, 40, 41, 125, 10, 118, 97, 108, 105, 100, 45, 102, 117, 110, 99, 45, 110, 97, 109, 101, 45,
    48, 51, 32, 61, 32, 123, 70, 85, 78, 45, 70, 85, 78, 40, 41, 125, 10, 10, 35, 32, 74, 85, 78, 75, 32, 48, 32,
    105, 115, 32, 110, 111, 116, 32, 97, 32, 118, 97, 108, 105, 100, 32, 73, 100, 101, 110, 116, 105, 102, 105,
    101, 114, 32, 115, 116, 97, 114, 116, 10, 105, 110, 118, 97, 108, 105, 100, 45, 102, 117, 110, 99, 45, 110,
    97, 109, 101, 45, 48, 49, 32, 61, 32, 123, 48, 70, 85, 78, 40, 41, 125, 10, 35, 32, 74, 85, 78, 75, 32, 70,
    117, 110, 99, 116, 105, 111, 110, 32, 110, 97, 109, 101, 115, 32, 109, 97, 121, 32, 110, 111, 116, 32, 98,
    101, 32, 108, 111, 119, 101, 114, 99, 97, 115, 101, 10, 105, 110, 118, 97, 108, 105, 100, 45, 102, 117, 110,
    99, 45, 110, 97, 109, 101, 45, 48, 50, 32, 61, 32, 123, 102, 117, 110, 40, 41, 125, 10, 35, 32, 74, 85, 78,
    75, 32, 70, 117, 110, 99, 116, 105, 111, 110, 32, 110, 97, 109, 101, 115, 32, 109, 97, 121, 32, 110, 111, 116,
    32, 99, 111, 110, 116, 97, 105, 110, 32, 108, 111, 119, 101, 114, 99, 97, 115, 101, 32, 99, 104, 97, 114, 97,
    99, 116, 101, 114, 10, 105, 110, 118, 97, 108, 105, 100, 45, 102, 117, 110, 99, 45, 110, 97, 109, 101, 45, 48,
    51, 32, 61, 32, 123, 70, 117, 110, 40, 41, 125, 10, 35, 32, 74, 85, 78, 75, 32, 63, 32, 105, 115, 32, 110,
    111, 116, 32, 97, 32, 118, 97, 108, 105, 100, 32, 73, 100, 101, 110, 116, 105, 102, 105, 101, 114, 32, 99,
    104, 97, 114, 97, 99, 116, 101, 114, 10, 105, 110, 118, 97, 108, 105, 100, 45, 102, 117, 110, 99, 45, 110, 97,
    109, 101, 45, 48, 52, 32, 61, 32, 123, 70, 85, 78, 63, 40, 41, 125, 10, 10, 35, 35, 32, 65, 114, 103, 117,
    109, 101, 110, 116, 115, 10, 10, 112, 111, 115, 105, 116, 105, 111, 110, 97, 108, 45, 97, 114, 103, 115, 32,
    61, 32, 123, 70, 85, 78, 40, 49, 44, 32, 34, 97, 34, 44, 32, 109, 115, 103, 41, 125, 10, 110, 97, 109, 101,
    100, 45, 97, 114, 103, 115, 32, 61, 32, 123, 70, 85, 78, 40, 120, 58, 32, 49, 44, 32, 121, 58, 32, 34, 89, 34,
    41, 125, 10, 100, 101, 110, 115, 101, 45, 110, 97, 109, 101, 100, 45, 97, 114, 103, 115, 32, 61, 32, 123, 70,
    85, 78, 40, 120, 58, 49, 44, 32, 121, 58, 34, 89, 34, 41, 125, 10, 109, 105, 120, 101, 100, 45, 97, 114, 103,
    115, 32, 61, 32, 123, 70, 85, 78, 40, 49, 44, 32, 34, 97, 34, 44, 32, 109, 115, 103, 44, 32, 120, 58, 32, 49,
    44, 32, 121, 58, 32, 34, 89, 34, 41, 125, 10, 10, 35, 32, 69, 82, 82, 79, 82, 32, 80, 111, 115, 105, 116, 105,
    111, 110, 97, 108, 32, 97, 114, 103, 32, 109, 117, 115, 116, 32, 110, 111, 116, 32, 102, 111, 108, 108, 111,
    119, 32, 107, 101, 121, 119, 111, 114, 100, 32, 97, 114, 103, 115, 10, 115, 104, 117, 102, 102, 108, 101, 100,
    45, 97, 114, 103, 115, 32, 61, 32, 123, 70, 85, 78, 40, 49, 44, 32, 120, 58, 32, 49, 44, 32, 34, 97, 34, 44,
    32, 121, 58, 32, 34, 89, 34, 44, 32, 109, 115, 103, 41, 125, 10, 10, 35, 32, 69, 82, 82, 79, 82, 32, 78, 97,
    109, 101, 100, 32, 97, 114, 103, 117, 109, 101, 110, 116, 115, 32, 109, 117, 115, 116, 32, 98, 101, 32, 117,
    110, 105, 113, 117, 101, 10, 100, 117, 112, 108, 105, 99, 97, 116, 101, 45, 110, 97, 109, 101, 100, 45, 97,
    114, 103, 115, 32, 61, 32, 123, 70, 85, 78, 40, 120, 58, 32, 49, 44, 32, 120, 58, 32, 34, 88, 34, 41, 125, 10,
    10, 10, 35, 35, 32, 87, 104, 105, 116, 101, 115, 112, 97, 99, 101, 32, 97, 114, 111, 117, 110, 100, 32, 97,
    114, 103, 117, 109, 101, 110, 116, 115, 10, 10, 115, 112, 97, 114, 115, 101, 45, 105, 110, 108, 105, 110, 101,
    45, 99, 97, 108, 108, 32, 61, 32, 123, 70, 85, 78, 32, 32, 32, 32, 32, 40, 32, 32, 34, 97, 34, 32, 32, 44, 32,
    109, 115, 103, 44, 32, 32, 32, 120, 58, 32, 49, 32, 32, 32, 41, 125, 10, 101, 109, 112, 116, 121, 45, 105,
    110, 108, 105, 110, 101, 45, 99, 97, 108, 108, 32, 61, 32, 123, 70, 85, 78, 40, 32, 32, 41, 125, 10, 109, 117,
    108, 116, 105, 108, 105, 110, 101, 45, 99, 97, 108, 108, 32, 61, 32, 123, 70, 85, 78, 40, 10, 32, 32, 32, 32,
    32, 32, 32, 32, 34, 97, 34, 44, 10, 32, 32, 32, 32, 32, 32, 32, 32, 109, 115, 103, 44, 10, 32, 32, 32, 32, 32,
    32, 32, 32, 120, 58, 32, 49, 10, 32, 32, 32, 32, 41, 125, 10, 115, 112, 97, 114, 115, 101, 45, 109, 117, 108,
    116, 105, 108, 105, 110, 101, 45, 99, 97, 108, 108, 32, 61, 32, 123, 70, 85, 78, 10, 32, 32, 32, 32, 40, 10,
    10, 32, 32, 32, 32, 32, 32, 32, 32, 34, 97, 34, 32, 32, 32, 32, 44, 10, 32, 32, 32, 32, 32, 32, 32, 32, 109,
    115, 103, 10, 32, 32, 32, 32, 32, 32, 32, 32, 44, 32, 120, 58, 32, 49, 10, 32, 32, 32, 32, 41, 125, 10, 101,
    109, 112, 116, 121, 45, 109, 117, 108, 116, 105, 108, 105, 110, 101, 45, 99, 97, 108, 108, 32, 61, 32, 123,
    70, 85, 78, 40, 10, 10, 32, 32, 32, 32, 41, 125, 10, 10, 10, 117, 110, 105, 110, 100, 101, 110, 116, 101, 100,
    45, 97, 114, 103, 45, 110, 117, 109, 98, 101, 114, 32, 61, 32, 123, 70, 85, 78, 40, 10, 49, 41, 125, 10, 10,
    117, 110, 105, 110, 100, 101, 110, 116, 101, 100, 45, 97, 114, 103, 45, 115, 116, 114, 105, 110, 103, 32, 61,
    32, 123, 70, 85, 78, 40, 10, 34, 97, 34, 41, 125, 10, 10, 117, 110, 105, 110, 100, 101, 110, 116, 101, 100,
    45, 97, 114, 103, 45, 109, 115, 103, 45, 114, 101, 102, 32, 61, 32, 123, 70, 85, 78, 40, 10, 109, 115, 103,
    41, 125, 10, 10, 117, 110, 105, 110, 100, 101, 110, 116, 101, 100, 45, 97, 114, 103, 45, 116, 101, 114, 109,
    45, 114, 101, 102, 32, 61, 32, 123, 70, 85, 78, 40, 10, 45, 109, 115, 103, 41, 125, 10, 10, 117, 110, 105,
    110, 100, 101, 110, 116, 101, 100, 45, 97, 114, 103, 45, 118, 97, 114, 45, 114, 101, 102, 32, 61, 32, 123, 70,
    85, 78, 40, 10, 36, 118, 97, 114, 41, 125, 10, 10, 117, 110, 105, 110, 100, 101, 110, 116, 101, 100, 45, 97,
    114, 103, 45, 99, 97, 108, 108, 32, 61, 32, 123, 70, 85, 78, 40, 10, 79, 84, 72, 69, 82, 40, 41, 41, 125, 10,
    10, 117, 110, 105, 110, 100, 101, 110, 116, 101, 100, 45, 110, 97, 109, 101, 100, 45, 97, 114, 103, 32, 61,
    32, 123, 70, 85, 78, 40, 10, 120, 58, 49, 41, 125, 10, 10, 117, 110, 105, 110, 100, 101, 110, 116, 101, 100,
    45, 99, 108, 111, 115, 105, 110, 103, 45, 112, 97, 114, 101, 110, 32, 61, 32, 123, 70, 85, 78, 40, 10, 32, 32,
    32, 32, 120, 10, 41, 125, 10, 10, 10, 10, 35, 35, 32, 79, 112, 116, 105, 111, 110, 97, 108, 32, 116, 114, 97,
    105, 108, 105, 110, 103, 32, 99, 111, 109, 109, 97, 10, 10, 111, 110, 101, 45, 97, 114, 103, 117, 109, 101,
    110, 116, 32, 61, 32, 123, 70, 85, 78, 40, 49, 44, 41, 125, 10, 109, 97, 110, 121, 45, 97, 114, 103, 117, 109,
    101, 110, 116, 115, 32, 61, 32, 123, 70, 85, 78, 40, 49, 44, 32, 50, 44, 32, 51, 44, 41, 125, 10, 105, 110,
    108, 105, 110, 101, 45, 115, 112, 97, 114, 115, 101, 45, 97, 114, 103, 115, 32, 61, 32, 123, 70, 85, 78, 40,
    32, 32, 49, 44, 32, 32, 50, 44, 32, 32, 51, 44, 32, 32, 41, 125, 10, 109, 117, 108, 105, 116, 108, 105, 110,
    101, 45, 97, 114, 103, 115, 32, 61, 32, 123, 70, 85, 78, 40, 10, 32, 32, 32, 32, 32, 32, 32, 32, 49, 44, 10,
    32, 32, 32, 32, 32, 32, 32, 32, 50, 44, 10, 32, 32, 32, 32, 41, 125, 10, 109, 117, 108, 105, 116, 108, 105,
    110, 101, 45, 115, 112, 97, 114, 115, 101, 45, 97, 114, 103, 115, 32, 61, 32, 123, 70, 85, 78, 40, 10, 10, 32,
    32, 32, 32, 32, 32, 32, 32, 49, 10, 32, 32, 32, 32, 32, 32, 32, 32, 44, 10, 32, 32, 32, 32, 32, 32, 32, 32,
    50, 32, 32, 32, 10, 32, 32, 32, 32, 32, 32, 32, 32, 44, 10, 32, 32, 32, 32, 41, 125, 10, 10, 10, 35, 35, 32,
    83, 121, 110, 116, 97, 120, 32, 101, 114, 114, 111, 114, 115, 32, 102, 111, 114, 32, 116, 114, 97, 105, 108,
    105, 110, 103, 32, 99, 111, 109, 109, 97, 10, 10, 111, 110, 101, 45, 97, 114, 103, 117, 109, 101, 110, 116,
    32, 61, 32, 123, 70, 85, 78, 40, 49, 44, 44, 41, 125, 10, 109, 105, 115, 115, 105, 110, 103, 45, 97, 114, 103,
    32, 61, 32, 123, 70, 85, 78, 40, 44, 41, 125, 10, 109, 105, 115, 115, 105, 110, 103, 45, 115, 112, 97, 114,
    115, 101, 45, 97, 114, 103, 32, 61, 32, 123, 70, 85, 78, 40, 32, 32, 32, 44, 32, 32, 32, 41, 125, 10, 10, 10,
    35, 35, 32, 87, 104, 105, 116, 101, 115, 112, 97, 99, 101, 32, 105, 110, 32, 110, 97, 109, 101, 100, 32, 97,
    114, 103, 117, 109, 101, 110, 116, 115, 10, 10, 115, 112, 97, 114, 115, 101, 45, 110, 97, 109, 101, 100, 45,
    97, 114, 103, 32, 61, 32, 123, 70, 85, 78, 40, 10, 32, 32, 32, 32, 32, 32, 32, 32, 120, 32, 32, 32, 58, 32,
    32, 32, 49, 44, 10, 32, 32, 32, 32, 32, 32, 32, 32, 121, 32, 32, 32, 58, 32, 32, 32, 50, 44, 10, 32, 32, 32,
    32, 32, 32, 32, 32, 122, 10, 32, 32, 32, 32, 32, 32, 32, 32, 58, 10, 32, 32, 32, 32, 32, 32, 32, 32, 51, 10,
    32, 32, 32, 32, 41, 125, 10, 10, 10, 117, 110, 105, 110, 100, 101, 110, 116, 101, 100, 45, 99, 111, 108, 111,
    110, 32, 61, 32, 123, 70, 85, 78, 40, 10, 32, 32, 32, 32, 32, 32, 32, 32, 120, 10, 58, 49, 41, 125, 10, 10,
    117, 110, 105, 110, 100, 101, 110, 116, 101, 100, 45, 118, 97, 108, 117, 101, 32, 61, 32, 123, 70, 85, 78, 40,
    10, 32, 32, 32, 32, 32, 32, 32, 32, 120, 58, 10, 49, 41, 125, 10]
#guard inClass fixture_call_expressions true == false && inClass fixture_call_expressions false == true

/-- census: `callee_expressions.ftl` — with_junk=true: false, with_junk=false: true -/
def fixture_callee_expressions : Src :=
    #[35, 35, 32, 67, 97, 108, 108, 101, 101, 115, 32, 105, 110, 32, 112, 108, 97, 99, 101, 97, 98, 108, 101, 115,
    46, 10, 10, 102, 117, 110, 99, 116, 105, 111, 110, 45, 99, 97, 108, 108, 101, 101, 45, 112, 108, 97, 99, 101,
    97, 98, 108, 101, 32, 61, 32, 123, 70, 85, 78, 67, 84, 73, 79, 78, 40, 41, 125, 10, 116, 101, 114, 109, 45,
    99, 97, 108, 108, 101, 101, 45, 112, 108, 97, 99, 101, 97, 98, 108, 101, 32, 61, 32, 123, 45, 116, 101, 114,
    109, 40, 41, 125, 10, 10, 35, 32, 69, 82, 82, 79, 82, 32, 77, 101, 115, 115, 97, 103, 101, 115, 32, 99, 97,
    110, 110, 111, 116, 32, 98, 101, 32, 112, 97, 114, 97, 109, 101, 116, 101, 114, 105, 122, 101, 100, 46, 10,
    109, 101, 115, 115, 97, 103, 101, 45, 99, 97, 108, 108, 101, 101, 45, 112, 108, 97, 99, 101, 97, 98, 108, 101,
    32, 61, 32, 123, 109, 101, 115, 115, 97, 103, 101, 40, 41, 125, 10, 35, 32, 69, 82, 82, 79, 82, 32, 69, 113,
    117, 105, 118, 97, 108, 101, 110, 116, 32, 116, 111, 32, 97, 32, 77, 101, 115, 115, 97, 103, 101, 82, 101,
    102, 101, 114, 101, 110, 99, 101, 32, 99, 97, 108, 108, 101, 101, 46, 10, 109, 105, 120, 101, 100, 45, 99, 97,
    115, 101, 45, 99, 97, 108, 108, 101, 101, 45, 112, 108, 97, 99, 101, 97, 98, 108, 101, 32, 61, 32, 123, 70,
    117, 110, 99, 116, 105, 111, 110, 40, 41, 125, 10, 35, 32, 69, 82, 82, 79, 82, 32, 77, 101, 115, 115, 97, 103,
    101, 32, 97, 116, 116, 114, 105, 98, 117, 116, 101, 115, 32, 99, 97, 110, 110, 111, 116, 32, 98, 101, 32, 112,
    97, 114, 97, 109, 101, 116, 101, 114, 105, 122, 101, 100, 46, 10, 109, 101, 115, 115, 97, 103, 101, 45, 97,
    116, 116, 114, 45, 99, 97, 108, 108, 101, 101, 45, 112, 108, 97, 99, 101, 97, 98, 108, 101, 32, 61, 32, 123,
    109, 101, 115, 115, 97, 103, 101, 46, 97, 116, 116, 114, 40, 41, 125, 10, 35, 32, 69, 82, 82, 79, 82, 32, 84,
    101, 114, 109, 32, 97, 116, 116, 114, 105, 98, 117, 116, 101, 115, 32, 109, 97, 121, 32, 110, 111, 116, 32,
    98, 101, 32, 117, 115, 101, 100, 32, 105, 110, 32, 80, 108, 97, 99, 101, 97, 98, 108, 101, 115, 46, 10, 116,
    101, 114, 109, 45, 97, 116, 116, 114, 45, 99, 97, 108, 108, 101, 101, 45, 112, 108, 97, 99, 101, 97, 98, 108,
    101, 32, 61, 32, 123, 45, 116, 101, 114, 109, 46, 97, 116, 116, 114, 40, 41, 125, 10, 35, 32, 69, 82, 82, 79,
    82, 32, 86, 97, 114, 105, 97, 98, 108, 101, 115, 32, 99, 97, 110, 110, 111, 116, 32, 98, 101, 32, 112, 97,
    114, 97, 109, 101, 116, 101, 114, 105, 122, 101, 100, 46, 10, 118, 97, 114, 105, 97, 98, 108, 101, 45, 99, 97,
    108, 108, 101, 101, 45, 112, 108, 97, 99, 101, 97, 98, 108, 101, 32, 61, 32, 123, 36, 118, 97, 114, 105, 97,
    98, 108, 101, 40, 41, 125, 10, 10, 10, 35, 35, 32, 67, 97, 108, 108, 101, 101, 115, 32, 105, 110, 32, 115,
    101, 108, 101, 99, 116, 111, 114, 115, 46, 10, 10, 102, 117, 110, 99, 116, 105, 111, 110, 45, 99, 97, 108,
    108, 101, 101, 45, 115, 101, 108, 101, 99, 116, 111, 114, 32, 61, 32, 123, 70, 85, 78, 67, 84, 73, 79, 78, 40,
    41, 32, 45, 62, 10, 32, 32, 32, 42, 91, 107, 101, 121, 93, 32, 86, 97, 108, 117, 101, 10, 125, 10, 116, 101,
    114, 109, 45, 97, 116, 116, 114, 45, 99, 97, 108, 108, 101, 101, 45, 115, 101, 108, 101, 99, 116, 111, 114,
    32, 61, 32, 123, 45, 116, 101, 114, 109, 46, 97, 116, 116, 114, 40, 41, 32, 45, 62, 10, 32, 32, 32, 42, 91,
    107, 101, 121, 93, 32, 86, 97, 108, 117, 101, 10, 125, 10, 10, 35, 32, 69, 82, 82, 79, 82, 32, 77, 101, 115,
    115, 97, 103, 101, 115, 32, 99, 97, 110, 110, 111, 116, 32, 98, 101, 32, 112, 97, 114, 97, 109, 101, 116, 101,
    114, 105, 122, 101, 100, 46, 10, 109, 101, 115, 115, 97, 103, 101, 45, 99, 97, 108, 108, 101, 101, 45, 115,
    101, 108, 101, 99, 116, 111, 114, 32, 61, 32, 123, 109, 101, 115, 115, 97, 103, 101, 40, 41, 32, 45, 62, 10,
    32, 32, 32, 42, 91, 107, 101, 121, 93, 32, 86, 97, 108, 117, 101, 10, 125, 10, 35, 32, 69, 82, 82, 79, 82, 32,
    69, 113, 117, 105, 118, 97, 108, 101, 110, 116, 32, 116, 111, 32, 97, 32, 77, 101, 115, 115, 97, 103, 101, 82,
    101, 102, 101, 114, 101, 110, 99, 101, 32, 99, 97, 108, 108, 101, 101, 46, 10, 109, 105, 120, 101, 100, 45,
    99, 97, 115, 101, 45, 99, 97, 108, 108, 101, 101, 45, 115, 101, 108, 101, 99, 116, 111, 114, 32, 61, 32, 123,
    70, 117, 110, 99, 116, 105, 111, 110, 40, 41, 32, 45, 62, 10, 32, 32, 32, 42, 91, 107, 101, 121, 93, 32, 86,
    97, 108, 117, 101, 10, 125, 10, 35, 32, 69, 82, 82, 79, 82, 32, 77, 101, 115, 115, 97, 103, 101, 32, 97, 116,
    116, 114, 105, 98, 117, 116, 101, 115, 32, 99, 97, 110, 110, 111, 116, 32, 98, 101, 32, 112, 97, 114, 97, 109,
    101, 116, 101, 114, 105, 122, 101, 100, 46, 10, 109, 101, 115, 115, 97, 103, 101, 45, 97, 116, 116, 114, 45,
    99, 97, 108, 108, 101, 101, 45, 115, 101, 108, 101, 99, 116, 111, 114, 32, 61, 32, 123, 109, 101, 115, 115,
    97, 103, 101, 46, 97, 116, 116, 114, 40, 41, 32, 45, 62, 10, 32, 32, 32, 42, 91, 107, 101, 121, 93, 32, 86,
    97, 108, 117, 101, 10, 125, 10, 35, 32, 69, 82, 82, 79, 82, 32, 84, 101, 114, 109, 32, 118, 97, 108, 117, 101,
    115, 32, 109, 97, 121, 32, 110, 111, 116, 32, 98, 101, 32, 117, 115, 101, 100, 32, 97, 115, 32, 115, 101, 108,
    101, 99, 116, 111, 114, 115, 46, 10, 116, 101, 114, 109, 45, 99, 97, 108, 108, 101, 101, 45, 115, 101, 108,
    101, 99, 116, 111, 114, 32, 61, 32, 123, 45, 116, 101, 114, 109, 40, 41, 32, 45, 62, 10, 32, 32, 32, 42, 91,
    107, 101, 121, 93, 32, 86, 97, 108, 117, 101, 10, 125, 10, 35, 32, 69, 82, 82, 79, 82, 32, 86, 97, 114, 105,
    97, 98, 108, 101, 115, 32, 99, 97, 110, 110, 111, 116, 32, 98, 101, 32, 112, 97, 114, 97, 109, 101, 116, 101,
    114, 105, 122, 101, 100, 46, 10, 118, 97, 114, 105, 97, 98, 108, 101, 45, 99, 97, 108, 108, 101, 101, 45, 115,
    101, 108, 101, 99, 116, 111, 114, 32, 61, 32, 123, 36, 118, 97, 114, 105, 97, 98, 108, 101, 40, 41, 32, 45,
    62, 10, 32, 32, 32, 42, 91, 107, 101, 121, 93, 32, 86, 97, 108, 117, 101, 10, 125, 10]
#guard inClass fixture_callee_expressions true == false && inClass fixture_callee_expressions false == true

/-- census: `comments.ftl` — with_junk=true: false, with_junk=false: true -/
def fixture_comments : Src :=
    #[35, 32, 83, 116, 97, 110, 100, 97, 108, 111, 110, 101, 32, 67, 111, 109, 109, 101, 110, 116, 10, 10, 35, 32,
    77, 101, 115, 115, 97, 103, 101, 32, 67, 111, 109, 109, 101, 110, 116, 10, 102, 111, 111, 32, 61, 32, 70, 111,
    111, 10, 10, 35, 32, 84, 101, 114, 109, 32, 67, 111, 109, 109, 101, 110, 116, 10, 35, 32, 119, 105, 116, 104,
    32, 97, 32, 98, 108, 97, 110, 107, 32, 108, 97, 115, 116, 32, 108, 105, 110, 101, 46, 10, 35, 10, 45, 116,
    101, 114, 109, 32, 61, 32, 84, 101, 114, 109, 10, 10, 35, 32, 65, 110, 111, 116, 104, 101, 114, 32, 115, 116,
    97, 110, 100, 97, 108, 111, 110, 101, 10, 35, 32, 10, 35, 32, 32, 32, 32, 32, 32, 119, 105, 116, 104, 32, 105,
    110, 100, 101, 110, 116, 10, 35, 35, 32, 71, 114, 111, 117, 112, 32, 67, 111, 109, 109, 101, 110, 116, 10, 35,
    35, 35, 32, 82, 101, 115, 111, 117, 114, 99, 101, 32, 67, 111, 109, 109, 101, 110, 116, 10, 10, 35, 32, 69,
    114, 114, 111, 114, 115, 10, 35, 101, 114, 114, 111, 114, 10, 35, 35, 101, 114, 114, 111, 114, 10, 35, 35, 35,
    101, 114, 114, 111, 114, 10]
#guard inClass fixture_comments true == false && inClass fixture_comments false == true

/-- census: `cr.ftl` — with_junk=true: true, with_junk=false: true (one resource comment whose single line contains
lone `\r`s; in the class since the class admits the byte 13 in comment lines and text elements) -/
def fixture_cr : Src :=
    #[35, 35, 35, 32, 84, 104, 105, 115, 32, 101, 110, 116, 105, 114, 101, 32, 102, 105, 108, 101, 32, 117, 115,
    101, 115, 32, 67, 82, 32, 97, 115, 32, 69, 79, 76, 46, 13, 13, 101, 114, 114, 48, 49, 32, 61, 32, 86, 97, 108,
    117, 101, 32, 48, 49, 13, 101, 114, 114, 48, 50, 32, 61, 32, 86, 97, 108, 117, 101, 32, 48, 50, 13, 13, 101,
    114, 114, 48, 51, 32, 61, 13, 13, 32, 32, 32, 32, 86, 97, 108, 117, 101, 32, 48, 51, 13, 32, 32, 32, 32, 67,
    111, 110, 116, 105, 110, 117, 101, 100, 13, 13, 32, 32, 32, 32, 46, 116, 105, 116, 108, 101, 32, 61, 32, 84,
    105, 116, 108, 101, 13, 13, 101, 114, 114, 48, 52, 32, 61, 32, 123, 32, 34, 115, 116, 114, 13, 13, 101, 114,
    114, 48, 53, 32, 61, 32, 123, 32, 36, 115, 101, 108, 32, 45, 62, 32, 125, 13]
#guard inClass fixture_cr true == true && inClass fixture_cr false == true
example : (inClass fixture_cr true == true && inClass fixture_cr false == true) = true := by decide +kernel

/-- census: `crlf.ftl` — with_junk=true: false, with_junk=false: false -/
def fixture_crlf : Src :=
    #[13, 10, 35, 32, 84, 101, 114, 109, 32, 67, 111, 109, 109, 101, 110, 116, 13, 10, 35, 32, 119, 105, 116, 104,
    32, 97, 32, 98, 108, 97, 110, 107, 32, 108, 97, 115, 116, 32, 108, 105, 110, 101, 46, 13, 10, 35, 13, 10, 107,
    101, 121, 48, 49, 32, 61, 32, 86, 97, 108, 117, 101, 32, 48, 49, 13, 10, 107, 101, 121, 48, 50, 32, 61, 13,
    10, 13, 10, 32, 32, 32, 32, 86, 97, 108, 117, 101, 32, 48, 50, 13, 10, 32, 32, 32, 32, 67, 111, 110, 116, 105,
    110, 117, 101, 100, 13, 10, 13, 10, 32, 32, 32, 32, 46, 116, 105, 116, 108, 101, 32, 61, 32, 84, 105, 116,
    108, 101, 13, 10, 13, 10, 35, 32, 69, 82, 82, 79, 82, 32, 85, 110, 99, 108, 111, 115, 101, 100, 32, 83, 116,
    114, 105, 110, 103, 76, 105, 116, 101, 114, 97, 108, 13, 10, 101, 114, 114, 48, 51, 32, 61, 32, 123, 32, 34,
    115, 116, 114, 13, 10, 13, 10, 35, 32, 69, 82, 82, 79, 82, 32, 77, 105, 115, 115, 105, 110, 103, 32, 110, 101,
    119, 108, 105, 110, 101, 32, 97, 102, 116, 101, 114, 32, 45, 62, 46, 13, 10, 101, 114, 114, 48, 52, 32, 61,
    32, 123, 32, 36, 115, 101, 108, 32, 45, 62, 32, 125, 13, 10]
#guard inClass fixture_crlf true == false && inClass fixture_crlf false == false

/-- census: `eof_comment.ftl` — with_junk=true: true, with_junk=false: true -/
def fixture_eof_comment : Src :=
    #[35, 35, 35, 32, 78, 79, 84, 69, 58, 32, 68, 105, 115, 97, 98, 108, 101, 32, 102, 105, 110, 97, 108, 32, 110,
    101, 119, 108, 105, 110, 101, 32, 105, 110, 115, 101, 114, 116, 105, 111, 110, 32, 119, 104, 101, 110, 32,
    101, 100, 105, 116, 105, 110, 103, 32, 116, 104, 105, 115, 32, 102, 105, 108, 101, 46, 10, 10, 35, 32, 78,
    111, 32, 69, 79, 76]
#guard inClass fixture_eof_comment true == true && inClass fixture_eof_comment false == true
example : (inClass fixture_eof_comment true == true && inClass fixture_eof_comment false == true) = true := by decide +kernel

/-- census: `eof_empty.ftl` — with_junk=true: true, with_junk=false: true -/
def fixture_eof_empty : Src :=
    #[]
#guard inClass fixture_eof_empty true == true && inClass fixture_eof_empty false == true
example : (inClass fixture_eof_empty true == true && inClass fixture_eof_empty false == true) = true := by decide +kernel

/-- census: `eof_id.ftl` — with_junk=true: false, with_junk=false: true -/
def fixture_eof_id : Src :=
    #[35, 35, 35, 32, 78, 79, 84, 69, 58, 32, 68, 105, 115, 97, 98, 108, 101, 32, 102, 105, 110, 97, 108, 32, 110,
    101, 119, 108, 105, 110, 101, 32, 105, 110, 115, 101, 114, 116, 105, 111, 110, 32, 119, 104, 101, 110, 32,
    101, 100, 105, 116, 105, 110, 103, 32, 116, 104, 105, 115, 32, 102, 105, 108, 101, 46, 10, 10, 109, 101, 115,
    115, 97, 103, 101, 45, 105, 100]
#guard inClass fixture_eof_id true == false && inClass fixture_eof_id false == true
example : (inClass fixture_eof_id true == false && inClass fixture_eof_id false == true) = true := by decide +kernel

/-- census: `eof_id_equals.ftl` — with_junk=true: false, with_junk=false: true -/
def fixture_eof_id_equals : Src :=
    #[35, 35, 35, 32, 78, 79, 84, 69, 58, 32, 68, 105, 115, 97, 98, 108, 101, 32, 102, 105, 110, 97, 108, 32, 110,
    101, 119, 108, 105, 110, 101, 32, 105, 110, 115, 101, 114, 116, 105, 111, 110, 32, 119, 104, 101, 110, 32,
    101, 100, 105, 116, 105, 110, 103, 32, 116, 104, 105, 115, 32, 102, 105, 108, 101, 46, 10, 10, 109, 101, 115,
    115, 97, 103, 101, 45, 105, 100, 32, 61]
#guard inClass fixture_eof_id_equals true == false && inClass fixture_eof_id_equals false == true
example : (inClass fixture_eof_id_equals true == false && inClass fixture_eof_id_equals false == true) = true := by decide +kernel

/-- census: `eof_junk.ftl` — with_junk=true: false, with_junk=false: true -/
def fixture_eof_junk : Src :=
    #[35, 35, 35, 32, 78, 79, 84, 69, 58, 32, 68, 105, 115, 97, 98, 108, 101, 32, 102, 105, 110, 97, 108, 32, 110,
    101, 119, 108, 105, 110, 101, 32, 105, 110, 115, 101, 114, 116, 105, 111, 110, 32, 119, 104, 101, 110, 32,
    101, 100, 105, 116, 105, 110, 103, 32, 116, 104, 105, 115, 32, 102, 105, 108, 101, 46, 10, 10, 48, 48, 48]
#guard inClass fixture_eof_junk true == false && inClass fixture_eof_junk false == true
example : (inClass fixture_eof_junk true == false && inClass fixture_eof_junk false == true) = true := by decide +kernel

/-- census: `eof_value.ftl` — with_junk=true: true, with_junk=false: true -/
def fixture_eof_value : Src :=
    #[35, 35, 35, 32, 78, 79, 84, 69, 58, 32, 68, 105, 115, 97, 98, 108, 101, 32, 102, 105, 110, 97, 108, 32, 110,
    101, 119, 108, 105, 110, 101, 32, 105, 110, 115, 101, 114, 116, 105, 111, 110, 32, 119, 104, 101, 110, 32,
    101, 100, 105, 116, 105, 110, 103, 32, 116, 104, 105, 115, 32, 102, 105, 108, 101, 46, 10, 10, 110, 111, 45,
    101, 111, 108, 32, 61, 32, 78, 111, 32, 69, 79, 76]
#guard inClass fixture_eof_value true == true && inClass fixture_eof_value false == true
example : (inClass fixture_eof_value true == true && inClass fixture_eof_value false == true) = true := by decide +kernel

/-- census: `escaped_characters.ftl` — with_junk=true: false, with_junk=false: true -/
def fixture_escaped_characters : Src :=
    #[35, 35, 32, 76, 105, 116, 101, 114, 97, 108, 32, 116, 101, 120, 116, 10, 116, 101, 120, 116, 45, 98, 97, 99,
    107, 115, 108, 97, 115, 104, 45, 111, 110, 101, 32, 61, 32, 86, 97, 108, 117, 101, 32, 119, 105, 116, 104, 32,
    92, 32, 97, 32, 98, 97, 99, 107, 115, 108, 97, 115, 104, 10, 116, 101, 120, 116, 45, 98, 97, 99, 107, 115,
    108, 97, 115, 104, 45, 116, 119, 111, 32, 61, 32, 86, 97, 108, 117, 101, 32, 119, 105, 116, 104, 32, 92, 92,
    32, 116, 119, 111, 32, 98, 97, 99, 107, 115, 108, 97, 115, 104, 101, 115, 10, 116, 101, 120, 116, 45, 98, 97,
    99, 107, 115, 108, 97, 115, 104, 45, 98, 114, 97, 99, 101, 32, 61, 32, 86, 97, 108, 117, 101, 32, 119, 105,
    116, 104, 32, 92, 123, 112, 108, 97, 99, 101, 97, 98, 108, 101, 125, 10, 116, 101, 120, 116, 45, 98, 97, 99,
    107, 115, 108, 97, 115, 104, 45, 117, 32, 61, 32, 92, 117, 48, 48, 52, 49, 10, 116, 101, 120, 116, 45, 98, 97,
    99, 107, 115, 108, 97, 115, 104, 45, 98, 97, 99, 107, 115, 108, 97, 115, 104, 45, 117, 32, 61, 32, 92, 92,
    117, 48, 48, 52, 49, 10, 10, 35, 35, 32, 83, 116, 114, 105, 110, 103, 32, 108, 105, 116, 101, 114, 97, 108,
    115, 10, 113, 117, 111, 116, 101, 45, 105, 110, 45, 115, 116, 114, 105, 110, 103, 32, 61, 32, 123, 34, 92, 34,
    34, 125, 10, 98, 97, 99, 107, 115, 108, 97, 115, 104, 45, 105, 110, 45, 115, 116, 114, 105, 110, 103, 32, 61,
    32, 123, 34, 92, 92, 34, 125, 10, 35, 32, 69, 82, 82, 79, 82, 32, 77, 105, 115, 109, 97, 116, 99, 104, 101,
    100, 32, 113, 117, 111, 116, 101, 10, 109, 105, 115, 109, 97, 116, 99, 104, 101, 100, 45, 113, 117, 111, 116,
    101, 32, 61, 32, 123, 34, 92, 92, 34, 34, 125, 10, 35, 32, 69, 82, 82, 79, 82, 32, 85, 110, 107, 110, 111,
    119, 110, 32, 101, 115, 99, 97, 112, 101, 10, 117, 110, 107, 110, 111, 119, 110, 45, 101, 115, 99, 97, 112,
    101, 32, 61, 32, 123, 34, 92, 120, 34, 125, 10, 35, 32, 69, 82, 82, 79, 82, 32, 77, 117, 108, 116, 105, 108,
    105, 110, 101, 32, 108, 105, 116, 101, 114, 97, 108, 10, 105, 110, 118, 97, 108, 105, 100, 45, 109, 117, 108,
    116, 105, 108, 105, 110, 101, 45, 108, 105, 116, 101, 114, 97, 108, 32, 61, 32, 123, 34, 10, 32, 34, 125, 10,
    10, 35, 35, 32, 85, 110, 105, 99, 111, 100, 101, 32, 101, 115, 99, 97, 112, 101, 115, 10, 115, 116, 114, 105,
    110, 103, 45, 117, 110, 105, 99, 111, 100, 101, 45, 52, 100, 105, 103, 105, 116, 115, 32, 61, 32, 123, 34, 92,
    117, 48, 48, 52, 49, 34, 125, 10, 101, 115, 99, 97, 112, 101, 45, 117, 110, 105, 99, 111, 100, 101, 45, 52,
    100, 105, 103, 105, 116, 115, 32, 61, 32, 123, 34, 92, 92, 117, 48, 48, 52, 49, 34, 125, 10, 115, 116, 114,
    105, 110, 103, 45, 117, 110, 105, 99, 111, 100, 101, 45, 54, 100, 105, 103, 105, 116, 115, 32, 61, 32, 123,
    34, 92, 85, 48, 49, 70, 54, 48, 50, 34, 125, 10, 101, 115, 99, 97, 112, 101, 45, 117, 110, 105, 99, 111, 100,
    101, 45, 54, 100, 105, 103, 105, 116, 115, 32, 61, 32, 123, 34, 92, 92, 85, 48, 49, 70, 54, 48, 50, 34, 125,
    10, 10, 35, 32, 79, 75, 32, 84, 104, 101, 32, 116, 114, 97, 105, 108, 105, 110, 103, 32, 34, 48, 48, 34, 32,
    105, 115, 32, 112, 97, 114, 116, 32, 111, 102, 32, 116, 104, 101, 32, 108, 105, 116, 101, 114, 97, 108, 32,
    118, 97, 108, 117, 101, 46, 10, 115, 116, 114, 105, 110, 103, 45, 116, 111, 111, 45, 109, 97, 110, 121, 45,
    52, 100, 105, 103, 105, 116, 115, 32, 61, 32, 123, 34, 92, 117, 48, 48, 52, 49, 48, 48, 34, 125, 10, 35, 32,
    79, 75, 32, 84, 104, 101, 32, 116, 114, 97, 105, 108, 105, 110, 103, 32, 34, 48, 48, 34, 32, 105, 115, 32,
    112, 97, 114, 116, 32, 111, 102, 32, 116, 104, 101, 32, 108, 105, 116, 101, 114, 97, 108, 32, 118, 97, 108,
    117, 101, 46, 10, 115, 116, 114, 105, 110, 103, 45, 116, 111, 111, 45, 109, 97, 110, 121, 45, 54, 100, 105,
    103, 105, 116, 115, 32, 61, 32, 123, 34, 92, 85, 48, 49, 70, 54, 48, 50, 48, 48, 34, 125, 10, 10, 35, 32, 69,
    82, 82, 79, 82, 32, 84, 111, 111, 32, 102, 101, 119, 32, 104, 101, 120, 32, 100, 105, 103, 105, 116, 115, 32,
    97, 102, 116, 101, 114, 32, 92, 117, 46, 10, 115, 116, 114, 105, 110, 103, 45, 116, 111, 111, 45, 102, 101,
    119, 45, 52, 100, 105, 103, 105, 116, 115, 32, 61, 32, 123, 34, 92, 117, 52, 49, 34, 125, 10, 35, 32, 69, 82,
    82, 79, 82, 32, 84, 111, 111, 32, 102, 101, 119, 32, 104, 101, 120, 32, 100, 105, 103, 105, 116, 115, 32, 97,
    102, 116, 101, 114, 32, 92, 85, 46, 10, 115, 116, 114, 105, 110, 103, 45, 116, 111, 111, 45, 102, 101, 119,
    45, 54, 100, 105, 103, 105, 116, 115, 32, 61, 32, 123, 34, 92, 85, 49, 70, 54, 48, 50, 34, 125, 10, 10, 35,
    35, 32, 76, 105, 116, 101, 114, 97, 108, 32, 98, 114, 97, 99, 101, 115, 10, 98, 114, 97, 99, 101, 45, 111,
    112, 101, 110, 32, 61, 32, 65, 110, 32, 111, 112, 101, 110, 105, 110, 103, 32, 123, 34, 123, 34, 125, 32, 98,
    114, 97, 99, 101, 46, 10, 98, 114, 97, 99, 101, 45, 99, 108, 111, 115, 101, 32, 61, 32, 65, 32, 99, 108, 111,
    115, 105, 110, 103, 32, 123, 34, 125, 34, 125, 32, 98, 114, 97, 99, 101, 46, 10]
#guard inClass fixture_escaped_characters true == false && inClass fixture_escaped_characters false == true

/-- census: `junk.ftl` — with_junk=true: false, with_junk=false: true -/
def fixture_junk : Src :=
    #[35, 35, 32, 84, 119, 111, 32, 97, 100, 106, 97, 99, 101, 110, 116, 32, 74, 117, 110, 107, 115, 46, 10, 101,
    114, 114, 48, 49, 32, 61, 32, 123, 49, 120, 125, 10, 101, 114, 114, 48, 50, 32, 61, 32, 123, 50, 120, 125, 10,
    10, 35, 32, 65, 32, 115, 105, 110, 103, 108, 101, 32, 74, 117, 110, 107, 46, 10, 101, 114, 114, 48, 51, 32,
    61, 32, 123, 49, 120, 10, 50, 10, 10, 35, 32, 65, 32, 115, 105, 110, 103, 108, 101, 32, 74, 117, 110, 107, 46,
    10, 196, 133, 61, 73, 110, 118, 97, 108, 105, 100, 32, 105, 100, 101, 110, 116, 105, 102, 105, 101, 114, 10,
    196, 135, 61, 65, 110, 111, 116, 104, 101, 114, 32, 111, 110, 101, 10, 10, 35, 32, 84, 104, 101, 32, 67, 79,
    77, 77, 69, 78, 84, 32, 101, 110, 100, 115, 32, 116, 104, 105, 115, 32, 106, 117, 110, 107, 46, 10, 101, 114,
    114, 48, 52, 32, 61, 32, 123, 10, 35, 32, 67, 79, 77, 77, 69, 78, 84, 10, 10, 35, 32, 84, 104, 101, 32, 67,
    79, 77, 77, 69, 78, 84, 32, 101, 110, 100, 115, 32, 116, 104, 105, 115, 32, 106, 117, 110, 107, 46, 10, 35,
    32, 84, 104, 101, 32, 99, 108, 111, 115, 105, 110, 103, 32, 98, 114, 97, 99, 101, 32, 105, 115, 32, 97, 32,
    115, 101, 112, 97, 114, 97, 116, 101, 32, 74, 117, 110, 107, 46, 10, 101, 114, 114, 48, 52, 32, 61, 32, 123,
    10, 35, 32, 67, 79, 77, 77, 69, 78, 84, 10, 125, 10]
#guard inClass fixture_junk true == false && inClass fixture_junk false == true

/-- census: `leading_dots.ftl` — with_junk=true: false, with_junk=false: true -/
def fixture_leading_dots : Src :=
    #[107, 101, 121, 48, 49, 32, 61, 32, 46, 86, 97, 108, 117, 101, 10, 107, 101, 121, 48, 50, 32, 61, 32, 226,
    128, 166, 86, 97, 108, 117, 101, 10, 107, 101, 121, 48, 51, 32, 61, 32, 123, 34, 46, 34, 125, 86, 97, 108,
    117, 101, 10, 107, 101, 121, 48, 52, 32, 61, 10, 32, 32, 32, 32, 123, 34, 46, 34, 125, 86, 97, 108, 117, 101,
    10, 10, 107, 101, 121, 48, 53, 32, 61, 32, 86, 97, 108, 117, 101, 10, 32, 32, 32, 32, 123, 34, 46, 34, 125,
    67, 111, 110, 116, 105, 110, 117, 101, 100, 10, 10, 107, 101, 121, 48, 54, 32, 61, 32, 46, 86, 97, 108, 117,
    101, 10, 32, 32, 32, 32, 123, 34, 46, 34, 125, 67, 111, 110, 116, 105, 110, 117, 101, 100, 10, 10, 35, 32, 77,
    69, 83, 83, 65, 71, 69, 32, 40, 118, 97, 108, 117, 101, 32, 61, 32, 34, 86, 97, 108, 117, 101, 34, 44, 32, 97,
    116, 116, 114, 105, 98, 117, 116, 101, 115, 32, 61, 32, 91, 93, 41, 10, 35, 32, 74, 85, 78, 75, 32, 40, 97,
    116, 116, 114, 32, 46, 67, 111, 110, 116, 105, 110, 117, 101, 100, 34, 32, 109, 117, 115, 116, 32, 104, 97,
    118, 101, 32, 97, 32, 118, 97, 108, 117, 101, 41, 10, 107, 101, 121, 48, 55, 32, 61, 32, 86, 97, 108, 117,
    101, 10, 32, 32, 32, 32, 46, 67, 111, 110, 116, 105, 110, 117, 101, 100, 10, 10, 35, 32, 74, 85, 78, 75, 32,
    40, 97, 116, 116, 114, 32, 46, 86, 97, 108, 117, 101, 32, 109, 117, 115, 116, 32, 104, 97, 118, 101, 32, 97,
    32, 118, 97, 108, 117, 101, 41, 10, 107, 101, 121, 48, 56, 32, 61, 10, 32, 32, 32, 32, 46, 86, 97, 108, 117,
    101, 10, 10, 35, 32, 74, 85, 78, 75, 32, 40, 97, 116, 116, 114, 32, 46, 86, 97, 108, 117, 101, 32, 109, 117,
    115, 116, 32, 104, 97, 118, 101, 32, 97, 32, 118, 97, 108, 117, 101, 41, 10, 107, 101, 121, 48, 57, 32, 61,
    10, 32, 32, 32, 32, 46, 86, 97, 108, 117, 101, 10, 32, 32, 32, 32, 67, 111, 110, 116, 105, 110, 117, 101, 100,
    10, 10, 107, 101, 121, 49, 48, 32, 61, 10, 32, 32, 32, 32, 46, 86, 97, 108, 117, 101, 32, 61, 32, 119, 104,
    105, 99, 104, 32, 105, 115, 32, 97, 110, 32, 97, 116, 116, 114, 105, 98, 117, 116, 101, 10, 32, 32, 32, 32,
    67, 111, 110, 116, 105, 110, 117, 101, 100, 10, 10, 107, 101, 121, 49, 49, 32, 61, 10, 32, 32, 32, 32, 123,
    34, 46, 34, 125, 86, 97, 108, 117, 101, 32, 61, 32, 119, 104, 105, 99, 104, 32, 108, 111, 111, 107, 115, 32,
    108, 105, 107, 101, 32, 97, 110, 32, 97, 116, 116, 114, 105, 98, 117, 116, 101, 10, 32, 32, 32, 32, 67, 111,
    110, 116, 105, 110, 117, 101, 100, 10, 10, 107, 101, 121, 49, 50, 32, 61, 10, 32, 32, 32, 32, 46, 97, 99, 99,
    101, 115, 115, 107, 101, 121, 32, 61, 10, 32, 32, 32, 32, 65, 10, 10, 107, 101, 121, 49, 51, 32, 61, 10, 32,
    32, 32, 32, 46, 97, 116, 116, 114, 105, 98, 117, 116, 101, 32, 61, 32, 46, 86, 97, 108, 117, 101, 10, 10, 107,
    101, 121, 49, 52, 32, 61, 10, 32, 32, 32, 32, 46, 97, 116, 116, 114, 105, 98, 117, 116, 101, 32, 61, 10, 32,
    32, 32, 32, 32, 32, 32, 32, 32, 123, 34, 46, 34, 125, 86, 97, 108, 117, 101, 10, 10, 107, 101, 121, 49, 53,
    32, 61, 10, 32, 32, 32, 32, 123, 32, 49, 32, 45, 62, 10, 32, 32, 32, 32, 32, 32, 32, 32, 91, 111, 110, 101,
    93, 32, 46, 86, 97, 108, 117, 101, 10, 32, 32, 32, 32, 32, 32, 32, 42, 91, 111, 116, 104, 101, 114, 93, 10,
    32, 32, 32, 32, 32, 32, 32, 32, 32, 32, 32, 32, 123, 34, 46, 34, 125, 86, 97, 108, 117, 101, 10, 32, 32, 32,
    32, 125, 10, 10, 35, 32, 74, 85, 78, 75, 32, 40, 118, 97, 114, 105, 97, 110, 116, 32, 109, 117, 115, 116, 32,
    104, 97, 118, 101, 32, 97, 32, 118, 97, 108, 117, 101, 41, 10, 107, 101, 121, 49, 54, 32, 61, 10, 32, 32, 32,
    32, 123, 32, 49, 32, 45, 62, 10, 32, 32, 32, 32, 32, 32, 32, 42, 91, 111, 110, 101, 93, 10, 32, 32, 32, 32,
    32, 32, 32, 32, 32, 32, 32, 46, 86, 97, 108, 117, 101, 10, 32, 32, 32, 32, 125, 10, 10, 35, 32, 74, 85, 78,
    75, 32, 40, 117, 110, 99, 108, 111, 115, 101, 100, 32, 112, 108, 97, 99, 101, 97, 98, 108, 101, 41, 10, 107,
    101, 121, 49, 55, 32, 61, 10, 32, 32, 32, 32, 123, 32, 49, 32, 45, 62, 10, 32, 32, 32, 32, 32, 32, 32, 42, 91,
    111, 110, 101, 93, 32, 86, 97, 108, 117, 101, 10, 32, 32, 32, 32, 32, 32, 32, 32, 32, 32, 32, 46, 67, 111,
    110, 116, 105, 110, 117, 101, 100, 10, 32, 32, 32, 32, 125, 10, 10, 35, 32, 74, 85, 78, 75, 32, 40, 97, 116,
    116, 114, 32, 46, 86, 97, 108, 117, 101, 32, 109, 117, 115, 116, 32, 104, 97, 118, 101, 32, 97, 32, 118, 97,
    108, 117, 101, 41, 10, 107, 101, 121, 49, 56, 32, 61, 10, 46, 86, 97, 108, 117, 101, 10, 10, 107, 101, 121,
    49, 57, 32, 61, 10, 46, 97, 116, 116, 114, 105, 98, 117, 116, 101, 32, 61, 32, 86, 97, 108, 117, 101, 10, 32,
    32, 32, 32, 67, 111, 110, 116, 105, 110, 117, 101, 100, 10, 10, 107, 101, 121, 50, 48, 32, 61, 10, 123, 34,
    46, 34, 125, 86, 97, 108, 117, 101, 10]
#guard inClass fixture_leading_dots true == false && inClass fixture_leading_dots false == true

/-- census: `literal_expressions.ftl` — with_junk=true: true, with_junk=false: true -/
def fixture_literal_expressions : Src :=
    #[115, 116, 114, 105, 110, 103, 45, 101, 120, 112, 114, 101, 115, 115, 105, 111, 110, 32, 61, 32, 123, 34, 97,
    98, 99, 34, 125, 10, 110, 117, 109, 98, 101, 114, 45, 101, 120, 112, 114, 101, 115, 115, 105, 111, 110, 32,
    61, 32, 123, 49, 50, 51, 125, 10, 110, 117, 109, 98, 101, 114, 45, 101, 120, 112, 114, 101, 115, 115, 105,
    111, 110, 32, 61, 32, 123, 45, 51, 46, 49, 52, 125, 10]
#guard inClass fixture_literal_expressions true == true && inClass fixture_literal_expressions false == true
example : (inClass fixture_literal_expressions true == true && inClass fixture_literal_expressions false == true) = true := by decide +kernel

/-- census: `member_expressions.ftl` — with_junk=true: false, with_junk=false: true -/
def fixture_member_expressions : Src :=
    #[35, 35, 32, 77, 101, 109, 98, 101, 114, 32, 101, 120, 112, 114, 101, 115, 115, 105, 111, 110, 115, 32, 105,
    110, 32, 112, 108, 97, 99, 101, 97, 98, 108, 101, 115, 46, 10, 10, 35, 32, 79, 75, 32, 77, 101, 115, 115, 97,
    103, 101, 32, 97, 116, 116, 114, 105, 98, 117, 116, 101, 115, 32, 109, 97, 121, 32, 98, 101, 32, 105, 110,
    116, 101, 114, 112, 111, 108, 97, 116, 101, 100, 32, 105, 110, 32, 118, 97, 108, 117, 101, 115, 46, 10, 109,
    101, 115, 115, 97, 103, 101, 45, 97, 116, 116, 114, 105, 98, 117, 116, 101, 45, 101, 120, 112, 114, 101, 115,
    115, 105, 111, 110, 45, 112, 108, 97, 99, 101, 97, 98, 108, 101, 32, 61, 32, 123, 109, 115, 103, 46, 97, 116,
    116, 114, 125, 10, 10, 35, 32, 69, 82, 82, 79, 82, 32, 84, 101, 114, 109, 32, 97, 116, 116, 114, 105, 98, 117,
    116, 101, 115, 32, 109, 97, 121, 32, 110, 111, 116, 32, 98, 101, 32, 117, 115, 101, 100, 32, 102, 111, 114,
    32, 105, 110, 116, 101, 114, 112, 111, 108, 97, 116, 105, 111, 110, 46, 10, 116, 101, 114, 109, 45, 97, 116,
    116, 114, 105, 98, 117, 116, 101, 45, 101, 120, 112, 114, 101, 115, 115, 105, 111, 110, 45, 112, 108, 97, 99,
    101, 97, 98, 108, 101, 32, 61, 32, 123, 45, 116, 101, 114, 109, 46, 97, 116, 116, 114, 125, 10, 10, 10, 35,
    35, 32, 77, 101, 109, 98, 101, 114, 32, 101, 120, 112, 114, 101, 115, 115, 105, 111, 110, 115, 32, 105, 110,
    32, 115, 101, 108, 101, 99, 116, 111, 114, 115, 46, 10, 10, 35, 32, 79, 75, 32, 84, 101, 114, 109, 32, 97,
    116, 116, 114, 105, 98, 117, 116, 101, 115, 32, 109, 97, 121, 32, 98, 101, 32, 117, 115, 101, 100, 32, 97,
    115, 32, 115, 101, 108, 101, 99, 116, 111, 114, 115, 46, 10, 116, 101, 114, 109, 45, 97, 116, 116, 114, 105,
    98, 117, 116, 101, 45, 101, 120, 112, 114, 101, 115, 115, 105, 111, 110, 45, 115, 101, 108, 101, 99, 116, 111,
    114, 32, 61, 32, 123, 45, 116, 101, 114, 109, 46, 97, 116, 116, 114, 32, 45, 62, 10, 32, 32, 32, 42, 91, 107,
    101, 121, 93, 32, 86, 97, 108, 117, 101, 10, 125, 10, 35, 32, 69, 82, 82, 79, 82, 32, 77, 101, 115, 115, 97,
    103, 101, 32, 97, 116, 116, 114, 105, 98, 117, 116, 101, 115, 32, 109, 97, 121, 32, 110, 111, 116, 32, 98,
    101, 32, 117, 115, 101, 100, 32, 97, 115, 32, 115, 101, 108, 101, 99, 116, 111, 114, 115, 46, 10, 109, 101,
    115, 115, 97, 103, 101, 45, 97, 116, 116, 114, 105, 98, 117, 116, 101, 45, 101, 120, 112, 114, 101, 115, 115,
    105, 111, 110, 45, 115, 101, 108, 101, 99, 116, 111, 114, 32, 61, 32, 123, 109, 115, 103, 46, 97, 116, 116,
    114, 32, 45, 62, 10, 32, 32, 32, 42, 91, 107, 101, 121, 93, 32, 86, 97, 108, 117, 101, 10, 125, 10]
#guard inClass fixture_member_expressions true == false && inClass fixture_member_expressions false == true

/-- census: `messages.ftl` — with_junk=true: false, with_junk=false: true -/
def fixture_messages : Src :=
    #[107, 101, 121, 48, 49, 32, 61, 32, 86, 97, 108, 117, 101, 10, 10, 107, 101, 121, 48, 50, 32, 61, 32, 86, 97,
    108, 117, 101, 10, 32, 32, 32, 32, 46, 97, 116, 116, 114, 32, 61, 32, 65, 116, 116, 114, 105, 98, 117, 116,
    101, 10, 10, 107, 101, 121, 48, 50, 32, 61, 32, 86, 97, 108, 117, 101, 10, 32, 32, 32, 32, 46, 97, 116, 116,
    114, 49, 32, 61, 32, 65, 116, 116, 114, 105, 98, 117, 116, 101, 32, 49, 10, 32, 32, 32, 32, 46, 97, 116, 116,
    114, 50, 32, 61, 32, 65, 116, 116, 114, 105, 98, 117, 116, 101, 32, 50, 10, 10, 107, 101, 121, 48, 51, 32, 61,
    10, 32, 32, 32, 32, 46, 97, 116, 116, 114, 32, 61, 32, 65, 116, 116, 114, 105, 98, 117, 116, 101, 10, 10, 107,
    101, 121, 48, 52, 32, 61, 10, 32, 32, 32, 32, 46, 97, 116, 116, 114, 49, 32, 61, 32, 65, 116, 116, 114, 105,
    98, 117, 116, 101, 32, 49, 10, 32, 32, 32, 32, 46, 97, 116, 116, 114, 50, 32, 61, 32, 65, 116, 116, 114, 105,
    98, 117, 116, 101, 32, 50, 10, 10, 35, 32, 32, 32, 32, 32, 32, 60, 32, 32, 119, 104, 105, 116, 101, 115, 112,
    97, 99, 101, 32, 32, 62, 10, 107, 101, 121, 48, 53, 32, 61, 32, 32, 32, 32, 32, 32, 32, 32, 32, 32, 32, 32,
    32, 32, 32, 32, 10, 32, 32, 32, 32, 46, 97, 116, 116, 114, 49, 32, 61, 32, 65, 116, 116, 114, 105, 98, 117,
    116, 101, 32, 49, 10, 10, 110, 111, 45, 119, 104, 105, 116, 101, 115, 112, 97, 99, 101, 61, 86, 97, 108, 117,
    101, 10, 32, 32, 32, 32, 46, 97, 116, 116, 114, 49, 61, 65, 116, 116, 114, 105, 98, 117, 116, 101, 32, 49, 10,
    10, 101, 120, 116, 114, 97, 45, 119, 104, 105, 116, 101, 115, 112, 97, 99, 101, 32, 32, 32, 32, 61, 32, 32,
    86, 97, 108, 117, 101, 10, 32, 32, 32, 32, 46, 97, 116, 116, 114, 49, 32, 32, 32, 61, 32, 32, 32, 32, 32, 32,
    65, 116, 116, 114, 105, 98, 117, 116, 101, 32, 49, 10, 10, 107, 101, 121, 48, 54, 32, 61, 32, 123, 34, 34,
    125, 10, 10, 35, 32, 74, 85, 78, 75, 32, 77, 105, 115, 115, 105, 110, 103, 32, 118, 97, 108, 117, 101, 10,
    107, 101, 121, 48, 55, 32, 61, 10, 10, 35, 32, 74, 85, 78, 75, 32, 77, 105, 115, 115, 105, 110, 103, 32, 61,
    10, 107, 101, 121, 48, 56, 10, 10, 75, 69, 89, 48, 57, 32, 61, 32, 86, 97, 108, 117, 101, 32, 48, 57, 10, 10,
    107, 101, 121, 45, 49, 48, 32, 61, 32, 86, 97, 108, 117, 101, 32, 49, 48, 10, 107, 101, 121, 95, 49, 49, 32,
    61, 32, 86, 97, 108, 117, 101, 32, 49, 49, 10, 107, 101, 121, 45, 49, 50, 45, 32, 61, 32, 86, 97, 108, 117,
    101, 32, 49, 50, 10, 107, 101, 121, 95, 49, 51, 95, 32, 61, 32, 86, 97, 108, 117, 101, 32, 49, 51, 10, 10, 35,
    32, 74, 85, 78, 75, 32, 73, 110, 118, 97, 108, 105, 100, 32, 105, 100, 10, 48, 101, 114, 114, 45, 49, 52, 32,
    61, 32, 86, 97, 108, 117, 101, 32, 49, 52, 10, 10, 35, 32, 74, 85, 78, 75, 32, 73, 110, 118, 97, 108, 105,
    100, 32, 105, 100, 10, 101, 114, 114, 45, 49, 53, 63, 32, 61, 32, 86, 97, 108, 117, 101, 32, 49, 53, 10, 10,
    35, 32, 74, 85, 78, 75, 32, 73, 110, 118, 97, 108, 105, 100, 32, 105, 100, 10, 101, 114, 114, 45, 196, 133,
    196, 153, 45, 49, 54, 32, 61, 32, 86, 97, 108, 117, 101, 32, 49, 54, 10]
#guard inClass fixture_messages true == false && inClass fixture_messages false == true

/-- census: `mixed_entries.ftl` — with_junk=true: false, with_junk=false: true -/
def fixture_mixed_entries : Src :=
    #[35, 32, 76, 105, 99, 101, 110, 115, 101, 32, 67, 111, 109, 109, 101, 110, 116, 10, 10, 35, 35, 35, 32, 82,
    101, 115, 111, 117, 114, 99, 101, 32, 67, 111, 109, 109, 101, 110, 116, 10, 10, 45, 98, 114, 97, 110, 100, 45,
    110, 97, 109, 101, 32, 61, 32, 65, 117, 114, 111, 114, 97, 10, 10, 35, 35, 32, 71, 114, 111, 117, 112, 32, 67,
    111, 109, 109, 101, 110, 116, 10, 10, 107, 101, 121, 48, 49, 32, 61, 10, 32, 32, 32, 32, 46, 97, 116, 116,
    114, 32, 61, 32, 65, 116, 116, 114, 105, 98, 117, 116, 101, 10, 10, 196, 133, 61, 73, 110, 118, 97, 108, 105,
    100, 32, 105, 100, 101, 110, 116, 105, 102, 105, 101, 114, 10, 196, 135, 61, 65, 110, 111, 116, 104, 101, 114,
    32, 111, 110, 101, 10, 10, 35, 32, 77, 101, 115, 115, 97, 103, 101, 32, 67, 111, 109, 109, 101, 110, 116, 10,
    107, 101, 121, 48, 50, 32, 61, 32, 86, 97, 108, 117, 101, 10, 10, 35, 32, 83, 116, 97, 110, 100, 97, 108, 111,
    110, 101, 32, 67, 111, 109, 109, 101, 110, 116, 10, 32, 32, 32, 32, 46, 97, 116, 116, 114, 32, 61, 32, 68, 97,
    110, 103, 108, 105, 110, 103, 32, 97, 116, 116, 114, 105, 98, 117, 116, 101, 10, 10, 35, 32, 84, 104, 101,
    114, 101, 32, 97, 114, 101, 32, 53, 32, 115, 112, 97, 99, 101, 115, 32, 111, 110, 32, 116, 104, 101, 32, 108,
    105, 110, 101, 32, 98, 101, 116, 119, 101, 101, 110, 32, 107, 101, 121, 48, 51, 32, 97, 110, 100, 32, 107,
    101, 121, 48, 52, 46, 10, 107, 101, 121, 48, 51, 32, 61, 32, 86, 97, 108, 117, 101, 32, 48, 51, 10, 32, 32,
    32, 32, 32, 10, 107, 101, 121, 48, 52, 32, 61, 32, 86, 97, 108, 117, 101, 32, 48, 52, 10]
#guard inClass fixture_mixed_entries true == false && inClass fixture_mixed_entries false == true

/-- census: `multiline_values.ftl` — with_junk=true: true, with_junk=false: true -/
def fixture_multiline_values : Src :=
    #[107, 101, 121, 48, 49, 32, 61, 32, 65, 32, 109, 117, 108, 116, 105, 108, 105, 110, 101, 32, 118, 97, 108,
    117, 101, 10, 32, 32, 32, 32, 99, 111, 110, 116, 105, 110, 117, 101, 100, 32, 111, 110, 32, 116, 104, 101, 32,
    110, 101, 120, 116, 32, 108, 105, 110, 101, 10, 10, 32, 32, 32, 32, 97, 110, 100, 32, 97, 108, 115, 111, 32,
    100, 111, 119, 110, 32, 104, 101, 114, 101, 46, 10, 10, 107, 101, 121, 48, 50, 32, 61, 10, 32, 32, 32, 32, 65,
    32, 109, 117, 108, 116, 105, 108, 105, 110, 101, 32, 118, 97, 108, 117, 101, 32, 115, 116, 97, 114, 116, 105,
    110, 103, 10, 32, 32, 32, 32, 111, 110, 32, 97, 32, 110, 101, 119, 32, 108, 105, 110, 101, 46, 10, 10, 107,
    101, 121, 48, 51, 32, 61, 10, 32, 32, 32, 32, 46, 97, 116, 116, 114, 32, 61, 32, 65, 32, 109, 117, 108, 116,
    105, 108, 105, 110, 101, 32, 97, 116, 116, 114, 105, 98, 117, 116, 101, 32, 118, 97, 108, 117, 101, 10, 32,
    32, 32, 32, 32, 32, 32, 32, 99, 111, 110, 116, 105, 110, 117, 101, 100, 32, 111, 110, 32, 116, 104, 101, 32,
    110, 101, 120, 116, 32, 108, 105, 110, 101, 10, 10, 32, 32, 32, 32, 32, 32, 32, 32, 97, 110, 100, 32, 97, 108,
    115, 111, 32, 100, 111, 119, 110, 32, 104, 101, 114, 101, 46, 10, 10, 107, 101, 121, 48, 52, 32, 61, 10, 32,
    32, 32, 32, 46, 97, 116, 116, 114, 32, 61, 10, 32, 32, 32, 32, 32, 32, 32, 32, 65, 32, 109, 117, 108, 116,
    105, 108, 105, 110, 101, 32, 97, 116, 116, 114, 105, 98, 117, 116, 101, 32, 118, 97, 108, 117, 101, 10, 32,
    32, 32, 32, 32, 32, 32, 32, 115, 116, 97, 114, 105, 110, 103, 32, 111, 110, 32, 97, 32, 110, 101, 119, 32,
    108, 105, 110, 101, 10, 10, 107, 101, 121, 48, 53, 32, 61, 10, 10, 32, 65, 32, 109, 117, 108, 116, 105, 108,
    105, 110, 101, 32, 118, 97, 108, 117, 101, 32, 119, 105, 116, 104, 32, 110, 111, 110, 45, 115, 116, 97, 110,
    100, 97, 114, 100, 10, 10, 32, 32, 32, 32, 32, 105, 110, 100, 101, 110, 116, 97, 116, 105, 111, 110, 46, 10,
    10, 107, 101, 121, 48, 54, 32, 61, 10, 32, 32, 32, 32, 65, 32, 109, 117, 108, 116, 105, 108, 105, 110, 101,
    32, 118, 97, 108, 117, 101, 32, 119, 105, 116, 104, 32, 123, 34, 112, 108, 97, 99, 101, 97, 98, 108, 101, 115,
    34, 125, 10, 32, 32, 32, 32, 123, 34, 97, 116, 34, 125, 32, 116, 104, 101, 32, 98, 101, 103, 105, 110, 110,
    105, 110, 103, 32, 97, 110, 100, 32, 116, 104, 101, 32, 101, 110, 100, 10, 32, 32, 32, 32, 123, 34, 111, 102,
    32, 108, 105, 110, 101, 115, 34, 125, 123, 34, 46, 34, 125, 10, 10, 107, 101, 121, 48, 55, 32, 61, 10, 32, 32,
    32, 32, 123, 34, 65, 32, 109, 117, 108, 116, 105, 108, 105, 110, 101, 32, 118, 97, 108, 117, 101, 34, 125, 32,
    115, 116, 97, 114, 116, 105, 110, 103, 32, 97, 110, 100, 32, 101, 110, 100, 105, 110, 103, 32, 123, 34, 119,
    105, 116, 104, 32, 97, 32, 112, 108, 97, 99, 101, 97, 98, 108, 101, 34, 125, 10, 10, 107, 101, 121, 48, 56,
    32, 61, 32, 32, 32, 32, 32, 76, 101, 97, 100, 105, 110, 103, 32, 97, 110, 100, 32, 116, 114, 97, 105, 108,
    105, 110, 103, 32, 119, 104, 105, 116, 101, 115, 112, 97, 99, 101, 46, 32, 32, 32, 32, 32, 10, 10, 107, 101,
    121, 48, 57, 32, 61, 32, 122, 101, 114, 111, 10, 32, 32, 32, 32, 32, 116, 104, 114, 101, 101, 10, 32, 32, 32,
    32, 116, 119, 111, 10, 32, 32, 32, 111, 110, 101, 10, 32, 32, 122, 101, 114, 111, 10, 10, 107, 101, 121, 49,
    48, 32, 61, 10, 32, 32, 32, 32, 32, 32, 116, 119, 111, 10, 32, 32, 32, 32, 122, 101, 114, 111, 10, 32, 32, 32,
    32, 32, 32, 32, 32, 102, 111, 117, 114, 10, 10, 107, 101, 121, 49, 49, 32, 61, 10, 10, 10, 32, 32, 32, 32, 32,
    32, 116, 119, 111, 10, 32, 32, 32, 32, 122, 101, 114, 111, 10, 10, 107, 101, 121, 49, 50, 32, 61, 10, 123, 34,
    46, 34, 125, 10, 32, 32, 32, 32, 102, 111, 117, 114, 10, 10, 107, 101, 121, 49, 51, 32, 61, 10, 32, 32, 32,
    32, 102, 111, 117, 114, 10, 123, 34, 46, 34, 125, 10]
#guard inClass fixture_multiline_values true == true && inClass fixture_multiline_values false == true

/-- census: `numbers.ftl` — with_junk=true: false, with_junk=false: true -/
def fixture_numbers : Src :=
    #[105, 110, 116, 45, 122, 101, 114, 111, 32, 61, 32, 123, 48, 125, 10, 105, 110, 116, 45, 112, 111, 115, 105,
    116, 105, 118, 101, 32, 61, 32, 123, 49, 125, 10, 105, 110, 116, 45, 110, 101, 103, 97, 116, 105, 118, 101,
    32, 61, 32, 123, 45, 49, 125, 10, 105, 110, 116, 45, 110, 101, 103, 97, 116, 105, 118, 101, 45, 122, 101, 114,
    111, 32, 61, 32, 123, 45, 48, 125, 10, 10, 105, 110, 116, 45, 112, 111, 115, 105, 116, 105, 118, 101, 45, 112,
    97, 100, 100, 101, 100, 32, 61, 32, 123, 48, 49, 125, 10, 105, 110, 116, 45, 110, 101, 103, 97, 116, 105, 118,
    101, 45, 112, 97, 100, 100, 101, 100, 32, 61, 32, 123, 45, 48, 49, 125, 10, 105, 110, 116, 45, 122, 101, 114,
    111, 45, 112, 97, 100, 100, 101, 100, 32, 61, 32, 123, 48, 48, 125, 10, 105, 110, 116, 45, 110, 101, 103, 97,
    116, 105, 118, 101, 45, 122, 101, 114, 111, 45, 112, 97, 100, 100, 101, 100, 32, 61, 32, 123, 45, 48, 48, 125,
    10, 10, 102, 108, 111, 97, 116, 45, 122, 101, 114, 111, 32, 61, 32, 123, 48, 46, 48, 125, 10, 102, 108, 111,
    97, 116, 45, 112, 111, 115, 105, 116, 105, 118, 101, 32, 61, 32, 123, 48, 46, 48, 49, 125, 10, 102, 108, 111,
    97, 116, 45, 112, 111, 115, 105, 116, 105, 118, 101, 45, 111, 110, 101, 32, 61, 32, 123, 49, 46, 48, 51, 125,
    10, 102, 108, 111, 97, 116, 45, 112, 111, 115, 105, 116, 105, 118, 101, 45, 119, 105, 116, 104, 111, 117, 116,
    45, 102, 114, 97, 99, 116, 105, 111, 110, 32, 61, 32, 123, 49, 46, 48, 48, 48, 125, 10, 10, 102, 108, 111, 97,
    116, 45, 110, 101, 103, 97, 116, 105, 118, 101, 32, 61, 32, 123, 45, 48, 46, 48, 49, 125, 10, 102, 108, 111,
    97, 116, 45, 110, 101, 103, 97, 116, 105, 118, 101, 45, 111, 110, 101, 32, 61, 32, 123, 45, 49, 46, 48, 51,
    125, 10, 102, 108, 111, 97, 116, 45, 110, 101, 103, 97, 116, 105, 118, 101, 45, 122, 101, 114, 111, 32, 61,
    32, 123, 45, 48, 46, 48, 125, 10, 102, 108, 111, 97, 116, 45, 110, 101, 103, 97, 116, 105, 118, 101, 45, 119,
    105, 116, 104, 111, 117, 116, 45, 102, 114, 97, 99, 116, 105, 111, 110, 32, 61, 32, 123, 45, 49, 46, 48, 48,
    48, 125, 10, 10, 102, 108, 111, 97, 116, 45, 112, 111, 115, 105, 116, 105, 118, 101, 45, 112, 97, 100, 100,
    101, 100, 45, 108, 101, 102, 116, 32, 61, 32, 123, 48, 49, 46, 48, 51, 125, 10, 102, 108, 111, 97, 116, 45,
    112, 111, 115, 105, 116, 105, 118, 101, 45, 112, 97, 100, 100, 101, 100, 45, 114, 105, 103, 104, 116, 32, 61,
    32, 123, 49, 46, 48, 51, 48, 48, 125, 10, 102, 108, 111, 97, 116, 45, 112, 111, 115, 105, 116, 105, 118, 101,
    45, 112, 97, 100, 100, 101, 100, 45, 98, 111, 116, 104, 32, 61, 32, 123, 48, 49, 46, 48, 51, 48, 48, 125, 10,
    10, 102, 108, 111, 97, 116, 45, 110, 101, 103, 97, 116, 105, 118, 101, 45, 112, 97, 100, 100, 101, 100, 45,
    108, 101, 102, 116, 32, 61, 32, 123, 45, 48, 49, 46, 48, 51, 125, 10, 102, 108, 111, 97, 116, 45, 110, 101,
    103, 97, 116, 105, 118, 101, 45, 112, 97, 100, 100, 101, 100, 45, 114, 105, 103, 104, 116, 32, 61, 32, 123,
    45, 49, 46, 48, 51, 48, 48, 125, 10, 102, 108, 111, 97, 116, 45, 110, 101, 103, 97, 116, 105, 118, 101, 45,
    112, 97, 100, 100, 101, 100, 45, 98, 111, 116, 104, 32, 61, 32, 123, 45, 48, 49, 46, 48, 51, 48, 48, 125, 10,
    10, 10, 35, 35, 32, 69, 82, 82, 79, 82, 83, 10, 10, 101, 114, 114, 48, 49, 32, 61, 32, 123, 49, 46, 125, 10,
    101, 114, 114, 48, 50, 32, 61, 32, 123, 46, 48, 50, 125, 10, 101, 114, 114, 48, 51, 32, 61, 32, 123, 49, 46,
    48, 50, 46, 48, 51, 125, 10, 101, 114, 114, 48, 52, 32, 61, 32, 123, 49, 46, 32, 48, 50, 125, 10, 101, 114,
    114, 48, 53, 32, 61, 32, 123, 49, 32, 46, 48, 50, 125, 10, 101, 114, 114, 48, 54, 32, 61, 32, 123, 45, 32, 49,
    125, 10, 101, 114, 114, 48, 55, 32, 61, 32, 123, 49, 44, 48, 50, 125, 10]
#guard inClass fixture_numbers true == false && inClass fixture_numbers false == true

/-- census: `obsolete.ftl` — with_junk=true: false, with_junk=false: true -/
def fixture_obsolete : Src :=
    #[35, 35, 35, 32, 84, 104, 101, 32, 115, 121, 110, 116, 97, 120, 32, 105, 110, 32, 116, 104, 105, 115, 32,
    102, 105, 108, 101, 32, 104, 97, 115, 32, 98, 101, 101, 110, 32, 100, 105, 115, 99, 111, 110, 116, 105, 110,
    117, 101, 100, 46, 32, 73, 116, 32, 105, 115, 32, 110, 111, 32, 108, 111, 110, 103, 101, 114, 32, 112, 97,
    114, 116, 32, 111, 102, 32, 116, 104, 101, 10, 35, 35, 35, 32, 70, 108, 117, 101, 110, 116, 32, 115, 112, 101,
    99, 105, 102, 105, 99, 97, 116, 105, 111, 110, 32, 97, 110, 100, 32, 115, 104, 111, 117, 108, 100, 32, 110,
    111, 116, 32, 98, 101, 32, 105, 109, 112, 108, 101, 109, 101, 110, 116, 101, 100, 32, 110, 111, 114, 32, 117,
    115, 101, 100, 46, 32, 87, 101, 39, 114, 101, 32, 107, 101, 101, 112, 105, 110, 103, 10, 35, 35, 35, 32, 116,
    104, 101, 115, 101, 32, 102, 105, 120, 116, 117, 114, 101, 115, 32, 97, 114, 111, 117, 110, 100, 32, 116, 111,
    32, 112, 114, 111, 116, 101, 99, 116, 32, 97, 103, 97, 105, 110, 115, 116, 32, 97, 99, 99, 105, 100, 101, 110,
    116, 97, 108, 32, 115, 121, 110, 116, 97, 120, 32, 114, 101, 117, 115, 101, 46, 10, 10, 10, 35, 35, 32, 86,
    97, 114, 105, 97, 110, 116, 32, 108, 105, 115, 116, 115, 46, 10, 10, 109, 101, 115, 115, 97, 103, 101, 45,
    118, 97, 114, 105, 97, 110, 116, 45, 108, 105, 115, 116, 32, 61, 10, 32, 32, 32, 32, 123, 10, 32, 32, 32, 32,
    32, 32, 32, 42, 91, 107, 101, 121, 93, 32, 86, 97, 108, 117, 101, 10, 32, 32, 32, 32, 125, 10, 10, 45, 116,
    101, 114, 109, 45, 118, 97, 114, 105, 97, 110, 116, 45, 108, 105, 115, 116, 32, 61, 10, 32, 32, 32, 32, 123,
    10, 32, 32, 32, 32, 32, 32, 32, 42, 91, 107, 101, 121, 93, 32, 86, 97, 108, 117, 101, 10, 32, 32, 32, 32, 125,
    10, 10, 10, 35, 35, 32, 86, 97, 114, 105, 97, 110, 116, 32, 101, 120, 112, 114, 101, 115, 115, 105, 111, 110,
    115, 46, 10, 10, 109, 101, 115, 115, 97, 103, 101, 45, 118, 97, 114, 105, 97, 110, 116, 45, 101, 120, 112,
    114, 101, 115, 115, 105, 111, 110, 45, 112, 108, 97, 99, 101, 97, 98, 108, 101, 32, 61, 32, 123, 109, 115,
    103, 91, 99, 97, 115, 101, 93, 125, 10, 109, 101, 115, 115, 97, 103, 101, 45, 118, 97, 114, 105, 97, 110, 116,
    45, 101, 120, 112, 114, 101, 115, 115, 105, 111, 110, 45, 115, 101, 108, 101, 99, 116, 111, 114, 32, 61, 32,
    123, 109, 115, 103, 91, 99, 97, 115, 101, 93, 32, 45, 62, 10, 32, 32, 32, 42, 91, 107, 101, 121, 93, 32, 86,
    97, 108, 117, 101, 10, 125, 10, 10, 116, 101, 114, 109, 45, 118, 97, 114, 105, 97, 110, 116, 45, 101, 120,
    112, 114, 101, 115, 115, 105, 111, 110, 45, 112, 108, 97, 99, 101, 97, 98, 108, 101, 32, 61, 32, 123, 45, 116,
    101, 114, 109, 91, 99, 97, 115, 101, 93, 125, 10, 116, 101, 114, 109, 45, 118, 97, 114, 105, 97, 110, 116, 45,
    101, 120, 112, 114, 101, 115, 115, 105, 111, 110, 45, 115, 101, 108, 101, 99, 116, 111, 114, 32, 61, 32, 123,
    45, 116, 101, 114, 109, 91, 99, 97, 115, 101, 93, 32, 45, 62, 10, 32, 32, 32, 42, 91, 107, 101, 121, 93, 32,
    86, 97, 108, 117, 101, 10, 125, 10]
#guard inClass fixture_obsolete true == false && inClass fixture_obsolete false == true

/-- census: `placeables.ftl` — with_junk=true: false, with_junk=false: true -/
def fixture_placeables : Src :=
    #[110, 101, 115, 116, 101, 100, 45, 112, 108, 97, 99, 101, 97, 98, 108, 101, 32, 61, 32, 123, 123, 123, 49,
    125, 125, 125, 10, 112, 97, 100, 100, 101, 100, 45, 112, 108, 97, 99, 101, 97, 98, 108, 101, 32, 61, 32, 123,
    32, 32, 49, 32, 32, 125, 10, 115, 112, 97, 114, 115, 101, 45, 112, 108, 97, 99, 101, 97, 98, 108, 101, 32, 61,
    32, 123, 32, 123, 32, 49, 32, 125, 32, 125, 10, 10, 35, 32, 69, 82, 82, 79, 82, 32, 85, 110, 109, 97, 116, 99,
    104, 101, 100, 32, 111, 112, 101, 110, 105, 110, 103, 32, 98, 114, 97, 99, 101, 10, 117, 110, 109, 97, 116,
    99, 104, 101, 100, 45, 111, 112, 101, 110, 49, 32, 61, 32, 123, 32, 49, 10, 10, 35, 32, 69, 82, 82, 79, 82,
    32, 85, 110, 109, 97, 116, 99, 104, 101, 100, 32, 111, 112, 101, 110, 105, 110, 103, 32, 98, 114, 97, 99, 101,
    10, 117, 110, 109, 97, 116, 99, 104, 101, 100, 45, 111, 112, 101, 110, 50, 32, 61, 32, 123, 123, 32, 49, 32,
    125, 10, 10, 35, 32, 69, 82, 82, 79, 82, 32, 85, 110, 109, 97, 116, 99, 104, 101, 100, 32, 99, 108, 111, 115,
    105, 110, 103, 32, 98, 114, 97, 99, 101, 10, 117, 110, 109, 97, 116, 99, 104, 101, 100, 45, 99, 108, 111, 115,
    101, 49, 32, 61, 32, 49, 32, 125, 10, 10, 35, 32, 69, 82, 82, 79, 82, 32, 85, 110, 109, 97, 116, 99, 104, 101,
    100, 32, 99, 108, 111, 115, 105, 110, 103, 32, 98, 114, 97, 99, 101, 10, 117, 110, 109, 97, 116, 99, 104, 101,
    100, 45, 99, 108, 111, 115, 101, 50, 32, 61, 32, 123, 32, 49, 32, 125, 125, 10]
#guard inClass fixture_placeables true == false && inClass fixture_placeables false == true

/-- census: `reference_expressions.ftl` — with_junk=true: false, with_junk=false: true -/
def fixture_reference_expressions : Src :=
    #[35, 35, 32, 82, 101, 102, 101, 114, 101, 110, 99, 101, 32, 101, 120, 112, 114, 101, 115, 115, 105, 111, 110,
    115, 32, 105, 110, 32, 112, 108, 97, 99, 101, 97, 98, 108, 101, 115, 46, 10, 10, 109, 101, 115, 115, 97, 103,
    101, 45, 114, 101, 102, 101, 114, 101, 110, 99, 101, 45, 112, 108, 97, 99, 101, 97, 98, 108, 101, 32, 61, 32,
    123, 109, 115, 103, 125, 10, 116, 101, 114, 109, 45, 114, 101, 102, 101, 114, 101, 110, 99, 101, 45, 112, 108,
    97, 99, 101, 97, 98, 108, 101, 32, 61, 32, 123, 45, 116, 101, 114, 109, 125, 10, 118, 97, 114, 105, 97, 98,
    108, 101, 45, 114, 101, 102, 101, 114, 101, 110, 99, 101, 45, 112, 108, 97, 99, 101, 97, 98, 108, 101, 32, 61,
    32, 123, 36, 118, 97, 114, 125, 10, 10, 35, 32, 70, 117, 110, 99, 116, 105, 111, 110, 32, 114, 101, 102, 101,
    114, 101, 110, 99, 101, 115, 32, 97, 114, 101, 32, 105, 110, 118, 97, 108, 105, 100, 32, 111, 117, 116, 115,
    105, 100, 101, 32, 111, 102, 32, 99, 97, 108, 108, 32, 101, 120, 112, 114, 101, 115, 115, 105, 111, 110, 115,
    46, 10, 35, 32, 84, 104, 105, 115, 32, 112, 97, 114, 115, 101, 115, 32, 97, 115, 32, 97, 32, 118, 97, 108,
    105, 100, 32, 77, 101, 115, 115, 97, 103, 101, 82, 101, 102, 101, 114, 101, 110, 99, 101, 46, 10, 102, 117,
    110, 99, 116, 105, 111, 110, 45, 114, 101, 102, 101, 114, 101, 110, 99, 101, 45, 112, 108, 97, 99, 101, 97,
    98, 108, 101, 32, 61, 32, 123, 70, 85, 78, 125, 10, 10, 10, 35, 35, 32, 82, 101, 102, 101, 114, 101, 110, 99,
    101, 32, 101, 120, 112, 114, 101, 115, 115, 105, 111, 110, 115, 32, 105, 110, 32, 115, 101, 108, 101, 99, 116,
    111, 114, 115, 46, 10, 10, 118, 97, 114, 105, 97, 98, 108, 101, 45, 114, 101, 102, 101, 114, 101, 110, 99,
    101, 45, 115, 101, 108, 101, 99, 116, 111, 114, 32, 61, 32, 123, 36, 118, 97, 114, 32, 45, 62, 10, 32, 32, 32,
    42, 91, 107, 101, 121, 93, 32, 86, 97, 108, 117, 101, 10, 125, 10, 10, 35, 32, 69, 82, 82, 79, 82, 32, 77,
    101, 115, 115, 97, 103, 101, 32, 118, 97, 108, 117, 101, 115, 32, 109, 97, 121, 32, 110, 111, 116, 32, 98,
    101, 32, 117, 115, 101, 100, 32, 97, 115, 32, 115, 101, 108, 101, 99, 116, 111, 114, 115, 46, 10, 109, 101,
    115, 115, 97, 103, 101, 45, 114, 101, 102, 101, 114, 101, 110, 99, 101, 45, 115, 101, 108, 101, 99, 116, 111,
    114, 32, 61, 32, 123, 109, 115, 103, 32, 45, 62, 10, 32, 32, 32, 42, 91, 107, 101, 121, 93, 32, 86, 97, 108,
    117, 101, 10, 125, 10, 35, 32, 69, 82, 82, 79, 82, 32, 84, 101, 114, 109, 32, 118, 97, 108, 117, 101, 115, 32,
    109, 97, 121, 32, 110, 111, 116, 32, 98, 101, 32, 117, 115, 101, 100, 32, 97, 115, 32, 115, 101, 108, 101, 99,
    116, 111, 114, 115, 46, 10, 116, 101, 114, 109, 45, 114, 101, 102, 101, 114, 101, 110, 99, 101, 45, 115, 101,
    108, 101, 99, 116, 111, 114, 32, 61, 32, 123, 45, 116, 101, 114, 109, 32, 45, 62, 10, 32, 32, 32, 42, 91, 107,
    101, 121, 93, 32, 86, 97, 108, 117, 101, 10, 125, 10, 35, 32, 69, 82, 82, 79, 82, 32, 70, 117, 110, 99, 116,
    105, 111, 110, 32, 114, 101, 102, 101, 114, 101, 110, 99, 101, 115, 32, 97, 114, 101, 32, 105, 110, 118, 97,
    108, 105, 100, 32, 111, 117, 116, 115, 105, 100, 101, 32, 111, 102, 32, 99, 97, 108, 108, 32, 101, 120, 112,
    114, 101, 115, 115, 105, 111, 110, 115, 44, 32, 97, 110, 100, 32, 116, 104, 105, 115, 10, 35, 32, 112, 97,
    114, 115, 101, 115, 32, 97, 115, 32, 97, 32, 77, 101, 115, 115, 97, 103, 101, 82, 101, 102, 101, 114, 101,
    110, 99, 101, 32, 119, 104, 105, 99, 104, 32, 105, 115, 110, 39, 116, 32, 97, 32, 118, 97, 108, 105, 100, 32,
    115, 101, 108, 101, 99, 116, 111, 114, 46, 10, 102, 117, 110, 99, 116, 105, 111, 110, 45, 101, 120, 112, 114,
    101, 115, 115, 105, 111, 110, 45, 115, 101, 108, 101, 99, 116, 111, 114, 32, 61, 32, 123, 70, 85, 78, 32, 45,
    62, 10, 32, 32, 32, 42, 91, 107, 101, 121, 93, 32, 86, 97, 108, 117, 101, 10, 125, 10]
#guard inClass fixture_reference_expressions true == false && inClass fixture_reference_expressions false == true

/-- census: `select_expressions.ftl` — with_junk=true: false, with_junk=false: true -/
def fixture_select_expressions : Src :=
    #[110, 101, 119, 45, 109, 101, 115, 115, 97, 103, 101, 115, 32, 61, 10, 32, 32, 32, 32, 123, 32, 66, 85, 73,
    76, 84, 73, 78, 40, 41, 32, 45, 62, 10, 32, 32, 32, 32, 32, 32, 32, 32, 91, 48, 93, 32, 90, 101, 114, 111, 10,
    32, 32, 32, 32, 32, 32, 32, 42, 91, 111, 116, 104, 101, 114, 93, 32, 123, 34, 34, 125, 79, 116, 104, 101, 114,
    10, 32, 32, 32, 32, 125, 10, 10, 118, 97, 108, 105, 100, 45, 115, 101, 108, 101, 99, 116, 111, 114, 45, 116,
    101, 114, 109, 45, 97, 116, 116, 114, 105, 98, 117, 116, 101, 32, 61, 10, 32, 32, 32, 32, 123, 32, 45, 116,
    101, 114, 109, 46, 99, 97, 115, 101, 32, 45, 62, 10, 32, 32, 32, 32, 32, 32, 32, 42, 91, 107, 101, 121, 93,
    32, 118, 97, 108, 117, 101, 10, 32, 32, 32, 32, 125, 10, 10, 35, 32, 69, 82, 82, 79, 82, 32, 84, 101, 114,
    109, 32, 118, 97, 108, 117, 101, 115, 32, 97, 114, 101, 32, 110, 111, 116, 32, 118, 97, 108, 105, 100, 32,
    115, 101, 108, 101, 99, 116, 111, 114, 115, 10, 105, 110, 118, 97, 108, 105, 100, 45, 115, 101, 108, 101, 99,
    116, 111, 114, 45, 116, 101, 114, 109, 45, 118, 97, 108, 117, 101, 32, 61, 10, 32, 32, 32, 32, 123, 32, 45,
    116, 101, 114, 109, 32, 45, 62, 10, 32, 32, 32, 32, 32, 32, 32, 42, 91, 107, 101, 121, 93, 32, 118, 97, 108,
    117, 101, 10, 32, 32, 32, 32, 125, 10, 10, 35, 32, 69, 82, 82, 79, 82, 32, 67, 97, 108, 108, 69, 120, 112,
    114, 101, 115, 115, 105, 111, 110, 115, 32, 111, 110, 32, 84, 101, 114, 109, 115, 32, 97, 114, 101, 32, 115,
    105, 109, 105, 108, 97, 114, 32, 116, 111, 32, 84, 101, 114, 109, 82, 101, 102, 101, 114, 101, 110, 99, 101,
    115, 10, 105, 110, 118, 97, 108, 105, 100, 45, 115, 101, 108, 101, 99, 116, 111, 114, 45, 116, 101, 114, 109,
    45, 118, 97, 114, 105, 97, 110, 116, 32, 61, 10, 32, 32, 32, 32, 123, 32, 45, 116, 101, 114, 109, 40, 99, 97,
    115, 101, 58, 32, 34, 110, 111, 109, 105, 110, 97, 116, 105, 118, 101, 34, 41, 32, 45, 62, 10, 32, 32, 32, 32,
    32, 32, 32, 42, 91, 107, 101, 121, 93, 32, 118, 97, 108, 117, 101, 10, 32, 32, 32, 32, 125, 10, 10, 35, 32,
    69, 82, 82, 79, 82, 32, 78, 101, 115, 116, 101, 100, 32, 101, 120, 112, 114, 101, 115, 115, 105, 111, 110,
    115, 32, 97, 114, 101, 32, 110, 111, 116, 32, 118, 97, 108, 105, 100, 32, 115, 101, 108, 101, 99, 116, 111,
    114, 115, 10, 105, 110, 118, 97, 108, 105, 100, 45, 115, 101, 108, 101, 99, 116, 111, 114, 45, 110, 101, 115,
    116, 101, 100, 45, 101, 120, 112, 114, 101, 115, 115, 105, 111, 110, 32, 61, 10, 32, 32, 32, 32, 123, 32, 123,
    32, 51, 32, 125, 32, 45, 62, 10, 32, 32, 32, 32, 32, 32, 32, 32, 42, 91, 107, 101, 121, 93, 32, 100, 101, 102,
    97, 117, 108, 116, 10, 32, 32, 32, 32, 125, 10, 10, 35, 32, 69, 82, 82, 79, 82, 32, 83, 101, 108, 101, 99,
    116, 32, 101, 120, 112, 114, 101, 115, 115, 105, 111, 110, 115, 32, 97, 114, 101, 32, 110, 111, 116, 32, 118,
    97, 108, 105, 100, 32, 115, 101, 108, 101, 99, 116, 111, 114, 115, 10, 105, 110, 118, 97, 108, 105, 100, 45,
    115, 101, 108, 101, 99, 116, 111, 114, 45, 115, 101, 108, 101, 99, 116, 45, 101, 120, 112, 114, 101, 115, 115,
    105, 111, 110, 32, 61, 10, 32, 32, 32, 32, 123, 32, 123, 32, 36, 115, 101, 108, 32, 45, 62, 10, 32, 32, 32,
    32, 32, 32, 32, 32, 42, 91, 107, 101, 121, 93, 32, 118, 97, 108, 117, 101, 10, 32, 32, 32, 32, 32, 32, 32, 32,
    125, 32, 45, 62, 10, 32, 32, 32, 32, 32, 32, 32, 32, 42, 91, 107, 101, 121, 93, 32, 100, 101, 102, 97, 117,
    108, 116, 10, 32, 32, 32, 32, 125, 10, 10, 101, 109, 112, 116, 121, 45, 118, 97, 114, 105, 97, 110, 116, 32,
    61, 10, 32, 32, 32, 32, 123, 32, 36, 115, 101, 108, 32, 45, 62, 10, 32, 32, 32, 32, 32, 32, 32, 42, 91, 107,
    101, 121, 93, 32, 123, 34, 34, 125, 10, 32, 32, 32, 32, 125, 10, 10, 114, 101, 100, 117, 99, 101, 100, 45,
    119, 104, 105, 116, 101, 115, 112, 97, 99, 101, 32, 61, 10, 32, 32, 32, 32, 123, 70, 79, 79, 40, 41, 45, 62,
    10, 32, 32, 32, 32, 32, 32, 32, 42, 91, 107, 101, 121, 93, 32, 123, 34, 34, 125, 10, 32, 32, 32, 32, 125, 10,
    10, 110, 101, 115, 116, 101, 100, 45, 115, 101, 108, 101, 99, 116, 32, 61, 10, 32, 32, 32, 32, 123, 32, 36,
    115, 101, 108, 32, 45, 62, 10, 32, 32, 32, 32, 32, 32, 32, 42, 91, 111, 110, 101, 93, 32, 123, 32, 36, 115,
    101, 108, 32, 45, 62, 10, 32, 32, 32, 32, 32, 32, 32, 32, 32, 32, 42, 91, 116, 119, 111, 93, 32, 86, 97, 108,
    117, 101, 10, 32, 32, 32, 32, 32, 32, 32, 125, 10, 32, 32, 32, 32, 125, 10, 10, 35, 32, 69, 82, 82, 79, 82,
    32, 77, 105, 115, 115, 105, 110, 103, 32, 115, 101, 108, 101, 99, 116, 111, 114, 10, 109, 105, 115, 115, 105,
    110, 103, 45, 115, 101, 108, 101, 99, 116, 111, 114, 32, 61, 10, 32, 32, 32, 32, 123, 10, 32, 32, 32, 32, 32,
    32, 32, 42, 91, 107, 101, 121, 93, 32, 86, 97, 108, 117, 101, 10, 32, 32, 32, 32, 125, 10, 10, 35, 32, 69, 82,
    82, 79, 82, 32, 77, 105, 115, 115, 105, 110, 103, 32, 108, 105, 110, 101, 32, 101, 110, 100, 32, 97, 102, 116,
    101, 114, 32, 118, 97, 114, 105, 97, 110, 116, 32, 108, 105, 115, 116, 10, 109, 105, 115, 115, 105, 110, 103,
    45, 108, 105, 110, 101, 45, 101, 110, 100, 32, 61, 10, 32, 32, 32, 32, 123, 32, 36, 115, 101, 108, 32, 45, 62,
    10, 32, 32, 32, 32, 32, 32, 32, 32, 42, 91, 107, 101, 121, 93, 32, 86, 97, 108, 117, 101, 125, 10]
#guard inClass fixture_select_expressions true == false && inClass fixture_select_expressions false == true

/-- census: `select_indent.ftl` — with_junk=true: false, with_junk=false: true -/
def fixture_select_indent : Src :=
    #[115, 101, 108, 101, 99, 116, 45, 49, 116, 98, 115, 45, 105, 110, 108, 105, 110, 101, 32, 61, 32, 123, 32,
    36, 115, 101, 108, 101, 99, 116, 111, 114, 32, 45, 62, 10, 32, 32, 32, 42, 91, 107, 101, 121, 93, 32, 86, 97,
    108, 117, 101, 10, 125, 10, 10, 115, 101, 108, 101, 99, 116, 45, 49, 116, 98, 115, 45, 110, 101, 119, 108,
    105, 110, 101, 32, 61, 32, 123, 10, 36, 115, 101, 108, 101, 99, 116, 111, 114, 32, 45, 62, 10, 32, 32, 32, 42,
    91, 107, 101, 121, 93, 32, 86, 97, 108, 117, 101, 10, 125, 10, 10, 115, 101, 108, 101, 99, 116, 45, 49, 116,
    98, 115, 45, 105, 110, 100, 101, 110, 116, 32, 61, 32, 123, 10, 32, 32, 32, 32, 36, 115, 101, 108, 101, 99,
    116, 111, 114, 32, 45, 62, 10, 32, 32, 32, 42, 91, 107, 101, 121, 93, 32, 86, 97, 108, 117, 101, 10, 125, 10,
    10, 115, 101, 108, 101, 99, 116, 45, 97, 108, 108, 109, 97, 110, 45, 105, 110, 108, 105, 110, 101, 32, 61, 10,
    123, 32, 36, 115, 101, 108, 101, 99, 116, 111, 114, 32, 45, 62, 10, 32, 32, 32, 42, 91, 107, 101, 121, 93, 32,
    86, 97, 108, 117, 101, 10, 32, 32, 32, 32, 91, 111, 116, 104, 101, 114, 93, 32, 79, 116, 104, 101, 114, 10,
    125, 10, 10, 115, 101, 108, 101, 99, 116, 45, 97, 108, 108, 109, 97, 110, 45, 110, 101, 119, 108, 105, 110,
    101, 32, 61, 10, 123, 10, 36, 115, 101, 108, 101, 99, 116, 111, 114, 32, 45, 62, 10, 32, 32, 32, 42, 91, 107,
    101, 121, 93, 32, 86, 97, 108, 117, 101, 10, 125, 10, 10, 115, 101, 108, 101, 99, 116, 45, 97, 108, 108, 109,
    97, 110, 45, 105, 110, 100, 101, 110, 116, 32, 61, 10, 123, 10, 32, 32, 32, 32, 36, 115, 101, 108, 101, 99,
    116, 111, 114, 32, 45, 62, 10, 32, 32, 32, 42, 91, 107, 101, 121, 93, 32, 86, 97, 108, 117, 101, 10, 125, 10,
    10, 115, 101, 108, 101, 99, 116, 45, 103, 110, 117, 45, 105, 110, 108, 105, 110, 101, 32, 61, 10, 32, 32, 32,
    123, 32, 36, 115, 101, 108, 101, 99, 116, 111, 114, 32, 45, 62, 10, 32, 32, 32, 32, 32, 32, 42, 91, 107, 101,
    121, 93, 32, 86, 97, 108, 117, 101, 10, 32, 32, 32, 125, 10, 10, 115, 101, 108, 101, 99, 116, 45, 103, 110,
    117, 45, 110, 101, 119, 108, 105, 110, 101, 32, 61, 10, 32, 32, 32, 123, 10, 36, 115, 101, 108, 101, 99, 116,
    111, 114, 32, 45, 62, 10, 32, 32, 32, 32, 32, 32, 42, 91, 107, 101, 121, 93, 32, 86, 97, 108, 117, 101, 10,
    32, 32, 32, 125, 10, 10, 115, 101, 108, 101, 99, 116, 45, 103, 110, 117, 45, 105, 110, 100, 101, 110, 116, 32,
    61, 10, 32, 32, 32, 123, 10, 32, 32, 32, 32, 32, 32, 32, 36, 115, 101, 108, 101, 99, 116, 111, 114, 32, 45,
    62, 10, 32, 32, 32, 32, 32, 32, 42, 91, 107, 101, 121, 93, 32, 86, 97, 108, 117, 101, 10, 32, 32, 32, 125, 10,
    10, 115, 101, 108, 101, 99, 116, 45, 110, 111, 45, 105, 110, 100, 101, 110, 116, 32, 61, 10, 123, 10, 36, 115,
    101, 108, 101, 99, 116, 111, 114, 32, 45, 62, 10, 42, 91, 107, 101, 121, 93, 32, 86, 97, 108, 117, 101, 10,
    91, 111, 116, 104, 101, 114, 93, 32, 79, 116, 104, 101, 114, 10, 125, 10, 10, 115, 101, 108, 101, 99, 116, 45,
    110, 111, 45, 105, 110, 100, 101, 110, 116, 45, 109, 117, 108, 116, 105, 108, 105, 110, 101, 32, 61, 10, 123,
    10, 36, 115, 101, 108, 101, 99, 116, 111, 114, 32, 45, 62, 10, 42, 91, 107, 101, 121, 93, 32, 86, 97, 108,
    117, 101, 10, 32, 32, 32, 32, 32, 32, 32, 67, 111, 110, 116, 105, 110, 117, 101, 100, 10, 91, 111, 116, 104,
    101, 114, 93, 10, 32, 32, 32, 32, 79, 116, 104, 101, 114, 10, 32, 32, 32, 32, 77, 117, 108, 116, 105, 108,
    105, 110, 101, 10, 125, 10, 10, 35, 32, 69, 82, 82, 79, 82, 32, 40, 77, 117, 108, 116, 105, 108, 105, 110,
    101, 32, 116, 101, 120, 116, 32, 109, 117, 115, 116, 32, 98, 101, 32, 105, 110, 100, 101, 110, 116, 101, 100,
    41, 10, 115, 101, 108, 101, 99, 116, 45, 110, 111, 45, 105, 110, 100, 101, 110, 116, 45, 109, 117, 108, 116,
    105, 108, 105, 110, 101, 32, 61, 32, 123, 32, 36, 115, 101, 108, 101, 99, 116, 111, 114, 32, 45, 62, 10, 32,
    32, 32, 42, 91, 107, 101, 121, 93, 32, 86, 97, 108, 117, 101, 10, 67, 111, 110, 116, 105, 110, 117, 101, 100,
    32, 119, 105, 116, 104, 111, 117, 116, 32, 105, 110, 100, 101, 110, 116, 46, 10, 125, 10, 10, 115, 101, 108,
    101, 99, 116, 45, 102, 108, 97, 116, 32, 61, 10, 123, 10, 36, 115, 101, 108, 101, 99, 116, 111, 114, 10, 45,
    62, 10, 42, 91, 10, 107, 101, 121, 10, 93, 32, 86, 97, 108, 117, 101, 10, 91, 10, 111, 116, 104, 101, 114, 10,
    93, 32, 79, 116, 104, 101, 114, 10, 125, 10, 10, 35, 32, 69, 97, 99, 104, 32, 108, 105, 110, 101, 32, 101,
    110, 100, 115, 32, 119, 105, 116, 104, 32, 53, 32, 115, 112, 97, 99, 101, 115, 46, 10, 115, 101, 108, 101, 99,
    116, 45, 102, 108, 97, 116, 45, 119, 105, 116, 104, 45, 116, 114, 97, 105, 108, 105, 110, 103, 45, 115, 112,
    97, 99, 101, 115, 32, 61, 10, 123, 32, 32, 32, 32, 32, 10, 36, 115, 101, 108, 101, 99, 116, 111, 114, 32, 32,
    32, 32, 32, 10, 45, 62, 32, 32, 32, 32, 32, 10, 42, 91, 32, 32, 32, 32, 32, 10, 107, 101, 121, 32, 32, 32, 32,
    32, 10, 93, 32, 86, 97, 108, 117, 101, 32, 32, 32, 32, 32, 10, 91, 32, 32, 32, 32, 32, 10, 111, 116, 104, 101,
    114, 32, 32, 32, 32, 32, 10, 93, 32, 79, 116, 104, 101, 114, 32, 32, 32, 32, 32, 10, 125, 32, 32, 32, 32, 32,
    10]
#guard inClass fixture_select_indent true == false && inClass fixture_select_indent false == true

/-- census: `sparse_entries.ftl` — with_junk=true: true, with_junk=false: true -/
def fixture_sparse_entries : Src :=
    #[107, 101, 121, 48, 49, 32, 61, 10, 10, 10, 32, 32, 32, 32, 86, 97, 108, 117, 101, 10, 10, 107, 101, 121, 48,
    50, 32, 61, 10, 10, 10, 32, 32, 32, 32, 46, 97, 116, 116, 114, 32, 61, 32, 65, 116, 116, 114, 105, 98, 117,
    116, 101, 10, 10, 10, 107, 101, 121, 48, 51, 32, 61, 10, 32, 32, 32, 32, 86, 97, 108, 117, 101, 10, 32, 32,
    32, 32, 67, 111, 110, 116, 105, 110, 117, 101, 100, 10, 10, 10, 32, 32, 32, 32, 79, 118, 101, 114, 32, 109,
    117, 108, 116, 105, 112, 108, 101, 10, 32, 32, 32, 32, 76, 105, 110, 101, 115, 10, 10, 10, 10, 32, 32, 32, 32,
    46, 97, 116, 116, 114, 32, 61, 32, 65, 116, 116, 114, 105, 98, 117, 116, 101, 10, 10, 10, 107, 101, 121, 48,
    53, 32, 61, 32, 32, 32, 32, 32, 32, 32, 32, 32, 32, 32, 32, 32, 32, 32, 32, 32, 32, 32, 32, 32, 86, 97, 108,
    117, 101, 10, 10, 107, 101, 121, 48, 54, 32, 61, 32, 123, 32, 49, 32, 45, 62, 10, 10, 10, 32, 32, 32, 32, 32,
    32, 32, 32, 32, 91, 111, 110, 101, 93, 32, 79, 110, 101, 10, 10, 10, 10, 10, 32, 32, 32, 32, 32, 32, 32, 32,
    42, 91, 116, 119, 111, 93, 32, 84, 119, 111, 10, 10, 10, 10, 32, 32, 32, 32, 125, 10]
#guard inClass fixture_sparse_entries true == true && inClass fixture_sparse_entries false == true

/-- census: `special_chars.ftl` — with_junk=true: false, with_junk=false: true -/
def fixture_special_chars : Src :=
    #[35, 35, 32, 79, 75, 10, 10, 98, 114, 97, 99, 107, 101, 116, 45, 105, 110, 108, 105, 110, 101, 32, 61, 32,
    91, 86, 97, 108, 117, 101, 93, 10, 100, 111, 116, 45, 105, 110, 108, 105, 110, 101, 32, 61, 32, 46, 86, 97,
    108, 117, 101, 10, 115, 116, 97, 114, 45, 105, 110, 108, 105, 110, 101, 32, 61, 32, 42, 86, 97, 108, 117, 101,
    10, 10, 35, 35, 32, 69, 82, 82, 79, 82, 83, 10, 10, 98, 114, 97, 99, 107, 101, 116, 45, 110, 101, 119, 108,
    105, 110, 101, 32, 61, 10, 32, 32, 32, 32, 91, 86, 97, 108, 117, 101, 93, 10, 100, 111, 116, 45, 110, 101,
    119, 108, 105, 110, 101, 32, 61, 10, 32, 32, 32, 32, 46, 86, 97, 108, 117, 101, 10, 115, 116, 97, 114, 45,
    110, 101, 119, 108, 105, 110, 101, 32, 61, 10, 32, 32, 32, 32, 42, 86, 97, 108, 117, 101, 10]
#guard inClass fixture_special_chars true == false && inClass fixture_special_chars false == true
example : (inClass fixture_special_chars true == false && inClass fixture_special_chars false == true) = true := by decide +kernel

/-- census: `tab.ftl` — with_junk=true: false, with_junk=false: true -/
def fixture_tab : Src :=
    #[35, 32, 79, 75, 32, 40, 116, 97, 98, 32, 97, 102, 116, 101, 114, 32, 61, 32, 105, 115, 32, 112, 97, 114,
    116, 32, 111, 102, 32, 116, 104, 101, 32, 118, 97, 108, 117, 101, 41, 10, 107, 101, 121, 48, 49, 32, 61, 9,
    86, 97, 108, 117, 101, 32, 48, 49, 10, 10, 35, 32, 69, 114, 114, 111, 114, 32, 40, 116, 97, 98, 32, 98, 101,
    102, 111, 114, 101, 32, 61, 41, 10, 107, 101, 121, 48, 50, 9, 61, 32, 86, 97, 108, 117, 101, 32, 48, 50, 10,
    10, 35, 32, 69, 114, 114, 111, 114, 32, 40, 116, 97, 98, 32, 105, 115, 32, 110, 111, 116, 32, 97, 32, 118, 97,
    108, 105, 100, 32, 105, 110, 100, 101, 110, 116, 41, 10, 107, 101, 121, 48, 51, 32, 61, 10, 9, 84, 104, 105,
    115, 32, 108, 105, 110, 101, 32, 105, 115, 110, 39, 116, 32, 112, 114, 111, 112, 101, 114, 108, 121, 32, 105,
    110, 100, 101, 110, 116, 101, 100, 46, 10, 10, 35, 32, 80, 97, 114, 116, 105, 97, 108, 32, 69, 114, 114, 111,
    114, 32, 40, 116, 97, 98, 32, 105, 115, 32, 110, 111, 116, 32, 97, 32, 118, 97, 108, 105, 100, 32, 105, 110,
    100, 101, 110, 116, 41, 10, 107, 101, 121, 48, 52, 32, 61, 10, 32, 32, 32, 32, 84, 104, 105, 115, 32, 108,
    105, 110, 101, 32, 105, 115, 32, 105, 110, 100, 101, 110, 116, 101, 100, 32, 98, 121, 32, 52, 32, 115, 112,
    97, 99, 101, 115, 44, 10, 9, 119, 104, 101, 114, 101, 97, 115, 32, 116, 104, 105, 115, 32, 108, 105, 110, 101,
    32, 98, 121, 32, 49, 32, 116, 97, 98, 46, 10, 10, 35, 32, 79, 75, 32, 40, 118, 97, 108, 117, 101, 32, 105,
    115, 32, 97, 32, 115, 105, 110, 103, 108, 101, 32, 116, 97, 98, 41, 10, 107, 101, 121, 48, 53, 32, 61, 32, 9,
    10, 10, 35, 32, 79, 75, 32, 40, 97, 116, 116, 114, 105, 98, 117, 116, 101, 32, 118, 97, 108, 117, 101, 32,
    105, 115, 32, 116, 119, 111, 32, 116, 97, 98, 115, 41, 10, 107, 101, 121, 48, 54, 32, 61, 10, 32, 32, 46, 97,
    116, 116, 114, 32, 61, 32, 9, 9, 10]
#guard inClass fixture_tab true == false && inClass fixture_tab false == true

/-- census: `term_parameters.ftl` — with_junk=true: true, with_junk=false: true -/
def fixture_term_parameters : Src :=
    #[45, 116, 101, 114, 109, 32, 61, 32, 123, 32, 36, 97, 114, 103, 32, 45, 62, 10, 32, 32, 32, 42, 91, 107, 101,
    121, 93, 32, 86, 97, 108, 117, 101, 10, 125, 10, 10, 107, 101, 121, 48, 49, 32, 61, 32, 123, 32, 45, 116, 101,
    114, 109, 32, 125, 10, 107, 101, 121, 48, 50, 32, 61, 32, 123, 32, 45, 116, 101, 114, 109, 32, 40, 41, 32,
    125, 10, 107, 101, 121, 48, 51, 32, 61, 32, 123, 32, 45, 116, 101, 114, 109, 40, 97, 114, 103, 58, 32, 49, 41,
    32, 125, 10, 107, 101, 121, 48, 52, 32, 61, 32, 123, 32, 45, 116, 101, 114, 109, 40, 34, 112, 111, 115, 105,
    116, 105, 111, 110, 97, 108, 34, 44, 32, 110, 97, 114, 103, 49, 58, 32, 49, 44, 32, 110, 97, 114, 103, 50, 58,
    32, 50, 41, 32, 125, 10]
#guard inClass fixture_term_parameters true == true && inClass fixture_term_parameters false == true
example : (inClass fixture_term_parameters true == true && inClass fixture_term_parameters false == true) = true := by decide +kernel

/-- census: `terms.ftl` — with_junk=true: false, with_junk=false: true -/
def fixture_terms : Src :=
    #[45, 116, 101, 114, 109, 48, 49, 32, 61, 32, 86, 97, 108, 117, 101, 10, 32, 32, 32, 32, 46, 97, 116, 116,
    114, 32, 61, 32, 65, 116, 116, 114, 105, 98, 117, 116, 101, 10, 10, 45, 116, 101, 114, 109, 48, 50, 32, 61,
    32, 123, 34, 34, 125, 10, 10, 35, 32, 74, 85, 78, 75, 32, 77, 105, 115, 115, 105, 110, 103, 32, 118, 97, 108,
    117, 101, 10, 45, 116, 101, 114, 109, 48, 51, 32, 61, 10, 32, 32, 32, 32, 46, 97, 116, 116, 114, 32, 61, 32,
    65, 116, 116, 114, 105, 98, 117, 116, 101, 10, 10, 35, 32, 74, 85, 78, 75, 32, 77, 105, 115, 115, 105, 110,
    103, 32, 118, 97, 108, 117, 101, 10, 35, 32, 32, 32, 32, 32, 32, 32, 32, 60, 32, 32, 119, 104, 105, 116, 101,
    115, 112, 97, 99, 101, 32, 32, 62, 10, 45, 116, 101, 114, 109, 48, 52, 32, 61, 32, 32, 32, 32, 32, 32, 32, 32,
    32, 32, 32, 32, 32, 32, 32, 32, 10, 32, 32, 32, 32, 46, 97, 116, 116, 114, 49, 32, 61, 32, 65, 116, 116, 114,
    105, 98, 117, 116, 101, 32, 49, 10, 10, 35, 32, 74, 85, 78, 75, 32, 77, 105, 115, 115, 105, 110, 103, 32, 118,
    97, 108, 117, 101, 10, 45, 116, 101, 114, 109, 48, 53, 32, 61, 10, 10, 35, 32, 74, 85, 78, 75, 32, 77, 105,
    115, 115, 105, 110, 103, 32, 118, 97, 108, 117, 101, 10, 35, 32, 32, 32, 32, 32, 32, 32, 32, 60, 32, 32, 119,
    104, 105, 116, 101, 115, 112, 97, 99, 101, 32, 32, 62, 10, 45, 116, 101, 114, 109, 48, 54, 32, 61, 32, 32, 32,
    32, 32, 32, 32, 32, 32, 32, 32, 32, 32, 32, 32, 32, 10, 10, 35, 32, 74, 85, 78, 75, 32, 77, 105, 115, 115,
    105, 110, 103, 32, 61, 10, 45, 116, 101, 114, 109, 48, 55, 10, 10, 45, 116, 101, 114, 109, 48, 56, 61, 86, 97,
    108, 117, 101, 10, 32, 32, 32, 32, 46, 97, 116, 116, 114, 61, 65, 116, 116, 114, 105, 98, 117, 116, 101, 10,
    10, 45, 116, 101, 114, 109, 48, 57, 32, 32, 32, 61, 32, 32, 86, 97, 108, 117, 101, 10, 32, 32, 32, 32, 46, 97,
    116, 116, 114, 32, 32, 61, 32, 32, 32, 65, 116, 116, 114, 105, 98, 117, 116, 101, 10]
#guard inClass fixture_terms true == false && inClass fixture_terms false == true

/-- census: `variables.ftl` — with_junk=true: false, with_junk=false: true -/
def fixture_variables : Src :=
    #[107, 101, 121, 48, 49, 32, 61, 32, 123, 36, 118, 97, 114, 125, 10, 107, 101, 121, 48, 50, 32, 61, 32, 123,
    32, 32, 32, 36, 118, 97, 114, 32, 32, 32, 125, 10, 107, 101, 121, 48, 51, 32, 61, 32, 123, 10, 32, 32, 32, 32,
    36, 118, 97, 114, 10, 125, 10, 107, 101, 121, 48, 52, 32, 61, 32, 123, 10, 36, 118, 97, 114, 125, 10, 10, 10,
    35, 35, 32, 69, 114, 114, 111, 114, 115, 10, 10, 35, 32, 69, 82, 82, 79, 82, 32, 77, 105, 115, 115, 105, 110,
    103, 32, 118, 97, 114, 105, 97, 98, 108, 101, 32, 105, 100, 101, 110, 116, 105, 102, 105, 101, 114, 10, 101,
    114, 114, 48, 49, 32, 61, 32, 123, 36, 125, 10, 35, 32, 69, 82, 82, 79, 82, 32, 68, 111, 117, 98, 108, 101,
    32, 36, 36, 10, 101, 114, 114, 48, 50, 32, 61, 32, 123, 36, 36, 118, 97, 114, 125, 10, 35, 32, 69, 82, 82, 79,
    82, 32, 73, 110, 118, 97, 108, 105, 100, 32, 102, 105, 114, 115, 116, 32, 99, 104, 97, 114, 32, 111, 102, 32,
    116, 104, 101, 32, 105, 100, 101, 110, 116, 105, 102, 105, 101, 114, 10, 101, 114, 114, 48, 51, 32, 61, 32,
    123, 36, 45, 118, 97, 114, 125, 10]
#guard inClass fixture_variables true == false && inClass fixture_variables false == true

/-- census: `variant_keys.ftl` — with_junk=true: false, with_junk=false: true -/
def fixture_variant_keys : Src :=
    #[115, 105, 109, 112, 108, 101, 45, 105, 100, 101, 110, 116, 105, 102, 105, 101, 114, 32, 61, 10, 32, 32, 32,
    32, 123, 32, 36, 115, 101, 108, 32, 45, 62, 10, 32, 32, 32, 32, 32, 32, 32, 42, 91, 107, 101, 121, 93, 32,
    118, 97, 108, 117, 101, 10, 32, 32, 32, 32, 125, 10, 10, 105, 100, 101, 110, 116, 105, 102, 105, 101, 114, 45,
    115, 117, 114, 114, 111, 117, 110, 100, 101, 100, 45, 98, 121, 45, 119, 104, 105, 116, 101, 115, 112, 97, 99,
    101, 32, 61, 10, 32, 32, 32, 32, 123, 32, 36, 115, 101, 108, 32, 45, 62, 10, 32, 32, 32, 32, 32, 32, 32, 42,
    91, 32, 32, 32, 32, 32, 107, 101, 121, 32, 32, 32, 32, 32, 93, 32, 118, 97, 108, 117, 101, 10, 32, 32, 32, 32,
    125, 10, 10, 105, 110, 116, 45, 110, 117, 109, 98, 101, 114, 32, 61, 10, 32, 32, 32, 32, 123, 32, 36, 115,
    101, 108, 32, 45, 62, 10, 32, 32, 32, 32, 32, 32, 32, 42, 91, 49, 93, 32, 118, 97, 108, 117, 101, 10, 32, 32,
    32, 32, 125, 10, 10, 102, 108, 111, 97, 116, 45, 110, 117, 109, 98, 101, 114, 32, 61, 10, 32, 32, 32, 32, 123,
    32, 36, 115, 101, 108, 32, 45, 62, 10, 32, 32, 32, 32, 32, 32, 32, 42, 91, 51, 46, 49, 52, 93, 32, 118, 97,
    108, 117, 101, 10, 32, 32, 32, 32, 125, 10, 10, 35, 32, 69, 82, 82, 79, 82, 10, 105, 110, 118, 97, 108, 105,
    100, 45, 105, 100, 101, 110, 116, 105, 102, 105, 101, 114, 32, 61, 10, 32, 32, 32, 32, 123, 32, 36, 115, 101,
    108, 32, 45, 62, 10, 32, 32, 32, 32, 32, 32, 32, 42, 91, 116, 119, 111, 32, 119, 111, 114, 100, 115, 93, 32,
    118, 97, 108, 117, 101, 10, 32, 32, 32, 32, 125, 10, 10, 35, 32, 69, 82, 82, 79, 82, 10, 105, 110, 118, 97,
    108, 105, 100, 45, 105, 110, 116, 32, 61, 10, 32, 32, 32, 32, 123, 32, 36, 115, 101, 108, 32, 45, 62, 10, 32,
    32, 32, 32, 32, 32, 32, 42, 91, 49, 32, 97, 112, 112, 108, 101, 93, 32, 118, 97, 108, 117, 101, 10, 32, 32,
    32, 32, 125, 10, 10, 35, 32, 69, 82, 82, 79, 82, 10, 105, 110, 118, 97, 108, 105, 100, 45, 105, 110, 116, 32,
    61, 10, 32, 32, 32, 32, 123, 32, 36, 115, 101, 108, 32, 45, 62, 10, 32, 32, 32, 32, 32, 32, 32, 42, 91, 51,
    46, 49, 52, 32, 97, 112, 112, 108, 101, 115, 93, 32, 118, 97, 108, 117, 101, 10, 32, 32, 32, 32, 125, 10]
#guard inClass fixture_variant_keys true == false && inClass fixture_variant_keys false == true

/-- census: `whitespace_in_value.ftl` — with_junk=true: true, with_junk=false: true -/
def fixture_whitespace_in_value : Src :=
    #[35, 32, 67, 97, 117, 116, 105, 111, 110, 44, 32, 108, 105, 110, 101, 115, 32, 54, 32, 97, 110, 100, 32, 55,
    32, 99, 111, 110, 116, 97, 105, 110, 32, 119, 104, 105, 116, 101, 45, 115, 112, 97, 99, 101, 45, 111, 110,
    108, 121, 32, 108, 105, 110, 101, 115, 10, 107, 101, 121, 32, 61, 10, 32, 32, 102, 105, 114, 115, 116, 32,
    108, 105, 110, 101, 10, 10, 10, 32, 32, 10, 32, 32, 10, 10, 10, 32, 32, 108, 97, 115, 116, 32, 108, 105, 110,
    101, 10]
#guard inClass fixture_whitespace_in_value true == true && inClass fixture_whitespace_in_value false == true
example : (inClass fixture_whitespace_in_value true == true && inClass fixture_whitespace_in_value false == true) = true := by decide +kernel

/-- census: `zero_length.ftl` — with_junk=true: true, with_junk=false: true -/
def fixture_zero_length : Src :=
    #[]
#guard inClass fixture_zero_length true == true && inClass fixture_zero_length false == true
example : (inClass fixture_zero_length true == true && inClass fixture_zero_length false == true) = true := by decide +kernel

/-! ## the other half: every tree the parser produces is in the class

`roundtrip_class_sources` needs `RoundTrippable withJunk (tree)`.  This section proves it for parser
output: for EVERY `String` without the byte 13 (`CRFree`) the parse tree is in the class — except for its
Junk entries — and for every `String` without a lone `\r` (`NoLoneCRStr`) the `normSafe` form of the tree is.
Hence both full statements hold for all such sources when serialising without Junk, and with
`with_junk = true` when the tree contains no Junk (`C04_roundtrip_crfree_nojunk`,
`C04_roundtrip_crfree_junkfree`, `C04_roundtrip_noLoneCR_nojunk`).  Junk re-emitted verbatim with `with_junk = true`
is the theorem `C04_roundtrip_junk` (two-source simulation of the parser); with it `C04_roundtrip_noLoneCR` has no
hypothesis on the tree.  Sources with a lone `\r` (`def` `C04_roundtrip_cr_open`, the last case: `C04_roundtrip_of_open`)
are the theorem `C04_roundtrip_cr`; `C04_roundtrip_full`, `C04_fixpoint_full` are the two full statements. -/

/-- the string contains no carriage return (byte 13) -/
def CRFree (str : String) : Prop := ∀ j : Nat, str.toUTF8.data[j]? ≠ some (13 : UInt8)

/-- **(b) PATTERN SHAPE.**  For every byte source without `\r`, every fuel and every start position: the
pattern `get_pattern` returns (resolved to bytes, after its dedent + trim post-pass) is in the class
`mlPattern` — non-empty; every text non-empty, without `\r` `{` `}`, `\n` only as its last byte; two texts
adjacent only across a line break; a text that starts a line is a blank line `"\n"`, or spaces followed by
a byte other than ` ` `\n` `.` `[` `*`, or only spaces directly in front of a placeable; the last text
does not end with ` ` / `\n`; the first text fits the layout `serialize_pattern` chooses; and if the
pattern is multi-line, some line has no excess indentation (or no line takes part in the common indent).
Proof: an invariant of `getPatternLoop` over a state machine on the collected placeholders
(`Ser.PInv`, `Ser.patternLoop_pinv`: placeholders well-shaped; role and cursor fit the last one;
`common_indent` = minimum of the line indents so far; `kept_common_indent` = minimum up to `last_non_blank`)
and an analysis of `finishElements` on such placeholder lists (`Ser.fin_shape`). -/
theorem parse_pattern_shape (s : Src) (hcr : ∀ j : Nat, s[j]? ≠ some (13 : UInt8)) (n p : Nat)
    (els : List (PatElem Span)) (q : Nat) (h : getPattern s n p = .ok (some els) q) :
    mlPattern (mapPat (spanBytes s) els) = true :=
  Ser.getPattern_mlPattern hcr n p els q h

/-- **(a)+(b)+(c) every entry the parser produces is in the class, or Junk.**  For every byte source without
`\r`: every entry of the tree returned by `parse` is Junk or satisfies `rtEntry` — identifiers, numbers,
string literals, callees, named arguments, selectors, variant keys, default variants as the class asks
(bridge from `ValidEntry`, `Parser.parse_valid`); every pattern at every depth (values, attribute values,
variant values, also inside call arguments and nested placeables) an `rtPattern` (`parse_pattern_shape`
lifted by `Ser.parse_deep`); every comment non-empty with lines free of line breaks
(`Ser.parse_comments`). -/
theorem parse_output_in_class (s : Src) (hcr : ∀ j : Nat, s[j]? ≠ some (13 : UInt8))
    (t : Resource Span) (errs : List PErr) (h : parse s = .done (t, errs)) :
    ∀ e ∈ t, (∃ c, e = .junk c) ∨ rtEntry (e.mapS (spanBytes s)) = true :=
  Ser.rtEntry_of_parse s hcr (fun n p els q hg => Ser.getPattern_mlPattern hcr n p els q hg) t errs h

/-- the parse tree of a `\r`-free source is `RoundTrippable false`; it is `RoundTrippable true` iff it has no Junk -/
theorem parse_output_roundTrippable (s : Src) (hcr : ∀ j : Nat, s[j]? ≠ some (13 : UInt8))
    (t : Resource Span) (errs : List PErr) (h : parse s = .done (t, errs)) (withJunk : Bool)
    (hj : withJunk = true → ∀ e ∈ t, ∀ c, e ≠ .junk c) : RoundTrippable withJunk (resolve s t) = true :=
  Ser.roundTrippable_of_parse s hcr (fun n p els q hg => Ser.getPattern_mlPattern hcr n p els q hg) t errs h withJunk hj

/-- **(d) `C04_roundtrip_statement` and `C04_fixpoint_statement` for `with_junk = false`, for EVERY string
without the byte 13** — no hypothesis on the tree, no fuel hypothesis: serialising the parse tree succeeds,
the output parses, the re-parsed tree equals the original one under `norm false`, and serialising it again
reproduces the output byte for byte. -/
theorem C04_roundtrip_crfree_nojunk (str : String) (hcr : CRFree str) (t : Resource Span) (errs : List PErr)
    (hp : parse str.toUTF8.data = .done (t, errs)) :
    ∃ out, Ser.serialize false (resolve str.toUTF8.data t) = some out ∧
      ∃ t' errs', parse out.toArray = .done (t', errs') ∧
        norm false (resolve out.toArray t') = norm false (resolve str.toUTF8.data t) ∧
        Ser.serialize false (resolve out.toArray t') = some out :=
  roundtrip_class_sources str false t errs hp
    (parse_output_roundTrippable _ hcr t errs hp false (fun h => by cases h))

/-- **(d) both full statements for `with_junk = true`, for every string without the byte 13 whose tree
contains no Junk entry.** -/
theorem C04_roundtrip_crfree_junkfree (str : String) (hcr : CRFree str) (t : Resource Span) (errs : List PErr)
    (hp : parse str.toUTF8.data = .done (t, errs)) (hj : ∀ e ∈ t, ∀ c, e ≠ .junk c) (withJunk : Bool) :
    ∃ out, Ser.serialize withJunk (resolve str.toUTF8.data t) = some out ∧
      ∃ t' errs', parse out.toArray = .done (t', errs') ∧
        norm withJunk (resolve out.toArray t') = norm withJunk (resolve str.toUTF8.data t) ∧
        Ser.serialize withJunk (resolve out.toArray t') = some out :=
  roundtrip_class_sources str withJunk t errs hp (parse_output_roundTrippable _ hcr t errs hp withJunk (fun _ => hj))

/-- every carriage return of the string is followed by a line feed (CRLF line ends; `CRFree` strings trivially) -/
def NoLoneCRStr (str : String) : Prop :=
  ∀ j : Nat, str.toUTF8.data[j]? = some (13 : UInt8) → str.toUTF8.data[j + 1]? = some (10 : UInt8)

theorem CRFree.noLoneCR {str : String} (h : CRFree str) : NoLoneCRStr str := fun j hj => absurd hj (h j)

/-- **PATTERN SHAPE for CRLF sources.**  In a source in which every `\r` is followed by `\n`, a text slice in
front of `\r\n` is cut before the `\r` and the `\n` is pushed as an element of its own, so `get_pattern`
returns `…, "x", "\n", …` where an LF source gives `…, "x\n", …` (equal only under `norm`).  With every text
that does not end in `\n` joined to the text behind it (`Ser.joinTop` = the top level of `nPat okSafe`), the
pattern is in the class `mlPattern`. -/
theorem parse_pattern_shape_crlf (s : Src) (hcr : Ser.NoLoneCR s) (n p : Nat)
    (els : List (PatElem Span)) (q : Nat) (h : getPattern s n p = .ok (some els) q) :
    mlPattern (Ser.joinTop (mapPat (spanBytes s) els)) = true :=
  Ser.getPattern_mlPattern_join hcr n p els q h

/-- the `normSafe` form of the parse tree of a source without lone `\r` is in the class (Junk aside) -/
theorem parse_output_normSafe_roundTrippable (s : Src) (hcr : Ser.NoLoneCR s)
    (t : Resource Span) (errs : List PErr) (h : parse s = .done (t, errs)) (withJunk : Bool)
    (hj : withJunk = true → ∀ e ∈ t, ∀ c, e ≠ .junk c) :
    RoundTrippable withJunk (normSafe withJunk (resolve s t)) = true :=
  Ser.roundTrippable_normSafe_of_parse' s hcr t errs h withJunk hj

/-- **(d) both full statements for every string without a lone `\r`, when no Junk has to be written** (LF and CRLF
sources alike): for `with_junk = false` without any further hypothesis, for `with_junk = true` when the tree has no
Junk.  Proof: the tree `r` and `normSafe r` serialise to the same bytes (`serialize_congr`), `normSafe r` is
`RoundTrippable` (`parse_output_normSafe_roundTrippable`), and `norm (normSafe r) = norm r` (`Ser.norm_normSafe`).
(`C04_roundtrip_noLoneCR` below removes the hypothesis on Junk.) -/
theorem C04_roundtrip_noLoneCR_nojunk (str : String) (hcr : NoLoneCRStr str) (withJunk : Bool) (t : Resource Span)
    (errs : List PErr) (hp : parse str.toUTF8.data = .done (t, errs))
    (hj : withJunk = true → ∀ e ∈ t, ∀ c, e ≠ .junk c) :
    ∃ out, Ser.serialize withJunk (resolve str.toUTF8.data t) = some out ∧
      ∃ t' errs', parse out.toArray = .done (t', errs') ∧
        norm withJunk (resolve out.toArray t') = norm withJunk (resolve str.toUTF8.data t) ∧
        Ser.serialize withJunk (resolve out.toArray t') = some out := by
  have hrt := parse_output_normSafe_roundTrippable _ hcr t errs hp withJunk hj
  obtain ⟨out, h1, h2⟩ := roundtrip_rt withJunk _ hrt
  rw [Ser.serialize_normSafe] at h1
  obtain ⟨t', h3, h4, h5⟩ := h2 (serialize_atb_of_parse str t errs hp withJunk out h1)
  exact ⟨out, h1, t', [], h3, by rw [h4, Ser.norm_normSafe], h5⟩

/-- **the last part of `C04_roundtrip_statement` to be proved: sources that contain a lone `\r`** (a `\r` not followed
by `\n`).  It stays inside text and comment lines and is doubled by the `TextWriter` in front of `\n`.  Formerly open;
now the theorem `C04_roundtrip_cr` (the name of the `def` is kept). -/
def C04_roundtrip_cr_open : Prop :=
  ∀ (str : String) (withJunk : Bool) (t : Resource Span) (errs : List PErr), ¬ NoLoneCRStr str →
    parse str.toUTF8.data = .done (t, errs) →
    ∃ out, Ser.serialize withJunk (resolve str.toUTF8.data t) = some out ∧
      ∃ t' errs', parse out.toArray = .done (t', errs') ∧
        norm withJunk (resolve out.toArray t') = norm withJunk (resolve str.toUTF8.data t)

/-- **Junk re-emitted verbatim (`with_junk = true`)**, source without lone `\r`: the round-trip sentence for trees that
contain Junk.  (Formerly the second open part of the statement; now `C04_roundtrip_junk`.)  The difficulty: the bytes
of a broken entry, put in front of the *re-serialised* following entry, must be broken in the same way, although the
failing run of `get_entry` may have looked into the first line of the next entry (up to its `=`), whose blanks the
serializer normalises. -/
def C04_roundtrip_junk_open : Prop :=
  ∀ (str : String) (t : Resource Span) (errs : List PErr), NoLoneCRStr str → (∃ e ∈ t, ∃ c, e = .junk c) →
    parse str.toUTF8.data = .done (t, errs) →
    ∃ out, Ser.serialize true (resolve str.toUTF8.data t) = some out ∧
      ∃ t' errs', parse out.toArray = .done (t', errs') ∧
        norm true (resolve out.toArray t') = norm true (resolve str.toUTF8.data t)

/-- **both full statements for `with_junk = true`, for EVERY string without a lone `\r`** — whatever Junk the tree
contains: serialising the parse tree with the Junk kept succeeds, the output parses, the re-parsed tree equals the
original one under `norm true` (same entries, the Junk entries with the same content, in the same order), and
serialising it again reproduces the output byte for byte.  Proof: `Ser.roundtrip_junk_source` — the Junk spans of the
tree fail and recover in the source as recorded (`Ser.parse_srcGood`); by the two-source simulation of the parser
(`Parser.junk_transfer`, `Parser.attr_transfer`) the same bytes fail and recover in the same way in front of the
re-serialised following entries (`Ser.jgood_of_srcGood`); the entry loop on the serialised text returns the entries
again (`Ser.parseLoop_textJ`). -/
theorem C04_roundtrip_withJunk (str : String) (hcr : NoLoneCRStr str) (t : Resource Span) (errs : List PErr)
    (hp : parse str.toUTF8.data = .done (t, errs)) :
    ∃ out, Ser.serialize true (resolve str.toUTF8.data t) = some out ∧
      ∃ t' errs', parse out.toArray = .done (t', errs') ∧
        norm true (resolve out.toArray t') = norm true (resolve str.toUTF8.data t) ∧
        Ser.serialize true (resolve out.toArray t') = some out :=
  Ser.roundtrip_junk_source str hcr t errs hp

/-- **`C04_roundtrip_junk_open` is a theorem**: the round-trip sentence for Junk kept by the serializer. -/
theorem C04_roundtrip_junk : C04_roundtrip_junk_open := by
  intro str t errs hcr _ hp
  obtain ⟨out, h1, t', errs', h2, h3, _⟩ := C04_roundtrip_withJunk str hcr t errs hp
  exact ⟨out, h1, t', errs', h2, h3⟩

/-- **(d) both full statements for EVERY string without a lone `\r`** (LF and CRLF sources alike), both values of
`with_junk`, no hypothesis on the tree: serialising the parse tree succeeds, the output parses, the re-parsed tree
equals the original one under `norm`, and serialising it again reproduces the output byte for byte. -/
theorem C04_roundtrip_noLoneCR (str : String) (hcr : NoLoneCRStr str) (withJunk : Bool) (t : Resource Span)
    (errs : List PErr) (hp : parse str.toUTF8.data = .done (t, errs)) :
    ∃ out, Ser.serialize withJunk (resolve str.toUTF8.data t) = some out ∧
      ∃ t' errs', parse out.toArray = .done (t', errs') ∧
        norm withJunk (resolve out.toArray t') = norm withJunk (resolve str.toUTF8.data t) ∧
        Ser.serialize withJunk (resolve out.toArray t') = some out := by
  cases withJunk with
  | true => exact C04_roundtrip_withJunk str hcr t errs hp
  | false => exact C04_roundtrip_noLoneCR_nojunk str hcr false t errs hp (fun h => by cases h)

/-! ### sources with a lone `\r`

The class admits the byte 13 inside text elements and comment lines: a text may end with `\r` in front of the text
`"\n"` (the parser cuts a text in front of the LAST `\r` of `…\r\r\n` and pushes the `\n` as an element of its own; the
`TextWriter` doubles the `\r` — `Ser.crPad` — so that the text is read back as it was), a comment line may end with
`\r` (`newline` doubles it — `Ser.crDbl`), a `\r` may start a continuation line or a text behind a placeable.  The
pattern-shape theorem holds for every source (`Ser.getPattern_mlPattern_joinAll`), so does the comment shape
(`Ser.parse_comments_all`). -/

/-- **PATTERN SHAPE for every source** (lone `\r` included): with every text that may be joined to the text behind it
joined (`Ser.joinTop`; a text ending in `\r` is not joined to `"\n"`), the pattern `get_pattern` returns is in the class
`mlPattern` -/
theorem parse_pattern_shape_all (s : Src) (n p : Nat) (els : List (PatElem Span)) (q : Nat)
    (h : getPattern s n p = .ok (some els) q) : mlPattern (Ser.joinTop (mapPat (spanBytes s) els)) = true :=
  Ser.getPattern_mlPattern_joinAll s n p els q h

/-- the `normSafe` form of the parse tree of EVERY source is in the class (Junk aside) -/
theorem parse_output_normSafe_roundTrippable_all (s : Src) (t : Resource Span) (errs : List PErr)
    (h : parse s = .done (t, errs)) (withJunk : Bool) (hj : withJunk = true → ∀ e ∈ t, ∀ c, e ≠ .junk c) :
    RoundTrippable withJunk (normSafe withJunk (resolve s t)) = true :=
  Ser.roundTrippable_normSafe_of_parse_all s t errs h withJunk hj

/-- **both full statements for EVERY string — lone `\r` included — when no Junk has to be written**: for
`with_junk = false` without any hypothesis, for `with_junk = true` when the tree has no Junk. -/
theorem C04_roundtrip_all_nojunk (str : String) (withJunk : Bool) (t : Resource Span)
    (errs : List PErr) (hp : parse str.toUTF8.data = .done (t, errs))
    (hj : withJunk = true → ∀ e ∈ t, ∀ c, e ≠ .junk c) :
    ∃ out, Ser.serialize withJunk (resolve str.toUTF8.data t) = some out ∧
      ∃ t' errs', parse out.toArray = .done (t', errs') ∧
        norm withJunk (resolve out.toArray t') = norm withJunk (resolve str.toUTF8.data t) ∧
        Ser.serialize withJunk (resolve out.toArray t') = some out := by
  have hrt := parse_output_normSafe_roundTrippable_all _ t errs hp withJunk hj
  obtain ⟨out, h1, h2⟩ := roundtrip_rt withJunk _ hrt
  rw [Ser.serialize_normSafe] at h1
  obtain ⟨t', h3, h4, h5⟩ := h2 (serialize_atb_of_parse str t errs hp withJunk out h1)
  exact ⟨out, h1, t', [], h3, by rw [h4, Ser.norm_normSafe], h5⟩

/-- the Junk part of `C04_roundtrip_cr_open`: a source with a lone `\r` whose tree contains Junk, serialised with
`with_junk = true` (theorem `C04_roundtrip_cr_junk`) -/
def C04_roundtrip_cr_junk_open : Prop :=
  ∀ (str : String) (t : Resource Span) (errs : List PErr), ¬ NoLoneCRStr str → (∃ e ∈ t, ∃ c, e = .junk c) →
    parse str.toUTF8.data = .done (t, errs) →
    ∃ out, Ser.serialize true (resolve str.toUTF8.data t) = some out ∧
      ∃ t' errs', parse out.toArray = .done (t', errs') ∧
        norm true (resolve out.toArray t') = norm true (resolve str.toUTF8.data t)

/-- `C04_roundtrip_cr_open` follows from its Junk part -/
theorem C04_roundtrip_cr_of_junk (h : C04_roundtrip_cr_junk_open) : C04_roundtrip_cr_open := by
  intro str withJunk t errs hc hp
  by_cases hj : withJunk = true ∧ ∃ e ∈ t, ∃ c, e = .junk c
  · obtain ⟨rfl, hj⟩ := hj
    exact h str t errs hc hj hp
  · obtain ⟨out, h1, t', errs', h2, h3, _⟩ := C04_roundtrip_all_nojunk str withJunk t errs hp (by
      intro hw e he c hc'
      exact hj ⟨hw, e, he, c, hc'⟩)
    exact ⟨out, h1, t', errs', h2, h3⟩

/-- **both full statements with `with_junk = true`, for EVERY string — lone `\r` included — whatever Junk the tree
contains** (`Ser.roundtrip_junk_source_all`: the Junk chain of `C04_roundtrip_withJunk` without its hypothesis on `\r`;
a Junk may now start with a lone `\r` in column 0 or behind blanks and may end with one at the end of input) -/
theorem C04_roundtrip_withJunk_all (str : String) (t : Resource Span) (errs : List PErr)
    (hp : parse str.toUTF8.data = .done (t, errs)) :
    ∃ out, Ser.serialize true (resolve str.toUTF8.data t) = some out ∧
      ∃ t' errs', parse out.toArray = .done (t', errs') ∧
        norm true (resolve out.toArray t') = norm true (resolve str.toUTF8.data t) ∧
        Ser.serialize true (resolve out.toArray t') = some out :=
  Ser.roundtrip_junk_source_all str t errs hp

/-- **`C04_roundtrip_cr_junk_open` is a theorem** -/
theorem C04_roundtrip_cr_junk : C04_roundtrip_cr_junk_open := by
  intro str t errs _ _ hp
  obtain ⟨out, h1, t', errs', h2, h3, _⟩ := C04_roundtrip_withJunk_all str t errs hp
  exact ⟨out, h1, t', errs', h2, h3⟩

/-- **`C04_roundtrip_cr_open` is a theorem**: the round-trip sentence for every source that contains a lone `\r`,
both options -/
theorem C04_roundtrip_cr : C04_roundtrip_cr_open := C04_roundtrip_cr_of_junk C04_roundtrip_cr_junk

/-- **both full statements for EVERY string, both values of `with_junk`, no hypothesis at all**: serialising the parse
tree succeeds, the output parses, the re-parsed tree equals the original one under `norm`, and serialising it again
reproduces the output byte for byte -/
theorem C04_roundtrip_all (str : String) (withJunk : Bool) (t : Resource Span) (errs : List PErr)
    (hp : parse str.toUTF8.data = .done (t, errs)) :
    ∃ out, Ser.serialize withJunk (resolve str.toUTF8.data t) = some out ∧
      ∃ t' errs', parse out.toArray = .done (t', errs') ∧
        norm withJunk (resolve out.toArray t') = norm withJunk (resolve str.toUTF8.data t) ∧
        Ser.serialize withJunk (resolve out.toArray t') = some out := by
  cases withJunk with
  | true => exact C04_roundtrip_withJunk_all str t errs hp
  | false => exact C04_roundtrip_all_nojunk str false t errs hp (fun h => by cases h)

/-- `C04_roundtrip_statement` follows from `C04_roundtrip_cr_open` (kept: the reduction that showed that the lone-`\r`
case was all that was left) -/
theorem C04_roundtrip_of_open (hcr : C04_roundtrip_cr_open) : C04_roundtrip_statement := by
  intro str withJunk t errs hp
  by_cases hc : NoLoneCRStr str
  · obtain ⟨out, h1, t', errs', h2, h3, _⟩ := C04_roundtrip_noLoneCR str hc withJunk t errs hp
    exact ⟨out, h1, t', errs', h2, h3⟩
  · exact hcr str withJunk t errs hc hp

/-- the same for the fixed point -/
theorem C04_fixpoint_of_open (hcr : C04_roundtrip_cr_open) : C04_fixpoint_statement :=
  fixpoint_of_roundtrip (C04_roundtrip_of_open hcr)

/-- **C04 round trip — the full statement is a theorem.** -/
theorem C04_roundtrip_full : C04_roundtrip_statement := C04_roundtrip_of_open C04_roundtrip_cr

/-- **C04 fixed point — the full statement is a theorem.** -/
theorem C04_fixpoint_full : C04_fixpoint_statement := C04_fixpoint_of_open C04_roundtrip_cr

/-- test: Junk kept by the serializer, the broken entry looks into the head of the next one whose blanks are
normalised (`"a = {\nb   =  x\n"`), Junk followed by a comment, by Junk, at the end of input without line end, behind a
message (starting with blanks and a `.`), CRLF -/
example : (roundtripHolds "a = {\nb   =  x\n".toUTF8.data true &&
    roundtripHolds "a = {\n# c\n\n\nm = x\n".toUTF8.data true &&
    roundtripHolds "a = {\nb = {\nc = {".toUTF8.data true &&
    roundtripHolds "a = x\n  .attr = {\n-b   =  y\n".toUTF8.data true &&
    roundtripHolds "a = {\r\nb = c\r\n".toUTF8.data true) = true := by decide +kernel

/-- test: `CRFree` and the hypotheses of `C04_roundtrip_crfree_nojunk` are satisfiable, and the theorem's
conclusion agrees with evaluation: `"a =\n    x\n     { $n ->\n   *[o] y\n    }\nerr {\n"` -/
example : roundtripHolds "a =\n    x\n     { $n ->\n   *[o] y\n    }\nerr {\n".toUTF8.data false = true := by decide +kernel

/-- test: a CRLF source (`"a =\r\n  x \r\n\r\n   { $y }\r\n y\r\n"`): its tree is outside the class, its `normSafe` form
inside, and the statement holds by evaluation -/
example : (inClass "a =\r\n  x \r\n\r\n   { $y }\r\n y\r\n".toUTF8.data false == false &&
    (match parse "a =\r\n  x \r\n\r\n   { $y }\r\n y\r\n".toUTF8.data with
     | .done (t, _) => RoundTrippable false (normSafe false (resolve "a =\r\n  x \r\n\r\n   { $y }\r\n y\r\n".toUTF8.data t))
     | _ => false) &&
    roundtripHolds "a =\r\n  x \r\n\r\n   { $y }\r\n y\r\n".toUTF8.data false) = true := by decide +kernel

/-- test: sources with a lone `\r` (no Junk written): a text that ends with `\r` in front of `\r\n`, a line made of
`\r` and blanks inside a pattern, comment lines that contain / end with `\r` or consist of blanks and `\r`, a `\r` at the
start of a pattern and of a continuation line, a stray `\r`-only line at the end of a pattern (F29), `\r` around a
placeable in an attribute -/
example : (roundtripHolds "a = x\r\r\n y\n".toUTF8.data false &&
    roundtripHolds "a =\n  x\r\n  \r \n  y".toUTF8.data true &&
    roundtripHolds "# c\r\r\n# \r\nb = \rfoo\n".toUTF8.data true &&
    roundtripHolds "a = {$x}\r\r\n z".toUTF8.data false &&
    roundtripHolds "a =\n    \rfoo\n  bar\r".toUTF8.data true &&
    roundtripHolds "a = x\n .b = y\r{ 1 }\r\r\n\r\n  z\n".toUTF8.data true) = true := by decide +kernel

/-- test: Junk with a lone `\r`, kept by the serializer: a Junk that starts with `\r` in column 0 behind a message, a
Junk that ends with `\r` at the end of input, a source that is a single `\r`, a `\r`-led line inside a broken entry -/
example : (roundtripHolds "a = b\n\rfoo\n".toUTF8.data true &&
    roundtripHolds "a = {\r".toUTF8.data true &&
    roundtripHolds "\r".toUTF8.data true &&
    roundtripHolds "a = {\n \r\nb = c".toUTF8.data true) = true := by decide +kernel

/-- test: the tree of a source with lone `\r` only (`"x\r"`, `"\n"`, `" y"` stay three elements) is in the class as it is;
with CRLF line ends as well its `normSafe` form is (comment line `c\r` included) -/
example : (inClass "a = x\r\r\n y\n".toUTF8.data false == true && inClass "a = x\r\n y\r\r\n z".toUTF8.data false == false &&
    (match parse "a = x\r\n y\r\r\n z\n# c\r\r\n".toUTF8.data with
     | .done (t, _) => RoundTrippable false (normSafe false (resolve "a = x\r\n y\r\r\n z\n# c\r\r\n".toUTF8.data t))
     | _ => false)) = true := by decide +kernel

end FluentProofs.C04
