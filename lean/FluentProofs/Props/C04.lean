import FluentProofs.ConstTieSyntax
import FluentProofs.SerializerEntries
import FluentProofs.SerializerLineSplit
import FluentProofs.SerializerSources
/-!
# C04 — serializer round trip

Model: `FluentModel/Serializer.lean` (`Serializer` + `TextWriter`, function for function) and
`FluentModel/Parser.lean`.  The two full statements are the `def`s `C04_roundtrip_statement` and
`C04_fixpoint_statement` below; they are **not** proved in full.  What is proved, for all trees /
all inputs (structural induction over the mutual AST types):

* T1a `serialize_total` — the serializer never panics (`dedent` never underflows), any tree shape;
* T1b `writeLiteral_discipline`, `newline_discipline`, `writeCharIntoIndent_discipline`,
  `star_only_replaces_indentation` — what the `TextWriter` primitives do to the buffer;
* T1c `writeLiteral_join_iff`, `serialize_congr`, `serialize_congr_lineSplit`,
  `fixpoint_of_roundtrip_lineSplit` — the exact congruence under joining text elements;
* `parse_lineSplit`, `fixpoint_of_roundtrip` — the parser produces line-split trees (for every
  source), hence **`C04_roundtrip_statement → C04_fixpoint_statement`**;
* T2 `inline_serialize`, `inline_roundtrip`, `inline_roundtrip_source` — every valid inline
  expression (all seven forms, call arguments, nested placeables) is parsed back;
* T2 `pattern_roundtrip_singleline`, `roundtrip_singleline_partial` — the full round trip and fixed
  point (through `parse`, with the fuel `parse` passes) for resources of messages/terms with
  single-line values.

Missing for the full statements (T3): `C04_roundtrip_statement` for multi-line patterns
(`get_pattern`'s indentation stripping against `serialize_pattern`'s indentation), selects/variants,
attributes, comments and Junk.  `C04_fixpoint_statement` needs nothing else (`fixpoint_of_roundtrip`).
-/
namespace FluentProofs.C04
open FluentModel FluentModel.Syntax FluentModel.Syntax.Ser FluentProofs.Parser FluentProofs.Ser

/-! ## the full statements (kept visible; not proved in full) -/

/-- **C04 round trip (full statement, open).**  For every source string and both options: if the
parser gives the tree `t`, then serialising `t` succeeds with some text `out`, parsing `out`
succeeds with a tree `t'`, and `t'` equals `t` under `norm` (adjacent text elements joined
recursively, whitespace-only comment lines equal to empty ones, Junk dropped when `¬withJunk`).

Not proved.  Proved parts: `serialize_total` (the `∃ out`), `inline_roundtrip` (the inline
expression layer), `roundtrip_singleline_partial` (the whole chain through `parse` for trees of
messages/terms with single-line values).  Missing: multi-line patterns (`get_pattern`'s indentation
stripping against `serialize_pattern`'s indentation), select expressions, attributes, comments and
Junk. -/
def C04_roundtrip_statement : Prop :=
  ∀ (str : String) (withJunk : Bool) (t : Resource Span) (errs : List PErr),
    parse str.toUTF8.data = .done (t, errs) →
    ∃ out, Ser.serialize withJunk (resolve str.toUTF8.data t) = some out ∧
      ∃ t' errs', parse out.toArray = .done (t', errs') ∧
        norm withJunk (resolve out.toArray t') = norm withJunk (resolve str.toUTF8.data t)

/-- **C04 fixed point (full statement, open).**  Serialising the re-parsed tree reproduces the text
byte for byte.

Not proved outright, but `fixpoint_of_roundtrip` proves that it follows from
`C04_roundtrip_statement`. -/
def C04_fixpoint_statement : Prop :=
  ∀ (str : String) (withJunk : Bool) (t : Resource Span) (errs : List PErr),
    parse str.toUTF8.data = .done (t, errs) →
    ∀ out, Ser.serialize withJunk (resolve str.toUTF8.data t) = some out →
      ∀ t' errs', parse out.toArray = .done (t', errs') →
        Ser.serialize withJunk (resolve out.toArray t') = some out

/-! ## T1a — totality -/

/-- **T1a.**  For every resource — any tree shape, not only parser output — and both options the
serializer returns a text: the `expect` in `TextWriter::dedent` is unreachable.  (Invariant, by
mutual structural induction over `Inline`/`Expr`/`Variant`/`PatElem`: every serializer function
returns `some` writer with the `indentLevel` it was given — `Ser.serInline_keeps` …
`Ser.serResourceGo_keeps`.) -/
theorem serialize_total (withJunk : Bool) (r : Resource Bytes) : Ser.serialize withJunk r ≠ none := by
  obtain ⟨out, h⟩ := serialize_isSome withJunk r
  rw [h]; exact fun h => by cases h

/-- every expression/pattern-level serializer function keeps the indent level and never fails -/
theorem serializer_keeps_indent (w : Writer) :
    (∀ e, ∃ w', serInline w e = some w' ∧ w'.indentLevel = w.indentLevel) ∧
    (∀ e, ∃ w', serExpr w e = some w' ∧ w'.indentLevel = w.indentLevel) ∧
    (∀ v, ∃ w', serVariant w v = some w' ∧ w'.indentLevel = w.indentLevel) ∧
    (∀ p, ∃ w', serPattern w p = some w' ∧ w'.indentLevel = w.indentLevel) :=
  ⟨fun e => serInline_keeps e w, fun e => serExpr_keeps e w, fun v => serVariant_keeps v w,
   fun p => serPattern_keeps p w⟩

/-! ## T1b — writer discipline -/

/-- **T1b, `write_literal`.**  It only appends.  Right after a line break the line starts with
exactly `4 · indentLevel` spaces followed by the literal; elsewhere the literal is appended, preceded
by one extra `\r` iff the buffer ends with `\r` and the literal starts with `\n`. -/
theorem writeLiteral_discipline (w : Writer) (item : Bytes) :
    (endsWith w 10 = true →
      (w.writeLiteral item).buffer = w.buffer ++ spaces (4 * w.indentLevel) ++ item.toArray) ∧
    (endsWith w 10 = false →
      (w.writeLiteral item).buffer =
        w.buffer ++ (if endsWith w 13 && item.head? == some 10 then #[13] else #[]) ++ item.toArray) ∧
    (w.writeLiteral item).indentLevel = w.indentLevel :=
  ⟨writeLiteral_after_newline w item, writeLiteral_mid_line w item, writeLiteral_indentLevel w item⟩

/-- **T1b, `newline`.**  Appends `\n`, after a second `\r` if the buffer ends with `\r`; afterwards
the buffer ends with `\n`. -/
theorem newline_discipline (w : Writer) :
    w.newline.buffer = w.buffer ++ (if endsWith w 13 then #[13, 10] else #[10]) ∧
    endsWith w.newline 10 = true ∧ w.newline.indentLevel = w.indentLevel :=
  ⟨newline_buffer w, newline_endsWith w, rfl⟩

/-- **T1b, `write_char_into_indent`.**  At the start of a line inside indent level `k + 1` it appends
`4k + 3` spaces and the character (i.e. the last indentation space is replaced, nothing older is
touched); in general, when the buffer ends with a non-continuation byte `x ≠ '\n'`, exactly `x` is
replaced. -/
theorem writeCharIntoIndent_discipline (w : Writer) (ch : UInt8) :
    (∀ k, endsWith w 10 = true → w.indentLevel = k + 1 →
      (w.writeCharIntoIndent ch).buffer = w.buffer ++ spaces (4 * k + 3) ++ #[ch]) ∧
    (∀ (b : Array UInt8) (x : UInt8), w.buffer = b.push x → x ≠ 10 → (x &&& 0xC0) ≠ 0x80 → (w.writeCharIntoIndent ch).buffer = b.push ch) :=
  ⟨fun k h hk => writeCharIntoIndent_after_newline w ch k h hk,
   fun b x h h1 h2 => writeCharIntoIndent_mid_line w ch x b h h1 h2⟩

/-- **T1b, the `*` of a default variant only ever replaces an indentation space.**  Serialising a
select expression calls `write_char_into_indent` only at the start of a line inside indent level
≥ 1: `serialize_expression` equals the variant loop `serVariantsSpec`, in which the `*` is appended
after `4·indentLevel − 1` spaces (`starIndent`) and no byte of the buffer is ever removed. -/
theorem star_only_replaces_indentation (w : Writer) (sel : Inline Bytes) (vs : List (Variant Bytes)) :
    serExpr w (.select sel vs) =
      match serInline w sel with
      | none => none
      | some w1 =>
        match serVariantsSpec (((w1.writeLiteral (lit " ->")).newline).indent) vs with
        | none => none
        | some w3 => w3.dedent :=
  serExpr_select_eq w sel vs

/-! ## T1c — congruence -/

/-- **T1c, two literals.**  For non-empty `a`: writing `a` then `b` gives the same writer as writing
`a ++ b` **iff** no indentation is inserted between them (`a` does not end with `\n`, or the indent
level is 0) and no `\r` is doubled (`a` ends with `\r` and `b` starts with `\n`). -/
theorem writeLiteral_join_iff (w : Writer) (a b : Bytes) (ha : a ≠ []) :
    (w.writeLiteral a).writeLiteral b = w.writeLiteral (a ++ b) ↔
      (a.getLast? = some 10 → w.indentLevel = 0) ∧ ¬(a.getLast? = some 13 ∧ b.head? = some 10) :=
  Ser.writeLiteral_join_iff w a b ha

/-- **T1c `serialize_congr`, the congruence that is true.**  For every resource and both options:
joining every adjacent pair of text elements `a, b` with `JoinOK a b` (`a ≠ []`, `a` does not end
with `\n`, not (`a` ends with `\r` and `b` starts with `\n`)) in every pattern of the tree
(recursively), replacing whitespace-only comment lines by empty ones and dropping Junk when
`¬withJunk` (`normSafe`) leaves the output unchanged; `is_multiline` / `has_leading_text_dot` agree
(`Ser.isMultiline_nPat`, `Ser.hasLeadingTextDot_nPat`).  The unrestricted `norm` does **not** have
this property: `[text "a\n", text "b"]` is written with indentation before `b`,
`[text "a\nb"]` without. -/
theorem serialize_congr (withJunk : Bool) (r : Resource Bytes) :
    Ser.serialize withJunk (normSafe withJunk r) = Ser.serialize withJunk r :=
  serialize_normSafe withJunk r

/-- **T1c for parser-shaped trees.**  Two line-split resources (`LineSplit`: every text element is
non-empty, contains `\n` only as its last byte and no `\r\n`) that are equal under the property's
comparison `norm` serialise to the same bytes. -/
theorem serialize_congr_lineSplit (withJunk : Bool) (r₁ r₂ : Resource Bytes) (h₁ : LineSplit r₁) (h₂ : LineSplit r₂)
    (h : norm withJunk r₁ = norm withJunk r₂) : Ser.serialize withJunk r₁ = Ser.serialize withJunk r₂ :=
  Ser.serialize_congr_lineSplit withJunk r₁ r₂ h₁ h₂ h

/-- **`fixpoint` is a corollary of `roundtrip` for line-split trees** (conditional form of
`C04_fixpoint_statement`): if the tree `t` and the re-parsed tree `t'` are line-split and equal under
`norm`, the second serialisation reproduces `out`. -/
theorem fixpoint_of_roundtrip_lineSplit (withJunk : Bool) (t t' : Resource Bytes) (out : Bytes)
    (hout : Ser.serialize withJunk t = some out) (hls : LineSplit t) (hls' : LineSplit t')
    (hnorm : norm withJunk t' = norm withJunk t) : Ser.serialize withJunk t' = some out := by
  rw [Ser.serialize_congr_lineSplit withJunk t' t hls' hls hnorm, hout]

/-- **The parser produces line-split trees.**  For every byte source, every text element of every
pattern (values, attribute values, variant values, at any depth) in the tree returned by `parse` is
non-empty, contains `\n` only as its last byte and contains no `\r\n` (partial-correctness
induction along the eight mutually recursive parser functions, with an invariant on the placeholders
of `get_pattern` including "the element `last_non_blank` points to survives `trim`"). -/
theorem parse_lineSplit (s : Src) (t : Resource Span) (errs : List PErr) (h : parse s = .done (t, errs)) :
    LineSplit (resolve s t) :=
  Ser.parse_lineSplit s t errs h

/-- **`fixpoint` is a corollary of `roundtrip`**: the second full statement follows from the first,
because both the original and the re-parsed tree are parser output, hence line-split
(`parse_lineSplit`), and line-split trees that agree under `norm` serialise identically
(`serialize_congr_lineSplit`). -/
theorem fixpoint_of_roundtrip (h : C04_roundtrip_statement) : C04_fixpoint_statement := by
  intro str withJunk t errs hp out hout t' errs' hp'
  obtain ⟨out2, ho2, t2, errs2, hp2, hnorm⟩ := h str withJunk t errs hp
  rw [hout] at ho2
  cases ho2
  rw [hp'] at hp2
  cases hp2
  rw [Ser.serialize_congr_lineSplit withJunk _ _ (Ser.parse_lineSplit _ _ _ hp') (Ser.parse_lineSplit _ _ _ hp) hnorm,
    hout]

/-! ## T2 — inline expressions -/

/-- **T2, serializer half.**  For a valid inline expression the serializer writes exactly the text
`inlineBytes e`, as if by a single `write_literal`, whatever the writer's state. -/
theorem inline_serialize (e : Inline Bytes) (hv : validInline e = true) (w : Writer) :
    serInline w e = some (w.writeLiteral (inlineBytes e)) :=
  (serInline_eq_bytes e hv w).1

/-- **T2 `inline_roundtrip`.**  See `Ser.inline_roundtrip`: for every `validInline` expression `e`
(identifiers / number literals well-shaped, string literals with valid escapes only and no raw
newline or quote, callee upper-case, named-argument names unique with literal values, no select and
no term attribute inside a nested placeable) and every writer `w`, the serializer writes one literal
`out`, and on every source with the `&str` invariant that contains `out` at `p` followed by something
that cannot extend the expression, `get_inline_expression` returns `e'` with `resolve e' = e` and
stops at `endPos e s (p + out.length)`. -/
theorem inline_roundtrip (e : Inline Bytes) (hv : validInline e = true) (w : Writer) :
    ∃ out, serInline w e = some (w.writeLiteral out) ∧
      ∀ (s : Src) (p fuel : Nat), AsciiThenBoundary s → At s p out → Follow s (p + out.length) →
        fuelInline e ≤ fuel →
        ∃ e', getInline s fuel false p = .ok e' (endPos e s (p + out.length)) ∧ e'.mapS (spanBytes s) = e :=
  Ser.inline_roundtrip e hv w

/-- **T2, concrete form**: `pre ++ serialise(e) ++ rest` with `rest` starting with `,` `)` `}` or `:`
is parsed back to `e`, stopping exactly at `rest`. -/
theorem inline_roundtrip_source (e : Inline Bytes) (hv : validInline e = true) (pre rest : Bytes) (c : UInt8)
    (hc : c = 44 ∨ c = 41 ∨ c = 125 ∨ c = 58) (hrest : rest.head? = some c) (fuel : Nat) (hfuel : fuelInline e ≤ fuel) :
    ∃ out, (serInline {} e).map (fun w => w.buffer.toList) = some out ∧
      (AsciiThenBoundary (pre ++ out ++ rest).toArray →
        ∃ e', getInline (pre ++ out ++ rest).toArray fuel false pre.length = .ok e' (pre.length + out.length) ∧
          e'.mapS (spanBytes (pre ++ out ++ rest).toArray) = e) :=
  Ser.inline_roundtrip_source e hv pre rest c hc hrest fuel hfuel

/-! ## T2 — single-line patterns and entries -/

/-- **T2, pattern level.**  For a valid single-line pattern `es` (`validSingleLine`) the serializer
writes ` ` followed by `patBytes es` (`Ser.serPattern_eq`), and on every source with the `&str`
invariant that contains `" " ++ patBytes es ++ "\n"` at `p` and continues with the end of input or a
line that cannot continue the pattern, `get_pattern` returns a pattern that resolves to `es` and
stops behind the line feed. -/
theorem pattern_roundtrip_singleline (es : List (PatElem Bytes)) (hv : validSingleLine es = true) :
    (∀ (w : Writer) (acc : Bytes), tidy acc = true →
      serPattern (w.writeLiteral acc) es = some (w.writeLiteral (acc ++ 32 :: patBytes es))) ∧
    (∀ (s : Src) (p n : Nat), AsciiThenBoundary s → At s p (32 :: (patBytes es ++ [10])) →
      LineEndOK s (p + 1 + (patBytes es).length + 1) → fuelPat es + 1 ≤ n →
      ∃ els, getPattern s n p = .ok (some els) (p + 1 + (patBytes es).length + 1) ∧
        mapPat (spanBytes s) els = es) :=
  ⟨fun w acc ha => (serPattern_eq es (validSingleLine_elems hv) w acc ha).1,
   fun _ p n hs h hend hn => getPattern_singleline hs es hv p n h hend hn⟩

/-- **T2 `roundtrip_singleline_partial`** — both full statements, restricted to trees of messages and
terms with single-line values.  For every resource all of whose entries satisfy `validSimpleEntry`
(message or term; identifier well-shaped; value a `validSingleLine` pattern: non-empty, texts
non-empty without `\n` `\r` `{` `}`, placeables with `validInline` expressions and no select / term
attribute, no adjacent texts, no leading or trailing space; no attributes; no comment) and both
options: `serialize` returns `out`; if `out` has the `&str` invariant (true whenever the tree's
strings are UTF-8) then `parse out` — with the fuel `parse` itself passes — returns, with an empty
error list, a tree that resolves to **exactly** `r` (hence equal under `norm`), and serialising the
re-parsed tree gives `out` again.

`_partial`: multi-line patterns, selects, attributes, comments and Junk are not covered, and the
quantification is over trees of this shape rather than over sources. -/
theorem roundtrip_singleline_partial (withJunk : Bool) (r : Resource Bytes)
    (hv : ∀ e ∈ r, validSimpleEntry e = true) :
    ∃ out, Ser.serialize withJunk r = some out ∧
      (AsciiThenBoundary out.toArray →
        ∃ t', parse out.toArray = .done (t', []) ∧ resolve out.toArray t' = r ∧
          norm withJunk (resolve out.toArray t') = norm withJunk r ∧
          Ser.serialize withJunk (resolve out.toArray t') = some out) := by
  obtain ⟨out, h1, h2⟩ := roundtrip_singleline withJunk r hv
  refine ⟨out, h1, fun hs => ?_⟩
  obtain ⟨t', h3, h4, h5⟩ := h2 hs
  exact ⟨t', h3, h4, by rw [h4], h5⟩

/-- **The serializer's output on a parsed tree is again a `&str`-shaped byte string**: for every
`String` and both options, the output of serialising its parse tree satisfies `AsciiThenBoundary` (the
only UTF-8 fact the parser model uses).  Proof: every string of the tree is a slice at char boundaries
(`C01.parse_slices_valid`), such slices never start with a continuation byte and never have one after
an ASCII byte, and the `TextWriter` only interleaves them with ASCII (writer invariant by mutual
structural induction, `Ser.serialize_atb`). -/
theorem serialize_output_str_invariant (str : String) (t : Resource Span) (errs : List PErr)
    (hp : parse str.toUTF8.data = .done (t, errs)) (withJunk : Bool) (out : Bytes)
    (h : Ser.serialize withJunk (resolve str.toUTF8.data t) = some out) : AsciiThenBoundary out.toArray :=
  serialize_atb_of_parse str t errs hp withJunk out h

/-- **T2 `roundtrip_singleline_partial`, for sources.**  `C04_roundtrip_statement` and
`C04_fixpoint_statement` restricted to the strings whose parse tree consists of simple entries
(`validSimpleEntry`, a decidable predicate on the tree) — no further hypothesis: the re-parse has no
errors and resolves to exactly the same tree. -/
theorem roundtrip_singleline_sources (str : String) (withJunk : Bool) (t : Resource Span) (errs : List PErr)
    (hp : parse str.toUTF8.data = .done (t, errs))
    (hv : ∀ e ∈ resolve str.toUTF8.data t, validSimpleEntry e = true) :
    ∃ out, Ser.serialize withJunk (resolve str.toUTF8.data t) = some out ∧
      ∃ t' errs', parse out.toArray = .done (t', errs') ∧
        norm withJunk (resolve out.toArray t') = norm withJunk (resolve str.toUTF8.data t) ∧
        Ser.serialize withJunk (resolve out.toArray t') = some out := by
  obtain ⟨out, h1, t', h2, h3, h4⟩ := roundtrip_singleline_source str withJunk t errs hp hv
  exact ⟨out, h1, t', [], h2, by rw [h3], h4⟩

/-! ## non-vacuity and sanity tests (`decide +kernel` on literals: these are tests, not proofs of the property) -/

/-- the two full statements evaluated on one source (test helper): serialise, re-parse, compare under
`norm` (via the canonical S-expression), serialise again and compare the bytes -/
def roundtripHolds (src : Src) (withJunk : Bool) : Bool :=
  match parse src with
  | .done (t, _) =>
    match Ser.serialize withJunk (resolve src t) with
    | some out =>
      match parse out.toArray with
      | .done (t', _) =>
        (norm withJunk (resolve out.toArray t')).sexp == (norm withJunk (resolve src t)).sexp &&
          Ser.serialize withJunk (resolve out.toArray t') == some out
      | _ => false
    | none => false
  | _ => false

/-- test: select with a call and a default variant, a comment attached to a term with an attribute:
`a = { $x ->\n    [one] One\n   *[other] { FOO(1, x: "y") } b\n }\n# c\n-t = v\n    .attr = w\n`, both options -/
example : (roundtripHolds #[97, 32, 61, 32, 123, 32, 36, 120, 32, 45, 62, 10, 32, 32, 32, 32, 91, 111, 110, 101, 93, 32,
    79, 110, 101, 10, 32, 32, 32, 42, 91, 111, 116, 104, 101, 114, 93, 32, 123, 32, 70, 79, 79, 40, 49, 44, 32, 120, 58,
    32, 34, 121, 34, 41, 32, 125, 32, 98, 10, 32, 125, 10, 35, 32, 99, 10, 45, 116, 32, 61, 32, 118, 10, 32, 32, 32, 32,
    46, 97, 116, 116, 114, 32, 61, 32, 119, 10] true &&
  roundtripHolds #[97, 32, 61, 32, 123, 32, 36, 120, 32, 45, 62, 10, 32, 32, 32, 32, 91, 111, 110, 101, 93, 32,
    79, 110, 101, 10, 32, 32, 32, 42, 91, 111, 116, 104, 101, 114, 93, 32, 123, 32, 70, 79, 79, 40, 49, 44, 32, 120, 58,
    32, 34, 121, 34, 41, 32, 125, 32, 98, 10, 32, 125, 10, 35, 32, 99, 10, 45, 116, 32, 61, 32, 118, 10, 32, 32, 32, 32,
    46, 97, 116, 116, 114, 32, 61, 32, 119, 10] false) = true := by decide +kernel

/-- test (finding F8 shape, fixed tree): multi-line value whose first text starts with `.`: `a = .x\n    y\n` -/
example : roundtripHolds #[97, 32, 61, 32, 46, 120, 10, 32, 32, 32, 32, 121, 10] true = true := by decide +kernel

/-- test (finding F18 shape, fixed tree): Junk followed by a free comment, serialised without junk:
`a = 1\nerr {\n\n# c\n\nb = 2\n` -/
example : roundtripHolds #[97, 32, 61, 32, 49, 10, 101, 114, 114, 32, 123, 10, 10, 35, 32, 99, 10, 10, 98, 32, 61, 32,
    50, 10] false = true := by decide +kernel

/-- test: CRLF inside a multi-line pattern and a term-attribute selector with a named argument:
`a =\n    line1\r\n    line2 { -t.a(k: 1) ->\n       *[o] v\n    }\n` -/
example : roundtripHolds #[97, 32, 61, 10, 32, 32, 32, 32, 108, 105, 110, 101, 49, 13, 10, 32, 32, 32, 32, 108, 105, 110,
    101, 50, 32, 123, 32, 45, 116, 46, 97, 40, 107, 58, 32, 49, 41, 32, 45, 62, 10, 32, 32, 32, 32, 32, 32, 32, 42, 91,
    111, 93, 32, 118, 10, 32, 32, 32, 32, 125, 10] true = true := by decide +kernel

/-- test: `validInline` is satisfiable by an expression using every form:
`FOO(1, "s\\u00e9", $v, m, m.a, -t, -t.b(x: -1.5), { 2 }, x: 1, y: "z")` -/
example : validInline (.fn [70, 79, 79]
    [.num [49], .str [115, 92, 117, 48, 48, 101, 57], .var [118], .msg [109] none, .msg [109] (some [97]),
     .term [116] none none, .term [116] (some [98]) (some ([], [([120], .num [45, 49, 46, 53])])),
     .placeable (.inline (.num [50]))]
    [([120], .num [49]), ([121], .str [122])]) = true := by decide +kernel

/-- test: the text written for that expression -/
example : inlineBytes (.fn [70, 79, 79] [.num [49], .msg [109] (some [97])] [([120], .num [49])]) =
    "FOO(1, m.a, x: 1)".toUTF8.data.toList := by decide +kernel

/-- test: `validSimpleEntry` is satisfiable — `a = x { FOO(1, k: "v") } y{{ $z }}` and `-t = { -u.a(n: 1) }`… -/
example : (validSimpleEntry (.message ⟨[97], some [.text [120, 32],
      .placeable (.inline (.fn [70, 79, 79] [.num [49]] [([107], .str [118])])), .text [32, 121],
      .placeable (.inline (.placeable (.inline (.var [122]))))], [], none⟩) &&
    validSimpleEntry (.term ⟨[116], [.placeable (.inline (.fn [85] [.term [117] (some [97]) (some ([], [([110], .num [49])]))] []))],
      [], none⟩)) = true := by decide +kernel

/-- test: the line written for the first of them -/
example : entryBytes (.message ⟨[97], some [.text [120, 32],
      .placeable (.inline (.fn [70, 79, 79] [.num [49]] [([107], .str [118])])), .text [32, 121],
      .placeable (.inline (.placeable (.inline (.var [122]))))], [], none⟩) =
    "a = x { FOO(1, k: \"v\") } y{{ $z }}\n".toUTF8.data.toList := by decide +kernel

/-- test: the hypothesis of `roundtrip_singleline_sources` is satisfiable: the parse tree of
`"a = x { FOO(1, k: \"v\") } y\n-t = { $z }\n"` consists of simple entries -/
example : (match parse "a = x { FOO(1, k: \"v\") } y\n-t = { $z }\n".toUTF8.data with
    | .done (t, _) => (resolve "a = x { FOO(1, k: \"v\") } y\n-t = { $z }\n".toUTF8.data t).all validSimpleEntry
    | _ => false) = true := by decide +kernel

/-- test: the unrestricted `norm` is *not* a congruence — `[text "x\n", text "y"]` and `[text "x\ny"]`
have the same `norm` but serialise differently (continuation indented / not indented) -/
example :
    let r₁ : Resource Bytes := [.message ⟨[97], some [.text [120, 10], .text [121]], [], none⟩]
    let r₂ : Resource Bytes := [.message ⟨[97], some [.text [120, 10, 121]], [], none⟩]
    ((norm true r₁).sexp == (norm true r₂).sexp && Ser.serialize true r₁ != Ser.serialize true r₂) = true := by
  decide +kernel

/-- test: a line-split tree (hypothesis of `serialize_congr_lineSplit`) -/
example : LineSplit [.message ⟨[97], some [.text [120, 10], .text [121]], [], none⟩] := by
  intro e he
  simp at he
  subst he
  simp [lsEntry, lsPat, lsElem, lineText]

end FluentProofs.C04
