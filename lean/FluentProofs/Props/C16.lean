import FluentProofs.FallbackApi
/-!
# C16 — locale fallback picks the first locale that can answer, in every API shape

Model: `FluentModel.Fallback` — the three macros of `fluent-fallback/src/bundles.rs`
(`format_value_from_inner!`, `format_values_from_inner!`, `format_messages_from_inner!`),
`format_message_from_bundle` and the six request APIs of `Bundles`, transcribed; this is the code the
model driver `fvm_fb` runs.

`lbs : List (L × BundleResult …)` is the ordered locale list with each locale's bundle result (`ok` or
partially broken with carried errors); `PerLocale lbs` says that each bundle's own `locales[0]` is
that locale (a bundle with an empty locale list makes the Rust code panic; the model has that panic).
All theorems hold for every such list, every key (id + args), every key list (duplicates included),
every message content / resolver (`A → Fmt`), every initial `errors` vector, every request history.
Vocabulary (`FluentProofs.Fallback`): `answerOf k p` — `p`'s formatting of `k` if `p` has the message
with a value; `missErrs k p` — `p`'s carried errors then `MissingValue(p)`/`MissingMessage(p)`;
`resolverEntry` — `Resolver(id, p, errs)` iff `errs ≠ []`; `finalEntry` — the locale-less entry;
`batchSpec` — results, error list (walked locale by walked locale: carried errors, then one slot
`roundErrs k pre p` per key) and bundles consumed of a batch request.
-/
namespace FluentProofs.C16
open FluentModel.Fallback FluentProofs.Fallback

variable {I L A N T RE BE : Type}

/-! ## value_spec -/

/-- **value_spec (first locale wins).**  If `p` is the first locale whose bundle has the message with a
value, `format_value` returns `p`'s formatting and appends to `errors`, in this order: for every
earlier locale its carried bundle errors and then `MissingValue(locale)` (message without value) or
`MissingMessage(locale)`; then `p`'s carried bundle errors and, iff the resolver reported errors,
one `Resolver(id, p, errors)` entry.  Exactly `pre.length + 1` bundles are pulled. -/
theorem C16_value_first (k : Key I A) (pre post : List (L × BundleResult I L A N T RE BE))
    (p : L × BundleResult I L A N T RE BE) (f : Fmt T RE) (h : PerLocale (pre ++ p :: post))
    (hpre : ∀ q ∈ pre, answers (T := T) (RE := RE) k q = false) (hp : answerOf k p = some f)
    (errors : List (LocErr I L RE BE)) :
    formatValueFromInner ((pre ++ p :: post).map (·.2)) k.id k.args errors =
      .done (some f.text,
             errors ++ (pre.flatMap (missErrs k) ++ carriedErrs p ++ resolverEntry k.id p.1 f.errs),
             pre.length + 1) := by
  rw [formatValueFromInner_spec k _ h, valueSpec_first k pre post p f hpre hp]

/-- **value_spec (nothing answers).**  If no locale has the message with a value, `format_value`
returns `None`; the errors are every locale's carried errors and entry, in order, and a final
locale-less `MissingValue` (some locale had the message) or `MissingMessage`; every bundle is pulled. -/
theorem C16_value_none (k : Key I A) (lbs : List (L × BundleResult I L A N T RE BE)) (h : PerLocale lbs)
    (hno : ∀ q ∈ lbs, answers (T := T) (RE := RE) k q = false) (errors : List (LocErr I L RE BE)) :
    formatValueFromInner (T := T) (lbs.map (·.2)) k.id k.args errors =
      .done (none,
             errors ++ (lbs.flatMap (missErrs k) ++ [finalEntry k (lbs.any (hasMessage k))]),
             lbs.length) := by
  rw [formatValueFromInner_spec k _ h, valueSpec_none k lbs hno]

/-- `format_value` does not panic on per-locale bundles and returns `None` iff no locale can answer. -/
theorem C16_value_none_iff (k : Key I A) (lbs : List (L × BundleResult I L A N T RE BE)) (h : PerLocale lbs)
    (errors : List (LocErr I L RE BE)) :
    ∃ r es n, formatValueFromInner (T := T) (lbs.map (·.2)) k.id k.args errors = .done (r, es, n) ∧
      (r = none ↔ ∀ q ∈ lbs, answers (T := T) (RE := RE) k q = false) :=
  ⟨_, _, _, formatValueFromInner_spec k lbs h errors, valueSpec_result_none_iff k lbs⟩

/-! ## values_eq_single -/

/-- **values_eq_single (results).**  For every key list (duplicates included) and every index `i`,
`format_values(keys)[i]` is what `format_value(keys[i])` returns (whatever `errors` vectors the two
calls are given). -/
theorem C16_values_eq_single (keys : List (Key I A)) (lbs : List (L × BundleResult I L A N T RE BE))
    (h : PerLocale lbs) (errors errors' : List (LocErr I L RE BE)) :
    ∃ rs es n, formatValuesFromInner (T := T) (lbs.map (·.2)) keys errors = .done (rs, es, n) ∧
      rs.length = keys.length ∧
      ∀ (i : Nat) (k : Key I A), keys[i]? = some k →
        ∃ r es' n', formatValueFromInner (T := T) (lbs.map (·.2)) k.id k.args errors' = .done (r, es', n') ∧
          rs[i]? = some r := by
  refine ⟨_, _, _, formatValuesFromInner_spec keys lbs h errors, by simp [batchSpec], ?_⟩
  intro i k hk
  refine ⟨_, _, _, formatValueFromInner_spec k lbs h errors', ?_⟩
  rw [(batchSpec_results _ _ _ keys lbs i k hk).1, valueSpec_result]

/-- **values_spec (errors, closed form).**  `format_values` appends exactly `(batchSpec …).2.1`: for
each walked locale, in order — the walk stops after the first locale at which every key is
answered — its carried bundle errors and then, per key in key order, the slot `roundErrs k pre p`
(nothing if an earlier locale answered `k`; `Resolver` entry iff `p` answers with resolver errors;
else `MissingValue(p)`/`MissingMessage(p)`); finally one locale-less entry per unanswered key, in key
order.  The number of bundles pulled is the length of the walk. -/
theorem C16_values_spec (keys : List (Key I A)) (lbs : List (L × BundleResult I L A N T RE BE))
    (h : PerLocale lbs) (errors : List (LocErr I L RE BE)) :
    formatValuesFromInner (T := T) (lbs.map (·.2)) keys errors =
      .done (keys.map (fun k => (valueSpec (T := T) k lbs).1),
             errors ++
               ((batchWalk (valueAns (T := T)) keys [] lbs).flatMap (walkErrs (valueAns (T := T)) missEntry keys) ++
                keys.flatMap (finalErrs (valueAns (T := T)) valueFin lbs)),
             (batchWalk (valueAns (T := T)) keys [] lbs).length) := by
  rw [formatValuesFromInner_spec keys lbs h errors]
  simp [batchSpec, valueSpec_result]

/-- **values_eq_single (errors).**  A single request *is* the batch request with one key: same
result, same errors, same bundles pulled … -/
theorem C16_value_eq_singleton_batch (k : Key I A) (lbs : List (L × BundleResult I L A N T RE BE))
    (h : PerLocale lbs) (errors : List (LocErr I L RE BE)) :
    formatValuesFromInner (T := T) (lbs.map (·.2)) [k] errors =
      (formatValueFromInner (T := T) (lbs.map (·.2)) k.id k.args errors).map fun (r, es, n) => ([r], es, n) := by
  rw [formatValuesFromInner_spec [k] lbs h errors, formatValueFromInner_spec k lbs h errors,
    valueSpec_eq_batch_singleton]
  simp [Outcome.map, batchSpec]

/-- … and in a batch that contains `k`, the slots of `k` (the errors attributed to `k`: everything the
batch pushes for `k` while walking, i.e. all but carried bundle errors and final entries), concatenated
in order, are exactly the slots of the one-key batch — the single request's errors minus carried
bundle errors. (The final entry of `k` is `finalErrs … lbs k` in both.) -/
theorem C16_values_attribution (keys : List (Key I A)) (k : Key I A) (hk : k ∈ keys)
    (lbs : List (L × BundleResult I L A N T RE BE)) :
    (batchWalk (valueAns (T := T)) keys [] lbs).flatMap (fun w => roundErrs (valueAns (T := T)) missEntry k w.1 w.2) =
      (batchWalk (valueAns (T := T)) [k] [] lbs).flatMap (fun w => roundErrs (valueAns (T := T)) missEntry k w.1 w.2) :=
  batch_key_slots _ _ keys k hk [] lbs

/-! ## messages_spec -/

/-- **messages_spec.**  `format_messages` returns per key the message (value + attributes, formatted by
`format_message_from_bundle`) of the first locale that has the message at all (`messageAns`), and
appends the batch error list for `MissingMessage`/`Resolver` entries (same shape as for values,
final entries are `MissingMessage(None)`). -/
theorem C16_messages_spec (keys : List (Key I A)) (lbs : List (L × BundleResult I L A N T RE BE))
    (h : PerLocale lbs) (errors : List (LocErr I L RE BE)) :
    formatMessagesFromInner (N := N) (T := T) (lbs.map (·.2)) keys errors =
      .done (keys.map (fun k => resultOf (messageAns (N := N) (T := T)) k lbs),
             errors ++
               ((batchWalk (messageAns (N := N) (T := T)) keys [] lbs).flatMap
                  (walkErrs (messageAns (N := N) (T := T)) messageMiss keys) ++
                keys.flatMap (finalErrs (messageAns (N := N) (T := T)) messageFin lbs)),
             (batchWalk (messageAns (N := N) (T := T)) keys [] lbs).length) := by
  rw [formatMessagesFromInner_spec keys lbs h errors]
  simp [batchSpec]

/-- **messages_keep_all_attributes.**  `format_message_from_bundle` hands over one entry per attribute of the answering
message, in source order and under its own name - also when a name is REPEATED (legal FTL) - each with that attribute's
formatting; the resolver errors of all attributes are appended in the same order. -/
theorem C16_messages_keep_all_attributes (args : A) (attrs : List (N × (A → Fmt T RE))) (es : List RE) :
    (formatAttrs args attrs es).1 = attrs.map (fun (p : N × (A → Fmt T RE)) => (p.1, (p.2 args).text)) ∧
    (formatAttrs args attrs es).2 = es ++ (attrs.map (fun (p : N × (A → Fmt T RE)) => (p.2 args).errs)).flatten := by
  induction attrs generalizing es with
  | nil => simp [formatAttrs]
  | cons a rest ih =>
    obtain ⟨name, pat⟩ := a
    have h := ih (es ++ (pat args).errs)
    simp only [formatAttrs, List.map_cons, List.flatten_cons]
    exact ⟨by rw [h.1], by rw [h.2, List.append_assoc]⟩

-- TEST: a message whose attribute name `t` is repeated keeps both, in order
example : (formatAttrs (T := String) (RE := String) (N := String) (A := Nat) 0
    [("t", fun _ => ⟨"one", []⟩), ("u", fun _ => ⟨"two", ["e"]⟩), ("t", fun _ => ⟨"three", []⟩)] []) =
    ([("t", "one"), ("u", "two"), ("t", "three")], ["e"]) := by rfl

/-- the per-key result of `format_messages` in words: the first locale having the message answers
with `format_message_from_bundle`'s output; `None` iff no locale has the message -/
theorem C16_messages_first (k : Key I A) (pre post : List (L × BundleResult I L A N T RE BE))
    (p : L × BundleResult I L A N T RE BE)
    (hpre : ∀ q ∈ pre, q.2.bundleOf.getMessage k.id = none)
    (m : Msg A N T RE) (hp : p.2.bundleOf.getMessage k.id = some m) :
    resultOf (messageAns (N := N) (T := T)) k (pre ++ p :: post) =
      (formatMessageFromBundle p.2.bundleOf k []).1 ∧
    (formatMessageFromBundle p.2.bundleOf k []).1 =
      some { value := m.value.map fun v => (v k.args).text,
             attributes := m.attrs.map fun a => (a.1, (a.2 k.args).text) } := by
  have hattrs : ∀ (l : List (N × (A → Fmt T RE))) (es : List RE),
      (formatAttrs k.args l es).1 = l.map fun a => (a.1, (a.2 k.args).text) := by
    intro l
    induction l with
    | nil => intro es; rfl
    | cons a l ih => intro es; obtain ⟨n, pat⟩ := a; simp [formatAttrs, ih]
  have h2 : (formatMessageFromBundle p.2.bundleOf k ([] : List RE)).1 =
      some { value := m.value.map fun v => (v k.args).text,
             attributes := m.attrs.map fun a => (a.1, (a.2 k.args).text) } := by
    unfold formatMessageFromBundle
    cases hv : m.value <;> simp [hp, hv, hattrs]
  refine ⟨?_, h2⟩
  have hq : ∀ q ∈ pre, messageAns (N := N) (T := T) k q = none := by
    intro q hq
    simp [messageAns, formatMessageFromBundle, hpre q hq]
  cases hf : formatMessageFromBundle p.2.bundleOf k ([] : List RE) with
  | mk o es =>
    rw [hf] at h2
    simp only at h2
    subst h2
    exact resultOf_first (messageAns (N := N) (T := T)) k pre post p (_, es) hq (by simp [messageAns, hf])

/-- **messages: batch = per-key single.**  For every index `i`, `format_messages(keys)[i]` is what
`format_messages([keys[i]])` returns. -/
theorem C16_messages_eq_single (keys : List (Key I A)) (lbs : List (L × BundleResult I L A N T RE BE))
    (h : PerLocale lbs) (errors errors' : List (LocErr I L RE BE)) :
    ∃ rs es n, formatMessagesFromInner (N := N) (T := T) (lbs.map (·.2)) keys errors = .done (rs, es, n) ∧
      rs.length = keys.length ∧
      ∀ (i : Nat) (k : Key I A), keys[i]? = some k →
        ∃ r es' n', formatMessagesFromInner (N := N) (T := T) (lbs.map (·.2)) [k] errors' = .done ([r], es', n') ∧
          rs[i]? = some r := by
  refine ⟨_, _, _, formatMessagesFromInner_spec keys lbs h errors, by simp [batchSpec], ?_⟩
  intro i k hk
  obtain ⟨h1, h2⟩ := batchSpec_results (messageAns (N := N) (T := T)) (messageMiss (I := I) (L := L) (RE := RE) (BE := BE))
    (messageFin (I := I) (L := L) (RE := RE) (BE := BE)) keys lbs i k hk
  have h3 := formatMessagesFromInner_spec (N := N) (T := T) [k] lbs h errors'
  rw [h2] at h3
  exact ⟨_, _, _, h3, h1⟩

/-- attribution for messages, as for values -/
theorem C16_messages_attribution (keys : List (Key I A)) (k : Key I A) (hk : k ∈ keys)
    (lbs : List (L × BundleResult I L A N T RE BE)) :
    (batchWalk (messageAns (N := N) (T := T)) keys [] lbs).flatMap
        (fun w => roundErrs (messageAns (N := N) (T := T)) messageMiss k w.1 w.2) =
      (batchWalk (messageAns (N := N) (T := T)) [k] [] lbs).flatMap
        (fun w => roundErrs (messageAns (N := N) (T := T)) messageMiss k w.1 w.2) :=
  batch_key_slots _ _ keys k hk [] lbs

/-! ## sync_eq_async -/

/-- **sync_eq_async.**  For every generator sequence, cache state, key / key list and `errors`
vector: the async API answers identically in both modes (same result, same errors, same number of
bundles pulled), the sync API in sync mode returns `Ok` of the same answer, and the sync API in async
mode returns `Err(SyncRequestInAsyncMode)` leaving `errors` and the cache untouched.
(No `PerLocale` hypothesis: this also covers panicking requests.) -/
theorem C16_sync_eq_async (c : CacheSt I L A N T RE BE) (k : Key I A) (ks : List (Key I A))
    (errors : List (LocErr I L RE BE)) :
    -- async API, both modes
    (((Bundles.iter c).formatValue (T := T) k.id k.args errors).map (fun (r, es, b) => (r, es, b.cache.pulled)) =
      ((Bundles.stream c).formatValue (T := T) k.id k.args errors).map (fun (r, es, b) => (r, es, b.cache.pulled))) ∧
    (((Bundles.iter c).formatValues (T := T) ks errors).map (fun (r, es, b) => (r, es, b.cache.pulled)) =
      ((Bundles.stream c).formatValues (T := T) ks errors).map (fun (r, es, b) => (r, es, b.cache.pulled))) ∧
    (((Bundles.iter c).formatMessages (N := N) (T := T) ks errors).map (fun (r, es, b) => (r, es, b.cache.pulled)) =
      ((Bundles.stream c).formatMessages (N := N) (T := T) ks errors).map (fun (r, es, b) => (r, es, b.cache.pulled))) ∧
    -- sync API in sync mode = async API
    ((Bundles.iter c).formatValueSync (T := T) k.id k.args errors =
      ((Bundles.iter c).formatValue (T := T) k.id k.args errors).map (fun (r, es, b) => (.ok r, es, b))) ∧
    ((Bundles.iter c).formatValuesSync (T := T) ks errors =
      ((Bundles.iter c).formatValues (T := T) ks errors).map (fun (r, es, b) => (.ok r, es, b))) ∧
    ((Bundles.iter c).formatMessagesSync (N := N) (T := T) ks errors =
      ((Bundles.iter c).formatMessages (N := N) (T := T) ks errors).map (fun (r, es, b) => (.ok r, es, b))) ∧
    -- sync API in async mode
    ((Bundles.stream c).formatValueSync (T := T) k.id k.args errors =
      .done (.error .syncRequestInAsyncMode, errors, .stream c)) ∧
    ((Bundles.stream c).formatValuesSync (T := T) ks errors =
      .done (.error .syncRequestInAsyncMode, errors, .stream c)) ∧
    ((Bundles.stream c).formatMessagesSync (N := N) (T := T) ks errors =
      .done (.error .syncRequestInAsyncMode, errors, .stream c)) := by
  refine ⟨?_, ?_, ?_, ?_, ?_, ?_, rfl, rfl, rfl⟩
  · simp only [Bundles.formatValue, reply, formatValueFromIter, formatValueFromStream]
    cases formatValueFromInner (T := T) c.source k.id k.args errors <;> rfl
  · simp only [Bundles.formatValues, reply, formatValuesFromIter, formatValuesFromStream]
    cases formatValuesFromInner (T := T) c.source ks errors <;> rfl
  · simp only [Bundles.formatMessages, reply, formatMessagesFromIter, formatMessagesFromStream]
    cases formatMessagesFromInner (N := N) (T := T) c.source ks errors <;> rfl
  · simp only [Bundles.formatValue, Bundles.formatValueSync, reply, formatValueFromIter]
    cases formatValueFromInner (T := T) c.source k.id k.args errors <;> rfl
  · simp only [Bundles.formatValues, Bundles.formatValuesSync, reply, formatValuesFromIter]
    cases formatValuesFromInner (T := T) c.source ks errors <;> rfl
  · simp only [Bundles.formatMessages, Bundles.formatMessagesSync, reply, formatMessagesFromIter]
    cases formatMessagesFromInner (N := N) (T := T) c.source ks errors <;> rfl

/-! ## histories: repeated requests on one instance -/

/-- **history.**  For every history of operations (the six request APIs and `errors.clear()`) on one
`Bundles` instance whose generator delivers the per-locale sequence `lbs`: the run does not panic and
its trace is `traceSpec`: the i-th response is `specResponse sync lbs req_i` — a function of the mode,
the locale list and the i-th request only (not of earlier requests or of what the cache already
holds); each request appends its errors to the caller's vector; the cache holds the maximum number of
bundles any request so far needed. -/
theorem C16_history (lbs : List (L × BundleResult I L A N T RE BE)) (h : PerLocale lbs)
    (b : Bundles I L A N T RE BE) (hsrc : b.cache.source = lbs.map (·.2))
    (errors : List (LocErr I L RE BE)) (reqs : List (Request I A)) :
    b.run errors reqs = .done (traceSpec (N := N) (T := T) b.isSync lbs b errors reqs) ∧
    (traceSpec (N := N) (T := T) b.isSync lbs b errors reqs).map (·.1) =
      reqs.map fun r => (specResponse (N := N) (T := T) b.isSync lbs r).1 :=
  ⟨run_spec lbs h reqs b hsrc errors, traceSpec_responses _ lbs b errors reqs⟩

/-! ## non-vacuity witnesses (concrete instances; `decide` here is a test, not a proof of the property)

Two locales.  Locale 1's bundle is partially broken (carried error `7`), has message `10` without a
value (one attribute) and lacks message `11`; locale 2 has `10` with a value whose resolver reports
error `5` unless the key carries args `1`, and `11` with a plain value. -/

section witness

private def plainW (t : Nat) : Nat → Fmt Nat Nat := fun _ => { text := t, errs := [] }

private def b1 : Bundle Nat Nat Nat Nat Nat Nat :=
  { locales := [1]
    getMessage := fun id => if id = 10 then some { value := none, attrs := [(3, plainW 103)] } else none }

private def b2 : Bundle Nat Nat Nat Nat Nat Nat :=
  { locales := [2]
    getMessage := fun id =>
      if id = 10 then
        some { value := some fun a => if a = 1 then { text := 201, errs := [] } else { text := 200, errs := [5] },
               attrs := [] }
      else if id = 11 then some { value := some (plainW 211), attrs := [(4, plainW 214)] }
      else none }

private def lbsW : List (Nat × BundleResult Nat Nat Nat Nat Nat Nat Nat) := [(1, .broken b1 [7]), (2, .ok b2)]

/-- the hypotheses of the theorems are satisfiable -/
example : PerLocale lbsW := by
  intro p hp
  simp only [lbsW, List.mem_cons, List.not_mem_nil, or_false] at hp
  rcases hp with rfl | rfl <;> rfl

/-- value: falls back past locale 1 (carried error, `MissingValue(1)`), answered by locale 2 with a resolver error -/
example :
    formatValueFromInner (lbsW.map (·.2)) 10 0 [] =
      .done (some 200, [.bundle 7, .missingValue 10 (some 1), .resolver 10 2 [5]], 2) := by decide

/-- value: nobody has message `12` -/
example :
    formatValueFromInner (T := Nat) (lbsW.map (·.2)) 12 0 [] =
      .done (none, [.bundle 7, .missingMessage 12 (some 1), .missingMessage 12 (some 2), .missingMessage 12 none], 2) := by
  decide

/-- values: duplicates, mixed availability, a key with args -/
example :
    formatValuesFromInner (lbsW.map (·.2)) [⟨10, 0⟩, ⟨12, 0⟩, ⟨10, 1⟩, ⟨11, 0⟩] [] =
      .done ([some 200, none, some 201, some 211],
             [.bundle 7, .missingValue 10 (some 1), .missingMessage 12 (some 1), .missingValue 10 (some 1),
              .missingMessage 11 (some 1),
              .resolver 10 2 [5], .missingMessage 12 (some 2),
              .missingMessage 12 none], 2) := by decide

/-- messages: the value-less message of locale 1 *is* an answer; early exit after locale 1 -/
example :
    formatMessagesFromInner (lbsW.map (·.2)) [⟨10, 0⟩] [] =
      .done ([some { value := none, attributes := [(3, 103)] }], [.bundle 7], 1) := by decide

example :
    formatMessagesFromInner (lbsW.map (·.2)) [⟨11, 0⟩, ⟨10, 0⟩] [] =
      .done ([some { value := some 211, attributes := [(4, 214)] }, some { value := none, attributes := [(3, 103)] }],
             [.bundle 7, .missingMessage 11 (some 1)], 2) := by decide

private def b3 : Bundle Nat Nat Nat Nat Nat Nat := { b2 with locales := [] }

/-- a bundle without a locale panics only when an error entry needs the locale -/
example :
    formatValueFromInner (BE := Nat) [.ok b3] 11 0 [] = .done (some 211, [], 1) ∧
    formatValueFromInner (BE := Nat) [.ok b3] 10 0 [] =
      .panic "index out of bounds: the len is 0 but the index is 0" := by decide

end witness

end FluentProofs.C16
