import FluentProofs.Fallback
/-!
# C16 — locale fallback picks the first locale that can answer, in every API shape

Model: `FluentModel.Fallback` (the three macros of `fluent-fallback/src/bundles.rs`, transcribed).
`lbs : List (L × BundleResult …)` is the ordered locale list with each locale's bundle result;
`PerLocale lbs` says that the bundle's own `locales[0]` is that locale.  All theorems hold for every
such list, every key (id + args), every resolver (`A → Fmt`), every initial `errors` vector.
-/
namespace FluentProofs.C16
open FluentModel.Fallback FluentProofs.Fallback

variable {I L A N T RE BE : Type}

/-- **value_spec (first locale wins).**  If `p` is the first locale whose bundle has the message with a
value, `format_value` returns `p`'s formatting and appends to `errors`, in this order: for every
earlier locale its carried bundle errors and then `MissingValue(locale)` (message without value) or
`MissingMessage(locale)`; then `p`'s carried bundle errors and, iff the resolver reported errors,
one `Resolver(id, p, errors)` entry.  Exactly `pre.length + 1` bundles are pulled. -/
theorem C16_value_first (k : Key I A) (pre post : List (L × BundleResult I L A N T RE BE))
    (p : L × BundleResult I L A N T RE BE) (f : Fmt T RE) (h : PerLocale (pre ++ p :: post))
    (hpre : ∀ q ∈ pre, answers (T := T) (RE := RE) k q = false) (hp : answerOf k p = some f)
    (errors : List (LocErr I L RE BE)) :
    formatValueFromInner ((pre ++ p :: post).map (·.2)) k.id k.args errors =
      .done (some f.text,
             errors ++ (pre.flatMap (missErrs k) ++ carriedErrs p ++ resolverEntry k.id p.1 f.errs),
             pre.length + 1) := by
  rw [formatValueFromInner_spec k _ h, valueSpec_first k pre post p f hpre hp]

/-- **value_spec (nothing answers).**  If no locale has the message with a value, `format_value`
returns `None`; the errors are every locale's carried errors and entry, in order, and a final
locale-less `MissingValue` (some locale had the message) or `MissingMessage`. -/
theorem C16_value_none (k : Key I A) (lbs : List (L × BundleResult I L A N T RE BE)) (h : PerLocale lbs)
    (hno : ∀ q ∈ lbs, answers (T := T) (RE := RE) k q = false) (errors : List (LocErr I L RE BE)) :
    formatValueFromInner (T := T) (lbs.map (·.2)) k.id k.args errors =
      .done (none,
             errors ++ (lbs.flatMap (missErrs k) ++ [finalEntry k (lbs.any (hasMessage k))]),
             lbs.length) := by
  rw [formatValueFromInner_spec k _ h, valueSpec_none k lbs hno]

/-- `format_value` never panics on per-locale bundles and returns `None` iff no locale can answer. -/
theorem C16_value_none_iff (k : Key I A) (lbs : List (L × BundleResult I L A N T RE BE)) (h : PerLocale lbs)
    (errors : List (LocErr I L RE BE)) :
    ∃ r es n, formatValueFromInner (T := T) (lbs.map (·.2)) k.id k.args errors = .done (r, es, n) ∧
      (r = none ↔ ∀ q ∈ lbs, answers (T := T) (RE := RE) k q = false) :=
  ⟨_, _, _, formatValueFromInner_spec k lbs h errors, valueSpec_result_none_iff k lbs⟩

end FluentProofs.C16
