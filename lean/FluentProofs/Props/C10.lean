import FluentProofs.Registry
/-!
# C10 — bundle registry behaves as a keyed map over any history of additions
-/
namespace FluentProofs.C10
open FluentModel FluentModel.Registry

/-- the resources list is append-only: after any history it is the list of resources added, in order -/
theorem C10_resources_append_only (ops : List Op) :
    (run ops).resources = ops.filterMap (fun | .add r => some r | .addOverriding r => some r | .addFn .. => none) := by
  suffices h : ∀ b : Bundle, (ops.foldl (fun b op => (step b op).1) b).resources =
      b.resources ++ ops.filterMap (fun | .add r => some r | .addOverriding r => some r | .addFn .. => none) by
    simpa [run, Bundle.empty] using h Bundle.empty
  induction ops with
  | nil => simp
  | cons op ops ih =>
    intro b
    rw [List.foldl_cons, ih]
    cases op with
    | add r => simp [step, addResource]
    | addOverriding r => simp [step, addResourceOverriding]
    | addFn id tag =>
      simp only [step, addFunction]
      split <;> simp

end FluentProofs.C10
