import FluentProofs.Registry
/-!
# C10 — bundle registry behaves as a keyed map over any history of additions

Model: `FluentModel.Registry` (`addResource`, `addResourceOverriding`, `addFunction`,
`getEntryMessage/Term/Function`, `getMessage`, `MsgNode.getAttribute`; `run ops` = the bundle after
the history `ops` starting from `FluentBundle::new`).  Specification: `Spec = Id → Option Def`
(`FluentProofs/Registry.lean`): the keyed map `id → definition` with `specAdd` (a free id takes the
definition, a taken id is reported), `specAddOv` (every definition is stored) and `specFn`.
`Bundle.abs b` is the keyed map a bundle denotes: for each id what the stored indices point at.

Every theorem quantifies over ALL histories `ops : List Op` (any interleaving of the three `add`
calls over arbitrary resources: any ids, any overlap, messages with/without value/attributes,
terms, Junk/comments at any position) and all ids.
-/
namespace FluentProofs.C10
open FluentModel FluentModel.Registry

/-- **Invariant.** After any history every stored index pair is in range and points at an AST
entry of the stored kind (message / term) that carries the id it is stored under. -/
theorem C10_invariant (ops : List Op) : (run ops).Inv :=
  (foldl_refines ops Bundle.empty Spec.empty empty_inv empty_abs).1

/-- **Refinement.** After any history the registry denotes exactly the keyed map obtained by
running the specification over the same history. -/
theorem C10_refinement (ops : List Op) : (run ops).abs = specRun ops :=
  (foldl_refines ops Bundle.empty Spec.empty empty_inv empty_abs).2

/-- **Errors.** The error vectors returned by the calls of any history are, call by call and in
order, the ones the keyed-map specification prescribes. -/
theorem C10_errors (ops : List Op) : trace Bundle.empty ops = specTrace Spec.empty ops := by
  rw [trace_refines ops Bundle.empty empty_inv, empty_abs]

/-- The resources list is append-only: after any history it is the list of resources added, in order. -/
theorem C10_resources_append_only (ops : List Op) :
    (run ops).resources = ops.filterMap (fun | .add r => some r | .addOverriding r => some r | .addFn .. => none) := by
  suffices h : ∀ b : Bundle, (ops.foldl (fun b op => (step b op).1) b).resources =
      b.resources ++ ops.filterMap (fun | .add r => some r | .addOverriding r => some r | .addFn .. => none) by
    simpa [run, Bundle.empty] using h Bundle.empty
  induction ops with
  | nil => simp
  | cons op ops ih =>
    intro b
    rw [List.foldl_cons, ih]
    cases op with
    | add r => simp [step, addResource]
    | addOverriding r => simp [step, addResourceOverriding]
    | addFn id tag =>
      simp only [step, addFunction]
      split <;> simp

/-- **`add_resource`: first definition wins, the rest is still added.**  In the state reached by any
history, `add_resource r` leaves every id that was defined untouched and gives every free id the
first definition `r` has for it — whether or not other entries of `r` were reported. -/
theorem C10_add_resource_first_wins (ops : List Op) (r : Resource) (id : Id) :
    (addResource (run ops) r).1.abs id = match (run ops).abs id with
      | some d => some d
      | none => firstDef r id := by
  rw [(addResource_refines _ r (C10_invariant ops)).2.1, specAdd_lookup]
  cases (run ops).abs id <;> rfl

/-- **`add_resource`: exact `Overriding` list.**  The returned errors are, in source order, exactly
the message/term entries of `r` whose id was defined before the call or by an earlier entry of `r`,
each with its own kind and id (`Ok(())` iff there is none). -/
theorem C10_add_resource_errors (ops : List Op) (r : Resource) :
    (addResource (run ops) r).2
      = expectedErrors (fun id => ((run ops).abs id).isSome) [] r := by
  rw [(addResource_refines _ r (C10_invariant ops)).2.2, specAdd_errors]

/-- **`add_resource_overriding`: latest definition wins.** -/
theorem C10_add_resource_overriding_last_wins (ops : List Op) (r : Resource) (id : Id) :
    (addResourceOverriding (run ops) r).abs id = match lastDef r id with
      | some d => some d
      | none => (run ops).abs id := by
  rw [(addResourceOverriding_refines _ r (C10_invariant ops)).2, specAddOv_lookup]
  cases lastDef r id <;> rfl

/-- **`add_function`**: registers the function iff the id is free (no message, term or function holds
it); otherwise nothing changes and `Overriding{Function,id}` is returned. -/
theorem C10_add_function (ops : List Op) (id : Id) (tag : Nat) :
    ((run ops).abs id = none →
      (addFunction (run ops) id tag).1.abs = ((run ops).abs).set id (.function tag) ∧
      (addFunction (run ops) id tag).2 = none) ∧
    ((run ops).abs id ≠ none →
      (addFunction (run ops) id tag).1.abs = (run ops).abs ∧
      (addFunction (run ops) id tag).2 = some ⟨.function, id⟩) := by
  have h := addFunction_refines (run ops) id tag (C10_invariant ops)
  rw [h.2.1, h.2.2]
  unfold specFn
  cases (run ops).abs id <;> simp

/-- **`get_message`.**  After any history, `get_message(id)` returns a message iff the keyed map
holds a *message* for `id` — never for a term or a function — and the returned node carries the
requested id and exactly the value and the attribute list (source order) of that definition. -/
theorem C10_get_message (ops : List Op) (id : Id) :
    getMessage (run ops) id = match specRun ops id with
      | some (.message v a) => some ⟨id, v, a⟩
      | _ => none := by
  rw [← C10_refinement ops]
  exact getEntryMessage_eq _ (C10_invariant ops) id

/-- `has_message` is true exactly for ids whose winning definition is a message. -/
theorem C10_has_message (ops : List Op) (id : Id) :
    hasMessage (run ops) id = true ↔ ∃ v a, specRun ops id = some (.message v a) := by
  have h := C10_get_message ops id
  unfold getMessage at h
  unfold hasMessage
  rw [h]
  cases hs : specRun ops id with
  | none => simp
  | some d => cases d <;> simp

/-- `FluentMessage::value`, `attributes`, `get_attribute` expose exactly the winning definition:
same value, same attributes in source order, and `get_attribute(key)` is the first attribute of
that list whose name is `key`. -/
theorem C10_message_view (ops : List Op) (id : Id) (m : MsgNode) (h : getMessage (run ops) id = some m) :
    specRun ops id = some (.message m.value m.attrs) ∧ m.id = id ∧
      ∀ key, m.getAttribute key = m.attrs.find? (fun a => a.name = key) := by
  rw [C10_get_message] at h
  cases hs : specRun ops id with
  | none => simp [hs] at h
  | some d =>
    cases d with
    | message v a =>
      simp [hs] at h
      subst h
      exact ⟨rfl, rfl, fun _ => rfl⟩
    | term v a => simp [hs] at h
    | function t => simp [hs] at h

/-- **Lookups never cross kinds** (`get_entry_term`, `get_entry_function`): a term lookup answers
iff the keyed map holds a term, a function lookup iff it holds a function (and yields that very
function). -/
theorem C10_get_entry_term (ops : List Op) (id : Id) :
    getEntryTerm (run ops) id = match specRun ops id with
      | some (.term v a) => some ⟨id, v, a⟩
      | _ => none := by
  rw [← C10_refinement ops]
  exact getEntryTerm_eq _ (C10_invariant ops) id

theorem C10_get_entry_function (ops : List Op) (id : Id) :
    getEntryFunction (run ops) id = match specRun ops id with
      | some (.function t) => some t
      | _ => none := by
  rw [← C10_refinement ops]
  exact getEntryFunction_eq _ (C10_invariant ops) id

/-- at most one of the three kind-checked lookups answers for an id -/
theorem C10_lookups_exclusive (ops : List Op) (id : Id) :
    ((getEntryMessage (run ops) id).isSome → getEntryTerm (run ops) id = none ∧ getEntryFunction (run ops) id = none) ∧
    ((getEntryTerm (run ops) id).isSome → getEntryMessage (run ops) id = none ∧ getEntryFunction (run ops) id = none) ∧
    ((getEntryFunction (run ops) id).isSome → getEntryMessage (run ops) id = none ∧ getEntryTerm (run ops) id = none) := by
  have h1 := C10_get_message ops id
  unfold getMessage at h1
  rw [h1, C10_get_entry_term, C10_get_entry_function]
  cases hs : specRun ops id with
  | none => simp
  | some d => cases d <;> simp

/-- **History of `add_resource` calls only**: an id resolves to its first definition in the
concatenation of all resources, in the order they were added. -/
theorem C10_first_wins_history (rs : List Resource) (id : Id) :
    (run (rs.map Op.add)).abs id = firstDef rs.flatten id := by
  rw [C10_refinement]
  unfold specRun
  rw [List.foldl_map]
  exact specAdd_fold_lookup rs Spec.empty id

/-- **History of `add_resource_overriding` calls only**: an id resolves to its last definition in the
concatenation of all resources. -/
theorem C10_last_wins_history (rs : List Resource) (id : Id) :
    (run (rs.map Op.addOverriding)).abs id = lastDef rs.flatten id := by
  rw [C10_refinement]
  unfold specRun
  rw [List.foldl_map]
  have := specAddOv_fold_lookup rs Spec.empty id
  simp only [specStep]
  rw [this]
  cases lastDef rs.flatten id <;> rfl

/-! ## non-vacuity (tests on literals, labelled as such) -/

section Examples
private def A : Id := [65]
private def B : Id := [66]
private def h1 : List Op :=
  [ .addFn B 0,
    .add [.message A (some [1]) [⟨[97], [2]⟩, ⟨[97], [3]⟩], .other, .term B [4] [], .message A none [⟨[98], [5]⟩]],
    .addOverriding [.other, .term A [6] [], .message B (some [7]) []] ]

/-- test: the history mixes the three calls, a Junk entry, a duplicate inside one resource, a
function blocking a term, and an overriding replacement that changes kinds -/
example : trace Bundle.empty h1 = [[], [⟨.term, B⟩, ⟨.message, A⟩], []] := by decide
example : getMessage (run (h1.take 2)) A = some ⟨A, some [1], [⟨[97], [2]⟩, ⟨[97], [3]⟩]⟩ := by decide
example : (getMessage (run (h1.take 2)) A).bind (·.getAttribute [97]) = some ⟨[97], [2]⟩ := by decide
example : getEntryFunction (run (h1.take 2)) B = some 0 := by decide
example : getMessage (run h1) A = none ∧ getEntryTerm (run h1) A = some ⟨A, [6], []⟩ := by decide
example : getMessage (run h1) B = some ⟨B, some [7], []⟩ ∧ getEntryFunction (run h1) B = none := by decide
end Examples

end FluentProofs.C10
