import FluentProofs.ConstTieResolver
import FluentProofs.ResolverTotal
import FluentProofs.ResolverBound
import FluentProofs.ResolverFuel
/-!
# C06 — formatting is total and bounded

Model: `FluentModel.Resolver` (function-for-function transcription of `resolver/*.rs`,
`types/mod.rs` `matches`/`write`, `bundle.rs` `format_pattern`/`write_pattern`).

All theorems quantify over every `Env` (bundle contents, functions, transform, formatter, arguments),
every pattern / expression (any AST, parser-produced or not), every scope, every writer, every fuel.
They are parametric in the limit: only `Generated.maxPlaceables ≤ 254` is used
(`maxPlaceables_le_254` discharges it for the value extracted from the Rust source).

Contracts (hypotheses, stated where used):
* `hcat : ∀ n, env.category n ≠ none` — the plural rules of the bundle's first locale are total (C12);
* `hS : ∀ p, Reach env p → depthPat p ≤ S` — `S` bounds the syntactic depth of every message/term
  value and attribute value of the bundle;
* for `output_bound`: `hReach : ∀ p, Reach env p → okPat env M E p` (every pattern of the bundle, at any
  nesting, has ≤ `M` bytes of text; every literal and error token is ≤ `M` bytes; named arguments of
  term calls are literals — as the grammar requires — printing in ≤ `E` bytes), `hArgs` / `hFn`
  (caller arguments and function results print in ≤ `E` bytes).
-/
namespace FluentProofs.C06
open FluentModel FluentModel.Syntax FluentModel.Resolver FluentProofs.Resolver

/-- the extracted limit fits the `u8` counter with room for the one increment past it -/
theorem maxPlaceables_le_254 : Generated.maxPlaceables ≤ 254 := by decide

/-! ## T1 `placeables_invariant` -/

/-- **T1 placeables_invariant.**  Every function of the mutual block, at every fuel, whenever it returns
`.ok`, relates the scope before (`sc`) and after (`sc'`) by `Step sc sc'`, i.e.

* `ScopeOk sc → ScopeOk sc'` where `ScopeOk s := s.placeables ≤ maxPlaceables ∨
  (s.placeables = maxPlaceables + 1 ∧ s.dirty = true)`;
* `sc.placeables ≤ sc'.placeables` (the counter is monotone over the whole call);
* `sc.dirty = true → sc'.dirty = true` (`dirty` is never reset);
* `∃ l, sc'.errors = sc.errors ++ l ∧ l.count tooManyPlaceables = flip sc sc'` with
  `flip sc sc' = 1` if `dirty` went `false → true` during the call and `0` otherwise: the log only
  grows and `TooManyPlaceables` is appended exactly at the moment the guard trips;
* `sc'.localArgs = sc.localArgs` (the arguments of the enclosing term call are back in force). -/
theorem placeables_invariant (hmax : Generated.maxPlaceables ≤ 254) (env : Env) (n : Nat) :
    (∀ whole len els w sc w' sc', writeElems env n whole len els w sc = .ok (w', sc') → Step sc sc') ∧
    (∀ p w sc w' sc', writePattern env n p w sc = .ok (w', sc') → Step sc sc') ∧
    (∀ p e w sc w' sc', track env n p e w sc = .ok (w', sc') → Step sc sc') ∧
    (∀ e w sc w' sc', writeExpr env n e w sc = .ok (w', sc') → Step sc sc') ∧
    (∀ vs w sc w' sc', writeDefault env n vs w sc = .ok (w', sc') → Step sc sc') ∧
    (∀ e w sc w' sc', writeInline env n e w sc = .ok (w', sc') → Step sc sc') ∧
    (∀ e sc v sc', resolveInline env n e sc = .ok (v, sc') → Step sc sc') ∧
    (∀ a sc r sc', getArguments env n a sc = .ok (r, sc') → Step sc sc') ∧
    (∀ es sc vs sc', resolveList env n es sc = .ok (vs, sc') → Step sc sc') ∧
    (∀ es sc vs sc', resolveNamed env n es sc = .ok (vs, sc') → Step sc sc') := by
  have I := inv_all hmax env n
  exact ⟨fun _ _ _ _ _ _ _ h => (I.writeElems _ _ _ _ _).step_of_ok h,
    fun _ _ _ _ _ h => (I.writePattern _ _ _).step_of_ok h,
    fun _ _ _ _ _ _ h => (I.track _ _ _ _).step_of_ok h,
    fun _ _ _ _ _ h => (I.writeExpr _ _ _).step_of_ok h,
    fun _ _ _ _ _ h => (I.writeDefault _ _ _).step_of_ok h,
    fun _ _ _ _ _ h => (I.writeInline _ _ _).step_of_ok h,
    fun _ _ _ _ h => (I.resolveInline _ _).step_of_ok h,
    fun _ _ _ _ h => (I.getArguments _ _).step_of_ok h,
    fun _ _ _ _ h => (I.resolveList _ _).step_of_ok h,
    fun _ _ _ _ h => (I.resolveNamed _ _).step_of_ok h⟩

/-- The final scope of a whole `format_pattern` call: the counter is at most `maxPlaceables + 1`, it is
`maxPlaceables + 1` only if the guard tripped, and `TooManyPlaceables` is in the log exactly once if
the guard tripped and not at all otherwise. -/
theorem placeables_le (hmax : Generated.maxPlaceables ≤ 254) (env : Env) (fuel : Nat) (p : Pattern Bytes)
    (w : Bytes) (sc : Scope) (h : resolvePattern env fuel p {} = .ok (w, sc)) :
    sc.placeables ≤ Generated.maxPlaceables + 1 ∧
    (sc.placeables = Generated.maxPlaceables + 1 → sc.dirty = true) ∧
    sc.errors.count RErr.tooManyPlaceables = (if sc.dirty then 1 else 0) := by
  have hst := (resolvePattern_good hmax env fuel p {}).step_of_ok h
  obtain ⟨hok, hc⟩ := final_scope hst
  refine ⟨?_, ?_, hc⟩
  · rcases hok with h | ⟨h, _⟩ <;> omega
  · intro he; rcases hok with h | ⟨_, h⟩
    · omega
    · exact h

/-- `format_pattern` reports the limit at most once per call. -/
theorem too_many_reported_at_most_once (hmax : Generated.maxPlaceables ≤ 254) (env : Env) (fuel : Nat)
    (p : Pattern Bytes) (w : Bytes) (errs : List RErr) (h : formatPattern env fuel p = .ok (w, errs)) :
    errs.count RErr.tooManyPlaceables ≤ 1 := by
  unfold formatPattern at h
  rcases hr : resolvePattern env fuel p {} with ⟨⟨w1, sc⟩⟩ | ⟨m⟩ | _ <;> rw [hr] at h <;> simp only [] at h
  · cases h
    have := (placeables_le hmax env fuel p w sc hr).2.2
    rw [this]; split <;> omega
  · cases h
  · cases h

/-- `write_pattern` reports the limit at most once per call. -/
theorem too_many_reported_at_most_once_write (hmax : Generated.maxPlaceables ≤ 254) (env : Env) (fuel : Nat)
    (p : Pattern Bytes) (w : Bytes) (errs : List RErr) (h : writePatternTop env fuel p = .ok (w, errs)) :
    errs.count RErr.tooManyPlaceables ≤ 1 := by
  unfold writePatternTop at h
  rcases hr : writePattern env fuel p [] {} with ⟨⟨w1, sc⟩⟩ | ⟨m⟩ | _ <;> rw [hr] at h <;> simp only [] at h
  · cases h
    have hst := ((inv_all hmax env fuel).writePattern p [] {}).step_of_ok hr
    rw [(final_scope hst).2]; split <;> omega
  · cases h
  · cases h

/-- `Cyclic` is pushed by `track` exactly when the `travelled` stack contains the pattern
(structural equality, as `Vec::contains` with the derived `PartialEq`): in that case `track` writes the
error token, logs `Cyclic` and does not resolve the pattern … -/
theorem cyclic_reported (env : Env) (n : Nat) (p : Pattern Bytes) (e : Inline Bytes) (w : Bytes) (sc : Scope)
    (h : travelledContains sc.travelled p = true) :
    track env (n + 1) p e w sc = .ok (w ++ braced (inlineWriteError e), sc.addError .cyclic) := by
  simp [track, h]

/-- … and otherwise `track` is exactly the resolution of the pattern with the pattern pushed on the
stack (and popped afterwards): it logs nothing of its own. -/
theorem not_cyclic_resolved (env : Env) (n : Nat) (p : Pattern Bytes) (e : Inline Bytes) (w : Bytes) (sc : Scope)
    (h : travelledContains sc.travelled p = false) (w' : Bytes) (sc' : Scope)
    (hr : track env (n + 1) p e w sc = .ok (w', sc')) :
    ∃ sc1, writePattern env n p w { sc with travelled := sc.travelled ++ [p] } = .ok (w', sc1) ∧
      sc'.errors = sc1.errors ∧ sc'.placeables = sc1.placeables ∧ sc'.dirty = sc1.dirty := by
  simp only [track, h] at hr
  rcases hw : writePattern env n p w { sc with travelled := sc.travelled ++ [p] } with ⟨⟨w1, sc1⟩⟩ | ⟨m⟩ | _ <;>
    rw [hw] at hr <;> simp at hr
  obtain ⟨rfl, rfl⟩ := hr
  exact ⟨sc1, rfl, rfl, rfl, rfl⟩

/-! ## T1 `no_panic` -/

/-- **T1 no_panic.**  Under the contract that the plural rules are total, no function of the block,
started in a `ScopeOk` scope, returns `.panic`, at any fuel: the `u8` counter cannot overflow
(`ScopeOk` and `maxPlaceables ≤ 254`), `key.matches`'s `unwrap` is excluded by `hcat`, and
`write_ref_error` is only called with message/term/function references. -/
theorem no_panic (hmax : Generated.maxPlaceables ≤ 254) (env : Env) (hcat : ∀ n, env.category n ≠ none)
    (n : Nat) (m : String) :
    (∀ whole len els w sc, ScopeOk sc → writeElems env n whole len els w sc ≠ .panic m) ∧
    (∀ p w sc, ScopeOk sc → writePattern env n p w sc ≠ .panic m) ∧
    (∀ p e w sc, ScopeOk sc → track env n p e w sc ≠ .panic m) ∧
    (∀ e w sc, ScopeOk sc → writeExpr env n e w sc ≠ .panic m) ∧
    (∀ vs w sc, ScopeOk sc → writeDefault env n vs w sc ≠ .panic m) ∧
    (∀ e w sc, ScopeOk sc → writeInline env n e w sc ≠ .panic m) ∧
    (∀ e sc, ScopeOk sc → resolveInline env n e sc ≠ .panic m) ∧
    (∀ a sc, ScopeOk sc → getArguments env n a sc ≠ .panic m) ∧
    (∀ es sc, ScopeOk sc → resolveList env n es sc ≠ .panic m) ∧
    (∀ es sc, ScopeOk sc → resolveNamed env n es sc ≠ .panic m) := by
  have I := inv_all hmax env n
  exact ⟨fun _ _ _ _ _ h => (I.writeElems _ _ _ _ _).not_panic h hcat,
    fun _ _ _ h => (I.writePattern _ _ _).not_panic h hcat,
    fun _ _ _ _ h => (I.track _ _ _ _).not_panic h hcat,
    fun _ _ _ h => (I.writeExpr _ _ _).not_panic h hcat,
    fun _ _ _ h => (I.writeDefault _ _ _).not_panic h hcat,
    fun _ _ _ h => (I.writeInline _ _ _).not_panic h hcat,
    fun _ _ h => (I.resolveInline _ _).not_panic h hcat,
    fun _ _ h => (I.getArguments _ _).not_panic h hcat,
    fun _ _ h => (I.resolveList _ _).not_panic h hcat,
    fun _ _ h => (I.resolveNamed _ _).not_panic h hcat⟩

/-- `format_pattern` and `write_pattern` never panic (any fuel, any bundle, any arguments). -/
theorem format_no_panic (hmax : Generated.maxPlaceables ≤ 254) (env : Env) (hcat : ∀ n, env.category n ≠ none)
    (fuel : Nat) (p : Pattern Bytes) (m : String) :
    formatPattern env fuel p ≠ .panic m ∧ writePatternTop env fuel p ≠ .panic m := by
  constructor
  · unfold formatPattern
    have := (resolvePattern_good hmax env fuel p {}).not_panic scopeOk_init hcat (m := m)
    rcases hr : resolvePattern env fuel p {} with ⟨⟨w1, sc⟩⟩ | ⟨m'⟩ | _ <;> simp only []
    · simp
    · intro h; cases h; exact this hr
    · simp
  · unfold writePatternTop
    have := ((inv_all hmax env fuel).writePattern p [] {}).not_panic scopeOk_init hcat (m := m)
    rcases hr : writePattern env fuel p [] {} with ⟨⟨w1, sc⟩⟩ | ⟨m'⟩ | _ <;> simp only []
    · simp
    · intro h; cases h; exact this hr
    · simp

/-! ## T1 `format_total` (fuel sufficiency) -/

/-- **Fuel sufficiency, joint form.**  `depth…` is the syntactic depth (number of nested model calls
spent inside one AST, list spines included), `S` bounds `depthPat` of every pattern reachable through a
reference, `R sc` is the number of counter increments still possible (`0` when dirty, else
`maxPlaceables + 1 - placeables`), `P sc = maxPlaceables - placeables`, `G S r = r * (S + 1) + 3`.
Started in a `ScopeOk` scope with the stated fuel, no function of the block runs out of fuel. -/
theorem fuel_sufficient (hmax : Generated.maxPlaceables ≤ 254) (env : Env) (S : Nat)
    (hS : ∀ p, Reach env p → depthPat p ≤ S) (n : Nat) :
    (∀ whole len els w sc, ScopeOk sc → (if sc.dirty then 1 else depthElems els + G S (P sc)) ≤ n →
      writeElems env n whole len els w sc ≠ .fuel) ∧
    (∀ p w sc, ScopeOk sc → (if sc.dirty then 2 else 1 + depthElems p + G S (P sc)) ≤ n →
      writePattern env n p w sc ≠ .fuel) ∧
    (∀ p e w sc, ScopeOk sc → depthPat p ≤ S → (if sc.dirty then 3 else 1 + S + G S (P sc)) ≤ n →
      track env n p e w sc ≠ .fuel) ∧
    (∀ e w sc, ScopeOk sc → depthExpr e + G S (R sc) ≤ n → writeExpr env n e w sc ≠ .fuel) ∧
    (∀ vs w sc, ScopeOk sc → depthVariants vs + G S (R sc) ≤ n → writeDefault env n vs w sc ≠ .fuel) ∧
    (∀ e w sc, ScopeOk sc → depthInline e + G S (R sc) ≤ n → writeInline env n e w sc ≠ .fuel) ∧
    (∀ e sc, ScopeOk sc → 1 + depthInline e + G S (R sc) ≤ n → resolveInline env n e sc ≠ .fuel) ∧
    (∀ a sc, ScopeOk sc → depthArgs a + G S (R sc) ≤ n → getArguments env n a sc ≠ .fuel) ∧
    (∀ es sc, ScopeOk sc → depthInlines es + G S (R sc) ≤ n → resolveList env n es sc ≠ .fuel) ∧
    (∀ es sc, ScopeOk sc → depthNamed es + G S (R sc) ≤ n → resolveNamed env n es sc ≠ .fuel) := by
  have T := tot_all hmax env S hS n
  exact ⟨T.writeElems, T.writePattern, T.track, T.writeExpr, T.writeDefault, T.writeInline, T.resolveInline,
    T.getArguments, T.resolveList, T.resolveNamed⟩

/-- **T1 format_total.**  For every bundle whose message/term values and attribute values have syntactic
depth ≤ `S`, every start pattern of depth ≤ `S`, every argument set, all (total) registered functions,
transform and formatter: with fuel ≥ `fuelBound S = (maxPlaceables + 1) * (S + 1) + 2` both
`format_pattern` and `write_pattern` return a string and an error list — not `.fuel`, not `.panic`. -/
theorem format_total (hmax : Generated.maxPlaceables ≤ 254) (env : Env) (hcat : ∀ n, env.category n ≠ none)
    (S : Nat) (hS : ∀ p, Reach env p → depthPat p ≤ S) (p : Pattern Bytes) (hp : depthPat p ≤ S)
    (fuel : Nat) (hf : fuelBound S ≤ fuel) :
    (∃ w errs, formatPattern env fuel p = .ok (w, errs)) ∧
    (∃ w errs, writePatternTop env fuel p = .ok (w, errs)) := by
  constructor
  · have h1 := resolvePattern_ne_fuel hmax env S hS fuel p hp hf
    have h2 := fun m => (resolvePattern_good hmax env fuel p {}).not_panic scopeOk_init hcat (m := m)
    unfold formatPattern
    rcases hr : resolvePattern env fuel p {} with ⟨⟨w1, sc⟩⟩ | ⟨m'⟩ | _
    · exact ⟨w1, sc.errors, rfl⟩
    · exact absurd hr (h2 m')
    · exact absurd hr h1
  · have h1 := (tot_all hmax env S hS fuel).writePattern p [] {} scopeOk_init
      (Nat.le_trans (PN_init_le S p hp) hf)
    have h2 := fun m => ((inv_all hmax env fuel).writePattern p [] {}).not_panic scopeOk_init hcat (m := m)
    unfold writePatternTop
    rcases hr : writePattern env fuel p [] {} with ⟨⟨w1, sc⟩⟩ | ⟨m'⟩ | _
    · exact ⟨w1, sc.errors, rfl⟩
    · exact absurd hr (h2 m')
    · exact absurd hr h1


/-- **The fuel is an artefact of the model.**  Whatever `format_pattern` / `write_pattern` return at some
fuel (a result or a panic, anything but `.fuel`) they return at every larger fuel; with `format_total`:
for every fuel ≥ `fuelBound S` the result is the same `.ok` value — in particular at the fuel the
model driver passes, whenever `fuelBound S` is below it. -/
theorem fuel_irrelevant (env : Env) (n m : Nat) (hnm : n ≤ m) (p : Pattern Bytes) :
    (formatPattern env n p ≠ .fuel → formatPattern env m p = formatPattern env n p) ∧
    (writePatternTop env n p ≠ .fuel → writePatternTop env m p = writePatternTop env n p) :=
  ⟨formatPattern_fuel_irrelevant env n m hnm p, writePatternTop_fuel_irrelevant env n m hnm p⟩

/-- the same for every function of the mutual block (one step of fuel) -/
theorem fuel_irrelevant_block (env : Env) (n : Nat) : Mono env n := mono_all env n

/-! ## T2 `output_bound` -/

/-- **T2 output_bound.**  Let `M` bound the text bytes of every pattern of the bundle (message/term
values, attributes, variant values at any nesting, after the transform) and every literal and error
token, and `E` bound the printed size (`valueString`: formatter, number formatting, custom values) of
every caller argument, every function result and every literal named argument of a term call.  Then
every output of `format_pattern` and `write_pattern`, at any fuel, has at most
`outBound M E = M + (maxPlaceables + 1) * (2 * M + E + 6)` bytes: linear in the limit, in the largest
pattern and in the largest value — no multiplicative blow-up through reference chains. -/
theorem output_bound (hmax : Generated.maxPlaceables ≤ 254) (env : Env) (M E : Nat)
    (hReach : ∀ p, Reach env p → okPat env M E p)
    (hArgs : ∀ k v, env.args.bind (·.get k) = some v → Small env E v)
    (hFn : ∀ id f rp rn, env.fn id = some f → Small env E (f rp rn))
    (p : Pattern Bytes) (hp : okPat env M E p) (fuel : Nat) (w : Bytes) (errs : List RErr) :
    (formatPattern env fuel p = .ok (w, errs) → w.length ≤ M + (Generated.maxPlaceables + 1) * (2 * M + E + 6)) ∧
    (writePatternTop env fuel p = .ok (w, errs) → w.length ≤ M + (Generated.maxPlaceables + 1) * (2 * M + E + 6)) := by
  constructor
  · intro h
    unfold formatPattern at h
    rcases hr : resolvePattern env fuel p {} with ⟨⟨w1, sc⟩⟩ | ⟨m⟩ | _ <;> rw [hr] at h <;> simp only [] at h
    · cases h; exact resolvePattern_init_bound hmax env M E hReach hArgs hFn p hp fuel w sc hr
    · cases h
    · cases h
  · intro h
    unfold writePatternTop at h
    rcases hr : writePattern env fuel p [] {} with ⟨⟨w1, sc⟩⟩ | ⟨m⟩ | _ <;> rw [hr] at h <;> simp only [] at h
    · cases h; exact writePattern_init_bound hmax env M E hReach hArgs hFn p hp fuel w sc hr
    · cases h
    · cases h

/-- The accounting behind `output_bound`, for every function that writes, every scope and writer:
`|w'| + placeables * K ≤ |w| + direct + placeables' * K` with `K = 2 * M + E + 6` and `direct` = the
text of the element list / pattern being written (`writeElems`, `writePattern`), `M` (`track`,
`writeDefault`), `M + E` (`writeExpr`, `writeInline`). -/
theorem output_accounting (hmax : Generated.maxPlaceables ≤ 254) (env : Env) (M E : Nat)
    (hReach : ∀ p, Reach env p → okPat env M E p)
    (hArgs : ∀ k v, env.args.bind (·.get k) = some v → Small env E v)
    (hFn : ∀ id f rp rn, env.fn id = some f → Small env E (f rp rn)) (n : Nat) : Out env M E n :=
  out_all hmax env M E hReach hArgs hFn n

/-! ## tests (non-vacuity witnesses on concrete bundles; `decide` on literals) -/
section tests

/-- a bundle given by an association list of messages (no terms, no functions, no arguments) -/
def testEnv (msgs : List (Bytes × Pattern Bytes)) : Env where
  msg := fun id => (msgs.find? (fun kv => kv.1 == id)).map (fun kv => ⟨kv.1, some kv.2, [], none⟩)
  term := fun _ => none
  fn := fun _ => none
  useIsolating := false
  transform := none
  formatter := none
  category := fun _ => some .other
  tryNumber := fun b => .str b
  unescape := id
  customStr := id
  args := none

def ref (k : Nat) : PatElem Bytes := .placeable (.inline (.msg [109, 48 + k.toUInt8] none))

/-- `m0 = { m0 }` -/
def cyc : List (Bytes × Pattern Bytes) := [([109, 48], [ref 0])]

/-- `m0 = x`, `m(k+1) = { mk }{ mk }{ mk }` for k < 5: a 3^5 = 243 > 100 bomb -/
def bomb : List (Bytes × Pattern Bytes) :=
  [([109, 48], [.text [120]]), ([109, 49], [ref 0, ref 0, ref 0]), ([109, 50], [ref 1, ref 1, ref 1]),
   ([109, 51], [ref 2, ref 2, ref 2]), ([109, 52], [ref 3, ref 3, ref 3]), ([109, 53], [ref 4, ref 4, ref 4])]

def check (r : RR (Bytes × List RErr)) (f : Bytes → List RErr → Bool) : Bool :=
  match r with
  | .ok (w, errs) => f w errs
  | _ => false

/-- test: the cyclic message formats to `{m0}` with exactly the error `Cyclic` -/
example : check (formatPattern (testEnv cyc) (fuelBound 3) [ref 0])
    (fun w errs => w == [123, 109, 48, 125] && errs == [RErr.cyclic]) = true := by decide +kernel

/-- test: with one unit of fuel less than needed for the nesting the model does report `.fuel`
(the fuel hypothesis of `format_total` is not vacuous) -/
example : (match formatPattern (testEnv cyc) 3 [ref 0] with | .fuel => true | _ => false) = true := by
  decide +kernel

/-- test: the bomb trips the limit: exactly one `TooManyPlaceables`, output of at most 100 bytes + error tokens -/
example : check (formatPattern (testEnv bomb) (fuelBound 6) [ref 5])
    (fun w errs => errs.count RErr.tooManyPlaceables == 1 && errs.length == 1 && decide (w.length ≤ 200)) = true := by
  decide +kernel


theorem reach_testEnv (msgs : List (Bytes × Pattern Bytes)) (p : Pattern Bytes) (h : Reach (testEnv msgs) p) :
    ∃ kv ∈ msgs, kv.2 = p := by
  rcases h with ⟨id, m, hm, hv⟩ | ⟨id, t, ht, _⟩
  · simp only [testEnv, Option.map_eq_some_iff] at hm
    obtain ⟨kv, hf, rfl⟩ := hm
    refine ⟨kv, List.mem_of_find?_eq_some hf, ?_⟩
    rcases hv with hv | ⟨a, ha⟩
    · simpa using hv
    · simp [findAttr] at ha
  · simp [testEnv] at ht

/-- test: the hypotheses of `format_total` are satisfiable — instantiated on the bomb bundle (`S = 6`) -/
example : ∃ w errs, formatPattern (testEnv bomb) (fuelBound 6) [ref 5] = .ok (w, errs) :=
  (format_total maxPlaceables_le_254 (testEnv bomb) (fun _ => by simp [testEnv]) 6
    (fun p h => by
      obtain ⟨kv, hm, rfl⟩ := reach_testEnv bomb p h
      exact (by decide : ∀ kv ∈ bomb, depthPat kv.2 ≤ 6) kv hm)
    [ref 5] (by decide) _ (Nat.le_refl _)).1

/-- test: the hypotheses of `output_bound` are satisfiable — the bomb bundle with `M = 6`, `E = 0` -/
example : ∀ w errs, formatPattern (testEnv bomb) (fuelBound 6) [ref 5] = .ok (w, errs) →
    w.length ≤ 6 + (Generated.maxPlaceables + 1) * (2 * 6 + 0 + 6) :=
  fun w errs => (output_bound maxPlaceables_le_254 (testEnv bomb) 6 0
    (fun p h => by
      obtain ⟨kv, hm, rfl⟩ := reach_testEnv bomb p h
      simp [bomb] at hm
      rcases hm with rfl | rfl | rfl | rfl | rfl | rfl <;>
        simp [okPat, okElems, okElem, okExpr, okInline, textBytes, tokLen, ref, testEnv, inlineWriteError,
          exprWriteError])
    (fun k v h => by simp [testEnv] at h)
    (fun id f rp rn h => by simp [testEnv] at h)
    [ref 5]
    (by simp [okPat, okElems, okElem, okExpr, okInline, textBytes, tokLen, ref, inlineWriteError, exprWriteError])
    (fuelBound 6) w errs).1

end tests
end FluentProofs.C06
