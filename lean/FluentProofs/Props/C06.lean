import FluentModel.Resolver
namespace FluentProofs.C06
theorem placeholder : True := trivial
end FluentProofs.C06
