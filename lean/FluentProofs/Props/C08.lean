import FluentModel.Resolver
namespace FluentProofs.C08
theorem placeholder : True := trivial
end FluentProofs.C08
