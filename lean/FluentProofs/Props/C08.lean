import FluentProofs.ConstTieResolver
import FluentProofs.ResolverRefineTop
import FluentProofs.Props.C11
/-!
# C08 — formatting is a pure function; string and writer APIs agree

On the transcribed resolver model (`FluentModel.Resolver`): `formatPattern` is `FluentBundle::format_pattern`
(with the single-text fast path of `Pattern::resolve`), `writePatternTop` is `FluentBundle::write_pattern`.
Both start from a fresh `Scope` (`errors = []`: the error vector is the caller's, per call) and read the bundle only
through `Env`; nothing is written back.  So "repeating the call, in any order relative to other calls" is a
statement about the only object that survives a call: the memoizer holding the plural rules, which the model
sees as `env.category`.
-/
namespace FluentProofs.C08
open FluentModel FluentModel.Syntax FluentModel.Num FluentModel.Resolver
open FluentProofs.ResolverRefine

/-- **format_eq_write** — `format_pattern` and `write_pattern` give the same text and the same error list, for
every bundle, every pattern and every fuel `≥ 3` (the writer path needs three units for a one-element pattern:
`Pattern::write`, the element, the end of the loop; the string path answers a single-text pattern without
recursion — see the test at the end for fuel 2). -/
theorem format_eq_write (env : Env) (fuel : Nat) (p : Pattern Bytes) (hf : 3 ≤ fuel) :
    formatPattern env fuel p = writePatternTop env fuel p :=
  formatPattern_eq_writePatternTop env fuel p hf

/-- the same without a fuel bound: whatever the writer API returns, the string API returns; and whenever both
return, they return the same text and errors -/
theorem format_eq_write_of_ok (env : Env) (fuel : Nat) (p : Pattern Bytes) (r : Bytes × List RErr)
    (h : writePatternTop env fuel p = .ok r) :
    formatPattern env fuel p = .ok r ∧ ∀ r', formatPattern env fuel p = .ok r' → r' = r := by
  have h1 := formatPattern_of_writePatternTop env fuel p r h
  refine ⟨h1, fun r' h' => ?_⟩
  rw [h1] at h'
  cases h'; rfl

/-- **format_state_independent** (extensionality) — the result is a function of what the bundle answers to the
resolver's lookups and of the pattern, nothing else: two `Env`s that agree on the message, term and function
lookups, the flags and hooks, the plural category of every number, number parsing, unescaping, custom-value
stringification and the caller's arguments give equal results through both APIs.  The model has no other input:
there is no hidden state. -/
theorem format_state_independent (e₁ e₂ : Env)
    (hmsg : ∀ id, e₁.msg id = e₂.msg id) (hterm : ∀ id, e₁.term id = e₂.term id) (hfn : ∀ id, e₁.fn id = e₂.fn id)
    (hiso : e₁.useIsolating = e₂.useIsolating) (htr : e₁.transform = e₂.transform)
    (hfmt : e₁.formatter = e₂.formatter) (hcat : ∀ n, e₁.category n = e₂.category n)
    (htn : ∀ b, e₁.tryNumber b = e₂.tryNumber b) (hun : ∀ b, e₁.unescape b = e₂.unescape b)
    (hcs : ∀ b, e₁.customStr b = e₂.customStr b) (hargs : e₁.args = e₂.args)
    (fuel : Nat) (p : Pattern Bytes) :
    formatPattern e₁ fuel p = formatPattern e₂ fuel p ∧ writePatternTop e₁ fuel p = writePatternTop e₂ fuel p := by
  have : e₁ = e₂ := by
    cases e₁; cases e₂
    simp only [Env.mk.injEq]
    exact ⟨funext hmsg, funext hterm, funext hfn, hiso, htr, hfmt, funext hcat, funext htn, funext hun, funext hcs, hargs⟩
  subst this
  exact ⟨rfl, rfl⟩

/-- a request: which API (`true` = `write_pattern`), fuel, pattern -/
abbrev Req := Bool × Nat × Pattern Bytes

/-- one call on the bundle `env` -/
def call (env : Env) (r : Req) : RR (Bytes × List RErr) :=
  if r.1 then writePatternTop env r.2.1 r.2.2 else formatPattern env r.2.1 r.2.2

/-- a history of calls on ONE bundle whose memoizer is in state `s` (`cat s` = the plural category the bundle
computes in that state); every call may change the memoizer state arbitrarily (`step`) -/
def runHistory {σ : Type} (base : Env) (cat : σ → FluentNumber → Option Category) (step : σ → Req → σ) :
    σ → List Req → List (RR (Bytes × List RErr))
  | _, [] => []
  | s, r :: rs => call { base with category := cat s } r :: runHistory base cat step (step s r) rs

/-- **format_state_independent, histories** — any sequence of format/write calls on one bundle, in any order, cold or
warmed up, returns call by call what a fresh bundle returns: the only memoized object, the plural rules, enters
through `env.category`, and the memoizer returns the same rules in every state (`hcache`; this is C14's
`FluentProofs.C14.C14_lookup_eq_construct`: the outcomes of any history of lookups are those of constructing
afresh each time — the cache is unobservable).  Earlier errors cannot matter: each call starts from `errors = []`. -/
theorem format_history_independent {σ : Type} (base : Env) (cat : σ → FluentNumber → Option Category)
    (step : σ → Req → σ) (hcache : ∀ s s' n, cat s n = cat s' n) (s₀ fresh : σ) (reqs : List Req) :
    runHistory base cat step s₀ reqs = reqs.map (call { base with category := cat fresh }) := by
  induction reqs generalizing s₀ with
  | nil => rfl
  | cons r rs ih =>
    have : cat s₀ = cat fresh := funext (hcache s₀ fresh)
    simp only [runHistory, List.map_cons, ih, this]

/-- **args_canonical** — the result does not depend on how the arguments were inserted: two `FluentArgs` built by
any sequences of `set` that leave the same final map are EQUAL values (`FluentProofs.C11.C11_canonical`), hence
formatting with either gives the same result through both APIs. -/
theorem args_canonical (env : Env) (ops₁ ops₂ : List (Bytes × Value))
    (h : ∀ k, (ArgList.ofPairs ops₁).get k = (ArgList.ofPairs ops₂).get k) :
    ArgList.ofPairs ops₁ = ArgList.ofPairs ops₂ ∧
    ∀ fuel p,
      formatPattern { env with args := some (ArgList.ofPairs ops₁) } fuel p =
        formatPattern { env with args := some (ArgList.ofPairs ops₂) } fuel p ∧
      writePatternTop { env with args := some (ArgList.ofPairs ops₁) } fuel p =
        writePatternTop { env with args := some (ArgList.ofPairs ops₂) } fuel p := by
  have e : ArgList.ofPairs ops₁ = ArgList.ofPairs ops₂ := FluentProofs.C11.C11_canonical ops₁ ops₂ h
  exact ⟨e, fun fuel p => by rw [e]; exact ⟨rfl, rfl⟩⟩

/-! ## tests on literals (non-vacuity; `decide +kernel`) -/
section Tests

def obs : RR (Bytes × List RErr) → Option (Bytes × List RErr)
  | .ok r => some r
  | _ => .none

def tEnv : Env where
  msg := fun _ => .none
  term := fun _ => .none
  fn := fun _ => .none
  useIsolating := true
  transform := .none
  formatter := .none
  category := fun _ => some .other
  tryNumber := fun b => .str b
  unescape := fun b => b
  customStr := fun b => b
  args := .none

/-- test: the fuel bound of `format_eq_write` is sharp — with fuel 2 the string API answers a single-text pattern
(fast path) while the writer loop runs out of fuel -/
example : obs (formatPattern tEnv 2 [.text [65]]) = some ([65], []) ∧ obs (writePatternTop tEnv 2 [.text [65]]) = .none ∧
    obs (writePatternTop tEnv 3 [.text [65]]) = some ([65], []) := by decide +kernel

/-- test: two insertion orders (one with an overwrite) of the same final map give the same `FluentArgs` -/
example : ArgList.ofPairs [([120], Value.str [49]), ([121], .str [50])] =
    ArgList.ofPairs [([121], .str [50]), ([120], .str [48]), ([120], .str [49])] := by decide +kernel

/-- test: both APIs on `a { $x } b` with isolation on and `x` inserted in two ways -/
example :
    obs (formatPattern { tEnv with args := some (ArgList.ofPairs [([121], .str [50]), ([120], .str [48]), ([120], .str [49])]) } 9
        [.text [97], .placeable (.inline (.var [120])), .text [98]]) =
      some ([97, 0xE2, 0x81, 0xA8, 49, 0xE2, 0x81, 0xA9, 98], []) ∧
    obs (writePatternTop { tEnv with args := some (ArgList.ofPairs [([120], .str [49]), ([121], .str [50])]) } 9
        [.text [97], .placeable (.inline (.var [120])), .text [98]]) =
      some ([97, 0xE2, 0x81, 0xA8, 49, 0xE2, 0x81, 0xA9, 98], []) := by decide +kernel

end Tests

end FluentProofs.C08
