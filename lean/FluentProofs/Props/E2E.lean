import FluentProofs.EndToEnd
import FluentProofs.Props.C01
import FluentProofs.Props.C06
import FluentProofs.Props.C08
import FluentModel.Drv.FmtDrv
/-!
# E2E — "load FTL text into a bundle, then format a message" is total, fuel-independent and bounded

Composition of the per-component theorems over the pipeline model `FluentModel/Bundle.lean`
(`Bundle.ofSources` = runtime parser + `add_resource[_overriding]` for every source, in order;
`Bundle.env` = the `Env` the resolver sees; `Bundle.format` / `Bundle.write` = `format_pattern` /
`write_pattern` on the value or attribute of a message, as the `fmt` driver chooses it):

* C01 `parseRuntime_total` (every `String` parses: no panic, no fuel exhaustion)  →  `Bundle.ofSources` is `some`;
* the registry is a finite list whose entries are configured functions or messages/terms of the parsed trees
  →  a depth bound `S = regDepth b.reg` exists (the `hS` hypothesis of C06 is discharged, not assumed);
* C06 `format_total` + `fuel_irrelevant` + `too_many_reported_at_most_once`, C08 `format_eq_write`
  →  one result `(w, errs)` for both APIs at every fuel `≥ fuelBound S`;
* C06 `output_bound` with `M`, `E` computed from the loaded bundle and the arguments.

The only hypotheses left are the contracts on the configuration: `hcat` (the plural rules of the bundle's
locale are total, C12) and — for the size bound only — that named arguments of term calls are literals
(`regLit`, a decidable check on the loaded bundle; the grammar guarantees it, but that fact about the parser
is not a Lean theorem here) and a bound on what registered functions print.
-/
namespace FluentProofs.E2E
open FluentModel FluentModel.Syntax FluentModel.Resolver FluentModel.Bundle
open FluentProofs.Resolver FluentProofs.EndToEnd

/-- the bundle model's default fuel is the `fmt` driver's constant -/
theorem resolverFuel_eq : Bundle.resolverFuel = FluentModel.Drv.FmtDrv.resolverFuel := rfl

/-- C01 in the form the loader needs: the runtime parser is total on the bytes of every source -/
theorem parse_sources_total (srcs : List (Bool × String)) :
    ∀ s ∈ srcs, ∃ r, parseRuntime (srcOf s.2) = .done r :=
  fun s _ => FluentProofs.C01.parseRuntime_total s.2

/-! ## 1. loading is total, the registry is finite and every entry has an origin -/

/-- **bundle_of_sources_total.**  For EVERY configuration and EVERY list of sources (any `String`s, each added
with `add_resource` or `add_resource_overriding`), `Bundle.ofSources` returns a bundle: the parser model never
panics and never runs out of fuel (C01).  The bundle keeps the configuration; its registry is a finite list
(`b.reg : List _`) and every entry of it is a configured function or the entry `(m.id, m)` / `(t.id, t)` of a
message / term of the tree the runtime parser returned for one of the sources (`Origin`).  In particular
whatever the resolver's lookups answer is such an entry, stored under its own id. -/
theorem bundle_of_sources_total (cfg : BundleCfg) (srcs : List (Bool × String)) :
    ∃ b, Bundle.ofSources cfg srcs = some b ∧ b.cfg = cfg ∧
      (∀ x ∈ b.reg, Origin cfg srcs x) ∧
      (∀ args id m, (b.env args).msg id = some m → m.id = id ∧
        ∃ s ∈ srcs, ∃ res errs, parseRuntime s.2.toUTF8.data = .done (res, errs) ∧
          Entry.message m ∈ resolve s.2.toUTF8.data res) ∧
      (∀ args id t, (b.env args).term id = some t → t.id = id ∧
        ∃ s ∈ srcs, ∃ res errs, parseRuntime s.2.toUTF8.data = .done (res, errs) ∧
          Entry.term t ∈ resolve s.2.toUTF8.data res) ∧
      (∀ args id f, (b.env args).fn id = some f → (id, f) ∈ cfg.functions) := by
  obtain ⟨b, hb, hcfg, horg⟩ := ofSources_some cfg srcs (parse_sources_total srcs)
  refine ⟨b, hb, hcfg, horg, ?_, ?_, ?_⟩
  · intro args id m hm
    rcases horg _ (get_mem (env_msg hm)) with ⟨nf, _, hx⟩ | ⟨s, hs, res, errs, hp, hf⟩
    · cases hx
    · rcases hf with ⟨m', hm', hx⟩ | ⟨t', _, hx⟩
      · cases hx; exact ⟨rfl, s, hs, res, errs, hp, hm'⟩
      · cases hx
  · intro args id t ht
    rcases horg _ (get_mem (env_term ht)) with ⟨nf, _, hx⟩ | ⟨s, hs, res, errs, hp, hf⟩
    · cases hx
    · rcases hf with ⟨m', _, hx⟩ | ⟨t', ht', hx⟩
      · cases hx
      · cases hx; exact ⟨rfl, s, hs, res, errs, hp, ht'⟩
  · intro args id f hf
    rcases horg _ (get_mem (env_fn hf)) with ⟨nf, hnf, hx⟩ | ⟨s, _, res, errs, _, hf'⟩
    · cases hx; exact hnf
    · rcases hf' with ⟨m', _, hx⟩ | ⟨t', _, hx⟩ <;> cases hx

/-! ## 2. a depth bound exists (and is computable) -/

/-- **depth_bound_exists.**  For every bundle there is an `S` — explicitly `regDepth b.reg`, the maximum of
`depthPat` over the values and attribute values of the finitely many registry entries — that bounds the
syntactic depth of every pattern the resolver can reach through a reference, whatever the arguments.  This is
the hypothesis `hS` of `C06.format_total` / `C06.fuel_sufficient`, now a theorem. -/
theorem depth_bound_exists (b : Bundle) :
    ∃ S, S = regDepth b.reg ∧ ∀ args p, Reach (b.env args) p → depthPat p ≤ S :=
  ⟨_, rfl, fun _ _ h => reach_depth h⟩

/-- the pattern `Bundle.format` starts from is within the same bound -/
theorem start_depth (b : Bundle) (id : Bytes) (attr : Option Bytes) (p : Pattern Bytes)
    (h : b.pattern id attr = some p) : depthPat p ≤ regDepth b.reg :=
  reach_depth (pattern_reach h none)

/-! ## 3. formatting is total, the same through both APIs and at every sufficient fuel -/

theorem three_le_fuelBound (S : Nat) : 3 ≤ fuelBound S := by
  unfold fuelBound; rw [Nat.succ_mul]; omega

/-- **format_total_e2e, for a given bundle.**  Let `b` be any bundle whose plural rules are total, `p` the
value / attribute `Bundle.pattern` finds, `F = fuelBound (regDepth b.reg)`.  There is ONE result `(w, errs)` such
that for every `fuel ≥ F` both `format_pattern` and `write_pattern` return exactly `.ok (w, errs)` — never
`.panic`, never `.fuel`, the same through both APIs (C08) and independent of the fuel (C06 `fuel_irrelevant`) —
with `TooManyPlaceables` at most once in `errs`; and if `F` is at most the constant the `fmt` driver passes,
`Bundle.format` / `Bundle.write` (which use that constant) answer that result. -/
theorem format_total_bundle (b : Bundle) (hcat : ∀ n, b.cfg.category n ≠ none)
    (id : Bytes) (attr : Option Bytes) (p : Pattern Bytes) (hp : b.pattern id attr = some p)
    (args : Option ArgList) :
    ∃ w errs,
      (∀ fuel, fuelBound (regDepth b.reg) ≤ fuel →
        formatPattern (b.env args) fuel p = .ok (w, errs) ∧
        writePatternTop (b.env args) fuel p = .ok (w, errs)) ∧
      errs.count RErr.tooManyPlaceables ≤ 1 ∧
      (fuelBound (regDepth b.reg) ≤ FluentModel.Drv.FmtDrv.resolverFuel →
        b.format id attr args = some (.ok (w, errs)) ∧ b.write id attr args = some (.ok (w, errs))) := by
  have hmax := FluentProofs.C06.maxPlaceables_le_254
  have hS : ∀ q, Reach (b.env args) q → depthPat q ≤ regDepth b.reg := fun _ h => reach_depth h
  obtain ⟨⟨w, errs, hF⟩, ⟨w', errs', hW⟩⟩ :=
    FluentProofs.C06.format_total hmax (b.env args) hcat (regDepth b.reg) hS p (start_depth b id attr p hp)
      (fuelBound (regDepth b.reg)) (Nat.le_refl _)
  have heq := FluentProofs.C08.format_eq_write (b.env args) _ p (three_le_fuelBound (regDepth b.reg))
  rw [hF, hW] at heq
  cases heq
  have hall : ∀ fuel, fuelBound (regDepth b.reg) ≤ fuel →
      formatPattern (b.env args) fuel p = .ok (w, errs) ∧ writePatternTop (b.env args) fuel p = .ok (w, errs) := by
    intro fuel hle
    have hi := FluentProofs.C06.fuel_irrelevant (b.env args) _ fuel hle p
    constructor
    · rw [hi.1 (by rw [hF]; intro h; cases h), hF]
    · rw [hi.2 (by rw [hW]; intro h; cases h), hW]
  refine ⟨w, errs, hall, FluentProofs.C06.too_many_reported_at_most_once hmax _ _ p w errs hF, fun hle => ?_⟩
  have := hall _ hle
  simp only [Bundle.format, Bundle.write, hp, Option.map_some, Bundle.resolverFuel]
  exact ⟨congrArg some this.1, congrArg some this.2⟩

/-- **format_total_e2e.**  For EVERY list of `String` sources, EVERY configuration whose plural rules are total,
EVERY message id / attribute that is present and EVERY argument list: loading succeeds (1.), the depth bound
`S = regDepth b.reg` exists (2.), and with `F = fuelBound S` there is one `(w, errs)` that `format_pattern` and
`write_pattern` both return at every `fuel ≥ F` (no panic, no fuel exhaustion, fuel-independent, APIs agree),
with `TooManyPlaceables` at most once; if `F ≤ FmtDrv.resolverFuel` it is the driver's answer. -/
theorem format_total_e2e (cfg : BundleCfg) (hcat : ∀ n, cfg.category n ≠ none) (srcs : List (Bool × String)) :
    ∃ b, Bundle.ofSources cfg srcs = some b ∧ ∃ F, F = fuelBound (regDepth b.reg) ∧
      ∀ (id : Bytes) (attr : Option Bytes) (p : Pattern Bytes), b.pattern id attr = some p →
      ∀ args : Option ArgList, ∃ w errs,
        (∀ fuel, F ≤ fuel →
          formatPattern (b.env args) fuel p = .ok (w, errs) ∧
          writePatternTop (b.env args) fuel p = .ok (w, errs)) ∧
        errs.count RErr.tooManyPlaceables ≤ 1 ∧
        (F ≤ FluentModel.Drv.FmtDrv.resolverFuel →
          b.format id attr args = some (.ok (w, errs)) ∧ b.write id attr args = some (.ok (w, errs))) := by
  obtain ⟨b, hb, hcfg, _⟩ := bundle_of_sources_total cfg srcs
  refine ⟨b, hb, _, rfl, fun id attr p hp args => ?_⟩
  exact format_total_bundle b (by rw [hcfg]; exact hcat) id attr p hp args

/-- uniqueness form: whatever `format_pattern` returns at ANY fuel that is not `.fuel` is that result (so "the
result of formatting" is well defined without mentioning fuel) -/
theorem format_result_unique (b : Bundle) (hcat : ∀ n, b.cfg.category n ≠ none)
    (id : Bytes) (attr : Option Bytes) (p : Pattern Bytes) (hp : b.pattern id attr = some p)
    (args : Option ArgList) (n : Nat) (hn : formatPattern (b.env args) n p ≠ .fuel) :
    formatPattern (b.env args) n p = formatPattern (b.env args) (max n (fuelBound (regDepth b.reg))) p ∧
    ∃ w errs, formatPattern (b.env args) n p = .ok (w, errs) := by
  obtain ⟨w, errs, hall, _, _⟩ := format_total_bundle b hcat id attr p hp args
  have h1 := (FluentProofs.C06.fuel_irrelevant (b.env args) n _ (Nat.le_max_left n (fuelBound (regDepth b.reg))) p).1 hn
  refine ⟨h1.symm, w, errs, ?_⟩
  rw [← h1]; exact (hall _ (Nat.le_max_right _ _)).1

/-! ## 4. the output is bounded by an explicit function of the loaded sources and the arguments -/

/-- `M`: the largest text / literal / error-token size over the (finite) registry — `regNeed`, a computable
function of the bundle, i.e. of `cfg` and `srcs` -/
def boundM (b : Bundle) (args : Option ArgList) : Nat := regNeed b args

/-- `E`: at least `M`, the largest printed caller argument (`argsE`), and `A` (what functions print) -/
def boundE (b : Bundle) (args : Option ArgList) (A : Nat) : Nat :=
  max (regNeed b args) (max (argsE (b.env args) args) A)

/-- **format_bounded_e2e, for a given bundle.**  If every named argument of a term call in the bundle is a
literal (`regLit`, decidable; the grammar allows nothing else) and every registered function prints at most `A`
bytes, then with `M = boundM b args`, `E = boundE b args A` every output of `format_pattern` / `write_pattern`
on a pattern of the bundle, at any fuel, has at most `M + (maxPlaceables + 1) * (2 * M + E + 6)` bytes.  The
hypotheses `hReach`, `hArgs`, `hFn`, `hp` of `C06.output_bound` are discharged from the finite registry. -/
theorem format_bounded_bundle (b : Bundle) (hlit : regLit b.reg = true) (args : Option ArgList) (A : Nat)
    (hFn : ∀ id f, (b.env args).fn id = some f → ∀ rp rn, (valueString (b.env args) (f rp rn)).length ≤ A)
    (id : Bytes) (attr : Option Bytes) (p : Pattern Bytes) (hp : b.pattern id attr = some p)
    (fuel : Nat) (w : Bytes) (errs : List RErr) :
    (formatPattern (b.env args) fuel p = .ok (w, errs) →
      w.length ≤ boundM b args + (Generated.maxPlaceables + 1) * (2 * boundM b args + boundE b args A + 6)) ∧
    (writePatternTop (b.env args) fuel p = .ok (w, errs) →
      w.length ≤ boundM b args + (Generated.maxPlaceables + 1) * (2 * boundM b args + boundE b args A + 6)) := by
  have hM : regNeed b args ≤ boundM b args := Nat.le_refl _
  have hE : regNeed b args ≤ boundE b args A := Nat.le_max_left _ _
  exact FluentProofs.C06.output_bound FluentProofs.C06.maxPlaceables_le_254 (b.env args) (boundM b args) (boundE b args A)
    (fun q hq => reach_okPat hlit hM hE hq)
    (fun k v h => Nat.le_trans (args_small (b.env args) args k v h)
      (Nat.le_trans (Nat.le_max_left _ _) (Nat.le_max_right _ _)))
    (fun id f rp rn h => Nat.le_trans (hFn id f h rp rn)
      (Nat.le_trans (Nat.le_max_right _ _) (Nat.le_max_right _ _)))
    p (reach_okPat hlit hM hE (pattern_reach hp args)) fuel w errs

/-- **format_bounded_e2e.**  For EVERY list of `String` sources and EVERY configuration with total plural rules
the bundle loads, and — provided its term calls pass only literal named arguments (`regLit`) and the configured
functions print at most `A` bytes — for every present message id / attribute and every argument list the one
result `(w, errs)` of `format_total_e2e` (returned by both APIs at every fuel `≥ fuelBound (regDepth b.reg)`)
satisfies `|w| ≤ M + (maxPlaceables + 1) * (2 * M + E + 6)` with `M = boundM b args`, `E = boundE b args A`:
explicit functions of the loaded sources, the configuration and the arguments, linear in the largest pattern,
the largest argument and the limit — no multiplicative blow-up through reference chains. -/
theorem format_bounded_e2e (cfg : BundleCfg) (hcat : ∀ n, cfg.category n ≠ none) (srcs : List (Bool × String)) :
    ∃ b, Bundle.ofSources cfg srcs = some b ∧
      (regLit b.reg = true → ∀ (args : Option ArgList) (A : Nat),
        (∀ nf ∈ cfg.functions, ∀ rp rn, (valueString (b.env args) (nf.2 rp rn)).length ≤ A) →
        ∀ (id : Bytes) (attr : Option Bytes) (p : Pattern Bytes), b.pattern id attr = some p →
        ∃ w errs,
          (∀ fuel, fuelBound (regDepth b.reg) ≤ fuel →
            formatPattern (b.env args) fuel p = .ok (w, errs) ∧
            writePatternTop (b.env args) fuel p = .ok (w, errs)) ∧
          w.length ≤ boundM b args + (Generated.maxPlaceables + 1) * (2 * boundM b args + boundE b args A + 6)) := by
  obtain ⟨b, hb, hcfg, _, _, _, hfn⟩ := bundle_of_sources_total cfg srcs
  refine ⟨b, hb, fun hlit args A hA id attr p hp => ?_⟩
  obtain ⟨w, errs, hall, _, _⟩ := format_total_bundle b (by rw [hcfg]; exact hcat) id attr p hp args
  refine ⟨w, errs, hall, ?_⟩
  exact (format_bounded_bundle b hlit args A
    (fun id f h rp rn => hA (id, f) (hfn args id f h) rp rn) id attr p hp _ w errs).1 (hall _ (Nat.le_refl _)).1

/-- total size in bytes of the sources -/
def srcBytes (srcs : List (Bool × String)) : Nat := (srcs.map fun s => (srcOf s.2).size).sum

/-- OPEN (stated, not proved): the bound is linear in the size of the sources.  For parser-produced bundles the
literal check always passes and — when the transform, `unescape` and number printing do not expand their
input — `M` is at most the total byte length of the sources (+ a constant).  This needs two facts about the
parser that are not Lean theorems in this development: named arguments are literals
(`get_inline_expression(only_literal = true)`) and the spans of one entry are pairwise disjoint. -/
def format_bounded_linear_statement : Prop :=
  ∀ (cfg : BundleCfg) (srcs : List (Bool × String)) (b : Bundle), Bundle.ofSources cfg srcs = some b →
    regLit b.reg = true ∧
    ((∀ f, cfg.transform = some f → ∀ v, (f v).length ≤ v.length) →
     (∀ v, (cfg.unescape v).length ≤ v.length) →
     (∀ args v, (valueString (b.env args) (cfg.tryNumber v)).length ≤ v.length) →
     ∀ args, boundM b args ≤ srcBytes srcs + 8)

/-! ## tests (`decide +kernel` on literals: non-vacuity witnesses, not the unbounded claim) -/
section tests

def tCfg : BundleCfg where
  useIsolating := false
  transform := none
  formatter := none
  functions := []
  category := fun _ => some .other
  unescape := id
  tryNumber := fun v => .str v
  customStr := id

/-- two messages referring to each other -/
def cycSrc : List (Bool × String) := [(false, "a = x { b }\nb = y { a }\n")]

/-- test: the two-message cyclic source loads into a registry of two messages of depth 5, the sufficient fuel
`fuelBound 5` is below the driver's constant, and `a` formats to `x y {a}` with exactly the error `Cyclic`
through both APIs — at the sufficient fuel and at the driver's fuel -/
example :
    (match Bundle.ofSources tCfg cycSrc with
     | some b =>
       b.reg.length == 2 && regDepth b.reg == 5 &&
       decide (fuelBound (regDepth b.reg) ≤ FluentModel.Drv.FmtDrv.resolverFuel) &&
       (match b.format [97] none none (fuelBound (regDepth b.reg)), b.write [97] none none (fuelBound (regDepth b.reg)) with
        | some (.ok (w, errs)), some (.ok (w', errs')) =>
          w == [120, 32, 121, 32, 123, 97, 125] && errs == [RErr.cyclic] && w' == w && errs' == errs
        | _, _ => false)
     | none => false) = true := by decide +kernel

/-- test: with less fuel than the nesting needs the model does report `.fuel` (the bound is not vacuous) -/
example :
    (match Bundle.ofSources tCfg cycSrc with
     | some b => (match b.format [97] none none 6 with | some .fuel => true | _ => false)
     | none => false) = true := by decide +kernel

/-- test: `add_resource` keeps the first `a`, `add_resource_overriding` replaces it; a missing id gives `none` -/
example :
    (match Bundle.ofSources tCfg [(false, "a = 1\n"), (false, "a = 2\n-t = 3\n"), (true, "t = 4\n")] with
     | some b =>
       (match b.format [97] none none, b.format [116] none none, b.format [122] none none with
        | some (.ok (w, [])), some (.ok (w', [])), none => w == [49] && w' == [52]
        | _, _, _ => false)
     | none => false) = true := by decide +kernel

/-- a term called with a literal named argument, and a caller argument -/
def termSrc : List (Bool × String) := [(false, "-t = v { $n } w\na = { -t(n: 12345) } and { $x }\n")]
def termArgs : Option ArgList := some (ArgList.ofPairs [([120], .str [65, 66, 67, 68, 69, 70, 71, 72, 73, 74, 75, 76])])

/-- test: on that bundle the literal check passes, `M = 5` (`v ` + ` w`, `12345`, `{$n}`, `{-t}`), `E = 12` (the
argument `x`), the sources have 48 bytes, and `a` formats to the 26 bytes `v 12345 w and ABCDEFGHIJKL` —
within `M + (maxPlaceables + 1) * (2 * M + E + 6)` -/
example :
    (match Bundle.ofSources tCfg termSrc with
     | some b =>
       regLit b.reg && boundM b termArgs == 5 && boundE b termArgs 0 == 12 && srcBytes termSrc == 48 &&
       (match b.format [97] none termArgs with
        | some (.ok (w, errs)) =>
          w.length == 26 && errs.isEmpty &&
          decide (w.length ≤ boundM b termArgs + (Generated.maxPlaceables + 1) * (2 * boundM b termArgs + boundE b termArgs 0 + 6))
        | _ => false)
     | none => false) = true := by decide +kernel

/-- test: a non-literal named argument never reaches the bundle — the parser turns `a` into Junk, only `-t` loads -/
example :
    (match Bundle.ofSources tCfg [(false, "-t = v\na = { -t(n: $x) }\n")] with
     | some b => b.reg.length == 1 && regLit b.reg && (b.pattern [97] none).isNone
     | none => false) = true := by decide +kernel

/-- test: the hypotheses of `format_total_e2e` / `format_bounded_e2e` are satisfiable — instantiated on `termSrc`
(`regLit` by evaluation, no functions configured) -/
example : ∃ b, Bundle.ofSources tCfg termSrc = some b ∧
    ∀ p, b.pattern [97] none = some p → ∃ w errs,
      (∀ fuel, fuelBound (regDepth b.reg) ≤ fuel →
        formatPattern (b.env termArgs) fuel p = .ok (w, errs) ∧ writePatternTop (b.env termArgs) fuel p = .ok (w, errs)) ∧
      w.length ≤ boundM b termArgs + (Generated.maxPlaceables + 1) * (2 * boundM b termArgs + boundE b termArgs 0 + 6) := by
  obtain ⟨b, hb, H⟩ := format_bounded_e2e tCfg (fun _ => by simp [tCfg]) termSrc
  have hl : (Bundle.ofSources tCfg termSrc).all (fun b => regLit b.reg) = true := by decide +kernel
  rw [hb] at hl
  exact ⟨b, hb, fun p hp => H hl termArgs 0 (fun nf h => by cases h) [97] none p hp⟩

end tests
end FluentProofs.E2E
