import FluentProofs.SerializerOutShape2
import FluentProofs.SerializerML
/-!
# Serializer lemmas, part 19: the text elements `finishElements` cuts out of the source (C04)

Byte-level facts about `spanBytes s ⟨a, b⟩` for the kinds of text placeholders of `okPh`:
they are `mlTextOK`, their leading spaces / first content byte / last byte are what the class asks for.
-/
namespace FluentProofs.Ser
open FluentModel FluentModel.Syntax FluentModel.Syntax.Ser FluentProofs.Parser

theorem spanBytes_length (s : Src) (a b : Nat) (hb : b ≤ s.size) : (spanBytes s ⟨a, b⟩).length = b - a := by
  simp [spanBytes]; omega

theorem spanBytes_get' {s : Src} {a b i : Nat} (hb : b ≤ s.size) (hi : i < b - a) :
    (spanBytes s ⟨a, b⟩)[i]? = s[a + i]? := by
  rw [spanBytes_get]
  have : i < min b s.size - a := by omega
  simp [this]

theorem spanBytes_ne_nil {s : Src} {a b : Nat} (hab : a < b) (hb : b ≤ s.size) : spanBytes s ⟨a, b⟩ ≠ [] := by
  intro h
  have := spanBytes_length s a b hb
  rw [h] at this; simp at this; omega

theorem spanBytes_getLast {s : Src} {a b : Nat} (hab : a < b) (hb : b ≤ s.size) :
    (spanBytes s ⟨a, b⟩).getLast? = s[b - 1]? := by
  rw [List.getLast?_eq_getElem?, spanBytes_length s a b hb, spanBytes_get' hb (by omega)]
  congr 1; omega

theorem spanBytes_head {s : Src} {a b : Nat} (hab : a < b) (hb : b ≤ s.size) :
    (spanBytes s ⟨a, b⟩).head? = s[a]? := by
  rw [List.head?_eq_getElem?, spanBytes_get' hb (by omega)]; rfl

theorem spanBytes_dropLast {s : Src} {a b : Nat} (hb : b ≤ s.size) :
    (spanBytes s ⟨a, b⟩).dropLast = spanBytes s ⟨a, b - 1⟩ := by
  apply List.ext_getElem?
  intro i
  rw [List.getElem?_dropLast, spanBytes_length s a b hb, spanBytes_get, spanBytes_get]
  by_cases h : i < b - a - 1
  · have h1 : i < min b s.size - a := by omega
    have h2 : i < min (b - 1) s.size - a := by omega
    simp [h, h1, h2]
  · have h2 : ¬ i < min (b - 1) s.size - a := by omega
    simp [h, h2]

theorem spanBytes_spaces {s : Src} {a m : Nat} (hm : m ≤ s.size) (h : ∀ j, a ≤ j → j < m → s[j]? = some 32) :
    spanBytes s ⟨a, m⟩ = spacesL (m - a) := by
  apply List.ext_getElem?
  intro i
  rw [spanBytes_get]
  by_cases hi : i < m - a
  · have h1 : i < min m s.size - a := by omega
    simp [h1, spacesL, hi, h (a + i) (by omega) (by omega)]
  · have h1 : ¬ i < min m s.size - a := by omega
    simp [h1, spacesL]; omega

/-- `mlTextOK` of a slice of well-behaved text bytes -/
theorem mlTextOK_span {s : Src} {a b a' t : Nat} (hT : TextBytes s a b) (h1 : a ≤ a') (h2 : a' < t) (h3 : t ≤ b) :
    mlTextOK (spanBytes s ⟨a', t⟩) = true := by
  obtain ⟨hb, hc, hn, hcr⟩ := hT
  have ht : t ≤ s.size := by omega
  simp only [mlTextOK, Bool.and_eq_true, Bool.not_eq_true', List.isEmpty_eq_false_iff]
  refine ⟨⟨⟨spanBytes_ne_nil h2 ht, ?_⟩, ?_⟩, ?_⟩
  · apply spanBytes_all
    intro j j1 j2 x hx
    have := hc j (by omega) (by omega)
    rw [hx] at this
    simp only [ne_eq, Option.some.injEq] at this
    simp [this.1, this.2]
  · rw [spanBytes_dropLast ht]
    apply spanBytes_all
    intro j j1 j2 x hx
    have := hn j (by omega) (by omega)
    rw [hx] at this
    simp only [ne_eq, Option.some.injEq] at this
    simp [this]
  · cases hce : crlfEnd (spanBytes s ⟨a', t⟩) with
    | false => rfl
    | true =>
      exfalso
      simp only [crlfEnd, Bool.and_eq_true, beq_iff_eq] at hce
      obtain ⟨e1, e2⟩ := hce
      rw [spanBytes_getLast h2 ht] at e1
      rw [spanBytes_dropLast ht] at e2
      by_cases h4 : a' < t - 1
      · rw [spanBytes_getLast h4 (by omega)] at e2
        have := hcr (t - 1 - 1) (by omega) (by omega) e2
        rw [show t - 1 - 1 + 1 = t - 1 by omega] at this
        exact this e1
      · rw [spanBytes_nil (by omega)] at e2
        simp at e2

theorem mlTextOK_spaces (k : Nat) (hk : 0 < k) : mlTextOK (spacesL k) = true := by
  simp only [mlTextOK, Bool.and_eq_true, Bool.not_eq_true', List.isEmpty_eq_false_iff, List.all_eq_true]
  refine ⟨⟨⟨?_, ?_⟩, ?_⟩, ?_⟩
  · intro h; have : (spacesL k).length = 0 := by rw [h]; rfl
    simp [spacesL] at this; omega
  · intro x hx; simp [spacesL] at hx; rw [hx.2]; decide
  · intro x hx
    have := List.dropLast_subset _ hx
    simp [spacesL] at this; rw [this.2]; decide
  · cases hcr : crlfEnd (spacesL k) with
    | false => rfl
    | true =>
      obtain ⟨pre, hpre⟩ := (crlfEnd_iff _).mp hcr
      have : (13 : UInt8) ∈ spacesL k := by rw [hpre]; simp
      simp [spacesL] at this

theorem endsNl_span {s : Src} {a b : Nat} (hab : a < b) (hb : b ≤ s.size) :
    endsNl (spanBytes s ⟨a, b⟩) = endsLF s b := by
  simp [endsNl, endsLF, spanBytes_getLast hab hb]

theorem endsNl_spaces (k : Nat) : endsNl (spacesL k) = false := by
  simp only [endsNl, beq_eq_false_iff_ne, ne_eq]
  intro h
  have := List.mem_of_getLast? h
  simp [spacesL] at this

/-- a text that consists of `k` spaces and then a non-space byte -/
theorem span_split {s : Src} {a m t : Nat} {c : UInt8} (hsp : ∀ j, a ≤ j → j < m → s[j]? = some 32)
    (hc : s[m]? = some c) (ham : a ≤ m) (hmt : m < t) (ht : t ≤ s.size) :
    spanBytes s ⟨a, t⟩ = spacesL (m - a) ++ c :: spanBytes s ⟨m + 1, t⟩ := by
  rw [spanBytes_append ham (Nat.le_of_lt hmt) (by omega), spanBytes_spaces (by omega) hsp, spanBytes_cons hc hmt]

theorem dropWhile_spaces_cons (k : Nat) (c : UInt8) (X : Bytes) (hc : c ≠ 32) :
    (spacesL k ++ c :: X).dropWhile (fun b => b == 32) = c :: X := by
  rw [List.dropWhile_append_of_pos (by intro a ha; simp [spacesL] at ha; simp [ha.2])]
  simp [hc]

theorem leadSpaces_spaces_cons (k : Nat) (c : UInt8) (X : Bytes) (hc : c ≠ 32) :
    leadSpaces (spacesL k ++ c :: X) = k := by
  unfold leadSpaces
  rw [List.takeWhile_append_of_pos (by intro a ha; simp [spacesL] at ha; simp [ha.2])]
  simp [hc, spacesL]

theorem takeWhile_spacesL (k : Nat) : (spacesL k).takeWhile (fun b => b == 32) = spacesL k := by
  induction k with
  | zero => rfl
  | succ k ih => simp only [spacesL, List.replicate_succ] at ih ⊢; simp [ih]

theorem leadSpaces_spaces (k : Nat) : leadSpaces (spacesL k) = k := by
  unfold leadSpaces
  rw [takeWhile_spacesL]; simp [spacesL]

theorem dropWhile_spaces (k : Nat) : (spacesL k).dropWhile (fun b => b == 32) = [] := by
  induction k with
  | zero => rfl
  | succ k ih => simp only [spacesL, List.replicate_succ] at ih ⊢; simp [ih]

/-- the last byte `trim` keeps -/
theorem trimEndGo_last (s : Src) (start : Nat) : ∀ (n e : Nat), e - start ≤ n → e ≤ s.size →
    start < trimEndGo s start n e →
    ∃ x, s[trimEndGo s start n e - 1]? = some x ∧ x ≠ 32 ∧ x ≠ 10 ∧ x ≠ 13 := by
  intro n
  induction n with
  | zero => intro e h1 _ h3; simp only [trimEndGo] at h3; omega
  | succ n ih =>
    intro e h1 h2 h3
    rw [trimEndGo] at h3 ⊢
    by_cases he : e > start
    · simp only [he, if_true] at h3 ⊢
      have hlt : e - 1 < s.size := by omega
      have hsome : s[e - 1]? = some s[e - 1] := by simp [hlt]
      rw [hsome] at h3 ⊢
      simp only [] at h3 ⊢
      split
      · rename_i hc
        exact ih (e - 1) (by omega) (by omega) (by simpa [hc] using h3)
      · rename_i hc
        refine ⟨_, hsome, ?_⟩
        simp only [Bool.or_eq_true, beq_iff_eq, not_or] at hc
        exact ⟨hc.1.1, hc.2, hc.1.2⟩
    · simp only [he, if_false] at h3

end FluentProofs.Ser
