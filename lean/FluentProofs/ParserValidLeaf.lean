import FluentProofs.ParserValid
import FluentProofs.ParserLines
namespace FluentProofs.Parser
open FluentModel FluentModel.Syntax

/-! ### `spanBytes` as a list of source bytes -/

theorem spanBytes_get (s : Src) (p q i : Nat) :
    (spanBytes s ⟨p, q⟩)[i]? = if i < min q s.size - p then s[p + i]? else none := by
  simp only [spanBytes, Array.getElem?_toList, Array.getElem?_extract]

theorem spanBytes_nil {s : Src} {p q : Nat} (h : q ≤ p) : spanBytes s ⟨p, q⟩ = [] := by
  apply List.ext_getElem?
  intro i
  rw [spanBytes_get]
  have : ¬ i < min q s.size - p := by omega
  simp [this]

theorem spanBytes_cons {s : Src} {p q : Nat} {b : UInt8} (hb : s[p]? = some b) (h : p < q) :
    spanBytes s ⟨p, q⟩ = b :: spanBytes s ⟨p + 1, q⟩ := by
  have hlt := get_lt hb
  apply List.ext_getElem?
  intro i
  rw [spanBytes_get]
  cases i with
  | zero =>
    have : 0 < min q s.size - p := by omega
    simp [this, hb]
  | succ i =>
    simp only [List.getElem?_cons_succ, spanBytes_get]
    have e : p + (i + 1) = p + 1 + i := by omega
    rw [e]
    by_cases hc : i + 1 < min q s.size - p
    · have : i < min q s.size - (p + 1) := by omega
      simp [hc, this]
    · have : ¬ i < min q s.size - (p + 1) := by omega
      simp [hc, this]

theorem spanBytes_append {s : Src} {p m q : Nat} (h1 : p ≤ m) (h2 : m ≤ q) (hm : m ≤ s.size) :
    spanBytes s ⟨p, q⟩ = spanBytes s ⟨p, m⟩ ++ spanBytes s ⟨m, q⟩ := by
  induction hk : m - p generalizing p with
  | zero =>
    have : m = p := by omega
    subst this
    rw [spanBytes_nil (Nat.le_refl _)]; rfl
  | succ k ih =>
    have hp : p < s.size := by omega
    have hb : s[p]? = some s[p] := Array.getElem?_eq_getElem hp
    rw [spanBytes_cons hb (by omega), spanBytes_cons hb (by omega), ih (by omega) (by omega)]
    rfl

theorem spanBytes_all {s : Src} {p q : Nat} {f : UInt8 → Bool}
    (h : ∀ j, p ≤ j → j < q → ∀ b, s[j]? = some b → f b = true) : (spanBytes s ⟨p, q⟩).all f = true := by
  rw [List.all_eq_true]
  intro x hx
  obtain ⟨i, hi, rfl⟩ := List.mem_iff_getElem.mp hx
  have := spanBytes_get s p q i
  rw [List.getElem?_eq_getElem hi] at this
  split at this
  · exact h (p + i) (by omega) (by omega) _ this.symm
  · cases this

/-! ### scanning loops: what lies between the start and the stop -/

theorem scanWhileGo_range (s : Src) (pred : UInt8 → Bool) (n p : Nat) :
    ∀ j, p ≤ j → j < scanWhileGo s pred n p → ∀ b, s[j]? = some b → pred b = true := by
  induction n generalizing p with
  | zero => intro j h1 h2; simp only [scanWhileGo] at h2; omega
  | succ n ih =>
    intro j h1 h2 b hb
    simp only [scanWhileGo] at h2
    split at h2
    · split at h2
      · rename_i c hc hp
        by_cases hj : j = p
        · subst hj; rw [hc] at hb; cases hb; exact hp
        · exact ih (p + 1) j (by omega) h2 b hb
      · omega
    · omega

theorem scanWhile_range (s : Src) (pred : UInt8 → Bool) (p : Nat) :
    ∀ j, p ≤ j → j < scanWhile s pred p → ∀ b, s[j]? = some b → pred b = true :=
  scanWhileGo_range s pred _ p

theorem skipHexGo_range (s : Src) (n p : Nat) :
    skipHexGo s n p ≤ p + n ∧ ∀ j, p ≤ j → j < skipHexGo s n p → ∃ b, s[j]? = some b ∧ isHexDigit b = true := by
  induction n generalizing p with
  | zero => exact ⟨by simp [skipHexGo], fun j h1 h2 => by simp only [skipHexGo] at h2; omega⟩
  | succ n ih =>
    simp only [skipHexGo]
    split
    · split
      · rename_i c hc hp
        have := ih (p + 1)
        refine ⟨by omega, ?_⟩
        intro j h1 h2
        by_cases hj : j = p
        · subst hj; exact ⟨c, hc, hp⟩
        · exact this.2 j (by omega) h2
      · exact ⟨by omega, fun j h1 h2 => by omega⟩
    · exact ⟨by omega, fun j h1 h2 => by omega⟩

/-- a successful `skip_unicode_escape_sequence(len)` consumed exactly `len` hex digits -/
theorem skipUnicodeEscapeSequence_ok {s : Src} {p len q : Nat} (h : skipUnicodeEscapeSequence s p len = .ok () q) :
    q = p + len ∧ ∀ j, p ≤ j → j < p + len → ∃ b, s[j]? = some b ∧ isHexDigit b = true := by
  unfold skipUnicodeEscapeSequence at h
  simp only [] at h
  split at h
  · split at h <;> cases h
  · rename_i hc
    cases h
    have hc : skipHexGo s len p - p = len := by simpa using hc
    have := skipHexGo_range s len p
    have hle := (skipHexGo_after s len p).le
    have e : skipHexGo s len p = p + len := by omega
    rw [e] at this ⊢
    exact ⟨rfl, this.2⟩

theorem memchr3Go_range {s : Src} {n p : Nat} :
    (∀ e, memchr3Go s n p = some e → ∀ j, p ≤ j → j < e → ∀ b, s[j]? = some b → noBrace b = true) ∧
    (memchr3Go s n p = none → s.size ≤ p + n → ∀ j, p ≤ j → ∀ b, s[j]? = some b → noBrace b = true) := by
  induction n generalizing p with
  | zero =>
    refine ⟨fun e h => (by simp [memchr3Go] at h), ?_⟩
    intro _ hn j hj b hb
    have := get_lt hb; omega
  | succ n ih =>
    simp only [memchr3Go]
    split
    · rename_i h0
      refine ⟨fun e h => (by cases h), ?_⟩
      intro _ _ j hj b hb
      have := get_lt hb
      have : s.size ≤ p := by simpa using h0
      omega
    · rename_i c hc
      split
      · rename_i hm
        refine ⟨?_, fun h => by cases h⟩
        intro e he j h1 h2
        cases he; omega
      · rename_i hm
        have hnb : noBrace c = true := by
          simp only [Bool.or_eq_true, beq_iff_eq, not_or] at hm
          simp [noBrace, hm.1.2, hm.2]
        have := ih (p := p + 1)
        refine ⟨?_, ?_⟩
        · intro e he j h1 h2 b hb
          by_cases hj : j = p
          · subst hj; rw [hc] at hb; cases hb; exact hnb
          · exact this.1 e he j (by omega) h2 b hb
        · intro he hn j h1 b hb
          by_cases hj : j = p
          · subst hj; rw [hc] at hb; cases hb; exact hnb
          · exact this.2 he (by omega) j (by omega) b hb

/-- the text slice `start..stop` contains no brace (and the recorded start is the cursor) -/
theorem getTextSlice_noBrace {s : Src} {p start stop : Nat} {nb : Bool} {term : Termination} {q : Nat}
    (h : getTextSlice s p = .ok (start, stop, nb, term) q) :
    start = p ∧ p ≤ stop ∧ ∀ j, p ≤ j → j < stop → ∀ b, s[j]? = some b → noBrace b = true := by
  unfold getTextSlice at h
  split at h
  · cases h; exact ⟨rfl, Nat.le_refl _, fun j h1 h2 => by omega⟩
  · rename_i hps
    split at h
    · rename_i hm
      cases h
      exact ⟨rfl, by omega, fun j h1 _ => (memchr3Go_range (s := s)).2 hm (by omega) j h1⟩
    · rename_i e hm
      have hr := (memchr3Go_range (s := s)).1 e hm
      have hpe := (memchr3Go_some hm).1
      split at h
      · cases h
      · rename_i h10
        split at h
        · rename_i hc
          cases h
          exact ⟨rfl, by omega, fun j h1 h2 => hr j h1 (by omega)⟩
        · cases h
          refine ⟨rfl, by omega, ?_⟩
          intro j h1 h2 b hb
          by_cases hj : j = e
          · subst hj; rw [h10] at hb; cases hb; decide
          · exact hr j h1 (by omega) b hb
      · cases h
        exact ⟨rfl, hpe, hr⟩
      · cases h

/-! ### identifiers -/

theorem getIdentifierUnchecked_identOk {s : Src} {p : Nat} {b : UInt8} {sp : Span} {q : Nat}
    (hb : s[p]? = some b) (ha : isAlpha b = true) (h : getIdentifierUnchecked s (p + 1) = .ok sp q) :
    identOk s sp = true := by
  unfold getIdentifierUnchecked at h
  simp only [usub, show 1 ≤ p + 1 by omega, if_true, Nat.add_sub_cancel] at h
  split at h
  · rename_i sp' hsl
    cases h
    obtain ⟨rfl, hv⟩ := slice_eq_some hsl
    have hle := scanWhile_le s isIdentByte (p + 1)
    unfold identOk
    rw [spanBytes_cons hb (by omega)]
    simp only [identBytesOk, ha, Bool.true_and]
    exact spanBytes_all (scanWhile_range s isIdentByte (p + 1))
  · cases h

theorem getIdentifier_identOk {s : Src} {p : Nat} {sp : Span} {q : Nat} (h : getIdentifier s p = .ok sp q) :
    identOk s sp = true := by
  unfold getIdentifier at h
  split at h
  · cases h
  · rename_i hc
    have hc : isIdentifierStart s p = true := by simpa using hc
    obtain ⟨b, hb, ha⟩ := (isIdentifierStart_iff s p).mp hc
    exact getIdentifierUnchecked_identOk hb ha h

theorem getAttributeAccessor_identOk {s : Src} {p : Nat} {o : Option Span} {q : Nat}
    (h : getAttributeAccessor s p = .ok o q) : optIdentOk s o = true := by
  unfold getAttributeAccessor at h
  rcases takeByteIf_cases s p 46 with ⟨ht, _⟩ | ⟨ht, _⟩ <;> rw [ht] at h <;> simp only [] at h
  · cases hr : getIdentifier s (p + 1) <;> simp only [hr] at h <;> try contradiction
    cases h
    exact getIdentifier_identOk hr
  · simp at h; cases h.1; rfl

/-! ### number literals -/

theorem takeDrop_digits (D T : List UInt8) (hD : D.all isDigit = true)
    (hT : T = [] ∨ ∃ c r, T = c :: r ∧ isDigit c = false) :
    (D ++ T).takeWhile isDigit = D ∧ (D ++ T).dropWhile isDigit = T := by
  induction D with
  | nil =>
    rcases hT with rfl | ⟨c, r, rfl, hc⟩
    · simp
    · simp [hc]
  | cons d D ih =>
    simp only [List.all_cons, Bool.and_eq_true] at hD
    have := ih hD.2
    simp [hD.1, this.1, this.2]

theorem isDigit_ne_45 : ∀ b : UInt8, isDigit b = true → (b == 45) = false := by
  apply forall_uint8; decide +kernel

theorem numBytesOk_intro (sign : Bool) (D T : List UInt8) (hne : D ≠ []) (hD : D.all isDigit = true)
    (hT : T = [] ∨ ∃ r2, T = 46 :: r2 ∧ r2 ≠ [] ∧ r2.all isDigit = true) :
    numBytesOk ((if sign then [45] else []) ++ D ++ T) = true := by
  have hT' : T = [] ∨ ∃ c r, T = c :: r ∧ isDigit c = false := by
    rcases hT with h | ⟨r2, h, _⟩
    · exact Or.inl h
    · exact Or.inr ⟨46, r2, h, by decide⟩
  have htd := takeDrop_digits D T hD hT'
  have hl1 : stripSign ((if sign then [45] else []) ++ D ++ T) = D ++ T := by
    cases sign with
    | true => simp [stripSign]
    | false =>
      cases D with
      | nil => exact (hne rfl).elim
      | cons d D' =>
        simp only [List.all_cons, Bool.and_eq_true] at hD
        simp [stripSign, isDigit_ne_45 d hD.1]
  unfold numBytesOk
  simp only [hl1, htd.1, htd.2]
  have : D.isEmpty = false := by cases D <;> simp_all
  simp only [this, Bool.not_false, Bool.true_and]
  rcases hT with rfl | ⟨r2, rfl, h2, h3⟩
  · rfl
  · have : r2.isEmpty = false := by cases r2 <;> simp_all
    simp [this, h3]

theorem skipDigits_ok {s : Src} {p q : Nat} (h : skipDigits s p = .ok () q) :
    p < q ∧ q = scanWhile s isDigit p := by
  unfold skipDigits at h
  simp only [] at h
  split at h
  · cases h
  · rename_i hne
    cases h
    have := scanWhile_le s isDigit p
    have hne : scanWhile s isDigit p ≠ p := by simpa using hne
    exact ⟨by omega, rfl⟩

theorem digits_span {s : Src} {p q : Nat} (h : skipDigits s p = .ok () q) :
    spanBytes s ⟨p, q⟩ ≠ [] ∧ (spanBytes s ⟨p, q⟩).all isDigit = true ∧ q ≤ s.size := by
  obtain ⟨h1, h2⟩ := skipDigits_ok h
  have hsz : q ≤ s.size := by
    by_cases hp : p ≤ s.size
    · rw [h2]; exact (scanWhile_after s isDigit isDigit_lt p).le_size hp
    · exfalso
      have : scanWhile s isDigit p = p := by
        unfold scanWhile
        have : s.size - p = 0 := by omega
        rw [this]; rfl
      omega
  have hb : s[p]? = some s[p] := Array.getElem?_eq_getElem (by omega)
  refine ⟨by rw [spanBytes_cons hb h1]; simp, ?_, hsz⟩
  subst h2
  exact spanBytes_all (scanWhile_range s isDigit p)

theorem getNumberLiteral_numOk {s : Src} {p : Nat} {sp : Span} {q : Nat} (h : getNumberLiteral s p = .ok sp q) :
    numOk s sp = true := by
  unfold getNumberLiteral at h
  -- the optional sign
  have hsign : ∃ sign : Bool, ∀ q', (takeByteIf s p 45).1 ≤ q' → q' ≤ s.size →
      spanBytes s ⟨p, q'⟩ = (if sign then [45] else []) ++ spanBytes s ⟨(takeByteIf s p 45).1, q'⟩ ∧
      p ≤ (takeByteIf s p 45).1 := by
    rcases takeByteIf_cases s p 45 with ⟨ht, hb⟩ | ⟨ht, _⟩ <;> rw [ht]
    · exact ⟨true, fun q' h1 h2 => ⟨by rw [spanBytes_cons hb h1]; rfl, by simp⟩⟩
    · exact ⟨false, fun q' h1 h2 => ⟨by simp, by simp⟩⟩
  obtain ⟨sign, hsign⟩ := hsign
  generalize takeByteIf s p 45 = t at h hsign
  obtain ⟨p1, d1⟩ := t
  simp only [] at h hsign
  rcases hr : skipDigits s p1 with ⟨u, p2⟩ | ⟨e, q0⟩ | m | _ <;> simp only [hr] at h <;> try contradiction
  have hD := digits_span hr
  have hlt := (skipDigits_ok hr).1
  rcases takeByteIf_cases s p2 46 with ⟨ht, hb⟩ | ⟨ht, _⟩ <;> rw [ht] at h <;> simp only [] at h
  · simp only [if_true] at h
    rcases hr2 : skipDigits s (p2 + 1) with ⟨u2, p4⟩ | ⟨e, q0⟩ | m | _ <;> simp only [hr2] at h <;> try contradiction
    have hD2 := digits_span hr2
    have hlt2 := (skipDigits_ok hr2).1
    split at h
    · rename_i sp' hsl
      injection h with e1 e2
      subst e1; subst e2
      obtain ⟨rfl, _⟩ := slice_eq_some hsl
      unfold numOk
      rw [(hsign p4 (by omega) hD2.2.2).1, spanBytes_append (Nat.le_of_lt hlt) (by omega) hD.2.2,
        spanBytes_cons hb (by omega), ← List.append_assoc]
      exact numBytesOk_intro sign _ _ hD.1 hD.2.1 (Or.inr ⟨_, rfl, hD2.1, hD2.2.1⟩)
    · cases h
  · simp only [Bool.false_eq_true, if_false] at h
    split at h
    · rename_i sp' hsl
      injection h with e1 e2
      subst e1; subst e2
      obtain ⟨rfl, _⟩ := slice_eq_some hsl
      unfold numOk
      rw [(hsign p2 (by omega) hD.2.2).1]
      have := numBytesOk_intro sign _ [] hD.1 hD.2.1 (Or.inl rfl)
      simpa using this
    · cases h

/-! ### string literals -/

theorem strBytesOk_bs (rest : List UInt8) : strBytesOk (92 :: 92 :: rest) = strBytesOk rest := by
  rw [strBytesOk.eq_def]; rfl
theorem strBytesOk_q (rest : List UInt8) : strBytesOk (92 :: 34 :: rest) = strBytesOk rest := by
  rw [strBytesOk.eq_def]; rfl
theorem strBytesOk_u (a b c d : UInt8) (rest : List UInt8) :
    strBytesOk (92 :: 117 :: a :: b :: c :: d :: rest) =
      (isHexDigit a && isHexDigit b && isHexDigit c && isHexDigit d && strBytesOk rest) := by
  rw [strBytesOk.eq_def]; rfl
theorem strBytesOk_U (a b c d e f : UInt8) (rest : List UInt8) :
    strBytesOk (92 :: 85 :: a :: b :: c :: d :: e :: f :: rest) =
      (isHexDigit a && isHexDigit b && isHexDigit c && isHexDigit d && isHexDigit e && isHexDigit f &&
        strBytesOk rest) := by
  rw [strBytesOk.eq_def]; rfl
theorem strBytesOk_plain (b : UInt8) (rest : List UInt8) (h1 : (b == 92) = false) (h2 : (b == 34) = false)
    (h3 : (b == 10) = false) : strBytesOk (b :: rest) = strBytesOk rest := by
  rw [strBytesOk.eq_def]; simp [h1, h2, h3]

theorem spanBytes_hex4 {s : Src} {p q : Nat} (hq : p + 4 ≤ q)
    (hh : ∀ j, p ≤ j → j < p + 4 → ∃ b, s[j]? = some b ∧ isHexDigit b = true) :
    ∃ h1 h2 h3 h4, spanBytes s ⟨p, q⟩ = h1 :: h2 :: h3 :: h4 :: spanBytes s ⟨p + 4, q⟩ ∧
      isHexDigit h1 = true ∧ isHexDigit h2 = true ∧ isHexDigit h3 = true ∧ isHexDigit h4 = true := by
  obtain ⟨b1, g1, x1⟩ := hh p (by omega) (by omega)
  obtain ⟨b2, g2, x2⟩ := hh (p + 1) (by omega) (by omega)
  obtain ⟨b3, g3, x3⟩ := hh (p + 2) (by omega) (by omega)
  obtain ⟨b4, g4, x4⟩ := hh (p + 3) (by omega) (by omega)
  refine ⟨b1, b2, b3, b4, ?_, x1, x2, x3, x4⟩
  rw [spanBytes_cons g1 (by omega), spanBytes_cons g2 (by omega), spanBytes_cons g3 (by omega),
    spanBytes_cons g4 (by omega)]

theorem scanStringGo_ok {s : Src} {n p q : Nat} (h : scanStringGo s n p = .ok () q) :
    p ≤ q ∧ strBytesOk (spanBytes s ⟨p, q⟩) = true := by
  induction n generalizing p with
  | zero =>
    simp only [scanStringGo] at h; cases h
    exact ⟨Nat.le_refl _, by rw [spanBytes_nil (Nat.le_refl _)]; rfl⟩
  | succ n ih =>
    have hnil : p ≤ p ∧ strBytesOk (spanBytes s ⟨p, p⟩) = true :=
      ⟨Nat.le_refl _, by rw [spanBytes_nil (Nat.le_refl _)]; rfl⟩
    simp only [scanStringGo] at h
    split at h
    · cases h; exact hnil
    · rename_i h0
      split at h
      · rename_i h1
        obtain ⟨i1, i2⟩ := ih h
        refine ⟨by omega, ?_⟩
        rw [spanBytes_cons h0 (by omega), spanBytes_cons h1 (by omega), strBytesOk_bs]
        exact i2
      · rename_i h1
        obtain ⟨i1, i2⟩ := ih h
        refine ⟨by omega, ?_⟩
        rw [spanBytes_cons h0 (by omega), spanBytes_cons h1 (by omega), strBytesOk_q]
        exact i2
      · rename_i h1
        rcases hr : skipUnicodeEscapeSequence s (p + 2) 4 with ⟨u, q'⟩ | ⟨e, q0⟩ | m | _ <;> simp only [hr] at h <;>
          try contradiction
        obtain ⟨e1, e2⟩ := skipUnicodeEscapeSequence_ok hr
        subst e1
        obtain ⟨i1, i2⟩ := ih h
        refine ⟨by omega, ?_⟩
        obtain ⟨a1, a2, a3, a4, ha, x1, x2, x3, x4⟩ := spanBytes_hex4 (q := q) (by omega) e2
        rw [spanBytes_cons h0 (by omega), spanBytes_cons h1 (by omega), ha, strBytesOk_u]
        simp [x1, x2, x3, x4, i2]
      · rename_i h1
        rcases hr : skipUnicodeEscapeSequence s (p + 2) 6 with ⟨u, q'⟩ | ⟨e, q0⟩ | m | _ <;> simp only [hr] at h <;>
          try contradiction
        obtain ⟨e1, e2⟩ := skipUnicodeEscapeSequence_ok hr
        subst e1
        obtain ⟨i1, i2⟩ := ih h
        refine ⟨by omega, ?_⟩
        obtain ⟨a1, a2, a3, a4, ha, x1, x2, x3, x4⟩ := spanBytes_hex4 (p := p + 2) (q := q) (by omega)
          (fun j j1 j2 => e2 j j1 (by omega))
        obtain ⟨g5, y5, x5⟩ := e2 (p + 2 + 4) (by omega) (by omega)
        obtain ⟨g6, y6, x6⟩ := e2 (p + 2 + 5) (by omega) (by omega)
        rw [spanBytes_cons h0 (by omega), spanBytes_cons h1 (by omega), ha, spanBytes_cons y5 (by omega),
          spanBytes_cons y6 (by omega), strBytesOk_U]
        simp [x1, x2, x3, x4, x5, x6, i2]
      · cases h
    · cases h; exact hnil
    · cases h
    · rename_i b n92 n34 n10 h0
      obtain ⟨i1, i2⟩ := ih h
      refine ⟨by omega, ?_⟩
      rw [spanBytes_cons h0 (by omega)]
      have b92 : (b == 92) = false := by
        cases hb : b == 92 <;> simp_all
      have b34 : (b == 34) = false := by
        cases hb : b == 34 <;> simp_all
      have b10 : (b == 10) = false := by
        cases hb : b == 10 <;> simp_all
      rw [strBytesOk_plain b _ b92 b34 b10]; exact i2

theorem scanString_ok {s : Src} {p q : Nat} (h : scanString s p = .ok () q) :
    p ≤ q ∧ strBytesOk (spanBytes s ⟨p, q⟩) = true := scanStringGo_ok h

/-! ### callee names, distinct argument names -/

theorem alpha_callee_upper : ∀ b : UInt8, isAlpha b = true → (isUpper b || isDigit b || b == 95 || b == 45) = true →
    isUpper b = true := by
  apply forall_uint8; decide +kernel

theorem calleeOk_of {s : Src} {id : Span} (hid : identOk s id = true) (hc : isCallee s id = true) :
    calleeOk s id = true := by
  unfold calleeOk
  unfold identOk at hid
  unfold isCallee at hc
  cases hb : spanBytes s id with
  | nil => rw [hb] at hid; cases hid
  | cons b rest =>
    rw [hb] at hid hc
    simp only [identBytesOk, Bool.and_eq_true] at hid
    simp only [List.all_cons, Bool.and_eq_true] at hc
    have := alpha_callee_upper b hid.1 hc.1
    simp [isCallee, hb, this, hc.2]

theorem namesDistinct_append {s : Src} (l : List Span) (x : Span) (h : namesDistinct s l = true)
    (hx : (l.any fun m => spanBytes s m == spanBytes s x) = false) : namesDistinct s (l ++ [x]) = true := by
  induction l with
  | nil => simp [namesDistinct]
  | cons n l ih =>
    simp only [namesDistinct, Bool.and_eq_true, Bool.not_eq_eq_eq_not, Bool.not_true] at h
    simp only [List.any_cons, Bool.or_eq_false_iff] at hx
    simp only [List.cons_append, namesDistinct, List.any_append, List.any_cons, List.any_nil, Bool.or_false,
      Bool.and_eq_true, Bool.not_eq_eq_eq_not, Bool.not_true, Bool.or_eq_false_iff]
    refine ⟨⟨h.1, ?_⟩, ih h.2 hx.2⟩
    have := hx.1
    rw [Bool.beq_comm] at this
    exact this

/-! ### the final `.map` of `get_pattern` -/

/-- validity invariant of a collected placeholder -/
def PhV (s : Src) : Placeholder → Prop
  | .placeable e => vExpr s e = true
  | .text start stop _ _ => ∀ j, start ≤ j → j < stop → ∀ b, s[j]? = some b → noBrace b = true

/-- a placeholder that is certain to produce an element -/
def Strong : Placeholder → Prop
  | .placeable _ => True
  | .text start stop indent _ => start + indent < stop

theorem finishElements_cons_shape {s : Src} {ci : Option Nat} {lnb i : Nat} {ph : Placeholder}
    {rest : List Placeholder} {r : List (PatElem Span)}
    (h : finishElements s ci lnb i (ph :: rest) = some r) (hi : ¬ i > lnb) :
    match ph with
    | .placeable e => ∃ r', finishElements s ci lnb (i + 1) rest = some r' ∧ r = .placeable e :: r'
    | .text start stop indent _ => ∃ start', start ≤ start' ∧ start' ≤ start + indent ∧
        ((start' = stop ∧ finishElements s ci lnb (i + 1) rest = some r) ∨
         (start' ≠ stop ∧ ∃ sp r', slice s start' stop = some sp ∧ finishElements s ci lnb (i + 1) rest = some r' ∧
            r = .text (if lnb == i then trimEnd s sp else sp) :: r')) := by
  simp only [finishElements, hi, if_false] at h
  cases ph with
  | placeable e =>
    simp only [] at h ⊢
    obtain ⟨r', h1, h2⟩ := Option.map_eq_some_iff.mp h
    exact ⟨r', h1, h2.symm⟩
  | text start stop indent role =>
    simp only [] at h ⊢
    have key : ∀ start', (if (start' == stop) = true then finishElements s ci lnb (i + 1) rest
          else match slice s start' stop with
            | none => none
            | some sp => Option.map (fun x => PatElem.text (if (lnb == i) = true then trimEnd s sp else sp) :: x)
                (finishElements s ci lnb (i + 1) rest)) = some r →
        ((start' = stop ∧ finishElements s ci lnb (i + 1) rest = some r) ∨
         (start' ≠ stop ∧ ∃ sp r', slice s start' stop = some sp ∧ finishElements s ci lnb (i + 1) rest = some r' ∧
            r = .text (if lnb == i then trimEnd s sp else sp) :: r')) := by
      intro start' h
      split at h
      · rename_i he; exact Or.inl ⟨by simpa using he, h⟩
      · rename_i he
        right
        refine ⟨by simpa using he, ?_⟩
        split at h
        · cases h
        · rename_i sp hsl
          obtain ⟨r', h1, h2⟩ := Option.map_eq_some_iff.mp h
          exact ⟨sp, r', hsl, h1, h2.symm⟩
    refine ⟨_, ?_, ?_, key _ h⟩
    · split
      · split <;> omega
      · omega
    · split
      · split
        · omega
        · have := Nat.min_le_left indent ‹Nat›; omega
      · omega

theorem finishElements_vPat {s : Src} {ci : Option Nat} {lnb i : Nat} {els : List Placeholder}
    {r : List (PatElem Span)} (h : finishElements s ci lnb i els = some r) (hv : ∀ ph ∈ els, PhV s ph) :
    vPat s r = true := by
  induction els generalizing i r with
  | nil => simp only [finishElements] at h; cases h; simp [vPat]
  | cons ph rest ih =>
    have hrest : ∀ ph ∈ rest, PhV s ph := fun x hx => hv x (List.mem_cons_of_mem _ hx)
    have hph := hv ph List.mem_cons_self
    by_cases hi : i > lnb
    · simp only [finishElements, hi, if_true] at h; cases h; simp [vPat]
    · have hsh := finishElements_cons_shape h hi
      cases ph with
      | placeable e =>
        obtain ⟨r', h1, rfl⟩ := hsh
        simp only [vPat, vPatElem, Bool.and_eq_true]
        exact ⟨hph, ih h1 hrest⟩
      | text start stop indent role =>
        obtain ⟨start', g1, g2, g3⟩ := hsh
        rcases g3 with ⟨_, h1⟩ | ⟨_, sp, r', hsl, h1, rfl⟩
        · exact ih h1 hrest
        · simp only [vPat, vPatElem, Bool.and_eq_true]
          refine ⟨?_, ih h1 hrest⟩
          obtain ⟨rfl, hvs⟩ := slice_eq_some hsl
          have hall : ∀ a b, start' ≤ a → b ≤ stop → textOk s ⟨a, b⟩ = true := by
            intro a b ha hb
            exact spanBytes_all (fun j j1 j2 => hph j (by omega) (by omega))
          split
          · have := trimEndGo_spec s start' (stop - start') stop hvs.1 hvs.2.2
            exact hall _ _ (Nat.le_refl _) this.2.1
          · exact hall _ _ (Nat.le_refl _) (Nat.le_refl _)

theorem finishElements_ne_nil {s : Src} {ci : Option Nat} {lnb i : Nat} {els : List Placeholder}
    {r : List (PatElem Span)} (h : finishElements s ci lnb i els = some r) (hi : i ≤ lnb)
    (hk : ∃ ph, els[lnb - i]? = some ph ∧ Strong ph) : r ≠ [] := by
  induction els generalizing i r with
  | nil => obtain ⟨ph, h1, _⟩ := hk; simp at h1
  | cons ph rest ih =>
    have hsh := finishElements_cons_shape h (by omega)
    by_cases hlt : i < lnb
    · have hk' : ∃ ph', rest[lnb - (i + 1)]? = some ph' ∧ Strong ph' := by
        obtain ⟨ph', h1, h2⟩ := hk
        refine ⟨ph', ?_, h2⟩
        have e : lnb - i = (lnb - (i + 1)) + 1 := by omega
        rw [e, List.getElem?_cons_succ] at h1
        exact h1
      cases ph with
      | placeable e => obtain ⟨r', _, rfl⟩ := hsh; simp
      | text start stop indent role =>
        obtain ⟨start', _, _, g3⟩ := hsh
        rcases g3 with ⟨_, h1⟩ | ⟨_, sp, r', _, _, rfl⟩
        · exact ih h1 (by omega) hk'
        · simp
    · have e : lnb - i = 0 := by omega
      obtain ⟨ph', h1, h2⟩ := hk
      rw [e] at h1
      simp only [List.getElem?_cons_zero, Option.some.injEq] at h1
      subst h1
      cases ph with
      | placeable e => obtain ⟨r', _, rfl⟩ := hsh; simp
      | text start stop indent role =>
        obtain ⟨start', _, g2, g3⟩ := hsh
        have h2 : start + indent < stop := h2
        rcases g3 with ⟨g, _⟩ | ⟨_, sp, r', _, _, rfl⟩
        · omega
        · simp

end FluentProofs.Parser
