import FluentProofs.ParserLocalDefs
/-!
# Locality of the parser, PREFIX family, part 1: the leaf scanners

Under `h : Pre n s₁ s₂` (`s₁` has size `n` and ends with a line feed, `s₂` agrees with `s₁` below `n` and has the end
of input or a `stopByte` at `n`) every leaf function gives the same result on both sources: the blank skippers
and the slicing functions at every position `≤ n`, the scanners at every position `< n` (they stop at the line feed
at `n - 1`).
-/
namespace FluentProofs.Parser
open FluentModel.Syntax

section
variable {n : Nat} {s₁ s₂ : Src}

/-! ## the bytes of the two sources -/

theorem Pre.none₁ (h : Pre n s₁ s₂) {i : Nat} (hi : n ≤ i) : s₁[i]? = none := by
  have := h.size
  simp only [Array.getElem?_eq_none_iff]; omega

theorem Pre.le₂ (h : Pre n s₁ s₂) : n ≤ s₂.size := by
  rcases h.stop with h1 | ⟨b, hb, _⟩
  · omega
  · have := get_lt hb; omega

theorem Pre.lt₂ (h : Pre n s₁ s₂) {p : Nat} (hp : p < n) : p < s₂.size := by
  have := h.le₂; omega

theorem Pre.last₁ (h : Pre n s₁ s₂) (hn : 0 < n) : s₁[n - 1]? = some 10 := by
  rcases h.ls with h0 | h0
  · omega
  · exact h0

theorem Pre.last₂ (h : Pre n s₁ s₂) (hn : 0 < n) : s₂[n - 1]? = some 10 := by
  rw [h.get _ (by omega)]; exact h.last₁ hn

/-- a byte other than `\n` below `n` is not the last one -/
theorem Pre.succ_lt (h : Pre n s₁ s₂) {p : Nat} {b : UInt8} (hb : s₁[p]? = some b) (hne : b ≠ 10) : p + 1 < n := by
  have hp : p < n := by have := get_lt hb; have := h.size; omega
  by_cases he : p + 1 = n
  · have h10 := h.last₁ (by omega)
    have e : n - 1 = p := by omega
    rw [e, hb] at h10
    cases h10; exact absurd rfl hne
  · omega

/-- the byte of `s₂` at `n` is none of the bytes the parser looks for -/
theorem Pre.ne_n (h : Pre n s₁ s₂) {c : UInt8} (hc : stopByte c = false) : s₂[n]? ≠ some c := by
  intro hn
  rcases h.stop with h1 | ⟨b, hb, hr⟩
  · have := get_lt hn; omega
  · rw [hn] at hb; cases hb; rw [hc] at hr; cases hr

theorem pre_stopByte_bnd : ∀ b : UInt8, stopByte b = true → ((b &&& 0xC0) != 0x80) = true := by
  apply forall_uint8; decide +kernel

/-- `n` is a char boundary of `s₂` -/
theorem Pre.bnd_n (h : Pre n s₁ s₂) : isBoundary s₂ n = true := by
  rcases h.stop with h1 | ⟨b, hb, hr⟩
  · rw [← h1]; exact bnd_size s₂
  · simp [isBoundary, hb, pre_stopByte_bnd b hr]

/-- the two sources have the same byte at `p ≤ n` as far as a byte `c` that is no `stopByte` is concerned -/
theorem Pre.cur (h : Pre n s₁ s₂) {p : Nat} (hp : p ≤ n) {c : UInt8} (hc : stopByte c = false) :
    isCurrentByte s₂ p c = isCurrentByte s₁ p c := by
  unfold isCurrentByte
  by_cases hpn : p = n
  · subst hpn
    rw [h.none₁ (Nat.le_refl _)]
    have := h.ne_n hc
    simp [this]
  · rw [h.get p (by omega)]

theorem Pre.cur_lt (h : Pre n s₁ s₂) {p : Nat} (hp : p < n) (c : UInt8) :
    isCurrentByte s₂ p c = isCurrentByte s₁ p c := by
  unfold isCurrentByte; rw [h.get p hp]

/-! ## blanks -/

theorem pre_skipBlankInlineGo_stop {s : Src} {p : Nat} (h : s[p]? ≠ some 32) (k : Nat) : skipBlankInlineGo s k p = p := by
  cases k with
  | zero => rfl
  | succ k => simp [skipBlankInlineGo, h]

theorem skipBlankInlineGo_pre (h : Pre n s₁ s₂) (k₁ k₂ p : Nat) (hp : p ≤ n) (h1 : n - p ≤ k₁) (h2 : n - p ≤ k₂) :
    skipBlankInlineGo s₂ k₂ p = skipBlankInlineGo s₁ k₁ p ∧ skipBlankInlineGo s₁ k₁ p ≤ n := by
  induction k₁ generalizing k₂ p with
  | zero =>
    have : p = n := by omega
    subst this
    rw [pre_skipBlankInlineGo_stop (h.ne_n (by decide))]
    exact ⟨rfl, Nat.le_refl _⟩
  | succ k₁ ih =>
    by_cases hpn : p = n
    · subst hpn
      rw [pre_skipBlankInlineGo_stop (h.ne_n (by decide)), pre_skipBlankInlineGo_stop (by rw [h.none₁ (Nat.le_refl _)]; simp)]
      exact ⟨rfl, Nat.le_refl _⟩
    · cases k₂ with
      | zero => omega
      | succ k₂ =>
        simp only [skipBlankInlineGo, h.get p (by omega)]
        split
        · exact ih k₂ (p + 1) (by omega) (by omega) (by omega)
        · exact ⟨rfl, hp⟩

theorem skipBlankInline_pre (h : Pre n s₁ s₂) {p : Nat} (hp : p ≤ n) : skipBlankInline s₂ p = skipBlankInline s₁ p :=
  (skipBlankInlineGo_pre h _ _ p hp (by have := h.size; omega) (by have := h.le₂; omega)).1

theorem skipBlankInline_le_n (h : Pre n s₁ s₂) {p : Nat} (hp : p ≤ n) : skipBlankInline s₁ p ≤ n :=
  (skipBlankInlineGo_pre h _ (s₂.size - p) p hp (by have := h.size; omega) (by have := h.le₂; omega)).2

/-- spaces do not reach the end of `s₁`: its last byte is a line feed -/
theorem skipBlankInline_eq_n (h : Pre n s₁ s₂) {p : Nat} (hp : p ≤ n) (he : skipBlankInline s₁ p = n) : p = n := by
  by_cases hpn : p = n
  · exact hpn
  · have h32 := skipBlankInline_spaces s₁ p (n - 1) (by omega) (by omega)
    rw [h.last₁ (by omega)] at h32
    cases h32

theorem skipBlankInline_lt_n (h : Pre n s₁ s₂) {p : Nat} (hp : p < n) : skipBlankInline s₁ p < n := by
  have h1 := skipBlankInline_le_n h (Nat.le_of_lt hp)
  by_cases he : skipBlankInline s₁ p = n
  · have := skipBlankInline_eq_n h (Nat.le_of_lt hp) he; omega
  · omega

theorem pre_skipEol_none_of {s : Src} {p : Nat} (h1 : s[p]? ≠ some 10) (h2 : s[p]? ≠ some 13) : skipEol s p = none := by
  unfold skipEol
  split
  · contradiction
  · contradiction
  · rfl

theorem skipEol_pre (h : Pre n s₁ s₂) {p : Nat} (hp : p ≤ n) : skipEol s₂ p = skipEol s₁ p := by
  by_cases hpn : p = n
  · subst hpn
    rw [pre_skipEol_none_of (h.ne_n (by decide)) (h.ne_n (by decide)),
      pre_skipEol_none_of (by rw [h.none₁ (Nat.le_refl _)]; simp) (by rw [h.none₁ (Nat.le_refl _)]; simp)]
  · unfold skipEol
    rw [h.get p (by omega)]
    split
    · rfl
    · rename_i h13
      rw [h.get _ (h.succ_lt h13 (by decide))]
    · rfl

theorem skipEol_le_n (h : Pre n s₁ s₂) {p q : Nat} (he : skipEol s₁ p = some q) : q ≤ n := by
  have h1 := skipEol_some he
  have := get_lt h1.2.1
  have := h.size
  omega

theorem isEol_pre (h : Pre n s₁ s₂) {p : Nat} (hp : p < n) : isEol s₂ p = isEol s₁ p := by
  unfold isEol
  rw [h.get p hp]
  split
  · rfl
  · rename_i h13
    rw [h.get _ (h.succ_lt h13 (by decide))]
  · rfl
  · rfl

theorem not_isEol_n (h : Pre n s₁ s₂) (hlt : n < s₂.size) : isEol s₂ n = false := by
  rcases h.stop with h1 | ⟨b, hb, hr⟩
  · omega
  · unfold isEol
    split
    · rename_i h10; exact absurd h10 (h.ne_n (by decide))
    · rename_i h13; exact absurd h13 (h.ne_n (by decide))
    · rename_i h0; rw [hb] at h0; cases h0
    · rfl

theorem skipBlankBlockGo_pre (h : Pre n s₁ s₂) (k₁ k₂ p c : Nat) (hp : p ≤ n) (h1 : n - p + 1 ≤ k₁) (h2 : n - p + 1 ≤ k₂) :
    skipBlankBlockGo s₂ k₂ p c = skipBlankBlockGo s₁ k₁ p c ∧ (skipBlankBlockGo s₁ k₁ p c).1 ≤ n := by
  induction k₁ generalizing k₂ p c with
  | zero => omega
  | succ k₁ ih =>
    cases k₂ with
    | zero => omega
    | succ k₂ =>
      have hle := skipBlankInline_le_n h hp
      have hge := (skipBlankInline_after s₁ p).le
      simp only [skipBlankBlockGo, skipBlankInline_pre h hp, skipEol_pre h hle]
      cases hE : skipEol s₁ (skipBlankInline s₁ p) with
      | some p' =>
        simp only []
        have := (skipEol_some hE).1
        have := skipEol_le_n h hE
        exact ih k₂ p' (c + 1) (skipEol_le_n h hE) (by omega) (by omega)
      | none =>
        simp only []
        by_cases hlt : skipBlankInline s₁ p < n
        · have hl2 : skipBlankInline s₁ p < s₂.size := by have := h.le₂; omega
          have hl1 : skipBlankInline s₁ p < s₁.size := by rw [h.size]; exact hlt
          rw [if_pos hl2, if_pos hl1]
          exact ⟨rfl, hp⟩
        · have he : skipBlankInline s₁ p = n := by omega
          have hpn := skipBlankInline_eq_n h hp he
          have hl1 : ¬ skipBlankInline s₁ p < s₁.size := by rw [h.size]; exact hlt
          rw [if_neg hl1]
          refine ⟨?_, Nat.le_of_eq he⟩
          split
          · rw [he, hpn]
          · rfl

theorem skipBlankBlock_pre (h : Pre n s₁ s₂) {p : Nat} (hp : p ≤ n) : skipBlankBlock s₂ p = skipBlankBlock s₁ p :=
  (skipBlankBlockGo_pre h _ _ p 0 hp (by have := h.size; omega) (by have := h.le₂; omega)).1

theorem skipBlankBlock_le_n (h : Pre n s₁ s₂) {p : Nat} (hp : p ≤ n) : (skipBlankBlock s₁ p).1 ≤ n :=
  (skipBlankBlockGo_pre h _ (s₂.size - p + 1) p 0 hp (by have := h.size; omega) (by have := h.le₂; omega)).2

theorem pre_skipBlankGo_stop {s : Src} {p : Nat} (h1 : s[p]? ≠ some 32) (h2 : s[p]? ≠ some 10) (h3 : s[p]? ≠ some 13)
    (k : Nat) : skipBlankGo s k p = p := by
  cases k with
  | zero => rfl
  | succ k =>
    simp only [skipBlankGo]

theorem skipBlankGo_pre (h : Pre n s₁ s₂) (k₁ k₂ p : Nat) (hp : p ≤ n) (h1 : n - p ≤ k₁) (h2 : n - p ≤ k₂) :
    skipBlankGo s₂ k₂ p = skipBlankGo s₁ k₁ p ∧ skipBlankGo s₁ k₁ p ≤ n := by
  have hn : ∀ k₁ k₂, skipBlankGo s₂ k₂ n = skipBlankGo s₁ k₁ n ∧ skipBlankGo s₁ k₁ n ≤ n := by
    intro k₁ k₂
    have e := h.none₁ (Nat.le_refl n)
    rw [pre_skipBlankGo_stop (h.ne_n (by decide)) (h.ne_n (by decide)) (h.ne_n (by decide)),
      pre_skipBlankGo_stop (by rw [e]; simp) (by rw [e]; simp) (by rw [e]; simp)]
    exact ⟨rfl, Nat.le_refl _⟩
  induction k₁ generalizing k₂ p with
  | zero =>
    have : p = n := by omega
    subst this; exact hn _ _
  | succ k₁ ih =>
    by_cases hpn : p = n
    · subst hpn; exact hn _ _
    · cases k₂ with
      | zero => omega
      | succ k₂ =>
        simp only [skipBlankGo, h.get p (by omega)]
        split
        · exact ih k₂ (p + 1) (by omega) (by omega) (by omega)
        · exact ih k₂ (p + 1) (by omega) (by omega) (by omega)
        · rename_i h13
          have hlt := h.succ_lt h13 (by decide)
          rw [h.get _ hlt]
          split
          · exact ih k₂ (p + 2) (by omega) (by omega) (by omega)
          · exact ⟨rfl, hp⟩
        · exact ⟨rfl, hp⟩

theorem skipBlank_pre (h : Pre n s₁ s₂) {p : Nat} (hp : p ≤ n) : skipBlank s₂ p = skipBlank s₁ p :=
  (skipBlankGo_pre h _ _ p hp (by have := h.size; omega) (by have := h.le₂; omega)).1

theorem skipBlank_le_n (h : Pre n s₁ s₂) {p : Nat} (hp : p ≤ n) : skipBlank s₁ p ≤ n :=
  (skipBlankGo_pre h _ (s₂.size - p) p hp (by have := h.size; omega) (by have := h.le₂; omega)).2

/-! ## single bytes -/

theorem expectByte_pre (h : Pre n s₁ s₂) {p : Nat} (hp : p < n) (b : UInt8) : expectByte s₂ p b = expectByte s₁ p b := by
  simp only [expectByte, h.cur_lt hp]

theorem takeByteIf_pre (h : Pre n s₁ s₂) {p : Nat} (hp : p < n) (b : UInt8) : takeByteIf s₂ p b = takeByteIf s₁ p b := by
  simp only [takeByteIf, h.cur_lt hp]

/-- at `p ≤ n` for a byte that is no `stopByte` -/
theorem takeByteIf_pre' (h : Pre n s₁ s₂) {p : Nat} (hp : p ≤ n) {b : UInt8} (hb : stopByte b = false) :
    takeByteIf s₂ p b = takeByteIf s₁ p b := by
  simp only [takeByteIf, h.cur hp hb]

theorem pre_expectByte_ok {s : Src} {p : Nat} {b : UInt8} {u : Unit} {q : Nat} (h : expectByte s p b = .ok u q) :
    q = p + 1 ∧ s[p]? = some b := by
  unfold expectByte at h
  split at h
  · rename_i hc
    injection h with _ h2
    exact ⟨h2.symm, (isCurrentByte_iff _ _ _).mp hc⟩
  · cases h

theorem isIdentifierStart_pre (h : Pre n s₁ s₂) {p : Nat} (hp : p < n) : isIdentifierStart s₂ p = isIdentifierStart s₁ p := by
  simp only [isIdentifierStart, h.get p hp]

theorem isNumberStart_pre (h : Pre n s₁ s₂) {p : Nat} (hp : p < n) : isNumberStart s₂ p = isNumberStart s₁ p := by
  simp only [isNumberStart, h.get p hp]

/-! ## scanners -/

theorem scanWhileGo_pre (h : Pre n s₁ s₂) (pred : UInt8 → Bool) (hpred : pred 10 = false) (k₁ k₂ p : Nat) (hp : p < n)
    (h1 : n - p ≤ k₁) (h2 : n - p ≤ k₂) :
    scanWhileGo s₂ pred k₂ p = scanWhileGo s₁ pred k₁ p ∧ scanWhileGo s₁ pred k₁ p < n := by
  induction k₁ generalizing k₂ p with
  | zero => omega
  | succ k₁ ih =>
    cases k₂ with
    | zero => omega
    | succ k₂ =>
      simp only [scanWhileGo, h.get p hp]
      split
      · rename_i b hb
        split
        · rename_i hpb
          have hne : b ≠ 10 := by intro e; subst e; rw [hpred] at hpb; cases hpb
          have hlt := h.succ_lt hb hne
          exact ih k₂ (p + 1) hlt (by omega) (by omega)
        · exact ⟨rfl, hp⟩
      · exact ⟨rfl, hp⟩

theorem scanWhile_pre (h : Pre n s₁ s₂) (pred : UInt8 → Bool) (hpred : pred 10 = false) {p : Nat} (hp : p < n) :
    scanWhile s₂ pred p = scanWhile s₁ pred p :=
  (scanWhileGo_pre h pred hpred _ _ p hp (by have := h.size; omega) (by have := h.le₂; omega)).1

theorem scanWhile_lt_n (h : Pre n s₁ s₂) (pred : UInt8 → Bool) (hpred : pred 10 = false) {p : Nat} (hp : p < n) :
    scanWhile s₁ pred p < n :=
  (scanWhileGo_pre h pred hpred _ (s₂.size - p) p hp (by have := h.size; omega) (by have := h.le₂; omega)).2

theorem skipDigits_pre (h : Pre n s₁ s₂) {p : Nat} (hp : p < n) : skipDigits s₂ p = skipDigits s₁ p := by
  simp only [skipDigits, scanWhile_pre h isDigit (by decide) hp]

theorem skipDigits_lt_n (h : Pre n s₁ s₂) {p : Nat} (hp : p < n) {u : Unit} {q : Nat} (hr : skipDigits s₁ p = .ok u q) :
    q < n := by
  unfold skipDigits at hr
  simp only [] at hr
  split at hr
  · cases hr
  · injection hr with _ h2
    rw [← h2]; exact scanWhile_lt_n h isDigit (by decide) hp

/-! ## boundaries and slices -/

theorem isBoundary_pre (h : Pre n s₁ s₂) {i : Nat} (hi : i ≤ n) : isBoundary s₂ i = isBoundary s₁ i := by
  by_cases hin : i = n
  · subst hin
    have e1 : isBoundary s₁ i = true := by rw [← h.size]; exact bnd_size s₁
    rw [e1]
    exact h.bnd_n
  · have hlt : i < n := by omega
    have h2 := h.lt₂ hlt
    have e1 : (i == s₂.size) = (i == s₁.size) := by
      rw [Bool.eq_iff_iff]; simp only [beq_iff_eq]; rw [h.size]; omega
    simp only [isBoundary, h.get i hlt, e1]

theorem slice_pre (h : Pre n s₁ s₂) (a : Nat) {b : Nat} (hb : b ≤ n) : slice s₂ a b = slice s₁ a b := by
  have hb1 : b ≤ s₁.size := by rw [h.size]; exact hb
  have hb2 : b ≤ s₂.size := by have := h.le₂; omega
  unfold slice
  by_cases hab : a ≤ b
  · simp only [isBoundary_pre h (i := a) (by omega), isBoundary_pre h hb, hb1, hb2]
  · rw [if_neg (fun hc => hab hc.1), if_neg (fun hc => hab hc.1)]

theorem spanBytes_pre (h : Pre n s₁ s₂) {sp : Span} (hsp : sp.stop ≤ n) : spanBytes s₂ sp = spanBytes s₁ sp := by
  have hsz := h.size
  have hle := h.le₂
  simp only [spanBytes]
  congr 1
  apply Array.ext_getElem?
  intro i
  simp only [Array.getElem?_extract]
  have e1 : min sp.stop s₂.size = min sp.stop s₁.size := by omega
  rw [e1]
  split
  · exact h.get _ (by omega)
  · rfl

theorem isCallee_pre (h : Pre n s₁ s₂) {sp : Span} (hsp : sp.stop ≤ n) : isCallee s₂ sp = isCallee s₁ sp := by
  simp only [isCallee, spanBytes_pre h hsp]

theorem trimEndGo_pre (h : Pre n s₁ s₂) (start k e : Nat) (he : e ≤ n) :
    trimEndGo s₂ start k e = trimEndGo s₁ start k e := by
  induction k generalizing e with
  | zero => rfl
  | succ k ih =>
    simp only [trimEndGo]
    split
    · rw [h.get (e - 1) (by omega), ih (e - 1) (by omega)]
    · rfl

theorem trimEnd_pre (h : Pre n s₁ s₂) {sp : Span} (hsp : sp.stop ≤ n) : trimEnd s₂ sp = trimEnd s₁ sp := by
  simp only [trimEnd, trimEndGo_pre h _ _ _ hsp]

theorem nonBlankGo_pre (h : Pre n s₁ s₂) (k a : Nat) {b : Nat} (hb : b ≤ n) : nonBlankGo s₂ k a b = nonBlankGo s₁ k a b := by
  induction k generalizing a with
  | zero => rfl
  | succ k ih =>
    simp only [nonBlankGo]
    split
    · rw [h.get a (by omega), ih]
    · rfl

theorem nonBlank_pre (h : Pre n s₁ s₂) (a : Nat) {b : Nat} (hb : b ≤ n) : nonBlank s₂ a b = nonBlank s₁ a b := by
  simp only [nonBlank, nonBlankGo_pre h _ _ hb]

/-- where the text of a placeholder starts once the common indent is removed (replica of the local `start'`) -/
def preFeStart (ci : Option Nat) (start indent : Nat) (role : TextPos) : Nat :=
  if role == .lineStart then
    match ci with
    | none => start + indent
    | some c => start + min indent c
  else start

theorem pre_finishElements_text (s : Src) (ci : Option Nat) (lnb i : Nat) (start stop indent : Nat) (role : TextPos)
    (rest : List Placeholder) :
    finishElements s ci lnb i (.text start stop indent role :: rest) =
      if i > lnb then some [] else
      if preFeStart ci start indent role == stop then finishElements s ci lnb (i + 1) rest
      else match slice s (preFeStart ci start indent role) stop with
        | none => none
        | some sp =>
          (finishElements s ci lnb (i + 1) rest).map (PatElem.text (if lnb == i then trimEnd s sp else sp) :: ·) := by
  simp only [finishElements]; rfl

theorem finishElements_pre (h : Pre n s₁ s₂) (ci : Option Nat) (lnb : Nat) (i : Nat) (els : List Placeholder)
    (hel : ∀ a b ind r, Placeholder.text a b ind r ∈ els → b ≤ n) :
    finishElements s₂ ci lnb i els = finishElements s₁ ci lnb i els := by
  induction els generalizing i with
  | nil => simp only [finishElements]
  | cons ph rest ih =>
    have ihr := fun j => ih j (fun a b ind r hm => hel a b ind r (List.mem_cons_of_mem _ hm))
    cases ph with
    | placeable e => simp only [finishElements, ihr]
    | text start stop indent role =>
      have hs := hel start stop indent role (List.mem_cons_self ..)
      simp only [pre_finishElements_text, ihr, slice_pre h _ hs]
      generalize preFeStart ci start indent role = st'
      split
      · rfl
      · split
        · rfl
        · split
          · rfl
          · rename_i sp hsl
            obtain ⟨rfl, _⟩ := slice_eq_some hsl
            rw [trimEnd_pre h hs]

end
end FluentProofs.Parser
