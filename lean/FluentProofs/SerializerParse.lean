import FluentProofs.SerializerInline
/-!
# Serializer lemmas, part 4: parsing back the text of an inline expression (C04 / T2, parser half)

Functional ("forward") specifications of the parser's scanning functions on a source that is known
to contain a given text at the cursor (`At s p bytes`), then `getInline_inlineBytes`: the parser
reads `inlineBytes e` back as `e`.
-/
namespace FluentProofs.Ser
open FluentModel FluentModel.Syntax FluentModel.Syntax.Ser FluentProofs.Parser

/-- the source contains `bs` at position `p` -/
def At (s : Src) : Nat → Bytes → Prop
  | _, [] => True
  | p, b :: bs => s[p]? = some b ∧ At s (p + 1) bs

@[simp] theorem at_nil (s : Src) (p : Nat) : At s p [] = True := by simp [At]
theorem at_cons (s : Src) (p : Nat) (b : UInt8) (bs : Bytes) : At s p (b :: bs) ↔ s[p]? = some b ∧ At s (p + 1) bs := by
  simp [At]

theorem at_append (s : Src) (p : Nat) (a b : Bytes) : At s p (a ++ b) ↔ At s p a ∧ At s (p + a.length) b := by
  induction a generalizing p with
  | nil => simp
  | cons x xs ih =>
    simp only [List.cons_append, at_cons, ih, List.length_cons, and_assoc]
    rw [show p + 1 + xs.length = p + (xs.length + 1) by omega]

theorem at_le {s : Src} {p : Nat} {bs : Bytes} (h : At s p bs) : bs = [] ∨ p + bs.length ≤ s.size := by
  induction bs generalizing p with
  | nil => left; rfl
  | cons x xs ih =>
    right
    rw [at_cons] at h
    have := get_lt h.1
    rcases ih h.2 with rfl | h'
    · simp; omega
    · simp; omega

theorem at_get {s : Src} {p : Nat} {bs : Bytes} (h : At s p bs) (i : Nat) (hi : i < bs.length) :
    s[p + i]? = some bs[i] := by
  induction bs generalizing p i with
  | nil => simp at hi
  | cons x xs ih =>
    rw [at_cons] at h
    cases i with
    | zero => simpa using h.1
    | succ j =>
      have := ih h.2 j (by simpa using hi)
      rw [show p + (j + 1) = p + 1 + j by omega]
      simpa using this

/-- the slice of the source over a text it contains is that text -/
theorem at_spanBytes {s : Src} {p : Nat} {bs : Bytes} (h : At s p bs) : spanBytes s ⟨p, p + bs.length⟩ = bs := by
  apply List.ext_getElem?
  intro i
  simp only [spanBytes]
  by_cases hi : i < bs.length
  · have h1 := at_get h i hi
    have h2 : p + bs.length ≤ s.size := by
      rcases at_le h with rfl | h'
      · simp at hi
      · exact h'
    rw [Array.getElem?_toList, Array.getElem?_extract]
    simp [hi, h1]
    omega
  · rw [List.getElem?_eq_none (l := bs) (by omega)]
    rw [List.getElem?_eq_none]
    simp
    omega

/-- at `q` the source ends or holds a byte on which `pred` is false -/
def StopAt (s : Src) (q : Nat) (pred : UInt8 → Bool) : Prop := ∀ c, s[q]? = some c → pred c = false

theorem scanWhileGo_at (s : Src) (pred : UInt8 → Bool) (bs : Bytes) (p n : Nat) (h : At s p bs)
    (hall : ∀ b ∈ bs, pred b = true) (hstop : StopAt s (p + bs.length) pred) (hn : bs.length ≤ n) :
    scanWhileGo s pred n p = p + bs.length := by
  induction bs generalizing p n with
  | nil =>
    cases n with
    | zero => simp [scanWhileGo]
    | succ n =>
      rw [scanWhileGo]
      cases hc : s[p]? with
      | none => simp
      | some c => have := hstop c (by simpa using hc); simp [this]
  | cons x xs ih =>
    rw [at_cons] at h
    cases n with
    | zero => simp at hn
    | succ n =>
      rw [scanWhileGo, h.1]
      simp only [hall x (by simp), if_true]
      rw [ih (p + 1) n h.2 (fun b hb => hall b (by simp [hb])) (by
        rw [show p + 1 + xs.length = p + (x :: xs).length by simp; omega]; exact hstop) (by simpa using hn)]
      simp; omega

theorem scanWhile_at (s : Src) (pred : UInt8 → Bool) (bs : Bytes) (p : Nat) (h : At s p bs)
    (hall : ∀ b ∈ bs, pred b = true) (hstop : StopAt s (p + bs.length) pred) :
    scanWhile s pred p = p + bs.length := by
  apply scanWhileGo_at s pred bs p _ h hall hstop
  rcases at_le h with rfl | h'
  · simp
  · omega

/-! ### blanks -/

theorem skipBlank_stay (s : Src) (p : Nat) (h : ∀ c, s[p]? = some c → c ≠ 32 ∧ c ≠ 10 ∧ c ≠ 13) :
    skipBlank s p = p := by
  unfold skipBlank
  cases hn : s.size - p with
  | zero => rfl
  | succ n =>
    rw [skipBlankGo]
    cases hc : s[p]? with
    | none => rfl
    | some c =>
      obtain ⟨h1, h2, h3⟩ := h c hc
      split <;> simp_all

theorem skipBlank_space (s : Src) (p : Nat) (h : s[p]? = some 32) : skipBlank s p = skipBlank s (p + 1) := by
  unfold skipBlank
  have := get_lt h
  rw [show s.size - p = (s.size - (p + 1)) + 1 by omega, skipBlankGo, h]
  rfl

theorem skipBlankInline_stay (s : Src) (p : Nat) (h : s[p]? ≠ some 32) : skipBlankInline s p = p := by
  unfold skipBlankInline
  cases hn : s.size - p with
  | zero => rfl
  | succ n => rw [skipBlankInlineGo]; simp [h]

theorem skipBlankInline_space (s : Src) (p : Nat) (h : s[p]? = some 32) :
    skipBlankInline s p = skipBlankInline s (p + 1) := by
  unfold skipBlankInline
  have := get_lt h
  rw [show s.size - p = (s.size - (p + 1)) + 1 by omega, skipBlankInlineGo, h]
  simp

/-! ### identifiers -/

theorem validIdent_head {id : Bytes} (h : validIdent id = true) : ∃ b rest, id = b :: rest ∧ isAlpha b = true ∧
    ∀ c ∈ rest, isIdentByte c = true := by
  cases id with
  | nil => simp [validIdent] at h
  | cons b rest => simp [validIdent] at h; exact ⟨b, rest, rfl, h.1, h.2⟩

theorem getIdentifierUnchecked_at {s : Src} (hs : AsciiThenBoundary s) (p : Nat) (id : Bytes)
    (hv : validIdent id = true) (h : At s p id) (hstop : StopAt s (p + id.length) isIdentByte) :
    getIdentifierUnchecked s (p + 1) = .ok ⟨p, p + id.length⟩ (p + id.length) := by
  obtain ⟨b, rest, rfl, hb, hrest⟩ := validIdent_head hv
  rw [at_cons] at h
  unfold getIdentifierUnchecked
  have e : scanWhile s isIdentByte (p + 1) = p + 1 + rest.length :=
    scanWhile_at s isIdentByte rest (p + 1) h.2 hrest (by
      rw [show p + 1 + rest.length = p + (b :: rest).length by simp; omega]; exact hstop)
  simp only [e, usub, show 1 ≤ p + 1 by omega, if_true, Nat.add_sub_cancel]
  have hb1 : Bnd s p := bnd_of_ascii h.1 (isAlpha_lt b hb)
  have hb2 : Bnd s (p + 1 + rest.length) := by
    cases hr : rest.getLast? with
    | none =>
      simp at hr; subst hr
      exact bnd_succ hs h.1 (isAlpha_lt b hb)
    | some c =>
      have hc := hrest c (List.mem_of_getLast? hr)
      have : rest ≠ [] := by intro h0; simp [h0] at hr
      have hlen : 0 < rest.length := by cases rest <;> simp_all
      have hg := at_get h.2 (rest.length - 1) (by omega)
      have : rest[rest.length - 1] = c := by
        rw [List.getLast?_eq_getElem?] at hr
        simpa [List.getElem?_eq_getElem (show rest.length - 1 < rest.length by omega)] using hr
      rw [this] at hg
      have := bnd_succ hs hg (isIdentByte_lt c hc)
      rw [show p + 1 + (rest.length - 1) + 1 = p + 1 + rest.length by omega] at this
      exact this
  rw [slice_ok (by omega) hb1 hb2]
  simp [Nat.add_assoc, Nat.add_comm 1]

theorem getIdentifier_at {s : Src} (hs : AsciiThenBoundary s) (p : Nat) (id : Bytes)
    (hv : validIdent id = true) (h : At s p id) (hstop : StopAt s (p + id.length) isIdentByte) :
    getIdentifier s p = .ok ⟨p, p + id.length⟩ (p + id.length) := by
  unfold getIdentifier
  obtain ⟨b, rest, e, hb, _⟩ := validIdent_head hv
  have h0 : s[p]? = some b := by rw [e, at_cons] at h; exact h.1
  have : isIdentifierStart s p = true := by simp [isIdentifierStart, h0, hb]
  simp only [this, Bool.not_true, Bool.false_eq_true, if_false]
  exact getIdentifierUnchecked_at hs p id hv h hstop

/-! ### number literals -/

theorem takeByteIf_yes (s : Src) (p : Nat) (b : UInt8) (h : s[p]? = some b) : takeByteIf s p b = (p + 1, true) := by
  simp [takeByteIf, isCurrentByte, h]

theorem takeByteIf_no (s : Src) (p : Nat) (b : UInt8) (h : s[p]? ≠ some b) : takeByteIf s p b = (p, false) := by
  simp [takeByteIf, isCurrentByte, h]

theorem skipDigits_at (s : Src) (ds : Bytes) (p : Nat) (h : At s p ds) (hne : ds ≠ [])
    (hall : ∀ b ∈ ds, isDigit b = true) (hstop : StopAt s (p + ds.length) isDigit) :
    skipDigits s p = .ok () (p + ds.length) := by
  unfold skipDigits
  rw [scanWhile_at s isDigit ds p h hall hstop]
  have : 0 < ds.length := by cases ds <;> simp_all
  simp; omega

theorem at_last_bnd {s : Src} (hs : AsciiThenBoundary s) {p : Nat} {bs : Bytes} (h : At s p bs) (hne : bs ≠ [])
    (hasc : ∀ b ∈ bs, b < 128) : Bnd s (p + bs.length) := by
  have hlen : 0 < bs.length := by cases bs <;> simp_all
  have hg := at_get h (bs.length - 1) (by omega)
  have := bnd_succ hs hg (hasc _ (List.getElem_mem _))
  rw [show p + (bs.length - 1) + 1 = p + bs.length by omega] at this
  exact this

theorem at_head_bnd {s : Src} {p : Nat} {bs : Bytes} (h : At s p bs) (hne : bs ≠ [])
    (hasc : ∀ b ∈ bs, b < 128) : Bnd s p := by
  cases bs with
  | nil => exact absurd rfl hne
  | cons x xs => rw [at_cons] at h; exact bnd_of_ascii h.1 (hasc x (by simp))

/-- what may follow a number literal: not a digit and not `.` -/
def numStop (c : UInt8) : Bool := isDigit c || c == 46

theorem getNumberLiteral_at {s : Src} (hs : AsciiThenBoundary s) (p : Nat) (v : Bytes)
    (hv : validNumber v = true) (h : At s p v) (hstop : StopAt s (p + v.length) numStop) :
    getNumberLiteral s p = .ok ⟨p, p + v.length⟩ (p + v.length) := by
  obtain ⟨sign, ip, frac, rfl, hsign, hip, hipd, hfrac⟩ := validNumber_decomp v hv
  rw [at_append, at_append] at h
  obtain ⟨⟨h1, h2⟩, h3⟩ := h
  have hstopd : StopAt s (p + (sign ++ ip ++ frac).length) isDigit := fun c hc => by
    have := hstop c hc; simp [numStop] at this; exact this.1
  have hasc : ∀ b ∈ sign ++ ip ++ frac, b < 128 := by
    intro b hb
    simp only [List.mem_append] at hb
    rcases hb with (hb | hb) | hb
    · rcases hsign with rfl | rfl <;> simp at hb; subst hb; decide
    · exact isDigit_lt b (hipd b hb)
    · rcases hfrac with rfl | ⟨fr, rfl, _, hfr⟩
      · simp at hb
      · simp at hb; rcases hb with rfl | hb
        · decide
        · exact isDigit_lt b (hfr b hb)
  have hne : sign ++ ip ++ frac ≠ [] := by simp [hip]
  have hbs : Bnd s p := at_head_bnd (by rw [at_append, at_append]; exact ⟨⟨h1, h2⟩, h3⟩) hne hasc
  have hbe : Bnd s (p + (sign ++ ip ++ frac).length) :=
    at_last_bnd hs (by rw [at_append, at_append]; exact ⟨⟨h1, h2⟩, h3⟩) hne hasc
  -- the sign
  have e1 : takeByteIf s p 45 = (p + sign.length, sign == [45]) := by
    rcases hsign with rfl | rfl
    · cases ip with
      | nil => exact absurd rfl hip
      | cons d ds =>
        simp only [List.length_nil, Nat.add_zero, at_cons] at h2
        have hd := hipd d (by simp)
        rw [takeByteIf_no s p 45 (by rw [h2.1]; intro h; cases h; simp [isDigit] at hd)]
        simp
    · rw [at_cons] at h1
      rw [takeByteIf_yes s p 45 h1.1]; simp
  unfold getNumberLiteral
  simp only [e1]
  -- integer digits
  have stop1 : StopAt s (p + sign.length + ip.length) isDigit := by
    rcases hfrac with rfl | ⟨fr, rfl, _, _⟩
    · simpa [Nat.add_assoc] using hstopd
    · intro c hc
      simp only [List.length_append, at_cons, ← Nat.add_assoc] at h3
      rw [h3.1] at hc; cases hc; decide
  rw [skipDigits_at s ip (p + sign.length) h2 hip hipd stop1]
  simp only []
  rcases hfrac with rfl | ⟨fr, rfl, hfrne, hfr⟩
  · have e2 : takeByteIf s (p + sign.length + ip.length) 46 = (p + sign.length + ip.length, false) := by
      apply takeByteIf_no
      intro hc
      have := hstop 46 (by simpa [Nat.add_assoc] using hc)
      simp [numStop] at this
    simp only [e2, Bool.false_eq_true, if_false]
    have : p + sign.length + ip.length = p + (sign ++ ip ++ []).length := by simp; omega
    rw [this, slice_ok (by omega) hbs hbe]
  · simp only [List.length_append, at_cons, ← Nat.add_assoc] at h3
    rw [takeByteIf_yes _ _ 46 h3.1]
    simp only [if_true]
    rw [skipDigits_at s fr (p + sign.length + ip.length + 1) h3.2 hfrne hfr (by
      intro c hc; apply hstopd c; simpa [Nat.add_assoc, Nat.add_comm 1] using hc)]
    simp only []
    have : p + sign.length + ip.length + 1 + fr.length = p + (sign ++ ip ++ 46 :: fr).length := by simp; omega
    rw [this, slice_ok (by omega) hbs hbe]

/-! ### string literals -/

theorem skipHexGo_at (s : Src) (hx : Bytes) (p : Nat) (h : At s p hx) (hall : ∀ b ∈ hx, isHexDigit b = true) :
    skipHexGo s hx.length p = p + hx.length := by
  induction hx generalizing p with
  | nil => simp [skipHexGo]
  | cons x xs ih =>
    rw [at_cons] at h
    simp only [List.length_cons, skipHexGo, h.1, hall x (by simp), if_true]
    rw [ih (p + 1) h.2 (fun b hb => hall b (by simp [hb]))]
    omega

theorem skipUnicode_at (s : Src) (hx : Bytes) (p : Nat) (h : At s p hx) (hall : ∀ b ∈ hx, isHexDigit b = true) :
    skipUnicodeEscapeSequence s p hx.length = .ok () (p + hx.length) := by
  unfold skipUnicodeEscapeSequence
  simp [skipHexGo_at s hx p h hall]

theorem scanStringGo_at (s : Src) (v : Bytes) (hv : validStrBody v = true) (p n : Nat) (h : At s p (v ++ [34]))
    (hn : v.length < n) : scanStringGo s n p = .ok () (p + v.length) := by
  fun_induction validStrBody v generalizing p n
  case case1 =>
    obtain ⟨m, rfl⟩ : ∃ m, n = m + 1 := ⟨n - 1, by simp at hn; omega⟩
    simp only [List.nil_append, at_cons] at h
    rw [scanStringGo, h.1]; rfl
  case case2 r ih =>
    obtain ⟨m, rfl⟩ : ∃ m, n = m + 1 := ⟨n - 1, by omega⟩
    simp only [List.cons_append, at_cons] at h
    rw [scanStringGo, h.1]
    simp only [h.2.1]
    rw [ih hv (p + 2) m h.2.2 (by simp at hn; omega)]
    simp; omega
  case case3 r ih =>
    obtain ⟨m, rfl⟩ : ∃ m, n = m + 1 := ⟨n - 1, by omega⟩
    simp only [List.cons_append, at_cons] at h
    rw [scanStringGo, h.1]
    simp only [h.2.1]
    rw [ih hv (p + 2) m h.2.2 (by simp at hn; omega)]
    simp; omega
  case case4 a b c d r ih =>
    obtain ⟨m, rfl⟩ : ∃ m, n = m + 1 := ⟨n - 1, by omega⟩
    simp only [Bool.and_eq_true] at hv
    have h' : At s p ([92, 117] ++ [a, b, c, d] ++ (r ++ [34])) := by simpa using h
    rw [at_append, at_append] at h'
    obtain ⟨⟨h1, h2⟩, h3⟩ := h'
    simp only [at_cons] at h1
    rw [scanStringGo, h1.1]
    simp only [h1.2.1]
    have := skipUnicode_at s [a, b, c, d] (p + 2) h2 (by simp; exact ⟨hv.1.1.1.1, hv.1.1.1.2, hv.1.1.2, hv.1.2⟩)
    simp only [List.length_cons, List.length_nil] at this
    rw [this]
    simp only []
    have h3' : At s (p + 2 + (0 + 1 + 1 + 1 + 1)) (r ++ [34]) := by simpa using h3
    rw [ih hv.2 _ m h3' (by simp at hn; omega)]
    simp; omega
  case case5 a b c d e f r ih =>
    obtain ⟨m, rfl⟩ : ∃ m, n = m + 1 := ⟨n - 1, by omega⟩
    simp only [Bool.and_eq_true] at hv
    have h' : At s p ([92, 85] ++ [a, b, c, d, e, f] ++ (r ++ [34])) := by simpa using h
    rw [at_append, at_append] at h'
    obtain ⟨⟨h1, h2⟩, h3⟩ := h'
    simp only [at_cons] at h1
    rw [scanStringGo, h1.1]
    simp only [h1.2.1]
    have := skipUnicode_at s [a, b, c, d, e, f] (p + 2) h2 (by
      simp; exact ⟨hv.1.1.1.1.1.1, hv.1.1.1.1.1.2, hv.1.1.1.1.2, hv.1.1.1.2, hv.1.1.2, hv.1.2⟩)
    simp only [List.length_cons, List.length_nil] at this
    rw [this]
    simp only []
    have h3' : At s (p + 2 + (0 + 1 + 1 + 1 + 1 + 1 + 1)) (r ++ [34]) := by simpa using h3
    rw [ih hv.2 _ m h3' (by simp at hn; omega)]
    simp; omega
  case case6 => cases hv
  case case7 => cases hv
  case case8 => cases hv
  case case9 x r _ _ _ _ h92 h34 h10 ih =>
    obtain ⟨m, rfl⟩ : ∃ m, n = m + 1 := ⟨n - 1, by omega⟩
    simp only [List.cons_append, at_cons] at h
    rw [scanStringGo, h.1]
    have hx92 : x ≠ 92 := fun h => h92 h
    have hx34 : x ≠ 34 := fun h => h34 h
    have hx10 : x ≠ 10 := fun h => h10 h
    have hgo : scanStringGo s m (p + 1) = R.ok () (p + 1 + r.length) := ih hv (p + 1) m h.2 (by simp at hn; omega)
    split
    · rename_i heq; cases heq
    · rename_i heq; simp at heq; exact absurd heq hx92
    · rename_i heq; simp at heq; exact absurd heq hx34
    · rename_i heq; simp at heq; exact absurd heq hx10
    · rw [hgo]; simp; omega

/-! ### the leaf forms of `get_inline_expression` -/

theorem scanString_at (s : Src) (v : Bytes) (hv : validStrBody v = true) (p : Nat) (h : At s p (v ++ [34])) :
    scanString s p = .ok () (p + v.length) := by
  apply scanStringGo_at s v hv p _ h
  rcases at_le h with h0 | h'
  · simp at h0
  · simp at h'; omega

theorem getInline_str {s : Src} (hs : AsciiThenBoundary s) (v : Bytes) (hv : validStrBody v = true) (p n : Nat)
    (ol : Bool) (h : At s p (34 :: (v ++ [34]))) :
    getInline s (n + 1) ol p = .ok (.str ⟨p + 1, p + 1 + v.length⟩) (p + 1 + v.length + 1) := by
  rw [at_cons] at h
  have hq : s[p + 1 + v.length]? = some 34 := by
    have := h.2; rw [at_append] at this; simpa [at_cons] using this.2
  rw [getInline, h.1]
  simp only [beq_self_eq_true, if_true]
  rw [scanString_at s v hv (p + 1) h.2]
  simp only [expectByte, isCurrentByte, hq, beq_self_eq_true, if_true, usub, show 1 ≤ p + 1 + v.length + 1 by omega,
    Nat.add_sub_cancel]
  rw [slice_ok (by omega) (bnd_succ hs h.1 (by decide)) (bnd_of_ascii hq (by decide))]

theorem digit_facts : ∀ b : UInt8, isDigit b = true → b ≠ 34 ∧ b ≠ 45 ∧ isAlpha b = false := by
  apply forall_uint8; decide +kernel

theorem alpha_facts : ∀ b : UInt8, isAlpha b = true → b ≠ 34 ∧ isDigit b = false ∧ b ≠ 45 ∧ b ≠ 36 := by
  apply forall_uint8; decide +kernel

/-- `only_literal` does not guard the `is_ascii_alphabetic` branch of `get_inline_expression`: on a letter the
value of a named argument is parsed like any inline expression (a message reference or a function call) -/
theorem getInline_ol_alpha (s : Src) (n p : Nat) (b : UInt8) (h0 : s[p]? = some b) (hb : isAlpha b = true) :
    getInline s (n + 1) true p = getInline s (n + 1) false p := by
  obtain ⟨h1, h2, h3, h4⟩ := alpha_facts b hb
  rw [getInline, getInline, h0]
  simp only [beq_iff_eq, h1, h2, h3, h4, if_false, hb, if_true, Bool.false_eq_true, Bool.false_and]
  simp [h4]

theorem validNumber_head {v : Bytes} (hv : validNumber v = true) :
    (∃ d rest, v = d :: rest ∧ isDigit d = true) ∨ (∃ d rest, v = 45 :: d :: rest ∧ isDigit d = true) := by
  obtain ⟨sign, ip, frac, rfl, hsign, hip, hipd, _⟩ := validNumber_decomp v hv
  cases ip with
  | nil => exact absurd rfl hip
  | cons d ds =>
    have hd := hipd d (by simp)
    rcases hsign with rfl | rfl
    · left; exact ⟨d, ds ++ frac, by simp, hd⟩
    · right; exact ⟨d, ds ++ frac, by simp, hd⟩

theorem getInline_num {s : Src} (hs : AsciiThenBoundary s) (v : Bytes) (hv : validNumber v = true) (p n : Nat)
    (ol : Bool) (h : At s p v) (hstop : StopAt s (p + v.length) numStop) :
    getInline s (n + 1) ol p = .ok (.num ⟨p, p + v.length⟩) (p + v.length) := by
  have hnum := getNumberLiteral_at hs p v hv h hstop
  rcases validNumber_head hv with ⟨d, rest, rfl, hd⟩ | ⟨d, rest, rfl, hd⟩
  · rw [at_cons] at h
    obtain ⟨h1, _, _⟩ := digit_facts d hd
    rw [getInline, h.1]
    simp only [beq_iff_eq, h1, if_false, hd, if_true, hnum]
  · simp only [at_cons] at h
    obtain ⟨_, _, h3⟩ := digit_facts d hd
    rw [getInline, h.1]
    have : isIdentifierStart s (p + 1) = false := by simp [isIdentifierStart, h.2.1, h3]
    simp only [this, Bool.and_false, hnum]
    simp [isDigit]

theorem getInline_var {s : Src} (hs : AsciiThenBoundary s) (id : Bytes) (hv : validIdent id = true) (p n : Nat)
    (h : At s p (36 :: id)) (hstop : StopAt s (p + 1 + id.length) isIdentByte) :
    getInline s (n + 1) false p = .ok (.var ⟨p + 1, p + 1 + id.length⟩) (p + 1 + id.length) := by
  rw [at_cons] at h
  rw [getInline, h.1]
  simp only [getIdentifier_at hs (p + 1) id hv h.2 hstop]
  simp [isDigit]

theorem getCallArguments_none (s : Src) (n p : Nat) (h : s[skipBlank s p]? ≠ some 40) :
    getCallArguments s (n + 1) p = .ok none (skipBlank s p) := by
  rw [getCallArguments]
  simp only [takeByteIf_no s _ 40 h]
  simp

theorem getAttributeAccessor_none (s : Src) (p : Nat) (h : s[p]? ≠ some 46) :
    getAttributeAccessor s p = .ok none p := by
  unfold getAttributeAccessor
  simp only [takeByteIf_no s _ 46 h]
  simp

theorem getAttributeAccessor_some {s : Src} (hs : AsciiThenBoundary s) (p : Nat) (a : Bytes) (hv : validIdent a = true)
    (h : At s p (46 :: a)) (hstop : StopAt s (p + 1 + a.length) isIdentByte) :
    getAttributeAccessor s p = .ok (some ⟨p + 1, p + 1 + a.length⟩) (p + 1 + a.length) := by
  rw [at_cons] at h
  unfold getAttributeAccessor
  simp only [takeByteIf_yes s _ 46 h.1, if_true, getIdentifier_at hs (p + 1) a hv h.2 hstop]

/-- what may follow a reference: after optional blanks, neither `(` nor `.` -/
def NoCallNoAttr (s : Src) (q : Nat) : Prop := s[skipBlank s q]? ≠ some 40 ∧ s[skipBlank s q]? ≠ some 46

theorem getInline_msg_none {s : Src} (hs : AsciiThenBoundary s) (id : Bytes) (hv : validIdent id = true) (p n : Nat)
    (h : At s p id) (hstop : StopAt s (p + id.length) isIdentByte) (hf : NoCallNoAttr s (p + id.length)) :
    getInline s (n + 2) false p = .ok (.msg ⟨p, p + id.length⟩ none) (skipBlank s (p + id.length)) := by
  obtain ⟨b, rest, rfl, hb, _⟩ := validIdent_head hv
  have h0 : s[p]? = some b := by rw [at_cons] at h; exact h.1
  obtain ⟨h1, h2, h3, h4⟩ := alpha_facts b hb
  rw [getInline, h0]
  simp only [beq_iff_eq, h1, h2, h3, if_false, hb, if_true, Bool.false_eq_true,
    getIdentifierUnchecked_at hs p _ hv h hstop, getCallArguments_none s n _ hf.1,
    getAttributeAccessor_none s _ hf.2]
  simp [h4]

theorem skipBlank_at_byte (s : Src) (p : Nat) (c : UInt8) (h : s[p]? = some c) (h1 : c ≠ 32) (h2 : c ≠ 10) (h3 : c ≠ 13) :
    skipBlank s p = p :=
  skipBlank_stay s p (fun c' hc' => by rw [h] at hc'; cases hc'; exact ⟨h1, h2, h3⟩)

theorem getInline_msg_some {s : Src} (hs : AsciiThenBoundary s) (id a : Bytes) (hv : validIdent id = true)
    (ha : validIdent a = true) (p n : Nat) (h : At s p (id ++ 46 :: a))
    (hstop : StopAt s (p + id.length + 1 + a.length) isIdentByte) :
    getInline s (n + 2) false p =
      .ok (.msg ⟨p, p + id.length⟩ (some ⟨p + id.length + 1, p + id.length + 1 + a.length⟩))
        (p + id.length + 1 + a.length) := by
  rw [at_append] at h
  obtain ⟨h1, h2⟩ := h
  have hdot : s[p + id.length]? = some 46 := by rw [at_cons] at h2; exact h2.1
  obtain ⟨b, rest, e, hb, _⟩ := validIdent_head hv
  have h0 : s[p]? = some b := by rw [e, at_cons] at h1; exact h1.1
  obtain ⟨f1, f2, f3, f4⟩ := alpha_facts b hb
  have hstop1 : StopAt s (p + id.length) isIdentByte := fun c hc => by rw [hdot] at hc; cases hc; decide
  have hsb : skipBlank s (p + id.length) = p + id.length :=
    skipBlank_at_byte s _ 46 hdot (by decide) (by decide) (by decide)
  have hca : getCallArguments s (n + 1) (p + id.length) = .ok none (p + id.length) := by
    have := getCallArguments_none s n (p + id.length) (by rw [hsb, hdot]; decide)
    rw [hsb] at this; exact this
  rw [getInline, h0]
  simp only [beq_iff_eq, f1, f2, f3, if_false, hb, if_true, Bool.false_eq_true,
    getIdentifierUnchecked_at hs p _ hv h1 hstop1, hca,
    getAttributeAccessor_some hs (p + id.length) a ha h2 hstop]
  simp [f4]

theorem getInline_term_noargs {s : Src} (hs : AsciiThenBoundary s) (id : Bytes) (attr : Option Bytes)
    (hv : validIdent id = true) (ha : optIdent attr = true) (p n : Nat) (h : At s p (45 :: (id ++ attrBytes attr)))
    (hstop : StopAt s (p + 1 + id.length + (attrBytes attr).length) isIdentByte)
    (hf : NoCallNoAttr s (p + 1 + id.length + (attrBytes attr).length)) :
    getInline s (n + 2) false p =
      .ok (.term ⟨p + 1, p + 1 + id.length⟩
        (match attr with
          | none => none
          | some a => some ⟨p + 1 + id.length + 1, p + 1 + id.length + 1 + a.length⟩) none)
        (skipBlank s (p + 1 + id.length + (attrBytes attr).length)) := by
  rw [at_cons, at_append] at h
  obtain ⟨h0, h1, h2⟩ := h
  obtain ⟨b, rest, e, hb, _⟩ := validIdent_head hv
  have hb0 : s[p + 1]? = some b := by rw [e, at_cons] at h1; exact h1.1
  have his : isIdentifierStart s (p + 1) = true := by simp [isIdentifierStart, hb0, hb]
  rw [getInline, h0]
  simp only [his]
  cases attr with
  | none =>
    simp only [attrBytes, List.length_nil, Nat.add_zero] at hstop hf ⊢
    have hnd : s[p + 1 + id.length]? ≠ some 46 := by
      intro hc
      have hsb := skipBlank_at_byte s _ 46 hc (by decide) (by decide) (by decide)
      exact hf.2 (by rw [hsb]; exact hc)
    have := getIdentifierUnchecked_at hs (p + 1) id hv h1 hstop
    simp only [show p + 1 + 1 = p + 2 by omega] at this
    simp only [this, getAttributeAccessor_none s _ hnd, getCallArguments_none s n _ hf.1]
    simp [isDigit]
  | some a =>
    simp only [optIdent] at ha
    simp only [attrBytes, List.length_cons] at hstop hf h2 ⊢
    have hdot : s[p + 1 + id.length]? = some 46 := by rw [at_cons] at h2; exact h2.1
    have hstop1 : StopAt s (p + 1 + id.length) isIdentByte := fun c hc => by rw [hdot] at hc; cases hc; decide
    have := getIdentifierUnchecked_at hs (p + 1) id hv h1 hstop1
    simp only [show p + 1 + 1 = p + 2 by omega] at this
    have e3 : p + 1 + id.length + 1 + a.length = p + 1 + id.length + (a.length + 1) := by omega
    have hstop2 : StopAt s (p + 1 + id.length + 1 + a.length) isIdentByte := by rw [e3]; exact hstop
    have hf2 : NoCallNoAttr s (p + 1 + id.length + 1 + a.length) := by rw [e3]; exact hf
    simp only [this, getAttributeAccessor_some hs (p + 1 + id.length) a ha h2 hstop2,
      getCallArguments_none s n _ hf2.1]
    simp [isDigit, e3]

end FluentProofs.Ser
