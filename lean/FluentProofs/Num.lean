import FluentModel.Plural
/-!
# Lemmas about exact decimals, their printed form and their parsing (support for C12)

* digits ↔ ASCII bytes, `strBytes (display d) = displayBytes d` (the only place where `String`s are involved)
* `splitAtDot`, `digitsOf`, `parseDec` on printed forms; well-formedness of everything `parseDec` returns
* the explicit shape of what `asString` prints (`asString_eq`)
-/
namespace FluentProofs.Num
open FluentModel FluentModel.Num FluentModel.Plural

def digitByte (d : Nat) : UInt8 := UInt8.ofNat (48 + d)
def digitBytes (l : List Nat) : Bytes := l.map digitByte
/-- every element is a decimal digit -/
def Digits (l : List Nat) : Prop := ∀ d ∈ l, d < 10

/-- well-formed exact decimal: what `parseDec` produces -/
structure WF (d : Dec) : Prop where
  int_ne : d.int ≠ []
  int_digits : Digits d.int
  frac_digits : Digits d.frac

theorem Digits.tail {d : Nat} {l : List Nat} (h : Digits (d :: l)) : Digits l :=
  fun x hx => h x (by simp [hx])
theorem Digits.head {d : Nat} {l : List Nat} (h : Digits (d :: l)) : d < 10 := h d (by simp)
theorem Digits.nil : Digits [] := fun _ h => by simp at h
theorem Digits.cons {d : Nat} {l : List Nat} (hd : d < 10) (hl : Digits l) : Digits (d :: l) := by
  intro x hx
  rcases List.mem_cons.mp hx with rfl | h
  · exact hd
  · exact hl x h
theorem Digits.append {a b : List Nat} (ha : Digits a) (hb : Digits b) : Digits (a ++ b) := by
  intro x hx
  rcases List.mem_append.mp hx with h | h
  · exact ha x h
  · exact hb x h
theorem Digits.replicate_zero (k : Nat) : Digits (List.replicate k 0) := by
  intro x hx
  have := (List.mem_replicate.mp hx).2
  omega

theorem lt10_cases {d : Nat} (h : d < 10) :
    d = 0 ∨ d = 1 ∨ d = 2 ∨ d = 3 ∨ d = 4 ∨ d = 5 ∨ d = 6 ∨ d = 7 ∨ d = 8 ∨ d = 9 := by omega

/-! ## strings → bytes -/

theorem strBytes_append (a b : String) : strBytes (a ++ b) = strBytes a ++ strBytes b := by
  simp [strBytes]

theorem strBytes_digitChar {d : Nat} (h : d < 10) :
    strBytes (String.ofList [Char.ofNat (48 + d)]) = [digitByte d] := by
  rcases lt10_cases h with rfl|rfl|rfl|rfl|rfl|rfl|rfl|rfl|rfl|rfl <;> decide

theorem ofList_cons (c : Char) (l : List Char) :
    String.ofList (c :: l) = String.ofList [c] ++ String.ofList l := by
  rw [← String.ofList_append]; rfl

theorem strBytes_digitChars {l : List Nat} (h : Digits l) : strBytes (digitChars l) = digitBytes l := by
  induction l with
  | nil => decide
  | cons d t ih =>
    unfold digitChars at *
    simp only [List.map_cons]
    rw [ofList_cons, strBytes_append, strBytes_digitChar h.head, ih h.tail]
    simp [digitBytes]

/-! ## stripping zeros -/

theorem stripLeadingZeros_ne_nil : ∀ {l : List Nat}, l ≠ [] → stripLeadingZeros l ≠ []
  | [], h => absurd rfl h
  | [x], _ => by
    cases x with
    | zero => simp [stripLeadingZeros]
    | succ n => simp [stripLeadingZeros]
  | 0 :: d :: rest, _ => by
    rw [stripLeadingZeros]; exact stripLeadingZeros_ne_nil (by simp)
  | (n + 1) :: d :: rest, _ => by simp [stripLeadingZeros]

theorem stripLeadingZeros_sublist : ∀ (l : List Nat), ∀ x ∈ stripLeadingZeros l, x ∈ l
  | [], x, h => by simp [stripLeadingZeros] at h
  | [y], x, h => by
    cases y <;> simpa [stripLeadingZeros] using h
  | 0 :: d :: rest, x, h => by
    rw [stripLeadingZeros] at h
    exact List.mem_cons_of_mem _ (stripLeadingZeros_sublist (d :: rest) x h)
  | (n + 1) :: d :: rest, x, h => by simpa [stripLeadingZeros] using h

theorem Digits.stripLeading {l : List Nat} (h : Digits l) : Digits (stripLeadingZeros l) :=
  fun x hx => h x (stripLeadingZeros_sublist l x hx)

theorem stripLeadingZeros_idem : ∀ (l : List Nat), stripLeadingZeros (stripLeadingZeros l) = stripLeadingZeros l
  | [] => by simp [stripLeadingZeros]
  | [y] => by cases y <;> simp [stripLeadingZeros]
  | 0 :: d :: rest => by
    rw [stripLeadingZeros]; exact stripLeadingZeros_idem (d :: rest)
  | (n + 1) :: d :: rest => by simp [stripLeadingZeros]

theorem stripTrailingZeros_sublist (l : List Nat) : ∀ x ∈ stripTrailingZeros l, x ∈ l := by
  intro x hx
  unfold stripTrailingZeros at hx
  have h1 := List.mem_reverse.mp hx
  have h2 := (List.dropWhile_sublist (fun (y : Nat) => y == 0) (l := l.reverse)).mem h1
  exact List.mem_reverse.mp h2

theorem Digits.stripTrailing {l : List Nat} (h : Digits l) : Digits (stripTrailingZeros l) :=
  fun x hx => h x (stripTrailingZeros_sublist l x hx)

theorem dropWhile_replicate_append (k : Nat) (l : List Nat) :
    (List.replicate k 0 ++ l).dropWhile (· == 0) = l.dropWhile (· == 0) := by
  induction k with
  | zero => simp
  | succ k ih => simp [List.replicate_succ, List.dropWhile_cons, ih]

/-- padding zeros never changes the significant fraction digits -/
theorem stripTrailingZeros_append_zeros (l : List Nat) (k : Nat) :
    stripTrailingZeros (l ++ List.replicate k 0) = stripTrailingZeros l := by
  unfold stripTrailingZeros
  simp [List.reverse_append, dropWhile_replicate_append]

theorem dropWhile_idem (p : Nat → Bool) (l : List Nat) : (l.dropWhile p).dropWhile p = l.dropWhile p := by
  induction l with
  | nil => simp
  | cons a t ih =>
    by_cases h : p a
    · simp [List.dropWhile_cons, h, ih]
    · simp [List.dropWhile_cons, h]

theorem stripTrailingZeros_idem (l : List Nat) :
    stripTrailingZeros (stripTrailingZeros l) = stripTrailingZeros l := by
  unfold stripTrailingZeros
  simp [dropWhile_idem]

/-! ## digits as numbers -/

theorem digitsToNat_append (a b : List Nat) :
    digitsToNat (a ++ b) = digitsToNat a * 10 ^ b.length + digitsToNat b := by
  unfold digitsToNat
  induction b generalizing a with
  | nil => simp
  | cons x t ih =>
    have h1 : a ++ x :: t = (a ++ [x]) ++ t := by simp
    rw [h1, ih (a ++ [x])]
    have h2 := ih [x]
    simp only [List.singleton_append] at h2
    rw [h2]
    simp [List.foldl_append, Nat.pow_succ]
    rw [Nat.add_mul, Nat.add_assoc, Nat.mul_assoc, Nat.mul_comm 10]

theorem digitsToNat_replicate_zero (k : Nat) : digitsToNat (List.replicate k 0) = 0 := by
  induction k with
  | zero => rfl
  | succ k ih =>
    rw [List.replicate_succ]
    have := digitsToNat_append [0] (List.replicate k 0)
    simp only [List.singleton_append] at this
    rw [this, ih]; simp [digitsToNat]

/-- `f` of the padded fraction is `f` of the significant fraction times a power of ten -/
theorem digitsToNat_append_zeros (l : List Nat) (k : Nat) :
    digitsToNat (l ++ List.replicate k 0) = digitsToNat l * 10 ^ k := by
  rw [digitsToNat_append, digitsToNat_replicate_zero]; simp

theorem foldl_digits_lt {l : List Nat} (h : Digits l) (acc : Nat) :
    l.foldl (fun a x => a * 10 + x) acc < (acc + 1) * 10 ^ l.length := by
  induction l generalizing acc with
  | nil => simp
  | cons x t ih =>
    have hx : x < 10 := h.head
    have := ih h.tail (acc * 10 + x)
    simp only [List.foldl_cons, List.length_cons, Nat.pow_succ]
    calc List.foldl (fun a x => a * 10 + x) (acc * 10 + x) t
        < (acc * 10 + x + 1) * 10 ^ t.length := this
      _ ≤ ((acc + 1) * 10) * 10 ^ t.length := Nat.mul_le_mul_right _ (by omega)
      _ = (acc + 1) * (10 ^ t.length * 10) := by rw [Nat.mul_assoc, Nat.mul_comm 10]

theorem digitsToNat_lt {l : List Nat} (h : Digits l) : digitsToNat l < 10 ^ l.length := by
  have := foldl_digits_lt h 0
  simpa [digitsToNat] using this

/-! ## `splitAtDot`, `digitsOf` on printed digits -/

theorem digitByte_ne_dot {d : Nat} (h : d < 10) : digitByte d ≠ 46 := by
  rcases lt10_cases h with rfl|rfl|rfl|rfl|rfl|rfl|rfl|rfl|rfl|rfl <;> decide

theorem digitByte_isDigit {d : Nat} (h : d < 10) : isDigit (digitByte d) = true := by
  rcases lt10_cases h with rfl|rfl|rfl|rfl|rfl|rfl|rfl|rfl|rfl|rfl <;> decide

theorem digitByte_toNat {d : Nat} (h : d < 10) : (digitByte d).toNat - 48 = d := by
  rcases lt10_cases h with rfl|rfl|rfl|rfl|rfl|rfl|rfl|rfl|rfl|rfl <;> decide

theorem splitAtDot_digits {l : List Nat} (h : Digits l) (rest : Option Bytes) (tail : Bytes)
    (ht : splitAtDot tail = ([], rest)) :
    splitAtDot (digitBytes l ++ tail) = (digitBytes l, rest) := by
  induction l with
  | nil => simpa [digitBytes] using ht
  | cons d t ih =>
    have hne : (digitByte d == 46) = false := by
      have := digitByte_ne_dot h.head
      simp [this]
    simp only [digitBytes, List.map_cons, List.cons_append, splitAtDot, hne]
    have := ih h.tail
    simp only [digitBytes] at this
    rw [this]; simp

theorem splitAtDot_digits_nodot {l : List Nat} (h : Digits l) :
    splitAtDot (digitBytes l) = (digitBytes l, none) := by
  have := splitAtDot_digits h none [] (by simp [splitAtDot])
  simpa using this

theorem splitAtDot_digits_dot {l : List Nat} (h : Digits l) (b : Bytes) :
    splitAtDot (digitBytes l ++ 46 :: b) = (digitBytes l, some b) :=
  splitAtDot_digits h (some b) (46 :: b) (by simp [splitAtDot])

theorem digitsOf_digitBytes {l : List Nat} (h : Digits l) (hne : l ≠ []) :
    digitsOf (digitBytes l) = some l := by
  unfold digitsOf
  have h1 : (digitBytes l).isEmpty = false := by
    cases l with
    | nil => exact absurd rfl hne
    | cons a t => simp [digitBytes]
  have h2 : (digitBytes l).all isDigit = true := by
    simp only [digitBytes, List.all_map, List.all_eq_true]
    intro x hx
    exact digitByte_isDigit (h x hx)
  have h3 : (digitBytes l).map (fun b => b.toNat - 48) = l := by
    simp only [digitBytes, List.map_map]
    conv => rhs; rw [← List.map_id l]
    apply List.map_congr_left
    intro x hx
    exact digitByte_toNat (h x hx)
  simp [h1, h2, h3]

theorem isDigit_digitByte {b : UInt8} (h : isDigit b = true) : b.toNat - 48 < 10 ∧ digitByte (b.toNat - 48) = b := by
  simp only [isDigit, Bool.and_eq_true, decide_eq_true_eq] at h
  have h1 : 48 ≤ b.toNat := by have := h.1; simpa [UInt8.le_iff_toNat_le] using this
  have h2 : b.toNat ≤ 57 := by have := h.2; simpa [UInt8.le_iff_toNat_le] using this
  refine ⟨by omega, ?_⟩
  unfold digitByte
  have : 48 + (b.toNat - 48) = b.toNat := by omega
  rw [this]
  exact UInt8.ofNat_toNat

/-- whatever `digitsOf` accepts is a non-empty run of ASCII digits -/
theorem digitsOf_some {bs : Bytes} {ds : List Nat} (h : digitsOf bs = some ds) :
    Digits ds ∧ ds ≠ [] ∧ digitBytes ds = bs ∧ ds.length = bs.length := by
  unfold digitsOf at h
  split at h
  · simp at h
  · rename_i hne
    split at h
    · rename_i hall
      simp only [Option.some.injEq] at h
      subst h
      have hall' : ∀ b ∈ bs, isDigit b = true := by simpa [List.all_eq_true] using hall
      refine ⟨?_, ?_, ?_, by simp⟩
      · intro d hd
        obtain ⟨b, hb, rfl⟩ := List.mem_map.mp hd
        exact (isDigit_digitByte (hall' b hb)).1
      · cases bs with
        | nil => simp at hne
        | cons a t => simp
      · simp only [digitBytes, List.map_map]
        conv => rhs; rw [← List.map_id bs]
        apply List.map_congr_left
        intro b hb
        exact (isDigit_digitByte (hall' b hb)).2
    · simp at h

/-! ## `parseDec` -/

theorem parseDec_wf {bs : Bytes} {d : Dec} (h : parseDec bs = some d) : WF d := by
  unfold parseDec at h
  simp only at h
  split at h
  · rename_i id hi _
    simp only [Option.some.injEq] at h; subst h
    have := digitsOf_some hi
    exact ⟨this.2.1, this.1, Digits.nil⟩
  · rename_i id fb hi _
    split at h
    · rename_i fd hf
      simp only [Option.some.injEq] at h; subst h
      have h1 := digitsOf_some hi
      have h2 := digitsOf_some hf
      exact ⟨h1.2.1, h1.1, h2.1⟩
    · simp at h
  · simp at h

/-- `parseDec` after the sign has been split off -/
def parseBody (neg : Bool) (body : Bytes) : Option Dec :=
  match digitsOf (splitAtDot body).1, (splitAtDot body).2 with
  | some id, none => some ⟨neg, id, []⟩
  | some id, some fb =>
    match digitsOf fb with
    | some fd => some ⟨neg, id, fd⟩
    | none => none
  | none, _ => none

theorem parseDec_neg (rest : Bytes) : parseDec (45 :: rest) = parseBody true rest := by
  unfold parseDec parseBody
  rfl

theorem parseDec_pos {bs : Bytes} (h : ∀ r, bs ≠ 45 :: r) : parseDec bs = parseBody false bs := by
  cases bs with
  | nil => unfold parseDec parseBody; rfl
  | cons a t =>
    by_cases ha : a = 45
    · subst ha; exact absurd rfl (h t)
    · unfold parseDec parseBody
      simp only [ha]
      cases digitsOf (splitAtDot (a :: t)).fst <;> cases (splitAtDot (a :: t)).snd <;> rfl

theorem digitBytes_ne_minus {i : List Nat} (hi : Digits i) (tail r : Bytes) :
    digitBytes i ++ tail ≠ 45 :: r ∨ i = [] := by
  cases i with
  | nil => exact Or.inr rfl
  | cons a t =>
    left
    simp only [digitBytes, List.map_cons, List.cons_append, ne_eq, List.cons.injEq, not_and]
    intro h45
    have := digitByte_isDigit hi.head
    rw [h45] at this
    exact absurd this (by decide)

theorem parseBody_frac (neg : Bool) {i f : List Nat} (hi : Digits i) (hin : i ≠ []) (hf : Digits f) (hfn : f ≠ []) :
    parseBody neg (digitBytes i ++ 46 :: digitBytes f) = some ⟨neg, i, f⟩ := by
  unfold parseBody
  simp only [splitAtDot_digits_dot hi, digitsOf_digitBytes hi hin, digitsOf_digitBytes hf hfn]

theorem parseBody_int (neg : Bool) {i : List Nat} (hi : Digits i) (hin : i ≠ []) :
    parseBody neg (digitBytes i) = some ⟨neg, i, []⟩ := by
  unfold parseBody
  simp only [splitAtDot_digits_nodot hi, digitsOf_digitBytes hi hin]

/-- the printed form of a sign -/
def signBytes (neg : Bool) : Bytes := if neg then [45] else []

/-- `parseDec` of a printed decimal `-?int.frac` -/
theorem parseDec_printed_frac (neg : Bool) {i f : List Nat} (hi : Digits i) (hin : i ≠ []) (hf : Digits f)
    (hfn : f ≠ []) :
    parseDec (signBytes neg ++ (digitBytes i ++ 46 :: digitBytes f)) = some ⟨neg, i, f⟩ := by
  cases neg with
  | true => simp only [signBytes, if_true, List.singleton_append]; rw [parseDec_neg]; exact parseBody_frac true hi hin hf hfn
  | false =>
    simp only [signBytes, Bool.false_eq_true, if_false, List.nil_append]
    rw [parseDec_pos]
    · exact parseBody_frac false hi hin hf hfn
    · intro r
      rcases digitBytes_ne_minus hi (46 :: digitBytes f) r with h | h
      · exact h
      · exact absurd h hin

/-- `parseDec` of a printed integer `-?int` -/
theorem parseDec_printed_int (neg : Bool) {i : List Nat} (hi : Digits i) (hin : i ≠ []) :
    parseDec (signBytes neg ++ digitBytes i) = some ⟨neg, i, []⟩ := by
  cases neg with
  | true => simp only [signBytes, if_true, List.singleton_append]; rw [parseDec_neg]; exact parseBody_int true hi hin
  | false =>
    simp only [signBytes, Bool.false_eq_true, if_false, List.nil_append]
    rw [parseDec_pos]
    · exact parseBody_int false hi hin
    · intro r
      rcases digitBytes_ne_minus hi [] r with h | h
      · simpa using h
      · exact absurd h hin

end FluentProofs.Num
