import FluentModel.Resolver
/-!
# C09, byte level: the marks FSI (U+2068 = `E2 81 A8`) and PDI (U+2069 = `E2 81 A9`)

* `strip` removes every mark found by a left-to-right scan; `scan`/`Balanced` is the Dyck check of the
  same scan (this is exactly the `balanced` / `strip` of `tools/fv/props/c09.py` on valid UTF-8).
* `MarkFree p` is the hypothesis on the *pieces* the resolver writes (texts, literals, argument
  values, function / formatter / transform outputs, identifiers): every byte `E2` of `p` is followed
  **inside `p`** by two bytes that do not complete a mark.  It says both "contains no mark" and "does
  not end in a partial mark"; "does not start with the tail of a mark" is not needed separately
  because a tail can only be completed by an `E2` of the piece before, which `MarkFree` forbids.
  `MarkFree` is closed under concatenation, so junctions between pieces never create a mark.
  Every concatenation of well-formed UTF-8 sequences other than U+2068 / U+2069 is `MarkFree`
  (`markFree_of_utf8`).
* `Dyck` — balanced insertions of marks into mark-free pieces; `Iso on off` — `on` is `off` with
  balanced `fsi … pdi` pairs inserted.
-/
namespace FluentProofs.Bidi
open FluentModel FluentModel.Resolver

/-- the three bytes form FSI or PDI -/
def isMark (b0 b1 b2 : UInt8) : Bool := b0 == 0xE2 && b1 == 0x81 && (b2 == 0xA8 || b2 == 0xA9)

/-- remove every FSI / PDI (left-to-right scan) -/
def strip : Bytes → Bytes
  | [] => []
  | [a] => [a]
  | [a, b] => [a, b]
  | b0 :: b1 :: b2 :: r => if isMark b0 b1 b2 then strip r else b0 :: strip (b1 :: b2 :: r)

@[simp] theorem strip_nil : strip [] = [] := by rw [strip]

/-- nesting depth after scanning; `none` = a PDI without an open FSI -/
def scan : Bytes → Nat → Option Nat
  | [], d => some d
  | [_], d => some d
  | [_, _], d => some d
  | b0 :: b1 :: b2 :: r, d =>
    if b0 = 0xE2 ∧ b1 = 0x81 ∧ b2 = 0xA8 then scan r (d + 1)
    else if b0 = 0xE2 ∧ b1 = 0x81 ∧ b2 = 0xA9 then (if d = 0 then none else scan r (d - 1))
    else scan (b1 :: b2 :: r) d

@[simp] theorem scan_nil (d : Nat) : scan [] d = some d := by rw [scan]

/-- the marks of `b` are balanced and properly nested -/
def Balanced (b : Bytes) : Prop := scan b 0 = some 0

instance (b : Bytes) : Decidable (Balanced b) := by unfold Balanced; infer_instance

/-- `b` contains neither FSI nor PDI as a contiguous byte sequence -/
def NoMarks (b : Bytes) : Prop := ∀ pre post, b ≠ pre ++ fsi ++ post ∧ b ≠ pre ++ pdi ++ post

/-- piece hypothesis: every `E2` is followed inside the piece by two bytes not completing a mark -/
inductive MarkFree : Bytes → Prop
  | nil : MarkFree []
  | cons (b : UInt8) {r : Bytes} : b ≠ 0xE2 → MarkFree r → MarkFree (b :: r)
  | e2 (x y : UInt8) {r : Bytes} : isMark 0xE2 x y = false → MarkFree (x :: y :: r) → MarkFree (0xE2 :: x :: y :: r)

/-- executable form of `MarkFree` (for tests) -/
def markFreeB : Bytes → Bool
  | [] => true
  | b0 :: t =>
    if b0 = 0xE2 then
      match t with
      | b1 :: b2 :: _ => !isMark b0 b1 b2 && markFreeB t
      | _ => false
    else markFreeB t

theorem markFreeB_sound : ∀ b, markFreeB b = true → MarkFree b
  | [], _ => .nil
  | b0 :: t, h => by
    unfold markFreeB at h
    by_cases h0 : b0 = 0xE2
    · subst h0
      rcases t with _ | ⟨b1, _ | ⟨b2, r⟩⟩ <;> simp at h
      exact .e2 b1 b2 (by simpa using h.1) (markFreeB_sound _ h.2)
    · simp [h0] at h
      exact .cons b0 h0 (markFreeB_sound _ h)

theorem MarkFree.tail {b : UInt8} {r : Bytes} (h : MarkFree (b :: r)) : MarkFree r := by
  cases h with
  | cons _ _ h => exact h
  | e2 _ _ _ h => exact h

theorem MarkFree.append {p q : Bytes} (hp : MarkFree p) (hq : MarkFree q) : MarkFree (p ++ q) := by
  induction hp with
  | nil => exact hq
  | cons b hb _ ih => exact .cons b hb ih
  | e2 x y hm _ ih => exact .e2 x y hm ih

theorem MarkFree.drop {q : Bytes} : ∀ (p : Bytes), MarkFree (p ++ q) → MarkFree q
  | [], h => h
  | _ :: p, h => MarkFree.drop p h.tail

theorem MarkFree.single {b : UInt8} (h : b ≠ 0xE2) : MarkFree [b] := .cons b h .nil

/-- a mark-free piece contains no mark -/
theorem MarkFree.noMarks {b : Bytes} (h : MarkFree b) : NoMarks b := by
  intro pre post
  constructor
  · intro e; subst e
    rw [List.append_assoc] at h
    have h' := MarkFree.drop pre h
    cases h' with
    | cons _ hb _ => exact hb rfl
    | e2 _ _ hm _ => simp [isMark] at hm
  · intro e; subst e
    rw [List.append_assoc] at h
    have h' := MarkFree.drop pre h
    cases h' with
    | cons _ hb _ => exact hb rfl
    | e2 _ _ hm _ => simp [isMark] at hm

/-! ## `strip` and `scan` across junctions -/

theorem strip_cons_of_ne {b : UInt8} (h : b ≠ 0xE2) (x : Bytes) : strip (b :: x) = b :: strip x := by
  rcases x with _ | ⟨c, _ | ⟨d, y⟩⟩ <;> simp [strip, isMark, h]

theorem strip_e2_of_not {x y : UInt8} (h : isMark 0xE2 x y = false) (r : Bytes) :
    strip (0xE2 :: x :: y :: r) = 0xE2 :: strip (x :: y :: r) := by
  rw [strip]; simp [h]

theorem strip_fsi (r : Bytes) : strip (fsi ++ r) = strip r := by
  simp [fsi, strip, isMark]

theorem strip_pdi (r : Bytes) : strip (pdi ++ r) = strip r := by
  simp [pdi, strip, isMark]

/-- junction lemma: a mark-free piece passes through `strip` unchanged whatever follows it -/
theorem strip_markFree_append {p : Bytes} (hp : MarkFree p) (r : Bytes) : strip (p ++ r) = p ++ strip r := by
  induction hp with
  | nil => rfl
  | cons b hb _ ih => simp only [List.cons_append]; rw [strip_cons_of_ne hb, ih]
  | e2 x y hm _ ih =>
    simp only [List.cons_append] at ih ⊢
    rw [strip_e2_of_not hm, ih]

theorem strip_markFree {p : Bytes} (hp : MarkFree p) : strip p = p := by
  have := strip_markFree_append hp []
  simpa [strip] using this

theorem scan_cons_of_ne {b : UInt8} (h : b ≠ 0xE2) (x : Bytes) (d : Nat) : scan (b :: x) d = scan x d := by
  rcases x with _ | ⟨c, _ | ⟨e, y⟩⟩ <;> simp [scan, h]

theorem scan_e2_of_not {x y : UInt8} (h : isMark 0xE2 x y = false) (r : Bytes) (d : Nat) :
    scan (0xE2 :: x :: y :: r) d = scan (x :: y :: r) d := by
  rw [scan]
  have h1 : ¬ (x = 0x81 ∧ y = 0xA8) := by intro ⟨a, b⟩; subst a; subst b; simp [isMark] at h
  have h2 : ¬ (x = 0x81 ∧ y = 0xA9) := by intro ⟨a, b⟩; subst a; subst b; simp [isMark] at h
  rw [if_neg (fun c => h1 c.2), if_neg (fun c => h2 c.2)]

theorem scan_fsi (r : Bytes) (d : Nat) : scan (fsi ++ r) d = scan r (d + 1) := by
  simp [fsi, scan]

theorem scan_pdi (r : Bytes) (d : Nat) : scan (pdi ++ r) (d + 1) = scan r d := by
  simp only [pdi, List.cons_append, List.nil_append]; rw [scan]; simp

theorem scan_markFree_append {p : Bytes} (hp : MarkFree p) (r : Bytes) (d : Nat) : scan (p ++ r) d = scan r d := by
  induction hp with
  | nil => rfl
  | cons b hb _ ih => simp only [List.cons_append]; rw [scan_cons_of_ne hb, ih]
  | e2 x y hm _ ih =>
    simp only [List.cons_append] at ih ⊢
    rw [scan_e2_of_not hm, ih]

/-! ## the Dyck language over mark-free pieces -/

/-- mark-free pieces with balanced, properly nested `fsi … pdi` pairs around them -/
inductive Dyck : Bytes → Prop
  | nil : Dyck []
  | piece {p a : Bytes} : MarkFree p → Dyck a → Dyck (p ++ a)
  | wrap {a c : Bytes} : Dyck a → Dyck c → Dyck (fsi ++ (a ++ (pdi ++ c)))

theorem Dyck.of_markFree {p : Bytes} (h : MarkFree p) : Dyck p := by
  have := Dyck.piece h Dyck.nil
  simpa using this

theorem Dyck.append {a b : Bytes} (ha : Dyck a) (hb : Dyck b) : Dyck (a ++ b) := by
  induction ha with
  | nil => exact hb
  | piece hp _ ih => rw [List.append_assoc]; exact .piece hp ih
  | wrap h1 _ _ ih2 =>
    have := Dyck.wrap h1 ih2
    simpa [List.append_assoc] using this

theorem Dyck.isolate {a : Bytes} (ha : Dyck a) : Dyck (fsi ++ (a ++ pdi)) := by
  have := Dyck.wrap ha Dyck.nil
  simpa using this

theorem Dyck.scan_append {a : Bytes} (ha : Dyck a) : ∀ (r : Bytes) (d : Nat), scan (a ++ r) d = scan r d := by
  induction ha with
  | nil => intro r d; rfl
  | piece hp _ ih => intro r d; rw [List.append_assoc, scan_markFree_append hp, ih]
  | wrap _ _ ih1 ih2 =>
    intro r d
    rw [List.append_assoc, scan_fsi, List.append_assoc, ih1, List.append_assoc, scan_pdi, ih2]

theorem Dyck.balanced {a : Bytes} (ha : Dyck a) : Balanced a := by
  have := ha.scan_append [] 0
  simpa [Balanced, scan] using this

/-- stripping a Dyck word leaves a mark-free word -/
theorem Dyck.strip_markFree {a : Bytes} (ha : Dyck a) : MarkFree (strip a) := by
  induction ha with
  | nil => exact .nil
  | piece hp _ ih => rw [strip_markFree_append hp]; exact hp.append ih
  | wrap h1 h2 ih1 ih2 =>
    rw [strip_fsi]
    -- strip (a ++ pdi ++ c) = strip a ++ strip c, by induction on the Dyck structure of `a`
    have key : ∀ {a : Bytes}, Dyck a → ∀ r, strip (a ++ r) = strip a ++ strip r := by
      intro a ha
      induction ha with
      | nil => intro r; rfl
      | piece hp _ ih => intro r; rw [List.append_assoc, strip_markFree_append hp, ih, strip_markFree_append hp, List.append_assoc]
      | wrap _ _ ih1 ih2 =>
        intro r
        rw [List.append_assoc, strip_fsi, List.append_assoc, ih1, List.append_assoc, strip_pdi, ih2,
          strip_fsi, ih1, strip_pdi, List.append_assoc]
    rw [key h1, strip_pdi]
    exact ih1.append ih2

/-! ## "`on` is `off` with marks inserted" -/

/-- `on` is `off` with balanced `fsi … pdi` pairs inserted (no condition on the bytes of `off`) -/
inductive Iso : Bytes → Bytes → Prop
  | nil : Iso [] []
  | byte (b : UInt8) {a c : Bytes} : Iso a c → Iso (b :: a) (b :: c)
  | wrap {a b c d : Bytes} : Iso a b → Iso c d → Iso (fsi ++ (a ++ (pdi ++ c))) (b ++ d)

theorem Iso.refl : ∀ (p : Bytes), Iso p p
  | [] => .nil
  | b :: p => .byte b (Iso.refl p)

theorem Iso.append {a b c d : Bytes} (h1 : Iso a b) (h2 : Iso c d) : Iso (a ++ c) (b ++ d) := by
  induction h1 with
  | nil => exact h2
  | byte b _ ih => exact .byte b ih
  | wrap h h' _ ih2 =>
    have := Iso.wrap h ih2
    simpa [List.append_assoc] using this

theorem Iso.isolate {a b : Bytes} (h : Iso a b) : Iso (fsi ++ (a ++ pdi)) b := by
  have := Iso.wrap h Iso.nil
  simpa using this

/-- marks inserted anywhere (balance forgotten) -/
inductive Ins : Bytes → Bytes → Prop
  | nil : Ins [] []
  | byte (b : UInt8) {a c : Bytes} : Ins a c → Ins (b :: a) (b :: c)
  | fsi {a c : Bytes} : Ins a c → Ins (fsi ++ a) c
  | pdi {a c : Bytes} : Ins a c → Ins (pdi ++ a) c

theorem Ins.append {a b c d : Bytes} (h1 : Ins a b) (h2 : Ins c d) : Ins (a ++ c) (b ++ d) := by
  induction h1 with
  | nil => exact h2
  | byte b _ ih => exact .byte b ih
  | fsi _ ih => rw [List.append_assoc]; exact .fsi ih
  | pdi _ ih => rw [List.append_assoc]; exact .pdi ih

theorem Iso.ins {a b : Bytes} (h : Iso a b) : Ins a b := by
  induction h with
  | nil => exact .nil
  | byte b _ ih => exact .byte b ih
  | wrap _ _ ih1 ih2 => exact .fsi (ih1.append (.pdi ih2))

private theorem ins_not_tail {a : Bytes} {x y : UInt8} {r : Bytes} (h : Ins a (x :: y :: r))
    (hm : isMark 0xE2 x y = false) :
    ∀ b1 b2 a', a = b1 :: b2 :: a' → isMark 0xE2 b1 b2 = false := by
  intro b1 b2 a' e
  cases h with
  | byte _ h1 =>
    cases h1 with
    | byte _ _ => simp at e; rcases e with ⟨rfl, rfl, _⟩; exact hm
    | fsi _ => simp [fsi] at e; rcases e with ⟨rfl, rfl, _⟩; simp [isMark]
    | pdi _ => simp [pdi] at e; rcases e with ⟨rfl, rfl, _⟩; simp [isMark]
  | fsi _ => simp [fsi] at e; rcases e with ⟨rfl, rfl, _⟩; simp [isMark]
  | pdi _ => simp [pdi] at e; rcases e with ⟨rfl, rfl, _⟩; simp [isMark]

private theorem strip_e2_general (a : Bytes) (h : ∀ b1 b2 a', a = b1 :: b2 :: a' → isMark 0xE2 b1 b2 = false) :
    strip (0xE2 :: a) = 0xE2 :: strip a := by
  rcases a with _ | ⟨b1, _ | ⟨b2, a'⟩⟩
  · simp [strip]
  · simp [strip]
  · rw [strip]; simp [h b1 b2 a' rfl]

/-- **additivity at byte level**: inserting marks into a mark-free text and stripping gives it back -/
theorem Ins.strip_eq {on off : Bytes} (h : Ins on off) (hoff : MarkFree off) : strip on = off := by
  induction h with
  | nil => rfl
  | fsi _ ih => rw [strip_fsi]; exact ih hoff
  | pdi _ ih => rw [strip_pdi]; exact ih hoff
  | byte b h1 ih =>
    have ih := ih hoff.tail
    by_cases hb : b = 0xE2
    · subst hb
      cases hoff with
      | cons _ hne _ => exact absurd rfl hne
      | e2 x y hm _ => rw [strip_e2_general _ (ins_not_tail h1 hm), ih]
    · rw [strip_cons_of_ne hb, ih]

theorem Iso.strip_eq {on off : Bytes} (h : Iso on off) (hoff : MarkFree off) : strip on = off := h.ins.strip_eq hoff

/-! ## well-formed UTF-8 pieces are mark-free -/

def isCont (b : UInt8) : Prop := 0x80 ≤ b ∧ b ≤ 0xBF

/-- the shape of one UTF-8 encoded scalar (lead byte class + continuation bytes) -/
inductive Utf8Seq : Bytes → Prop
  | one (b : UInt8) : b < 0x80 → Utf8Seq [b]
  | two (b0 b1 : UInt8) : 0xC2 ≤ b0 → b0 ≤ 0xDF → isCont b1 → Utf8Seq [b0, b1]
  | three (b0 b1 b2 : UInt8) : 0xE0 ≤ b0 → b0 ≤ 0xEF → isCont b1 → isCont b2 → Utf8Seq [b0, b1, b2]
  | four (b0 b1 b2 b3 : UInt8) : 0xF0 ≤ b0 → b0 ≤ 0xF4 → isCont b1 → isCont b2 → isCont b3 → Utf8Seq [b0, b1, b2, b3]

theorem isCont_ne {b : UInt8} (h : isCont b) : b ≠ 0xE2 := by
  intro e; subst e; exact absurd h.2 (by decide)

/-- any concatenation of UTF-8 sequences none of which is U+2068 / U+2069 satisfies the piece hypothesis -/
theorem markFree_of_utf8 : ∀ (cs : List Bytes), (∀ c ∈ cs, Utf8Seq c ∧ c ≠ fsi ∧ c ≠ pdi) → MarkFree cs.flatten
  | [], _ => .nil
  | c :: cs, h => by
    have ih := markFree_of_utf8 cs (fun c hc => h c (List.mem_cons_of_mem _ hc))
    obtain ⟨hs, hf, hp⟩ := h c List.mem_cons_self
    rw [List.flatten_cons]
    refine MarkFree.append ?_ ih
    cases hs with
    | one b hb => exact .single (by intro e; subst e; exact absurd hb (by decide))
    | two b0 b1 _ h1 c1 =>
      exact .cons b0 (by intro e; subst e; exact absurd h1 (by decide)) (.single (isCont_ne c1))
    | three b0 b1 b2 _ _ c1 c2 =>
      by_cases e : b0 = 0xE2
      · subst e
        refine .e2 b1 b2 ?_ (.cons b1 (isCont_ne c1) (.single (isCont_ne c2)))
        cases hm : isMark 0xE2 b1 b2 with
        | false => rfl
        | true =>
          simp [isMark] at hm
          rcases hm with ⟨rfl, rfl | rfl⟩
          · exact absurd rfl hf
          · exact absurd rfl hp
      · exact .cons b0 e (.cons b1 (isCont_ne c1) (.single (isCont_ne c2)))
    | four b0 b1 b2 b3 h0 _ c1 c2 c3 =>
      exact .cons b0 (by intro e; subst e; exact absurd h0 (by decide))
        (.cons b1 (isCont_ne c1) (.cons b2 (isCont_ne c2) (.single (isCont_ne c3))))

end FluentProofs.Bidi
